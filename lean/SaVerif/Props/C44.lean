import SaVerif.Lemmas.Version
/-!
# C44 — Version counters prevent lost updates

Theorems about M-ORM/version (`SaVerif/Model/Version.lean`): any number of
sessions, rows and operations; histories are arbitrary `List Op` (all
interleavings), invariants are proved by induction over `run`.

* `stale_flush_fails_no_change` — a commit that has to write a row whose current
  version differs from the one the session loaded (or whose row vanished) does not
  succeed and changes nothing; `failed_commit_db_unchanged`, `tryflush_db_unchanged`,
  `only_successful_commit_changes_db`.
* `version_monotone` — every row touched by a successful commit gets version
  `old + 1` (integer counter); untouched rows are identical; inserts start at 1.
* `no_lost_update_fresh` — with a generator of never-used values no successful
  write ever replaces a content its session had not seen (ghost stamps), for every
  history.
* `no_lost_update_partial` — with the integer counter the same holds unless a
  deleted primary key was inserted again; `no_lost_update_counterexample` is that
  ABA history (the full statement is false of the model and of the code).
* `failed_commit_leaves_nothing_to_write`, `failed_commit_then_commit_db_unchanged` — a
  rejected flush leaves no pending object, deletion mark or modified object behind, also
  when it ran inside a SAVEPOINT that alone is rolled back (the enclosing transaction
  commits): the rejected change is never applied later.  Uses the regenerated
  `savepointRollbackExpiresModified`.
* `writer_version_eq_row_after_commit` — every record of a successful flush leaves its
  object with the version stored in its own row (one UPDATE per versioned record:
  regenerated `versionedUpdateExecutemany = false`).
* `commit_applies_pending_partial` / `commit_applies_pending_counterexample` — a
  successful commit stores every pending object, except in the row-switch corner
  transcribed as `Act.insDel` (finding).
-/
namespace SaVerif.Props.C44
open SaVerif.Version SaVerif.Gen.VersionCfg

/-! ## the regenerated table (translator obligations)

`counterStart` / `counterStep` are read from the lambda in orm/mapper.py on every
run; a source edit re-runs these two `decide`s. -/

/-- the default generator really counts upwards -/
theorem counter_step_pos : 0 < counterStep := by decide

/-- a fresh row gets a non-zero version (so `(x or start)` never sees 0 again) -/
theorem counter_first_pos : 0 < counterStart + counterStep := by decide

/-- `persistence._emit_update_statements`: `allow_executemany` excludes versioned rows
    (`… and not needs_version_id`), so each versioned record is its own UPDATE statement and is
    post-fetched from its own parameters.  Read from the source on every run. -/
theorem versioned_update_row_by_row : versionedUpdateExecutemany = false := by decide

/-- `SessionTransaction._restore_snapshot(dirty_only=True)`: the states expired when a
    SAVEPOINT is rolled back include the modified ones.  Read from the source on every run. -/
theorem savepoint_rollback_expires_modified : savepointRollbackExpiresModified = true := by decide

/-! ## a stale flush fails and changes nothing -/

theorem only_successful_commit_changes_db (c : Cfg) (st : St) (op : Op)
    (h : ∀ s, op = .commit s → (step c st op).2 ≠ .flush .ok) : (step c st op).1.db = st.db :=
  (step_quiet c st op h).db

theorem failed_commit_db_unchanged (c : Cfg) (st : St) (s : Nat)
    (h : (step c st (.commit s)).2 ≠ .flush .ok) : (step c st (.commit s)).1.db = st.db :=
  only_successful_commit_changes_db c st _ (fun s' hs => by cases hs; exact h)

theorem tryflush_db_unchanged (c : Cfg) (st : St) (s : Nat) :
    (step c st (.tryflush s)).1.db = st.db :=
  only_successful_commit_changes_db c st _ (fun _ hs => by cases hs)

/-- **stale_flush_fails_no_change**.  Session `s` holds a persistent object for row
    `k` whose loaded version is `v`, it is going to write it (marked deleted, or a
    net change), and the table no longer has a row `k` with version `v`: the commit
    does not succeed and the table is unchanged. -/
theorem stale_flush_fails_no_change (c : Cfg) (st : St) (s k : Nat) (p : PObj) (v : Nat)
    (hk : k < c.npk) (hp : (st.sess s k).pers = some p) (hv : p.ver = some v)
    (hw : p.del = true ∨ (netChange p = true ∧ (st.sess s k).pend = none))
    (hstale : ∀ r, st.db k = some r → r.ver ≠ v) :
    (step c st (.commit s)).2 ≠ .flush .ok ∧ (step c st (.commit s)).1.db = st.db := by
  have key : (step c st (.commit s)).2 ≠ .flush .ok := by
    have hno : flushOutcome c.npk (st.sess s) st.db ≠ .ok := by
      apply flushOutcome_not_ok_of hk
      have hnm : noMatch (some v) (st.db k) = true := by
        unfold noMatch
        cases hr : st.db k with
        | none => rfl
        | some r =>
          have := hstale r hr
          simp only [useVer, bne_iff_ne, ne_eq, Option.some.injEq]
          exact fun h => this h.symm
      rcases hsl : st.sess s k with ⟨pers, pend⟩
      simp only [hsl] at hp hw
      subst hp
      rcases hw with hdel | ⟨hnet, hpend⟩
      · cases pend with
        | none =>
          right
          simp [actOf, hdel, staleDel, hv, hnm]
        | some w =>
          left
          simp [actOf, hdel, hv, staleUpd, hnm]
      · subst hpend
        by_cases hdel : p.del = true
        · right
          simp [actOf, hdel, staleDel, hv, hnm]
        · left
          have hmod : p.mod = true := by
            unfold netChange at hnet
            simp only [Bool.and_eq_true] at hnet
            exact hnet.1
          simp [actOf, hdel, hmod, hnet, staleUpd, hv, hnm]
    simp only [step, doFlush, Bool.not_true, Bool.false_and, Bool.false_eq_true, if_false]
    exact fun h => hno (Out.flush.inj h)
  exact ⟨key, failed_commit_db_unchanged c st s key⟩

/-! ## every successful update increments the version -/

theorem applyRow_tick (g : Gen) (clock k : Nat) (a : Act) (row : Option Row) :
    applyRow g clock k a row = applyRow g 0 (clock + k) a row := by
  cases a <;> simp [applyRow, tick]

theorem afterFlushSlot_tick (g : Gen) (clock k : Nat) (sl : Slot) (row : Option Row) :
    afterFlushSlot g clock k sl row = afterFlushSlot g 0 (clock + k) sl row := by
  unfold afterFlushSlot
  split <;> simp [tick]

/-- the successful-commit branch of `step` -/
theorem commit_ok_state (c : Cfg) (st : St) (s : Nat)
    (hok : (step c st (.commit s)).2 = .flush .ok) :
    flushOutcome c.npk (st.sess s) st.db = .ok ∧ (step c st (.commit s)).1 = flushOk c st s true := by
  simp only [step, doFlush, Bool.not_true, Bool.false_and, Bool.false_eq_true, if_false] at hok ⊢
  cases ho : flushOutcome c.npk (st.sess s) st.db <;> simp only [ho] at hok ⊢
  · exact ⟨trivial, trivial⟩
  all_goals cases hok

theorem flushOk_db (c : Cfg) (st : St) (s k : Nat) :
    (flushOk c st s true).db k =
      if k < c.npk then applyRow c.gen 0 (st.clock + k) (actOf (st.sess s k) (st.db k)) (st.db k)
      else st.db k := by
  simp only [flushOk, if_true]
  split
  · rw [applyRow_tick]
  · rfl

/-- **version_monotone**: under the integer counter a successful commit leaves each
    existing row identical or gives it a strictly larger version, `old + counterStep`
    (= `old + 1` for the current source, see `counter_step_pos`); a row that did not
    exist starts at `counterStart + counterStep` (= 1). -/
theorem version_monotone (c : Cfg) (hc : c.gen = .counter) (st : St) (s : Nat)
    (hok : (step c st (.commit s)).2 = .flush .ok) (k : Nat) (r' : Row)
    (h1 : (step c st (.commit s)).1.db k = some r') :
    (∀ r, st.db k = some r → r' = r ∨ (r'.ver = r.ver + counterStep ∧ r.ver < r'.ver)) ∧
      (st.db k = none → r'.ver = counterStart + counterStep) := by
  obtain ⟨ho, hst⟩ := commit_ok_state c st s hok
  rw [hst, flushOk_db] at h1
  by_cases hk : k < c.npk
  · rw [if_pos hk] at h1
    have fk := flushK_of_pass c.gen (st.clock + k) (st.everDel k) _ _ (flushOutcome_ok ho hk)
    generalize applyRow c.gen 0 (st.clock + k) (actOf (st.sess s k) (st.db k)) (st.db k) = row' at fk h1
    generalize afterFlushSlot c.gen 0 (st.clock + k) (st.sess s k) (st.db k) = sl' at fk
    cases fk with
    | same sl' hp hd hr hl =>
      exact ⟨fun r hr => Or.inl (by rw [hr] at h1; cases h1; rfl), fun hn => by rw [hn] at h1; cases h1⟩
    | upd r v hrow hseen hd hr =>
      cases h1
      refine ⟨fun r0 hr0 => ?_, fun hn => by rw [hn] at hrow; cases hrow⟩
      rw [hrow] at hr0; cases hr0
      right
      have := counter_step_pos
      simp only [newVer, hc, Option.getD_some]
      exact ⟨trivial, by omega⟩
    | ins v hrow hd hr hl =>
      cases h1
      refine ⟨fun r0 hr0 => (by rw [hrow] at hr0; cases hr0), fun _ => ?_⟩
      simp [newVer, hc]
    | del sl' hd hr hsl hseen => cases h1
  · rw [if_neg hk] at h1
    exact ⟨fun r hr => Or.inl (by rw [hr] at h1; cases h1; rfl), fun hn => by rw [hn] at h1; cases h1⟩

/-! ## no lost update -/

theorem flushOk_sess_other (c : Cfg) (st : St) (s t : Nat) (h : t ≠ s) :
    (flushOk c st s true).sess t = st.sess t := by
  simp only [flushOk]
  exact updSess_other _ _ _ _ h

theorem flushOk_sess_self (c : Cfg) (st : St) (s k : Nat) :
    (flushOk c st s true).sess s k =
      (let sl := if k < c.npk then afterFlushSlot c.gen 0 (st.clock + k) (st.sess s k) (st.db k)
                 else st.sess s k
       if c.eoc then expireSlot sl else sl) := by
  simp only [flushOk, updSess_same, if_true]
  by_cases hk : k < c.npk
  · simp only [if_pos hk]
    rw [batchFix_eq versioned_update_row_by_row, afterFlushSlot_tick]
  · simp only [if_neg hk]

theorem flushOk_lost (c : Cfg) (st : St) (s : Nat) :
    (flushOk c st s true).lost = (st.lost || anyPk c.npk (fun k => lostAt (st.sess s k) (st.db k))) := by
  simp [flushOk]

theorem flushOk_reins (c : Cfg) (st : St) (s : Nat) :
    (flushOk c st s true).reins =
      (st.reins || anyPk c.npk (fun k => reinsAt (st.everDel k) (actOf (st.sess s k) (st.db k)))) := by
  simp [flushOk]

theorem flushOk_everDel (c : Cfg) (st : St) (s k : Nat) :
    (flushOk c st s true).everDel k =
      (st.everDel k || (decide (k < c.npk) && isDelAct (actOf (st.sess s k) (st.db k)))) := by
  simp [flushOk]

/-- a write at `k` whose session saw the current content is not a lost update -/
theorem lostAt_false_of_seen (sl : Slot) (row : Option Row)
    (h : ∀ p w r, sl.pers = some p → p.ver = some w → row = some r → p.seen = r.stamp) :
    lostAt sl row = false := by
  unfold lostAt
  have aux : ∀ p r, sl.pers = some p → row = some r → (seenAtFlush p row != some r.stamp) = false := by
    intro p r hp hr
    unfold seenAtFlush
    cases hv : p.ver with
    | none => simp [hr]
    | some w => simp [h p w r hp hv hr]
  cases ha : actOf sl row <;> cases hp : sl.pers <;> cases hr : row <;>
    first
    | rfl
    | (rename_i p r; simpa [hr] using aux p r hp hr)

/-! ## a failed flush leaves nothing behind; the writer carries the version it wrote -/

/-- a slot the next flush has nothing to do for -/
def SlotIdle (sl : Slot) : Prop :=
  sl.pend = none ∧ ∀ p, sl.pers = some p → p.mod = false ∧ p.del = false

theorem actOf_idle {sl : Slot} (h : SlotIdle sl) (row : Option Row) : actOf sl row = .nothing := by
  obtain ⟨pers, pend⟩ := sl
  obtain ⟨h1, h2⟩ := h
  simp only at h1 h2
  subst h1
  cases pers with
  | none => rfl
  | some p =>
    obtain ⟨hm, hd⟩ := h2 p rfl
    simp [actOf, hm, hd]

theorem rollbackSlot_idle (sl : Slot) : SlotIdle (rollbackSlot sl) := by
  refine ⟨rfl, ?_⟩
  intro p hp
  unfold rollbackSlot at hp
  cases h : sl.pers with
  | none => simp [h] at hp
  | some q =>
    simp only [h, Option.map_some, Option.some.injEq] at hp
    subst hp
    exact ⟨rfl, rfl⟩

theorem spRollbackSlot_idle (sl : Slot) : SlotIdle (spRollbackSlot sl) := by
  refine ⟨rfl, ?_⟩
  intro p hp
  unfold spRollbackSlot at hp
  cases h : sl.pers with
  | none => simp [h] at hp
  | some q =>
    simp only [h, Option.map_some, Option.some.injEq] at hp
    subst hp
    unfold spRollbackObj
    rw [savepoint_rollback_expires_modified, Bool.and_true]
    by_cases hm : q.mod = true
    · simp [hm, expiredObj]
    · simp [hm]

theorem expireSlot_idle {sl : Slot} (h : sl.pend = none) : SlotIdle (expireSlot sl) := by
  refine ⟨h, ?_⟩
  intro p hp
  unfold expireSlot at hp
  cases hq : sl.pers with
  | none => simp [hq] at hp
  | some q =>
    simp only [hq, Option.map_some, Option.some.injEq] at hp
    subst hp
    exact ⟨rfl, rfl⟩

theorem failSlot_idle (insp eoc : Bool) (sl : Slot) : SlotIdle (failSlot insp eoc sl) := by
  unfold failSlot
  split
  · split
    · exact expireSlot_idle (spRollbackSlot_idle sl).1
    · exact spRollbackSlot_idle sl
  · exact rollbackSlot_idle sl

/-- **failed_commit_leaves_nothing_to_write**: after a commit that did not succeed — followed
    by `rollback()`, or, when the flush ran inside a SAVEPOINT, by a rollback of the SAVEPOINT
    only and a commit of the enclosing transaction — the session holds no pending object, no
    deletion mark and no modified object: the rejected write cannot be applied later. -/
theorem failed_commit_leaves_nothing_to_write (c : Cfg) (st : St) (s : Nat)
    (h : (step c st (.commit s)).2 ≠ .flush .ok) (k : Nat) :
    SlotIdle ((step c st (.commit s)).1.sess s k) := by
  simp only [step, doFlush, Bool.not_true, Bool.false_and, Bool.false_eq_true, if_false] at h ⊢
  split
  · rename_i ho
    simp [ho] at h
  · simp only [updSess_same]
    exact failSlot_idle _ _ _

/-- a commit of a session that has nothing to flush leaves the table alone -/
theorem idle_commit_db_unchanged (c : Cfg) (st : St) (s : Nat)
    (h : ∀ k, k < c.npk → SlotIdle (st.sess s k)) : (step c st (.commit s)).1.db = st.db := by
  by_cases hok : (step c st (.commit s)).2 = .flush .ok
  · obtain ⟨_, hst⟩ := commit_ok_state c st s hok
    rw [hst]
    funext k
    rw [flushOk_db]
    split
    · rename_i hk
      rw [actOf_idle (h k hk)]
      rfl
    · rfl
  · exact failed_commit_db_unchanged c st s hok

/-- **failed_commit_then_commit_db_unchanged**: the commit that follows a rejected one (no new
    modification in between) writes nothing — the rejected change does not come back. -/
theorem failed_commit_then_commit_db_unchanged (c : Cfg) (st : St) (s : Nat)
    (h : (step c st (.commit s)).2 ≠ .flush .ok) :
    (step c (step c st (.commit s)).1 (.commit s)).1.db = st.db := by
  rw [idle_commit_db_unchanged c _ s (fun k _ => failed_commit_leaves_nothing_to_write c st s h k)]
  exact failed_commit_db_unchanged c st s h

/-- **writer_version_eq_row_after_commit**: after a successful commit the row written for `k`
    (UPDATE, row switch or INSERT) exists and, unless expire_on_commit wiped it, the writer's
    object carries exactly the version and content stamp now stored in that row — for every
    record of the flush, whatever the other records of the same flush are. -/
theorem writer_version_eq_row_after_commit (c : Cfg) (st : St) (s k : Nat)
    (hok : (step c st (.commit s)).2 = .flush .ok) (hk : k < c.npk)
    (hw : isUpdAct (actOf (st.sess s k) (st.db k)) = true ∨ ∃ v, actOf (st.sess s k) (st.db k) = .ins v) :
    ∃ r', (step c st (.commit s)).1.db k = some r' ∧
      (c.eoc = false → ∃ p', ((step c st (.commit s)).1.sess s k).pers = some p' ∧
        p'.ver = some r'.ver ∧ p'.seen = r'.stamp) := by
  obtain ⟨_, hst⟩ := commit_ok_state c st s hok
  rw [hst, flushOk_db, if_pos hk, flushOk_sess_self]
  simp only [if_pos hk]
  unfold afterFlushSlot
  rcases hw with hu | ⟨v, hv⟩
  · cases ha : actOf (st.sess s k) (st.db k) <;> simp only [ha, isUpdAct] at hu <;> try cases hu
    all_goals
      simp only [applyRow]
      exact ⟨_, rfl, fun he => by simp [he]⟩
  · simp only [hv, applyRow]
    exact ⟨_, rfl, fun he => by simp [he]⟩

/-! ### generator of never-used values -/

/-- versions coincide with stamps: a version value identifies one write -/
structure InvF (st : St) : Prop where
  row : ∀ k r, st.db k = some r → r.ver = r.stamp
  obj : ∀ s k p v, (st.sess s k).pers = some p → p.ver = some v → p.seen = v

theorem invF_quiet {st st' : St} (h : InvF st) (q : Quiet st st') : InvF st' := by
  refine ⟨fun k r hr => h.row k r (by rw [← q.db]; exact hr), ?_⟩
  intro s k p' v hp' hv
  rcases q.origin s k p' hp' with ⟨p, hp, hex | ⟨h1, h2⟩⟩ | ⟨r, hr, h1, h2⟩
  · rw [hex] at hv; cases hv
  · rw [h2]; exact h.obj s k p v hp (by rw [← h1]; exact hv)
  · rw [h1] at hv; cases hv
    rw [h2]; exact (h.row k r hr).symm

theorem expireSlot_obj {sl : Slot} {p : PObj} {v : Nat} (h : (expireSlot sl).pers = some p)
    (hv : p.ver = some v) : False := by
  obtain ⟨_, _, h2⟩ := expireSlot_pers h
  rw [h2] at hv; cases hv

/-- what a successful commit of session `s` does at primary key `k < npk` -/
theorem flush_k (c : Cfg) (st : St) (s : Nat)
    (ho : flushOutcome c.npk (st.sess s) st.db = .ok) (k : Nat) (hk : k < c.npk) :
    FlushK c.gen (st.clock + k) (st.everDel k) (st.sess s k) (st.db k)
      ((flushOk c st s true).db k)
      (afterFlushSlot c.gen 0 (st.clock + k) (st.sess s k) (st.db k)) := by
  rw [flushOk_db, if_pos hk]
  exact flushK_of_pass c.gen (st.clock + k) (st.everDel k) _ _ (flushOutcome_ok ho hk)

theorem flushOk_db_ge (c : Cfg) (st : St) (s k : Nat) (hk : ¬ k < c.npk) :
    (flushOk c st s true).db k = st.db k := by
  rw [flushOk_db, if_neg hk]

/-- the writer's slot after the commit, before expire_on_commit -/
def slotAfter (c : Cfg) (st : St) (s k : Nat) : Slot :=
  if k < c.npk then afterFlushSlot c.gen 0 (st.clock + k) (st.sess s k) (st.db k) else st.sess s k

theorem flushOk_pers_self (c : Cfg) (st : St) (s k : Nat) (p' : PObj) (v : Nat)
    (hp' : ((flushOk c st s true).sess s k).pers = some p') (hv : p'.ver = some v) :
    (slotAfter c st s k).pers = some p' := by
  rw [flushOk_sess_self] at hp'
  by_cases he : c.eoc = true
  · simp only [he, if_true] at hp'
    exact (expireSlot_obj hp' hv).elim
  · simp only [he, Bool.false_eq_true, if_false] at hp'
    exact hp'

theorem invF_commit (c : Cfg) (hc : c.gen = .fresh) (st : St) (s : Nat) (h : InvF st)
    (ho : flushOutcome c.npk (st.sess s) st.db = .ok) :
    InvF (flushOk c st s true) := by
  refine ⟨?_, ?_⟩
  · intro k r' h1
    by_cases hk : k < c.npk
    · have fk := flush_k c st s ho k hk
      generalize (flushOk c st s true).db k = row' at fk h1
      generalize afterFlushSlot c.gen 0 (st.clock + k) (st.sess s k) (st.db k) = sl' at fk
      cases fk with
      | same sl' hp hd hr hl => exact h.row k r' h1
      | upd r v hrow hseen hd hr => cases h1; simp [newVer, hc]
      | ins v hrow hd hr hl => cases h1; simp [newVer, hc]
      | del sl' hd hr hsl hseen => cases h1
    · rw [flushOk_db_ge _ _ _ _ hk] at h1
      exact h.row k r' h1
  · intro t k p' v hp' hv
    by_cases ht : t = s
    · subst ht
      have hp'' := flushOk_pers_self c st t k p' v hp' hv
      unfold slotAfter at hp''
      by_cases hk : k < c.npk
      · rw [if_pos hk] at hp''
        have fk := flush_k c st t ho k hk
        generalize (flushOk c st t true).db k = row' at fk
        generalize afterFlushSlot c.gen 0 (st.clock + k) (st.sess t k) (st.db k) = sl' at fk hp''
        cases fk with
        | same sl' hp hd hr hl =>
          rcases hp with hp | ⟨p, hp, hp2⟩
          · exact h.obj t k p' v (by rw [← hp]; exact hp'') hv
          · rw [hp2] at hp''; cases hp''
            exact h.obj t k p v hp hv
        | upd r w hrow hseen hd hr =>
          cases hp''
          simp only [Option.some.injEq] at hv
          rw [← hv]; simp [newVer, hc]
        | ins w hrow hd hr hl =>
          cases hp''
          simp only [Option.some.injEq] at hv
          rw [← hv]; simp [newVer, hc]
        | del sl' hd hr hsl hseen =>
          rcases hsl with hn | ⟨w, hw⟩
          · rw [hn] at hp''; cases hp''
          · rw [hw] at hp''; cases hp''
            simp only [Option.some.injEq] at hv
            rw [← hv]; simp [newVer, hc]
      · rw [if_neg hk] at hp''
        exact h.obj t k p' v hp'' hv
    · rw [flushOk_sess_other _ _ _ _ ht] at hp'
      exact h.obj t k p' v hp' hv

/-- under `InvF` no write of a passed flush is a lost update -/
theorem invF_no_lost (c : Cfg) (st : St) (s : Nat) (h : InvF st)
    (ho : flushOutcome c.npk (st.sess s) st.db = .ok) :
    anyPk c.npk (fun k => lostAt (st.sess s k) (st.db k)) = false := by
  cases hany : anyPk c.npk (fun k => lostAt (st.sess s k) (st.db k)) with
  | false => rfl
  | true =>
    unfold anyPk at hany
    rw [List.any_eq_true] at hany
    obtain ⟨k, hk, hl⟩ := hany
    have hk' : k < c.npk := List.mem_range.1 hk
    have fk := flush_k c st s ho k hk'
    have hfalse : lostAt (st.sess s k) (st.db k) = false := by
      generalize (flushOk c st s true).db k = row' at fk
      generalize afterFlushSlot c.gen 0 (st.clock + k) (st.sess s k) (st.db k) = sl' at fk
      cases fk with
      | same sl' hp hd hr hl' => exact hl'
      | upd r w hrow hseen hd hr =>
        apply lostAt_false_of_seen
        intro p w' r0 hp hw hr0
        rw [hrow] at hr0; cases hr0
        have e1 := hseen p w' hp hw
        have e2 := h.obj s k p w' hp hw
        have e3 := h.row k r hrow
        omega
      | ins w hrow hd hr hl' => exact hl'
      | del sl' hd hr hsl hseen =>
        apply lostAt_false_of_seen
        intro p w' r0 hp hw hr0
        have e1 := hseen r0 p w' hr0 hp hw
        have e2 := h.obj s k p w' hp hw
        have e3 := h.row k r0 hr0
        omega
    rw [hfalse] at hl; cases hl

theorem invF_init : InvF St.init :=
  ⟨fun _ _ h => by simp [St.init] at h, fun _ _ _ _ h => by simp [St.init, Slot.empty] at h⟩

/-- invariant + flag preserved by every step (generator of never-used values) -/
theorem invF_step (c : Cfg) (hc : c.gen = .fresh) (st : St) (op : Op)
    (h : InvF st ∧ st.lost = false) :
    InvF (step c st op).1 ∧ (step c st op).1.lost = false := by
  by_cases hq : ∃ s, op = .commit s ∧ (step c st op).2 = .flush .ok
  case neg =>
    have q := step_quiet c st op (fun s hs hok => hq ⟨s, hs, hok⟩)
    exact ⟨invF_quiet h.1 q, by rw [q.lost]; exact h.2⟩
  case pos =>
    obtain ⟨s, hop, hok⟩ := hq
    subst hop
    obtain ⟨ho, hst⟩ := commit_ok_state c st s hok
    rw [hst]
    refine ⟨invF_commit c hc st s h.1 ho, ?_⟩
    rw [flushOk_lost, h.2, invF_no_lost c st s h.1 ho]
    rfl

theorem invF_run (c : Cfg) (hc : c.gen = .fresh) (ops : List Op) (st : St)
    (h : InvF st ∧ st.lost = false) : InvF (run c st ops) ∧ (run c st ops).lost = false := by
  induction ops generalizing st with
  | nil => exact h
  | cons o os ih => exact ih _ (invF_step c hc st o h)

/-- **no_lost_update_fresh**: with a version generator that returns never-used
    values, in every history (any sessions, rows, interleaving) no successful flush
    replaces or deletes a row content its session had not seen. -/
theorem no_lost_update_fresh (c : Cfg) (hc : c.gen = .fresh) (ops : List Op) :
    (run c St.init ops).lost = false :=
  (invF_run c hc ops St.init ⟨invF_init, rfl⟩).2

/-! ### integer counter -/

/-- holds as long as no deleted primary key has been inserted again -/
structure InvC (st : St) : Prop where
  seen_of_ver : ∀ s k p v r, (st.sess s k).pers = some p → p.ver = some v → st.db k = some r →
    v = r.ver → p.seen = r.stamp
  ver_le : ∀ s k p v r, (st.sess s k).pers = some p → p.ver = some v → st.db k = some r → v ≤ r.ver
  del_none : ∀ k, st.everDel k = true → st.db k = none
  fresh_pk : ∀ s k, st.db k = none → st.everDel k = false → (st.sess s k).pers = none

theorem invC_quiet {st st' : St} (h : InvC st) (q : Quiet st st') : InvC st' := by
  refine ⟨?_, ?_, ?_, ?_⟩
  · intro s k p' v r hp' hv hr hvr
    rw [q.db] at hr
    rcases q.origin s k p' hp' with ⟨p, hp, hex | ⟨h1, h2⟩⟩ | ⟨r0, hr0, h1, h2⟩
    · rw [hex] at hv; cases hv
    · rw [h2]; exact h.seen_of_ver s k p v r hp (by rw [← h1]; exact hv) hr hvr
    · rw [hr] at hr0; cases hr0; exact h2
  · intro s k p' v r hp' hv hr
    rw [q.db] at hr
    rcases q.origin s k p' hp' with ⟨p, hp, hex | ⟨h1, h2⟩⟩ | ⟨r0, hr0, h1, h2⟩
    · rw [hex] at hv; cases hv
    · exact h.ver_le s k p v r hp (by rw [← h1]; exact hv) hr
    · rw [hr] at hr0; cases hr0
      rw [h1] at hv; cases hv; exact Nat.le_refl _
  · intro k hk
    rw [q.everDel] at hk
    rw [q.db]; exact h.del_none k hk
  · intro s k hdb hed
    rw [q.db] at hdb
    rw [q.everDel] at hed
    cases hp' : (st'.sess s k).pers with
    | none => rfl
    | some p' =>
      rcases q.origin s k p' hp' with ⟨p, hp, _⟩ | ⟨r0, hr0, _⟩
      · rw [h.fresh_pk s k hdb hed] at hp; cases hp
      · rw [hdb] at hr0; cases hr0

theorem invC_init : InvC St.init :=
  ⟨fun _ _ _ _ _ h => by simp [St.init, Slot.empty] at h,
   fun _ _ _ _ _ h => by simp [St.init, Slot.empty] at h,
   fun _ h => by simp [St.init] at h,
   fun _ _ _ _ => by simp [St.init, Slot.empty]⟩

theorem expireSlot_pers_none {sl : Slot} (h : sl.pers = none) : (expireSlot sl).pers = none := by
  simp [expireSlot, h]

/-- no re-insert happened in this commit -/
theorem reinsAt_false_of (c : Cfg) (st : St) (s : Nat)
    (h : (flushOk c st s true).reins = false) :
    st.reins = false ∧ ∀ k, k < c.npk → reinsAt (st.everDel k) (actOf (st.sess s k) (st.db k)) = false := by
  rw [flushOk_reins, Bool.or_eq_false_iff] at h
  exact ⟨h.1, fun k hk => anyPk_false h.2 hk⟩

theorem invC_commit (c : Cfg) (hc : c.gen = .counter) (st : St) (s : Nat) (h : InvC st)
    (ho : flushOutcome c.npk (st.sess s) st.db = .ok)
    (hre : (flushOk c st s true).reins = false) :
    InvC (flushOk c st s true) := by
  obtain ⟨hre0, hrek⟩ := reinsAt_false_of c st s hre
  -- facts about a persistent object (with a loaded version) of the new state
  have objFacts : ∀ t k p' v r', ((flushOk c st s true).sess t k).pers = some p' → p'.ver = some v →
      (flushOk c st s true).db k = some r' → v ≤ r'.ver ∧ (v = r'.ver → p'.seen = r'.stamp) := by
    intro t k p' v r' hp' hv hr'
    by_cases hk : k < c.npk
    · have fk := flush_k c st s ho k hk
      have hrk := hrek k hk
      by_cases ht : t = s
      · subst ht
        have hp'' := flushOk_pers_self c st t k p' v hp' hv
        unfold slotAfter at hp''
        rw [if_pos hk] at hp''
        generalize (flushOk c st t true).db k = row' at fk hr'
        generalize afterFlushSlot c.gen 0 (st.clock + k) (st.sess t k) (st.db k) = sl' at fk hp''
        cases fk with
        | same sl' hp hd hr hl =>
          rcases hp with hp | ⟨p, hp, hp2⟩
          · rw [hp] at hp''
            exact ⟨h.ver_le t k p' v r' hp'' hv hr', h.seen_of_ver t k p' v r' hp'' hv hr'⟩
          · rw [hp2] at hp''; cases hp''
            exact ⟨h.ver_le t k p v r' hp hv hr', h.seen_of_ver t k p v r' hp hv hr'⟩
        | upd r w hrow hseen hd hr =>
          cases hp''; cases hr'
          simp only [Option.some.injEq] at hv
          subst hv
          exact ⟨Nat.le_refl _, fun _ => rfl⟩
        | ins w hrow hd hr hl =>
          cases hp''; cases hr'
          simp only [Option.some.injEq] at hv
          subst hv
          exact ⟨Nat.le_refl _, fun _ => rfl⟩
        | del sl' hd hr hsl hseen => cases hr'
      · rw [flushOk_sess_other _ _ _ _ ht] at hp'
        generalize (flushOk c st s true).db k = row' at fk hr'
        generalize afterFlushSlot c.gen 0 (st.clock + k) (st.sess s k) (st.db k) = sl' at fk
        cases fk with
        | same sl' hp hd hr hl =>
          exact ⟨h.ver_le t k p' v r' hp' hv hr', h.seen_of_ver t k p' v r' hp' hv hr'⟩
        | upd r w hrow hseen hd hr =>
          cases hr'
          have := h.ver_le t k p' v r hp' hv hrow
          have hpos := counter_step_pos
          simp only [newVer, hc, Option.getD_some]
          exact ⟨by omega, fun e => by omega⟩
        | ins w hrow hd hr hl =>
          -- the primary key was never used: nobody holds an object for it
          rw [hrk] at hr
          have := h.fresh_pk t k hrow hr.symm
          rw [this] at hp'; cases hp'
        | del sl' hd hr hsl hseen => cases hr'
    · rw [flushOk_db_ge _ _ _ _ hk] at hr'
      by_cases ht : t = s
      · subst ht
        have hp'' := flushOk_pers_self c st t k p' v hp' hv
        unfold slotAfter at hp''
        rw [if_neg hk] at hp''
        exact ⟨h.ver_le t k p' v r' hp'' hv hr', h.seen_of_ver t k p' v r' hp'' hv hr'⟩
      · rw [flushOk_sess_other _ _ _ _ ht] at hp'
        exact ⟨h.ver_le t k p' v r' hp' hv hr', h.seen_of_ver t k p' v r' hp' hv hr'⟩
  refine ⟨?_, ?_, ?_, ?_⟩
  · intro t k p' v r' hp' hv hr' hvr
    exact (objFacts t k p' v r' hp' hv hr').2 hvr
  · intro t k p' v r' hp' hv hr'
    exact (objFacts t k p' v r' hp' hv hr').1
  · intro k hed
    rw [flushOk_everDel] at hed
    by_cases hk : k < c.npk
    · have fk := flush_k c st s ho k hk
      have hrk := hrek k hk
      generalize (flushOk c st s true).db k = row' at fk ⊢
      generalize afterFlushSlot c.gen 0 (st.clock + k) (st.sess s k) (st.db k) = sl' at fk
      cases fk with
      | same sl' hp hd hr hl =>
        simp only [hd, Bool.and_false, Bool.or_false] at hed
        exact h.del_none k hed
      | upd r w hrow hseen hd hr =>
        simp only [hd, Bool.and_false, Bool.or_false] at hed
        rw [h.del_none k hed] at hrow; cases hrow
      | ins w hrow hd hr hl =>
        simp only [hd, Bool.and_false, Bool.or_false] at hed
        rw [hrk] at hr
        rw [hed] at hr; cases hr
      | del sl' hd hr hsl hseen => rfl
    · rw [flushOk_db_ge _ _ _ _ hk]
      simp only [hk, decide_false, Bool.false_and, Bool.or_false] at hed
      exact h.del_none k hed
  · intro t k hdb hed
    rw [flushOk_everDel, Bool.or_eq_false_iff] at hed
    obtain ⟨hed0, hed1⟩ := hed
    have hold : st.db k = none ∧ (t = s → (slotAfter c st s k).pers = none) := by
      by_cases hk : k < c.npk
      · have fk := flush_k c st s ho k hk
        simp only [hk, decide_true, Bool.true_and] at hed1
        unfold slotAfter
        rw [if_pos hk]
        generalize (flushOk c st s true).db k = row' at fk hdb
        generalize afterFlushSlot c.gen 0 (st.clock + k) (st.sess s k) (st.db k) = sl' at fk
        cases fk with
        | same sl' hp hd hr hl =>
          refine ⟨hdb, fun _ => ?_⟩
          have hn := h.fresh_pk s k hdb hed0
          rcases hp with hp | ⟨p, hp, _⟩
          · rw [hp]; exact hn
          · rw [hn] at hp; cases hp
        | upd r w hrow hseen hd hr => cases hdb
        | ins w hrow hd hr hl => cases hdb
        | del sl' hd hr hsl hseen => rw [hd] at hed1; cases hed1
      · rw [flushOk_db_ge _ _ _ _ hk] at hdb
        refine ⟨hdb, fun _ => ?_⟩
        unfold slotAfter
        rw [if_neg hk]
        exact h.fresh_pk s k hdb hed0
    by_cases ht : t = s
    · subst ht
      rw [flushOk_sess_self]
      have hn := hold.2 rfl
      unfold slotAfter at hn
      by_cases he : c.eoc = true
      · simp only [he, if_true]
        exact expireSlot_pers_none hn
      · simp only [he, Bool.false_eq_true, if_false]
        exact hn
    · rw [flushOk_sess_other _ _ _ _ ht]
      exact h.fresh_pk t k hold.1 hed0

/-- under `InvC` no write of a passed flush is a lost update -/
theorem invC_no_lost (c : Cfg) (st : St) (s : Nat) (h : InvC st)
    (ho : flushOutcome c.npk (st.sess s) st.db = .ok) :
    anyPk c.npk (fun k => lostAt (st.sess s k) (st.db k)) = false := by
  cases hany : anyPk c.npk (fun k => lostAt (st.sess s k) (st.db k)) with
  | false => rfl
  | true =>
    unfold anyPk at hany
    rw [List.any_eq_true] at hany
    obtain ⟨k, hk, hl⟩ := hany
    have hk' : k < c.npk := List.mem_range.1 hk
    have fk := flush_k c st s ho k hk'
    have hfalse : lostAt (st.sess s k) (st.db k) = false := by
      generalize (flushOk c st s true).db k = row' at fk
      generalize afterFlushSlot c.gen 0 (st.clock + k) (st.sess s k) (st.db k) = sl' at fk
      cases fk with
      | same sl' hp hd hr hl' => exact hl'
      | upd r w hrow hseen hd hr =>
        apply lostAt_false_of_seen
        intro p w' r0 hp hw hr0
        rw [hrow] at hr0; cases hr0
        exact h.seen_of_ver s k p w' r hp hw hrow (hseen p w' hp hw)
      | ins w hrow hd hr hl' => exact hl'
      | del sl' hd hr hsl hseen =>
        apply lostAt_false_of_seen
        intro p w' r0 hp hw hr0
        exact h.seen_of_ver s k p w' r0 hp hw hr0 (hseen r0 p w' hr0 hp hw)
    rw [hfalse] at hl; cases hl

/-- invariant of the counter model: as long as `reins` is down, `InvC` holds and no
    update was lost -/
def GoodC (st : St) : Prop := st.reins = false → InvC st ∧ st.lost = false

theorem goodC_step (c : Cfg) (hc : c.gen = .counter) (st : St) (op : Op) (h : GoodC st) :
    GoodC (step c st op).1 := by
  by_cases hq : ∃ s, op = .commit s ∧ (step c st op).2 = .flush .ok
  case neg =>
    have q := step_quiet c st op (fun s hs hok => hq ⟨s, hs, hok⟩)
    intro hre
    rw [q.reins] at hre
    obtain ⟨hi, hl⟩ := h hre
    exact ⟨invC_quiet hi q, by rw [q.lost]; exact hl⟩
  case pos =>
    obtain ⟨s, hop, hok⟩ := hq
    subst hop
    obtain ⟨ho, hst⟩ := commit_ok_state c st s hok
    rw [hst]
    intro hre
    obtain ⟨hre0, _⟩ := reinsAt_false_of c st s hre
    obtain ⟨hi, hl⟩ := h hre0
    refine ⟨invC_commit c hc st s hi ho hre, ?_⟩
    rw [flushOk_lost, hl, invC_no_lost c st s hi ho]
    rfl

theorem goodC_run (c : Cfg) (hc : c.gen = .counter) (ops : List Op) (st : St) (h : GoodC st) :
    GoodC (run c st ops) := by
  induction ops generalizing st with
  | nil => exact h
  | cons o os ih => exact ih _ (goodC_step c hc st o h)

/-
Full statement (FALSE of the model and of the code, see the counterexample):
  theorem no_lost_update (c : Cfg) (ops : List Op) : (run c St.init ops).lost = false
-/

/-- **no_lost_update_partial**: with the integer counter, in every history, a
    successful flush can replace a content its session had not seen only after a
    deleted primary key was inserted again (the counter restarted at 1). -/
theorem no_lost_update_partial (c : Cfg) (hc : c.gen = .counter) (ops : List Op) :
    (run c St.init ops).lost = true → (run c St.init ops).reins = true := by
  intro hl
  cases hre : (run c St.init ops).reins with
  | true => rfl
  | false =>
    have := (goodC_run c hc ops St.init (fun _ => ⟨invC_init, rfl⟩) hre).2
    rw [this] at hl; cases hl

/-- the ABA history: session 1 loads row 0 (version 1); session 0 deletes it and
    inserts a new row 0 (version 1 again); session 1's update succeeds. -/
def abaOps : List Op :=
  [.add 0 0 1, .commit 0, .get 1 0, .del 0 0, .commit 0, .add 0 0 2, .commit 0, .set 1 0 3, .commit 1]

theorem no_lost_update_counterexample :
    (run ⟨.counter, false, 1⟩ St.init abaOps).lost = true ∧
    ((run ⟨.counter, false, 1⟩ St.init abaOps).db 0).map (·.val) = some 3 := by
  decide

/-! ## a successful commit stores the pending objects -/

/-
Full statement (FALSE, see the counterexample):
  (step c st (.commit s)).2 = .flush .ok → (st.sess s k).pend = some v → k < c.npk →
    ∃ r, (step c st (.commit s)).1.db k = some r ∧ r.val = v
-/

/-- **commit_applies_pending_partial**: after a successful commit every pending
    object is in the table with its value — provided the flush did not go through
    the insert-then-delete path of a row switch onto an expired, deleted-marked
    object whose row had vanished. -/
theorem commit_applies_pending_partial (c : Cfg) (st : St) (s k : Nat) (v : Int)
    (hok : (step c st (.commit s)).2 = .flush .ok) (hk : k < c.npk)
    (hpend : (st.sess s k).pend = some v)
    (hno : rowSwitchVanishedKeepsDelete = false ∨
      ∀ p, (st.sess s k).pers = some p → p.del = true → p.ver = none → st.db k ≠ none) :
    ∃ r, (step c st (.commit s)).1.db k = some r ∧ r.val = v := by
  obtain ⟨ho, hst⟩ := commit_ok_state c st s hok
  rw [hst, flushOk_db, if_pos hk]
  have pk := flushOutcome_ok ho hk
  rcases hsl : st.sess s k with ⟨pers, pend⟩
  simp only [hsl] at hpend hno pk
  subst hpend
  cases pers with
  | none =>
    simp only [actOf, applyRow]
    exact ⟨_, rfl, rfl⟩
  | some p =>
    by_cases hdel : p.del = true
    · by_cases hx : (p.ver.isNone && (st.db k).isNone) = true
      · rcases hno with hb | hno
        · have ha : actOf ⟨some p, some v⟩ (st.db k) = .ins v := by simp [actOf, hdel, hx, hb]
          simp only [ha, applyRow]
          exact ⟨_, rfl, rfl⟩
        · simp only [Bool.and_eq_true, Option.isNone_iff_eq_none] at hx
          exact absurd hx.2 (hno p rfl hdel hx.1)
      · have ha : actOf ⟨some p, some v⟩ (st.db k) = .switch v p.ver := by simp [actOf, hdel, hx]
        simp only [ha, applyRow]
        exact ⟨_, rfl, rfl⟩
    · have ha : actOf ⟨some p, some v⟩ (st.db k) = .ins v := by simp [actOf, hdel]
      simp only [ha, applyRow]
      exact ⟨_, rfl, rfl⟩

/-- session 0 holds an expired object for row 0 which session 1 deleted; session 0
    deletes its object and adds a new object with the same primary key: the commit
    succeeds and the table is empty. -/
def insDelOps : List Op :=
  [.add 0 0 1, .commit 0, .get 1 0, .del 1 0, .commit 1, .expire 0 0, .del 0 0, .add 0 0 6]

theorem commit_applies_pending_counterexample (_h : rowSwitchVanishedKeepsDelete = true) :
    let st := run ⟨.counter, false, 1⟩ St.init insDelOps
    (st.sess 0 0).pend = some 6 ∧
    (step ⟨.counter, false, 1⟩ st (.commit 0)).2 = .flush .ok ∧
    (step ⟨.counter, false, 1⟩ st (.commit 0)).1.db 0 = none := by
  revert _h
  decide

/-! ## non-vacuity -/

/-- a stale flush: hypotheses of `stale_flush_fails_no_change` are satisfiable -/
example :
    let c : Cfg := ⟨.counter, false, 1⟩
    let st := run c St.init [.add 0 0 1, .commit 0, .get 1 0, .set 0 0 2, .commit 0, .set 1 0 3]
    ((st.sess 1 0).pers.map (fun p => (p.cval, p.val, p.mod))) = some (some 1, some 3, true) ∧
    (st.db 0).map (·.val) = some 2 ∧
    (step c st (.commit 1)).2 = .flush .stale := by decide

/-- a successful update: version 1 → 2 -/
example :
    let c : Cfg := ⟨.counter, true, 2⟩
    let st := run c St.init [.add 0 1 7, .commit 0, .get 1 1, .set 1 1 8]
    (step c st (.commit 1)).2 = .flush .ok ∧ 
    ((step c st (.commit 1)).1.db 1).map (·.val) = some 8 ∧
    ((step c st (.commit 1)).1.db 1).map (·.ver) = (st.db 1).map (·.ver + counterStep) := by decide

/-- a stale flush inside a SAVEPOINT (`nested`): session 1 loaded row 0 (version 1), session 0
    committed version 2; session 1 opens a SAVEPOINT, modifies, flushes: stale; the SAVEPOINT
    is rolled back and the enclosing transaction committed: the object is expired, the table
    keeps session 0's value, and a further commit of session 1 succeeds without writing -/
example :
    let c : Cfg := ⟨.counter, false, 1⟩
    let st := run c St.init [.add 0 0 1, .commit 0, .get 1 0, .set 0 0 2, .commit 0, .nested 1, .set 1 0 3]
    st.sp 1 = true ∧
    (step c st (.commit 1)).2 = .flush .stale ∧
    ((step c st (.commit 1)).1.sess 1 0).pers.map (fun p => (p.ver, p.val, p.mod)) = some (none, none, false) ∧
    (step c (step c st (.commit 1)).1 (.commit 1)).2 = .flush .ok ∧
    ((step c (step c st (.commit 1)).1 (.commit 1)).1.db 0).map (fun r => (r.val, r.ver)) = some (2, 2) := by decide

/-- one flush, two rows with different versions (row 0 at 2, row 1 at 1): each object gets
    the version of its own row -/
example :
    let c : Cfg := ⟨.counter, false, 2⟩
    let st := run c St.init [.add 0 0 1, .add 0 1 1, .commit 0, .set 0 0 2, .commit 0, .set 0 0 3, .set 0 1 3]
    (step c st (.commit 0)).2 = .flush .ok ∧
    ((step c st (.commit 0)).1.db 0).map (·.ver) = some 3 ∧ ((step c st (.commit 0)).1.db 1).map (·.ver) = some 2 ∧
    ((step c st (.commit 0)).1.sess 0 0).pers.map (·.ver) = some (some 3) ∧
    ((step c st (.commit 0)).1.sess 0 1).pers.map (·.ver) = some (some 2) := by decide

/-- fresh generator: the ABA history is caught (stale), nothing is lost -/
example : (run ⟨.fresh, false, 1⟩ St.init abaOps).lost = false ∧
    (runOut ⟨.fresh, false, 1⟩ St.init abaOps).getLast?.map (·.1) = some (.flush .stale) := by decide

end SaVerif.Props.C44
