import SaVerif.Lemmas.Like
/-!
# C08 — LIKE-based string operators with autoescape match literal semantics

Property theorems about the LIKE model (`SaVerif/Model/Like.lean`: transcription of
`_escaped_like_impl`, of the compiler's `'%' || ? || '%'` renderings and of SQLite's
`patternCompare`; `likeStd` is the SQL-standard matcher assumed for PostgreSQL/MySQL).
Helper lemmas live in `SaVerif/Lemmas/Like.lean`.

Full statement (FALSE, kept as a comment):

    theorem autoescape_correct (op : Op) (escape : Option Char) (p s : List Char) :
        evalSqlite false op escape true p s = (pyTest op.kind p' s' != op.neg)
      -- p', s' = p, s  (case-sensitive variants)  or  lowerS p, lowerS s  (i-variants)

It fails for exactly two input shapes, each with a `_counterexample` below and a
known finding replayed on the real code:
  * escape = "%"   (the compiler's own wildcards are `%`, which is now the escape)
  * i-variants rendered with lower() and an escape character that is an ASCII letter
    (lower() is applied to the escaped bind value, destroying/creating escapes)
The `…_partial` theorems carry the forced hypotheses.  A third shape (escape = "_" with
"%" in the operand: the old three-`replace` code re-escaped its own escape character) was
found here, fixed in the repository (single-pass escaping) and is now covered by the
theorems: `escapeLike_spec` is unconditional and `_` is an admissible escape everywhere.
-/
namespace SaVerif.Props.C08
open SaVerif.Like SaVerif.Gen.LikeDefaults

/-- the specification: Python's `p in s`, `s.startswith(p)`, `s.endswith(p)` -/
def Holds : Kind → List Char → List Char → Prop
  | .contains, p, s => p <:+: s
  | .startswith, p, s => p <+: s
  | .endswith, p, s => p <:+ s

/-- the executable `pyTest` of the model (what the harness compares with CPython) is
    the mathematical prefix / suffix / infix relation -/
theorem pyTest_iff (k : Kind) (p s : List Char) : pyTest k p s = true ↔ Holds k p s := by
  cases k with
  | startswith => simp [pyTest, Holds]
  | endswith => simp [pyTest, Holds]
  | contains =>
    simp only [pyTest, Holds, anySuffix_iff, List.isPrefixOf_iff_prefix]
    constructor
    · rintro ⟨pre, post, e, t, ht⟩
      exact ⟨pre, t, by rw [e, ← ht]; simp⟩
    · rintro ⟨pre, t, e⟩
      exact ⟨pre, p ++ t, by rw [← e]; simp, t, rfl⟩

example : pyTest .contains ['%', 'a'] ['x', '%', 'a', '_'] = true := by decide
example : pyTest .endswith ['a'] ['a', 'b'] = false := by decide

/-! ## 1. the escaping code -/

/-- **escapeLike_spec**: for every escape character and every operand, the code puts exactly
    one escape character in front of every `%`, `_` and escape character. -/
theorem escapeLike_spec (esc : Char) (p : List Char) : escapeLike esc p = lit esc p :=
  escapeLike_eq_lit esc p

example : escapeLike '/' ['a', '%', '/', '_'] = ['a', '/', '%', '/', '/', '/', '_'] := by decide
example : escapeLike '_' ['%', '_'] = ['_', '%', '_', '_'] := by decide

/-! ## 2. SQLite, `PRAGMA case_sensitive_like=ON` -/

theorem mAll_of_ne (esc : Char) (h1 : esc ≠ '%') : mAll (some esc) = some '%' := by
  simp [mAll, h1]

/-- **sqlite_like_correct_partial**: for every operand `p`, text `s` and escape character
    other than `%` (so `_` included), the rendered pattern matches exactly when the Python
    test holds. -/
theorem sqlite_like_correct_partial (esc : Char) (h1 : esc ≠ '%')
    (k : Kind) (p s : List Char) :
    likeSqlite false (some esc) (wrap k (escapeLike esc p)) s = true ↔ Holds k p s := by
  rw [escapeLike_eq_lit]
  have hA := mAll_of_ne esc h1
  have hl := lit_Lit esc p
  cases k with
  | startswith =>
    rw [sqlite_startswith_Lit false _ hA hl, eqv_false]
    exact stripPrefix_isSome_iff p s
  | endswith =>
    rw [sqlite_endswith_Lit false _ hA hl, eqv_false]
    exact raw_suffix_iff p s
  | contains =>
    rw [sqlite_contains_Lit false _ hA hl, eqv_false]
    exact raw_infix_iff p s

example : likeSqlite false (some '_') (wrap .contains (escapeLike '_' ['%'])) ['a', '%'] = true := by decide
example : likeSqlite false (some '_') (wrap .contains (escapeLike '_' ['%'])) ['_', 'x'] = false := by decide

example : likeSqlite false (some '/') (wrap .contains (escapeLike '/' ['%', '_'])) ['a', '%', '_', 'b'] = true := by
  decide
example : likeSqlite false (some '/') (wrap .contains (escapeLike '/' ['%', '_'])) ['a', '%', 'x', 'b'] = false := by
  decide

/-- SQLite's default configuration (LIKE is ASCII case-insensitive): the same operators
    implement the case-folded test. -/
theorem sqlite_like_nocase_correct_partial (esc : Char) (h1 : esc ≠ '%')
    (k : Kind) (p s : List Char) :
    likeSqlite true (some esc) (wrap k (escapeLike esc p)) s = true ↔
      Holds k (lowerS p) (lowerS s) := by
  rw [escapeLike_eq_lit]
  have hA := mAll_of_ne esc h1
  have hl := lit_Lit esc p
  cases k with
  | startswith =>
    rw [sqlite_startswith_Lit true _ hA hl, eqv_true_eq_ceq]
    exact raw_ci_prefix_iff p s
  | endswith =>
    rw [sqlite_endswith_Lit true _ hA hl, eqv_true_eq_ceq]
    exact raw_ci_suffix_iff p s
  | contains =>
    rw [sqlite_contains_Lit true _ hA hl, eqv_true_eq_ceq]
    exact raw_ci_infix_iff p s

/-! ## 3. the twelve operators as executed on SQLite -/

theorem bool_eq_of_iff {a b : Bool} (h : a = true ↔ b = true) : a = b := by
  cases a <;> cases b <;> simp_all

/-- **sqlite_op_correct_partial** (case-sensitive operators, their negations included) -/
theorem sqlite_op_correct_partial (op : Op) (escape : Option Char) (p s : List Char)
    (hc : op.icase = false) (h1 : escape.getD defaultEscape ≠ '%') :
    evalSqlite false op escape true p s = (pyTest op.kind p s != op.neg) := by
  have key : likeSqlite false (some (escape.getD defaultEscape))
      (wrap op.kind (escapeLike (escape.getD defaultEscape) p)) s = pyTest op.kind p s :=
    bool_eq_of_iff ((sqlite_like_correct_partial _ h1 op.kind p s).trans (pyTest_iff _ _ _).symm)
  simp only [evalSqlite, effective, if_true, hc, Bool.false_eq_true, if_false, key]
  cases op.neg <;> simp

example : evalSqlite false ⟨.endswith, false, true⟩ none true ['_'] ['a', 'b'] = true := by decide

/-- a character without case: nothing else lower-cases to it and it lower-cases to itself -/
def Caseless (e : Char) : Prop := ∀ c, lowerAscii c = e ↔ c = e

/-- **sqlite_iop_correct_partial** (the i-variants, rendered `lower(col) LIKE … lower(?) …`;
    either `case_sensitive_like` setting) -/
theorem sqlite_iop_correct_partial (nc : Bool) (op : Op) (escape : Option Char) (p s : List Char)
    (hi : op.icase = true) (h1 : escape.getD defaultEscape ≠ '%')
    (h3 : Caseless (escape.getD defaultEscape)) :
    evalSqlite nc op escape true p s = (pyTest op.kind (lowerS p) (lowerS s) != op.neg) := by
  have hl : lowerS (escapeLike (escape.getD defaultEscape) p) = lit (escape.getD defaultEscape) (lowerS p) := by
    rw [escapeLike_eq_lit, lowerS_lit _ h3]
  have hA := mAll_of_ne _ h1
  have hL := lit_Lit (escape.getD defaultEscape) (lowerS p)
  have hp := allLower_lowerS p
  have hs := allLower_lowerS s
  have key : likeSqlite nc (some (escape.getD defaultEscape))
      (wrap op.kind (lowerS (escapeLike (escape.getD defaultEscape) p))) (lowerS s)
        = pyTest op.kind (lowerS p) (lowerS s) := by
    apply bool_eq_of_iff
    rw [hl, pyTest_iff]
    cases op.kind with
    | startswith =>
      rw [sqlite_startswith_Lit nc _ hA hL, stripPrefix_eqv_of_lower nc _ _ hp hs]
      exact stripPrefix_isSome_iff _ _
    | endswith =>
      rw [sqlite_endswith_Lit nc _ hA hL]
      show _ ↔ lowerS p <:+ lowerS s
      rw [← raw_suffix_iff]
      constructor
      · rintro ⟨pre, post, e, h⟩
        have hpost : AllLower post := fun c hc => hs c (by rw [e]; simp [hc])
        exact ⟨pre, post, e, by rw [← stripPrefix_eqv_of_lower nc _ _ hp hpost]; exact h⟩
      · rintro ⟨pre, post, e, h⟩
        have hpost : AllLower post := fun c hc => hs c (by rw [e]; simp [hc])
        exact ⟨pre, post, e, by rw [stripPrefix_eqv_of_lower nc _ _ hp hpost]; exact h⟩
    | contains =>
      rw [sqlite_contains_Lit nc _ hA hL]
      show _ ↔ lowerS p <:+: lowerS s
      rw [← raw_infix_iff]
      constructor
      · rintro ⟨pre, post, e, h⟩
        have hpost : AllLower post := fun c hc => hs c (by rw [e]; simp [hc])
        exact ⟨pre, post, e, by rw [← stripPrefix_eqv_of_lower nc _ _ hp hpost]; exact h⟩
      · rintro ⟨pre, post, e, h⟩
        have hpost : AllLower post := fun c hc => hs c (by rw [e]; simp [hc])
        exact ⟨pre, post, e, by rw [stripPrefix_eqv_of_lower nc _ _ hp hpost]; exact h⟩
  simp only [evalSqlite, effective, if_true, hi, key]
  cases op.neg <;> simp

/-- the default escape `/` and the usual choices are caseless (non-vacuity of `Caseless`) -/
theorem caseless_of_not_letter (e : Char) (h : ¬ (65 ≤ e.toNat ∧ e.toNat ≤ 90))
    (h' : ¬ (97 ≤ e.toNat ∧ e.toNat ≤ 122)) : Caseless e := by
  intro c
  unfold lowerAscii
  by_cases hc : 65 ≤ c.toNat ∧ c.toNat ≤ 90
  · rw [if_pos hc]
    constructor
    · intro he
      have := toNat_ofNat_small (c.toNat + 32) (by omega)
      rw [he] at this
      omega
    · intro he; subst he; exact absurd hc h
  · rw [if_neg hc]

example : Caseless '/' := caseless_of_not_letter _ (by decide) (by decide)
example : evalSqlite true ⟨.contains, true, false⟩ (some '^') true ['A', '%'] ['x', 'a', '%'] = true := by
  decide

/-- **autoescape_default_correct**: with the default escape (`escape=None`, read from the
    source by the translator) no side condition remains — all twelve operators, any
    operand, any text, either `case_sensitive_like` setting for the i-variants. -/
theorem autoescape_default_correct (op : Op) (p s : List Char) :
    (op.icase = false → evalSqlite false op none true p s = (pyTest op.kind p s != op.neg)) ∧
    (op.icase = true → ∀ nc, evalSqlite nc op none true p s =
        (pyTest op.kind (lowerS p) (lowerS s) != op.neg)) := by
  have hd : (none : Option Char).getD defaultEscape = defaultEscape := rfl
  refine ⟨fun hc => ?_, fun hi nc => ?_⟩
  · exact sqlite_op_correct_partial op none p s hc (by rw [hd]; exact gen_default.1)
  · refine sqlite_iop_correct_partial nc op none p s hi (by rw [hd]; exact gen_default.1) ?_
    rw [hd]; exact caseless_of_not_letter _ gen_default.2.2.1 gen_default.2.2.2

/-- explicit `escape=` without autoescape, operand escaped by the caller -/
theorem sqlite_explicit_escape_correct_partial (op : Op) (esc : Char) (q s : List Char)
    (hc : op.icase = false) (h1 : esc ≠ '%') :
    evalSqlite false op (some esc) false (lit esc q) s = (pyTest op.kind q s != op.neg) := by
  have key : likeSqlite false (some esc) (wrap op.kind (lit esc q)) s = pyTest op.kind q s := by
    have := sqlite_like_correct_partial esc h1 op.kind q s
    rw [escapeLike_eq_lit] at this
    exact bool_eq_of_iff (this.trans (pyTest_iff _ _ _).symm)
  simp only [evalSqlite, effective, Bool.false_eq_true, if_false, hc, key]
  cases op.neg <;> simp

/-! ## 4. the SQL-standard matcher (PostgreSQL / MySQL, assumed semantics) -/

/-- LIKE under the standard reading: any escape other than `%` -/
theorem std_like_correct_partial (esc : Char) (h1 : esc ≠ '%') (k : Kind) (p s : List Char) :
    likeStd false (some esc) (wrap k (escapeLike esc p)) s = true ↔ Holds k p s := by
  rw [escapeLike_eq_lit]
  cases k with
  | startswith =>
    rw [std_startswith_raw false esc h1, ceq_false]
    exact stripPrefix_isSome_iff p s
  | endswith =>
    rw [std_endswith_raw false esc h1, ceq_false]
    exact raw_suffix_iff p s
  | contains =>
    rw [std_contains_raw false esc h1, ceq_false]
    exact raw_infix_iff p s

/-- native ILIKE (PostgreSQL rendering): no caselessness condition on the escape -/
theorem std_ilike_correct_partial (esc : Char) (h1 : esc ≠ '%') (k : Kind) (p s : List Char) :
    likeStd true (some esc) (wrap k (escapeLike esc p)) s = true ↔
      Holds k (lowerS p) (lowerS s) := by
  rw [escapeLike_eq_lit]
  cases k with
  | startswith =>
    rw [std_startswith_raw true esc h1]
    exact raw_ci_prefix_iff p s
  | endswith =>
    rw [std_endswith_raw true esc h1]
    exact raw_ci_suffix_iff p s
  | contains =>
    rw [std_contains_raw true esc h1]
    exact raw_ci_infix_iff p s

example : likeStd true (some 'a') (wrap .contains (escapeLike 'a' ['A', 'b'])) ['x', 'a', 'B'] = true := by
  decide

/-! ## 5. the excluded shapes are genuinely wrong (replayed on the real code) -/

/-- escape `%`: `'a'.contains('a')` is not matched (SQLite: the trailing wildcard is a
    dangling escape; PostgreSQL raises for the same reason) -/
theorem escape_percent_counterexample :
    evalSqlite false ⟨.contains, false, false⟩ (some '%') true ['a'] ['a'] = false ∧
      pyTest .contains ['a'] ['a'] = true ∧
    evalStd false ⟨.startswith, false, false⟩ (some '%') true ['a'] ['a'] = false := by
  decide

/-- lower()-rendered i-variant with a letter as escape: `icontains('Ab', escape='a')`
    matches `b` -/
theorem icase_letter_escape_counterexample :
    evalSqlite false ⟨.contains, true, false⟩ (some 'a') true ['A', 'b'] ['b'] = true ∧
      pyTest .contains (lowerS ['A', 'b']) (lowerS ['b']) = false ∧
    evalSqlite false ⟨.contains, true, false⟩ (some 'A') true ['x', 'A', 'y'] ['x', 'a', 'y'] = false ∧
      pyTest .contains (lowerS ['x', 'A', 'y']) (lowerS ['x', 'a', 'y']) = true := by
  decide

end SaVerif.Props.C08
