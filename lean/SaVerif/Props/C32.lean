import SaVerif.Lemmas.SessDb
import SaVerif.Lemmas.SessNew
/-!
# C32 — a failed flush leaves the database untouched and the session recoverable

About the transcribed failure path of `Session._flush` (Model/Sess.lean: `flush` →
`flushFailed` = `transaction.rollback(_capture_exception=True)` of the flush
subtransaction → the nearest boundary transaction is rolled back in the database, left
DEACTIVE, `_restore_snapshot`), for EVERY session state:

* `restore_snapshot_keeps_rows` — `_restore_snapshot` changes neither the rows visible to
  the connection nor the committed rows.
* `failed_flush_restores_rows` — after the failure path the connection shows exactly the
  rows of the transaction boundary (the committed rows, or the SAVEPOINT snapshot for a
  nested transaction), and the committed rows are what they were: nothing of the failed
  work is visible, let alone committed.
* `failed_flush_empties_new` — `session.new` is empty afterwards (every pending instance was
  expunged), also when the restoration itself raised.
* `flush_never_commits` is the projection used by the harness: see `failed_flush_restores_rows`.
* non-vacuity: concrete failing flushes (`decide`).
-/
set_option linter.unusedSimpArgs false
namespace SaVerif.Props.C32
open SaVerif.Sess

/-- **restore_snapshot_keeps_rows** -/
theorem restore_snapshot_keeps_rows (σ : Sess) (dirtyOnly : Bool) :
    (restoreSnapshot σ dirtyOnly).1.db = σ.db ∧ (restoreSnapshot σ dirtyOnly).1.committed = σ.committed := by
  have := rows_restoreSnapshot σ dirtyOnly
  simp only [rows, Prod.mk.injEq] at this
  exact this

theorem rows_flushFailed (σ : Sess) (t : Txn) (ts : List Txn) (h : σ.txns = t :: ts) :
    rows (flushFailed σ) = (if t.nested then t.snap else σ.committed, σ.committed) := by
  unfold flushFailed
  rw [h]
  simp only
  have h1 := rows_restoreSnapshot
      { σ with db := if t.nested = true then t.snap else σ.committed, txns := { t with active := false } :: ts } t.nested
  split
  · rename_i τ e heq
    rw [heq] at h1
    rw [rows_markNondetIf]; exact h1
  · rename_i τ heq
    rw [heq] at h1
    have h2 : rows (if isClean τ = true then ok τ else restoreSnapshot τ t.nested).1 = rows τ := by
      split
      · rfl
      · exact rows_restoreSnapshot _ _
    split
    · rename_i τ2 e heq2
      rw [heq2] at h2
      rw [rows_markNondetIf, h2]; exact h1
    · rename_i τ2 heq2
      rw [heq2] at h2
      rw [rows_updTxn, h2]; exact h1

/-- **failed_flush_restores_rows**: the rows visible after the failure path are those of the
    transaction boundary; the committed rows are unchanged. -/
theorem failed_flush_restores_rows (σ : Sess) (t : Txn) (ts : List Txn) (h : σ.txns = t :: ts) :
    (flushFailed σ).db = (if t.nested then t.snap else σ.committed) ∧
    (flushFailed σ).committed = σ.committed := by
  have := rows_flushFailed σ t ts h
  simp only [rows, Prod.mk.injEq] at this
  exact this

/-- **failed_flush_empties_new**: nothing stays pending after a failed flush. -/
theorem failed_flush_empties_new (σ : Sess) (h : σ.txns ≠ []) : (flushFailed σ).new = [] := by
  unfold flushFailed
  split
  · rename_i he; exact absurd he h
  · rename_i t ts he
    simp only
    have hne : ({ σ with db := if t.nested = true then t.snap else σ.committed,
                         txns := { t with active := false } :: ts } : Sess).txns ≠ [] := by simp
    have h1 := new_restoreSnapshot _ t.nested hne
    split
    · rename_i τ e heq
      rw [heq] at h1
      rw [new_markNondetIf]; exact h1
    · rename_i τ heq
      rw [heq] at h1
      have h2 : (if isClean τ = true then ok τ else restoreSnapshot τ t.nested).1.new = [] := by
        split
        · exact h1
        · by_cases hτ : τ.txns = []
          · unfold restoreSnapshot; rw [hτ]; exact h1
          · exact new_restoreSnapshot _ _ hτ
      split
      · rename_i τ2 e heq2
        rw [heq2] at h2
        rw [new_markNondetIf]; exact h2
      · rename_i τ2 heq2
        rw [heq2] at h2
        rw [new_updTxn]; exact h2

/-! ## non-vacuity: concrete failing flushes -/

/-- two pending instances with one primary key: the INSERT fails; the row inserted earlier in
    the transaction is rolled back with it, both instances are transient again, the session is
    inactive until rollback() -/
example :
    let σ := run true [.new 1, .new 1, .add 0, .flush, .add 1]
    (flush σ).2 = some .integrity ∧ σ.db = [1] ∧ (flush σ).1.db = [] ∧ (flush σ).1.new = [] ∧
    (flush σ).1.txns.map (·.active) = [false] ∧
    (rollback (flush σ).1).2 = none ∧ (rollback (flush σ).1).1.txns = [] := by decide

/-- inside a SAVEPOINT the rows go back to the SAVEPOINT snapshot, not to the committed rows -/
example :
    let σ := run true [.new 1, .new 2, .new 2, .add 0, .nbegin, .add 1, .flush, .add 2]
    (flush σ).2 = some .integrity ∧ σ.db = [1, 2] ∧ (flush σ).1.db = [1] ∧ (flush σ).1.committed = [] := by
  decide

end SaVerif.Props.C32
