import SaVerif.Model.Generative
import SaVerif.Gen.GenerativeTables
/-!
# C03 — statement objects are immutable values (level: translation_validation)

The Lean content: (1) in the shallow-copy model of `Generative._generate`, ANY chain
of generative calls whose bodies rebind attributes leaves every ancestor observably
unchanged, and a single in-place mutation breaks it; (2) a regenerated table: no
`@_generative` method of the working tree mutates an attribute of `self` in place
(beyond the reviewed baseline).  That each real method behaves like `rebuild` for every
input is what the differential harness tests.
-/
namespace SaVerif.Props.C03
open SaVerif.Generative

def WellFormed (h : Heap) (o : Obj) : Prop := ∀ kv ∈ o.attrs, kv.2 < h.length

def isRebuild : Op → Bool
  | .rebuild _ _ => true
  | .mutate _ _ => false

theorem observe_append (h ext : Heap) (o : Obj) (hw : WellFormed h o) :
    observe (h ++ ext) o = observe h o := by
  unfold observe
  apply List.map_congr_left
  intro kv hkv
  have := hw kv hkv
  simp [deref, List.getD, List.getElem?_append_left this]

theorem aset_mem {a v : Nat} {l : List (Nat × Nat)} {kv : Nat × Nat} (h : kv ∈ aset a v l) :
    kv ∈ l ∨ kv.2 = v := by
  induction l with
  | nil => simp [aset] at h; right; rw [h]
  | cons x l ih =>
    obtain ⟨k, w⟩ := x
    simp only [aset] at h
    split at h
    · simp only [List.mem_cons] at h
      rcases h with h | h
      · right; rw [h]
      · left; simp [h]
    · simp only [List.mem_cons] at h
      rcases h with h | h
      · left; simp [h]
      · rcases ih h with h2 | h2
        · left; simp [h2]
        · right; exact h2

theorem step_rebuild_wf (h : Heap) (o : Obj) (a c : Nat) (hw : WellFormed h o) :
    WellFormed (step h o (.rebuild a c)).1 (step h o (.rebuild a c)).2 := by
  intro kv hkv
  simp only [step] at hkv ⊢
  rcases aset_mem hkv with h1 | h1
  · have := hw kv h1; simp; omega
  · rw [h1]; simp

/-- heap after a chain of rebuilds extends the old heap -/
theorem chain_rebuild_extends : ∀ (ops : List Op) (h : Heap) (o : Obj),
    ops.all isRebuild = true → WellFormed h o →
      ∃ ext, (chain h o ops).1 = h ++ ext := by
  intro ops
  induction ops with
  | nil => intro h o _ _; exact ⟨[], by simp [chain]⟩
  | cons op r ih =>
    intro h o hall hw
    simp only [List.all_cons, Bool.and_eq_true] at hall
    cases op with
    | mutate a c => simp [isRebuild] at hall
    | rebuild a c =>
      have hw' := step_rebuild_wf h o a c hw
      obtain ⟨ext, he⟩ := ih (step h o (.rebuild a c)).1 (step h o (.rebuild a c)).2 hall.2 hw'
      refine ⟨[(match alookup a o.attrs with | some ad => deref h ad | none => []) ++ [c]] ++ ext, ?_⟩
      simp only [chain]
      rw [he]
      simp only [step, List.append_assoc, List.singleton_append, List.cons_append, List.nil_append]
      cases alookup a o.attrs <;> rfl

/-- **generative_preserves_ancestors**: for ANY chain of generative calls that rebind
    (never mutate), every statement of the chain shows, after the whole chain has been
    built, exactly what it showed when it was created. -/
theorem generative_preserves_ancestors : ∀ (ops : List Op) (h : Heap) (o : Obj),
    ops.all isRebuild = true → WellFormed h o →
      ∀ (i : Nat) (anc : Obj), (chain h o ops).2[i]? = some anc →
        ∃ hb, (∃ ext, (chain h o ops).1 = hb ++ ext) ∧ WellFormed hb anc ∧
          observe (chain h o ops).1 anc = observe hb anc := by
  intro ops
  induction ops with
  | nil =>
    intro h o _ hw i anc hi
    simp only [chain] at hi ⊢
    cases i with
    | zero => simp at hi; subst hi; exact ⟨h, ⟨[], by simp⟩, hw, rfl⟩
    | succ n => simp at hi
  | cons op r ih =>
    intro h o hall hw i anc hi
    have hall' := hall
    simp only [List.all_cons, Bool.and_eq_true] at hall
    cases op with
    | mutate a c => simp [isRebuild] at hall
    | rebuild a c =>
      have hw' := step_rebuild_wf h o a c hw
      cases i with
      | zero =>
        simp only [chain, List.getElem?_cons_zero, Option.some.injEq] at hi
        subst hi
        obtain ⟨ext, he⟩ := chain_rebuild_extends (Op.rebuild a c :: r) h o hall' hw
        exact ⟨h, ⟨ext, he⟩, hw, by rw [he]; exact observe_append h ext o hw⟩
      | succ n =>
        simp only [chain, List.getElem?_cons_succ] at hi
        have := ih (step h o (.rebuild a c)).1 (step h o (.rebuild a c)).2 hall.2 hw' n anc hi
        simpa [chain] using this

/-- an in-place mutation in a generative method changes the parent -/
theorem mutate_counterexample :
    let h : Heap := [[1]]
    let o : Obj := { attrs := [(0, 0)] }
    observe (chain h o [.mutate 0 2]).1 o ≠ observe h o := by
  decide

/-! ## regenerated table -/

/-- no `@_generative` method of sql/*.py calls a mutating method on an attribute of
    `self` (append/extend/add/update/insert/remove/pop/clear/setdefault/sort, item or
    slice assignment, augmented assignment on a subscript) outside the reviewed baseline -/
theorem no_inplace_mutation :
    SaVerif.Gen.GenerativeTables.inplace.all
      (fun r => SaVerif.Gen.GenerativeTables.baseline.contains r) = true := by
  decide +kernel

/-- `Generative._generate` still copies `__dict__` -/
theorem generate_copies_dict : SaVerif.Gen.GenerativeTables.generateCopies = true := by decide

/-! ## non-vacuity -/

example : WellFormed [[1], [2, 3]] { attrs := [(0, 0), (1, 1)] } := by
  intro kv h; simp at h; rcases h with rfl | rfl <;> simp

example : (chain [[1]] { attrs := [(0, 0)] } [.rebuild 0 5, .rebuild 0 6]).2.length = 3 := by decide

end SaVerif.Props.C03
