import SaVerif.Model.CacheKey
import SaVerif.Gen.CacheKeyTables
/-!
# C02 — the compiled-statement cache is transparent (model-level contract)

The Lean content of this property is deliberately small (level claimed:
translation_validation): it states the *contract* between `_gen_cache_key`, the
compiler and `construct_params(extracted_parameters=…)` on an abstract element tree
and proves that the contract implies transparency.  Whether every real construct obeys
the contract (its `_traverse_internals` covers everything its `visit_` method reads)
is a regenerated finite table (`reads_covered`, re-decided against the working tree)
plus the differential harness.
-/
namespace SaVerif.Props.C02
open SaVerif.CacheKey

/-! ## equal keys ⇒ identical SQL and identical parameter types -/

def proj : KTok → Option STok
  | .a t => some (.a t)
  | .b i _ _ _ => some (.ph i)
  | .ref i => some (.ph i)
  | .op => some .op
  | .cl => some .cl

def types : KTok → Option (Nat × Nat × Bool)
  | .b _ ty nm le => some (ty, nm, le)
  | _ => none

theorem sqlAux_eq_key (t : T) : ∀ seen,
    (sqlAux seen t).1 = (keyAux seen t).1.filterMap proj ∧
    (sqlAux seen t).2.1 = (keyAux seen t).1.filterMap types ∧
    (sqlAux seen t).2.2 = (keyAux seen t).2.2 := by
  induction t with
  | atom tag => intro seen; simp [sqlAux, keyAux, proj, types]
  | bind b =>
    intro seen
    by_cases h : b.oid ∈ seen
    · simp [sqlAux, keyAux, h, proj, types]
    · simp [sqlAux, keyAux, h, proj, types]
  | pair l r ihl ihr =>
    intro seen
    obtain ⟨l1, l2, l3⟩ := ihl seen
    obtain ⟨r1, r2, r3⟩ := ihr (keyAux seen l).2.2
    simp only [sqlAux, keyAux]
    rw [l3]
    refine ⟨?_, ?_, r3⟩
    · simp [List.filterMap_append, List.filterMap_cons, l1, r1, proj]
    · simp [List.filterMap_append, List.filterMap_cons, l2, r2, types]

/-- **cachekey_eq_same_sql**: two statements with equal cache keys compile to the
    identical token sequence and identical (type, name, literal_execute) per bind -/
theorem cachekey_eq_same_sql (s1 s2 : T) (h : keyOf s1 = keyOf s2) : sqlOf s1 = sqlOf s2 := by
  unfold sqlOf
  obtain ⟨a1, a2, _⟩ := sqlAux_eq_key s1 []
  obtain ⟨b1, b2, _⟩ := sqlAux_eq_key s2 []
  unfold keyOf at h
  rw [a1, a2, b1, b2, h]

/-! ## the extracted parameters line up positionally -/

def isB : KTok → Bool
  | .b _ _ _ _ => true
  | _ => false

theorem extract_length_aux (t : T) : ∀ seen,
    (keyAux seen t).2.1.length = ((keyAux seen t).1.filter isB).length := by
  induction t with
  | atom tag => intro seen; simp [keyAux, isB]
  | bind b =>
    intro seen
    by_cases h : b.oid ∈ seen
    · simp [keyAux, h, isB]
    · simp [keyAux, h, List.filter, isB]
  | pair l r ihl ihr =>
    intro seen
    simp only [keyAux, List.length_append, List.filter_append, ihl seen, ihr (keyAux seen l).2.2]
    simp [isB]

/-- equal keys ⇒ the same number of extracted parameters -/
theorem extracted_length_eq (s1 s2 : T) (h : keyOf s1 = keyOf s2) :
    (extract s1).length = (extract s2).length := by
  unfold extract
  rw [extract_length_aux s1 [], extract_length_aux s2 []]
  unfold keyOf at h
  rw [h]

theorem rlookup_zip (o : Nat) : ∀ (oids : List Nat) (ex : List Bind),
    oids.length = ex.length → o ∈ oids →
      rlookup o (oids.zip ex) = ex[oids.idxOf o]? := by
  intro oids
  induction oids with
  | nil => intro ex _ hm; simp at hm
  | cons a oids ih =>
    intro ex hl hm
    cases ex with
    | nil => simp at hl
    | cons e ex =>
      by_cases ha : a = o
      · subst ha; simp [rlookup]
      · have hm' : o ∈ oids := by
          simp only [List.mem_cons] at hm
          rcases hm with rfl | hm
          · exact absurd rfl ha
          · exact hm
        simp only [List.zip_cons_cons, rlookup, ha, if_false, List.idxOf_cons]
        have : (a == o) = false := by simpa using ha
        rw [this]
        simp only [cond_false, List.getElem?_cons_succ]
        exact ih ex (by simpa using hl) hm'

/-- **rebinding_delivers_own_values**: a compilation cached for `s1`, executed for a
    statement `s2` with the same cache key, gives every compiled bind — in whatever
    order the compiler visited them (`co`) — the value of the parameter of `s2` that
    sits at the same position of the cache-key traversal; never a value of `s1`. -/
theorem rebinding_delivers_own_values (s1 s2 : T) (h : keyOf s1 = keyOf s2)
    (co : List Nat) (own : Nat → Int) (hco : ∀ o ∈ co, o ∈ (extract s1).map (·.oid)) :
    constructParams co own (extract s1) (extract s2) =
      co.map (fun o => (((extract s2)[((extract s1).map (·.oid)).idxOf o]?).map (·.val)).getD (own o)) := by
  unfold constructParams resolve
  apply List.map_congr_left
  intro o ho
  have hl := extracted_length_eq s1 s2 h
  have := rlookup_zip o ((extract s1).map (·.oid)) (extract s2) (by simpa using hl) (hco o ho)
  rw [this]
  have hlt : ((extract s1).map (·.oid)).idxOf o < (extract s2).length := by
    have := List.idxOf_lt_length_of_mem (hco o ho)
    simp only [List.length_map] at this
    omega
  rw [List.getElem?_eq_getElem hlt]
  simp

/-- object ids of the extracted parameters are distinct (each object once) -/
theorem extract_nodup_aux (t : T) : ∀ seen, seen.Nodup →
    (keyAux seen t).2.2.Nodup ∧
    (keyAux seen t).2.2 = seen ++ (keyAux seen t).2.1.map (·.oid) := by
  induction t with
  | atom tag => intro seen h; simp [keyAux, h]
  | bind b =>
    intro seen h
    by_cases hc : b.oid ∈ seen
    · simp [keyAux, hc, h]
    · simp only [keyAux, List.contains_eq_mem, decide_eq_true_eq, hc, if_false, List.map_cons,
        List.map_nil, and_true]
      refine List.nodup_append.mpr ⟨h, by simp, ?_⟩
      intro a ha x hx
      simp at hx; subst hx
      intro e; subst e
      exact hc ha
  | pair l r ihl ihr =>
    intro seen h
    obtain ⟨n1, e1⟩ := ihl seen h
    obtain ⟨n2, e2⟩ := ihr _ n1
    simp only [keyAux]
    refine ⟨n2, ?_⟩
    rw [e2, e1]
    simp

theorem extract_nodup (t : T) : ((extract t).map (·.oid)).Nodup := by
  obtain ⟨n, e⟩ := extract_nodup_aux t [] (by simp)
  rw [e] at n
  simpa [extract] using n

/-! ## regenerated table: what the compiler reads is traversed -/

/-- for every SQL construct class: each attribute its `visit_` method reads is listed
    in its `_traverse_internals` (or in the reviewed list of derived / key-neutral
    attributes); regenerated from the working tree on every run -/
theorem reads_covered :
    SaVerif.Gen.CacheKeyTables.rows.all
      (fun r => r.2.1.all (fun a => r.2.2.contains a || SaVerif.Gen.CacheKeyTables.derived.contains (r.1, a))) = true := by
  decide +kernel

/-- no class lost an attribute of its `_traverse_internals` relative to the reviewed tree -/
theorem traversal_not_shrunk :
    SaVerif.Gen.CacheKeyTables.baselineTraversed.all
      (fun r => match SaVerif.Gen.CacheKeyTables.traversed.lookup r.1 with
        | some cur => r.2.all (fun a => cur.contains a)
        | none => false) = true := by
  decide +kernel

/-- **type_keys_separate_variants**: type instances that differ in a public constructor
    argument — including the boundary values 0 / False / '' against "unset" — have
    different `_static_cache_key`s (the component of every statement cache key that
    carries bind / cast / column types); regenerated from the working tree -/
theorem type_keys_separate_variants :
    (SaVerif.Gen.CacheKeyTables.typeKeys.map (·.2)).Nodup := by
  decide +kernel

/-! ## non-vacuity -/

def exS1 : T := .pair (.atom 1) (.pair (.bind ⟨7, 0, 3, false, 10⟩) (.pair (.atom 2) (.bind ⟨7, 0, 3, false, 10⟩)))
def exS2 : T := .pair (.atom 1) (.pair (.bind ⟨9, 0, 3, false, 55⟩) (.pair (.atom 2) (.bind ⟨9, 0, 3, false, 55⟩)))

example : keyOf exS1 = keyOf exS2 ∧ extract exS1 ≠ extract exS2 := by decide
example : constructParams [7] (fun _ => 10) (extract exS1) (extract exS2) = [55] := by decide

end SaVerif.Props.C02
