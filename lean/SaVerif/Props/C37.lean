import SaVerif.Lemmas.Backref
/-!
# C37 — Both sides of a bidirectional relationship always agree

Theorems about M-BACKREF (`SaVerif/Model/Backref.lean`: `_backref_listeners`, the list
decorators and `bulk_replace` for a loaded one-to-many / many-to-one pair).

`Inv st` : `c ∈ kids p ↔ par c = some p` for all parents and children, and every list is
duplicate-free.  `inv_step` / `backref_symmetric`: preserved by every guarded operation, for
any number of objects and any operation sequence.  The guard only forbids putting a child
into a list that already holds it (and collection replacement by a list with repeats); the
excluded case really breaks the symmetry (`duplicate_move_counterexample`, replayed on the
real code).
-/
namespace SaVerif.Props.C37
open SaVerif.Backref

/-- guard of one operation -/
def OpOk (st : St) : Op → Prop
  | .append p c => c ∉ st.kids p
  | .setItem p i c =>
    ∀ k, normIdx (st.kids p).length i = some k → c ∉ st.kids p ∨ (st.kids p)[k]? = some c
  | .replace _ new => new.Nodup
  | _ => True

theorem inv_init : Inv init := ⟨fun _ _ => by simp [init], fun _ => by simp [init]⟩

/-- every operation of the pair — from the child side or from the parent side, succeeding or
    raising — keeps both sides in agreement -/
theorem inv_step {st : St} (h : Inv st) (op : Op) (g : OpOk st op) : Inv (step st op).1 := by
  cases op with
  | setParent c new => exact inv_setParent h c new
  | append p c => exact inv_append h p c g
  | remove p c => exact inv_remove h p c
  | pop p i => exact inv_pop h p i
  | delItem p i => exact inv_delItem h p i
  | setItem p i c => exact inv_setItem h p i c g
  | replace p new => exact inv_replace h p new g
  | clear p => exact inv_clear h p

def GuardedRun : St → List Op → Prop
  | _, [] => True
  | st, op :: ops => OpOk st op ∧ GuardedRun (step st op).1 ops

theorem inv_run : ∀ (ops : List Op) (st : St), Inv st → GuardedRun st ops → Inv (run st ops)
  | [], _, h, _ => h
  | op :: ops, _, h, g => inv_run ops _ (inv_step h op g.1) g.2

/-- **backref_symmetric**: after ANY guarded sequence of mutations from either side, child `c`
    is in parent `p`'s collection exactly when `p` is `c`'s parent. -/
theorem backref_symmetric (ops : List Op) (g : GuardedRun init ops) (p c : Nat) :
    c ∈ (run init ops).kids p ↔ (run init ops).par c = some p :=
  (inv_run ops init inv_init g).sym p c

/-- and no list ever holds a child twice -/
theorem backref_nodup (ops : List Op) (g : GuardedRun init ops) (p : Nat) :
    ((run init ops).kids p).Nodup :=
  (inv_run ops init inv_init g).nodup p

/-- non-vacuity: moves between parents through both sides, item assignment, collection
    replacement -/
example :
    let ops := [Op.append 0 0, Op.append 0 1, Op.setParent 1 (some 1), Op.setItem 0 0 2,
                Op.replace 1 [0, 2], Op.remove 1 2, Op.setParent 0 none]
    let st := run init ops
    st.kids 0 = [] ∧ st.kids 1 = [] ∧ st.par 0 = none ∧ st.par 1 = none ∧ st.par 2 = none := by
  decide

example :
    let st := run init [Op.append 0 0, Op.append 0 1, Op.setParent 1 (some 1), Op.replace 1 [0, 2]]
    st.kids 0 = [] ∧ st.kids 1 = [0, 2] ∧ st.par 0 = some 1 ∧ st.par 1 = none ∧ st.par 2 = some 1 := by
  decide

/-- the guard is necessary: a list holding a child twice loses the symmetry when the child is
    moved from the other side — only the first occurrence is removed -/
theorem duplicate_move_counterexample :
    let st := run init [Op.append 0 0, Op.append 0 0, Op.append 1 0]
    0 ∈ st.kids 0 ∧ st.par 0 = some 1 := by
  decide

end SaVerif.Props.C37
