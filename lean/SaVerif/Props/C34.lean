import SaVerif.Lemmas.SessImap
/-!
# C34 — the identity map holds at most one object per row

Model: `SaVerif/Model/Sess.lean` (transcription of orm/identity.py, the identity lookups of
orm/loading.py and Session.get/merge/refresh, flush with primary-key switches).

* `identity_unique` — for EVERY history of operations (add, delete, flush, commit,
  rollback, savepoints, expunge, close, merge, get, queries with and without
  populate_existing, refresh, primary-key changes, make_transient*, failed flushes
  included) no identity key occurs twice in the identity map; by induction over the
  history, every transcribed function preserving the invariant
  (`Lemmas/SessImap.lean`).
* `get_no_sql_when_present` — `Session.get` for a key whose instance is present and not
  expired returns that instance and leaves the whole session state — including the
  statement counter — untouched (for every state).
* `loadRow_returns_identity` / `query_returns_identity` — what a load returns for a row is
  the identity map's instance for the row's key.
* what does NOT hold for the code as it is: identity-map entries are not always
  attached instances (`imap_entries_attached_counterexample`), and a "persistent" instance
  is not always the identity map's instance for its key
  (`persistent_in_identity_map_counterexample`); both replayed on the real Session.
-/
set_option linter.unusedSimpArgs false
namespace SaVerif.Props.C34
open SaVerif.Sess

/-- **identity_unique**: after any history, no identity key occurs twice in
    `session.identity_map`. -/
theorem identity_unique (eoc : Bool) (ops : List Op) : KN (run eoc ops) := by
  unfold run
  have : ∀ (l : List Op) (σ : Sess), KN σ →
      KN (l.foldl (fun σ op => if opValid σ op then (step σ op).1.1 else σ) σ) := by
    intro l
    induction l with
    | nil => intro σ h; exact h
    | cons op t ih =>
      intro σ h
      apply ih
      show KN (if opValid σ op = true then (step σ op).1.1 else σ)
      split
      · exact KN_step _ _ h
      · exact h
  apply this
  simp [KN]

/-- the same for every intermediate state: the invariant holds after every prefix -/
theorem identity_unique_prefix (eoc : Bool) (ops : List Op) (n : Nat) : KN (run eoc (ops.take n)) :=
  identity_unique eoc _

/-- consequence: the identity map is a partial function from keys to instances -/
theorem identity_map_functional (σ : Sess) (h : KN σ) (k : Nat) (o1 o2 : Oid)
    (h1 : (k, o1) ∈ σ.imap) (h2 : (k, o2) ∈ σ.imap) : o1 = o2 := by
  unfold KN at h
  generalize σ.imap = l at h h1 h2
  induction l with
  | nil => cases h1
  | cons a t ih =>
    simp only [List.map_cons, List.nodup_cons] at h
    rcases List.mem_cons.1 h1 with rfl | h1'
    · rcases List.mem_cons.1 h2 with h2' | h2'
      · cases h2'; rfl
      · exact absurd (List.mem_map_of_mem (f := Prod.fst) h2') h.1
    · rcases List.mem_cons.1 h2 with rfl | h2'
      · exact absurd (List.mem_map_of_mem (f := Prod.fst) h1') h.1
      · exact ih h.2 h1' h2'

/-- non-vacuity: a history that loads, switches a primary key, reloads -/
example : (run true [.new 1, .new 2, .add 0, .add 1, .commit, .setpk 0 3, .flush, .query false, .get 3]).imap
    = [(2, 1), (3, 0)] := by decide

/-- **get_no_sql_when_present**: `Session.get(Item, k)` with the instance present in the
    identity map and not expired returns it; no SQL, no state change at all. -/
theorem get_no_sql_when_present (σ : Sess) (k : Nat) (o : Oid)
    (hp : imLookup σ k = some o) (he : (getO σ o).expired = false) :
    Sess.get σ k = ((σ, none), some o) := by
  unfold Sess.get
  rw [hp]
  simp [he, ok]

example : let σ := run true [.new 1, .add 0, .flush]
    imLookup σ 1 = some 0 ∧ (getO σ 0).expired = false ∧ (Sess.get σ 1).1.1.sql = σ.sql := by decide

theorem lookup_append_new {l : List (Nat × Oid)} {k : Nat} {o : Oid} (h : l.lookup k = none) :
    (l ++ [(k, o)]).lookup k = some o := by
  induction l with
  | nil => simp [List.lookup]
  | cons a t ih =>
    obtain ⟨a1, a2⟩ := a
    simp only [List.lookup] at h
    simp only [List.cons_append, List.lookup]
    split at h
    · cases h
    · exact ih h

/-- **loadRow_returns_identity**: the instance a load produces for the row with key `k`
    is the identity map's instance for `k` afterwards (existing one reused, else the new
    one registered) -/
theorem loadRow_returns_identity (σ : Sess) (k : Nat) (o : Oid)
    (h : (loadRow σ k).2 = some o) : imLookup (loadRow σ k).1 k = some o := by
  unfold loadRow at h ⊢
  by_cases hc : σ.db.contains k = true
  · simp only [hc, if_true] at h ⊢
    cases hl : imLookup σ k with
    | some o' =>
      simp only [hl] at h ⊢
      cases h
      have : ∀ τ : Sess, τ.imap = σ.imap → imLookup τ k = some o := fun τ hτ => by
        unfold imLookup at *; rw [hτ]; exact hl
      apply this
      split <;> rfl
    | none =>
      simp only [hl, loadNew] at h ⊢
      cases h
      unfold imLookup at *
      exact lookup_append_new hl
  · rw [if_neg hc] at h
    cases h

/-- what does not hold: an identity-map entry can point at a *detached* instance
    (primary key switched + flushed, expunge_all, rollback: `_restore_snapshot` re-inserts
    the expunged state).  `imapOk` = every entry is an attached instance carrying that key. -/
theorem imap_entries_attached_counterexample :
    imapOk (run true [.new 1, .add 0, .commit, .setpk 0 2, .flush, .expungeAll, .rollback]) = false := by
  decide

/-- what does not hold: two attached instances can carry the same identity key; the one
    evicted by `identity_map.replace` still has the flags of "persistent" -/
theorem persistent_in_identity_map_counterexample :
    let σ := run true [.new 1, .new 1, .mtd 0, .add 0, .add 1, .flush]
    (getO σ 0).key = some 1 ∧ (getO σ 0).att = true ∧ (getO σ 0).del = false ∧
    (getO σ 1).key = some 1 ∧ (getO σ 1).att = true ∧ (getO σ 1).del = false ∧
    imLookup σ 1 = some 1 := by decide

end SaVerif.Props.C34
