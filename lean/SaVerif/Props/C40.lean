import SaVerif.Model.Loader
import SaVerif.Lemmas.Imv
/-!
# C40 — Loader strategies change how data is loaded, never what is loaded

Theorems about the relational meaning of the loader strategies' query plans
(`SaVerif/Model/Loader.lean`).  The reference is lazy loading (one SELECT per parent).
`srt` is the relationship's ORDER BY: any function on row lists that commutes with
filtering (every stable sort does; `sortByK_filter_comm` gives an instance).  The primary
query is represented by its result `ps`; the only thing assumed about it is that primary
keys are distinct where stated.
-/
namespace SaVerif.Props.C40
open SaVerif.Loader

/-- the relationship ORDER BY commutes with WHERE -/
def CommutesWithFilter (srt : List Child → List Child) : Prop :=
  ∀ (f : Child → Bool) (l : List Child), (srt l).filter f = srt (l.filter f)

/-! ## selectin = lazy, for every chunk size -/

theorem selectinChunk_eq_lazy (srt : List Child → List Child) (hs : CommutesWithFilter srt)
    (cs : List Child) (chunk : List Parent) :
    selectinChunk srt cs chunk = lazyGraph srt cs chunk := by
  unfold selectinChunk lazyGraph childrenOf
  apply List.map_congr_left
  intro p hp
  simp only [Prod.mk.injEq, true_and]
  rw [hs, List.filter_filter]
  congr 1
  apply List.filter_congr
  intro c _
  cases hb : belongs p c with
  | false => simp
  | true =>
    simp only [Bool.true_and]
    rw [List.any_eq_true]
    exact ⟨p, hp, hb⟩

/-- **selectin_eq_lazy**: IN-loading in chunks of ANY positive size (500 in the code)
    yields exactly the lazily loaded graph: same parents, same collections, same order. -/
theorem selectin_eq_lazy (n : Nat) (hn : 0 < n) (srt : List Child → List Child)
    (hs : CommutesWithFilter srt) (cs : List Child) (ps : List Parent) :
    selectinGraph n srt cs ps = lazyGraph srt cs ps := by
  unfold selectinGraph
  have h1 : (SaVerif.Imv.chunk n ps).map (selectinChunk srt cs)
      = (SaVerif.Imv.chunk n ps).map (lazyGraph srt cs) := by
    apply List.map_congr_left
    intro ch _
    exact selectinChunk_eq_lazy srt hs cs ch
  rw [h1]
  unfold lazyGraph
  rw [← List.map_flatten]
  unfold SaVerif.Imv.chunk
  rw [SaVerif.Imv.chunkAux_flatten n hn _ _ (Nat.le_refl _)]

/-- the number of selectin statements is ceil(parents / 500) -/
theorem selectin_statement_count (ps : List Parent) :
    (SaVerif.Imv.chunk 500 ps).length = SaVerif.Imv.totalBatches ps.length 500 :=
  SaVerif.Imv.chunkAux_length 500 (by decide) _ _ (Nat.le_refl _)

/-! ## subquery = lazy -/

theorem filter_flatMap_own (cs : List Child) (p : Parent) :
    ∀ (ps : List Parent), (ps.map (·.id)).Nodup → p ∈ ps →
      (ps.flatMap (fun q => cs.filter (belongs q))).filter (belongs p) = cs.filter (belongs p) := by
  intro ps
  induction ps with
  | nil => intro _ h; cases h
  | cons q rest ih =>
    intro hn hp
    simp only [List.map_cons, List.nodup_cons] at hn
    simp only [List.flatMap_cons, List.filter_append, List.filter_filter]
    rcases List.mem_cons.1 hp with rfl | hp
    · -- own block kept, no other block contributes
      have hrest : (rest.flatMap (fun q => cs.filter (belongs q))).filter (belongs p) = [] := by
        rw [List.filter_eq_nil_iff]
        intro c hc hb
        obtain ⟨q, hq, hcq⟩ := List.mem_flatMap.1 hc
        have hbq := (List.mem_filter.1 hcq).2
        unfold belongs at hb hbq
        have : p.id = q.id := by
          have h1 : c.fk = some p.id := by simpa using hb
          have h2 : c.fk = some q.id := by simpa using hbq
          rw [h1] at h2; exact Option.some.inj h2
        exact hn.1 (this ▸ List.mem_map_of_mem hq)
      rw [hrest, List.append_nil]
      apply List.filter_congr
      intro c _; simp
    · have hne : p.id ≠ q.id := by
        intro h
        exact hn.1 (h ▸ List.mem_map_of_mem hp)
      have hnone : cs.filter (fun c => belongs p c && belongs q c) = [] := by
        rw [List.filter_eq_nil_iff]
        intro c _ hb
        simp only [Bool.and_eq_true] at hb
        unfold belongs at hb
        have h1 : c.fk = some p.id := by simpa using hb.1
        have h2 : c.fk = some q.id := by simpa using hb.2
        rw [h1] at h2; exact hne (Option.some.inj h2)
      rw [hnone, List.nil_append]
      exact ih hn.2 hp

/-- **subquery_eq_lazy**: the second query of subquery loading (primary query as a
    subquery JOIN child) yields the lazily loaded graph when primary keys are distinct. -/
theorem subquery_eq_lazy (srt : List Child → List Child) (hs : CommutesWithFilter srt)
    (cs : List Child) (ps : List Parent) (hn : (ps.map (·.id)).Nodup) :
    subqueryGraph srt cs ps = lazyGraph srt cs ps := by
  unfold subqueryGraph lazyGraph childrenOf
  apply List.map_congr_left
  intro p hp
  simp only [Prod.mk.injEq, true_and]
  rw [hs, filter_flatMap_own cs p ps hn hp]

/-! ## joined = lazy -/

theorem addRow_new (g : Graph) (p : Parent) (oc : Option Child)
    (h : ∀ e ∈ g, e.1.id ≠ p.id) : addRow g p oc = g ++ [(p, oc.toList)] := by
  unfold addRow
  have : g.any (fun e => e.1.id == p.id) = false := by
    rw [List.any_eq_false]
    intro e he
    simpa using h e he
  simp [this]

theorem addRow_last (g : Graph) (p : Parent) (acc : List Child) (c : Child)
    (h : ∀ e ∈ g, e.1.id ≠ p.id) :
    addRow (g ++ [(p, acc)]) p (some c) = g ++ [(p, acc ++ [c])] := by
  unfold addRow
  have hany : (g ++ [(p, acc)]).any (fun e => e.1.id == p.id) = true := by simp
  simp only [hany, ↓reduceIte, List.map_append, List.map_cons, List.map_nil, beq_self_eq_true,
    Option.toList_some]
  congr 1
  have : g.map (fun e => if e.1.id == p.id then (e.1, e.2 ++ [c]) else e) = g := by
    conv => rhs; rw [← List.map_id g]
    apply List.map_congr_left
    intro e he
    have : (e.1.id == p.id) = false := by simpa using h e he
    simp [this]
  exact this

theorem assemble_block (g : Graph) (p : Parent) (h : ∀ e ∈ g, e.1.id ≠ p.id)
    (rest : List (Parent × Option Child)) :
    ∀ (l acc : List Child),
      assemble (l.map (fun c => (p, some c)) ++ rest) (g ++ [(p, acc)])
        = assemble rest (g ++ [(p, acc ++ l)]) := by
  intro l
  induction l with
  | nil => intro acc; simp
  | cons c l ih =>
    intro acc
    simp only [List.map_cons, List.cons_append, assemble]
    rw [addRow_last g p acc c h, ih (acc ++ [c])]
    simp

theorem assemble_loj (srt : List Child → List Child) (cs : List Child) :
    ∀ (ps : List Parent) (g : Graph), (ps.map (·.id)).Nodup →
      (∀ e ∈ g, ∀ p ∈ ps, e.1.id ≠ p.id) →
      assemble (lojRows srt cs ps) g = g ++ lazyGraph srt cs ps := by
  intro ps
  induction ps with
  | nil => intro g _ _; simp [lojRows, assemble, lazyGraph]
  | cons p rest ih =>
    intro g hn hdis
    simp only [List.map_cons, List.nodup_cons] at hn
    have hp : ∀ e ∈ g, e.1.id ≠ p.id := fun e he => hdis e he p List.mem_cons_self
    have hl : lojRows srt cs (p :: rest) = lojBlock srt cs p ++ lojRows srt cs rest := by
      simp [lojRows]
    have hstep : assemble (lojRows srt cs (p :: rest)) g
        = assemble (lojRows srt cs rest) (g ++ [(p, childrenOf srt cs p)]) := by
      rw [hl]
      unfold lojBlock
      cases hch : childrenOf srt cs p with
      | nil =>
        simp only [List.cons_append, List.nil_append, assemble]
        rw [addRow_new g p none hp]
        rfl
      | cons c l =>
        simp only [List.map_cons, List.cons_append, assemble]
        rw [addRow_new g p (some c) hp]
        have := assemble_block g p hp (lojRows srt cs rest) l [c]
        simpa using this
    rw [hstep, ih (g ++ [(p, childrenOf srt cs p)]) hn.2]
    · simp [lazyGraph]
    · intro e he q hq
      rcases List.mem_append.1 he with he | he
      · exact hdis e he q (List.mem_cons_of_mem _ hq)
      · simp only [List.mem_singleton] at he
        subst he
        intro h
        exact hn.1 (h ▸ List.mem_map_of_mem hq)

/-- **joined_eq_lazy**: LEFT OUTER JOIN rows, de-duplicated on parent identity with the
    collections filled in row order, give the lazily loaded graph (distinct primary keys). -/
theorem joined_eq_lazy (srt : List Child → List Child) (cs : List Child) (ps : List Parent)
    (hn : (ps.map (·.id)).Nodup) :
    joinedGraph srt cs ps = lazyGraph srt cs ps := by
  unfold joinedGraph
  rw [assemble_loj srt cs ps [] hn (fun e he => by cases he)]
  simp

/-- **strategies_agree**: for every primary result with distinct keys, every child table,
    every relationship ordering and every selectin chunk size, the five strategies build
    the same object graph — parents, collection contents and collection order. -/
theorem strategies_agree (n : Nat) (hn : 0 < n) (srt : List Child → List Child)
    (hs : CommutesWithFilter srt) (cs : List Child) (ps : List Parent)
    (hk : (ps.map (·.id)).Nodup) :
    joinedGraph srt cs ps = lazyGraph srt cs ps ∧
    subqueryGraph srt cs ps = lazyGraph srt cs ps ∧
    selectinGraph n srt cs ps = lazyGraph srt cs ps :=
  ⟨joined_eq_lazy srt cs ps hk, subquery_eq_lazy srt hs cs ps hk, selectin_eq_lazy n hn srt hs cs ps⟩

/-- with the subquery wrap, LIMIT/OFFSET on the primary query commute with joined loading -/
theorem joined_wrapped_limit (srt : List Child → List Child) (cs : List Child)
    (all : List Parent) (off : Nat) (lim : Option Nat) (hk : (all.map (·.id)).Nodup) :
    joinedGraph srt cs (window off lim all) = lazyGraph srt cs (window off lim all) := by
  apply joined_eq_lazy
  have hsub : (window off lim all).Sublist all := by
    unfold window
    cases lim with
    | none => exact List.drop_sublist _ _
    | some k => exact (List.take_sublist _ _).trans (List.drop_sublist _ _)
  exact (hsub.map _).nodup hk

/-- **joined_limit_wrap_needed**: without the wrap the LIMIT cuts the joined rows, not the
    parents: a parent's collection is truncated and fewer parents than asked come back. -/
theorem joined_limit_wrap_needed :
    ∃ (cs : List Child) (all : List Parent),
      joinedUnwrapped sortByK cs all 0 (some 2) ≠ lazyGraph sortByK cs (window 0 (some 2) all) :=
  ⟨[⟨10, some 1, 0⟩, ⟨11, some 1, 1⟩, ⟨12, some 1, 2⟩, ⟨20, some 2, 0⟩], [⟨1, 0⟩, ⟨2, 0⟩, ⟨3, 0⟩],
    by decide⟩

/-! ## composite keys: the FK column order -/

theorem lookup_eq_some_iff {l : List (Nat × Nat)} (hn : (l.map (·.1)).Nodup) (c v : Nat) :
    l.lookup c = some v ↔ (c, v) ∈ l := by
  induction l with
  | nil => simp
  | cons x xs ih =>
    obtain ⟨k, w⟩ := x
    simp only [List.map_cons, List.nodup_cons] at hn
    simp only [List.lookup_cons, List.mem_cons, Prod.mk.injEq]
    by_cases hk : c = k
    · subst hk
      simp only [beq_self_eq_true, Option.some.injEq, true_and]
      constructor
      · intro h; exact Or.inl h.symm
      · rintro (h | h)
        · exact h.symm
        · exact absurd (List.mem_map_of_mem (f := (·.1)) h) hn.1
    · have : (c == k) = false := by simpa using hk
      simp only [this, ih hn.2]
      constructor
      · intro h; exact Or.inr h
      · rintro (h | h)
        · exact absurd h.1 hk
        · exact h

theorem lookup_perm {l l' : List (Nat × Nat)} (hp : l'.Perm l) (hn : (l.map (·.1)).Nodup) (c : Nat) :
    l'.lookup c = l.lookup c := by
  have hn' : (l'.map (·.1)).Nodup := (hp.map _).nodup_iff.2 hn
  apply Option.ext
  intro v
  rw [lookup_eq_some_iff hn', lookup_eq_some_iff hn]
  exact hp.mem_iff

/-- **fk_cols_independent_of_declaration_order**: listing the child's FK columns by walking
    the parent's primary key gives the same column list whatever order the join condition
    (the ForeignKeyConstraint) declares the column pairs in — so the IN tuples, which are
    built in primary-key order, always line up with it. -/
theorem fk_cols_independent_of_declaration_order (pk : List Nat) (pairs pairs' : List (Nat × Nat))
    (hp : pairs'.Perm pairs) (hn : (pairs.map (·.1)).Nodup) :
    fkColsPkOrder pk pairs' = fkColsPkOrder pk pairs := by
  unfold fkColsPkOrder
  induction pk with
  | nil => rfl
  | cons c t ih => simp only [List.filterMap_cons, lookup_perm hp hn c, ih]

/-- with the join-condition order instead, a ForeignKeyConstraint declared as (y, x) makes
    parent (1, 2) receive the children of parent (2, 1) -/
theorem fk_cols_join_order_counterexample :
    selectinComposite [0, 1] (fkColsJoinOrder [0, 1] [(1, 1), (0, 0)]) [[1, 2], [2, 1]] [[1, 2, 77], [2, 1, 88]]
      ≠ selectinComposite [0, 1] (fkColsPkOrder [0, 1] [(1, 1), (0, 0)]) [[1, 2], [2, 1]] [[1, 2, 77], [2, 1, 88]] := by
  decide

example : selectinComposite [0, 1] (fkColsPkOrder [0, 1] [(1, 1), (0, 0)]) [[1, 2], [2, 1]] [[1, 2, 77], [2, 1, 88]]
    = [([1, 2], [[1, 2, 77]]), ([2, 1], [[2, 1, 88]])] := by decide

/-! ## the nest decision -/

/-- **should_nest_complete**: `_should_nest_selectable` wraps exactly when the property needs
    it — for LIMIT, OFFSET and FETCH alike, DISTINCT and GROUP BY -/
theorem should_nest_complete :
    ∀ (ej mr hl ho hf di gb : Bool), shouldNest ej mr hl ho hf di gb = nestNeeded ej mr hl ho hf di gb := by
  decide

/-- sensitivity (the rule before fix 63056e6, finding F23): with `fetch(n)` and no offset the
    old rule did not wrap although a multi-row eager join is present; by
    `joined_limit_wrap_needed` the un-wrapped plan truncates collections. -/
theorem should_nest_misses_fetch :
    ∃ (ej mr hl ho hf di gb : Bool), nestNeeded ej mr hl ho hf di gb = true ∧ shouldNestOld ej mr hl ho hf di gb = false :=
  ⟨true, true, false, false, true, false, false, by decide, by decide⟩

/-! ## the concrete ORDER BY commutes with WHERE -/

def SortedK (l : List Child) : Prop := l.Pairwise (fun a b => a.k ≤ b.k)

theorem insertByK_of_le_all (c : Child) (l : List Child) (h : ∀ x ∈ l, c.k ≤ x.k) :
    insertByK c l = c :: l := by
  cases l with
  | nil => rfl
  | cons a t => simp [insertByK, h a List.mem_cons_self]

theorem mem_insertByK (c x : Child) : ∀ (l : List Child), x ∈ insertByK c l ↔ x = c ∨ x ∈ l := by
  intro l
  induction l with
  | nil => simp [insertByK]
  | cons a t ih =>
    simp only [insertByK]
    split
    · simp
    · simp only [List.mem_cons, ih]
      constructor
      · rintro (h | h | h)
        · exact Or.inr (Or.inl h)
        · exact Or.inl h
        · exact Or.inr (Or.inr h)
      · rintro (h | h | h)
        · exact Or.inr (Or.inl h)
        · exact Or.inl h
        · exact Or.inr (Or.inr h)

theorem insertByK_sorted (c : Child) : ∀ (l : List Child), SortedK l → SortedK (insertByK c l) := by
  intro l
  induction l with
  | nil => intro _; simp [insertByK, SortedK]
  | cons a t ih =>
    intro hs
    unfold SortedK at hs ⊢
    rw [List.pairwise_cons] at hs
    simp only [insertByK]
    split
    · rename_i hle
      rw [List.pairwise_cons]
      refine ⟨?_, List.pairwise_cons.2 hs⟩
      intro x hx
      rcases List.mem_cons.1 hx with rfl | hx
      · exact hle
      · exact Int.le_trans hle (hs.1 x hx)
    · rename_i hnle
      rw [List.pairwise_cons]
      refine ⟨?_, ih hs.2⟩
      intro x hx
      rcases (mem_insertByK c x t).1 hx with rfl | hx
      · omega
      · exact hs.1 x hx

theorem sortByK_sorted : ∀ (l : List Child), SortedK (sortByK l) := by
  intro l
  induction l with
  | nil => simp [sortByK, SortedK]
  | cons c t ih => exact insertByK_sorted c _ ih

theorem insertByK_filter (f : Child → Bool) (c : Child) :
    ∀ (l : List Child), SortedK l →
      (insertByK c l).filter f = if f c then insertByK c (l.filter f) else l.filter f := by
  intro l
  induction l with
  | nil => intro _; cases hf : f c <;> simp [insertByK, hf]
  | cons a t ih =>
    intro hs
    unfold SortedK at hs
    rw [List.pairwise_cons] at hs
    simp only [insertByK]
    by_cases hle : c.k ≤ a.k
    · simp only [hle, ↓reduceIte]
      cases hfc : f c with
      | false => simp [List.filter_cons, hfc]
      | true =>
        simp only [↓reduceIte]
        rw [insertByK_of_le_all c ((a :: t).filter f)]
        · simp [List.filter_cons, hfc]
        · intro x hx
          have hx' := (List.mem_filter.1 hx).1
          rcases List.mem_cons.1 hx' with rfl | hx'
          · exact hle
          · exact Int.le_trans hle (hs.1 x hx')
    · simp only [hle, ↓reduceIte, List.filter_cons]
      rw [ih hs.2]
      cases hfc : f c <;> cases hfa : f a <;> simp [insertByK, hle]

/-- **sortByK_filter_comm**: the stable insertion sort (an ORDER BY) commutes with WHERE, so
    the hypothesis of the theorems above is satisfiable -/
theorem sortByK_filter_comm : CommutesWithFilter sortByK := by
  intro f l
  induction l with
  | nil => rfl
  | cons c t ih =>
    simp only [sortByK]
    rw [insertByK_filter f c _ (sortByK_sorted t), ih]
    cases hfc : f c <;> simp [List.filter_cons, hfc, sortByK]

/-! ## many-to-one -/

theorem find?_ext {α : Type} (p q : α → Bool) :
    ∀ (l : List α), (∀ x ∈ l, p x = q x) → l.find? p = l.find? q := by
  intro l
  induction l with
  | nil => intro _; rfl
  | cons a t ih =>
    intro h
    simp only [List.find?_cons, h a List.mem_cons_self]
    rw [ih (fun x hx => h x (List.mem_cons_of_mem _ hx))]

/-- **m2o_selectin_eq_lazy**: loading the referenced rows with one `IN` query and a
    dictionary gives every child the parent a per-child lookup gives -/
theorem m2o_selectin_eq_lazy (ps : List Parent) (cs : List Child) :
    selectinRefs ps cs = lazyRefs ps cs := by
  unfold selectinRefs lazyRefs
  apply List.map_congr_left
  intro c hc
  simp only [Prod.mk.injEq, true_and]
  unfold parentOf
  cases hfk : c.fk with
  | none => rfl
  | some k =>
    simp only
    rw [List.find?_filter]
    apply find?_ext
    intro p _
    cases hpk : (p.id == k) with
    | false => simp
    | true =>
      have : p.id = k := by simpa using hpk
      simp
      exact ⟨c, hc, by rw [hfk, this]⟩

/-! ## non-vacuity -/

example : lazyGraph sortByK [⟨10, some 1, 5⟩, ⟨11, some 1, 2⟩, ⟨20, some 2, 0⟩, ⟨30, none, 0⟩] [⟨2, 0⟩, ⟨1, 0⟩, ⟨3, 0⟩]
    = [(⟨2, 0⟩, [⟨20, some 2, 0⟩]), (⟨1, 0⟩, [⟨11, some 1, 2⟩, ⟨10, some 1, 5⟩]), (⟨3, 0⟩, [])] := by decide
example : joinedGraph sortByK [⟨10, some 1, 5⟩, ⟨11, some 1, 2⟩, ⟨20, some 2, 0⟩] [⟨2, 0⟩, ⟨1, 0⟩, ⟨3, 0⟩]
    = lazyGraph sortByK [⟨10, some 1, 5⟩, ⟨11, some 1, 2⟩, ⟨20, some 2, 0⟩] [⟨2, 0⟩, ⟨1, 0⟩, ⟨3, 0⟩] := by decide
example : statementCount "selectin" 1100 = 4 := by decide

end SaVerif.Props.C40
