import SaVerif.Lemmas.Mutable
import SaVerif.Gen.MutableTable
/-!
# C49 — Mutable column values propagate in-place changes to the database

Theorems about M-MUT (`SaVerif/Model/Mutable.lean`, transcription of the change
tracking of `ext/mutable.py` + the committed_state / flush decision of the ORM for
one scalar column attribute) and about the regenerated method table
(`SaVerif/Gen/MutableTable.lean`).

Shape of the argument
* `inv_step` / `inv_run`: the invariant `Inv` is preserved by EVERY operation of the
  model, for any operation sequence, provided each method call on a value object
  satisfies `MutGuard` (content unchanged, or: override reaches `changed()`, builtin
  did not raise, no linked parent expired, no unlinked parent remembers the value as
  its committed original).
* `flush_stores_current`, `run_flush_stores_current`, `commit_reload_roundtrip`,
  `mutation_marks_modified`: what the invariant buys (the property).
* `every_mutator_flags`: `decide` over the regenerated table — discharges the first
  conjunct of the guard for every in-place mutator of dict / list / set.
* `*_counterexample`: each conjunct of the guard is necessary (witness sequences,
  replayed on the real code by the harness; see known_findings.d/C49.json).
-/
namespace SaVerif.Props.C49
open SaVerif.Mutable

/-- guard of one operation: only method calls on value objects carry a side condition -/
def Guard (tracked : String → Bool) (st : St) : Op → Prop
  | .mutp p m c r =>
    ∀ v, ((access st p).pars p).cur = .ref v → MutGuard tracked (access st p) v m c r
  | .mutv h m c r => ∀ v, st.handles[h]? = some v → MutGuard tracked st v m c r
  | _ => True

/-- every step of the run satisfies its guard in the state in which it executes -/
def GuardedRun (tracked : String → Bool) : St → List Op → Prop
  | _, [] => True
  | st, op :: ops => Guard tracked st op ∧ GuardedRun tracked (step tracked st op).1 ops

/-! ## the invariant holds initially and is preserved by every operation -/

theorem inv_init (rows : List (Option Content)) (af : Bool) : Inv (init rows af) := by
  refine ⟨?_, ?_, ?_, ?_, ?_, ?_, ?_, ?_, ?_⟩ <;> intros <;> simp_all [init]

theorem inv_step {tracked : String → Bool} {st : St} (h : Inv st) (op : Op)
    (g : Guard tracked st op) : Inv (step tracked st op).1 := by
  cases op with
  | access p => exact inv_access h p
  | mutp p m c r =>
    simp only [step]
    split
    · rename_i v hv
      exact inv_mutVal (inv_access h p) v m c r (g v hv)
    · exact inv_access h p
  | hold p =>
    simp only [step]
    split
    · rename_i v hv
      have h' := inv_access h p
      refine ⟨h'.wfCur, h'.wfOrig, ?_, h'.cleanRef, h'.cleanNone, h'.origRef, h'.origNone, h'.linked,
        h'.modOrig⟩
      intro w hw
      rcases List.mem_append.1 hw with hw | hw
      · exact h'.wfH w hw
      · simp only [List.mem_singleton] at hw
        subst hw
        exact h'.wfCur p _ hv
    · exact inv_access h p
  | mutv hd m c r =>
    simp only [step]
    split
    · rename_i v hv
      exact inv_mutVal h v m c r (g v hv)
    · exact h
  | setPlain p c => exact inv_setPlain h p c
  | setNone p => exact inv_setAttrRef h p .none (by intro w hw; cases hw)
  | setVal p hd =>
    simp only [step]
    split
    · rename_i v hv
      refine inv_setAttrRef h p (.ref v) ?_
      intro w hw
      cases hw
      exact h.wfH v (List.mem_of_getElem? hv)
    · exact h
  | flush => exact inv_flush h
  | commit => exact inv_commit h
  | rollback => exact inv_rollback h
  | expire p => exact inv_expire h p
  | expireAttr p => exact inv_expireAttr h p
  | refresh p => exact inv_refresh h p
  | refreshAttr p => exact inv_refreshAttr h p
  | refreshOther p => exact inv_autoflush h
  | pickle p => exact inv_pickleP h p
  | reget p => exact inv_reget h p

/-- **inv_run**: the invariant holds after ANY guarded operation sequence -/
theorem inv_run {tracked : String → Bool} :
    ∀ (ops : List Op) (st : St), Inv st → GuardedRun tracked st ops → Inv (run tracked st ops)
  | [], _, h, _ => h
  | op :: ops, _, h, g => inv_run ops _ (inv_step h op g.1) g.2

/-! ## what the invariant gives -/

/-- **flush_stores_current**: in a state satisfying the invariant, after `flush` the row
    of every parent whose attribute is loaded holds exactly the in-memory value
    (`c = none` is Python `None` / SQL NULL). -/
theorem flush_stores_current {st : St} (h : Inv st) (p : Nat) (c : Option Content)
    (hm : memOf (flush st) p = some c) : ((flush st).pars p).db = c := by
  have hI := inv_flush h
  have ho : ((flush st).pars p).orig = .absent := by
    simp only [flush_pars]
    by_cases hmod : (st.pars p).modified = true
    · exact flushPar_orig st p hmod
    · have hmod' : (st.pars p).modified = false := by simpa using hmod
      rw [flushPar_unmodified st p hmod']
      cases hor : (st.pars p).orig with
      | absent => rfl
      | _ =>
        have := h.modOrig p (by rw [hor]; simp)
        rw [this] at hmod'; cases hmod'
  unfold memOf at hm
  cases hx : ((flush st).pars p).cur with
  | absent => rw [hx] at hm; simp [contentOfCur] at hm
  | none =>
    rw [hx] at hm; simp only [contentOfCur, Option.some.injEq] at hm
    rw [← hm]; exact hI.cleanNone p ho hx
  | ref v =>
    rw [hx] at hm; simp only [contentOfCur, Option.some.injEq] at hm
    rw [← hm]; exact hI.cleanRef p v ho hx

/-- flush never changes a loaded in-memory value (it may load an expired one) -/
theorem flush_keeps_memory {st : St} (h : Inv st) (p : Nat) (c : Option Content)
    (hm : memOf st p = some c) : memOf (flush st) p = some c := by
  unfold memOf at hm ⊢
  have hc : ((flush st).pars p).cur = (st.pars p).cur := by
    simp only [flush_pars]
    by_cases hmod : (st.pars p).modified = true
    · have hl : flushLoads st p = false := by
        cases hl : flushLoads st p with
        | false => rfl
        | true =>
          have := (flushLoads_spec hl).2.2.2.1
          rw [this] at hm; simp [contentOfCur] at hm
      simp [flushPar, hmod, hl]
    · have hmod' : (st.pars p).modified = false := by simpa using hmod
      rw [flushPar_unmodified st p hmod']
  rw [hc]
  cases hx : (st.pars p).cur with
  | absent => rw [hx] at hm; simp [contentOfCur] at hm
  | none => rw [hx] at hm; exact hm
  | ref v =>
    rw [hx] at hm
    simp only [contentOfCur] at hm ⊢
    rw [flush_vals_old st v (h.wfCur p v hx)]
    exact hm

/-- **run_flush_stores_current**: from the initial state (all parents persistent, any
    rows, autoflush on or off), after ANY guarded operation sequence followed by a
    flush, stored value = in-memory value for every loaded attribute, and the flush did
    not alter what was in memory. -/
theorem run_flush_stores_current (tracked : String → Bool) (rows : List (Option Content))
    (af : Bool) (ops : List Op) (g : GuardedRun tracked (init rows af) ops) (p : Nat)
    (c : Option Content) (hm : memOf (run tracked (init rows af) ops) p = some c) :
    ((flush (run tracked (init rows af) ops)).pars p).db = c ∧
      memOf (flush (run tracked (init rows af) ops)) p = some c := by
  have hI := inv_run ops _ (inv_init rows af) g
  have hk := flush_keeps_memory hI p c hm
  exact ⟨flush_stores_current hI p c hk, hk⟩

/-- **commit_reload_roundtrip**: commit (flush, expire everything), then touching the
    attribute reloads exactly the value that was in memory before the commit, and the
    reloaded value object is linked to its parent again. -/
theorem commit_reload_roundtrip {st : St} (h : Inv st) (p : Nat) (c : Option Content)
    (hm : memOf st p = some c) :
    memOf (access (commit st) p) p = some c ∧
      ∀ v, ((access (commit st) p).pars p).cur = .ref v →
        p ∈ ((access (commit st) p).vals v).parents := by
  have hdb : ((flush st).pars p).db = c :=
    flush_stores_current h p c (flush_keeps_memory h p c hm)
  have hI := inv_access (inv_commit h) p
  refine ⟨?_, fun v hv => hI.linked p v hv⟩
  -- after commit everything is expired, clean and unmodified: access = (auto)flush
  -- (which does not touch an unmodified state) + load
  have hc : ((commit st).pars p).cur = .absent := by simp [commit, expireAll, expireObj]
  have ho : ((commit st).pars p).orig = .absent := by simp [commit, expireAll, expireObj]
  have hmo : ((commit st).pars p).modified = false := by simp [commit, expireAll, expireObj]
  have hd : ((commit st).pars p).db = c := by
    simp only [commit, expireAll, expireObj]
    exact hdb
  have haf : ((autoflush (commit st)).pars p).db = c := by
    unfold autoflush
    split
    · simp only [flush_pars, flushPar_unmodified _ p hmo]; exact hd
    · exact hd
  unfold access
  rw [hc, ho]
  simp only
  unfold loadExpired load memOf
  simp only
  rw [haf]
  cases c with
  | none => simp [contentOfCur]
  | some cc => simp [contentOfCur]

/-- **mutation_marks_modified**: a call of a tracked method that does not raise, on a
    value none of whose linked parents is expired, leaves EVERY parent currently holding
    that value flagged (`committed_state[key] = NO_VALUE`, i.e. the parent is dirty and
    the next flush writes the value unconditionally) and reports no error. -/
theorem mutation_marks_modified {tracked : String → Bool} {st : St} (h : Inv st) (v : Nat)
    (m : String) (c : Content) (ht : tracked m = true)
    (hna : ∀ q, q ∈ (st.vals v).parents → (st.pars q).cur ≠ .absent) :
    (mutVal tracked st v m c false).2 = .ok ∧
      ∀ p, (st.pars p).cur = .ref v → ((mutVal tracked st v m c false).1.pars p).orig = .noValue := by
  have a := changed_all (st.vals v).parents (putVal st v { st.vals v with content := c })
    (by intro q hq; simpa using hna q hq)
  unfold mutVal
  simp only [ht, Bool.not_false, Bool.and_self, if_true]
  have hps : ((putVal st v { st.vals v with content := c }).vals v).parents = (st.vals v).parents := by
    simp
  rw [hps]
  constructor
  · split
    · rfl
    · rename_i heq; rw [heq] at a; simp at a
  · intro p hp
    have := a.2 p (h.linked p v hp)
    split <;> (rename_i heq; rw [heq] at this; exact this)

/-- and the flagged value is written by the next flush, whatever it is -/
theorem flagged_is_written (st : St) (p : Nat) (c : Option Content)
    (ho : (st.pars p).orig = .noValue) (hmod : (st.pars p).modified = true)
    (hm : memOf st p = some c) : ((flush st).pars p).db = c := by
  simp only [flush_pars, flushPar, hmod, if_true, flushDb, ho]
  simp only [memOf] at hm
  rw [hm]
  simp only
  cases hx : (st.pars p).cur <;> simp [isEqual]

/-! ## the regenerated method table -/

open SaVerif.Gen.MutableTable in
/-- **every_mutator_flags**: every method of dict / list / set that probing shows to
    mutate in place is overridden in `Mutable<Type>` and its override unconditionally
    reaches `self.changed()` — decided over the table regenerated from the working
    tree on every run. -/
theorem every_mutator_flags :
    ∀ r ∈ rows, r.2.2.1 = true → (r.2.2.2.1 = true ∧ r.2.2.2.2 = true) := by
  decide

open SaVerif.Gen.MutableTable in
/-- the lookup used by the model driver agrees with the rows on every mutator -/
theorem tracked_of_mutator :
    ∀ r ∈ rows, r.2.2.1 = true → tracked r.1 r.2.1 = true := by
  decide

open SaVerif.Gen.MutableTable in
/-- the table is not trivially small: it knows the classic mutators of each type -/
theorem table_covers_core :
    (["__setitem__", "__delitem__", "clear", "pop", "popitem", "setdefault", "update", "__ior__"].all
        (fun m => rows.any (fun r => r.1 == "dict" && r.2.1 == m && r.2.2.1))) = true ∧
    (["__setitem__", "__delitem__", "append", "extend", "insert", "pop", "remove", "clear", "sort",
      "reverse", "__iadd__", "__imul__"].all
        (fun m => rows.any (fun r => r.1 == "list" && r.2.1 == m && r.2.2.1))) = true ∧
    (["add", "remove", "discard", "pop", "clear", "update", "intersection_update",
      "difference_update", "symmetric_difference_update", "__ior__", "__iand__", "__ixor__",
      "__isub__"].all
        (fun m => rows.any (fun r => r.1 == "set" && r.2.1 == m && r.2.2.1))) = true := by
  decide

/-- **table_guard**: for the real classes the first half of the guard reduces to facts
    about the call itself: a call of a method that mutates (per table), that does not
    raise, on a value with no expired linked parent and no unlinked rememberer, is
    guarded. -/
theorem table_guard (kind : String) (st : St) (v : Nat) (m : String) (c : Content)
    (hrow : ∃ r ∈ SaVerif.Gen.MutableTable.rows, r.1 = kind ∧ r.2.1 = m ∧ r.2.2.1 = true)
    (hna : ∀ q, q ∈ (st.vals v).parents → (st.pars q).cur ≠ .absent)
    (hal : ∀ q, (st.pars q).orig = .ref v → q ∈ (st.vals v).parents) :
    MutGuard (SaVerif.Gen.MutableTable.tracked kind) st v m c false := by
  obtain ⟨r, hr, hk, hm, hmu⟩ := hrow
  refine Or.inr ⟨?_, rfl, hna, hal⟩
  have := tracked_of_mutator r hr hmu
  rw [hk, hm] at this
  exact this

/-! ## non-vacuity -/

/-- a non-trivial guarded run: load, append (tracked), share the value with a second
    parent, mutate through the second parent, flush -/
example :
    let tr : String → Bool := fun _ => true
    let ops := [Op.mutp 0 "append" [1, 2] false, Op.hold 0, Op.setVal 1 0,
                Op.mutp 1 "append" [1, 2, 3] false]
    let st := flush (run tr (init [some [1], some [7]] true) ops)
    (st.pars 0).db = some [1, 2, 3] ∧ (st.pars 1).db = some [1, 2, 3] ∧
      memOf st 0 = some (some [1, 2, 3]) := by
  decide

/-- the hypotheses of `mutation_marks_modified` / `MutGuard` are satisfiable with a
    content-changing call -/
example :
    let st := access (init [some [1]] true) 0
    MutGuard (fun _ => true) st 0 "append" [1, 2] false ∧ [1, 2] ≠ (st.vals 0).content := by
  refine ⟨Or.inr ⟨rfl, rfl, ?_, ?_⟩, by decide⟩
  · intro q hq
    have : q = 0 := by
      simp [access, loadExpired, load, init, autoflush, flush, flushPar, flushLoads, setPar, alloc] at hq
    subst this
    decide
  · intro q hq
    exfalso
    by_cases hq0 : q = 0 <;>
      simp [access, loadExpired, load, init, autoflush, flush, flushPar, flushLoads, setPar, alloc, hq0] at hq

/-! ## every conjunct of the guard is necessary (counterexamples) -/

/-- the full-strength statement without the `tracked` guard is false:
    `∀ tracked ops, db-after-flush = memory` fails for any method that does not reach
    `changed()` — one call, one flush. -/
theorem untracked_mutator_counterexample (tracked : String → Bool) (m : String)
    (hm : tracked m = false) :
    let st := flush (run tracked (init [some [1]] false) [Op.mutp 0 m [1, 2] false])
    memOf st 0 = some (some [1, 2]) ∧ (st.pars 0).db = some [1] := by
  simp [run, step, access, loadExpired, load, autoflush, init, mutVal, hm, memOf, contentOfCur, flush,
    flushPar, flushLoads, flushDb, putVal, setPar, alloc]

/-- a builtin that raises after a partial mutation (`d.update([("a", 1), ("b",)])`,
    `s.update([1, []])`, `l.extend(gen)` …) skips `changed()`: the change is lost even
    though the method is tracked. -/
theorem partial_exception_counterexample :
    let st := flush (run (fun _ => true) (init [some [1]] false) [Op.mutp 0 "extend" [1, 2] true])
    memOf st 0 = some (some [1, 2]) ∧ (st.pars 0).db = some [1] := by
  decide

/-- committed_state keeps a live reference: `v = obj.data; obj.data = [1, 2];
    v.append(2); flush` — the replaced value now equals the new one, `is_equal` holds,
    no UPDATE is emitted and the assignment is lost. -/
theorem committed_alias_counterexample :
    let ops := [Op.hold 0, Op.setPlain 0 [1, 2], Op.mutv 0 "append" [1, 2] false]
    let st := flush (run (fun _ => true) (init [some [1]] false) ops)
    memOf st 0 = some (some [1, 2]) ∧ (st.pars 0).db = some [1] := by
  decide

/-- the same through legitimate operations only: a value shared by two parents, one
    parent replaces it, the other mutates it to the same content. -/
theorem shared_alias_counterexample :
    let ops := [Op.hold 1, Op.setVal 0 0, Op.flush, Op.setPlain 0 [7, 2],
                Op.mutp 1 "append" [7, 2] false]
    let st := flush (run (fun _ => true) (init [some [1], some [7]] false) ops)
    memOf st 0 = some (some [7, 2]) ∧ (st.pars 0).db = some [7] := by
  decide

/-- `changed()` aborts at the first expired holder: parent 0 and 1 share a value,
    parent 0 is expired, a mutation through parent 1 raises InvalidRequestError after
    the content changed and parent 1 is never flagged. -/
theorem expired_coholder_counterexample :
    let ops := [Op.hold 0, Op.setVal 1 0, Op.flush, Op.expire 0]
    let st1 := run (fun _ => true) (init [some [1], some [7]] false) ops
    let r := step (fun _ => true) st1 (Op.mutp 1 "append" [1, 2] false)
    r.2 = Outcome.errInvalidRequest ∧
      memOf (flush r.1) 1 = some (some [1, 2]) ∧ ((flush r.1).pars 1).db = some [1] := by
  decide

end SaVerif.Props.C49
