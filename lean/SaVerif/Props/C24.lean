import SaVerif.Lemmas.TxnPool
/-!
# C24 — Pooled connections carry no state from a previous checkout

Theorems about M-TXN (`SaVerif/Model/Txn.lean`): `Connection.close()` (with fix 387ee97),
`_ConnectionFairy._reset`, `_finalize_fairy`, `_ConnectionRecord.checkin / get_connection`,
garbage collection of an unclosed Connection, invalidation, the isolation-level
characteristic reset.  Helper lemmas: `Lemmas/TxnPool.lean`.
-/
namespace SaVerif.Props.C24
open SaVerif.Txn

theorem init_inv (rs : ResetStyle) (hrs : rs ≠ .none) (ls : Listener) (eo : List Bool) (rc : Option Nat) :
    Inv (Conn.connect (DB.init rs ls eo rc)) :=
  connect_inv (fun r hr => by simp [DB.init] at hr) ⟨hrs, rfl⟩ (heldIso_clean rfl rfl)

/-- **checkin_clean**: after EVERY operation sequence — any interleaving of begin,
    begin_nested, statements, commit, rollback, handle and context-manager operations,
    execution_options calls in any number and order (AUTOCOMMIT, READ UNCOMMITTED,
    logging_token, both in one call, unrelated options), engine-level options, explicit
    invalidation, armed DBAPI faults (error or disconnect at cursor(), execute(), commit(),
    rollback(), also during the reset itself), close(), garbage collection without close(),
    new checkouts and extra pooled connections — every DBAPI connection idle in the pool has
    no transaction in progress, no savepoints, the default isolation level and no pending
    reset callbacks, provided reset_on_return is not disabled. -/
theorem checkin_clean (rs : ResetStyle) (hrs : rs ≠ .none) (ls : Listener) (eo : List Bool) (rc : Option Nat)
    (ops : List Op) : PoolClean ((Conn.connect (DB.init rs ls eo rc)).run ops).db :=
  (run_inv ops _ (init_inv rs hrs ls eo rc)).2.1

/-- the same from any state satisfying the invariant (e.g. a pool that already holds
    connections) -/
theorem checkin_clean_from (c : Conn) (hi : Inv c) (ops : List Op) : PoolClean (c.run ops).db :=
  (run_inv ops c hi).2.1

/-- **handed_out_clean**: whatever happened before, the pool hands to the next
    `engine.connect()` (the previous Connection being closed, garbage collected or simply
    dropped) a DBAPI connection that sees exactly the committed rows, has no savepoints, is
    not in AUTOCOMMIT / READ UNCOMMITTED and carries no reset callback of an earlier user;
    the new Connection is not in a transaction. -/
theorem handed_out_clean (rs : ResetStyle) (hrs : rs ≠ .none) (ls : Listener) (eo : List Bool) (rc : Option Nat)
    (ops : List Op) :
    let db := ((Conn.connect (DB.init rs ls eo rc)).run ops).gc.db
    db.checkout.raw.working = db.checkout.committed ∧ db.checkout.raw.saves = [] ∧
    db.checkout.raw.autocommit = false ∧ db.checkout.raw.readUnc = false ∧
    db.checkout.raw.finalize = [] ∧
    (((Conn.connect (DB.init rs ls eo rc)).run ops).step .connect).1.inTransaction = false := by
  have h1 := gc_inv (run_inv ops _ (init_inv rs hrs ls eo rc))
  obtain ⟨a, b, d, e, f⟩ := checkout_held_clean _ h1.2.1
  exact ⟨a, b, d, e, f, rfl⟩

/-- a transparent reconnect after an invalidation also gets a clean connection — whenever
    it succeeds (the creator may fail: then nothing is handed out), and it does succeed when
    no fault is armed -/
theorem reconnect_clean (c : Conn) (hi : Inv c) (hinv : c.invalidated = true) (ht : c.transaction = none) :
    (c.revalidate.2 = .ok →
      c.revalidate.1.hasDbapi = true ∧
      c.revalidate.1.db.raw.working = c.revalidate.1.db.committed ∧ c.revalidate.1.db.raw.saves = [] ∧
      c.revalidate.1.db.raw.autocommit = false ∧ c.revalidate.1.db.raw.readUnc = false) ∧
    (c.revalidate.2 ≠ .ok → c.revalidate.1.hasDbapi = false) ∧
    (c.db.faults = [] → c.revalidate.2 = .ok) := by
  simp only [Conn.invalidated, Bool.and_eq_true, Bool.not_eq_true'] at hinv
  obtain ⟨a, b, d, e, _⟩ := checkout_held_clean _ hi.2.1
  simp only [Conn.revalidate, hinv.1, hinv.2, ht]
  refine ⟨?_, ?_, ?_⟩
  · cases hx : c.db.checkoutF with
    | mk db o =>
      cases o with
      | none =>
        have := checkoutF_none hx
        subst this
        intro _
        exact ⟨rfl, a, b, d, e⟩
      | some k =>
        intro h
        exfalso
        revert h
        simp only [Bool.true_and, Bool.not_false, if_true, Option.isSome_none, Bool.false_eq_true, if_false]
        cases k <;> simp <;> split <;> simp
  · cases hx : c.db.checkoutF with
    | mk db o =>
      cases o with
      | none => intro h; exact absurd rfl h
      | some k => intro _; rfl
  · intro hf
    rw [checkoutF_nofault hf]
    rfl

/-! ## F7 (fixed by 387ee97): the pre-fix close() breaks the invariant -/

/-- `Connection.close()` as it was before the fix: `skip_reset = True` whenever a
    transaction object is attached, even an inactive one (after a failed COMMIT) -/
def closePreFix (c : Conn) : Conn × Res :=
  match c.transaction with
  | some t => andThen (c.tClose t) fun c => (c.release true, .ok)
  | none => (c.release false, .ok)

/-- INSERT; COMMIT fails with a non-disconnect error; close(): with the pre-fix close() the
    DBAPI connection goes back to the pool with the INSERT still pending … -/
theorem prefix_close_counterexample :
    let c := (Conn.connect (DB.init .rollback)).run [.exec (.ins 1), .arm .commit .err, .commit]
    ¬ PoolClean (closePreFix c).1.db := by
  intro c h
  have := h (⟨0, 1, [1], [], false, false, false, []⟩ : Raw)
    (by decide)
  simp at this

/-- … while the current close() leaves the pool clean on the same history (instance of
    `checkin_clean`, evaluated) -/
example :
    ((Conn.connect (DB.init .rollback)).run [.exec (.ins 1), .arm .commit .err, .commit, .close]).db.idle
      = [some (⟨0, 1, [], [], false, true, false, []⟩ : Raw)] := by
  decide

/-! ## the two-registration shape (sensitivity)

`logging_token` first, `isolation_level="AUTOCOMMIT"` second, on one checkout: both calls queue
their own reset callback, so the isolation level is reset at check-in.  If the second
registration were dropped (callback queued only when the queue is empty) the connection
would go back in AUTOCOMMIT — the evaluated example shows the model distinguishes the two. -/

example :
    (((Conn.connect (DB.init .rollback)).run [.logToken, .autocommit, .exec (.ins 1), .close]).db.idle.map
      (fun o => o.map (fun r => (r.autocommit, r.finalize)))) = [some (false, [])] := by decide
example :
    ((Conn.connect (DB.init .rollback)).run [.logToken, .autocommit]).db.raw.finalize = [false, true] := by
  decide

/-! ## a BaseException during reset-on-return

`checkin_clean` quantifies over all three fault kinds; this is the interrupt instance: INSERT,
then the DBAPI's rollback() raises KeyboardInterrupt while the pool resets the connection
(close(): the interrupt comes out of close(); GC: it is swallowed).  The record is
invalidated and comes back EMPTY; the next checkout opens a fresh DBAPI connection. -/

example :
    let c := (Conn.connect (DB.init .rollback)).run [.exec (.ins 1), .rollback, .exec (.ins 2),
                                                      .commit, .arm .rollback .kbi]
    (c.step .close).2 = .interrupted ∧ (c.step .close).1.db.idle = [none] ∧
    (c.step .gc).1.db.idle = [none] ∧
    (((c.step .close).1.step .connect).1.db.raw.rid, ((c.step .close).1.step .connect).1.db.raw.working)
      = (1, [2]) := by decide

/-! ## create_engine(skip_autocommit_rollback=True)

The theorems above are stated for engines without `skip_autocommit_rollback` (`DB.init`'s
default).  With the option the dialect skips `dbapi_connection.rollback()` — in
`Connection._rollback_impl` AND in the pool's reset-on-return — exactly when the DBAPI
connection ITSELF reports driver-level autocommit; nothing recorded on the Connection object
takes part in the decision. -/

/-- whatever options the Connection has recorded: on a DBAPI connection that is not in
    autocommit the ROLLBACK is emitted, with or without `skip_autocommit_rollback` -/
theorem rollback_not_skipped_when_transactional (c : Conn) (hd : c.hasDbapi = true)
    (ha : c.db.raw.autocommit = false) (hf : c.db.faults = []) :
    c.rollbackImpl = ({ c with db := c.db.rollback }, .ok) := by
  simp [Conn.rollbackImpl, hd, DB.skipsRollback, ha, dbapiCall_nofault _ _ _ hf]

/-- … and the pool's reset-on-return rolls such a connection back as well (unless the
    Connection has just done so): the record put back sees the committed rows -/
theorem reset_not_skipped_when_transactional (db : DB) (hr : db.reset = .rollback)
    (ha : db.raw.autocommit = false) (hf : db.faults = []) :
    (db.checkin false).raw.working = db.committed ∧ (db.checkin false).raw.saves = [] := by
  simp [DB.checkin, hr, DB.skipsRollback, ha, takeFault_nil _ _ hf, DB.rollback]

/-- **checkin_clean_skip_partial**: for EVERY engine configuration — with or without
    `skip_autocommit_rollback` — returning a connection leaves the pool clean PROVIDED that a
    DBAPI connection which is in driver-level autocommit has nothing pending (no transaction
    opened by SQL): that is the assumption under which skipping the ROLLBACK is sound.
    `skip_autocommit_savepoint_counterexample` below shows a reachable state in which it
    fails (known finding F24). -/
theorem checkin_clean_skip_partial (db : DB) (b : Bool) (hrs : db.reset ≠ .none)
    (hb : b = true → HeldClean db) (hauto : db.skipsRollback = true → HeldClean db)
    (hc : PoolClean db) (hi : HeldIso db) :
    PoolClean (db.checkin b) :=
  (checkin_clean_gen db b hrs hauto hb hc hi).1

/-- with the option the invariant does NOT hold for every history: a SAVEPOINT opened while
    the DBAPI connection is in driver-level autocommit survives close() — the rollback is
    skipped by the dialect, and close() tells the pool that the transaction was reset (on
    SQLite the SAVEPOINT starts a transaction even in autocommit mode: the next user of the
    pooled connection inherits and may commit it; known finding F24
    `skip-autocommit-rollback:savepoint-open-at-close`, replayed on the real code) -/
theorem skip_autocommit_savepoint_counterexample :
    ¬ PoolClean ((Conn.connect (DB.init .rollback .none [] none true)).run
        [.autocommit, .beginNested, .exec (.ins 1), .close]).db := by
  intro h
  have := h (⟨0, 1, [1], [(1, [])], false, false, false, []⟩ : Raw) (by decide)
  simp at this
/-- without the option the same history is fine -/
example : ((Conn.connect (DB.init .rollback)).run
    [.autocommit, .beginNested, .exec (.ins 1), .close]).db.idle.map (fun o => o.map (·.saves)) = [some []] := by
  decide

/-! ## non-vacuity -/

/-- a history that leaves a transaction with a savepoint open and is garbage collected,
    then one that switches to AUTOCOMMIT and closes, then a failed ROLLBACK at close:
    three connections end up in / pass through the pool -/
def sampleOps : List Op :=
  [.exec (.ins 1), .beginNested, .exec (.ins 2), .gc, .connect, .autocommit, .exec (.ins 3), .close,
   .connect, .warm 2, .exec (.ins 4), .arm .rollback .err, .close, .connect, .exec .sel]

example : ((Conn.connect (DB.init .rollback)).run sampleOps).db.committed = [3] := by decide
example : ((Conn.connect (DB.init .rollback)).run sampleOps).db.raw.working = [3] := by decide
example : (((Conn.connect (DB.init .rollback)).run sampleOps).db.idle.length) = 2 := by decide
/-- with reset_on_return disabled the statement is false (the hypothesis `rs ≠ .none` is needed) -/
example : ¬ PoolClean ((Conn.connect (DB.init .none)).run [.exec (.ins 1), .gc]).db := by
  intro h
  have := h (⟨0, 1, [1], [], false, false, false, []⟩ : Raw)
    (by decide)
  simp at this

end SaVerif.Props.C24
