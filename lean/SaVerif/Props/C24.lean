import SaVerif.Lemmas.TxnPool
/-!
# C24 — Pooled connections carry no state from a previous checkout

Theorems about M-TXN (`SaVerif/Model/Txn.lean`): `Connection.close()` (with fix 387ee97),
`_ConnectionFairy._reset`, `_finalize_fairy`, `_ConnectionRecord.checkin / get_connection`,
garbage collection of an unclosed Connection, invalidation, the isolation-level
characteristic reset.  Helper lemmas: `Lemmas/TxnPool.lean`.
-/
namespace SaVerif.Props.C24
open SaVerif.Txn

/-- **checkin_clean**: after EVERY operation sequence — any interleaving of begin,
    begin_nested, statements, commit, rollback, handle and context-manager operations,
    AUTOCOMMIT switches, explicit invalidation, armed DBAPI faults (error or disconnect at
    cursor(), execute(), commit(), rollback(), also during the reset itself), close(),
    garbage collection without close(), new checkouts and extra pooled connections — every
    DBAPI connection idle in the pool has no transaction in progress, no savepoints and the
    default isolation level, provided reset_on_return is not disabled. -/
theorem checkin_clean (rs : ResetStyle) (hrs : rs ≠ .none) (ops : List Op) :
    PoolClean ((Conn.connect (DB.init rs)).run ops).db := by
  have h0 : Inv (Conn.connect (DB.init rs)) :=
    connect_inv (fun r hr => by simp [DB.init] at hr) hrs
  exact (run_inv ops _ h0).2.1

/-- the same from any state satisfying the invariant (e.g. a pool that already holds
    connections) -/
theorem checkin_clean_from (c : Conn) (hi : Inv c) (ops : List Op) : PoolClean (c.run ops).db :=
  (run_inv ops c hi).2.1

/-- **handed_out_clean**: whatever happened before, the next checkout (`engine.connect()`,
    the previous Connection being closed, garbage collected or simply dropped) holds a DBAPI
    connection that sees exactly the committed rows, has no savepoints and is not in
    AUTOCOMMIT. -/
theorem handed_out_clean (rs : ResetStyle) (hrs : rs ≠ .none) (ops : List Op) :
    let c := (((Conn.connect (DB.init rs)).run ops).step .connect).1
    c.db.raw.working = c.db.committed ∧ c.db.raw.saves = [] ∧ c.db.raw.autocommit = false ∧
    c.inTransaction = false := by
  have h0 : Inv (Conn.connect (DB.init rs)) :=
    connect_inv (fun r hr => by simp [DB.init] at hr) hrs
  have h1 := gc_inv (run_inv ops _ h0)
  obtain ⟨a, b, d⟩ := checkout_held_clean _ h1.2.1
  exact ⟨a, b, d, rfl⟩

/-- a transparent reconnect after an invalidation also gets a clean connection -/
theorem reconnect_clean (c : Conn) (hi : Inv c) (hinv : c.invalidated = true) (ht : c.transaction = none) :
    c.revalidate.2 = .ok ∧
    c.revalidate.1.db.raw.working = c.revalidate.1.db.committed ∧ c.revalidate.1.db.raw.saves = [] ∧
    c.revalidate.1.db.raw.autocommit = false := by
  simp only [Conn.invalidated, Bool.and_eq_true, Bool.not_eq_true'] at hinv
  obtain ⟨a, b, d⟩ := checkout_held_clean _ hi.2.1
  simp only [Conn.revalidate, hinv.1, hinv.2, ht]
  exact ⟨rfl, a, b, d⟩

/-! ## F7 (fixed by 387ee97): the pre-fix close() breaks the invariant -/

/-- `Connection.close()` as it was before the fix: `skip_reset = True` whenever a
    transaction object is attached, even an inactive one (after a failed COMMIT) -/
def closePreFix (c : Conn) : Conn × Res :=
  match c.transaction with
  | some t => andThen (c.tClose t) fun c => (c.release true, .ok)
  | none => (c.release false, .ok)

/-- INSERT; COMMIT fails with a non-disconnect error; close(): with the pre-fix close() the
    DBAPI connection goes back to the pool with the INSERT still pending … -/
theorem prefix_close_counterexample :
    let c := (Conn.connect (DB.init .rollback)).run [.exec (.ins 1), .arm .commit .err, .commit]
    ¬ PoolClean (closePreFix c).1.db := by
  intro c h
  have := h { rid := 0, born := 1, working := [1], saves := [], autocommit := false, follows := false }
    (by decide)
  simp at this

/-- … while the current close() leaves the pool clean on the same history (instance of
    `checkin_clean`, evaluated) -/
example :
    ((Conn.connect (DB.init .rollback)).run [.exec (.ins 1), .arm .commit .err, .commit, .close]).db.idle
      = [some { rid := 0, born := 1, working := [], saves := [], autocommit := false, follows := true }] := by
  decide

/-! ## non-vacuity -/

/-- a history that leaves a transaction with a savepoint open and is garbage collected,
    then one that switches to AUTOCOMMIT and closes, then a failed ROLLBACK at close:
    three connections end up in / pass through the pool -/
def sampleOps : List Op :=
  [.exec (.ins 1), .beginNested, .exec (.ins 2), .gc, .connect, .autocommit, .exec (.ins 3), .close,
   .connect, .warm 2, .exec (.ins 4), .arm .rollback .err, .close, .connect, .exec .sel]

example : ((Conn.connect (DB.init .rollback)).run sampleOps).db.committed = [3] := by decide
example : ((Conn.connect (DB.init .rollback)).run sampleOps).db.raw.working = [3] := by decide
example : (((Conn.connect (DB.init .rollback)).run sampleOps).db.idle.length) = 2 := by decide
/-- with reset_on_return disabled the statement is false (the hypothesis `rs ≠ .none` is needed) -/
example : ¬ PoolClean ((Conn.connect (DB.init .none)).run [.exec (.ins 1), .gc]).db := by
  intro h
  have := h { rid := 0, born := 1, working := [1], saves := [], autocommit := false, follows := false }
    (by decide)
  simp at this

end SaVerif.Props.C24
