import SaVerif.Model.OrmQuery
/-!
# C41 — ORM queries return the rows their relational meaning specifies

For every parent and child table: the ORM reading of a query (navigating the mapped
object graph) and the Core reading (the EXISTS / JOIN SQL that the relationship
comparators and the ORM join render) select the same rows, and count / exists agree with
the number of rows.  The theorems are about the relational model; that the ORM emits this
SQL and maps rows to entities one-to-one is checked by execution (translation validation).
-/
namespace SaVerif.Props.C41
open SaVerif.Loader SaVerif.OrmQuery

theorem any_isEmpty_filter {α : Type} (f : α → Bool) (l : List α) :
    (!(l.filter f).isEmpty) = l.any f := by
  induction l with
  | nil => rfl
  | cons a t ih =>
    simp only [List.filter_cons, List.any_cons]
    cases hf : f a
    · simpa using ih
    · simp

/-- **any_orm_eq_core**: `A.bs.any(crit)` ≡ the correlated EXISTS -/
theorem any_orm_eq_core (crit : Child → Bool) (ps : List Parent) (cs : List Child) :
    anyOrm crit ps cs = anyCore crit ps cs := by
  unfold anyOrm anyCore collection
  apply List.filter_congr
  intro p _
  rw [any_isEmpty_filter, List.any_filter]

/-- `~A.bs.any(crit)` ≡ NOT EXISTS -/
theorem not_any_orm_eq_core (crit : Child → Bool) (ps : List Parent) (cs : List Child) :
    ps.filter (fun p => !(collection cs p).any crit)
      = ps.filter (fun p => (cs.filter (fun c => belongs p c && crit c)).isEmpty) := by
  apply List.filter_congr
  intro p _
  have := any_isEmpty_filter (fun c => belongs p c && crit c) cs
  unfold collection
  rw [List.any_filter, ← this]
  simp

/-- **join_orm_eq_core**: joining along the relationship yields exactly the rows of
    `a JOIN b ON a.id = b.a_id`, in the same order, with the same multiplicities -/
theorem join_orm_eq_core (ps : List Parent) (cs : List Child) :
    joinOrm ps cs = joinCore ps cs := by
  unfold joinOrm joinCore collection
  induction ps with
  | nil => rfl
  | cons p rest ih =>
    simp only [List.flatMap_cons, List.filter_append, ih]
    congr 1
    rw [List.filter_map]
    rfl

theorem find?_isSome_crit (ps : List Parent) (hn : (ps.map (·.id)).Nodup) (k : Nat)
    (crit : Parent → Bool) :
    ((ps.find? (fun p => p.id == k)).map crit).getD false
      = ps.any (fun p => p.id == k && crit p) := by
  induction ps with
  | nil => rfl
  | cons a t ih =>
    simp only [List.map_cons, List.nodup_cons] at hn
    simp only [List.find?_cons, List.any_cons]
    cases hk : (a.id == k)
    · simpa using ih hn.2
    · simp only [Bool.true_and]
      have hnone : t.any (fun p => p.id == k && crit p) = false := by
        rw [List.any_eq_false]
        intro p hp
        have hne : p.id ≠ k := by
          intro h
          have : a.id = k := by simpa using hk
          exact hn.1 (this ▸ h ▸ List.mem_map_of_mem hp)
        simp [hne]
      simp [hnone]

/-- **has_orm_eq_core**: `B.a.has(crit)` ≡ the correlated EXISTS (primary keys distinct) -/
theorem has_orm_eq_core (crit : Parent → Bool) (ps : List Parent) (cs : List Child)
    (hn : (ps.map (·.id)).Nodup) :
    hasOrm crit ps cs = hasCore crit ps cs := by
  unfold hasOrm hasCore
  apply List.filter_congr
  intro c _
  rw [any_isEmpty_filter]
  unfold parentOf belongs
  cases hfk : c.fk with
  | none => simp
  | some k =>
    simp only
    rw [find?_isSome_crit ps hn k crit]
    congr 1
    funext p
    congr 1
    exact Bool.beq_comm

/-- **contains_orm_eq_core**: `A.bs.contains(b)` ≡ `a.id = b.a_id`, for a `b` of the table -/
theorem contains_orm_eq_core (b : Child) (ps : List Parent) (cs : List Child) (hb : b ∈ cs) :
    containsOrm b ps cs = containsCore b ps := by
  unfold containsOrm containsCore collection
  apply List.filter_congr
  intro p _
  cases hbel : belongs p b with
  | true => simp [List.mem_filter, hb, hbel]
  | false => simp [List.mem_filter, hbel]

/-- **count_exists_agree**: `count(*)` over a query is the number of rows it returns and
    EXISTS is true exactly when that count is positive -/
theorem count_exists_agree {α : Type} (rows : List α) :
    countOf rows = rows.length ∧ (existsOf rows = true ↔ 0 < countOf rows) := by
  refine ⟨rfl, ?_⟩
  unfold existsOf countOf
  cases rows <;> simp

/-- count over the relationship join = total size of the collections -/
theorem join_count (ps : List Parent) (cs : List Child) :
    countOf (joinCore ps cs) = ((groupCount ps cs).map (·.2)).sum := by
  rw [← join_orm_eq_core]
  unfold countOf joinOrm groupCount
  induction ps with
  | nil => rfl
  | cons p rest ih => simp [List.flatMap_cons, ih]

/-- UNION ALL keeps every row of both sides; UNION has no duplicates and the same members -/
theorem union_rows {α : Type} [BEq α] [LawfulBEq α] (l1 l2 : List α) :
    (unionAllRows l1 l2).length = l1.length + l2.length ∧
    (∀ x, x ∈ unionRows l1 l2 ↔ x ∈ l1 ∨ x ∈ l2) := by
  refine ⟨by simp [unionAllRows], ?_⟩
  intro x
  unfold unionRows
  rw [List.mem_eraseDups, List.mem_append]

/-! ## non-vacuity -/
example : anyOrm (fun c => c.k == 2) [⟨1, 0⟩, ⟨2, 0⟩] [⟨10, some 1, 2⟩, ⟨11, some 2, 0⟩] = [⟨1, 0⟩] := by decide
example : joinCore [⟨1, 0⟩, ⟨2, 0⟩] [⟨10, some 1, 2⟩, ⟨11, some 1, 0⟩, ⟨12, none, 0⟩]
    = [(⟨1, 0⟩, ⟨10, some 1, 2⟩), (⟨1, 0⟩, ⟨11, some 1, 0⟩)] := by decide
example : hasCore (fun p => p.x == 5) [⟨1, 5⟩, ⟨2, 0⟩] [⟨10, some 1, 2⟩, ⟨11, some 2, 0⟩, ⟨12, none, 0⟩]
    = [⟨10, some 1, 2⟩] := by decide

end SaVerif.Props.C41
