import SaVerif.Model.History
/-!
# C36 — Attribute history reports exactly the net change since load

Theorems about M-HIST (`SaVerif/Model/History.lean`): `History.from_scalar_attribute`,
`from_object_attribute`, `from_collection` transcribed literally, plus the committed_state
capture and the set / del / collection-event / expire / load / flush transitions.

* `Scalar.inv_run`, `Coll.inv_run`: for ALL operation sequences the invariant holds
  (a clean attribute mirrors the row; the value captured at the FIRST modification is the
  committed value).
* `history_eq_diff_*`: under the invariant the history triple is exactly
  diff(committed, current) — including set-back-to-original (`set_back_no_change`).
* `flush_persists_history`: after flush the row holds the current value and the history
  has no added / deleted part.
* `history_unknown_original`: when the committed value was not in memory at the first
  modification the code reports `added = [current]`, `deleted = ()` — the excluded case of
  the full-strength statement, with a counterexample.
-/
namespace SaVerif.Props.C36
open SaVerif.History

/-! ## scalar column / many-to-one reference -/
namespace Scalar
open SaVerif.History.Scalar

/-- the invariant -/
structure Inv (s : St) : Prop where
  clean : s.cs = .noHistory → ∀ c, s.cur = .val c → s.db = some c
  orig : ∀ o, s.cs = .val o → s.db = some o

theorem inv_loaded (v : SVal) (isObj : Bool) : Inv (loaded v isObj) :=
  ⟨(fun _ c h => by simp only [loaded, Slot.val.injEq] at h; subst h; rfl), (fun o h => by cases h)⟩

theorem inv_fresh (isObj : Bool) : Inv (fresh isObj) :=
  ⟨(fun _ c h => by cases h), (fun o h => by cases h)⟩

/-- what `_modified_event` records is the committed value, whenever it records a value -/
theorem oldOf_val {s : St} (h : Inv s) (hc : s.cs = .noHistory) (o : SVal)
    (ho : oldOf s = .val o) : s.db = some o := by
  unfold oldOf at ho
  cases hcur : s.cur with
  | val c =>
    rw [hcur] at ho
    simp only [CS.val.injEq] at ho
    subst ho
    exact h.clean hc c hcur
  | absent =>
    rw [hcur] at ho
    simp only at ho
    split at ho
    · cases hdb : s.db with
      | none => rw [hdb] at ho; cases ho
      | some v => rw [hdb] at ho; simp only [CS.val.injEq] at ho; subst ho; rfl
    · cases ho

theorem capture_val {s : St} (h : Inv s) (o : SVal) (ho : capture s.cs (oldOf s) = .val o) :
    s.db = some o := by
  unfold capture at ho
  cases hcs : s.cs with
  | noHistory => rw [hcs] at ho; exact oldOf_val h hcs o ho
  | noValue => rw [hcs] at ho; cases ho
  | noResult => rw [hcs] at ho; cases ho
  | val o' => rw [hcs] at ho; simp only [CS.val.injEq] at ho; subst ho; exact h.orig o' hcs

theorem capture_ne_noHistory (s : St) : capture s.cs (oldOf s) ≠ .noHistory := by
  unfold capture oldOf
  cases s.cs <;> simp
  cases s.cur <;> simp
  split
  · cases s.db <;> simp
  · simp

/-- the invariant only looks at `cur`, `cs`, `db`; every operation of the machine either leaves
    them alone, records the old value (a modification), or ends in a clean state whose value —
    if present — is the row's -/
theorem inv_of {s t : St} (h : Inv s)
    (H : (t.cur = s.cur ∧ t.cs = s.cs ∧ t.db = s.db) ∨
         (t.cs = capture s.cs (oldOf s) ∧ t.db = s.db) ∨
         (t.cs = .noHistory ∧ (t.cur = .absent ∨ ∃ v, t.cur = .val v ∧ t.db = some v))) : Inv t := by
  rcases H with ⟨h1, h2, h3⟩ | ⟨h1, h2⟩ | ⟨h1, h2⟩
  · exact ⟨fun hc c hcur => by rw [h3]; exact h.clean (h2 ▸ hc) c (h1 ▸ hcur),
      fun o ho => by rw [h3]; exact h.orig o (h2 ▸ ho)⟩
  · refine ⟨fun hc => ?_, fun o ho => ?_⟩
    · rw [h1] at hc; exact absurd hc (capture_ne_noHistory s)
    · rw [h1] at ho; rw [h2]; exact capture_val h o ho
  · refine ⟨fun _ c hcur => ?_, fun o ho => ?_⟩
    · rcases h2 with h2 | ⟨v, hv, hdb⟩
      · rw [h2] at hcur; cases hcur
      · rw [hv] at hcur; simp only [Slot.val.injEq] at hcur; subst hcur; exact hdb
    · rw [h1] at ho; cases ho

theorem flushWrite_core (s : St) :
    ((flushWrite s).cur = s.cur ∧ (flushWrite s).cs = s.cs ∧ (flushWrite s).db = s.db ∧
        s.cs = .noHistory ∧ s.db.isSome = true) ∨
    ((flushWrite s).cs = .noHistory ∧ (flushWrite s).cur = s.cur ∧
      (flushWrite s).db = some (match s.cur with | .val c => c | .absent => none)) := by
  unfold flushWrite
  split
  · rename_i hcs
    split
    · rename_i v hdb
      exact Or.inl ⟨rfl, rfl, rfl, hcs, by simp [hdb]⟩
    · exact Or.inr ⟨hcs, rfl, rfl⟩
  · exact Or.inr ⟨rfl, rfl, rfl⟩

theorem inv_flushWrite {s : St} (h : Inv s) : Inv (flushWrite s) := by
  rcases flushWrite_core s with ⟨h1, h2, h3, _, _⟩ | ⟨h1, h2, h3⟩
  · exact inv_of h (Or.inl ⟨h1, h2, h3⟩)
  · refine inv_of h (Or.inr (Or.inr ⟨h1, ?_⟩))
    rw [h2, h3]
    cases s.cur with
    | absent => exact Or.inl rfl
    | val c => exact Or.inr ⟨c, rfl, rfl⟩

theorem inv_step {s : St} (h : Inv s) (op : Op) : Inv (step s op) := by
  cases op with
  | set v => exact inv_of h (Or.inr (Or.inl ⟨rfl, rfl⟩))
  | del =>
    refine inv_of h (Or.inr (Or.inl ?_))
    simp only [step, del]
    split
    · exact ⟨rfl, rfl⟩
    · split
      · split <;> exact ⟨rfl, rfl⟩
      · split <;> exact ⟨rfl, rfl⟩
  | expire =>
    simp only [step, expire]
    split
    · exact h
    · exact inv_of h (Or.inr (Or.inr ⟨rfl, Or.inl rfl⟩))
  | expireAll =>
    simp only [step, expireAll]
    split
    · exact h
    · exact inv_of h (Or.inr (Or.inr ⟨rfl, Or.inl rfl⟩))
  | load =>
    simp only [step, load]
    split
    · rename_i v hcur hdb
      split
      · split
        · exact h
        · exact inv_of h (Or.inr (Or.inr ⟨rfl, Or.inr ⟨v, rfl, hdb⟩⟩))
      · split
        · exact inv_of h (Or.inr (Or.inr ⟨rfl, Or.inr ⟨v, rfl, hdb⟩⟩))
        · exact h
    · exact h
  | loadOther =>
    simp only [step, loadOther]
    split
    · exact h
    · split
      · rename_i v hcur hcs hdb
        split
        · exact inv_of h (Or.inr (Or.inr ⟨hcs, Or.inr ⟨v, rfl, hdb⟩⟩))
        · exact inv_of h (Or.inl ⟨rfl, rfl, rfl⟩)
      · exact inv_of h (Or.inl ⟨rfl, rfl, rfl⟩)
  | flush =>
    have hw := inv_flushWrite h
    simp only [step, flush]
    split
    · split
      · split
        · rename_i v hcur hcs hdb
          have hcs1 : (flushWrite s).cs = .noHistory := by
            rcases flushWrite_core s with ⟨_, h2, _, _, _⟩ | ⟨h1, _, _⟩
            · rw [h2]; exact hcs
            · exact h1
          split
          · exact inv_of hw (Or.inr (Or.inr ⟨hcs1, Or.inr ⟨v, rfl, hdb⟩⟩))
          · exact inv_of hw (Or.inl ⟨rfl, rfl, rfl⟩)
        · exact inv_of hw (Or.inl ⟨rfl, rfl, rfl⟩)
      · exact inv_of hw (Or.inl ⟨rfl, rfl, rfl⟩)
    · exact hw

/-- **inv_run**: the invariant holds after ANY sequence of set / del / expire / load / flush -/
theorem inv_run : ∀ (ops : List Op) (s : St), Inv s → Inv (run s ops)
  | [], _, h => h
  | op :: ops, _, h => inv_run ops _ (inv_step h op)

/-- **history_eq_diff** (column attribute): whenever the committed value is known to the
    state (no committed_state entry, or an entry holding a value), the history of a present
    attribute is exactly the difference between the committed row value `d` and the current
    value `c`: unchanged when equal — in particular after setting back to the original —
    otherwise added = [c], deleted = [d]. -/
theorem history_eq_diff_scalar {s : St} (h : Inv s) (hobj : s.isObj = false) (c d : SVal)
    (hc : s.cur = .val c) (hd : s.db = some d)
    (hk : s.cs = .noHistory ∨ ∃ o, s.cs = .val o) :
    history s = if c = d then ⟨[], [c], []⟩ else ⟨[c], [], [d]⟩ := by
  unfold history
  rw [hc, hobj]
  simp only [Bool.false_eq_true, if_false]
  rcases hk with hk | ⟨o, hk⟩
  · have := h.clean hk c hc
    rw [hd] at this
    simp only [Option.some.injEq] at this
    subst this
    rw [hk]
    simp [fromScalar]
  · have := h.orig o hk
    rw [hd] at this
    simp only [Option.some.injEq] at this
    subst this
    rw [hk]
    by_cases hcd : c = d
    · subst hcd; simp [fromScalar]
    · have hb : (c == d) = false := by simpa using hcd
      simp [fromScalar, hb, hcd]

/-- **history_eq_diff** (many-to-one reference): same, with the code's convention that a
    `None` original is not listed under deleted. -/
theorem history_eq_diff_object {s : St} (h : Inv s) (hobj : s.isObj = true) (c d : SVal)
    (hc : s.cur = .val c) (hd : s.db = some d)
    (hk : s.cs = .noHistory ∨ ∃ o, s.cs = .val o) :
    history s = if c = d then ⟨[], [c], []⟩
      else ⟨[c], [], match d with | some o => [some o] | none => []⟩ := by
  unfold history
  rw [hc, hobj]
  simp only [if_true]
  rcases hk with hk | ⟨o, hk⟩
  · have := h.clean hk c hc
    rw [hd] at this
    simp only [Option.some.injEq] at this
    subst this
    rw [hk]
    simp [fromObject]
  · have := h.orig o hk
    rw [hd] at this
    simp only [Option.some.injEq] at this
    subst this
    rw [hk]
    by_cases hcd : c = d
    · subst hcd; simp [fromObject]
    · have hb : (c == d) = false := by simpa using hcd
      cases d with
      | none => simp [fromObject, hb, hcd]
      | some o => simp [fromObject, hb, hcd]

/-- set-back-to-original: after any history of assignments on a loaded attribute, assigning
    the committed value again leaves no net change -/
theorem set_back_no_change (v : SVal) (ops : List Op) (hload : ∀ op ∈ ops, ∃ w, op = Op.set w) :
    history (set (run (loaded v false) ops) v) = ⟨[], [v], []⟩ := by
  have hI : Inv (run (loaded v false) ops) := inv_run ops _ (inv_loaded v false)
  -- a run of sets never changes the row, never expires, stays a column attribute
  have hkeep : ∀ (ops : List Op) (s : St), (∀ op ∈ ops, ∃ w, op = Op.set w) →
      (run s ops).db = s.db ∧ (run s ops).isObj = s.isObj ∧
      (((∃ c, s.cur = .val c) ∧ (s.cs = .noHistory ∨ ∃ o, s.cs = .val o)) →
        ((∃ c, (run s ops).cur = .val c) ∧
          ((run s ops).cs = .noHistory ∨ ∃ o, (run s ops).cs = .val o))) := by
    intro ops
    induction ops with
    | nil => intro s _; exact ⟨rfl, rfl, id⟩
    | cons op ops ih =>
      intro s hs
      obtain ⟨w, rfl⟩ := hs op (List.mem_cons_self ..)
      have := ih (step s (.set w)) (fun o ho => hs o (List.mem_cons_of_mem _ ho))
      refine ⟨this.1, this.2.1, fun hpre => this.2.2 ⟨⟨w, rfl⟩, ?_⟩⟩
      obtain ⟨⟨c, hc⟩, hk⟩ := hpre
      show (SaVerif.History.Scalar.set s w).cs = .noHistory ∨ ∃ o, (SaVerif.History.Scalar.set s w).cs = .val o
      simp only [SaVerif.History.Scalar.set, capture, oldOf, hc]
      rcases hk with hk | ⟨o, hk⟩
      · rw [hk]; exact Or.inr ⟨c, rfl⟩
      · rw [hk]; exact Or.inr ⟨o, rfl⟩
  have hk := hkeep ops (loaded v false) hload
  have hI' := inv_step hI (.set v)
  have hdb : (SaVerif.History.Scalar.set (run (loaded v false) ops) v).db = some v := hk.1
  have hob : (SaVerif.History.Scalar.set (run (loaded v false) ops) v).isObj = false := hk.2.1
  obtain ⟨⟨c, hc⟩, hkn⟩ := hk.2.2 ⟨⟨v, rfl⟩, Or.inl rfl⟩
  have hcs : ∃ o, (SaVerif.History.Scalar.set (run (loaded v false) ops) v).cs = .val o := by
    simp only [SaVerif.History.Scalar.set, capture, oldOf, hc]
    rcases hkn with hkn | ⟨o, hkn⟩
    · rw [hkn]; exact ⟨c, rfl⟩
    · rw [hkn]; exact ⟨o, rfl⟩
  have := history_eq_diff_scalar hI' hob v v rfl hdb (Or.inr hcs)
  simp only [if_true] at this
  exact this

/-- when the committed value was NOT in memory at the first modification (expired column,
    new object) the code records NO_VALUE and reports the current value as added with nothing
    deleted — whatever the row holds -/
theorem history_unknown_original (s : St) (c : SVal) (hobj : s.isObj = false)
    (hc : s.cur = .val c) (hcs : s.cs = .noValue) : history s = ⟨[c], [], []⟩ := by
  simp [history, hc, hobj, hcs, fromScalar]

/-- so the unrestricted statement "history = diff(row, current)" is false: expire, assign
    the same value as the row — reported as a change -/
theorem unknown_original_counterexample :
    history (run (loaded (some 5) false) [.expire, .set (some 5)]) = ⟨[some 5], [], []⟩ := by
  decide

/-- `flush` = `flushWrite` up to the flags, except that an absent attribute may be loaded -/
theorem flush_core (s : St) :
    (flush s).cs = (flushWrite s).cs ∧ (flush s).db = (flushWrite s).db ∧
    (flush s).isObj = (flushWrite s).isObj ∧
    ((flush s).cur = (flushWrite s).cur ∨ (flushWrite s).cur = .absent) := by
  unfold flush
  simp only
  split
  · split
    · split
      · rename_i v hcur hcs hdb
        have hcur1 : (flushWrite s).cur = .absent := by
          rcases flushWrite_core s with ⟨h1, _, _, _, _⟩ | ⟨_, h2, _⟩
          · rw [h1]; exact hcur
          · rw [h2]; exact hcur
        split
        · exact ⟨rfl, rfl, rfl, Or.inr hcur1⟩
        · exact ⟨rfl, rfl, rfl, Or.inl rfl⟩
      · exact ⟨rfl, rfl, rfl, Or.inl rfl⟩
    · exact ⟨rfl, rfl, rfl, Or.inl rfl⟩
  · exact ⟨rfl, rfl, rfl, Or.inl rfl⟩

theorem flushWrite_isObj (s : St) : (flushWrite s).isObj = s.isObj := by
  unfold flushWrite
  split
  · split <;> rfl
  · rfl

/-- **flush_persists_history**: flush writes the current value and leaves a history without
    added / deleted parts -/
theorem flush_persists_history (s : St) (c : SVal) (hc : s.cur = .val c)
    (hm : s.cs ≠ .noHistory ∨ s.db = none) :
    (flush s).db = some c ∧ history (flush s) = ⟨[], [c], []⟩ := by
  have hw : (flushWrite s).cs = .noHistory ∧ (flushWrite s).cur = .val c ∧
      (flushWrite s).db = some c := by
    rcases flushWrite_core s with ⟨_, _, _, h4, h5⟩ | ⟨h1, h2, h3⟩
    · rcases hm with hm | hm
      · exact absurd h4 hm
      · rw [hm] at h5; cases h5
    · rw [hc] at h3 h2
      exact ⟨h1, h2, h3⟩
  obtain ⟨f1, f2, f3, f4⟩ := flush_core s
  have hcur : (flush s).cur = .val c := by
    rcases f4 with f4 | f4
    · rw [f4]; exact hw.2.1
    · rw [hw.2.1] at f4; cases f4
  refine ⟨by rw [f2]; exact hw.2.2, ?_⟩
  unfold history
  rw [hcur, f1, hw.1]
  simp only
  split <;> simp [fromObject, fromScalar]

/-- a deleted attribute is written as NULL -/
theorem flush_writes_null_for_deleted (s : St) (hc : s.cur = .absent) (hm : s.cs ≠ .noHistory) :
    (flush s).db = some none := by
  rcases flushWrite_core s with ⟨_, _, _, h4, _⟩ | ⟨_, _, h3⟩
  · exact absurd h4 hm
  · rw [(flush_core s).2.1, h3, hc]

example : history (run (loaded (some 1) false) [.set (some 2), .set none, .set (some 1)])
    = ⟨[], [some 1], []⟩ := by decide

example : history (run (loaded (some 1) false) [.set (some 2), .flush, .set (some 3)])
    = ⟨[some 3], [], [some 2]⟩ := by decide

end Scalar

/-! ## collections -/
namespace Coll
open SaVerif.History.Coll

theorem mem_insertSorted (x a : Nat) : ∀ l : List Nat, x ∈ insertSorted a l ↔ x = a ∨ x ∈ l
  | [] => by simp [insertSorted]
  | y :: ys => by
    unfold insertSorted
    split
    · simp
    · simp only [List.mem_cons, mem_insertSorted x a ys]
      constructor
      · rintro (h | h | h)
        · exact Or.inr (Or.inl h)
        · exact Or.inl h
        · exact Or.inr (Or.inr h)
      · rintro (h | h | h)
        · exact Or.inr (Or.inl h)
        · exact Or.inl h
        · exact Or.inr (Or.inr h)

theorem mem_sortNat (x : Nat) : ∀ l : List Nat, x ∈ sortNat l ↔ x ∈ l
  | [] => by simp [sortNat]
  | y :: ys => by
    have ih := mem_sortNat x ys
    simp only [sortNat, List.foldr_cons] at ih ⊢
    rw [mem_insertSorted, ih]
    simp

/-- same members -/
def Same (a b : List Nat) : Prop := ∀ x, x ∈ a ↔ x ∈ b

/-- committed membership: the rows; an object without a row has none -/
def committed (s : St) : List Nat := s.db.getD []

/-- the invariant: a clean loaded collection and a captured original both hold exactly the
    committed members -/
structure Inv (s : St) : Prop where
  clean : s.cs = .noHistory → ∀ c, s.cur = .val c → Same c (committed s)
  orig : ∀ o, s.cs = .val o → Same o (committed s)

theorem inv_loaded (l : List Nat) : Inv (loaded l) :=
  ⟨(fun _ c h => by
      simp only [loaded, Slot.val.injEq] at h; subst h; exact fun _ => Iff.rfl),
   (fun o h => by cases h)⟩

theorem inv_fresh : Inv fresh := ⟨(fun _ c h => by cases h), (fun o h => by cases h)⟩

theorem touch_val (s : St) (c : List Nat) (hc : s.cur = .val c) : touch s = s := by
  unfold touch
  split
  · rename_i h _; rw [hc] at h; cases h
  · rfl

theorem touch_cs (s : St) : (touch s).cs = s.cs := by unfold touch; split <;> rfl
theorem touch_db (s : St) : (touch s).db = s.db := by unfold touch; split <;> rfl

theorem inv_touch {s : St} (h : Inv s) : Inv (touch s) := by
  unfold touch
  split
  · rename_i l hcur hdb
    refine ⟨fun _ c hcv => ?_, fun o ho => h.orig o ho⟩
    simp only [Slot.val.injEq] at hcv
    subst hcv
    intro x
    simp only [committed, hdb, Option.getD_some]
    exact mem_sortNat x l
  · exact h

theorem inv_materialize {s : St} (h : Inv s) :
    Inv (materialize s) ∧ (materialize s).cs = s.cs ∧ (materialize s).db = s.db ∧
      ∃ c, (materialize s).cur = .val c := by
  have ht := inv_touch h
  cases hc : (touch s).cur with
  | val c =>
    have hm : materialize s = touch s := by unfold materialize; rw [hc]
    rw [hm]
    exact ⟨ht, touch_cs s, touch_db s, c, hc⟩
  | absent =>
    have hm : materialize s = { s with cur := .val [] } := by unfold materialize; rw [hc]
    have hdb : s.db = none := by
      cases hd : s.db with
      | none => rfl
      | some l =>
        exfalso
        cases hcur : s.cur with
        | val c => simp [touch, hcur] at hc
        | absent => simp [touch, hcur, hd] at hc
    rw [hm]
    refine ⟨⟨fun _ c hcv => ?_, fun o ho => h.orig o ho⟩, rfl, rfl, [], rfl⟩
    simp only [Slot.val.injEq] at hcv
    subst hcv
    intro x
    simp [committed, hdb]

/-- a mutation event on a collection present in `dict`: committed_state captures a copy of the
    collection as it is before the mutation, once -/
theorem inv_mutate {s0 : St} (h : Inv s0) (c new : List Nat) (hc : s0.cur = .val c) :
    Inv { s0 with cs := captureNow s0, cur := .val new } := by
  have hne : captureNow s0 ≠ .noHistory := by
    unfold captureNow capture
    rw [hc]
    cases s0.cs <;> simp
  refine ⟨fun hcs => absurd hcs hne, fun o ho => ?_⟩
  simp only [captureNow, capture, hc] at ho
  cases hcs : s0.cs with
  | noHistory =>
    rw [hcs] at ho
    simp only [CS.val.injEq] at ho
    subst ho
    exact h.clean hcs c hc
  | noValue => rw [hcs] at ho; cases ho
  | noResult => rw [hcs] at ho; cases ho
  | val o' =>
    rw [hcs] at ho
    simp only [CS.val.injEq] at ho
    subst ho
    exact h.orig o' hcs

theorem inv_step {s : St} (h : Inv s) (op : Op) : Inv (step s op) := by
  cases op with
  | append x =>
    obtain ⟨hm, _, _, c, hc⟩ := inv_materialize h
    simp only [step, append, hc]
    exact inv_mutate hm c _ hc
  | remove x =>
    have ht := inv_touch h
    simp only [step, remove]
    cases hc : (touch s).cur with
    | absent => simp only; exact ht
    | val c =>
      simp only
      split
      · exact inv_mutate ht c _ hc
      · exact ht
  | replace l =>
    obtain ⟨hm, _, _, c, hc⟩ := inv_materialize h
    simp only [step, replace]
    exact inv_mutate hm c _ hc
  | delete =>
    simp only [step, delete]
    cases hc : s.cur with
    | absent => exact h
    | val c =>
      simp only
      have := inv_mutate h c [] hc
      exact ⟨fun hcs => absurd hcs (by
          unfold captureNow capture; rw [hc]; cases s.cs <;> simp),
        fun o ho => this.orig o ho⟩
  | touch => exact inv_touch h
  | expire =>
    simp only [step, expire]
    split
    · exact h
    · exact ⟨(fun _ c hc => by cases hc), (fun o ho => by cases ho)⟩
  | flush =>
    simp only [step, flush]
    split
    · exact h
    · refine ⟨fun _ c hc => ?_, (fun o ho => by cases ho)⟩
      simp only at hc
      have ht : (touch s).cur = .val c := by rw [touch_val s c hc]; exact hc
      intro x
      simp only [committed, ht, Option.getD_some]
      exact (mem_sortNat x c).symm

/-- **inv_run**: the invariant holds after ANY sequence of collection operations -/
theorem inv_run : ∀ (ops : List Op) (s : St), Inv s → Inv (run s ops)
  | [], _, h => h
  | op :: ops, _, h => inv_run ops _ (inv_step h op)

/-- **history_eq_diff** (collections): once modified, `added` are exactly the current members
    that are not committed, `unchanged` the current members that are committed, `deleted` the
    committed members that are no longer present; `added` and `unchanged` partition the
    current collection. -/
theorem history_eq_diff_coll {s : St} (h : Inv s) (c o : List Nat) (hc : s.cur = .val c)
    (hcs : s.cs = .val o) :
    (∀ x, x ∈ (history s).added ↔ x ∈ c ∧ x ∉ committed s) ∧
    (∀ x, x ∈ (history s).unchanged ↔ x ∈ c ∧ x ∈ committed s) ∧
    (∀ x, x ∈ (history s).deleted ↔ x ∈ committed s ∧ x ∉ c) ∧
    ((history s).unchanged ++ (history s).added).Perm c := by
  have hs := h.orig o hcs
  simp only [history, fromCollection, hc, hcs]
  refine ⟨?_, ?_, ?_, ?_⟩
  · intro x
    simp only [List.mem_filter, Bool.not_eq_true', List.contains_eq_mem, decide_eq_false_iff_not,
      hs x]
  · intro x
    simp only [List.mem_filter, List.contains_eq_mem, decide_eq_true_eq, hs x]
  · intro x
    simp only [List.mem_filter, Bool.not_eq_true', List.contains_eq_mem, decide_eq_false_iff_not,
      hs x]
  · have := List.filter_append_perm (fun x => o.contains x) c
    simpa using this

/-- an unmodified loaded collection is reported entirely as unchanged -/
theorem history_clean {s : St} (c : List Nat) (hc : s.cur = .val c) (hcs : s.cs = .noHistory) :
    history s = ⟨[], c, []⟩ := by
  simp [history, fromCollection, hc, hcs]

/-- **flush_persists_history** (collections): after flush the committed members are the
    current members and nothing is reported as added or deleted -/
theorem flush_persists_history (s : St) (c : List Nat) (hc : s.cur = .val c)
    (hm : s.cs ≠ .noHistory ∨ s.db = none) :
    Same (committed (flush s)) c ∧ history (flush s) = ⟨[], c, []⟩ := by
  have ht : (touch s).cur = .val c := by rw [touch_val s c hc]; exact hc
  have hf : flush s = { s with db := some (sortNat c), cs := .noHistory } := by
    unfold flush
    split
    · rename_i h1 h2
      rcases hm with hm | hm
      · exact absurd h1 hm
      · rw [hm] at h2; cases h2
    · simp [ht]
  rw [hf]
  refine ⟨fun x => ?_, ?_⟩
  · simp only [committed, Option.getD_some]; exact mem_sortNat x c
  · simp [history, fromCollection, hc]

example : history (run (loaded [1, 2, 3]) [.remove 2, .append 5, .append 2, .remove 1])
    = ⟨[5], [3, 2], [1]⟩ := by decide

/-- remove then re-add: no net change for that member -/
example : (history (run (loaded [1, 2]) [.remove 2, .append 2])).deleted = [] ∧
    (history (run (loaded [1, 2]) [.remove 2, .append 2])).added = [] := by decide

end Coll

end SaVerif.Props.C36
