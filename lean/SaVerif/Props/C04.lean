import SaVerif.Lemmas.Bind
import SaVerif.Gen.BindTables
/-!
# C04 — bound parameters reach the right placeholders in every paramstyle

Theorems about M-BIND (`SaVerif/Model/Bind.lean`, transcription of
`SQLCompiler._process_positional / _process_numeric /
_process_parameters_for_postcompile` and of the parameter assembly in
`DefaultExecutionContext._init_compiled`).  Helper lemmas: `SaVerif/Lemmas/Bind.lean`.

A statement is a list of segments (`Seg`): text, `%(name)s` bind templates and
`__[POSTCOMPILE_name…]` tokens, exactly what the visit methods concatenate into
`self.string`.  The compiler then *re-discovers* the binds by regular-expression
scans of that string; the theorems say when this re-discovery is exact
(`SafeSegs`, the "NoPattern" guard) and that the parameter sequence assembled from
`positiontup` is aligned with the placeholders.  The guard is necessary:
`positional_counterexample` (finding F2) and the `…_counterexample` theorems below
are the model-level images of defects that the harness replays on the real code.
-/
namespace SaVerif.Props.C04
open SaVerif.Bind

/-! ## regenerated tables (a source edit re-runs these) -/

/-- the three regexes the scanners `matchA` / `matchB` / `matchAt .both` transcribe -/
theorem patterns_match :
    SaVerif.Gen.BindTables.patterns =
      ["%\\(([^)]+?)\\)s", "__\\[POSTCOMPILE_(\\S+?)(~~.+?~~)?\\]",
       "%\\(([^)]+?)\\)s|__\\[POSTCOMPILE_(\\S+?)(~~.+?~~)?\\]"] := by decide

/-- `BIND_TEMPLATES` as transcribed in `Style.template` / `pyformatTemplate` -/
theorem templates_match :
    SaVerif.Gen.BindTables.bindTemplates =
      [("format", "%%s"), ("named", ":%(name)s"), ("numeric", ":[_POSITION]"),
       ("numeric_dollar", "$[_POSITION]"), ("pyformat", "%%(%(name)s)s"), ("qmark", "?")] := by
  decide

/-- `bindname_escape_characters`: every escaped name is free of the characters the
    scanners treat specially (`%`, `(`, `)`, `[`, `]`, space, `:` and `.`) -/
theorem escape_table_match :
    SaVerif.Gen.BindTables.escapeChars =
      [(' ', "_"), ('%', "P"), ('(', "A"), (')', "Z"), ('.', "_"), (':', "C"), ('[', "_"),
       (']', "_")] := by decide

/-- the escape table is not injective (root of finding `escaped-bindname-collision`) -/
theorem escape_table_not_injective :
    ∃ a b, a ≠ b ∧ (a, "_") ∈ SaVerif.Gen.BindTables.escapeChars ∧
      (b, "_") ∈ SaVerif.Gen.BindTables.escapeChars :=
  ⟨'.', ' ', by decide, by decide, by decide⟩

/-! ## termination of the scan -/

/-- `re.sub` terminates: the token list does not depend on the fuel once the fuel
    exceeds the length of the string -/
theorem tokens_fuel_independent (m : Mode) (s : Str) (f : Nat) (h : s.length < f) :
    tokensAux m f s = tokens m s :=
  tokensAux_fuel m f (s.length + 1) s h (by omega)

/-! ## the scan recovers exactly the segments (all three regexes) -/

/-- **scan_round_trip**: for every statement (any number of segments, any names and
    texts) satisfying the NoPattern guard of the scanning mode, the scan of the
    rendered string returns the segments themselves: each hole where it was rendered,
    with its own name (and bind-expression wrapper), and nothing else. -/
theorem scan_round_trip (m : Mode) (segs : List Seg) (h : SafeSegs m segs) :
    tokens m (renderSegs segs) = pieceToks (segs.map (Seg.toPiece m)) := by
  rw [← renderPieces_toPiece m segs]
  exact tokens_render m _ h

/-! ## `_process_positional` (qmark / format) -/

def placeholderOf (st : Style) : Str := if st = .format then ['%', 's'] else ['?']

/-- **positional_alignment**: under the guard, `_process_positional` replaces exactly
    the bind segments by the placeholder (`posString`) and `positiontup` lists exactly
    the names of the bind and post-compile segments in textual order (`segNames`):
    the i-th placeholder stands for the i-th name. -/
theorem positional_alignment (c : Compiled) (st : Style) (segs : List Seg)
    (hpre : c.pre = renderSegs segs) (hesc : c.escaped = [])
    (hsafe : SafeSegs .both segs) :
    processPositional c st =
      .ok { string := posString (placeholderOf st) segs,
            positiontup := some (segNames segs), nextNumericPos := 0 } := by
  unfold processPositional
  rw [hpre, scan_round_trip .both segs hsafe, hesc]
  simp only [List.isEmpty_nil, if_true, subPositional_pieceToks, hitNames_pieceToks, placeholderOf]

/-! ## `_process_numeric` (numeric / numeric_dollar) -/

/-- **numeric_alignment**: under the guard of the pyformat scan, `_process_numeric`
    (for either numbering order: plain, or insertmanyvalues "non-VALUES binds first")
    replaces every bind segment by `:k` / `$k` where `k` is the 1-based position of
    that segment's own name among the numbered (non post-compile) names of
    `positiontup`; those names are distinct and the counter handed to the expansion
    step is one past their number. -/
theorem numeric_alignment (c : Compiled) (st : Style) (segs : List Seg)
    (hpre : c.pre = renderSegs segs) (hesc : c.escaped = [])
    (hsafe : SafeSegs .onlyA segs)
    (hkinds : ∀ n ∈ bindSegNames segs,
      n ∈ numericOrder c ∧ ∃ b, c.kindOf n = some b ∧ b.kind = .plain) :
    processNumeric c st =
        .ok { string := numString st.idChar
                (plainKeys (numberBinds c st.idChar (numericOrder c) 1 []).2) segs,
              positiontup := some (akeys (numberBinds c st.idChar (numericOrder c) 1 []).2),
              nextNumericPos := (numberBinds c st.idChar (numericOrder c) 1 []).1 } ∧
      NumInv st.idChar (numberBinds c st.idChar (numericOrder c) 1 []).2
        (numberBinds c st.idChar (numericOrder c) 1 []).1 ∧
      (∀ n ∈ bindSegNames segs,
        n ∈ plainKeys (numberBinds c st.idChar (numericOrder c) 1 []).2) := by
  obtain ⟨hinv, _, hmem⟩ := numberBinds_inv c st.idChar (numericOrder c) 1 [] (NumInv.init _)
  have hall : ∀ n ∈ bindSegNames segs,
      n ∈ plainKeys (numberBinds c st.idChar (numericOrder c) 1 []).2 := by
    intro n hn
    obtain ⟨ho, hk⟩ := hkinds n hn
    exact hmem n ho hk (by simp [akeys])
  refine ⟨?_, hinv, hall⟩
  unfold processNumeric
  generalize numberBinds c st.idChar (numericOrder c) 1 [] = r at hinv hall ⊢
  obtain ⟨num, pp⟩ := r
  simp only at hinv hall ⊢
  have hid : (pp.map (fun kv => (escapeName c.escaped kv.1, kv.2))) = pp := by
    rw [hesc]
    have : ∀ l : List (Str × Option Str), l.map (fun kv => (escapeName [] kv.1, kv.2)) = l := by
      intro l; induction l with
      | nil => rfl
      | cons x l ih => simp [escapeName, alookup]
    exact this _
  rw [hid, adict_of_nodup _ hinv.nodup, hpre, scan_round_trip .onlyA segs hsafe,
    subLookup_pieceToks st.idChar pp num hinv segs hall]
  simp [hesc]

/-! ## what reaches `cursor.execute` when nothing is post-compiled -/

theorem collectPos_map (params : List (Str × PVal)) (env : Str → PVal) :
    ∀ names : List Str, (∀ n ∈ names, alookup n params = some (env n)) →
      collectPos params names = .ok (names.map env) := by
  intro names
  induction names with
  | nil => intro _; rfl
  | cons n r ih =>
    intro h
    simp only [collectPos, h n (by simp), ih (fun m hm => h m (by simp [hm])), List.map_cons]
    rfl

/-- **positional_delivery**: qmark / format, no expanding or literal-execute
    parameter: the DBAPI receives the statement with one placeholder per bind segment
    and the tuple whose i-th element is the value of the i-th bind segment's own
    parameter — whatever the texts, names, number and order of the segments. -/
theorem positional_delivery (c : Compiled) (st : Style) (segs : List Seg)
    (params : List (Str × PVal)) (env : Str → PVal)
    (hst : st = .qmark ∨ st = .format)
    (hpre : c.pre = renderSegs segs) (hesc : c.escaped = [])
    (hsafe : SafeSegs .both segs) (hpc : hasPostCompile c = false)
    (henv : ∀ n ∈ segNames segs, alookup n params = some (env n)) :
    initCompiled c st params =
      .ok (posString (placeholderOf st) segs, .tuple ((segNames segs).map env)) := by
  have hs1 : stage1 c st = processPositional c st := by
    rcases hst with rfl | rfl <;> simp [stage1, Style.positional, Style.isNumeric]
  have hp : st.positional = true := by rcases hst with rfl | rfl <;> rfl
  unfold initCompiled
  rw [hs1, positional_alignment c st segs hpre hesc hsafe]
  simp only [hpc, Bool.false_eq_true, if_false, hp, if_true,
    collectPos_map params env (segNames segs) henv]

/-- **numeric_delivery**: numeric / numeric_dollar, nothing post-compiled: the tuple is
    the values of the numbered names in numbering order (so `:k` receives the value of
    the name it was generated for, see `numeric_placeholder_value`) -/
theorem numeric_delivery (c : Compiled) (st : Style) (segs : List Seg)
    (params : List (Str × PVal)) (env : Str → PVal)
    (hst : st = .numeric ∨ st = .numericDollar)
    (hpre : c.pre = renderSegs segs) (hesc : c.escaped = [])
    (hsafe : SafeSegs .onlyA segs) (hpc : hasPostCompile c = false)
    (hkinds : ∀ n ∈ bindSegNames segs,
      n ∈ numericOrder c ∧ ∃ b, c.kindOf n = some b ∧ b.kind = .plain)
    (henv : ∀ n ∈ akeys (numberBinds c st.idChar (numericOrder c) 1 []).2,
      alookup n params = some (env n)) :
    initCompiled c st params =
        .ok (numString st.idChar
               (plainKeys (numberBinds c st.idChar (numericOrder c) 1 []).2) segs,
             .tuple ((akeys (numberBinds c st.idChar (numericOrder c) 1 []).2).map env)) := by
  have hs1 : stage1 c st = processNumeric c st := by
    rcases hst with rfl | rfl <;> simp [stage1, Style.positional, Style.isNumeric]
  have hp : st.positional = true := by rcases hst with rfl | rfl <;> rfl
  obtain ⟨hproc, _, _⟩ := numeric_alignment c st segs hpre hesc hsafe hkinds
  unfold initCompiled
  rw [hs1, hproc]
  simp only [hpc, Bool.false_eq_true, if_false, hp, if_true,
    collectPos_map params env _ henv]

/-- every bind segment `n` is rendered as the number `k` with `tuple[k-1] = env n`
    (when no name is post-compiled, `plainKeys = akeys`) -/
theorem numeric_placeholder_value (idc : Char) (pp : List (Str × Option Str)) (num : Nat)
    (_hinv : NumInv idc pp num) (hall : plainKeys pp = akeys pp) (env : Str → PVal) (n : Str)
    (hn : n ∈ plainKeys pp) :
    ((akeys pp).map env)[(plainKeys pp).idxOf n + 1 - 1]? = some (env n) := by
  have hlt := List.idxOf_lt_length_of_mem hn
  rw [← hall]
  simp only [Nat.add_sub_cancel, List.getElem?_map]
  rw [List.getElem?_eq_getElem hlt]
  simp

/-! ## expanding IN: the expansion keeps every placeholder aligned -/

/-- the replacement text of an expanding parameter (what `process_expanding` inserts) -/
def replOf (c : Compiled) (st : Style) (params : List (Str × PVal)) (n : Str) : Str :=
  match c.kindOf n, alookup n params with
  | some b, some (.many vs) => (leep st b n vs).2
  | _, _ => []

theorem pc_mem_segNames : ∀ (segs : List Seg) (n : Str) (g : Option Str),
    Seg.pc n g ∈ segs → n ∈ segNames segs := by
  intro segs
  induction segs with
  | nil => intro n g h; simp at h
  | cons s r ih =>
    intro n g h
    simp only [List.mem_cons] at h
    rcases h with h | h
    · subst h; simp [segNames]
    · cases s <;> simp [segNames, ih n g h]

/-- **expanding_alignment** (qmark / format): for ANY statement — any number and order
    of text, bind and expanding-IN segments, any list lengths including empty — whose
    names are distinct and whose generated names `name_1 … name_k` are fresh
    (`NoClash`; finding `expanded-name-clashes-with-bind-name` is its negation), the
    DBAPI receives the statement in which every expanding token has been replaced by
    its `k` placeholders (or the empty-set expression) and a parameter tuple that is
    the concatenation, in textual order, of each plain parameter's value and each
    expanding parameter's elements: expansion of one parameter never shifts the
    values of the parameters after it. -/
theorem expanding_alignment (c : Compiled) (st : Style) (segs : List Seg)
    (params : List (Str × PVal))
    (hst : st = .qmark ∨ st = .format)
    (hpre : c.pre = renderSegs segs) (hesc : c.escaped = [])
    (hsafe : SafeSegs .both segs)
    (hsafeB : SafeSegs .onlyB (posSegs (placeholderOf st) segs))
    (hpc : hasPostCompile c = true)
    (hnc : NoClash c st params (segNames segs))
    (hok : ∀ n ∈ segNames segs, NameOk c params n)
    (hpcs : ∀ n g, Seg.pc n g ∈ segs → g = none ∧ isExpanding c n = true) :
    initCompiled c st params =
      .ok (expString (placeholderOf st) (replOf c st params) segs,
           .tuple (((segNames segs).flatMap (contrib c st params)).map (·.2))) := by
  have hp : st.positional = true := by rcases hst with rfl | rfl <;> rfl
  have hn : st.isNumeric = false := by rcases hst with rfl | rfl <;> rfl
  have hs1 : stage1 c st = processPositional c st := by
    rcases hst with rfl | rfl <;> simp [stage1, Style.positional, Style.isNumeric]
  obtain ⟨s', hloop, hinv⟩ := pcLoop_inv c st params (segNames segs) hesc hp hn hnc hok
    (segNames segs) [] _ (by simp) (LoopInv.init c st params)
  have hmem : ∀ n g, Seg.pc n g ∈ segs → n ∈ segNames segs := pc_mem_segNames segs
  have hrepl : ∀ n g, Seg.pc n g ∈ segs → g = none ∧
      alookup n s'.repl = some (replOf c st params n) := by
    intro n g hm
    obtain ⟨hg, hex⟩ := hpcs n g hm
    refine ⟨hg, ?_⟩
    have hin := hmem n g hm
    rcases hok n hin with ⟨b, v, hk, hpl, hv⟩ | ⟨b, vs, hk, hpe, hv⟩
    · rw [isExpanding_of hk] at hex; simp [hpl] at hex
    · rw [hinv.repl n hin b vs hk hpe hv]
      simp [replOf, hk, hv]
  have hgen : ∀ kv ∈ (segNames segs).flatMap (contrib c st params),
      alookup kv.1 s'.params = some kv.2 := by
    intro kv hkv
    apply hinv.generated kv hkv
    obtain ⟨m, hm, hkm⟩ := List.mem_flatMap.mp hkv
    rcases hok m hm with hpl | ⟨b, vs, hk, hpe, hv⟩
    · right
      have := contrib_keys_of_plain (st := st) hpl kv hkm
      obtain ⟨b, v, hk, hp', _⟩ := hpl
      rw [this, isExpanding_of hk]; simp [hp']
    · left
      have hexm : isExpanding c m = true := by rw [isExpanding_of hk]; simp [hpe]
      exact hnc.fresh m hm hexm kv hkm
  unfold initCompiled
  rw [hs1, positional_alignment c st segs hpre hesc hsafe]
  simp only [hpc, if_true]
  unfold postcompile
  simp only [hp, if_true, hloop, hn, Bool.and_false, Bool.false_eq_true, if_false]
  rw [posString_eq, scan_round_trip .onlyB _ hsafeB,
    subExpanding_posSegs (placeholderOf st) s'.repl (replOf c st params) segs hrepl]
  simp only [hinv.newPos, hinv.numPos]
  rw [collectPos_pairs s'.params _ hgen]

/-! ## the guard is necessary: counterexamples (each replayed on the real code) -/

def f2Pre : Str := "INSERT INTO w (\"%(id)s\") VALUES (%(id)s)".toList

/-- **positional_counterexample** (finding F2): a quoted identifier `"%(id)s"` in the
    text is taken for a bind: two positions are recorded for a statement with one
    bind, and the identifier is rewritten to `"?"`. -/
theorem positional_counterexample :
    processPositional { pre := f2Pre, binds := [⟨"id".toList, .plain, []⟩], escaped := [],
                        valuesBind := none } .qmark =
      .ok { string := "INSERT INTO w (\"?\") VALUES (?)".toList,
            positiontup := some ["id".toList, "id".toList], nextNumericPos := 0 } := by
  decide +kernel

/-- former finding `literal-execute-escaped-name-keyerror` (fixed in /repo by 35f86e1:
    `parameters.pop(name)` instead of `pop(escaped_name)`): a literal-execute parameter
    whose name needs escaping is inlined and nothing is left to bind -/
theorem literal_execute_escaped_name_inlined :
    initCompiled { pre := "SELECT __[POSTCOMPILE_a_b]".toList,
                   binds := [⟨"a.b".toList, .litExec, []⟩],
                   escaped := [("a.b".toList, "a_b".toList)], valuesBind := none }
      .qmark [("a.b".toList, .one "7".toList)] = .ok ("SELECT 7".toList, .tuple []) := by
  decide +kernel

/-- finding `escaped-bindname-collision` (named style): `a.b` and `a b` both escape to
    `a_b`; the DBAPI dict has ONE entry, so both placeholders take the value of the
    second parameter -/
theorem escaped_collision_counterexample :
    initCompiled { pre := "x = :a_b AND y = :a_b".toList,
                   binds := [⟨"a.b".toList, .plain, []⟩, ⟨"a b".toList, .plain, []⟩],
                   escaped := [("a.b".toList, "a_b".toList), ("a b".toList, "a_b".toList)],
                   valuesBind := none }
      .named [("a.b".toList, .one "1".toList), ("a b".toList, .one "2".toList)] =
      .ok ("x = :a_b AND y = :a_b".toList, .dict [("a_b".toList, .one "2".toList)]) := by
  decide +kernel

/-- finding `expanded-name-clashes-with-bind-name`: expanding parameter `x` with
    three values generates `x_1 … x_3`; the unrelated parameter `x_1` (value 25) is
    overwritten by the first IN element (10) -/
theorem expanded_name_clash_counterexample :
    initCompiled { pre := "x > %(x_1)s AND x IN (__[POSTCOMPILE_x])".toList,
                   binds := [⟨"x_1".toList, .plain, []⟩, ⟨"x".toList, .expanding, []⟩],
                   escaped := [], valuesBind := none }
      .qmark [("x_1".toList, .one "25".toList),
              ("x".toList, .many ["10".toList, "30".toList, "50".toList])] =
      .ok ("x > ? AND x IN (?, ?, ?)".toList,
           .tuple [.one "10".toList, .one "10".toList, .one "30".toList, .one "50".toList]) := by
  decide +kernel

/-! ## non-vacuity: the guards are satisfiable by non-trivial statements -/

def exSegs : List Seg :=
  [.text "SELECT t.x % ".toList, .bind "p_1".toList, .text " FROM t WHERE t.y IN (".toList,
   .pc "y_1".toList none, .text ") AND lower(t.s) IN (".toList,
   .pc "s_1".toList (some "lower(~~REPL~~)".toList), .text ") LIMIT ".toList,
   .bind "param_1".toList]

example : SafeSegs .both exSegs := by decide +kernel

example : SafeSegs .onlyA exSegs := by decide +kernel

example : SafeSegs .onlyB exSegs := by decide +kernel

def exC : Compiled :=
  { pre := renderSegs exSegs2, binds := [⟨"a".toList, .plain, []⟩, ⟨"b".toList, .expanding, "NOTHING".toList⟩],
    escaped := [], valuesBind := none }
where exSegs2 : List Seg :=
  [.text "x > ".toList, .bind "a".toList, .text " AND y IN (".toList, .pc "b".toList none,
   .text ")".toList]

def exParams : List (Str × PVal) :=
  [("a".toList, .one "1".toList), ("b".toList, .many ["2".toList, "3".toList])]

/-- the hypotheses of `expanding_alignment` are satisfiable, and its conclusion is the
    expected call -/
example :
    initCompiled exC .qmark exParams =
      .ok ("x > ? AND y IN (?, ?)".toList,
           .tuple [.one "1".toList, .one "2".toList, .one "3".toList]) := by
  have h := expanding_alignment exC .qmark exC.exSegs2 exParams (Or.inl rfl) rfl rfl
    (by decide +kernel) (by decide +kernel) (by decide +kernel)
    ⟨by decide +kernel, by decide +kernel, by decide +kernel⟩
    (by
      intro n hn
      have : n = "a".toList ∨ n = "b".toList := by
        simp only [exC.exSegs2, segNames, List.mem_cons, List.mem_nil_iff, or_false] at hn
        exact hn
      rcases this with rfl | rfl
      · exact Or.inl ⟨⟨"a".toList, .plain, []⟩, "1".toList, by decide +kernel, rfl, by decide +kernel⟩
      · exact Or.inr ⟨⟨"b".toList, .expanding, "NOTHING".toList⟩, ["2".toList, "3".toList],
          by decide +kernel, rfl, by decide +kernel⟩)
    (by
      intro n g hm
      simp only [exC.exSegs2, List.mem_cons, List.mem_nil_iff, or_false, reduceCtorEq,
        false_or, Seg.pc.injEq] at hm
      obtain ⟨rfl, rfl⟩ := hm
      exact ⟨rfl, by decide +kernel⟩)
  rw [h]
  decide +kernel

example : segNames exSegs = ["p_1".toList, "y_1".toList, "s_1".toList, "param_1".toList] := by
  decide

end SaVerif.Props.C04
