import SaVerif.Lemmas.TxnSim
import SaVerif.Lemmas.TxnCtx
import SaVerif.Lemmas.TxnDisc
/-!
# C23 — Connection transactions and savepoints have nested-transaction semantics

Property theorems about M-TXN (`SaVerif/Model/Txn.lean`, transcription of
Connection / RootTransaction / NestedTransaction / TransactionalContext in
`lib/sqlalchemy/engine/base.py`, `engine/util.py`) against the stack-of-scopes
specification `SaVerif/Model/TxnSpec.lean`.  Helper lemmas: `Lemmas/Txn.lean`,
`Lemmas/TxnSim.lean` (simulation relation `Sim`).
-/
namespace SaVerif.Props.C23
open SaVerif.Txn

/-- what an outside observer and the API user can see of a model state, compared with the spec -/
def Observed (ri : Res × Conn) (si : Res × Spec) : Prop :=
  ri.1 = si.1 ∧                                  -- same result class (ok / which error)
  ri.2.db.committed = si.2.committed ∧            -- rows other connections see
  ri.2.db.raw.working = si.2.cur ∧                -- rows this connection sees
  ri.2.inTransaction = si.2.root.isSome ∧         -- Connection.in_transaction()
  ri.2.inNested = !si.2.scopes.isEmpty            -- Connection.in_nested_transaction()

theorem sim_observed {c : Conn} {s : Spec} (h : Sim c s) (r : Res) : Observed (r, c) (r, s) := by
  refine ⟨rfl, h.committed, h.working, ?_, ?_⟩
  · cases hr : s.root with
    | none => simp [Conn.inTransaction, h.root, hr]
    | some t => simp [sim_inTransaction h hr]
  · cases hs : s.scopes with
    | nil =>
      have := h.chain; rw [hs] at this
      simp [Conn.inNested, chain_nil this]
    | cons sc rest =>
      obtain ⟨hn, _, _, hact, _⟩ := sim_innermost h hs
      simp [Conn.inNested, hn, hact]

/-- a freshly connected Connection on an empty database simulates the initial spec state -/
theorem init_sim (rs : ResetStyle) : Sim (Conn.connect (DB.init rs)) Spec.init := by
  refine
    { dbapi := rfl, reconn := rfl, nofault := rfl, nolistener := rfl, noctx := rfl, noauto := rfl,
      kindsLen := rfl, kindsAt := (fun _ hx => by simp [Conn.connect] at hx),
      committed := rfl, working := rfl, root := rfl,
      rootOk := (fun _ ht => by simp [Spec.init] at ht), rootNone := fun _ => rfl,
      clean := fun _ => rfl, savesNone := fun _ => rfl,
      chain := by simp [Conn.connect, Spec.init, ChainOk],
      saves := by simp [Spec.init, specSaves],
      sorted := List.Pairwise.nil, bound := (fun p hp => by cases hp),
      others := fun _ hx => by simp [Conn.connect] at hx }

/-- the two traces have the same length and are `Observed`-related position by position -/
inductive Matches : List (Res × Conn) → List (Res × Spec) → Prop
  | nil : Matches [] []
  | cons {a b l₁ l₂} : Observed a b → Matches l₁ l₂ → Matches (a :: l₁) (b :: l₂)

/-- **refines_nested_spec** (general form): from ANY pair of related states, EVERY
    operation sequence the specification accepts (well-nested use: begin, begin_nested,
    statements, connection- and handle-level commit / rollback / close, including
    operations on ended handles, double commit, begin inside a transaction, failing
    statements) is matched step by step by the transcribed Connection state machine:
    same result class, same rows visible to other connections, same rows seen by the
    connection, same `in_transaction()` / `in_nested_transaction()`. -/
theorem refines_nested_spec_from :
    ∀ (ops : List Op) (c : Conn) (s : Spec) (tr : List (Res × Spec)),
      Sim c s → Spec.trace s ops = some tr → Matches (c.trace ops) tr := by
  intro ops
  induction ops with
  | nil =>
    intro c s tr _ ht
    simp only [Spec.trace, Option.some.injEq] at ht
    subst ht
    exact Matches.nil
  | cons op ops ih =>
    intro c s tr h ht
    simp only [Spec.trace] at ht
    cases hst : s.step op with
    | none => simp [hst] at ht
    | some p =>
      obtain ⟨s', r⟩ := p
      simp only [hst] at ht
      cases htr : Spec.trace s' ops with
      | none => simp [htr] at ht
      | some rest =>
        simp only [htr, Option.some.injEq] at ht
        subst ht
        obtain ⟨h', hr⟩ := step_sim h op s' r hst
        simp only [Conn.trace]
        refine Matches.cons ?_ (ih (c.step op).1 s' rest h' htr)
        have := sim_observed h' (c.step op).2
        rw [hr] at this ⊢
        exact this

/-- the simulation relation is preserved along every accepted history -/
theorem sim_run :
    ∀ (ops : List Op) (c : Conn) (s s' : Spec), Sim c s → Spec.run s ops = some s' →
      Sim (c.run ops) s' := by
  intro ops
  induction ops with
  | nil =>
    intro c s s' h hs
    simp only [Spec.run, Option.some.injEq] at hs
    subst hs
    exact h
  | cons op ops ih =>
    intro c s s' h hs
    simp only [Spec.run] at hs
    cases hst : s.step op with
    | none => simp [hst] at hs
    | some p =>
      obtain ⟨s1, r⟩ := p
      simp only [hst] at hs
      exact ih _ s1 s' (step_sim h op s1 r hst).1 hs

/-- **refines_nested_spec**: the same for a fresh Connection on an empty database. -/
theorem refines_nested_spec (rs : ResetStyle) (ops : List Op) (tr : List (Res × Spec))
    (h : Spec.trace Spec.init ops = some tr) :
    Matches ((Conn.connect (DB.init rs)).trace ops) tr :=
  refines_nested_spec_from ops _ _ tr (init_sim rs) h

/-- corollary: the rows other connections see after a whole accepted history are the
    specification's committed rows (a savepoint rollback undid exactly the work since that
    savepoint, an outer rollback all uncommitted work) -/
theorem committed_after_history (rs : ResetStyle) (ops : List Op) (s' : Spec)
    (h : Spec.run Spec.init ops = some s') :
    ((Conn.connect (DB.init rs)).run ops).db.committed = s'.committed :=
  (sim_run ops _ _ s' (init_sim rs) h).committed

/-! ## operations on ended transactions raise instead of acting (ANY state) -/

/-- **ended_commit_raises_no_effect**: `commit()` on a transaction object that is no
    longer active raises (PendingRollbackError while it is still the connection's current
    transaction, InvalidRequestError otherwise) and leaves the ENTIRE state unchanged —
    for every state, reachable or not, with or without armed faults. -/
theorem ended_commit_raises_no_effect (c : Conn) (h : Nat) (hi : c.act h = false) :
    (c.tCommit h).1 = c ∧
    ((c.tCommit h).2 = .pendingRollback ∨ (c.tCommit h).2 = .invalidRequest) := by
  unfold Conn.tCommit
  cases (c.txn h).isRoot
  · simp only [Bool.false_eq_true, if_false, Conn.nestedCommit, hi]
    cases (c.nested == some h) <;> simp
  · simp only [if_true, Conn.rootCommit, hi, Bool.false_eq_true, if_false]
    cases (c.transaction == some h) <;> simp

/-- **ended_nested_rollback_no_effect**: `rollback()` / `close()` on an ended, detached
    savepoint object returns normally and changes nothing but the warning counter — for
    every state. -/
theorem ended_nested_rollback_no_effect (c : Conn) (h : Nat) (warn : Bool)
    (hr : (c.txn h).isRoot = false) (hi : (c.txn h).active = false) (hd : c.nested ≠ some h) :
    (c.nestedCloseImpl h warn).2 = .ok ∧
    (∀ x, (c.nestedCloseImpl h warn).1.txn x = c.txn x) ∧
    (c.nestedCloseImpl h warn).1.db = c.db ∧
    (c.nestedCloseImpl h warn).1.transaction = c.transaction ∧
    (c.nestedCloseImpl h warn).1.nested = c.nested ∧
    (c.nestedCloseImpl h warn).1.ctxMgr = c.ctxMgr := by
  have hact : c.act h = false := hi
  have h2 : ((c.deactivate h).nested == some h) = false := by
    simp only [Conn.deactivate, Conn.setTxn]; simpa using hd
  simp only [Conn.nestedCloseImpl, hact, Bool.false_and, Bool.false_eq_true, if_false,
    andFinally_mk, Conn.nestedDeactivate, h2]
  refine ⟨trivial, ?_, ?_⟩
  · intro x
    cases warn
    · exact deactivate_txn_inactive c h hi x
    · exact deactivate_txn_inactive c h hi x
  · cases warn <;> simp [Conn.deactivate, Conn.setTxn, Conn.warn]

/-- `rollback()`/`close()` on an ended root transaction object: no effect *provided no
    savepoint object is current*.
    Full statement (false, see `stale_root_rollback_counterexample`):
      ∀ c h, isRoot h → ¬active h → c.transaction ≠ some h → (c.rootCloseImpl h b).1 ≈ c -/
theorem ended_root_rollback_no_effect_partial (c : Conn) (h : Nat) (b : Bool)
    (hi : c.act h = false) (hd : c.transaction ≠ some h) (hn : c.nested = none) :
    (c.rootCloseImpl h b).2 = .ok ∧
    (c.rootCloseImpl h b).1.txns = c.txns ∧
    (c.rootCloseImpl h b).1.db = c.db ∧
    (c.rootCloseImpl h b).1.transaction = c.transaction ∧
    (c.rootCloseImpl h b).1.nested = c.nested := by
  have hcn : c.cancelNested = c := by simp [Conn.cancelNested, hn]
  have h1 : (c.transaction == some h) = false := by simpa using hd
  have hne : (c.transaction != some h) = true := by simp [bne, h1]
  have h1' : (c.warn.transaction == some h) = false := h1
  cases b <;>
    simp [Conn.rootCloseImpl, hi, hcn, Conn.rootCloseFinally, Conn.rootDeactivate, h1, hne, h1',
      Conn.warn, hd]

/-! ## close -/

/-- **close_rolls_back_all**: closing a Connection in any simulated state returns normally,
    leaves the rows visible to other connections unchanged, ends every transaction and
    savepoint, and the DBAPI connection goes back to the pool without uncommitted work and
    without savepoints (whatever reset_on_return is). -/
theorem close_rolls_back_all {c : Conn} {s : Spec} (h : Sim c s) :
    c.close.2 = .ok ∧ c.close.1.closed = true ∧
    c.close.1.db.committed = s.committed ∧
    c.close.1.inTransaction = false ∧ c.close.1.inNested = false ∧
    ∃ r, c.close.1.db.idle = c.db.idle ++ [some r] ∧ r.working = s.committed ∧ r.saves = [] := by
  cases hr : s.root with
  | some t =>
    have htr : c.transaction = some t := by rw [h.root, hr]
    obtain ⟨h', hok⟩ := sim_rootRollback h hr false
    have hcl : c.close = ((c.rootCloseImpl t false).1.release (c.act t), .ok) := by
      have e : c.tClose t = ((c.rootCloseImpl t false).1, .ok) := by
        simp only [Conn.tClose, sim_root_isRoot h hr, if_true]
        rw [← hok]
      simp only [Conn.close, htr, e, andThen_ok]
      exact releaseOrInterrupt_nofault _ _ h'.nofault
    have hact : c.act t = true := (h.rootOk t hr).2.2
    rw [hcl, hact]
    have hd := h'.dbapi
    have hw := h'.working
    have hc := h'.committed
    have hsv : (c.rootCloseImpl t false).1.db.raw.saves = [] := by
      have := h'.saves
      have hb := h'.sorted
      rw [rootCloseImpl_sim h hr]
      simp only [Conn.endedRoot, Conn.deactivate, Conn.setTxn]
      have hch1 : ChainOk ({ c with db := c.db.rollback } : Conn)
          ({ c with db := c.db.rollback } : Conn).nested s.scopes := chain_txns (by rfl) h.chain
      rw [(cancelNested_spec hch1).2.1.db]
      rfl
    have hidle : (c.rootCloseImpl t false).1.db.idle = c.db.idle := by
      rw [rootCloseImpl_sim h hr]
      simp only [Conn.endedRoot, Conn.deactivate, Conn.setTxn]
      have hch1 : ChainOk ({ c with db := c.db.rollback } : Conn)
          ({ c with db := c.db.rollback } : Conn).nested s.scopes := chain_txns (by rfl) h.chain
      rw [(cancelNested_spec hch1).2.1.db]
      rfl
    have htn : (c.rootCloseImpl t false).1.transaction = none := by rw [h'.root]; rfl
    have hnn : (c.rootCloseImpl t false).1.nested = none := by
      have := h'.chain
      exact chain_nil this
    have hcomm' : (c.rootCloseImpl t false).1.db.committed = s.committed := hc
    have hwork' : (c.rootCloseImpl t false).1.db.raw.working = s.committed := hw
    have hnf := h'.nofault
    refine ⟨rfl, ?_, ?_, ?_, ?_, ?_⟩
    · simp [Conn.release, Conn.closed, hd]
    · cases hrs : (c.rootCloseImpl t false).1.db.reset <;>
        simp [Conn.release, hd, DB.checkin, hrs, takeFault_nil _ _ hnf, DB.commit, hcomm', hwork']
    · simp [Conn.release, Conn.inTransaction, htn, hd]
    · simp [Conn.release, Conn.inNested, hnn, hd]
    · cases hrs : (c.rootCloseImpl t false).1.db.reset <;>
        simp [Conn.release, hd, DB.checkin, hrs, takeFault_nil _ _ hnf, DB.commit, hidle, hwork', hsv]
  | none =>
    have htr : c.transaction = none := by rw [h.root, hr]
    have hcl : c.close = (c.release false, .ok) := by
      simp only [Conn.close, htr]
      exact releaseOrInterrupt_nofault _ _ h.nofault
    rw [hcl]
    have hd := h.dbapi
    have hnf := h.nofault
    have hcl' := h.clean hr
    have hsc := h.rootNone hr
    have hnn : c.nested = none := sim_nested_none h hr
    have hwc : c.db.raw.working = c.db.committed := by rw [h.working, h.committed, hcl']
    have hsk : c.db.skipsRollback = false := by simp [DB.skipsRollback, h.noauto]
    refine ⟨rfl, ?_, ?_, ?_, ?_, ?_⟩
    · simp [Conn.release, Conn.closed, hd]
    · cases hrs : c.db.reset <;>
        simp [Conn.release, hd, DB.checkin, hrs, takeFault_nil _ _ hnf, DB.commit, DB.rollback,
          h.committed, hwc, hsk]
    · simp [Conn.release, Conn.inTransaction, htr, hd]
    · simp [Conn.release, Conn.inNested, hnn, hd]
    · cases hrs : c.db.reset <;>
        simp [Conn.release, hd, DB.checkin, hrs, takeFault_nil _ _ hnf, DB.commit, DB.rollback,
          hwc, h.committed, h.savesNone hr, hsk]


/-! ## context managers (`with conn.begin(): …`, `with conn.begin_nested(): …`)

For EVERY state (reachable or not, faults armed or not). -/

theorem exit_eq (c : Conn) (h : Nat) (e : Bool) :
    c.exit h e = andFinally (c.exitBody h e)
      (fun c1 => c1.exitFinally h (!(c.txn h).subject || c.ctxMgr != some h)) := rfl

/-- **ctx_exit_semantics** (what `__exit__` does to the transaction): without an exception
    and while the transaction is active it is `commit()` (and `rollback()` if the commit
    raises, the rollback's own error taking precedence); with an exception it is
    `rollback()`; on a transaction that has already ended it is at most a `close()` of a
    detached object.  The result raised is exactly that call's result. -/
theorem ctx_exit_semantics (c : Conn) (h : Nat) :
    (c.act h = true → (c.exit h false).2 = (c.commitOrRollback h).2 ∧
                      (c.exit h true).2 = (c.tRollback h).2) ∧
    (c.act h = false → c.attached h = true → ∀ e, (c.exit h e).2 = .ok) := by
  refine ⟨fun ha => ?_, fun ha hat e => ?_⟩
  · simp [exit_eq, Conn.exitBody, ha, andFinally]
  · cases e <;> simp [exit_eq, Conn.exitBody, ha, hat, andFinally]

/-- **ctx_exit_restores**: leaving a `with` block (normally or by an exception, whatever the
    commit / rollback did or raised) puts the enclosing context manager back on the
    Connection and clears the slots of the transaction object. -/
theorem ctx_exit_restores (c : Conn) (h : Nat) (e : Bool) (hlt : h < c.txns.length)
    (hs : (c.txn h).subject = true) (hm : c.ctxMgr = some h) :
    (c.exit h e).1.ctxMgr = (c.txn h).outerCtx ∧
    ((c.exit h e).1.txn h).subject = false ∧ ((c.exit h e).1.txn h).outerCtx = none := by
  have hk := exitBody_ctx c h e
  have hoob : (!(c.txn h).subject || c.ctxMgr != some h) = false := by simp [hs, hm]
  have hlt1 : h < (c.exitBody h e).1.txns.length := Nat.lt_of_lt_of_le hlt hk.len
  rw [exit_eq, hoob]
  simp only [andFinally, Conn.exitFinally, Bool.not_false, if_true]
  refine ⟨?_, ?_, ?_⟩
  · show ((c.exitBody h e).1.txn h).outerCtx = _
    exact (hk.keep h hlt).1
  · rw [setTxn_txn_eq _ _ _ (by exact hlt1)]
  · rw [setTxn_txn_eq _ _ _ (by exact hlt1)]

/-- entering and leaving a `with` block leaves `_trans_context_manager` as it was -/
theorem ctx_enter_exit_roundtrip (c : Conn) (h : Nat) (e : Bool) (hlt : h < c.txns.length) :
    ((c.enter h).1.exit h e).1.ctxMgr = c.ctxMgr := by
  have h1 : (c.enter h).1.ctxMgr = some h := rfl
  have hlt' : h < (c.enter h).1.txns.length := by simp [Conn.enter]; exact hlt
  have h2 : ((c.enter h).1.txn h) = { c.txn h with outerCtx := c.ctxMgr, subject := true } := by
    show (c.setTxn h _).txn h = _
    exact setTxn_txn_eq _ _ _ hlt
  have := (ctx_exit_restores (c.enter h).1 h e hlt' (by rw [h2]) h1).1
  rw [this, h2]

/-- **ctx_blocks_use_after_end**: inside a `with` block whose transaction has already ended
    (committed, rolled back, or closed inside the block) `begin()` and `begin_nested()` raise
    InvalidRequestError and change nothing ("Can't operate on closed transaction inside
    context manager"). -/
theorem ctx_blocks_use_after_end (c : Conn) (m : Nat) (hm : c.ctxMgr = some m) (ha : c.act m = false) :
    c.begin = (c, .invalidRequest) ∧ c.beginNested = (c, .invalidRequest) := by
  have hcr : c.ctxRaises = true := by simp [Conn.ctxRaises, hm, ha]
  have hb : c.begin = (c, .invalidRequest) := by
    unfold Conn.begin Conn.beginRoot
    split <;> simp [hcr]
  refine ⟨hb, ?_⟩
  unfold Conn.beginNested Conn.autobegin
  cases ht : c.transaction with
  | none => simp [hb, andThen]
  | some t => simp [andThen, hcr]

/-! ## structural invariants of the handle graph, for EVERY history (misuse and faults included) -/

/-- **wf_all**: in every reachable state the connection's transaction pointer names a
    RootTransaction object, every `_previous_nested` link points to an older object and the
    current savepoint object exists — whatever sequence of operations (all 23 kinds, armed
    faults, misuse) led there. -/
theorem wf_all (rs : ResetStyle) (ls : Listener) (eo : List Bool) (rc : Option Nat) (ops : List Op) :
    WFc ((Conn.connect (DB.init rs ls eo rc)).run ops) :=
  run_wfc ops _ (wfc_empty rfl rfl rfl)

/-- consequence: cancelling the savepoints from any reachable state always empties
    `_nested_transaction` (the `_cancel` recursion reaches the end of the chain) -/
theorem cancel_reaches_end (rs : ResetStyle) (ls : Listener) (eo : List Bool) (rc : Option Nat) (ops : List Op) :
    ((Conn.connect (DB.init rs ls eo rc)).run ops).cancelNested.nested = none :=
  cancelNested_none (wf_all rs ls eo rc ops).2

/-! ## where the unrestricted statement fails (findings F8, F18)

Full statement (FALSE): for every operation sequence `ops` over begin / begin_nested /
statements / commit / rollback / handle ops,
  `((Conn.connect db).run ops).inNested = !(Spec.init.runFull ops).scopes.isEmpty`
and the handle flags agree, where `runFull` ends the inner savepoints when an outer one is
rolled back or released and ignores `rollback()` on ended handles.
`refines_nested_spec` proves it for the histories `Spec.trace` accepts (well-nested use);
the three witnesses below are outside and are replayed on the real code by
`harness/props/c23.py` (known findings). -/

def c0 : Conn := Conn.connect (DB.init .rollback)

/-- F8: s1 = begin_nested(); s2 = begin_nested(); s1.rollback() -/
theorem out_of_order_rollback_counterexample :
    let ops : List Op := [.beginNested, .beginNested, .tRollback 1]
    (c0.run ops).inNested ≠ !(Spec.init.runFull ops).scopes.isEmpty ∧
    -- the inner savepoint object is still current and active …
    (c0.run ops).nested = some 2 ∧ (c0.run ops).act 2 = true ∧ ((c0.run ops).txn 2).sp = 2 ∧
    -- … but its SAVEPOINT no longer exists in the database,
    (c0.run ops).db.raw.saves.map (·.1) = [1] ∧
    -- so releasing it fails and the connection is wedged until both are rolled back again
    ((c0.run ops).step (.tCommit 2)).2 = .operational ∧
    (((c0.run ops).step (.tCommit 2)).1.step (.exec .sel)).2 = .pendingRollback := by
  decide

/-- F8, release form: s1.commit() while s2 is open -/
theorem out_of_order_release_counterexample :
    let ops : List Op := [.beginNested, .beginNested, .tCommit 1]
    (c0.run ops).inNested ≠ !(Spec.init.runFull ops).scopes.isEmpty ∧
    (c0.run ops).nested = some 2 ∧ (c0.run ops).act 2 = true ∧
    (c0.run ops).db.raw.saves = [] := by
  decide

/-- F18: t = begin(); …; t.commit(); s = begin_nested(); …; t.rollback() on the ENDED root
    handle cancels `s` without touching the database; `s.rollback()` then does nothing and
    the row inserted under the savepoint is committed. -/
theorem stale_root_rollback_counterexample :
    let ops : List Op := [.begin, .exec (.ins 1), .tCommit 0, .beginNested, .exec (.ins 2),
                          .tRollback 0]
    (c0.run ops).inNested ≠ !(Spec.init.runFull ops).scopes.isEmpty ∧
    (c0.run ops).act 2 = false ∧ (c0.run ops).db.raw.working = [1, 2] ∧
    ((c0.run ops).run [.tRollback 2, .commit]).db.committed = [1, 2] ∧
    (Spec.init.runFull (ops ++ [.tRollback 2, .commit])).committed = [1] := by
  decide

/-! ## non-vacuity: the hypotheses are satisfiable by non-trivial histories -/

/-- a history with autobegin, two nested savepoints, an inner rollback, an outer release,
    a duplicate-key error, a double commit and a rollback of an ended handle is accepted by
    the specification … -/
def sampleOps : List Op :=
  [.exec (.ins 1), .beginNested, .exec (.ins 2), .beginNested, .exec (.ins 3), .tRollback 2,
   .exec (.ins 2), .tCommit 1, .tCommit 1, .tRollback 2, .commit, .commit, .begin, .begin,
   .exec (.del 1), .rollback]

example : (Spec.trace Spec.init sampleOps).isSome = true := by decide
/-- … and what it commits is rows 1 and 2 (row 3 was rolled back with its savepoint, the
    DELETE with its transaction) -/
example : (Spec.run Spec.init sampleOps).map (·.committed) = some [1, 2] := by decide
example : (c0.run sampleOps).db.committed = [1, 2] := by decide
example : (c0.trace sampleOps).map (·.1) =
    [.ok, .ok, .ok, .ok, .ok, .ok, .integrity, .ok, .invalidRequest, .ok, .ok, .ok, .ok,
     .invalidRequest, .ok, .ok] := by decide
/-- `ended_commit_raises_no_effect`'s hypothesis holds in a reachable state -/
example : (c0.run [.begin, .commit]).act 0 = false := by decide
/-- `close_rolls_back_all` applies to a state with uncommitted work under two savepoints -/
example : ((c0.run [.exec (.ins 1), .beginNested, .exec (.ins 2), .beginNested]).close).1.db.committed = []
    ∧ (c0.run [.exec (.ins 1), .beginNested, .exec (.ins 2), .beginNested]).db.raw.working = [1, 2] := by
  decide

end SaVerif.Props.C23
