import SaVerif.Lemmas.DdlRun
import SaVerif.Lemmas.DdlCycle
/-!
# C14 — DDL is emitted in dependency order for any foreign-key graph

Property theorems about M-DDL (`SaVerif/Model/Ddl.lean`, transcription of
`lib/sqlalchemy/sql/ddl.py` on top of M-TOPO).  All theorems hold for every number of
tables, every FK graph (self references, cycles, several constraints to one target,
`use_alter`, unnamed constraints, `add_is_dependent_on` edges, an `extra_dependencies`
argument) and every backend content the hypotheses allow.  They hold for *any*
function in the place of `find_cycles` (parameter `cyc`), except `second_sort_total`,
which states what it needs from it.
-/
namespace SaVerif.Props.C14
open SaVerif.Topo SaVerif.Ddl

/-- t1 ↔ t2 (used by the non-vacuity example of `second_sort_total_unconditional`) -/
def cexIsolatedPre : List Tbl :=
  [⟨1, [⟨10, 2, false, true⟩], [], []⟩, ⟨2, [⟨11, 1, false, true⟩], [], []⟩]

/-! ## sort_tables_and_constraints -/

/-- every table exactly once, whatever the graph -/
theorem sort_tables_and_constraints_perm (cyc : List Edge → List Nat) (flt : Filter)
    (extraArg : List Edge) (tables : List Tbl) (s : Sorted)
    (h : sortTCWith cyc flt extraArg tables = some s) : s.order.Perm (ids tables) := by
  obtain ⟨mu, hsort, _, _⟩ := sortTCWith_edges h
  exact Props.C19.sort_perm _ _ _ hsort

/-- **inline constraints are safe** (CREATE side, `filter_fn=None`): a constraint that is
    not handed to ALTER has its referred table sorted strictly before its own table;
    `use_alter` constraints are always handed to ALTER; no constraint is lost or
    duplicated in the ALTER list. -/
theorem sort_tables_and_constraints_inline_ordered (cyc : List Edge → List Nat)
    (extraArg : List Edge) (tables : List Tbl) (s : Sorted) (hn : (ids tables).Nodup)
    (h : sortTCWith cyc fltCreate extraArg tables = some s) :
    (∀ t ∈ tables, ∀ f ∈ t.fkcs, (t.id, f) ∉ s.remaining → f.ref ≠ t.id → f.ref ∈ ids tables →
        s.order.idxOf f.ref < s.order.idxOf t.id) ∧
    (∀ t ∈ tables, ∀ f ∈ t.fkcs, f.useAlter = true → (t.id, f) ∈ s.remaining) ∧
    s.remaining.Nodup ∧
    (∀ r ∈ s.remaining, ∃ t ∈ tables, t.id = r.1 ∧ r.2 ∈ t.fkcs) := by
  have sp := sortTCWith_spec hn (noShared_create _ _) h
  refine ⟨sp.inlineOrdered, ?_, sp.remNodup, ?_⟩
  · intro t ht f hf hu
    exact sp.deferredIn t ht f hf (by simp [deferred, hu])
  · intro r hr
    obtain ⟨t, ht, hid, hf, _⟩ := sp.remReal r hr
    exact ⟨t, ht, hid, hf⟩

/-- `add_is_dependent_on` / `extra_dependencies` edges are never given up -/
theorem sort_tables_and_constraints_fixed_ordered (cyc : List Edge → List Nat) (flt : Filter)
    (extraArg : List Edge) (tables : List Tbl) (s : Sorted)
    (h : sortTCWith cyc flt extraArg tables = some s)
    (e : Edge) (he : e ∈ fixedDeps extraArg tables) (h1 : e.1 ∈ ids tables) (h2 : e.2 ∈ ids tables) :
    s.order.idxOf e.1 < s.order.idxOf e.2 := by
  obtain ⟨mu, hsort, _, _⟩ := sortTCWith_edges h
  exact Props.C19.sort_respects _ _ _ e.1 e.2 hsort (List.mem_append_left _ he) h1 h2

/-! ## sorted_tables -/

/-- **sorted_tables_respects_acyclic_deps**: for every foreign key (not `use_alter`, not a
    self reference) whose owning table is not reported on a cycle, the referred table
    comes first.  (For a table on a cycle the documented behaviour is that *all* its
    foreign keys are ignored.) -/
theorem sorted_tables_respects_acyclic_deps (cyc : List Edge → List Nat) (tables : List Tbl)
    (out : List Nat) (h : (sortTCWith cyc fltCreate [] tables).map (·.order) = some out)
    (t : Tbl) (ht : t ∈ tables) (f : Fkc) (hf : f ∈ t.fkcs) (hua : f.useAlter = false)
    (hne : f.ref ≠ t.id) (hin : f.ref ∈ ids tables)
    (hnc : t.id ∉ cyc (fixedDeps [] tables ++ mutable0 fltCreate tables)) :
    out.idxOf f.ref < out.idxOf t.id := by
  cases hs : sortTCWith cyc fltCreate [] tables with
  | none => rw [hs] at h; cases h
  | some s =>
    rw [hs] at h
    cases h
    obtain ⟨mu, hsort, _, hkeep⟩ := sortTCWith_edges hs
    have hm : (f.ref, t.id) ∈ mutable0 fltCreate tables :=
      mem_mutable0.2 ⟨t, ht, f, hf, by simp [deferred, filteredTrue, fltCreate, hua], hne, rfl⟩
    exact Props.C19.sort_respects _ _ _ _ _ hsort (List.mem_append_right _ (hkeep _ hm hnc)) hin
      (mem_ids.2 ⟨t, ht, rfl⟩)

theorem sorted_tables_perm (tables : List Tbl) (out : List Nat)
    (h : sortTables tables = some out) : out.Perm (ids tables) := by
  unfold sortTables sortTC at h
  cases hs : sortTCWith findCycles fltCreate [] tables with
  | none => rw [hs] at h; cases h
  | some s =>
    rw [hs] at h; cases h
    exact sort_tables_and_constraints_perm _ _ _ _ _ hs

/-! ## the second sort cannot fail (CREATE side, no add_is_dependent_on) -/

theorem fixedDeps_nil {tables : List Tbl} (h : ∀ t ∈ tables, t.extra = []) :
    fixedDeps [] tables = [] := by
  unfold fixedDeps
  simp only [List.nil_append, List.flatMap_eq_nil_iff]
  intro t ht
  rw [h t ht]; rfl

/-- **second_sort_total**: with `filter_fn=None` and no fixed dependencies,
    `sort_tables_and_constraints` never raises, provided `find_cycles` reports at least one
    member of every non-empty set of tables in which each table has a parent inside the
    set (true of the exact set of nodes on cycles; `find_cycles` itself is validated by
    the C19 correspondence). -/
theorem second_sort_total (cyc : List Edge → List Nat) (tables : List Tbl)
    (hn : (ids tables).Nodup) (hnoextra : ∀ t ∈ tables, t.extra = [])
    (hC : ∀ S : List Nat, S ≠ [] →
        (∀ n ∈ S, ∃ p ∈ S, (p, n) ∈ mutable0 fltCreate tables) →
        ∃ x ∈ S, x ∈ cyc (mutable0 fltCreate tables)) :
    ∃ s, sortTCWith cyc fltCreate [] tables = some s := by
  unfold sortTCWith
  simp only [fixedDeps_nil hnoextra, List.nil_append]
  split
  · exact ⟨_, rfl⟩
  · split
    · exact ⟨_, rfl⟩
    · rename_i hsort2
      exfalso
      obtain ⟨S, hne, _, hclosed⟩ := sort_none_stuck hsort2
      have hsub : ∀ n ∈ S, ∃ p ∈ S, (p, n) ∈ mutable0 fltCreate tables := by
        intro n hn'
        obtain ⟨p, hp, he⟩ := hclosed n hn'
        exact ⟨p, hp, foldl_breakEdge_snd_sub _ _ _ he⟩
      obtain ⟨x, hxS, hxc⟩ := hC S hne hsub
      obtain ⟨p, _, he⟩ := hclosed x hxS
      have hm := foldl_breakEdge_snd_sub _ _ _ he
      exact foldl_breakEdge_removes hn _ _ (p, x) hm hm hxc he

/-- **second_sort_total_of_exact_cycles**: the same with the natural hypothesis on
    `find_cycles` — it reports every table that lies on a dependency cycle (C19's
    `find_cycles_exact`, validated there by correspondence).  The step from "parent-closed
    set" to "node on a cycle" is the pigeonhole lemma `closed_set_has_cycle`. -/
theorem second_sort_total_of_exact_cycles (cyc : List Edge → List Nat) (tables : List Tbl)
    (hn : (ids tables).Nodup) (hnoextra : ∀ t ∈ tables, t.extra = [])
    (hcyc : ∀ x, OnCycle (mutable0 fltCreate tables) x → x ∈ cyc (mutable0 fltCreate tables)) :
    ∃ s, sortTCWith cyc fltCreate [] tables = some s := by
  apply second_sort_total cyc tables hn hnoextra
  intro S hne hclosed
  obtain ⟨x, hx, hon⟩ := closed_set_has_cycle hne hclosed
  exact ⟨x, hx, hcyc x hon⟩

/-- **second_sort_total_unconditional**: for the real `find_cycles` (C19's
    `find_cycles_exact` discharges the hypothesis): with `filter_fn=None` and no
    `add_is_dependent_on` edges, `sort_tables_and_constraints` — hence create_all's sort
    and `sorted_tables` — never raises, whatever the foreign-key graph. -/
theorem second_sort_total_unconditional (tables : List Tbl)
    (hn : (ids tables).Nodup) (hnoextra : ∀ t ∈ tables, t.extra = []) :
    ∃ s, sortTC fltCreate [] tables = some s :=
  second_sort_total_of_exact_cycles findCycles tables hn hnoextra
    (fun x hx => (Props.C19.find_cycles_exact _ x).2 hx)

/-- a two-table cycle: both nodes are on a cycle in the sense of `OnCycle` -/
example : OnCycle [(1, 2), (2, 1)] 1 := ⟨2, by decide, .tail (.refl 2) (by decide)⟩
example : ∃ s, sortTC fltCreate [] cexIsolatedPre = some s :=
  second_sort_total_unconditional _ (by decide) (by decide)

/-! ## create_all on a strict backend -/

/-- **create_all_accepted**: on a backend that enforces referenced-table existence, the DDL
    `SchemaGenerator.visit_metadata` emits for the tables `tables` (those that passed
    `_can_create_table`) is accepted statement by statement, and afterwards every table,
    every declared foreign key constraint and every index exists; nothing else changes.
    Hypotheses: table keys distinct; the tables are new and the backend holds no constraint
    of a table it does not hold (adding an existing constraint is rejected); every referred table is either
    being created or already present; and the constraints disabled by an earlier
    `AddConstraint(isolate_from_table=True)` are again handed to ALTER (see
    `create_all_counterexample_isolated`). -/
theorem create_all_accepted (cyc : List Edge → List Nat) (extraArg : List Edge)
    (tables : List Tbl) (db : DB) (disabled : List FkRef) (s : Sorted)
    (hn : (ids tables).Nodup)
    (hnew : ∀ t ∈ tables, t.id ∉ db.tables)
    (hwf : ∀ r ∈ db.fks, r.1 ∈ db.tables)
    (hclosed : ∀ t ∈ tables, ∀ f ∈ t.fkcs, f.ref ∈ db.tables ∨ f.ref ∈ ids tables)
    (hs : sortTCWith cyc fltCreate extraArg tables = some s)
    (hdis : ∀ r ∈ disabled, r.1 ∈ ids tables → r ∈ s.remaining) :
    ∃ db', run db (emitCreate true disabled tables s) = some db' ∧
      db'.tables = db.tables ++ s.order ∧
      (∀ t ∈ tables, t.id ∈ db'.tables) ∧
      (∀ r, r ∈ db'.fks ↔ r ∈ db.fks ∨ ∃ t ∈ tables, t.id = r.1 ∧ r.2 ∈ t.fkcs) ∧
      (∀ x, x ∈ db'.idx ↔ x ∈ db.idx ∨ ∃ t ∈ tables, t.id = x.1 ∧ x.2 ∈ t.indexes) := by
  have sp := sortTCWith_spec hn (noShared_create _ _) hs
  have hord : ∀ i, i ∈ s.order ↔ i ∈ ids tables := fun i => sp.perm.mem_iff
  have hmap : (tblsOf tables s.order).map (·.id) = s.order :=
    tblsOf_map_id (fun i hi => (hord i).1 hi)
  have hnod : s.order.Nodup := sp.perm.nodup_iff.2 hn
  -- the CREATE TABLE / CREATE INDEX part
  have hrun1 := run_creates (createInline true disabled s) (tblsOf tables s.order) db
    (by rw [hmap]; exact hnod)
    (fun t ht => hnew t (mem_tblsOf_imp ht).1)
    (by
      intro t ht f hf
      obtain ⟨htt, _⟩ := mem_tblsOf_imp ht
      simp only [createInline, if_true, List.mem_filter, Bool.and_eq_true, Bool.not_eq_true',
        List.contains_eq_mem, decide_eq_false_iff_not] at hf
      obtain ⟨hff, ⟨hnr, _⟩, _⟩ := hf
      by_cases hself : f.ref = t.id
      · exact Or.inl hself
      · rcases hclosed t htt f hff with hdb | hin
        · exact Or.inr (Or.inl hdb)
        · right; right
          rw [hmap]
          exact sp.inlineOrdered t htt f hff hnr hself hin)
  -- the ALTER TABLE ADD CONSTRAINT part
  have hrun2 := run_adds s.remaining (createdDB (createInline true disabled s) db (tblsOf tables s.order))
    sp.remNodup
    (by
      intro r hr
      obtain ⟨t, ht, hid, hf, _⟩ := sp.remReal r hr
      simp only [createdDB, hmap, List.mem_append]
      refine ⟨Or.inr ((hord _).2 (mem_ids.2 ⟨t, ht, hid⟩)), ?_, ?_⟩
      · rcases hclosed t ht r.2 hf with h | h
        · exact Or.inl h
        · exact Or.inr ((hord _).2 h)
      · simp only [not_or]
        refine ⟨fun hdb => hnew t ht (hid ▸ hwf r hdb), ?_⟩
        intro hin
        obtain ⟨t', _, hin'⟩ := List.mem_flatMap.1 hin
        obtain ⟨f, hf', hrf⟩ := List.mem_map.1 hin'
        simp only [createInline, if_true, List.mem_filter, Bool.and_eq_true, Bool.not_eq_true',
          List.contains_eq_mem, decide_eq_false_iff_not] at hf'
        exact hf'.2.1.1 (hrf ▸ hr))
  have hrun : run db (emitCreate true disabled tables s) =
      some ⟨(createdDB (createInline true disabled s) db (tblsOf tables s.order)).tables,
            (createdDB (createInline true disabled s) db (tblsOf tables s.order)).fks ++ s.remaining,
            (createdDB (createInline true disabled s) db (tblsOf tables s.order)).idx⟩ := by
    unfold emitCreate
    rw [run_append]
    have hfun : createTableOps true disabled s = fun t =>
        Op.createTable t.id (createInline true disabled s t) :: t.indexes.map (Op.createIndex t.id) := by
      funext t; rfl
    rw [hfun, hrun1]
    simp only [Option.bind_some, if_true]
    exact hrun2
  refine ⟨_, hrun, ?_, ?_, ?_, ?_⟩
  · simp [createdDB, hmap]
  · intro t ht
    simp only [createdDB, hmap, List.mem_append]
    exact Or.inr ((hord _).2 (mem_ids.2 ⟨t, ht, rfl⟩))
  · intro r
    simp only [createdDB, List.mem_append, List.mem_flatMap, List.mem_map]
    constructor
    · rintro ((h | ⟨t, ht, f, hf, rfl⟩) | h)
      · exact Or.inl h
      · right
        exact ⟨t, (mem_tblsOf_imp ht).1, rfl, (List.mem_filter.1 hf).1⟩
      · right
        obtain ⟨t, ht, hid, hf, _⟩ := sp.remReal r h
        exact ⟨t, ht, hid, hf⟩
    · rintro (h | ⟨t, ht, hid, hf⟩)
      · exact Or.inl (Or.inl h)
      · by_cases hrem : r ∈ s.remaining
        · exact Or.inr hrem
        · left; right
          have hr : r = (t.id, r.2) := by rw [hid]
          have hrem' : (t.id, r.2) ∉ s.remaining := hr ▸ hrem
          refine ⟨t, mem_tblsOf_of hn ht ((hord _).2 (mem_ids.2 ⟨t, ht, rfl⟩)), r.2, ?_, hr.symm⟩
          simp only [createInline, if_true, List.mem_filter, Bool.and_eq_true, Bool.not_eq_true',
            List.contains_eq_mem, decide_eq_false_iff_not]
          refine ⟨hf, ⟨hrem', ?_⟩, ?_⟩
          · cases hu : r.2.useAlter with
            | false => rfl
            | true =>
              exact absurd (sp.deferredIn t ht r.2 hf (by simp [deferred, hu])) hrem'
          · intro hd
            exact hrem' (hdis _ hd (mem_ids.2 ⟨t, ht, rfl⟩))
  · intro x
    simp only [createdDB, List.mem_append, List.mem_flatMap, List.mem_map]
    constructor
    · rintro (h | ⟨t, ht, i, hi, rfl⟩)
      · exact Or.inl h
      · exact Or.inr ⟨t, (mem_tblsOf_imp ht).1, rfl, hi⟩
    · rintro (h | ⟨t, ht, hid, hi⟩)
      · exact Or.inl h
      · right
        exact ⟨t, mem_tblsOf_of hn ht ((hord _).2 (mem_ids.2 ⟨t, ht, rfl⟩)), x.2, hi, by rw [hid]⟩

/-- `MetaData.create_all(checkfirst=...)` as a whole, on a MetaData none of whose
    constraints has been isolated yet: with `checkfirst` the tables already present are
    skipped, and the rest is accepted by the strict backend provided every referred table
    belongs to the MetaData or exists. -/
theorem create_all_checkfirst_accepted (tables : List Tbl) (db : DB)
    (hn : (ids tables).Nodup)
    (hwf : ∀ r ∈ db.fks, r.1 ∈ db.tables)
    (hclosed : ∀ t ∈ tables, ∀ f ∈ t.fkcs, f.ref ∈ db.tables ∨ f.ref ∈ ids tables)
    (ops : List Op) (dis' : List FkRef)
    (iso : Bool)
    (h : createAllWith iso true true db.tables [] tables = some (ops, dis')) :
    ∃ db', run db ops = some db' ∧
      (∀ t ∈ tables, t.id ∈ db'.tables) ∧
      (∀ t ∈ tables, t.id ∉ db.tables → ∀ f ∈ t.fkcs, (t.id, f) ∈ db'.fks) := by
  unfold createAllWith at h
  simp only [toCreate, if_true] at h
  split at h
  · cases h
  · rename_i s hs
    cases h
    let cand := tables.filter (fun t => !db.tables.contains t.id)
    have hcn : (ids cand).Nodup := by
      unfold ids
      exact (List.filter_sublist.map _).nodup hn
    have hcnew : ∀ t ∈ cand, t.id ∉ db.tables := by
      intro t ht
      simpa using (List.mem_filter.1 ht).2
    have hcclosed : ∀ t ∈ cand, ∀ f ∈ t.fkcs, f.ref ∈ db.tables ∨ f.ref ∈ ids cand := by
      intro t ht f hf
      by_cases hdb : f.ref ∈ db.tables
      · exact Or.inl hdb
      · right
        rcases hclosed t (List.mem_filter.1 ht).1 f hf with h1 | h1
        · exact absurd h1 hdb
        · obtain ⟨t', ht', hid'⟩ := mem_ids.1 h1
          exact mem_ids.2 ⟨t', List.mem_filter.2 ⟨ht', by simpa [hid'] using hdb⟩, hid'⟩
    obtain ⟨db', hrun, _, htab, hfks, _⟩ :=
      create_all_accepted findCycles [] cand db [] s hcn hcnew hwf hcclosed hs (by intro r hr; cases hr)
    refine ⟨db', hrun, ?_, ?_⟩
    · intro t ht
      by_cases hdb : t.id ∈ db.tables
      · have := (sort_tables_and_constraints_perm _ _ _ _ _ hs)
        obtain ⟨db'', hrun', htabs, _⟩ :=
          create_all_accepted findCycles [] cand db [] s hcn hcnew hwf hcclosed hs (by intro r hr; cases hr)
        rw [hrun] at hrun'
        cases hrun'
        rw [htabs]
        exact List.mem_append_left _ hdb
      · exact htab t (List.mem_filter.2 ⟨ht, by simpa using hdb⟩)
    · intro t ht hdb f hf
      exact (hfks (t.id, f)).2 (Or.inr ⟨t, List.mem_filter.2 ⟨ht, by simpa using hdb⟩, rfl, hf⟩)

/-- **create_all twice**: with checkfirst, when every table already exists nothing at all is
    emitted (in particular no ALTER TABLE ADD CONSTRAINT for the constraints of existing tables)
    and the MetaData state is unchanged -/
theorem create_all_checkfirst_noop (iso sa : Bool) (present : List Nat) (disabled : List FkRef)
    (tables : List Tbl) (hall : ∀ t ∈ tables, t.id ∈ present) :
    createAllWith iso sa true present disabled tables = some ([], disabled) := by
  have hcand : toCreate true present tables = [] := by
    simp only [toCreate, if_true, List.filter_eq_nil_iff]
    intro t ht
    simpa using hall t ht
  unfold createAllWith
  simp only [hcand]
  have hs : sortTC fltCreate [] [] = some ⟨[], []⟩ := rfl
  rw [hs]
  cases sa <;> cases iso <;> simp [emitCreate, tblsOf]

/-- if `SchemaGenerator` did not isolate the constraints it ALTERs, create_all would leave
    the MetaData's constraints untouched (the state `disabled` never grows) -/
theorem create_all_no_isolation (sa cf : Bool) (present : List Nat) (disabled : List FkRef)
    (tables : List Tbl) (ops : List Op) (dis' : List FkRef)
    (h : createAllWith false sa cf present disabled tables = some (ops, dis')) : dis' = disabled := by
  unfold createAllWith at h
  simp only at h
  cases hs : sortTC fltCreate [] (toCreate cf present tables) with
  | none => rw [hs] at h; cases h
  | some s =>
    rw [hs] at h
    simp only [Bool.and_false, Bool.false_eq_true, if_false, Option.some.injEq, Prod.mk.injEq] at h
    exact h.2.symm

/-! ## drop_all on a strict backend -/

/-
Full statement (FALSE, see `drop_all_counterexample_shared_target`):

  theorem drop_all_accepted ... (no `hshare`) :
    sortTCWith cyc (fltDrop true) [] tables = some s → run db (emitDrop true s) = some db' ∧ ...
-/

/-- **drop_all_accepted_partial**: when `SchemaDropper.visit_metadata`'s sort succeeds
    (no CircularDependencyError, which is the documented outcome for a cycle of unnamed
    constraints), every `use_alter` constraint has a name (otherwise the documented
    CompileError), the backend holds exactly the declared constraints of these tables
    and no outside table references them, then the emitted DROP CONSTRAINT / DROP TABLE
    sequence is accepted by the strict backend and removes the tables, their constraints
    and indexes, and nothing else — under the guard `NoShared`: no table on a reported
    cycle owns a constraint that stays inline (unnamed) and a named one to the same target. -/
theorem drop_all_accepted_partial (cyc : List Edge → List Nat) (tables : List Tbl) (db : DB)
    (s : Sorted) (hn : (ids tables).Nodup)
    (hshare : NoShared (fltDrop true) tables
        (cyc (fixedDeps [] tables ++ mutable0 (fltDrop true) tables)))
    (hnamed : ∀ t ∈ tables, ∀ f ∈ t.fkcs, f.useAlter = true → f.named = true)
    (hpres : ∀ t ∈ tables, t.id ∈ db.tables)
    (hfks : ∀ t ∈ tables, ∀ f ∈ t.fkcs, (t.id, f) ∈ db.fks)
    (hown : ∀ r ∈ db.fks, r.1 ∈ ids tables → ∃ t ∈ tables, t.id = r.1 ∧ r.2 ∈ t.fkcs)
    (hout : ∀ r ∈ db.fks, r.1 ∉ ids tables → r.2.ref ∉ ids tables)
    (hs : sortTCWith cyc (fltDrop true) [] tables = some s) :
    ∃ db', run db (emitDrop true s) = some db' ∧
      (∀ i, i ∈ db'.tables ↔ i ∈ db.tables ∧ i ∉ ids tables) ∧
      (∀ r, r ∈ db'.fks ↔ r ∈ db.fks ∧ r.1 ∉ ids tables) ∧
      (∀ x, x ∈ db'.idx ↔ x ∈ db.idx ∧ x.1 ∉ ids tables) := by
  have sp := sortTCWith_spec hn hshare hs
  have hord : ∀ i, i ∈ s.order ↔ i ∈ ids tables := fun i => sp.perm.mem_iff
  have hnod : s.order.Nodup := sp.perm.nodup_iff.2 hn
  have hremNamed : ∀ r ∈ s.remaining, r.2.named = true ∧ r ∈ db.fks := by
    intro r hr
    obtain ⟨t, ht, hid, hf, hk⟩ := sp.remReal r hr
    refine ⟨?_, ?_⟩
    · rcases hk with hd | hrm
      · simp only [deferred, filteredTrue, fltDrop, Bool.or_eq_true] at hd
        rcases hd with hd | hd
        · exact hnamed t ht r.2 hf hd
        · cases hnm : r.2.named <;> simp [hnm] at hd
      · simp only [removable, fltDrop] at hrm
        cases hnm : r.2.named <;> simp [hnm] at hrm ⊢
    · have := hfks t ht r.2 hf
      rw [hid] at this
      exact this
  have hrunA := run_dropConstraints s.remaining db sp.remNodup hremNamed
  let dbA : DB := ⟨db.tables, db.fks.filter (fun r => !s.remaining.contains r), db.idx⟩
  have hokB : DropOK s.order dbA := by
    intro r hr
    have hr' := List.mem_filter.1 hr
    have hrdb : r ∈ db.fks := hr'.1
    have hrnr : r ∉ s.remaining := by simpa using hr'.2
    constructor
    · intro hin
      obtain ⟨t, ht, hid, hf⟩ := hown r hrdb ((hord _).1 hin)
      by_cases hself : r.2.ref = r.1
      · exact Or.inl hself
      · by_cases hrin : r.2.ref ∈ ids tables
        · right; right
          have hnr : (t.id, r.2) ∉ s.remaining := by rw [hid]; exact hrnr
          have := sp.inlineOrdered t ht r.2 hf hnr (by rw [hid]; exact hself) hrin
          rw [hid] at this
          exact this
        · exact Or.inr (Or.inl (fun hc => hrin ((hord _).1 hc)))
    · intro hnin hc
      exact hout r hrdb (fun h => hnin ((hord _).2 h)) ((hord _).1 hc)
  have hrunB := run_dropTables s.order dbA hnod
    (fun t ht => by
      obtain ⟨tb, htb, hid⟩ := mem_ids.1 ((hord t).1 ht)
      exact hid ▸ hpres tb htb) hokB
  have hrun : run db (emitDrop true s) =
      some ⟨dbA.tables.filter (fun t => !s.order.contains t),
            dbA.fks.filter (fun r => !s.order.contains r.1),
            dbA.idx.filter (fun r => !s.order.contains r.1)⟩ := by
    unfold emitDrop
    rw [run_append]
    simp only [if_true]
    rw [hrunA]
    exact hrunB
  refine ⟨_, hrun, ?_, ?_, ?_⟩
  · intro i
    simp only [dbA, List.mem_filter, Bool.not_eq_true', List.contains_eq_mem,
      decide_eq_false_iff_not, hord]
  · intro r
    simp only [dbA, List.mem_filter, Bool.not_eq_true', List.contains_eq_mem,
      decide_eq_false_iff_not, hord]
    constructor
    · rintro ⟨⟨h1, _⟩, h3⟩; exact ⟨h1, h3⟩
    · rintro ⟨h1, h3⟩
      refine ⟨⟨h1, ?_⟩, h3⟩
      intro hrem
      obtain ⟨t, ht, hid, _⟩ := sp.remReal r hrem
      exact h3 (mem_ids.2 ⟨t, ht, hid⟩)
  · intro x
    simp only [dbA, List.mem_filter, Bool.not_eq_true', List.contains_eq_mem,
      decide_eq_false_iff_not, hord]

/-! ## counterexamples (genuine defects, replayed on the real code by harness/props/c14.py) -/

/-- t1 —fk10 (named)→ t2, t1 —fk12 (unnamed)→ t2, t2 —fk11 (named)→ t1 -/
def cexShared : List Tbl :=
  [⟨1, [⟨10, 2, false, true⟩, ⟨12, 2, false, false⟩], [], []⟩, ⟨2, [⟨11, 1, false, true⟩], [], []⟩]

/-- **drop_all_counterexample_shared_target**: create_all is accepted, then drop_all's sort
    succeeds (`some ops2`) but its DDL is rejected by the strict backend (`run … = none`:
    DROP TABLE t2 while the unnamed constraint of t1 still references it).  The full
    `drop_all_accepted` (without `NoShared`) is false. -/
theorem drop_all_counterexample_shared_target :
    ((createAllWith true true false [] [] cexShared).bind fun p1 =>
      (run DB.empty p1.1).bind fun db1 =>
        (dropAll true false db1.tables cexShared).map fun ops2 => run db1 ops2) = some none := by
  decide

/-- t1 —fk10→ t2, t2 —fk11→ t1 (both named) -/
def cexIsolated : List Tbl :=
  [⟨1, [⟨10, 2, false, true⟩], [], []⟩, ⟨2, [⟨11, 1, false, true⟩], [], []⟩]

/-- **create_all_counterexample_isolated**: after one create_all of a cycle (both
    constraints ALTERed, hence isolated), t2 disappears out of band; create_all with
    checkfirst re-creates t2 — accepted, but WITHOUT its constraint (final `fks = []`):
    the hypothesis `hdis` of `create_all_accepted` cannot be dropped. -/
theorem create_all_counterexample_isolated :
    ((createAllWith true true true [] [] cexIsolated).bind fun p1 =>
      (createAllWith true true true [1] p1.2 cexIsolated).bind fun p2 => run ⟨[1], [], []⟩ p2.1)
      = some ⟨[1, 2], [], []⟩ := by
  decide

/-! ## non-vacuity -/

/-- a cycle with a tail and a self reference: accepted, everything present -/
def exTables : List Tbl :=
  [⟨3, [⟨30, 1, false, true⟩], [], [7]⟩, ⟨1, [⟨10, 2, false, true⟩, ⟨13, 1, false, false⟩], [], []⟩,
   ⟨2, [⟨20, 1, false, false⟩, ⟨21, 4, true, true⟩], [], [8, 9]⟩, ⟨4, [], [], []⟩]

example : (sortTC fltCreate [] exTables).map (·.order) = some [1, 2, 4, 3] := by decide
example : ((sortTC fltCreate [] exTables).map (·.remaining)).map (·.length) = some 4 := by decide
example : ((createAllWith true true false [] [] exTables).bind fun p => run DB.empty p.1).map
    (fun d => (d.tables, d.fks.length, d.idx)) = some ([1, 2, 4, 3], 5, [(2, 8), (2, 9), (3, 7)]) := by
  decide
/-- a cycle whose members are all named: created and dropped without error -/
example : ((createAllWith true true false [] [] cexIsolated).bind fun p1 =>
      (run DB.empty p1.1).bind fun db1 =>
        (dropAll true false db1.tables cexIsolated).bind fun ops2 => run db1 ops2)
      = some ⟨[], [], []⟩ := by
  decide

end SaVerif.Props.C14
