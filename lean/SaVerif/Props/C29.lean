import SaVerif.Props.C25
/-!
# C29 — The asyncio API matches the sync API and is safe under cancellation

Lean content (thin for this property; the differential sync/async run and the
cancellation oracle of `harness/props/c29.py` carry the claim):

`AsyncAdaptedQueuePool` is `QueuePool` over `AsyncAdaptedQueue`; the only new behaviour
is that a task can be cancelled while it awaits `queue.get()`: `CancelledError` is not
`Empty`, so it leaves `_do_get` at once.  `Model/Pool.lean` has this as the `cancel`
transition (`gq w --cancel--> idle`), so all C25 theorems quantify over runs that contain
any number of cancellations at any point where a task waits.  An asyncio schedule
switches tasks only at await points, i.e. it is one of the interleavings of the LTS
(coarser atomicity), hence every invariant transfers.
-/
namespace SaVerif.Props.C29
open SaVerif.Pool SaVerif.Props.C25

/-- a cancellation changes nothing in the pool: queue, counter, lock, holders -/
theorem cancel_leaves_pool_untouched (c : Cfg) (s s' : State) (t : Nat)
    (h : step c s t Label.cancel = some s') :
    s'.queue = s.queue ∧ s'.overflow = s.overflow ∧ s'.lock = s.lock ∧ s'.out = s.out ∧
    s'.pcs[t]? = some Pc.idle := by
  obtain ⟨old, new, sh, hold, htr, rfl⟩ := step_eq h
  have hlt := lt_length_of_getElem? hold
  cases old <;> simp [Pool.trans] at htr
  obtain ⟨rfl, rfl⟩ := htr
  simp [hlt]

/-- only a task waiting in `Queue.get` can be cancelled inside the pool -/
theorem cancel_only_while_waiting (c : Cfg) (s s' : State) (t : Nat)
    (h : step c s t Label.cancel = some s') : ∃ w, s.pcs[t]? = some (Pc.gq w) := by
  obtain ⟨old, new, sh, hold, htr, rfl⟩ := step_eq h
  cases old <;> simp [Pool.trans] at htr
  exact ⟨_, hold⟩

/-- **cancel_returns_once**: in every state reachable with any mixture of checkouts,
    returns, invalidations, timeouts and cancellations a connection record is in at most
    one place (idle in the queue, held by one checkout, or in transit) — a cancelled
    checkout can neither duplicate nor lose a record. -/
theorem cancel_returns_once (c : Cfg) (hc : WF c) (n : Nat) (s : State) (hr : Reach c n s)
    (r : Rec) : occ r s ≤ 1 :=
  exclusive_holders c hc n s hr r

/-- the accounting identity survives cancellations: at rest `checkedout()` is the
    number of live checkouts -/
theorem cancel_checkedout_eq_live (c : Cfg) (hc : WF c) (n : Nat) (s : State) (hr : Reach c n s)
    (hq : quiescent s) : checkedout c s = s.out.length :=
  checkedout_eq_live c hc n s hr hq

/-- **cancel_during_create**: a cancellation that lands inside the creation of a new
    physical connection puts the thread where a failed creation puts it: the counter was
    incremented (`slots = 1`) and nothing but `_dec_overflow` can follow. -/
theorem cancel_during_create (c : Cfg) (s s' : State) (t : Nat)
    (h : step c s t Label.ccancel = some s') :
    s.pcs[t]? = some Pc.c0 ∧ s'.pcs[t]? = some Pc.cfail ∧ s'.overflow = s.overflow ∧
    (∀ l s'', step c s' t l = some s'' → l = Label.cd) := by
  obtain ⟨old, new, sh, hold, htr, rfl⟩ := step_eq h
  have hlt := lt_length_of_getElem? hold
  cases old <;> simp [Pool.trans] at htr
  obtain ⟨rfl, rfl⟩ := htr
  refine ⟨hold, by simp [hlt], rfl, ?_⟩
  intro l s'' hs
  obtain ⟨old2, new2, sh2, hold2, htr2, _⟩ := step_eq hs
  simp [hlt] at hold2
  subst hold2
  cases l <;> simp [Pool.trans] at htr2
  rfl

/-- with cancellations during creation in the run, the counter still never exceeds its
    limit and is exact at rest (the C25 invariant, which now quantifies over `ccancel` too) -/
theorem overflow_sound_with_cancel_during_create (c : Cfg) (hc : WF c) (n : Nat) (s : State)
    (hr : Reach c n s) :
    (c.maxOv ≠ -1 → s.overflow ≤ c.maxOv) ∧ (quiescent s → checkedout c s = s.out.length) :=
  ⟨overflow_le_max c hc n s hr, checkedout_eq_live c hc n s hr⟩

/-- non-vacuity: the first checkout is cancelled inside the creation; after the
    `_dec_overflow` the counter is back at its baseline -pool_size -/
example : (run { size := 1, maxOv := 0, lifo := false } (init { size := 1, maxOv := 0, lifo := false } 1)
    [(0, .cg), (0, .rv (-1)), (0, .qg false), (0, .qe), (0, .rv (-1)), (0, .ci), (0, .la), (0, .rv (-1)),
     (0, .rmw (-1) 0), (0, .lr), (0, .ccancel), (0, .cd), (0, .la), (0, .rmw 0 (-1)), (0, .lr)] 0).toOption.map
      (fun s => (s.overflow, s.pcs, checkedout { size := 1, maxOv := 0, lifo := false } s)) =
    some (-1, [Pc.idle], 0) := by decide

/-- non-vacuity: pool_size 1, max_overflow 0; task 0 holds the only connection, task 1
    waits and is cancelled, task 0 returns: one idle record, nothing checked out -/
example : (run { size := 1, maxOv := 0, lifo := false } (init { size := 1, maxOv := 0, lifo := false } 2)
    [(0, .cg), (0, .rv (-1)), (0, .qg false), (0, .qe), (0, .rv (-1)), (0, .ci), (0, .la), (0, .rv (-1)),
     (0, .rmw (-1) 0), (0, .lr), (0, .cr 0),
     (1, .cg), (1, .rv 0), (1, .qg true), (1, .cancel),
     (0, .cp 0), (0, .put 0)] 0).toOption.map
      (fun s => (s.queue, s.out, s.overflow, s.pcs)) = some ([0], [], 0, [Pc.idle, Pc.idle]) := by
  decide

end SaVerif.Props.C29
