import SaVerif.Model.OrderingList
/-! Helper lemmas about M-ORDLIST (core Lean only). -/
namespace SaVerif.OrderingList

/-- the property: every element's position attribute is `ordering_func(index)` -/
def Sync (st : St) : Prop :=
  ∀ (i : Nat) (h : i < st.items.length), st.pos (st.items[i]) = some ((i : Int) + st.start)

/-! ### the reorder loop -/

theorem reorderFrom_not_mem (s : Int) : ∀ (l : List Nat) (k : Nat) (pos : Nat → Option Int) (x : Nat),
    x ∉ l → reorderFrom s k l pos x = pos x
  | [], _, _, _, _ => rfl
  | e :: es, k, pos, x, h => by
    simp only [List.mem_cons, not_or] at h
    simp only [reorderFrom]
    rw [reorderFrom_not_mem s es (k + 1) _ x h.2]
    simp [h.1]

theorem reorderFrom_spec (s : Int) : ∀ (l : List Nat) (k : Nat) (pos : Nat → Option Int),
    l.Nodup → ∀ (i : Nat) (h : i < l.length), reorderFrom s k l pos (l[i]) = some (((k + i : Nat) : Int) + s)
  | [], _, _, _, i, h => by simp at h
  | e :: es, k, pos, hn, i, h => by
    have hn' := List.nodup_cons.1 hn
    simp only [reorderFrom]
    cases i with
    | zero =>
      simp only [List.getElem_cons_zero, Nat.add_zero]
      rw [reorderFrom_not_mem s es (k + 1) _ e hn'.1]
      simp
    | succ j =>
      simp only [List.getElem_cons_succ]
      have hj : j < es.length := by simpa using h
      rw [reorderFrom_spec s es (k + 1) _ hn'.2 j hj]
      congr 2
      omega

theorem reorder_items (st : St) : (reorder st).items = st.items := rfl
theorem reorder_start (st : St) : (reorder st).start = st.start := rfl
theorem reorder_roa (st : St) : (reorder st).roa = st.roa := rfl

/-- `reorder()` establishes the property on any duplicate-free list -/
theorem reorder_sync (st : St) (hn : st.items.Nodup) : Sync (reorder st) := by
  intro i h
  simp only [reorder] at h ⊢
  rw [reorderFrom_spec st.start st.items 0 st.pos hn i h]
  simp

/-! ### duplicate-freeness of the list results -/

theorem insertAt_nodup {l : List Nat} {k e : Nat} (hn : l.Nodup) (he : e ∉ l) :
    (insertAt l k e).Nodup := by
  unfold insertAt
  have h := List.take_append_drop k l
  have hn' : (l.take k ++ l.drop k).Nodup := by rw [h]; exact hn
  rw [List.nodup_append] at hn'
  have he1 : e ∉ l.take k := fun hm => he (List.mem_of_mem_take hm)
  have he2 : e ∉ l.drop k := fun hm => he (List.mem_of_mem_drop hm)
  simp only [List.append_assoc, List.singleton_append]
  rw [List.nodup_append]
  refine ⟨hn'.1, ?_, ?_⟩
  · rw [List.nodup_cons]; exact ⟨he2, hn'.2.1⟩
  · intro a ha b hb
    rcases List.mem_cons.1 hb with rfl | hb
    · intro hab; subst hab; exact he1 ha
    · exact hn'.2.2 a ha b hb

theorem mem_insertAt {l : List Nat} {k e x : Nat} : x ∈ insertAt l k e ↔ x = e ∨ x ∈ l := by
  unfold insertAt
  have h := List.take_append_drop k l
  constructor
  · intro hx
    simp only [List.append_assoc, List.singleton_append, List.mem_append, List.mem_cons] at hx
    rcases hx with hx | hx | hx
    · exact Or.inr (List.mem_of_mem_take hx)
    · exact Or.inl hx
    · exact Or.inr (List.mem_of_mem_drop hx)
  · intro hx
    simp only [List.append_assoc, List.singleton_append, List.mem_append, List.mem_cons]
    rcases hx with hx | hx
    · exact Or.inr (Or.inl hx)
    · rw [← h] at hx
      rcases List.mem_append.1 hx with hx | hx
      · exact Or.inl hx
      · exact Or.inr (Or.inr hx)

theorem kept_sublist (l : List Nat) (idxs : List Nat) :
    ((l.zipIdx.filter (fun p => !idxs.contains p.2)).map (·.1)).Sublist l := by
  have h1 : (l.zipIdx.filter (fun p => !idxs.contains p.2)).Sublist l.zipIdx := List.filter_sublist
  have h2 := h1.map (·.1)
  have h3 : l.zipIdx.map (·.1) = l := by
    simp [List.zipIdx_map_fst]
  rw [h3] at h2
  exact h2

/-! ### local operations keep the property -/

theorem append_sync {st : St} (hs : Sync st) (e : Nat) (he : e ∉ st.items)
    (hp : st.pos e = none ∨ st.roa = true ∨ st.pos e = some ((st.items.length : Int) + st.start)) :
    Sync (append st e) := by
  intro i h
  have hlen : (append st e).items = st.items ++ [e] := by
    unfold append orderEntity; simp only; split <;> rfl
  have hstart : (append st e).start = st.start := by
    unfold append orderEntity; simp only; split <;> rfl
  simp only [hlen, List.length_append, List.length_singleton] at h
  simp only [hlen, hstart]
  by_cases hi : i < st.items.length
  · rw [List.getElem_append_left hi]
    have hne : st.items[i] ≠ e := fun hh => he (hh ▸ List.getElem_mem hi)
    have : (append st e).pos st.items[i] = st.pos st.items[i] := by
      unfold append orderEntity setPos; simp only; split
      · rfl
      · simp [hne]
    rw [this]
    exact hs i hi
  · have hi' : i = st.items.length := by omega
    subst hi'
    simp only [List.getElem_append_right (Nat.le_refl _), Nat.sub_self, List.getElem_cons_zero]
    unfold append orderEntity setPos ordFn
    simp only [List.length_append, List.length_singleton]
    split
    · rename_i hc
      simp only [Bool.and_eq_true, Bool.not_eq_eq_eq_not, Bool.not_true] at hc
      rcases hp with hp | hp | hp
      · rw [hp] at hc; simp at hc
      · rw [hp] at hc; simp at hc
      · exact hp
    · simp only [if_true]
      congr 1
      omega

theorem setItem_sync {st st' : St} (hs : Sync st) (i : Int) (e : Nat) (hi : 0 ≤ i)
    (he : e ∉ st.items ∨ ∃ k, normIdx st.items.length i = some k ∧ st.items[k]? = some e)
    (hn : st.items.Nodup) (h : setItem st i e = .ok st') : Sync st' := by
  unfold setItem at h
  cases hk : normIdx st.items.length i with
  | none => rw [hk] at h; cases h
  | some k =>
    rw [hk] at h
    simp only [Except.ok.injEq] at h
    subst h
    have hki : (k : Int) = i ∧ k < st.items.length := by
      unfold normIdx at hk
      split at hk
      · omega
      · split at hk
        · simp only [Option.some.injEq] at hk; omega
        · cases hk
    intro j hj
    have hj' : j < st.items.length := by
      simpa [orderEntity, setPos] using hj
    show (orderEntity st i e true).pos (((orderEntity st i e true).items.set k e)[j]) = _
    have hitems : (orderEntity st i e true).items = st.items := by simp [orderEntity, setPos]
    have hpos : ∀ x, (orderEntity st i e true).pos x = if x = e then some (i + st.start) else st.pos x := by
      intro x; simp [orderEntity, setPos, ordFn]
    have hstart : (orderEntity st i e true).start = st.start := by simp [orderEntity, setPos]
    simp only [hitems, hpos, hstart]
    by_cases hjk : j = k
    · subst hjk
      simp only [List.getElem_set_self, if_true]
      congr 1
      omega
    · have hjk' : k ≠ j := fun hh => hjk hh.symm
      rw [List.getElem_set_ne hjk']
      have hne : st.items[j] ≠ e := by
        rcases he with he | ⟨k', hk', hek⟩
        · exact fun hh => he (hh ▸ List.getElem_mem hj')
        · rw [hk] at hk'; cases hk'
          intro hh
          have h1 : st.items[k]? = some st.items[j] := by rw [hek, hh]
          rw [List.getElem?_eq_getElem hki.2] at h1
          simp only [Option.some.injEq] at h1
          exact hjk ((List.getElem_inj hn).1 h1.symm)
      simp only [hne, if_false]
      exact hs j hj'

theorem clear_sync (st : St) : Sync (clear st) := by
  intro i h; simp [clear] at h


/-! ### the invariant of guarded runs: duplicate-free and in sync -/

def Good (st : St) : Prop := st.items.Nodup ∧ Sync st

theorem good_reorder (st : St) (l : List Nat) (hn : l.Nodup) :
    Good (reorder { st with items := l }) :=
  ⟨hn, reorder_sync _ hn⟩

theorem delItem_good {st st' : St} (h : Good st) (i : Int) (hd : delItem st i = .ok st') :
    Good st' ∧ (∀ x, x ∈ st'.items → x ∈ st.items) ∧ st'.pos = (reorder st').pos ∧
      st'.start = st.start ∧ st'.roa = st.roa := by
  unfold delItem at hd
  split at hd
  · cases hd
  · rename_i k _
    simp only [Except.ok.injEq] at hd
    subst hd
    refine ⟨good_reorder st _ ((List.eraseIdx_sublist _ _).nodup h.1), ?_, ?_, rfl, rfl⟩
    · intro x hx
      exact (List.eraseIdx_sublist _ _).subset hx
    · -- reorder is idempotent on the positions it just wrote (not needed further)
      simp only [reorder]
      funext x
      by_cases hx : x ∈ st.items.eraseIdx k
      · obtain ⟨j, hj, rfl⟩ := List.getElem_of_mem hx
        have hn := (List.eraseIdx_sublist st.items k).nodup h.1
        rw [reorderFrom_spec st.start _ 0 _ hn j hj, reorderFrom_spec st.start _ 0 _ hn j hj]
      · rw [reorderFrom_not_mem _ _ _ _ _ hx, reorderFrom_not_mem _ _ _ _ _ hx,
          reorderFrom_not_mem _ _ _ _ _ hx]

theorem insert_good {st : St} (h : Good st) (i : Int) (e : Nat) (he : e ∉ st.items) :
    Good (insert st i e) ∧ (∀ x, x ∈ (insert st i e).items ↔ x = e ∨ x ∈ st.items) ∧
      (insert st i e).start = st.start ∧ (insert st i e).roa = st.roa :=
  ⟨good_reorder st _ (insertAt_nodup h.1 he), fun _ => mem_insertAt, rfl, rfl⟩

theorem delLoop_good : ∀ (n : Nat) (st : St) (s : Nat), Good st →
    Good (delLoop st s n) ∧ (∀ x, x ∈ (delLoop st s n).items → x ∈ st.items)
  | 0, st, _, h => ⟨h, fun _ hx => hx⟩
  | n + 1, st, s, h => by
    unfold delLoop
    split
    · split
      · rename_i st1 hd
        have h1 := delItem_good h s hd
        have ih := delLoop_good n st1 s h1.1
        exact ⟨ih.1, fun x hx => h1.2.1 x (ih.2 x hx)⟩
      · exact ⟨h, fun _ hx => hx⟩
    · exact delLoop_good n st s h

theorem insLoop_good : ∀ (vals : List Nat) (st : St) (s : Nat), Good st → vals.Nodup →
    (∀ e, e ∈ vals → e ∉ st.items) → Good (insLoop st s vals)
  | [], _, _, h, _, _ => h
  | e :: es, st, s, h, hn, hf => by
    have hn' := List.nodup_cons.1 hn
    have h1 := insert_good h s e (hf e (List.mem_cons_self ..))
    unfold insLoop
    refine insLoop_good es _ (s + 1) h1.1 hn'.2 ?_
    intro x hx hm
    rcases (h1.2.1 x).1 hm with rfl | hm
    · exact hn'.1 hx
    · exact hf x (List.mem_cons_of_mem _ hx) hm

theorem setItem_good {st st' : St} (h : Good st) (i : Int) (e : Nat) (hi : 0 ≤ i)
    (he : e ∉ st.items) (hs : setItem st i e = .ok st') :
    Good st' ∧ (∀ x, x ∈ st'.items → x = e ∨ x ∈ st.items) := by
  have hsync := setItem_sync h.2 i e hi (Or.inl he) h.1 hs
  unfold setItem at hs
  split at hs
  · cases hs
  · rename_i k _
    simp only [Except.ok.injEq] at hs
    subst hs
    have hitems : (orderEntity st i e true).items = st.items := by simp [orderEntity, setPos]
    refine ⟨⟨?_, hsync⟩, ?_⟩
    · show ((orderEntity st i e true).items.set k e).Nodup
      rw [hitems]
      -- replacing one element of a duplicate-free list by a fresh one
      rw [List.set_eq_take_append_cons_drop]
      split
      · rename_i hk
        have hsplit := List.take_append_drop k st.items
        have hd : st.items.drop k = st.items[k] :: st.items.drop (k + 1) := by
          rw [List.drop_eq_getElem_cons hk]
        have hn' : (st.items.take k ++ st.items[k] :: st.items.drop (k + 1)).Nodup := by
          rw [← hd, hsplit]; exact h.1
        rw [List.nodup_append] at hn' ⊢
        have he1 : e ∉ st.items.take k := fun hm => he (List.mem_of_mem_take hm)
        have he2 : e ∉ st.items.drop (k + 1) := fun hm => he (List.mem_of_mem_drop hm)
        refine ⟨hn'.1, ?_, ?_⟩
        · rw [List.nodup_cons]; exact ⟨he2, (List.nodup_cons.1 hn'.2.1).2⟩
        · intro a ha b hb
          rcases List.mem_cons.1 hb with rfl | hb
          · intro hab; subst hab; exact he1 ha
          · exact hn'.2.2 a ha b (List.mem_cons_of_mem _ hb)
      · exact h.1
    · intro x hx
      have hx' : x ∈ st.items.set k e := by rw [← hitems]; exact hx
      rcases List.mem_or_eq_of_mem_set hx' with hx' | hx'
      · exact Or.inr hx'
      · exact Or.inl hx'

theorem setLoop_good : ∀ (ps : List (Int × Nat)) (st st' : St), Good st →
    (∀ p, p ∈ ps → 0 ≤ p.1) → (ps.map (·.2)).Nodup → (∀ p, p ∈ ps → p.2 ∉ st.items) →
    setLoop st ps = .ok st' → Good st'
  | [], st, st', h, _, _, _, hs => by
    simp only [setLoop, Except.ok.injEq] at hs; subst hs; exact h
  | (i, e) :: rest, st, st', h, hi, hn, hf, hs => by
    unfold setLoop at hs
    split at hs
    · rename_i st1 h1
      simp only [List.map_cons] at hn
      have hn' := List.nodup_cons.1 hn
      have g1 := setItem_good h i e (hi (i, e) (List.mem_cons_self ..))
        (hf (i, e) (List.mem_cons_self ..)) h1
      refine setLoop_good rest st1 st' g1.1 (fun p hp => hi p (List.mem_cons_of_mem _ hp)) hn'.2 ?_ hs
      intro p hp hm
      rcases g1.2 p.2 hm with hm | hm
      · exact hn'.1 (hm ▸ List.mem_map_of_mem hp)
      · exact hf p (List.mem_cons_of_mem _ hp) hm
    · cases hs

theorem append_good {st : St} (h : Good st) (e : Nat) (he : e ∉ st.items)
    (hp : st.pos e = none ∨ st.roa = true) :
    Good (append st e) ∧ (append st e).items = st.items ++ [e] ∧
      (∀ x, x ≠ e → (append st e).pos x = st.pos x) ∧ (append st e).roa = st.roa := by
  have hitems : (append st e).items = st.items ++ [e] := by
    unfold append orderEntity; simp only; split <;> rfl
  refine ⟨⟨?_, append_sync h.2 e he (by rcases hp with hp | hp; exact Or.inl hp; exact Or.inr (Or.inl hp))⟩,
    hitems, ?_, ?_⟩
  · rw [hitems, List.nodup_append]
    refine ⟨h.1, by simp, ?_⟩
    intro a ha b hb
    simp only [List.mem_singleton] at hb
    subst hb
    intro hab; subst hab; exact he ha
  · intro x hx
    unfold append orderEntity setPos; simp only; split
    · rfl
    · simp [hx]
  · unfold append orderEntity setPos; simp only; split <;> rfl

theorem extend_good : ∀ (es : List Nat) (st : St), Good st → es.Nodup →
    (∀ e, e ∈ es → e ∉ st.items ∧ (st.pos e = none ∨ st.roa = true)) → Good (extend st es)
  | [], _, h, _, _ => h
  | e :: es, st, h, hn, hf => by
    have hn' := List.nodup_cons.1 hn
    have h1 := append_good h e (hf e (List.mem_cons_self ..)).1 (hf e (List.mem_cons_self ..)).2
    show Good (extend (append st e) es)
    refine extend_good es _ h1.1 hn'.2 ?_
    intro x hx
    have hxe : x ≠ e := fun hh => hn'.1 (hh ▸ hx)
    have := hf x (List.mem_cons_of_mem _ hx)
    refine ⟨?_, ?_⟩
    · rw [h1.2.1]
      simp only [List.mem_append, List.mem_singleton, not_or]
      exact ⟨this.1, hxe⟩
    · rw [h1.2.2.1 x hxe, h1.2.2.2]
      exact this.2

theorem pyRange_nonneg (start stop step : Int) (h0 : 0 ≤ start) (h1 : -1 ≤ stop) :
    ∀ x, x ∈ pyRange start stop step → 0 ≤ x := by
  intro x hx
  unfold pyRange at hx
  split at hx
  · rename_i hpos
    split at hx
    · cases hx
    · simp only [List.mem_map, List.mem_range] at hx
      obtain ⟨k, _, rfl⟩ := hx
      have : 0 ≤ step * (k : Int) := Int.mul_nonneg (by omega) (by omega)
      omega
  · split at hx
    · rename_i hneg
      split at hx
      · cases hx
      · rename_i hss
        simp only [List.mem_map, List.mem_range] at hx
        obtain ⟨k, hk, rfl⟩ := hx
        -- k < ceil((start - stop) / -step)  ⇒  start + step*k > stop ≥ -1
        have hstep : 0 < -step := by omega
        have hk' : (k : Int) < (start - stop + -step - 1) / -step := by
          have := Int.toNat_lt' (n := k) (m := (start - stop + -step - 1) / -step)
          omega
        have hmul : (k : Int) * (-step) ≤ start - stop + -step - 1 - (-step) := by
          have h2 : ((k : Int) + 1) ≤ (start - stop + -step - 1) / -step := by omega
          have h3 := Int.mul_le_mul_of_nonneg_right h2 (Int.le_of_lt hstep)
          have h4 := Int.ediv_mul_le (start - stop + -step - 1) (Int.ne_of_gt hstep)
          have h5 : ((k : Int) + 1) * -step = (k : Int) * -step + -step := by
            rw [Int.add_mul, Int.one_mul]
          omega
        have h6 : step * (k : Int) = -((k : Int) * -step) := by
          rw [Int.mul_neg, Int.neg_neg, Int.mul_comm]
        omega
    · cases hx

end SaVerif.OrderingList
