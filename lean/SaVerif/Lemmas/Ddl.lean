import SaVerif.Model.Ddl
import SaVerif.Lemmas.Topo
import SaVerif.Props.C19
/-! Helper lemmas about M-DDL (core Lean only). -/
namespace SaVerif.Ddl
open SaVerif.Topo

/-! ### dedup -/

theorem dedup_cons {α} [BEq α] (x : α) (xs : List α) :
    dedup (x :: xs) = if xs.contains x then dedup xs else x :: dedup xs := rfl

theorem mem_dedup {α} [BEq α] [LawfulBEq α] {a : α} {l : List α} : a ∈ dedup l ↔ a ∈ l := by
  induction l with
  | nil => simp [dedup]
  | cons x xs ih =>
    rw [dedup_cons]
    by_cases h : xs.contains x = true
    · rw [if_pos h, ih, List.mem_cons]
      constructor
      · intro h'; exact Or.inr h'
      · rintro (rfl | h')
        · simpa using h
        · exact h'
    · rw [if_neg h, List.mem_cons, List.mem_cons, ih]

theorem nodup_dedup {α} [BEq α] [LawfulBEq α] (l : List α) : (dedup l).Nodup := by
  induction l with
  | nil => simp [dedup]
  | cons x xs ih =>
    rw [dedup_cons]
    by_cases h : xs.contains x = true
    · rw [if_pos h]; exact ih
    · rw [if_neg h]
      refine List.nodup_cons.2 ⟨?_, ih⟩
      rw [mem_dedup]
      simpa using h

/-! ### lookup -/

theorem lookup_some_imp {tables : List Tbl} {i : Nat} {t : Tbl} (h : lookup tables i = some t) :
    t ∈ tables ∧ t.id = i := by
  unfold lookup at h
  have h1 := List.mem_of_find?_eq_some h
  have h2 := List.find?_some h
  exact ⟨h1, by simpa using h2⟩

theorem lookup_of_mem {tables : List Tbl} (hn : (ids tables).Nodup) {t : Tbl} (ht : t ∈ tables) :
    lookup tables t.id = some t := by
  induction tables with
  | nil => cases ht
  | cons x xs ih =>
    unfold lookup
    simp only [ids, List.map_cons, List.nodup_cons] at hn
    rcases List.mem_cons.1 ht with rfl | ht'
    · simp
    · have hne : x.id ≠ t.id := by
        intro he
        exact hn.1 (he ▸ List.mem_map.2 ⟨t, ht', rfl⟩)
      rw [List.find?_cons_of_neg (by simpa using hne)]
      exact ih hn.2 ht'

theorem mem_ids {tables : List Tbl} {i : Nat} : i ∈ ids tables ↔ ∃ t ∈ tables, t.id = i := by
  simp [ids]

/-! ### the first loop -/

theorem mem_remaining0 {flt : Filter} {tables : List Tbl} {r : FkRef} :
    r ∈ remaining0 flt tables ↔ ∃ t ∈ tables, t.id = r.1 ∧ r.2 ∈ t.fkcs ∧ deferred flt r.2 = true := by
  unfold remaining0
  simp only [List.mem_flatMap, List.mem_map, List.mem_filter]
  constructor
  · rintro ⟨t, ht, f, ⟨hf, hd⟩, rfl⟩
    exact ⟨t, ht, rfl, hf, hd⟩
  · rintro ⟨t, ht, hi, hf, hd⟩
    exact ⟨t, ht, r.2, ⟨hf, hd⟩, by rw [hi]⟩

theorem mem_mutable0 {flt : Filter} {tables : List Tbl} {e : Edge} :
    e ∈ mutable0 flt tables ↔
      ∃ t ∈ tables, ∃ f ∈ t.fkcs, deferred flt f = false ∧ f.ref ≠ t.id ∧ e = (f.ref, t.id) := by
  unfold mutable0
  simp only [List.mem_flatMap, List.mem_map, List.mem_filter, Bool.and_eq_true,
    Bool.not_eq_true', bne_iff_ne, ne_eq]
  constructor
  · rintro ⟨t, ht, f, ⟨hf, hd, hr⟩, rfl⟩
    exact ⟨t, ht, f, hf, hd, hr, rfl⟩
  · rintro ⟨t, ht, f, hf, hd, hr, rfl⟩
    exact ⟨t, ht, f, ⟨hf, hd, hr⟩, rfl⟩

theorem mem_fixedDeps {extraArg : List Edge} {tables : List Tbl} {e : Edge} :
    e ∈ fixedDeps extraArg tables ↔ e ∈ extraArg ∨ ∃ t ∈ tables, e.1 ∈ t.extra ∧ e.2 = t.id := by
  unfold fixedDeps
  simp only [List.mem_append, List.mem_flatMap, List.mem_map]
  constructor
  · rintro (h | ⟨t, ht, p, hp, rfl⟩)
    · exact Or.inl h
    · exact Or.inr ⟨t, ht, hp, rfl⟩
  · rintro (h | ⟨t, ht, hp, he⟩)
    · exact Or.inl h
    · exact Or.inr ⟨t, ht, e.1, hp, by rw [← he]⟩

/-! ### the cycle-breaking loop -/

theorem foldl_inv {σ α} (f : σ → α → σ) (P : σ → Prop) (hstep : ∀ s a, P s → P (f s a)) :
    ∀ (l : List α) (s : σ), P s → P (l.foldl f s) := by
  intro l
  induction l with
  | nil => intro s h; exact h
  | cons a l ih => intro s h; exact ih _ (hstep s a h)

/-- the two ways `breakEdge` can go -/
theorem breakEdge_cases (flt : Filter) (tables : List Tbl) (cycles : List Nat)
    (st : List FkRef × List Edge) (e : Edge) :
    breakEdge flt tables cycles st e = st ∨
    ∃ t, lookup tables e.2 = some t ∧ e.2 ∈ cycles ∧ e ∈ st.2 ∧
      breakEdge flt tables cycles st e =
        (st.1 ++ (t.fkcs.filter (removable flt)).map (fun f => (e.2, f)),
         st.2.filter (fun d => !((t.fkcs.filter (removable flt)).any
            (fun f => f.ref != e.2 && d == (f.ref, e.2))))) := by
  unfold breakEdge
  split
  · rename_i h1
    split
    · rename_i h2
      split
      · left; rfl
      · rename_i t h3
        right
        exact ⟨t, h3, by simpa using h2, by simpa using h1, rfl⟩
    · left; rfl
  · left; rfl

theorem breakEdge_fst_mono {flt tables cycles} {st : List FkRef × List Edge} {e : Edge} {x : FkRef}
    (h : x ∈ st.1) : x ∈ (breakEdge flt tables cycles st e).1 := by
  rcases breakEdge_cases flt tables cycles st e with h' | ⟨t, _, _, _, h'⟩
  · rw [h']; exact h
  · rw [h']; exact List.mem_append_left _ h

theorem breakEdge_snd_sub {flt tables cycles} {st : List FkRef × List Edge} {e d : Edge}
    (h : d ∈ (breakEdge flt tables cycles st e).2) : d ∈ st.2 := by
  rcases breakEdge_cases flt tables cycles st e with h' | ⟨t, _, _, _, h'⟩
  · rw [h'] at h; exact h
  · rw [h'] at h; exact (List.mem_filter.1 h).1

theorem breakEdge_fst_origin {flt tables cycles} {st : List FkRef × List Edge} {e : Edge} {x : FkRef}
    (h : x ∈ (breakEdge flt tables cycles st e).1) :
    x ∈ st.1 ∨ ∃ t ∈ tables, t.id = x.1 ∧ x.2 ∈ t.fkcs ∧ removable flt x.2 = true := by
  rcases breakEdge_cases flt tables cycles st e with h' | ⟨t, hl, _, _, h'⟩
  · rw [h'] at h; exact Or.inl h
  · rw [h'] at h
    rcases List.mem_append.1 h with h | h
    · exact Or.inl h
    · right
      obtain ⟨f, hf, rfl⟩ := List.mem_map.1 h
      obtain ⟨ht, hid⟩ := lookup_some_imp hl
      exact ⟨t, ht, hid, (List.mem_filter.1 hf).1, (List.mem_filter.1 hf).2⟩

theorem breakEdge_keep_noncycle {flt tables cycles} {st : List FkRef × List Edge} {e d : Edge}
    (hd : d ∈ st.2) (hc : d.2 ∉ cycles) : d ∈ (breakEdge flt tables cycles st e).2 := by
  rcases breakEdge_cases flt tables cycles st e with h' | ⟨t, _, hcyc, _, h'⟩
  · rw [h']; exact hd
  · rw [h']
    refine List.mem_filter.2 ⟨hd, ?_⟩
    simp only [Bool.not_eq_true', List.any_eq_false, Bool.and_eq_true, bne_iff_ne, ne_eq,
      beq_iff_eq, not_and]
    intro f _ _ he
    apply hc
    rw [he]; exact hcyc

/-- the guard the DROP proof forces: on a cycle table, no constraint that stays inline
    shares its target with a constraint that is moved to the ALTER list -/
def NoShared (flt : Filter) (tables : List Tbl) (cycles : List Nat) : Prop :=
  ∀ t ∈ tables, t.id ∈ cycles → ∀ f ∈ t.fkcs, ∀ g ∈ t.fkcs,
    removable flt g = true → removable flt f = false → deferred flt f = false → g.ref ≠ f.ref

theorem noShared_create (tables : List Tbl) (cycles : List Nat) : NoShared fltCreate tables cycles := by
  intro t _ _ f _ g _ _ hf
  simp [removable, fltCreate] at hf

/-- loop invariant: every constraint not (yet) in `remaining` still has its dependency
    edge, and the constraints deferred by the first loop are in `remaining` -/
def EdgeInv (flt : Filter) (tables : List Tbl) (st : List FkRef × List Edge) : Prop :=
  (∀ t ∈ tables, ∀ f ∈ t.fkcs, (t.id, f) ∉ st.1 → f.ref ≠ t.id → (f.ref, t.id) ∈ st.2) ∧
  (∀ t ∈ tables, ∀ f ∈ t.fkcs, deferred flt f = true → (t.id, f) ∈ st.1)

theorem edgeInv_init (flt : Filter) (tables : List Tbl) :
    EdgeInv flt tables (remaining0 flt tables, mutable0 flt tables) := by
  constructor
  · intro t ht f hf hnr hne
    have hd : deferred flt f = false := by
      cases h : deferred flt f with
      | false => rfl
      | true => exact absurd (mem_remaining0.2 ⟨t, ht, rfl, hf, h⟩) hnr
    exact mem_mutable0.2 ⟨t, ht, f, hf, hd, hne, rfl⟩
  · intro t ht f hf hd
    exact mem_remaining0.2 ⟨t, ht, rfl, hf, hd⟩

theorem edgeInv_step {flt : Filter} {tables : List Tbl} {cycles : List Nat}
    (hn : (ids tables).Nodup) (hs : NoShared flt tables cycles)
    (st : List FkRef × List Edge) (e : Edge) (h : EdgeInv flt tables st) :
    EdgeInv flt tables (breakEdge flt tables cycles st e) := by
  rcases breakEdge_cases flt tables cycles st e with h' | ⟨T, hl, hcyc, _, h'⟩
  · rw [h']; exact h
  · obtain ⟨hT, hTid⟩ := lookup_some_imp hl
    constructor
    · intro t ht f hf hnr hne
      rw [h'] at hnr ⊢
      simp only [List.mem_append, not_or] at hnr
      have hin := h.1 t ht f hf hnr.1 hne
      refine List.mem_filter.2 ⟨hin, ?_⟩
      simp only [Bool.not_eq_true', List.any_eq_false, Bool.and_eq_true, bne_iff_ne, ne_eq,
        beq_iff_eq, not_and]
      intro g hg _ he
      have hgT := (List.mem_filter.1 hg).1
      have hgr := (List.mem_filter.1 hg).2
      have hid : t.id = e.2 := by
        have := congrArg Prod.snd he; simpa using this
      have href : f.ref = g.ref := by
        have := congrArg Prod.fst he; simpa using this
      have htT : t = T := by
        have h1 := lookup_of_mem hn ht
        rw [hid, hl] at h1
        exact (Option.some.inj h1).symm
      subst htT
      cases hrf : removable flt f with
      | true =>
        apply hnr.2
        exact List.mem_map.2 ⟨f, List.mem_filter.2 ⟨hf, hrf⟩, by rw [hid]⟩
      | false =>
        have hdf : deferred flt f = false := by
          cases hd : deferred flt f with
          | false => rfl
          | true => exact absurd (h.2 t ht f hf hd) hnr.1
        exact hs t ht (hTid ▸ hcyc) f hf g hgT hgr hrf hdf href.symm
    · intro t ht f hf hd
      exact breakEdge_fst_mono (h.2 t ht f hf hd)


/-! ### what a successful `sort_tables_and_constraints` guarantees -/

/-- a `remaining` entry is a declared constraint that was deferred by the first loop or
    is removable (the only ones the cycle-breaking loop may move) -/
def RealRem (flt : Filter) (tables : List Tbl) (r : FkRef) : Prop :=
  ∃ t ∈ tables, t.id = r.1 ∧ r.2 ∈ t.fkcs ∧ (deferred flt r.2 = true ∨ removable flt r.2 = true)

structure SortSpec (flt : Filter) (extraArg : List Edge) (tables : List Tbl) (s : Sorted) : Prop where
  perm : s.order.Perm (ids tables)
  remNodup : s.remaining.Nodup
  remReal : ∀ r ∈ s.remaining, RealRem flt tables r
  deferredIn : ∀ t ∈ tables, ∀ f ∈ t.fkcs, deferred flt f = true → (t.id, f) ∈ s.remaining
  inlineOrdered : ∀ t ∈ tables, ∀ f ∈ t.fkcs, (t.id, f) ∉ s.remaining → f.ref ≠ t.id →
      f.ref ∈ ids tables → s.order.idxOf f.ref < s.order.idxOf t.id
  fixedOrdered : ∀ e ∈ fixedDeps extraArg tables, e.1 ∈ ids tables → e.2 ∈ ids tables →
      s.order.idxOf e.1 < s.order.idxOf e.2

theorem sortSpec_of_sort {flt : Filter} {extraArg : List Edge} {tables : List Tbl}
    {rem : List FkRef} {mu : List Edge} {cand : List Nat}
    (hinv : EdgeInv flt tables (rem, mu))
    (hreal : ∀ r ∈ rem, RealRem flt tables r)
    (hsort : sort (fixedDeps extraArg tables ++ mu) (ids tables) = some cand) :
    SortSpec flt extraArg tables ⟨cand, dedup rem⟩ where
  perm := Props.C19.sort_perm _ _ _ hsort
  remNodup := nodup_dedup _
  remReal := fun r hr => hreal r (mem_dedup.1 hr)
  deferredIn := fun t ht f hf hd => mem_dedup.2 (hinv.2 t ht f hf hd)
  inlineOrdered := by
    intro t ht f hf hnr hne hin
    have hnr' : (t.id, f) ∉ rem := fun h => hnr (mem_dedup.2 h)
    have he := hinv.1 t ht f hf hnr' hne
    exact Props.C19.sort_respects _ _ _ _ _ hsort (List.mem_append_right _ he) hin
      (mem_ids.2 ⟨t, ht, rfl⟩)
  fixedOrdered := by
    intro e he h1 h2
    exact Props.C19.sort_respects _ _ _ e.1 e.2 hsort (List.mem_append_left _ he) h1 h2

theorem realRem_init {flt : Filter} {tables : List Tbl} :
    ∀ r ∈ remaining0 flt tables, RealRem flt tables r := by
  intro r hr
  obtain ⟨t, ht, hid, hf, hd⟩ := mem_remaining0.1 hr
  exact ⟨t, ht, hid, hf, Or.inl hd⟩

theorem sortTCWith_spec {cyc : List Edge → List Nat} {flt : Filter} {extraArg : List Edge}
    {tables : List Tbl} {s : Sorted}
    (hn : (ids tables).Nodup)
    (hs : NoShared flt tables (cyc (fixedDeps extraArg tables ++ mutable0 flt tables)))
    (h : sortTCWith cyc flt extraArg tables = some s) : SortSpec flt extraArg tables s := by
  unfold sortTCWith at h
  simp only at h
  split at h
  · rename_i cand hsort
    cases h
    exact sortSpec_of_sort (edgeInv_init flt tables) realRem_init hsort
  · split at h
    · rename_i cand hsort
      cases h
      refine sortSpec_of_sort (rem := _) (mu := _) ?_ ?_ hsort
      · exact foldl_inv _ (EdgeInv flt tables) (fun st e => edgeInv_step hn hs st e) _ _
          (edgeInv_init flt tables)
      · refine foldl_inv _ (fun (st : List FkRef × List Edge) => ∀ r ∈ st.1, RealRem flt tables r) ?_ _ _ realRem_init
        intro st e hP r hr
        rcases breakEdge_fst_origin hr with h1 | ⟨t, ht, hid, hf, hrm⟩
        · exact hP r h1
        · exact ⟨t, ht, hid, hf, Or.inr hrm⟩
    · cases h


/-! ### which edges survive the loop -/

theorem foldl_breakEdge_snd_sub {flt tables cycles} :
    ∀ (l : List Edge) (st : List FkRef × List Edge) (d : Edge),
      d ∈ (l.foldl (breakEdge flt tables cycles) st).2 → d ∈ st.2 := by
  intro l
  induction l with
  | nil => intro st d h; exact h
  | cons a l ih => intro st d h; exact breakEdge_snd_sub (ih _ d h)

/-- the final dependency list used by the sort that succeeded -/
theorem sortTCWith_edges {cyc : List Edge → List Nat} {flt : Filter} {extraArg : List Edge}
    {tables : List Tbl} {s : Sorted} (h : sortTCWith cyc flt extraArg tables = some s) :
    ∃ mu : List Edge,
      sort (fixedDeps extraArg tables ++ mu) (ids tables) = some s.order ∧
      (∀ e ∈ mu, e ∈ mutable0 flt tables) ∧
      (∀ e ∈ mutable0 flt tables,
          e.2 ∉ cyc (fixedDeps extraArg tables ++ mutable0 flt tables) → e ∈ mu) := by
  unfold sortTCWith at h
  simp only at h
  split at h
  · rename_i cand hsort
    cases h
    exact ⟨_, hsort, fun e he => he, fun e he _ => he⟩
  · split at h
    · rename_i cand hsort
      cases h
      refine ⟨_, hsort, fun e he => foldl_breakEdge_snd_sub _ _ e he, ?_⟩
      intro e he hc
      exact foldl_inv _ (fun (st : List FkRef × List Edge) => e ∈ st.2)
        (fun st a hP => breakEdge_keep_noncycle hP hc) _ _ he
    · cases h

/-- with `filter_fn=None` visiting an FK edge into a cycle table removes that edge -/
theorem breakEdge_removes_self {tables : List Tbl} {cycles : List Nat}
    (hn : (ids tables).Nodup) (st : List FkRef × List Edge)
    {t : Tbl} (ht : t ∈ tables) {f : Fkc} (hf : f ∈ t.fkcs) (hne : f.ref ≠ t.id)
    (hc : t.id ∈ cycles) :
    (f.ref, t.id) ∉ (breakEdge fltCreate tables cycles st (f.ref, t.id)).2 := by
  by_cases hin : (f.ref, t.id) ∈ st.2
  · unfold breakEdge
    have h1 : st.2.contains (f.ref, t.id) = true := by simpa using hin
    have h2 : cycles.contains t.id = true := by simpa using hc
    simp only [h1, h2, if_true, lookup_of_mem hn ht]
    intro hmem
    have := (List.mem_filter.1 hmem).2
    simp only [Bool.not_eq_true', List.any_eq_false, Bool.and_eq_true, bne_iff_ne, ne_eq,
      beq_iff_eq, not_and] at this
    exact this f (List.mem_filter.2 ⟨hf, by simp [removable, fltCreate]⟩) hne rfl
  · exact fun h => hin (breakEdge_snd_sub h)

theorem foldl_breakEdge_removes {tables : List Tbl} {cycles : List Nat} (hn : (ids tables).Nodup) :
    ∀ (l : List Edge) (st : List FkRef × List Edge) (e : Edge), e ∈ l →
      e ∈ mutable0 fltCreate tables → e.2 ∈ cycles →
      e ∉ (l.foldl (breakEdge fltCreate tables cycles) st).2 := by
  intro l
  induction l with
  | nil => intro st e he; cases he
  | cons a l ih =>
    intro st e he hm hc
    rw [List.foldl_cons]
    rcases List.mem_cons.1 he with rfl | he'
    · obtain ⟨t, ht, f, hf, _, hne, rfl⟩ := mem_mutable0.1 hm
      intro hcon
      exact breakEdge_removes_self hn st ht hf hne hc (foldl_breakEdge_snd_sub _ _ _ hcon)
    · exact ih _ e he' hm hc

/-! ### a failing sort exhibits a parent-closed set -/

theorem sortAux_none_stuck (ts : List Edge) :
    ∀ (fuel : Nat) (todo : List Node), todo.length ≤ fuel → sortAux ts fuel todo = none →
      ∃ S : List Node, S ≠ [] ∧ (∀ n ∈ S, n ∈ todo) ∧ ∀ n ∈ S, ∃ p ∈ S, (p, n) ∈ ts := by
  intro fuel
  induction fuel with
  | zero =>
    intro todo hl h
    have : todo = [] := List.eq_nil_of_length_eq_zero (by omega)
    subst this
    simp [sortAux] at h
  | succ k ih =>
    intro todo hl h
    simp only [sortAux] at h
    split at h
    · cases h
    · rename_i hne
      split at h
      · rename_i hlay
        refine ⟨todo, ?_, fun n hn => hn, ?_⟩
        · intro he; subst he; simp at hne
        · intro n hn
          have hnl : n ∉ layer ts todo := by
            simp only [List.isEmpty_iff] at hlay
            rw [hlay]; simp
          rw [mem_layer] at hnl
          apply Classical.byContradiction
          intro hcon
          apply hnl
          refine ⟨hn, fun p hp hpt => hcon ⟨p, hpt, hp⟩⟩
      · rename_i hlay
        split at h
        · rename_i hrec
          have hlt := remaining_length_lt (ts := ts) (todo := todo) (by simpa using hlay)
          obtain ⟨S, h1, h2, h3⟩ := ih _ (by omega) hrec
          exact ⟨S, h1, fun n hn => (mem_remaining.1 (h2 n hn)).1, h3⟩
        · cases h

theorem sort_none_stuck {ts : List Edge} {items : List Node} (h : sort ts items = none) :
    ∃ S : List Node, S ≠ [] ∧ (∀ n ∈ S, n ∈ items) ∧ ∀ n ∈ S, ∃ p ∈ S, (p, n) ∈ ts := by
  unfold sort sortAsSubsets at h
  cases hs : sortAux ts items.length items with
  | none => exact sortAux_none_stuck ts _ _ (Nat.le_refl _) hs
  | some o => rw [hs] at h; cases h

end SaVerif.Ddl
