import SaVerif.Lemmas.Txn
/-! Step-by-step simulation lemmas: Connection model vs stack-of-scopes spec (C23). -/
namespace SaVerif.Txn

theorem sim_ctx {c : Conn} {s : Spec} (h : Sim c s) : c.ctxRaises = false := by
  simp [Conn.ctxRaises, h.noctx]

theorem sim_nested_none {c : Conn} {s : Spec} (h : Sim c s) (hr : s.root = none) : c.nested = none := by
  have := h.chain
  rw [h.rootNone hr] at this
  exact chain_nil this

theorem pushRoot_txn_lt (c : Conn) (h : Nat) (hh : h < c.txns.length) : c.pushRoot.txn h = c.txn h :=
  txn_append_lt c _ h hh

theorem pushRoot_txn_new (c : Conn) :
    c.pushRoot.txn c.txns.length = { isRoot := true, active := true, sp := 0, prev := none,
                                     subject := false, outerCtx := none } :=
  txn_append_new c _

/-- autobegin when no transaction is in progress -/
theorem sim_pushRoot {c : Conn} {s : Spec} (h : Sim c s) (hr : s.root = none) :
    Sim c.pushRoot { s with root := some s.kinds.length, kinds := s.kinds ++ [true] } := by
  have hnn := sim_nested_none h hr
  have hsc := h.rootNone hr
  have hlen : c.pushRoot.txns.length = c.txns.length + 1 := by simp [Conn.pushRoot]
  refine
    { dbapi := h.dbapi, reconn := h.reconn, nofault := h.nofault, nolistener := h.nolistener, noctx := h.noctx,
      noauto := h.noauto, committed := h.committed, working := h.working, sorted := h.sorted,
      bound := h.bound, kindsLen := ?_, kindsAt := ?_, root := ?_, rootOk := ?_, rootNone := ?_,
      clean := (fun hh => by simp at hh), savesNone := (fun hh => by simp at hh), chain := ?_, saves := ?_, others := ?_ }
  · simp [hlen, h.kindsLen]
  · intro x hx
    rw [hlen] at hx
    by_cases hx' : x < c.txns.length
    · rw [pushRoot_txn_lt _ _ hx', ← h.kindsAt x hx']
      simp [List.getD_eq_getElem?_getD, List.getElem?_append_left (h.kindsLen ▸ hx')]
    · have : x = c.txns.length := by omega
      subst this
      rw [pushRoot_txn_new]
      simp [List.getD_eq_getElem?_getD, ← h.kindsLen]
  · simp [Conn.pushRoot, h.kindsLen]
  · intro t ht
    simp only [Option.some.injEq] at ht
    subst ht
    rw [h.kindsLen, hlen, pushRoot_txn_new]
    simp
  · intro hh; simp at hh
  · show ChainOk c.pushRoot c.nested s.scopes
    rw [hnn, hsc]; simp [ChainOk]
  · show (specSaves c.pushRoot s.scopes).Sublist c.db.raw.saves
    rw [hsc]; simp [specSaves]
  · intro x hx hne hsc'
    rw [hlen] at hx
    have hx' : x < c.txns.length := by
      rcases Nat.lt_or_ge x c.txns.length with h' | h'
      · exact h'
      · exfalso; apply hne; simp [h.kindsLen]; omega
    rw [pushRoot_txn_lt _ _ hx']
    exact h.others x hx' (by rw [hr]; simp) hsc'

theorem sim_autobegin {c : Conn} {s : Spec} (h : Sim c s) :
    Sim c.autobegin.1 s.autobegin ∧ c.autobegin.2 = .ok := by
  cases hr : s.root with
  | none =>
    have htr : c.transaction = none := by rw [h.root, hr]
    have : c.autobegin = (c.pushRoot, .ok) := by
      simp [Conn.autobegin, htr, Conn.begin, Conn.beginRoot, sim_ctx h, Conn.connProp, h.dbapi]
    rw [this]
    refine ⟨?_, rfl⟩
    have : s.autobegin = { s with root := some s.kinds.length, kinds := s.kinds ++ [true] } := by
      simp [Spec.autobegin, hr]
    rw [this]
    exact sim_pushRoot h hr
  | some t =>
    have htr : c.transaction = some t := by rw [h.root, hr]
    have : c.autobegin = (c, .ok) := by simp [Conn.autobegin, htr]
    rw [this]
    have : s.autobegin = s := by simp [Spec.autobegin, hr]
    rw [this]
    exact ⟨h, rfl⟩

theorem autobegin_root {s : Spec} : ∃ t, s.autobegin.root = some t := by
  cases hr : s.root with
  | none => exact ⟨s.kinds.length, by simp [Spec.autobegin, hr]⟩
  | some t => exact ⟨t, by simp [Spec.autobegin, hr]⟩


theorem sim_stale {c : Conn} {s : Spec} (h : Sim c s) : c.stale = false := by
  have hn : (match c.nested with | some n => !c.act n | none => false) = false := by
    cases hcn : c.nested with
    | none => rfl
    | some n => simp [chain_nested_active h.chain n hcn]
  have ht : (match c.transaction with | some t => !c.act t | none => false) = false := by
    cases hct : c.transaction with
    | none => rfl
    | some t =>
      have : s.root = some t := by rw [← h.root, hct]
      have := (h.rootOk t this).2.2
      simp [Conn.act, this]
  simp only [Conn.stale, Bool.or_eq_false_iff]
  exact ⟨ht, hn⟩

/-- `execute` in a simulated state: autobegin if needed, then just the database effect -/
theorem execute_sim' {c : Conn} {s : Spec} (h : Sim c s) (q : Sql) :
    c.execute q =
      match c.autobegin.1.db.apply q with
      | (some db, _) => ({ c.autobegin.1 with db := db }, .ok)
      | (none, r) => (c.autobegin.1, r) := by
  obtain ⟨h1, h1ok⟩ := sim_autobegin h
  obtain ⟨t, ht⟩ := @autobegin_root s
  have hcur : c.dbapiCall .cursor id = (c, .ok) := by
    rw [dbapiCall_nofault _ _ _ h.nofault]; rfl
  have hin : c.autobegin.1.inTransaction = true := by
    have := (h1.rootOk t ht)
    simp [Conn.inTransaction, h1.root, ht, Conn.act, this.2.2]
  have hab : c.autobegin = (c.autobegin.1, .ok) := by rw [← h1ok]
  simp only [Conn.execute, Conn.connProp, h.dbapi, if_true, andThen_ok, hcur, Conn.execChecked,
    sim_stale h, sim_ctx h, Bool.false_eq_true, if_false]
  rw [hab]
  simp only [andThen_ok, Conn.runSql, takeFault_nil _ _ h1.nofault]
  cases hq : c.autobegin.1.db.apply q with
  | mk o r =>
    cases o with
    | some db => rfl
    | none => simp [dbapiError_err_plain _ h1.nolistener hin]

theorem sim_write {c : Conn} {s : Spec} (h : Sim c s) {t : Nat} (ht : s.root = some t) (d : Data) :
    Sim { c with db := c.db.write d } { s with cur := d } := by
  have hw : c.db.write d = { c.db with raw := { c.db.raw with working := d } } := by
    simp [DB.write, h.noauto]
  rw [hw]
  exact
    { dbapi := h.dbapi, reconn := h.reconn, nofault := h.nofault, nolistener := h.nolistener, noctx := h.noctx,
      noauto := h.noauto, committed := h.committed, working := rfl, sorted := h.sorted,
      bound := h.bound, kindsLen := h.kindsLen, kindsAt := h.kindsAt, root := h.root,
      rootOk := h.rootOk, rootNone := h.rootNone,
      clean := (fun hh => by rw [show s.root = none from hh] at ht; cases ht),
      savesNone := (fun hh => by rw [show s.root = none from hh] at ht; cases ht),
      chain := chain_txns (by rfl) h.chain,
      saves := by
        show (specSaves _ s.scopes).Sublist c.db.raw.saves
        rw [specSaves_txns (c := c) (by rfl)]; exact h.saves,
      others := h.others }

theorem sim_exec {c : Conn} {s : Spec} (h : Sim c s) (st : Stmt) :
    ∃ s' r, s.step (.exec st) = some (s', r) ∧
      Sim (c.execute (.stmt st)).1 s' ∧ (c.execute (.stmt st)).2 = r := by
  obtain ⟨h1, _⟩ := sim_autobegin h
  obtain ⟨t, ht⟩ := @autobegin_root s
  rw [execute_sim' h]
  cases st with
  | ins k =>
    simp only [Spec.step, DB.apply, h1.working]
    cases hi : s.autobegin.cur.insert k with
    | none => exact ⟨_, _, rfl, h1, rfl⟩
    | some d => exact ⟨_, _, rfl, sim_write h1 ht d, rfl⟩
  | del k =>
    simp only [Spec.step, DB.apply, h1.working]
    exact ⟨_, _, rfl, sim_write h1 ht _, rfl⟩
  | sel =>
    simp only [Spec.step, DB.apply]
    exact ⟨_, _, rfl, h1, rfl⟩


theorem execute_sim_root {c : Conn} {s : Spec} (h : Sim c s) {t : Nat} (ht : s.root = some t)
    (q : Sql) :
    c.execute q =
      match c.db.apply q with
      | (some db, _) => ({ c with db := db }, .ok)
      | (none, r) => (c, r) := by
  have : c.autobegin = (c, .ok) := by simp [Conn.autobegin, h.root, ht]
  rw [execute_sim' h, this]

/-- the state after `SAVEPOINT sa_savepoint_<spSeq+1>` and attaching the new object -/
def Conn.afterSavepoint (c : Conn) : Conn :=
  ({ c with spSeq := c.spSeq + 1,
            db := { c.db with raw := c.db.raw.savepoint (c.spSeq + 1) } } : Conn).pushNested

theorem afterSavepoint_txn_lt (c : Conn) (h : Nat) (hh : h < c.txns.length) :
    c.afterSavepoint.txn h = c.txn h :=
  txn_append_lt _ _ h hh

theorem afterSavepoint_txn_new (c : Conn) :
    c.afterSavepoint.txn c.txns.length =
      { isRoot := false, active := true, sp := c.spSeq + 1, prev := c.nested,
        subject := false, outerCtx := none } :=
  txn_append_new
    ({ c with spSeq := c.spSeq + 1, db := { c.db with raw := c.db.raw.savepoint (c.spSeq + 1) } } : Conn) _

theorem sim_afterSavepoint {c : Conn} {s : Spec} (h : Sim c s) {t : Nat} (ht : s.root = some t) :
    Sim c.afterSavepoint
      { s with scopes := ⟨s.kinds.length, s.cur⟩ :: s.scopes, kinds := s.kinds ++ [false] } := by
  have hlen : c.afterSavepoint.txns.length = c.txns.length + 1 := by
    simp [Conn.afterSavepoint, Conn.pushNested]
  have hsame : ∀ sc ∈ s.scopes, c.afterSavepoint.txn sc.h = c.txn sc.h := fun sc hsc =>
    afterSavepoint_txn_lt c sc.h (chain_handles_lt h.chain sc hsc)
  refine
    { dbapi := h.dbapi, reconn := h.reconn, nofault := h.nofault, nolistener := h.nolistener, noctx := h.noctx,
      noauto := h.noauto, committed := h.committed, working := h.working, sorted := ?sorted,
      bound := ?bound, kindsLen := ?kindsLen, kindsAt := ?kindsAt, root := h.root,
      rootOk := ?rootOk, rootNone := ?rootNone,
      clean := (fun hh => by rw [show s.root = none from hh] at ht; cases ht),
      savesNone := (fun hh => by rw [show s.root = none from hh] at ht; cases ht),
      chain := ?chain, saves := ?saves,
      others := ?others }
  case sorted => exact sorted_push h.sorted h.bound
  case bound =>
    intro p hp
    show p.1 ≤ c.spSeq + 1
    have hp' : p ∈ (c.spSeq + 1, c.db.raw.working) :: c.db.raw.saves := hp
    rcases List.mem_cons.1 hp' with rfl | hp'
    · exact Nat.le_refl _
    · have := h.bound p hp'; omega
  case kindsLen => simp [hlen, h.kindsLen]
  case kindsAt =>
    intro x hx
    rw [hlen] at hx
    by_cases hx' : x < c.txns.length
    · rw [afterSavepoint_txn_lt _ _ hx', ← h.kindsAt x hx']
      simp [List.getD_eq_getElem?_getD, List.getElem?_append_left (h.kindsLen ▸ hx')]
    · have : x = c.txns.length := by omega
      subst this
      rw [afterSavepoint_txn_new]
      simp [List.getD_eq_getElem?_getD, ← h.kindsLen]
  case rootOk =>
    intro t' ht'
    have ht'' : s.root = some t' := ht'
    obtain ⟨a, b, d⟩ := h.rootOk t' ht''
    rw [hlen, afterSavepoint_txn_lt _ _ a]
    exact ⟨by omega, b, d⟩
  case rootNone =>
    intro hh
    have : s.root = none := hh
    rw [ht] at this; cases this
  case chain =>
    show ChainOk c.afterSavepoint (some c.txns.length) (⟨s.kinds.length, s.cur⟩ :: s.scopes)
    refine ⟨h.kindsLen, by rw [hlen]; omega, ?_, ?_, ?_, ?_⟩
    · rw [afterSavepoint_txn_new]
    · rw [afterSavepoint_txn_new]
    · rw [afterSavepoint_txn_new]
      intro p hp
      have hp' : c.nested = some p := hp
      have := h.chain
      rw [hp'] at this
      exact chain_head_lt this
    · rw [afterSavepoint_txn_new]
      exact chain_frame (by rw [hlen]; omega) hsame h.chain
  case saves =>
    show (specSaves c.afterSavepoint (⟨s.kinds.length, s.cur⟩ :: s.scopes)).Sublist
        ((c.spSeq + 1, c.db.raw.working) :: c.db.raw.saves)
    have : specSaves c.afterSavepoint (⟨s.kinds.length, s.cur⟩ :: s.scopes)
        = (c.spSeq + 1, s.cur) :: specSaves c s.scopes := by
      rw [← specSaves_frame hsame]
      simp [specSaves, h.kindsLen, afterSavepoint_txn_new]
    rw [this, h.working]
    exact List.Sublist.cons_cons _ h.saves
  case others =>
    intro x hx hne hsc'
    rw [hlen] at hx
    have hne' : s.root ≠ some x := hne
    have hx' : x < c.txns.length := by
      rcases Nat.lt_or_ge x c.txns.length with h' | h'
      · exact h'
      · exfalso
        have : x = c.txns.length := by omega
        exact hsc' ⟨s.kinds.length, s.cur⟩ List.mem_cons_self (by simp [this, h.kindsLen])
    rw [afterSavepoint_txn_lt _ _ hx']
    exact h.others x hx' hne' (fun sc hsc => hsc' sc (List.mem_cons_of_mem _ hsc))

theorem sim_beginNested {c : Conn} {s : Spec} (h : Sim c s) :
    ∃ s', s.step .beginNested = some (s', .ok) ∧
      Sim c.beginNested.1 s' ∧ c.beginNested.2 = .ok := by
  obtain ⟨h1, h1ok⟩ := sim_autobegin h
  obtain ⟨t, ht⟩ := @autobegin_root s
  refine ⟨_, rfl, ?_⟩
  have hab : c.autobegin = (c.autobegin.1, .ok) := by rw [← h1ok]
  -- the connection with the sequence bumped still simulates (only `bound` weakens)
  have h2 : Sim { c.autobegin.1 with spSeq := c.autobegin.1.spSeq + 1 } s.autobegin :=
    { dbapi := h1.dbapi, reconn := h1.reconn, nofault := h1.nofault, nolistener := h1.nolistener, noctx := h1.noctx,
      noauto := h1.noauto, committed := h1.committed, working := h1.working, sorted := h1.sorted,
      bound := fun p hp => Nat.le_succ_of_le (h1.bound p hp), kindsLen := h1.kindsLen,
      kindsAt := h1.kindsAt, root := h1.root, rootOk := h1.rootOk, rootNone := h1.rootNone,
      clean := h1.clean, savesNone := h1.savesNone, chain := chain_txns (by rfl) h1.chain,
      saves := by
        show (specSaves _ s.autobegin.scopes).Sublist c.autobegin.1.db.raw.saves
        rw [specSaves_txns (c := c.autobegin.1) (by rfl)]; exact h1.saves,
      others := h1.others }
  have hex := execute_sim_root h2 ht (.savepoint (c.autobegin.1.spSeq + 1))
  have hres : c.beginNested = (c.autobegin.1.afterSavepoint, .ok) := by
    unfold Conn.beginNested
    rw [hab]
    simp only [andThen_ok, sim_ctx h1, Bool.false_eq_true, if_false]
    rw [hex]
    rfl
  rw [hres]
  exact ⟨sim_afterSavepoint h1 ht, rfl⟩


/-! ### ending the root transaction -/

/-- every savepoint object cancelled, the root deactivated and detached -/
def Conn.endedRoot (c : Conn) (t : Nat) : Conn :=
  { c.cancelNested.deactivate t with transaction := none }

theorem sim_endedRoot {c : Conn} {s : Spec} (h : Sim c s) {t : Nat} (ht : s.root = some t)
    (db' : DB) (rows : Data)
    (hc : db'.committed = rows) (hw : db'.raw.working = rows) (hs : db'.raw.saves = [])
    (hf : db'.faults = []) (hl : db'.listener = .none) (ha : db'.raw.autocommit = false) :
    Sim (({ c with db := db' } : Conn).endedRoot t)
      { s with committed := rows, cur := rows, root := none, scopes := [] } := by
  have hch1 : ChainOk ({ c with db := db' } : Conn) ({ c with db := db' } : Conn).nested s.scopes :=
    chain_txns (by rfl) h.chain
  obtain ⟨k1, k2, _, k4, k5⟩ := cancelNested_spec hch1
  obtain ⟨tlt, _, _⟩ := h.rootOk t ht
  -- abbreviations
  have e_len : (({ c with db := db' } : Conn).endedRoot t).txns.length = c.txns.length := by
    simp only [Conn.endedRoot, Conn.deactivate, setTxn_length]
    exact k2.len
  have e_db : (({ c with db := db' } : Conn).endedRoot t).db = db' := by
    simp only [Conn.endedRoot, Conn.deactivate, Conn.setTxn]
    exact k2.db
  have e_isRoot : ∀ x, ((({ c with db := db' } : Conn).endedRoot t).txn x).isRoot = (c.txn x).isRoot := by
    intro x
    show ((({ c with db := db' } : Conn).cancelNested.deactivate t).txn x).isRoot = _
    rw [deactivate_isRoot, k2.isRoot]
    rfl
  refine
    { dbapi := ?dbapi, reconn := ?reconn, nofault := ?nofault,
      nolistener := (by rw [e_db]; exact hl), noctx := ?noctx,
      noauto := ?noauto, committed := ?committed, working := ?working, sorted := ?sorted,
      bound := ?bound, kindsLen := ?kindsLen, kindsAt := ?kindsAt, root := rfl,
      rootOk := ?rootOk, rootNone := fun _ => rfl, clean := fun _ => rfl, savesNone := (fun _ => by rw [e_db]; exact hs),
      chain := ?chain, saves := ?saves,
      others := ?others }
  case dbapi =>
    show ({ c with db := db' } : Conn).cancelNested.hasDbapi = true
    rw [k2.hasDbapi]; exact h.dbapi
  case reconn =>
    show ({ c with db := db' } : Conn).cancelNested.canReconnect = true
    rw [k2.canReconnect]; exact h.reconn
  case nofault => rw [e_db]; exact hf
  case noctx =>
    show ({ c with db := db' } : Conn).cancelNested.ctxMgr = none
    rw [k2.ctxMgr]; exact h.noctx
  case noauto => rw [e_db]; exact ha
  case committed => rw [e_db]; exact hc
  case working => rw [e_db]; exact hw
  case sorted => rw [e_db, hs]; exact List.Pairwise.nil
  case bound => rw [e_db, hs]; intro p hp; cases hp
  case kindsLen => rw [e_len]; exact h.kindsLen
  case kindsAt =>
    intro x hx
    rw [e_len] at hx
    rw [e_isRoot]
    exact h.kindsAt x hx
  case rootOk => intro t' ht'; cases ht'
  case chain =>
    show ChainOk _ ({ c with db := db' } : Conn).cancelNested.nested []
    rw [k1]; simp [ChainOk]
  case saves => simp [specSaves]
  case others =>
    intro x hx _ _
    rw [e_len] at hx
    show ((({ c with db := db' } : Conn).cancelNested.deactivate t).txn x).active = false
    by_cases hxt : t = x
    · subst hxt
      rw [deactivate_txn_eq _ _ (by rw [k2.len]; exact tlt)]
    · rw [deactivate_txn_ne _ _ _ hxt]
      by_cases hin : ∃ sc ∈ s.scopes, sc.h = x
      · obtain ⟨sc, hsc, rfl⟩ := hin
        exact k4 sc hsc
      · rw [k5 x (fun sc hsc e => hin ⟨sc, hsc, e⟩)]
        exact h.others x hx (by rw [ht]; intro e; cases e; exact hxt rfl)
          (fun sc hsc e => hin ⟨sc, hsc, e⟩)


theorem scope_ne_root {c : Conn} {s : Spec} (h : Sim c s) {t : Nat} (ht : s.root = some t) :
    ∀ sc ∈ s.scopes, sc.h ≠ t := by
  intro sc hsc e
  have h1 := chain_isRoot h.chain sc hsc
  have h2 := (h.rootOk t ht).2.1
  rw [e, h2] at h1
  cases h1

/-- the root handle is still active after the savepoints are cancelled -/
theorem act_root_after_cancel {c : Conn} {s : Spec} (h : Sim c s) {t : Nat} (ht : s.root = some t)
    (db' : DB) : ({ c with db := db' } : Conn).cancelNested.act t = true := by
  have hch1 : ChainOk ({ c with db := db' } : Conn) ({ c with db := db' } : Conn).nested s.scopes :=
    chain_txns (by rfl) h.chain
  obtain ⟨_, _, _, _, k5⟩ := cancelNested_spec hch1
  show (({ c with db := db' } : Conn).cancelNested.txn t).active = true
  rw [k5 t (scope_ne_root h ht)]
  exact (h.rootOk t ht).2.2

theorem rootCommit_sim {c : Conn} {s : Spec} (h : Sim c s) {t : Nat} (ht : s.root = some t) :
    c.rootCommit t = (({ c with db := c.db.commit } : Conn).endedRoot t, .ok) := by
  have hact : c.act t = true := (h.rootOk t ht).2.2
  have hci : c.commitImpl = ({ c with db := c.db.commit }, .ok) := by
    simp [Conn.commitImpl, Conn.connProp, h.dbapi, dbapiCall_nofault _ _ _ h.nofault]
  have h2 := act_root_after_cancel h ht c.db.commit
  simp only [Conn.rootCommit, hact, if_true, hci, andFinally_mk, andThen_ok, Conn.rootDeactivate, h2]
  rfl

theorem rootCloseImpl_sim {c : Conn} {s : Spec} (h : Sim c s) {t : Nat} (ht : s.root = some t)
    (b : Bool) :
    c.rootCloseImpl t b = (({ c with db := c.db.rollback } : Conn).endedRoot t, .ok) := by
  have hact : c.act t = true := (h.rootOk t ht).2.2
  have hri : c.rollbackImpl = ({ c with db := c.db.rollback }, .ok) := by
    simp [Conn.rollbackImpl, h.dbapi, dbapiCall_nofault _ _ _ h.nofault, DB.skipsRollback, h.noauto]
  have h2 := act_root_after_cancel h ht c.db.rollback
  have htr : ({ c with db := c.db.rollback } : Conn).cancelNested.transaction = some t := by
    have hch1 : ChainOk ({ c with db := c.db.rollback } : Conn)
        ({ c with db := c.db.rollback } : Conn).nested s.scopes := chain_txns (by rfl) h.chain
    rw [(cancelNested_spec hch1).2.1.transaction]
    show c.transaction = some t
    rw [h.root, ht]
  simp only [Conn.rootCloseImpl, hact, if_true, hri, andThen_ok, andFinally_mk,
    Conn.rootCloseFinally, h2, Bool.true_or, Conn.rootDeactivate]
  have : (({ c with db := c.db.rollback } : Conn).cancelNested.deactivate t).transaction = some t := by
    simp only [Conn.deactivate, Conn.setTxn]; exact htr
  simp only [this, beq_self_eq_true, if_true]
  rfl

theorem sim_rootCommit {c : Conn} {s : Spec} (h : Sim c s) {t : Nat} (ht : s.root = some t) :
    Sim (c.rootCommit t).1 (s.endRoot true) ∧ (c.rootCommit t).2 = .ok := by
  rw [rootCommit_sim h ht]
  refine ⟨?_, rfl⟩
  have := sim_endedRoot h ht c.db.commit s.cur (by simp [DB.commit, h.working]) (by simp [DB.commit, h.working])
    (by simp [DB.commit]) (by simp [DB.commit, h.nofault]) (by simp [DB.commit, h.nolistener])
    (by simp [DB.commit, h.noauto])
  simpa [Spec.endRoot, DB.commit, h.working] using this

theorem sim_rootRollback {c : Conn} {s : Spec} (h : Sim c s) {t : Nat} (ht : s.root = some t)
    (b : Bool) :
    Sim (c.rootCloseImpl t b).1 (s.endRoot false) ∧ (c.rootCloseImpl t b).2 = .ok := by
  rw [rootCloseImpl_sim h ht]
  refine ⟨?_, rfl⟩
  have := sim_endedRoot h ht c.db.rollback s.committed (by simp [DB.rollback, h.committed])
    (by simp [DB.rollback, h.committed])
    (by simp [DB.rollback]) (by simp [DB.rollback, h.nofault]) (by simp [DB.rollback, h.nolistener])
    (by simp [DB.rollback, h.noauto])
  simpa [Spec.endRoot] using this


/-! ### ending the innermost savepoint -/

/-- the innermost savepoint object deactivated and detached -/
def Conn.poppedNested (c : Conn) (n : Nat) : Conn :=
  { c.deactivate n with nested := (c.txn n).prev }

theorem sim_poppedNested {c : Conn} {s : Spec} (h : Sim c s) {t : Nat} (ht : s.root = some t)
    {sc : Scope} {rest : List Scope} (hsc : s.scopes = sc :: rest)
    (db' : DB) (rows : Data)
    (hc : db'.committed = c.db.committed) (hw : db'.raw.working = rows)
    (hsub : (specSaves c rest).Sublist db'.raw.saves) (hso : Sorted db'.raw.saves)
    (hmem : ∀ p ∈ db'.raw.saves, p ∈ c.db.raw.saves)
    (hf : db'.faults = []) (hl : db'.listener = .none) (ha : db'.raw.autocommit = false) :
    Sim (({ c with db := db' } : Conn).poppedNested sc.h)
      { s with cur := rows, scopes := rest } := by
  have hch := h.chain
  rw [hsc] at hch
  have hex : ∃ n, c.nested = some n := by
    cases hcn : c.nested with
    | none => rw [hcn] at hch; simp [ChainOk] at hch
    | some n => exact ⟨n, rfl⟩
  obtain ⟨n, hcn⟩ := hex
  rw [hcn] at hch
  have hch' := hch
  obtain ⟨h1, h2, h3, h4, h5, h6⟩ := hch
  have hne : ∀ x ∈ rest, x.h ≠ n := chain_tail_ne hch'
  have hnt : n ≠ t := by
    intro e
    have := (h.rootOk t ht).2.1
    rw [← e, h3] at this; cases this
  rw [h1]
  have e_txn_ne : ∀ x, n ≠ x → (({ c with db := db' } : Conn).poppedNested n).txn x = c.txn x :=
    fun x hx => deactivate_txn_ne ({ c with db := db' } : Conn) n x hx
  have e_txn_n : (({ c with db := db' } : Conn).poppedNested n).txn n
      = { c.txn n with active := false } :=
    deactivate_txn_eq ({ c with db := db' } : Conn) n h2
  have e_len : (({ c with db := db' } : Conn).poppedNested n).txns.length = c.txns.length := by
    simp [Conn.poppedNested, Conn.deactivate]
  have hsame : ∀ x ∈ rest, (({ c with db := db' } : Conn).poppedNested n).txn x.h = c.txn x.h :=
    fun x hx => e_txn_ne x.h (fun e => hne x hx e.symm)
  refine
    { dbapi := h.dbapi, reconn := h.reconn, nofault := hf, nolistener := hl, noctx := h.noctx,
      noauto := ha, committed := by show db'.committed = s.committed; rw [hc]; exact h.committed,
      working := hw, sorted := hso,
      bound := fun p hp => h.bound p (hmem p hp), kindsLen := ?kindsLen, kindsAt := ?kindsAt,
      root := h.root, rootOk := ?rootOk, rootNone := ?rootNone,
      clean := (fun hh => by rw [show s.root = none from hh] at ht; cases ht),
      savesNone := (fun hh => by rw [show s.root = none from hh] at ht; cases ht),
      chain := ?chain,
      saves := ?saves, others := ?others }
  case kindsLen => rw [e_len]; exact h.kindsLen
  case kindsAt =>
    intro x hx
    rw [e_len] at hx
    have : ((({ c with db := db' } : Conn).poppedNested n).txn x).isRoot = (c.txn x).isRoot :=
      deactivate_isRoot ({ c with db := db' } : Conn) n x
    rw [this]
    exact h.kindsAt x hx
  case rootOk =>
    intro t' ht'
    have ht'' : s.root = some t' := ht'
    have : t' = t := by rw [ht] at ht''; cases ht''; rfl
    subst this
    obtain ⟨a, b, d⟩ := h.rootOk t' ht''
    rw [e_len, e_txn_ne t' hnt]
    exact ⟨a, b, d⟩
  case rootNone =>
    intro hh
    have : s.root = none := hh
    rw [ht] at this; cases this
  case chain =>
    show ChainOk _ (c.txn n).prev rest
    exact chain_frame (by rw [e_len]; exact Nat.le_refl _) hsame h6
  case saves =>
    show (specSaves _ rest).Sublist db'.raw.saves
    rw [specSaves_frame hsame]
    exact hsub
  case others =>
    intro x hx hne' hsc'
    rw [e_len] at hx
    have hne'' : s.root ≠ some x := hne'
    by_cases hxn : n = x
    · subst hxn
      rw [e_txn_n]
    · rw [e_txn_ne x hxn]
      refine h.others x hx hne'' ?_
      intro y hy
      rw [hsc] at hy
      rcases List.mem_cons.1 hy with rfl | hy
      · rw [h1]; exact hxn
      · exact hsc' y hy


theorem nestedDeactivate_pop (c : Conn) (n : Nat) (w : Bool) (hn : c.nested = some n)
    (hlt : n < c.txns.length) : (c.deactivate n).nestedDeactivate n w = c.poppedNested n := by
  have e1 : (c.deactivate n).nested = some n := by
    simp only [Conn.deactivate, Conn.setTxn]; exact hn
  have e2 : ((c.deactivate n).txn n).prev = (c.txn n).prev := by
    rw [deactivate_txn_eq c n hlt]
  simp only [Conn.nestedDeactivate, e1, beq_self_eq_true, if_true, e2]
  rfl

/-- facts about the innermost scope of a simulated state -/
theorem sim_innermost {c : Conn} {s : Spec} (h : Sim c s)
    {sc : Scope} {rest : List Scope} (hsc : s.scopes = sc :: rest) :
    c.nested = some sc.h ∧ sc.h < c.txns.length ∧ (c.txn sc.h).isRoot = false ∧
    c.act sc.h = true ∧
    ∃ tail, dropTo (c.txn sc.h).sp c.db.raw.saves = some (((c.txn sc.h).sp, sc.snap) :: tail) ∧
      (specSaves c rest).Sublist tail ∧ Sorted (((c.txn sc.h).sp, sc.snap) :: tail) ∧
      (∀ p ∈ tail, p ∈ c.db.raw.saves) ∧ ((c.txn sc.h).sp, sc.snap) ∈ c.db.raw.saves := by
  have hch := h.chain
  rw [hsc] at hch
  have hex : ∃ n, c.nested = some n := by
    cases hcn : c.nested with
    | none => rw [hcn] at hch; simp [ChainOk] at hch
    | some n => exact ⟨n, rfl⟩
  obtain ⟨n, hcn⟩ := hex
  rw [hcn] at hch
  obtain ⟨h1, h2, h3, h4, _, _⟩ := hch
  have hsv := h.saves
  rw [hsc] at hsv
  have hsv' : (((c.txn sc.h).sp, sc.snap) :: specSaves c rest).Sublist c.db.raw.saves := hsv
  obtain ⟨tail, t1, t2, t3, t4⟩ := dropTo_of_sublist h.sorted hsv'
  refine ⟨by rw [hcn, h1], by rw [h1]; exact h2, by rw [h1]; exact h3, by rw [h1]; exact h4,
    tail, t1, t2, t3, t4, hsv'.subset List.mem_cons_self⟩

theorem sim_inTransaction {c : Conn} {s : Spec} (h : Sim c s) {t : Nat} (ht : s.root = some t) :
    c.inTransaction = true := by
  have := (h.rootOk t ht).2.2
  simp [Conn.inTransaction, h.root, ht, Conn.act, this]

theorem sim_nestedRollback {c : Conn} {s : Spec} (h : Sim c s) {t : Nat} (ht : s.root = some t)
    {sc : Scope} {rest : List Scope} (hsc : s.scopes = sc :: rest) (w : Bool) :
    Sim (c.nestedCloseImpl sc.h w).1 { s with cur := sc.snap, scopes := rest } ∧
      (c.nestedCloseImpl sc.h w).2 = .ok := by
  obtain ⟨hn, hlt, _, hact, tail, t1, t2, t3, t4, t5⟩ := sim_innermost h hsc
  let raw' : Raw := { c.db.raw with working := sc.snap, saves := ((c.txn sc.h).sp, sc.snap) :: tail }
  let db' : DB := { c.db with raw := raw' }
  have happ : c.db.apply (.rollbackTo (c.txn sc.h).sp) = (some db', .ok) := by
    simp [DB.apply, Raw.rollbackTo, t1, db', raw']
  have hex : c.execute (.rollbackTo (c.txn sc.h).sp) = ({ c with db := db' }, .ok) := by
    rw [execute_sim_root h ht, happ]
  have hres : c.nestedCloseImpl sc.h w = (({ c with db := db' } : Conn).poppedNested sc.h, .ok) := by
    have hcond : (c.act sc.h && c.inTransaction && c.hasDbapi) = true := by
      simp [hact, sim_inTransaction h ht, h.dbapi]
    simp only [Conn.nestedCloseImpl, hcond, if_true, hex, andFinally_mk]
    rw [nestedDeactivate_pop ({ c with db := db' } : Conn) sc.h w hn hlt]
  rw [hres]
  refine ⟨?_, rfl⟩
  exact sim_poppedNested h ht hsc db' sc.snap rfl rfl
    (t2.trans (List.sublist_cons_self _ _)) t3
    (fun p hp => by
      rcases List.mem_cons.1 hp with rfl | hp
      · exact t5
      · exact t4 p hp)
    h.nofault h.nolistener h.noauto

theorem sim_nestedCommit {c : Conn} {s : Spec} (h : Sim c s) {t : Nat} (ht : s.root = some t)
    {sc : Scope} {rest : List Scope} (hsc : s.scopes = sc :: rest) :
    Sim (c.nestedCommit sc.h).1 { s with scopes := rest } ∧ (c.nestedCommit sc.h).2 = .ok := by
  obtain ⟨hn, hlt, _, hact, tail, t1, t2, t3, t4, _⟩ := sim_innermost h hsc
  let db' : DB := { c.db with raw := { c.db.raw with saves := tail } }
  have happ : c.db.apply (.release (c.txn sc.h).sp) = (some db', .ok) := by
    simp [DB.apply, Raw.release, t1, db', h.noauto]
  have hex : c.execute (.release (c.txn sc.h).sp) = ({ c with db := db' }, .ok) := by
    rw [execute_sim_root h ht, happ]
  have hres : c.nestedCommit sc.h = (({ c with db := db' } : Conn).poppedNested sc.h, .ok) := by
    simp only [Conn.nestedCommit, hact, if_true, hex, andFinally_mk, andThen_ok]
    rw [nestedDeactivate_pop ({ c with db := db' } : Conn) sc.h true hn hlt]
  rw [hres]
  refine ⟨?_, rfl⟩
  have := sim_poppedNested h ht hsc db' s.cur rfl h.working t2 (List.pairwise_cons.1 t3).2
    t4 h.nofault h.nolistener h.noauto
  exact this


/-! ### operations on ended handles -/

theorem sim_frame {c c' : Conn} {s : Spec} (h : Sim c s)
    (hlen : c'.txns.length = c.txns.length) (htx : ∀ x, c'.txn x = c.txn x)
    (h1 : c'.transaction = c.transaction) (h2 : c'.nested = c.nested) (h3 : c'.spSeq = c.spSeq)
    (h4 : c'.ctxMgr = c.ctxMgr) (h5 : c'.hasDbapi = c.hasDbapi)
    (h6 : c'.canReconnect = c.canReconnect) (h7 : c'.db = c.db) : Sim c' s :=
  { dbapi := by rw [h5]; exact h.dbapi, reconn := by rw [h6]; exact h.reconn,
    nofault := by rw [h7]; exact h.nofault, nolistener := by rw [h7]; exact h.nolistener,
    noctx := by rw [h4]; exact h.noctx,
    noauto := by rw [h7]; exact h.noauto, committed := by rw [h7]; exact h.committed,
    working := by rw [h7]; exact h.working, sorted := by rw [h7]; exact h.sorted,
    bound := by rw [h7, h3]; exact h.bound, kindsLen := by rw [hlen]; exact h.kindsLen,
    kindsAt := by intro x hx; rw [hlen] at hx; rw [htx]; exact h.kindsAt x hx,
    root := by rw [h1]; exact h.root,
    rootOk := by intro t ht; rw [hlen, htx]; exact h.rootOk t ht,
    rootNone := h.rootNone, clean := h.clean, savesNone := (by rw [h7]; exact h.savesNone),
    chain := by rw [h2]; exact chain_frame (by rw [hlen]; exact Nat.le_refl _) (fun _ _ => htx _) h.chain,
    saves := by rw [h7, specSaves_frame (fun _ _ => htx _)]; exact h.saves,
    others := by intro x hx; rw [hlen] at hx; rw [htx]; exact h.others x hx }

theorem sim_warn {c : Conn} {s : Spec} (h : Sim c s) : Sim c.warn s :=
  sim_frame h rfl (fun _ => rfl) rfl rfl rfl rfl rfl rfl rfl

theorem deactivate_txn_inactive (c : Conn) (h : Nat) (hi : (c.txn h).active = false) (x : Nat) :
    (c.deactivate h).txn x = c.txn x := by
  by_cases e : h = x
  · subst e
    by_cases hh : h < c.txns.length
    · rw [deactivate_txn_eq _ _ hh]
      cases ht : c.txn h with
      | mk a b d e f g =>
        rw [ht] at hi
        simp only at hi
        subst hi
        rfl
    · simp [Conn.deactivate, Conn.setTxn, Conn.txn, List.getD_eq_getElem?_getD]
      have : c.txns[h]? = none := by simp; omega
      simp [this]
  · exact deactivate_txn_ne _ _ _ e

theorem sim_deactivate_inactive {c : Conn} {s : Spec} (h : Sim c s) (x : Nat)
    (hi : (c.txn x).active = false) : Sim (c.deactivate x) s :=
  sim_frame h (by simp [Conn.deactivate]) (deactivate_txn_inactive c x hi) rfl rfl rfl rfl rfl rfl rfl

theorem isEnded_inactive {c : Conn} {s : Spec} (h : Sim c s) {x : Nat} (he : s.isEnded x = true) :
    x < c.txns.length ∧ s.root ≠ some x ∧ (∀ sc ∈ s.scopes, sc.h ≠ x) ∧ (c.txn x).active = false := by
  simp only [Spec.isEnded, Bool.and_eq_true, decide_eq_true_eq, bne_iff_ne, ne_eq,
    Bool.not_eq_true', List.any_eq_false, beq_iff_eq] at he
  obtain ⟨⟨a, b⟩, d⟩ := he
  have a' : x < c.txns.length := by rw [← h.kindsLen]; exact a
  exact ⟨a', b, fun sc hsc => d sc hsc, h.others x a' b (fun sc hsc => d sc hsc)⟩

theorem sim_nested_ne {c : Conn} {s : Spec} (h : Sim c s) {x : Nat}
    (hx : ∀ sc ∈ s.scopes, sc.h ≠ x) : c.nested ≠ some x := by
  intro e
  have hch := h.chain
  rw [e] at hch
  cases hs : s.scopes with
  | nil => rw [hs] at hch; simp [ChainOk] at hch
  | cons sc rest =>
    rw [hs] at hch
    exact hx sc (by rw [hs]; exact List.mem_cons_self) hch.1

theorem sim_ended_commit {c : Conn} {s : Spec} (h : Sim c s) {x : Nat} (he : s.isEnded x = true) :
    c.tCommit x = (c, .invalidRequest) := by
  obtain ⟨_, b, d, e⟩ := isEnded_inactive h he
  have hact : c.act x = false := e
  have h1 : (c.transaction == some x) = false := by
    rw [h.root]; simpa using b
  have h2 : (c.nested == some x) = false := by
    have := sim_nested_ne h d; simpa using this
  cases hr : (c.txn x).isRoot <;>
    simp [Conn.tCommit, hr, Conn.rootCommit, Conn.nestedCommit, hact, h1, h2]

theorem sim_ended_nested_rollback {c : Conn} {s : Spec} (h : Sim c s) {x : Nat}
    (he : s.isEnded x = true) (hr : (c.txn x).isRoot = false) (w : Bool) :
    Sim (c.nestedCloseImpl x w).1 s ∧ (c.nestedCloseImpl x w).2 = .ok := by
  obtain ⟨_, _, d, e⟩ := isEnded_inactive h he
  have hact : c.act x = false := e
  have h2 : ((c.deactivate x).nested == some x) = false := by
    have := sim_nested_ne h d
    simp only [Conn.deactivate, Conn.setTxn]; simpa using this
  have hd := sim_deactivate_inactive h x e
  simp only [Conn.nestedCloseImpl, hact, Bool.false_and, Bool.false_eq_true, if_false,
    andFinally_mk, Conn.nestedDeactivate, h2]
  cases w
  · exact ⟨hd, trivial⟩
  · exact ⟨sim_warn hd, trivial⟩

theorem sim_ended_root_rollback {c : Conn} {s : Spec} (h : Sim c s) {x : Nat}
    (he : s.isEnded x = true) (hsc : s.scopes = []) (b : Bool) :
    Sim (c.rootCloseImpl x b).1 s ∧ (c.rootCloseImpl x b).2 = .ok := by
  obtain ⟨_, hb, _, e⟩ := isEnded_inactive h he
  have hact : c.act x = false := e
  have hn : c.nested = none := by
    have := h.chain; rw [hsc] at this; exact chain_nil this
  have h1 : (c.transaction == some x) = false := by
    rw [h.root]; simpa using hb
  have hcn : c.cancelNested = c := by simp [Conn.cancelNested, hn]
  cases b
  · simp only [Conn.rootCloseImpl, hact, Bool.false_eq_true, if_false, andThen_ok, hcn,
      andFinally_mk, Conn.rootCloseFinally, Bool.or_self, h1]
    exact ⟨h, trivial⟩
  · have hne : (c.transaction != some x) = true := by simp [bne, h1]
    have h1' : (c.warn.transaction == some x) = false := h1
    simp only [Conn.rootCloseImpl, hact, Bool.false_eq_true, if_false, andThen_ok, hcn,
      andFinally_mk, Conn.rootCloseFinally, Bool.or_true, if_true, Conn.rootDeactivate, hne, h1']
    exact ⟨sim_warn h, trivial⟩


/-! ### one step of the specification is matched by one step of the model -/

theorem sim_root_isRoot {c : Conn} {s : Spec} (h : Sim c s) {t : Nat} (ht : s.root = some t) :
    (c.txn t).isRoot = true := (h.rootOk t ht).2.1

theorem sim_handleCommit {c : Conn} {s : Spec} (h : Sim c s) (x : Nat) (s' : Spec) (r : Res)
    (hs : s.handleCommit x = some (s', r)) :
    Sim (c.tCommit x).1 s' ∧ (c.tCommit x).2 = r := by
  unfold Spec.handleCommit at hs
  by_cases hrx : s.root = some x
  · simp only [hrx, beq_self_eq_true, if_true, Option.some.injEq, Prod.mk.injEq] at hs
    obtain ⟨rfl, rfl⟩ := hs
    simp only [Conn.tCommit, sim_root_isRoot h hrx, if_true]
    exact sim_rootCommit h hrx
  · have hrx' : (s.root == some x) = false := by simpa using hrx
    simp only [hrx', Bool.false_eq_true, if_false] at hs
    cases hsc : s.scopes with
    | nil =>
      simp only [hsc] at hs
      by_cases he : s.isEnded x = true
      · simp only [he, if_true, Option.some.injEq, Prod.mk.injEq] at hs
        obtain ⟨rfl, rfl⟩ := hs
        rw [sim_ended_commit h he]
        exact ⟨h, rfl⟩
      · simp [he] at hs
    | cons sc rest =>
      simp only [hsc] at hs
      by_cases hx : sc.h = x
      · simp only [hx, beq_self_eq_true, if_true, Option.some.injEq, Prod.mk.injEq] at hs
        obtain ⟨rfl, rfl⟩ := hs
        obtain ⟨t, ht⟩ : ∃ t, s.root = some t := by
          cases hr : s.root with
          | none => have := h.rootNone hr; rw [hsc] at this; cases this
          | some t => exact ⟨t, rfl⟩
        obtain ⟨_, _, hnr, _⟩ := sim_innermost h hsc
        have := sim_nestedCommit h ht hsc
        rw [hx] at this hnr
        simp only [Conn.tCommit, hnr, Bool.false_eq_true, if_false]
        exact this
      · have hx' : (sc.h == x) = false := by simpa using hx
        simp only [hx', Bool.false_eq_true, if_false] at hs
        by_cases hany : rest.any (fun y => y.h == x) = true
        · simp [hany] at hs
        · simp only [hany, Bool.false_eq_true, if_false] at hs
          by_cases he : s.isEnded x = true
          · simp only [he, if_true, Option.some.injEq, Prod.mk.injEq] at hs
            obtain ⟨rfl, rfl⟩ := hs
            rw [sim_ended_commit h he]
            exact ⟨h, rfl⟩
          · simp [he] at hs

theorem sim_handleRollback {c : Conn} {s : Spec} (h : Sim c s) (x : Nat) (s' : Spec) (r : Res)
    (hs : s.handleRollback x = some (s', r)) (b : Bool) :
    Sim (if (c.txn x).isRoot then c.rootCloseImpl x b else c.nestedCloseImpl x b).1 s' ∧
      (if (c.txn x).isRoot then c.rootCloseImpl x b else c.nestedCloseImpl x b).2 = r := by
  unfold Spec.handleRollback at hs
  by_cases hrx : s.root = some x
  · simp only [hrx, beq_self_eq_true, if_true, Option.some.injEq, Prod.mk.injEq] at hs
    obtain ⟨rfl, rfl⟩ := hs
    simp only [sim_root_isRoot h hrx, if_true]
    exact sim_rootRollback h hrx b
  · have hrx' : (s.root == some x) = false := by simpa using hrx
    simp only [hrx', Bool.false_eq_true, if_false] at hs
    cases hsc : s.scopes with
    | nil =>
      simp only [hsc] at hs
      by_cases he : s.isEnded x = true
      · simp only [he, if_true, Option.some.injEq, Prod.mk.injEq] at hs
        obtain ⟨rfl, rfl⟩ := hs
        cases hr : (c.txn x).isRoot
        · simp only [Bool.false_eq_true, if_false]
          exact sim_ended_nested_rollback h he hr b
        · simp only [if_true]
          exact sim_ended_root_rollback h he hsc b
      · simp [he] at hs
    | cons sc rest =>
      simp only [hsc] at hs
      by_cases hx : sc.h = x
      · simp only [hx, beq_self_eq_true, if_true, Option.some.injEq, Prod.mk.injEq] at hs
        obtain ⟨rfl, rfl⟩ := hs
        obtain ⟨t, ht⟩ : ∃ t, s.root = some t := by
          cases hr : s.root with
          | none => have := h.rootNone hr; rw [hsc] at this; cases this
          | some t => exact ⟨t, rfl⟩
        obtain ⟨_, _, hnr, _⟩ := sim_innermost h hsc
        have := sim_nestedRollback h ht hsc b
        rw [hx] at this hnr
        simp only [hnr, Bool.false_eq_true, if_false]
        exact this
      · have hx' : (sc.h == x) = false := by simpa using hx
        simp only [hx', Bool.false_eq_true, if_false] at hs
        by_cases hany : rest.any (fun y => y.h == x) = true
        · simp [hany] at hs
        · simp only [hany, Bool.false_eq_true, if_false] at hs
          cases he1 : s.isEnded x with
          | false =>
            simp only [he1, Bool.false_and, Bool.false_eq_true, if_false] at hs
            cases hs
          | true =>
            cases he2 : s.kinds.getD x false with
            | true =>
              simp only [he1, he2, Bool.not_true, Bool.and_false, Bool.false_eq_true, if_false] at hs
              cases hs
            | false =>
              simp only [he1, he2, Bool.not_false, Bool.and_self, if_true, Option.some.injEq,
                Prod.mk.injEq] at hs
              obtain ⟨rfl, rfl⟩ := hs
              have hlt := (isEnded_inactive h he1).1
              have hr : (c.txn x).isRoot = false := by rw [← h.kindsAt x hlt]; exact he2
              simp only [hr, Bool.false_eq_true, if_false]
              exact sim_ended_nested_rollback h he1 hr b

theorem step_sim {c : Conn} {s : Spec} (h : Sim c s) (op : Op) (s' : Spec) (r : Res)
    (hs : s.step op = some (s', r)) : Sim (c.step op).1 s' ∧ (c.step op).2 = r := by
  cases op with
  | begin =>
    simp only [Spec.step] at hs
    cases hr : s.root with
    | none =>
      simp only [hr, Option.isNone_none, if_true, Option.some.injEq, Prod.mk.injEq] at hs
      obtain ⟨rfl, rfl⟩ := hs
      have : c.begin = c.autobegin := by simp [Conn.autobegin, h.root, hr]
      simp only [Conn.step, this]
      exact sim_autobegin h
    | some t =>
      simp only [hr, Option.isNone_some, Bool.false_eq_true, if_false, Option.some.injEq,
        Prod.mk.injEq] at hs
      obtain ⟨rfl, rfl⟩ := hs
      have : c.begin = (c, .invalidRequest) := by simp [Conn.begin, h.root, hr]
      simp only [Conn.step, this]
      exact ⟨h, trivial⟩
  | beginNested =>
    obtain ⟨s2, e, h2, r2⟩ := sim_beginNested h
    rw [e] at hs
    simp only [Option.some.injEq, Prod.mk.injEq] at hs
    obtain ⟨rfl, rfl⟩ := hs
    exact ⟨h2, r2⟩
  | exec st =>
    obtain ⟨s2, r2, e, h2, hr2⟩ := sim_exec h st
    rw [e] at hs
    simp only [Option.some.injEq, Prod.mk.injEq] at hs
    obtain ⟨rfl, rfl⟩ := hs
    exact ⟨h2, hr2⟩
  | commit =>
    simp only [Spec.step] at hs
    cases hr : s.root with
    | none =>
      simp only [hr, Option.isSome_none, Bool.false_eq_true, if_false, Option.some.injEq,
        Prod.mk.injEq] at hs
      obtain ⟨rfl, rfl⟩ := hs
      have : c.commit = (c, .ok) := by simp [Conn.commit, h.root, hr]
      simp only [Conn.step, this]
      exact ⟨h, trivial⟩
    | some t =>
      simp only [hr, Option.isSome_some, if_true, Option.some.injEq, Prod.mk.injEq] at hs
      obtain ⟨rfl, rfl⟩ := hs
      have : c.commit = c.rootCommit t := by
        simp [Conn.commit, h.root, hr, Conn.tCommit, sim_root_isRoot h hr]
      simp only [Conn.step, this]
      exact sim_rootCommit h hr
  | rollback =>
    simp only [Spec.step] at hs
    cases hr : s.root with
    | none =>
      simp only [hr, Option.isSome_none, Bool.false_eq_true, if_false, Option.some.injEq,
        Prod.mk.injEq] at hs
      obtain ⟨rfl, rfl⟩ := hs
      have : c.rollback = (c, .ok) := by simp [Conn.rollback, h.root, hr]
      simp only [Conn.step, this]
      exact ⟨h, trivial⟩
    | some t =>
      simp only [hr, Option.isSome_some, if_true, Option.some.injEq, Prod.mk.injEq] at hs
      obtain ⟨rfl, rfl⟩ := hs
      have : c.rollback = c.rootCloseImpl t true := by
        simp [Conn.rollback, h.root, hr, Conn.tRollback, sim_root_isRoot h hr]
      simp only [Conn.step, this]
      exact sim_rootRollback h hr true
  | tCommit x => exact sim_handleCommit h x s' r hs
  | tRollback x => exact sim_handleRollback h x s' r hs true
  | tClose x => exact sim_handleRollback h x s' r hs false
  | close => simp [Spec.step] at hs
  | enter x => simp [Spec.step] at hs
  | exitOk x => simp [Spec.step] at hs
  | exitExc x => simp [Spec.step] at hs
  | invalidate => simp [Spec.step] at hs
  | arm p k => simp [Spec.step] at hs
  | disarm => simp [Spec.step] at hs
  | warm n => simp [Spec.step] at hs
  | connect => simp [Spec.step] at hs
  | gc => simp [Spec.step] at hs
  | autocommit => simp [Spec.step] at hs
  | readUnc => simp [Spec.step] at hs
  | logToken => simp [Spec.step] at hs
  | otherOpt => simp [Spec.step] at hs
  | tokenAuto => simp [Spec.step] at hs

end SaVerif.Txn
