import SaVerif.Model.Naming
import SaVerif.Lemmas.Literal
/-! Helper lemmas about M-STR / generated names (core Lean only). -/
namespace SaVerif.Naming
open SaVerif.Ident

/-! ## hexadecimal rendering -/

def hexDigitVal (c : Nat) : Nat := if c < 58 then c - 48 else c - 87
def hexVal (l : Str) : Nat := l.foldl (fun a c => a * 16 + hexDigitVal c) 0

theorem hexDigitVal_hexDigit (d : Nat) (h : d < 16) : hexDigitVal (hexDigit d) = d := by
  unfold hexDigit hexDigitVal
  by_cases h10 : d < 10
  · have : 48 + d < 58 := by omega
    simp [h10, this]
  · have : ¬ (87 + d < 58) := by omega
    simp [h10, this]

theorem hexVal_snoc (ds : Str) (x : Nat) : hexVal (ds ++ [x]) = hexVal ds * 16 + hexDigitVal x := by
  simp [hexVal, List.foldl_append]

theorem hexAux_spec : ∀ (f n : Nat) (acc : Str) (k : Nat), 1 ≤ f → n < 16 ^ f → n < 16 ^ k → 1 ≤ k →
    ∃ ds, hexAux f n acc = ds ++ acc ∧ 1 ≤ ds.length ∧ ds.length ≤ k ∧ hexVal ds = n := by
  intro f
  induction f with
  | zero => intro n acc k h; omega
  | succ g ih =>
    intro n acc k _ hf hk hk1
    by_cases hlt : n < 16
    · refine ⟨[hexDigit n], by simp [hexAux, hlt], by simp, by simp; omega, ?_⟩
      simp [hexVal, hexDigitVal_hexDigit n hlt]
    · have hg : n / 16 < 16 ^ g := by
        rw [Nat.pow_succ] at hf
        exact Nat.div_lt_of_lt_mul (by omega)
      have hk2 : 2 ≤ k := by
        cases k with
        | zero => omega
        | succ k' =>
          cases k' with
          | zero => simp at hk; omega
          | succ _ => omega
      have hkd : n / 16 < 16 ^ (k - 1) := by
        have : 16 ^ k = 16 ^ (k - 1) * 16 := by
          rw [← Nat.pow_succ]; congr 1; omega
        rw [this] at hk
        exact Nat.div_lt_of_lt_mul (by omega)
      have hg1 : 1 ≤ g := by
        cases g with
        | zero => simp at hg; omega
        | succ _ => omega
      obtain ⟨ds, h1, h2, h3, h4⟩ := ih (n / 16) (hexDigit (n % 16) :: acc) (k - 1) hg1 hg hkd (by omega)
      refine ⟨ds ++ [hexDigit (n % 16)], by simp [hexAux, hlt, h1], by simp, by simp; omega, ?_⟩
      rw [hexVal_snoc, h4, hexDigitVal_hexDigit _ (Nat.mod_lt n (by omega))]
      have := Nat.div_add_mod n 16
      omega

theorem lt_pow16_succ (n : Nat) : n < 16 ^ (n + 1) := by
  have h1 : n < 16 ^ n := Nat.lt_pow_self (by omega)
  have h2 : 16 ^ n ≤ 16 ^ (n + 1) := Nat.pow_le_pow_right (by omega) (by omega)
  omega

theorem hexStr_val (n : Nat) : hexVal (hexStr n) = n ∧ 1 ≤ (hexStr n).length := by
  obtain ⟨ds, h1, h2, _, h4⟩ := hexAux_spec (n + 1) n [] (n + 1) (by omega) (lt_pow16_succ n) (lt_pow16_succ n) (by omega)
  simp only [List.append_nil] at h1
  unfold hexStr
  rw [h1]; exact ⟨h4, h2⟩

theorem hexStr_len (n k : Nat) (h : n < 16 ^ k) (hk : 1 ≤ k) : (hexStr n).length ≤ k := by
  obtain ⟨ds, h1, _, h3, _⟩ := hexAux_spec (n + 1) n [] k (by omega) (lt_pow16_succ n) h hk
  simp only [List.append_nil] at h1
  unfold hexStr
  rw [h1]; exact h3

theorem hexStr_inj (a b : Nat) (h : hexStr a = hexStr b) : a = b := by
  have := (hexStr_val a).1
  rw [h, (hexStr_val b).1] at this
  exact this.symm

/-! ## `_truncate_and_render_maxlen_name` -/

theorem last4_len (s : Str) (h : 4 ≤ s.length) : (last4 s).length = 4 := by
  simp [last4]; omega

/-! ## `_truncated_identifier` -/

/-- the suffix form of a truncated name -/
def truncForm (L : Nat) (name : Str) (k : Nat) : Str := name.take (L - 6) ++ 95 :: hexStr k

/-- every memo entry has one of the two shapes, counters bound the suffixes used -/
def Shape (L : Nat) (st : TState) : Prop :=
  ∀ c n r, st.names.lookup (c, n) = some r →
    (r = n ∧ ¬ ((n.length : Int) > (L : Int) - 6)) ∨
    ((n.length : Int) > (L : Int) - 6 ∧ ∃ k, 1 ≤ k ∧ k < getCounter st c ∧ r = truncForm L n k)

/-- within a class, results determine names -/
def Inj (st : TState) : Prop :=
  ∀ c n1 n2 r, st.names.lookup (c, n1) = some r → st.names.lookup (c, n2) = some r → n1 = n2

theorem truncForm_len (L : Nat) (n : Str) (k : Nat) (h : (n.length : Int) > (L : Int) - 6) :
    (truncForm L n k).length = (L - 6) + 1 + (hexStr k).length ∧ (n.take (L - 6)).length = L - 6 := by
  have : L - 6 ≤ n.length := by omega
  simp [truncForm, List.length_take, Nat.min_eq_left this]; omega

theorem truncForm_inj (L : Nat) (n1 n2 : Str) (k1 k2 : Nat)
    (h1 : (n1.length : Int) > (L : Int) - 6) (h2 : (n2.length : Int) > (L : Int) - 6)
    (h : truncForm L n1 k1 = truncForm L n2 k2) : k1 = k2 := by
  have l1 := (truncForm_len L n1 k1 h1).2
  have l2 := (truncForm_len L n2 k2 h2).2
  unfold truncForm at h
  have := List.append_inj h (by rw [l1, l2])
  have h3 := this.2
  simp only [List.cons.injEq, true_and] at h3
  exact hexStr_inj _ _ h3

theorem getCounter_cons_self (st : TState) (c v : Nat) (nm : List ((Nat × Str) × Str)) :
    getCounter { names := nm, counters := (c, v) :: st.counters } c = v := by
  simp [getCounter, List.lookup_cons]

theorem getCounter_cons_ne (st : TState) (c c' v : Nat) (nm : List ((Nat × Str) × Str)) (h : c' ≠ c) :
    getCounter { names := nm, counters := (c, v) :: st.counters } c' = getCounter st c' := by
  have : (c' == c) = false := by simpa using h
  simp [getCounter, List.lookup_cons, this]


def Pos (st : TState) : Prop := ∀ c, 1 ≤ getCounter st c
def Ext (st st' : TState) : Prop := ∀ k r, st.names.lookup k = some r → st'.names.lookup k = some r

theorem pos_empty : Pos TState.empty := by intro c; simp [getCounter, TState.empty]
theorem shape_empty (L : Nat) : Shape L TState.empty := by intro c n r h; simp [TState.empty] at h
theorem inj_empty : Inj TState.empty := by intro c n1 n2 r h; simp [TState.empty] at h

theorem lookup_cons_key {β : Type} (k k' : Nat × Str) (v : β) (l : List ((Nat × Str) × β)) :
    ((k', v) :: l).lookup k = if k = k' then some v else l.lookup k := by
  simp only [List.lookup_cons]
  by_cases h : k = k'
  · simp [h]
  · have : (k == k') = false := by simpa using h
    simp [this, h]

/-- an untruncated name is shorter than any truncated form -/
theorem untrunc_ne_trunc (L : Nat) (n n2 : Str) (k : Nat)
    (h1 : ¬ ((n.length : Int) > (L : Int) - 6)) (h2 : (n2.length : Int) > (L : Int) - 6) :
    n ≠ truncForm L n2 k := by
  intro e
  have hl := (truncForm_len L n2 k h2).1
  rw [← e] at hl
  omega

theorem step_spec (L : Nat) (st : TState) (hS : Shape L st) (hI : Inj st) (hP : Pos st)
    (cls : Nat) (name : Str) :
    Shape L (truncIdent L st cls name).2 ∧ Inj (truncIdent L st cls name).2 ∧
    Pos (truncIdent L st cls name).2 ∧ Ext st (truncIdent L st cls name).2 ∧
    (truncIdent L st cls name).2.names.lookup (cls, name) = some (truncIdent L st cls name).1 ∧
    (∀ c, getCounter (truncIdent L st cls name).2 c ≤ getCounter st c + 1) := by
  unfold truncIdent
  cases hl : st.names.lookup (cls, name) with
  | some r =>
    simp only
    exact ⟨hS, hI, hP, fun _ _ h => h, hl, fun c => by omega⟩
  | none =>
    simp only
    by_cases ht : (name.length : Int) > (L : Int) - 6
    · simp only [ht, if_true]
      have hfresh : ∀ (nm : List ((Nat × Str) × Str)) (c : Nat), getCounter
          { names := nm, counters := (cls, getCounter st cls + 1) :: st.counters } c
          = if c = cls then getCounter st cls + 1 else getCounter st c := by
        intro nm c
        by_cases hc : c = cls
        · subst hc; simp [getCounter, List.lookup_cons]
        · have : (c == cls) = false := by simpa using hc
          simp [getCounter, List.lookup_cons, this, hc]
      refine ⟨?_, ?_, ?_, ?_, ?_, ?_⟩
      · intro c n r h
        rw [lookup_cons_key] at h
        split at h
        · rename_i heq
          cases heq; cases h
          refine Or.inr ⟨ht, getCounter st cls, hP cls, ?_, rfl⟩
          rw [hfresh]; simp
        · rcases hS c n r h with h1 | ⟨h1, k, hk1, hk2, hk3⟩
          · exact Or.inl h1
          · refine Or.inr ⟨h1, k, hk1, ?_, hk3⟩
            rw [hfresh]
            split
            · rename_i hc; subst hc; omega
            · exact hk2
      · intro c n1 n2 r h1 h2
        rw [lookup_cons_key] at h1 h2
        split at h1 <;> split at h2
        · rename_i e1 e2; cases e1; cases e2; rfl
        · rename_i e1 _
          cases e1; cases h1
          rcases hS cls n2 _ h2 with ⟨e, hn⟩ | ⟨hn, k, _, hk2, hk3⟩
          · exact absurd e.symm (untrunc_ne_trunc L n2 name _ hn ht)
          · have := truncForm_inj L name n2 _ _ ht hn hk3
            omega
        · rename_i _ e2
          cases e2; cases h2
          rcases hS cls n1 _ h1 with ⟨e, hn⟩ | ⟨hn, k, _, hk2, hk3⟩
          · exact absurd e.symm (untrunc_ne_trunc L n1 name _ hn ht)
          · have := truncForm_inj L name n1 _ _ ht hn hk3
            omega
        · exact hI c n1 n2 r h1 h2
      · intro c; rw [hfresh]; split
        · omega
        · exact hP c
      · intro k r h
        rw [lookup_cons_key]
        split
        · rename_i e; subst e; rw [hl] at h; cases h
        · exact h
      · rw [lookup_cons_key]; simp [truncForm]
      · intro c; rw [hfresh]; split
        · rename_i hc; subst hc; omega
        · omega
    · simp only [ht, if_false]
      have hcnt : ∀ c, getCounter { st with names := ((cls, name), name) :: st.names } c = getCounter st c := by
        intro c; rfl
      refine ⟨?_, ?_, ?_, ?_, ?_, ?_⟩
      · intro c n r h
        rw [lookup_cons_key] at h
        split at h
        · rename_i heq; cases heq; cases h; exact Or.inl ⟨rfl, ht⟩
        · rcases hS c n r h with h1 | ⟨h1, k, hk1, hk2, hk3⟩
          · exact Or.inl h1
          · exact Or.inr ⟨h1, k, hk1, by rw [hcnt]; exact hk2, hk3⟩
      · intro c n1 n2 r h1 h2
        rw [lookup_cons_key] at h1 h2
        split at h1 <;> split at h2
        · rename_i e1 e2; cases e1; cases e2; rfl
        · rename_i e1 _
          cases e1; cases h1
          rcases hS cls n2 _ h2 with ⟨e, _⟩ | ⟨hn, k, _, _, hk3⟩
          · exact e
          · exact absurd hk3 (untrunc_ne_trunc L name n2 k ht hn)
        · rename_i _ e2
          cases e2; cases h2
          rcases hS cls n1 _ h1 with ⟨e, _⟩ | ⟨hn, k, _, _, hk3⟩
          · exact e.symm
          · exact absurd hk3 (untrunc_ne_trunc L name n1 k ht hn)
        · exact hI c n1 n2 r h1 h2
      · intro c; rw [hcnt]; exact hP c
      · intro k r h
        rw [lookup_cons_key]
        split
        · rename_i e; subst e; rw [hl] at h; cases h
        · exact h
      · rw [lookup_cons_key]; simp
      · intro c; rw [hcnt]; omega

/-- the whole run: every request is served from the final memo -/
theorem run_spec (L : Nat) : ∀ (reqs : List (Nat × Str)) (st : TState), Shape L st → Inj st → Pos st →
    (runIdents L st reqs).length = reqs.length ∧
    ∃ st', Shape L st' ∧ Inj st' ∧ Pos st' ∧ Ext st st' ∧
      (∀ c, getCounter st' c ≤ getCounter st c + reqs.length) ∧
      ∀ (i : Nat) q r, reqs[i]? = some q → (runIdents L st reqs)[i]? = some r →
        st'.names.lookup q = some r := by
  intro reqs
  induction reqs with
  | nil =>
    intro st hS hI hP
    refine ⟨rfl, st, hS, hI, hP, fun _ _ h => h, fun c => by simp, ?_⟩
    intro i q r h
    simp at h
  | cons q rest ih =>
    intro st hS hI hP
    obtain ⟨cls, name⟩ := q
    obtain ⟨s1, s2, s3, s4, s5, s6⟩ := step_spec L st hS hI hP cls name
    obtain ⟨hlen, st', t1, t2, t3, t4, t5, t6⟩ := ih (truncIdent L st cls name).2 s1 s2 s3
    refine ⟨by simp [runIdents, hlen], st', t1, t2, t3, fun k r h => t4 k r (s4 k r h), ?_, ?_⟩
    · intro c
      have := t5 c; have := s6 c
      simp only [List.length_cons]; omega
    · intro i q r hq hr
      cases i with
      | zero =>
        simp only [List.getElem?_cons_zero, Option.some.injEq] at hq
        simp only [runIdents, List.getElem?_cons_zero, Option.some.injEq] at hr
        subst hq; subst hr
        exact t4 _ _ s5
      | succ j =>
        simp only [List.getElem?_cons_succ] at hq
        simp only [runIdents, List.getElem?_cons_succ] at hr
        exact t6 j q r hq hr


/-! ## limits over the engine's life -/

/-- the configured label length fits the identifier limit the dialect currently holds -/
def LabelOK (st : DState) : Prop := effLabel st ≤ st.maxIdent

theorem connect_ok_labelOK (st : DState) (lim : Option Nat) (h : (connectStep st lim).2 = .connected) :
    LabelOK (connectStep st lim).1 := by
  unfold connectStep at h ⊢
  cases hl : st.labelLength with
  | none => simp [LabelOK, effLabel, hl]
  | some ll =>
    simp only [hl] at h ⊢
    by_cases hc : (ll != 0 && ll > newMaxIdent st lim) = true
    · simp [hc] at h
    · simp only [hc, Bool.false_eq_true, if_false, LabelOK, effLabel, hl]
      simp only [Bool.and_eq_true, bne_iff_ne, ne_eq, decide_eq_true_eq, not_and, Nat.not_lt] at hc
      by_cases h0 : ll = 0
      · subst h0; simp
      · have h0' : (ll == 0) = false := by simpa using h0
        simp only [h0', Bool.false_eq_true, if_false]
        exact hc h0

theorem lifeStep_fmt_state (md5 : Str → Str) (st : DState) (op : LOp)
    (h : ∀ lim, op ≠ .connect lim) : (lifeStep md5 st op).1 = st := by
  cases op with
  | connect lim => exact absurd rfl (h lim)
  | fmtIndex _ _ => rfl
  | fmtConstraint _ _ => rfl
  | label _ => rfl

/-- a single label rendered by a fresh compiler is at most the effective label length -/
theorem single_label_len (L : Nat) (hL : 6 ≤ L) (n : Str) :
    (truncIdent L TState.empty 0 n).1.length ≤ L := by
  unfold truncIdent
  simp only [TState.empty, List.lookup_nil]
  split
  · rename_i ht
    have hlen := (truncForm_len L n (getCounter ⟨[], []⟩ 0) ht).1
    have hh : (hexStr (getCounter ⟨[], []⟩ 0)).length ≤ 5 := by
      have : getCounter ⟨[], []⟩ 0 = 1 := by simp [getCounter]
      rw [this]; exact hexStr_len 1 5 (by decide) (by omega)
    unfold truncForm at hlen
    simp only at hlen ⊢
    omega
  · rename_i ht
    simp only
    omega


/-! ## labels of a columns clause -/

/-- invariant of the `_generate_columns_plus_names` loop (with `anon_for_dupe_key`):
    every label emitted so far is a key of `names` or a dedupe label with an index below
    `dedupe_hash`; keys of `names` are never dedupe labels -/
structure GInv (st : GState) (em : List Lab) : Prop where
  emitted : ∀ l ∈ em, (st.names.lookup l).isSome = true ∨ ∃ i c t, l = .dedupe i c t ∧ i < st.dh
  keys : ∀ l c, st.names.lookup l = some c → ∀ i c' t, l ≠ .dedupe i c' t

theorem lookup_cons_lab (k k' : Lab) (v : Col) (l : List (Lab × Col)) :
    ((k', v) :: l).lookup k = if k = k' then some v else l.lookup k := by
  simp only [List.lookup_cons]
  by_cases h : k = k'
  · simp [h]
  · have : (k == k') = false := by simpa using h
    simp [this, h]

theorem ginv_insert (st : GState) (em : List Lab) (h : GInv st em) (l : Lab) (c : Col)
    (hnone : st.names.lookup l = none) (hnd : ∀ i c' t, l ≠ .dedupe i c' t) :
    l ∉ em ∧ GInv { st with names := (l, c) :: st.names } (l :: em) := by
  refine ⟨?_, ?_, ?_⟩
  · intro hm
    rcases h.emitted l hm with h1 | ⟨i, c', t, e, _⟩
    · rw [hnone] at h1; cases h1
    · exact hnd i c' t e
  · intro l' hl'
    simp only [List.mem_cons] at hl'
    rcases hl' with e | hl'
    · subst e; left; simp [lookup_cons_lab]
    · rcases h.emitted l' hl' with h1 | h1
      · left
        simp only [lookup_cons_lab]
        split
        · rfl
        · exact h1
      · exact Or.inr h1
  · intro l' c' hl' i c'' t
    simp only [lookup_cons_lab] at hl'
    split at hl'
    · rename_i e; subst e; exact hnd i c'' t
    · exact h.keys l' c' hl' i c'' t

theorem ginv_dedupe (st : GState) (em : List Lab) (h : GInv st em) (c : Col) (t : Bool) :
    Lab.dedupe st.dh c t ∉ em ∧ GInv { st with dh := st.dh + 1 } (Lab.dedupe st.dh c t :: em) := by
  refine ⟨?_, ?_, ?_⟩
  · intro hm
    rcases h.emitted _ hm with h1 | ⟨i, c', t', e, hi⟩
    · cases hl : st.names.lookup (Lab.dedupe st.dh c t) with
      | none => rw [hl] at h1; cases h1
      | some c0 => exact h.keys _ c0 hl st.dh c t rfl
    · cases e; omega
  · intro l' hl'
    simp only [List.mem_cons] at hl'
    rcases hl' with e | hl'
    · subst e; exact Or.inr ⟨st.dh, c, t, rfl, by simp⟩
    · rcases h.emitted l' hl' with h1 | ⟨i, c', t', e, hi⟩
      · exact Or.inl h1
      · exact Or.inr ⟨i, c', t', e, by simp; omega⟩
  · exact h.keys

theorem genStep_fresh (tq : Bool) (st : GState) (em : List Lab) (h : GInv st em) (c : Col) :
    (genStep tq true st c).2 ∉ em ∧ GInv (genStep tq true st c).1 ((genStep tq true st c).2 :: em) := by
  unfold genStep
  simp only
  cases hl : st.names.lookup (Lab.plain (if tq = true then tqLabel c else c.name)) with
  | none =>
    simp only
    exact ginv_insert st em h _ c hl (by intro i c' t e; cases e)
  | some c0 =>
    simp only
    by_cases hid : (c0.id != c.id) = true
    · simp only [hid, if_true, Bool.true_and]
      cases hr : st.names.lookup (Lab.anon c tq) with
      | none =>
        simp only [Option.isSome_none, Bool.false_eq_true, if_false]
        exact ginv_insert st em h _ c hr (by intro i c' t e; cases e)
      | some c1 =>
        simp only [Option.isSome_some, if_true]
        exact ginv_dedupe st em h c tq
    · simp only [hid, Bool.false_eq_true, if_false, if_true]
      exact ginv_dedupe st em h c tq

theorem genRun_nodup (tq : Bool) : ∀ (cols : List Col) (st : GState) (em : List Lab), GInv st em →
    (genRun tq true st cols).Nodup ∧ ∀ l ∈ genRun tq true st cols, l ∉ em := by
  intro cols
  induction cols with
  | nil => intro st em _; simp [genRun]
  | cons c rest ih =>
    intro st em h
    obtain ⟨hf, hinv⟩ := genStep_fresh tq st em h c
    obtain ⟨hnd, hdis⟩ := ih _ _ hinv
    simp only [genRun]
    refine ⟨List.nodup_cons.2 ⟨?_, hnd⟩, ?_⟩
    · intro hm; exact hdis _ hm (by simp)
    · intro l hl
      simp only [List.mem_cons] at hl
      rcases hl with e | hl
      · subst e; exact hf
      · intro hm; exact hdis l hl (by simp [hm])

/-! ## bound-parameter keys -/

theorem derive_keys_nodup (tmpl : Bind) (hu : tmpl.unique = true) : ∀ (ids : List Nat), ids.Nodup →
    ((deriveText tmpl false ids).map (·.key)).Nodup := by
  intro ids
  induction ids with
  | nil => intro _; simp [deriveText]
  | cons a t ih =>
    intro hn
    obtain ⟨ha, ht⟩ := List.nodup_cons.1 hn
    simp only [deriveText, List.map_cons, List.map_map] at ih ⊢
    refine List.nodup_cons.2 ⟨?_, ih ht⟩
    intro hm
    obtain ⟨b, hb, e⟩ := List.mem_map.1 hm
    simp only [Function.comp, cloneBind, hu, Bool.not_false, Bool.true_and, if_true,
      BKey.anon.injEq] at e
    exact ha (e.1 ▸ hb)

/-! ## `prefix_anon_map` -/

theorem underscore_split (d1 d2 ds1 ds2 : Str) (h1 : ∀ c ∈ ds1, Literal.isDigit c = true)
    (h2 : ∀ c ∈ ds2, Literal.isDigit c = true) (h : d1 ++ 95 :: ds1 = d2 ++ 95 :: ds2) :
    d1 = d2 ∧ ds1 = ds2 := by
  rcases List.append_eq_append_iff.1 h with ⟨a', hc, hb⟩ | ⟨c', ha, hd⟩
  · cases a' with
    | nil => simp at hb hc; exact ⟨hc.symm, hb⟩
    | cons x a'' =>
      simp only [List.cons_append, List.cons.injEq] at hb
      have : (95 : Nat) ∈ ds1 := by rw [hb.2]; simp
      have := h1 95 this
      simp [Literal.isDigit] at this
  · cases c' with
    | nil => simp at ha hd; exact ⟨ha, hd.symm⟩
    | cons x c'' =>
      simp only [List.cons_append, List.cons.injEq] at hd
      have : (95 : Nat) ∈ ds2 := by rw [hd.2]; simp
      have := h2 95 this
      simp [Literal.isDigit] at this

theorem natStr_inj (a b : Nat) (h : Literal.natStr a = Literal.natStr b) : a = b := by
  have ha := (Literal.natStr_spec a).2.2
  rw [h, (Literal.natStr_spec b).2.2] at ha
  exact ha.symm

def amCounter (m : AMap) (d : Str) : Nat := (m.idx.lookup d).getD 1

/-- invariant of the anonymous-name map: every value is `derived_<c>` with `c` below the
    next counter of `derived`, and values determine keys -/
structure AInv (m : AMap) : Prop where
  shape : ∀ k v, m.vals.lookup k = some v → ∃ c, v = k.2 ++ 95 :: Literal.natStr c ∧ c < amCounter m k.2
  inj : ∀ k1 k2 v, m.vals.lookup k1 = some v → m.vals.lookup k2 = some v → k1 = k2

theorem ainv_empty : AInv AMap.empty := by
  constructor <;> intro k <;> simp [AMap.empty]

theorem lookup_cons_str {β : Type} (k k' : Str) (v : β) (l : List (Str × β)) :
    ((k', v) :: l).lookup k = if k = k' then some v else l.lookup k := by
  simp only [List.lookup_cons]
  by_cases h : k = k'
  · simp [h]
  · have : (k == k') = false := by simpa using h
    simp [this, h]

theorem amCounter_cons (m : AMap) (vals : List ((Nat × Str) × Str)) (d0 : Str) (cnt : Nat) (d : Str) :
    amCounter { vals := vals, idx := (d0, cnt) :: m.idx } d = if d = d0 then cnt else amCounter m d := by
  simp only [amCounter, lookup_cons_str]
  split <;> simp

theorem amGet_spec (m : AMap) (h : AInv m) (k : Nat × Str) :
    AInv (amGet m k).2 ∧ (amGet m k).2.vals.lookup k = some (amGet m k).1 ∧
    (∀ k' v, m.vals.lookup k' = some v → (amGet m k).2.vals.lookup k' = some v) := by
  unfold amGet
  cases hl : m.vals.lookup k with
  | some v => exact ⟨h, hl, fun _ _ hh => hh⟩
  | none =>
    simp only
    have hc0 : (List.lookup k.2 m.idx).getD 1 = amCounter m k.2 := rfl
    rw [hc0]
    generalize hcdef : amCounter m k.2 = c0
    have hnew : ∀ k', m.vals.lookup k' = some (k.2 ++ 95 :: Literal.natStr c0) → False := by
      intro k' hk'
      obtain ⟨c, hc1, hc2⟩ := h.shape k' _ hk'
      obtain ⟨hd, hs⟩ := underscore_split _ _ _ _ (Literal.natStr_spec _).2.1 (Literal.natStr_spec _).2.1 hc1
      have := natStr_inj _ _ hs
      rw [← hd, hcdef] at hc2; omega
    refine ⟨⟨?_, ?_⟩, ?_, ?_⟩
    · intro k' v hv
      simp only [lookup_cons_key] at hv
      split at hv
      · rename_i e; subst e; cases hv
        exact ⟨c0, rfl, by rw [amCounter_cons]; simp⟩
      · obtain ⟨c, hc1, hc2⟩ := h.shape k' v hv
        refine ⟨c, hc1, ?_⟩
        rw [amCounter_cons]; split
        · rename_i e; rw [e, hcdef] at hc2; omega
        · exact hc2
    · intro k1 k2 v h1 h2
      simp only [lookup_cons_key] at h1 h2
      split at h1 <;> split at h2
      · rename_i e1 e2; rw [e1, e2]
      · cases h1; exact absurd h2 (fun hh => hnew k2 hh)
      · cases h2; exact absurd h1 (fun hh => hnew k1 hh)
      · exact h.inj k1 k2 v h1 h2
    · simp [lookup_cons_key]
    · intro k' v hv
      simp only [lookup_cons_key]
      split
      · rename_i e; subst e; rw [hl] at hv; cases hv
      · exact hv

/-- names handed out for a sequence of keys -/
def amRun : AMap → List (Nat × Str) → List Str
  | _, [] => []
  | m, k :: rest => (amGet m k).1 :: amRun (amGet m k).2 rest

theorem amRun_spec : ∀ (ks : List (Nat × Str)) (m : AMap), AInv m →
    ∃ m', AInv m' ∧ (∀ k v, m.vals.lookup k = some v → m'.vals.lookup k = some v) ∧
      ∀ (i : Nat) k v, ks[i]? = some k → (amRun m ks)[i]? = some v → m'.vals.lookup k = some v := by
  intro ks
  induction ks with
  | nil => intro m h; exact ⟨m, h, fun _ _ hh => hh, fun i k v hk => by simp at hk⟩
  | cons k rest ih =>
    intro m h
    obtain ⟨s1, s2, s3⟩ := amGet_spec m h k
    obtain ⟨m', t1, t2, t3⟩ := ih _ s1
    refine ⟨m', t1, fun k' v hv => t2 k' v (s3 k' v hv), ?_⟩
    intro i k' v hk hv
    cases i with
    | zero =>
      simp only [List.getElem?_cons_zero, Option.some.injEq] at hk
      simp only [amRun, List.getElem?_cons_zero, Option.some.injEq] at hv
      subst hk; subst hv
      exact t2 _ _ s2
    | succ j =>
      simp only [List.getElem?_cons_succ] at hk
      simp only [amRun, List.getElem?_cons_succ] at hv
      exact t3 j k' v hk hv

end SaVerif.Naming
