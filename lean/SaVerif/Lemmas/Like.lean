import SaVerif.Model.Like
/-! Helper lemmas about the LIKE model (core Lean only). -/
set_option linter.unusedSectionVars false
set_option linter.unusedSimpArgs false
namespace SaVerif.Like
open SaVerif.Gen.LikeDefaults

/-- the regenerated constants have the shape the lemmas below are about; a source edit
    that changes the tuple or the replace chain makes this `decide` (and so every
    theorem built on it) fail -/
theorem gen_table : noDouble = ['%', '_'] ∧ escapedChars = ['%', '_'] := by
  decide

/-- the regenerated default escape is an ordinary, caseless character (any such
    default keeps every theorem; `%`, `_` or a letter breaks this `decide`) -/
theorem gen_default :
    defaultEscape ≠ '%' ∧ defaultEscape ≠ '_' ∧
      ¬ (65 ≤ defaultEscape.toNat ∧ defaultEscape.toNat ≤ 90) ∧
      ¬ (97 ≤ defaultEscape.toNat ∧ defaultEscape.toNat ≤ 122) := by
  decide

theorem escapeLike_unfold (esc : Char) (other : List Char) :
    escapeLike esc other =
      replace1 '_' [esc, '_'] (replace1 '%' [esc, '%']
        (if esc ≠ '%' ∧ esc ≠ '_' then replace1 esc [esc, esc] other else other)) := by
  simp only [escapeLike, gen_table.1, gen_table.2, List.foldl]
  by_cases h1 : esc = '%'
  · subst h1; simp
  · by_cases h2 : esc = '_'
    · subst h2; simp
    · have a : ¬ ('%' = esc) := fun h => h1 h.symm
      have b : ¬ ('_' = esc) := fun h => h2 h.symm
      simp [h1, h2, a, b]

/-! ## the ideal one-pass escaping and its relation to the three `replace` calls -/

/-- what autoescape is meant to produce: every `%`, `_` and escape character is
    preceded by one escape character, in a single pass -/
def lit (esc : Char) : List Char → List Char
  | [] => []
  | c :: cs => if c = esc ∨ c = '%' ∨ c = '_' then esc :: c :: lit esc cs else c :: lit esc cs

theorem replace1_append (o : Char) (n a b : List Char) :
    replace1 o n (a ++ b) = replace1 o n a ++ replace1 o n b := by
  induction a with
  | nil => rfl
  | cons c cs ih =>
    simp only [List.cons_append, replace1]
    split <;> simp [ih]

/-- ordinary escape characters: the three replaces equal the one-pass escaping -/
theorem escapeLike_eq_lit_ordinary (esc : Char) (h1 : esc ≠ '%') (h2 : esc ≠ '_') (p : List Char) :
    escapeLike esc p = lit esc p := by
  have e : escapeLike esc p =
      replace1 '_' [esc, '_'] (replace1 '%' [esc, '%'] (replace1 esc [esc, esc] p)) := by
    simp [escapeLike_unfold, h1, h2]
  rw [e]
  clear e
  induction p with
  | nil => rfl
  | cons c cs ih =>
    by_cases hc : c = esc
    · subst hc
      simp [replace1, lit, h1, h2, ih]
    · by_cases hp : c = '%'
      · subst hp
        have : ('%' : Char) ≠ '_' := by decide
        simp [replace1, lit, hc, ih, h2, this]
      · by_cases hu : c = '_'
        · subst hu
          simp [replace1, lit, hc, hp, ih]
        · simp [replace1, lit, hc, hp, hu, ih]

/-- `escape="%"`: still the one-pass escaping -/
theorem escapeLike_eq_lit_percent (p : List Char) : escapeLike '%' p = lit '%' p := by
  have e : escapeLike '%' p = replace1 '_' ['%', '_'] (replace1 '%' ['%', '%'] p) := by
    simp [escapeLike_unfold]
  rw [e]
  clear e
  induction p with
  | nil => rfl
  | cons c cs ih =>
    by_cases hp : c = '%'
    · subst hp
      have : ('%' : Char) ≠ '_' := by decide
      simp [replace1, lit, ih, this]
    · by_cases hu : c = '_'
      · subst hu
        simp [replace1, lit, ih]
      · simp [replace1, lit, hp, hu, ih]

/-- `escape="_"`: only when the operand has no `%` (the `_` inserted in front of a `%` by
    the second replace is doubled again by the third) -/
theorem escapeLike_eq_lit_underscore (p : List Char) (h : '%' ∉ p) :
    escapeLike '_' p = lit '_' p := by
  have e : escapeLike '_' p = replace1 '_' ['_', '_'] (replace1 '%' ['_', '%'] p) := by
    simp [escapeLike_unfold]
  rw [e]
  clear e
  induction p with
  | nil => rfl
  | cons c cs ih =>
    have hc : c ≠ '%' := fun hh => h (by simp [hh])
    have hcs : '%' ∉ cs := fun hh => h (by simp [hh])
    by_cases hu : c = '_'
    · subst hu
      simp [replace1, lit, ih hcs]
    · simp [replace1, lit, hc, hu, ih hcs]

/-! ## prefix stripping under a character relation -/

def stripPrefix (r : Char → Char → Bool) : List Char → List Char → Option (List Char)
  | [], s => some s
  | _ :: _, [] => none
  | a :: p, b :: s => if r a b then stripPrefix r p s else none

theorem stripPrefix_eq_some_iff (p s t : List Char) :
    stripPrefix (· == ·) p s = some t ↔ s = p ++ t := by
  induction p generalizing s with
  | nil => simp [stripPrefix, eq_comm]
  | cons a p ih =>
    cases s with
    | nil => simp [stripPrefix]
    | cons b s =>
      simp only [stripPrefix, List.cons_append, List.cons.injEq]
      by_cases hab : a = b
      · subst hab; simp [ih]
      · have : ¬ b = a := fun h => hab h.symm
        simp [hab, this]

theorem stripPrefix_isSome_iff (p s : List Char) :
    (stripPrefix (· == ·) p s).isSome = true ↔ p <+: s := by
  rw [Option.isSome_iff_exists]
  constructor
  · rintro ⟨t, ht⟩; exact ⟨t, ((stripPrefix_eq_some_iff p s t).1 ht).symm⟩
  · rintro ⟨t, ht⟩; exact ⟨t, (stripPrefix_eq_some_iff p s t).2 ht.symm⟩

theorem eqv_false : eqv false = (· == ·) := by
  funext a b; simp [eqv]

/-! ## SQLite matcher on an escaped literal -/

section sqlite
variable (nc : Bool) (esc : Char) (h1 : esc ≠ '%') (h2 : esc ≠ '_')
include h1 h2

theorem mAll_ordinary : mAll (some esc) = some '%' := by simp [mAll, h1]
theorem mOne_ordinary : mOne (some esc) = some '_' := by simp [mOne, h2]

/-- the top-level loop consumes an escaped literal exactly like a prefix comparison -/
theorem mtch_lit (p rest s : List Char) :
    mtch nc (some esc) (lit esc p ++ rest) s =
      match stripPrefix (eqv nc) p s with
      | some t => mtch nc (some esc) rest t
      | none => .no := by
  induction p generalizing s with
  | nil => simp [lit, stripPrefix]
  | cons c p ih =>
    have hpe : ('%' : Char) ≠ esc := fun h => h1 h.symm
    by_cases hc : c = esc ∨ c = '%' ∨ c = '_'
    · simp only [lit, if_pos hc, List.cons_append]
      rw [mtch.eq_def]
      simp only [mAll_ordinary esc h1 h2, Option.some.injEq, beq_iff_eq, hpe, if_false, if_true]
      cases s with
      | nil => simp [stripPrefix]
      | cons c2 s' =>
        simp only [stripPrefix]
        split
        · exact ih s'
        · rfl
    · have hce : ¬ c = esc := fun h => hc (Or.inl h)
      have hcp : ¬ c = '%' := fun h => hc (Or.inr (Or.inl h))
      have hcu : ¬ c = '_' := fun h => hc (Or.inr (Or.inr h))
      have hcp' : ¬ '%' = c := fun h => hcp h.symm
      have hce' : ¬ esc = c := fun h => hce h.symm
      have hcu' : ¬ '_' = c := fun h => hcu h.symm
      simp only [lit, if_neg hc, List.cons_append]
      rw [mtch.eq_def]
      have hm : (some '_' == some c) = false := by simp [hcu']
      simp only [mAll_ordinary esc h1 h2, mOne_ordinary esc h1 h2, Option.some.injEq, beq_iff_eq,
        hcp', hce', if_false, hm, Bool.or_false]
      cases s with
      | nil => simp [stripPrefix]
      | cons c2 s' =>
        simp only [stripPrefix]
        by_cases he : eqv nc c c2 = true
        · simp only [he, if_true]; exact ih s'
        · simp only [he]; rfl

/-- after a `%`, an escaped literal `c :: p` starts a search for `c` -/
theorem star_lit_cons (c : Char) (p rest s : List Char) :
    star nc (some esc) (lit esc (c :: p) ++ rest) s =
      search nc (mtch nc (some esc) (lit esc p ++ rest)) c s := by
  have hpe : ('%' : Char) ≠ esc := fun h => h1 h.symm
  have hue : ('_' : Char) ≠ esc := fun h => h2 h.symm
  by_cases hc : c = esc ∨ c = '%' ∨ c = '_'
  · simp only [lit, if_pos hc, List.cons_append]
    rw [star.eq_def]
    simp [mAll_ordinary esc h1 h2, mOne_ordinary esc h1 h2, hpe, hue]
  · have hce : ¬ c = esc := fun h => hc (Or.inl h)
    have hcp : ¬ c = '%' := fun h => hc (Or.inr (Or.inl h))
    have hcu : ¬ c = '_' := fun h => hc (Or.inr (Or.inr h))
    have hcp' : ¬ '%' = c := fun h => hcp h.symm
    have hce' : ¬ esc = c := fun h => hce h.symm
    have hcu' : ¬ '_' = c := fun h => hcu h.symm
    simp only [lit, if_neg hc, List.cons_append]
    rw [star.eq_def]
    simp [mAll_ordinary esc h1 h2, mOne_ordinary esc h1 h2, hcp', hce', hcu']

theorem star_nil (s : List Char) : star nc (some esc) [] s = .yes := by
  rw [star.eq_def]

theorem star_percent (s : List Char) : star nc (some esc) ['%'] s = .yes := by
  rw [star.eq_def]; simp [mAll_ordinary esc h1 h2, star.eq_def]

theorem mtch_percent (p s : List Char) :
    mtch nc (some esc) ('%' :: p) s = star nc (some esc) p s := by
  rw [mtch.eq_def]; simp [mAll_ordinary esc h1 h2]

end sqlite

/-- the search loop, when the continuation never aborts -/
theorem search_yes_iff (nc : Bool) (f : List Char → R) (hf : ∀ t, f t ≠ .abort) (c : Char)
    (s : List Char) :
    search nc f c s = .yes ↔
      ∃ pre c2 post, s = pre ++ c2 :: post ∧ eqv nc c c2 = true ∧ f post = .yes := by
  induction s with
  | nil => simp [search]
  | cons c2 s ih =>
    rw [search]
    constructor
    · intro h
      by_cases he : eqv nc c c2 = true
      · rw [if_pos he] at h
        cases hfs : f s with
        | yes => exact ⟨[], c2, s, rfl, he, hfs⟩
        | no =>
          rw [hfs] at h
          obtain ⟨pre, c3, post, e, h3, h4⟩ := ih.1 h
          exact ⟨c2 :: pre, c3, post, by simp [e], h3, h4⟩
        | abort => exact absurd hfs (hf s)
      · rw [if_neg he] at h
        obtain ⟨pre, c3, post, e, h3, h4⟩ := ih.1 h
        exact ⟨c2 :: pre, c3, post, by simp [e], h3, h4⟩
    · rintro ⟨pre, c3, post, e, h3, h4⟩
      cases pre with
      | nil =>
        simp only [List.nil_append, List.cons.injEq] at e
        obtain ⟨rfl, rfl⟩ := e
        rw [if_pos h3, h4]
      | cons d pre =>
        simp only [List.cons_append, List.cons.injEq] at e
        obtain ⟨rfl, rfl⟩ := e
        have : search nc f c (pre ++ c3 :: post) = .yes := ih.2 ⟨pre, c3, post, rfl, h3, h4⟩
        by_cases he : eqv nc c c2 = true
        · rw [if_pos he]
          cases hfs : f (pre ++ c3 :: post) with
          | yes => rfl
          | no => exact this
          | abort => exact absurd hfs (hf _)
        · rw [if_neg he]; exact this


/-! ## results of the three renderings on SQLite, any case mode -/

section sqlite2
variable (nc : Bool) (esc : Char) (h1 : esc ≠ '%') (h2 : esc ≠ '_')
include h1 h2

theorem mtch_lit_end (p s : List Char) :
    mtch nc (some esc) (lit esc p) s =
      match stripPrefix (eqv nc) p s with
      | some [] => .yes
      | _ => .no := by
  have := mtch_lit nc esc h1 h2 p [] s
  rw [List.append_nil] at this
  rw [this]
  cases hsp : stripPrefix (eqv nc) p s with
  | none => rfl
  | some t => cases t <;> simp [mtch]

theorem mtch_lit_percent (p s : List Char) :
    mtch nc (some esc) (lit esc p ++ ['%']) s =
      if (stripPrefix (eqv nc) p s).isSome then .yes else .no := by
  rw [mtch_lit nc esc h1 h2]
  cases hsp : stripPrefix (eqv nc) p s with
  | none => rfl
  | some t => simp [mtch_percent nc esc h1 h2, star_nil nc esc h1 h2]

theorem mtch_lit_end_ne_abort (p s : List Char) : mtch nc (some esc) (lit esc p) s ≠ .abort := by
  rw [mtch_lit_end nc esc h1 h2]; split <;> simp

theorem mtch_lit_percent_ne_abort (p s : List Char) :
    mtch nc (some esc) (lit esc p ++ ['%']) s ≠ .abort := by
  rw [mtch_lit_percent nc esc h1 h2]; split <;> simp

/-- `lit p ++ '%'` (startswith) -/
theorem sqlite_startswith_raw (p s : List Char) :
    likeSqlite nc (some esc) (wrap .startswith (lit esc p)) s =
      (stripPrefix (eqv nc) p s).isSome := by
  simp only [likeSqlite, wrap, mtch_lit_percent nc esc h1 h2]
  cases (stripPrefix (eqv nc) p s).isSome <;> simp

/-- `'%' ++ lit p` (endswith) -/
theorem sqlite_endswith_raw (p s : List Char) :
    likeSqlite nc (some esc) (wrap .endswith (lit esc p)) s = true ↔
      ∃ pre post, s = pre ++ post ∧ stripPrefix (eqv nc) p post = some [] := by
  simp only [likeSqlite, wrap, mtch_percent nc esc h1 h2, beq_iff_eq]
  cases p with
  | nil =>
    simp only [lit, star_nil nc esc h1 h2, true_iff]
    exact ⟨s, [], by simp, rfl⟩
  | cons c p =>
    have := star_lit_cons nc esc h1 h2 c p [] s
    simp only [List.append_nil] at this
    rw [this, search_yes_iff nc _ (mtch_lit_end_ne_abort nc esc h1 h2 p)]
    constructor
    · rintro ⟨pre, c2, post, e, he, hm⟩
      refine ⟨pre, c2 :: post, e, ?_⟩
      rw [mtch_lit_end nc esc h1 h2] at hm
      simp only [stripPrefix, he, if_true]
      split at hm <;> simp_all
    · rintro ⟨pre, post, e, hs⟩
      cases post with
      | nil => simp [stripPrefix] at hs
      | cons c2 post =>
        simp only [stripPrefix] at hs
        split at hs
        · rename_i he
          refine ⟨pre, c2, post, e, he, ?_⟩
          rw [mtch_lit_end nc esc h1 h2, hs]
        · cases hs

/-- `'%' ++ lit p ++ '%'` (contains) -/
theorem sqlite_contains_raw (p s : List Char) :
    likeSqlite nc (some esc) (wrap .contains (lit esc p)) s = true ↔
      ∃ pre post, s = pre ++ post ∧ (stripPrefix (eqv nc) p post).isSome = true := by
  simp only [likeSqlite, wrap, mtch_percent nc esc h1 h2, beq_iff_eq]
  cases p with
  | nil =>
    simp only [lit, List.nil_append, star_percent nc esc h1 h2, true_iff]
    exact ⟨[], s, by simp, rfl⟩
  | cons c p =>
    rw [star_lit_cons nc esc h1 h2 c p ['%'] s,
      search_yes_iff nc _ (mtch_lit_percent_ne_abort nc esc h1 h2 p)]
    constructor
    · rintro ⟨pre, c2, post, e, he, hm⟩
      refine ⟨pre, c2 :: post, e, ?_⟩
      rw [mtch_lit_percent nc esc h1 h2] at hm
      simp only [stripPrefix, he, if_true]
      split at hm <;> simp_all
    · rintro ⟨pre, post, e, hs⟩
      cases post with
      | nil => simp [stripPrefix] at hs
      | cons c2 post =>
        simp only [stripPrefix] at hs
        split at hs
        · rename_i he
          refine ⟨pre, c2, post, e, he, ?_⟩
          rw [mtch_lit_percent nc esc h1 h2, if_pos hs]
        · cases hs

end sqlite2

/-! ## ASCII lower-casing -/

theorem toNat_ofNat_small (n : Nat) (h : n < 0xd800) : (Char.ofNat n).toNat = n := by
  have hv : n.isValidChar := Or.inl h
  unfold Char.ofNat
  rw [dif_pos hv]
  simp [Char.ofNatAux, Char.toNat, UInt32.toNat]

theorem lowerAscii_idem (c : Char) : lowerAscii (lowerAscii c) = lowerAscii c := by
  unfold lowerAscii
  by_cases h : 65 ≤ c.toNat ∧ c.toNat ≤ 90
  · rw [if_pos h]
    have : (Char.ofNat (c.toNat + 32)).toNat = c.toNat + 32 := toNat_ofNat_small _ (by omega)
    rw [if_neg (by rw [this]; omega)]
  · rw [if_neg h, if_neg h]

def AllLower (l : List Char) : Prop := ∀ c ∈ l, lowerAscii c = c

theorem allLower_lowerS (s : List Char) : AllLower (lowerS s) := by
  intro c hc
  simp only [lowerS, List.mem_map] at hc
  obtain ⟨d, _, rfl⟩ := hc
  exact lowerAscii_idem d

theorem eqv_of_lower (nc : Bool) (a b : Char) (ha : lowerAscii a = a) (hb : lowerAscii b = b) :
    eqv nc a b = (a == b) := by
  simp only [eqv, ha, hb]
  cases h : (a == b) <;> simp

theorem stripPrefix_eqv_of_lower (nc : Bool) (p s : List Char) (hp : AllLower p) (hs : AllLower s) :
    stripPrefix (eqv nc) p s = stripPrefix (· == ·) p s := by
  induction p generalizing s with
  | nil => rfl
  | cons a p ih =>
    cases s with
    | nil => rfl
    | cons b s =>
      simp only [stripPrefix]
      rw [eqv_of_lower nc a b (hp a (by simp)) (hs b (by simp)),
        ih s (fun c hc => hp c (by simp [hc])) (fun c hc => hs c (by simp [hc]))]

/-- lower() commutes with the escaping when the escape character has no case -/
theorem lowerS_lit (esc : Char) (hesc : ∀ c, lowerAscii c = esc ↔ c = esc) (p : List Char) :
    lowerS (lit esc p) = lit esc (lowerS p) := by
  have hp : ∀ c, lowerAscii c = '%' ↔ c = '%' := by
    intro c; unfold lowerAscii
    by_cases h : 65 ≤ c.toNat ∧ c.toNat ≤ 90
    · rw [if_pos h]
      constructor
      · intro e
        have : (Char.ofNat (c.toNat + 32)).toNat = c.toNat + 32 := toNat_ofNat_small _ (by omega)
        rw [e] at this
        have : ('%' : Char).toNat = 37 := by decide
        omega
      · intro e; subst e; exact absurd h (by decide)
    · rw [if_neg h]
  have hu : ∀ c, lowerAscii c = '_' ↔ c = '_' := by
    intro c; unfold lowerAscii
    by_cases h : 65 ≤ c.toNat ∧ c.toNat ≤ 90
    · rw [if_pos h]
      constructor
      · intro e
        have : (Char.ofNat (c.toNat + 32)).toNat = c.toNat + 32 := toNat_ofNat_small _ (by omega)
        rw [e] at this
        have : ('_' : Char).toNat = 95 := by decide
        omega
      · intro e; subst e; exact absurd h (by decide)
    · rw [if_neg h]
  have he : lowerAscii esc = esc := (hesc esc).2 rfl
  induction p with
  | nil => rfl
  | cons c p ih =>
    simp only [lowerS] at ih
    by_cases hc : c = esc ∨ c = '%' ∨ c = '_'
    · have hc' : lowerAscii c = esc ∨ lowerAscii c = '%' ∨ lowerAscii c = '_' := by
        rw [hesc, hp, hu]; exact hc
      simp only [lit, lowerS, List.map_cons, if_pos hc, if_pos hc', he, ih]
    · have hc' : ¬ (lowerAscii c = esc ∨ lowerAscii c = '%' ∨ lowerAscii c = '_') := by
        rw [hesc, hp, hu]; exact hc
      simp only [lit, lowerS, List.map_cons, if_neg hc, if_neg hc', ih]


/-! ## the SQL-standard matcher on an escaped literal -/

theorem anySuffix_iff (f : List Char → Bool) (s : List Char) :
    anySuffix f s = true ↔ ∃ pre post, s = pre ++ post ∧ f post = true := by
  induction s with
  | nil =>
    simp only [anySuffix]
    constructor
    · intro h; exact ⟨[], [], rfl, h⟩
    · rintro ⟨pre, post, e, h⟩
      have : post = [] := by
        have := congrArg List.length e; simp at this; exact List.eq_nil_of_length_eq_zero (by omega)
      subst this; exact h
  | cons c s ih =>
    simp only [anySuffix, Bool.or_eq_true, ih]
    constructor
    · rintro (h | ⟨pre, post, e, h⟩)
      · exact ⟨[], c :: s, rfl, h⟩
      · exact ⟨c :: pre, post, by simp [e], h⟩
    · rintro ⟨pre, post, e, h⟩
      cases pre with
      | nil => left; simp only [List.nil_append] at e; rw [e]; exact h
      | cons d pre =>
        right
        simp only [List.cons_append, List.cons.injEq] at e
        exact ⟨pre, post, e.2, h⟩

theorem anySuffix_of_nil (f : List Char → Bool) (h : f [] = true) (s : List Char) :
    anySuffix f s = true :=
  (anySuffix_iff f s).2 ⟨s, [], by simp, h⟩

theorem likeStd_lit (nc : Bool) (esc : Char) (p rest s : List Char) :
    likeStd nc (some esc) (lit esc p ++ rest) s =
      match stripPrefix (ceq nc) p s with
      | some t => likeStd nc (some esc) rest t
      | none => false := by
  induction p generalizing s with
  | nil => simp [lit, stripPrefix]
  | cons c p ih =>
    by_cases hc : c = esc ∨ c = '%' ∨ c = '_'
    · simp only [lit, if_pos hc, List.cons_append]
      rw [likeStd.eq_def]
      simp only [beq_self_eq_true, if_true]
      cases s with
      | nil => simp [stripPrefix]
      | cons c2 s' =>
        simp only [stripPrefix]
        by_cases he : ceq nc c c2 = true
        · simp only [he, Bool.true_and, if_true]; exact ih s'
        · simp only [he, Bool.false_and]; rfl
    · have hce' : ¬ esc = c := fun h => hc (Or.inl h.symm)
      have hcp : ¬ c = '%' := fun h => hc (Or.inr (Or.inl h))
      have hcu : ¬ c = '_' := fun h => hc (Or.inr (Or.inr h))
      have hm : (some esc == some c) = false := by simp [hce']
      simp only [lit, if_neg hc, List.cons_append]
      rw [likeStd.eq_def]
      have hcu' : (c == '_') = false := by simp [hcu]
      have hcp' : (c == '%') = false := by simp [hcp]
      cases s with
      | nil => simp [stripPrefix, hm, hcp']
      | cons c2 s' =>
        simp only [stripPrefix, hm, hcp', hcu', Bool.false_or, Bool.false_eq_true, if_false]
        by_cases he : ceq nc c c2 = true
        · simp only [he, Bool.true_and, if_true]; exact ih s'
        · simp [he]

theorem likeStd_percent (nc : Bool) (esc : Char) (h1 : esc ≠ '%') (pat s : List Char) :
    likeStd nc (some esc) ('%' :: pat) s = anySuffix (likeStd nc (some esc) pat) s := by
  rw [likeStd.eq_def]
  simp [h1]

theorem std_startswith_raw (nc : Bool) (esc : Char) (h1 : esc ≠ '%') (p s : List Char) :
    likeStd nc (some esc) (wrap .startswith (lit esc p)) s =
      (stripPrefix (ceq nc) p s).isSome := by
  simp only [wrap, likeStd_lit]
  cases hsp : stripPrefix (ceq nc) p s with
  | none => rfl
  | some t =>
    simp only [Option.isSome_some, likeStd_percent nc esc h1]
    exact anySuffix_of_nil _ (by simp [likeStd]) t

theorem likeStd_lit_end (nc : Bool) (esc : Char) (p s : List Char) :
    likeStd nc (some esc) (lit esc p) s = true ↔ stripPrefix (ceq nc) p s = some [] := by
  have := likeStd_lit nc esc p [] s
  rw [List.append_nil] at this
  rw [this]
  cases hsp : stripPrefix (ceq nc) p s with
  | none => simp
  | some t => cases t <;> simp [likeStd]

theorem std_endswith_raw (nc : Bool) (esc : Char) (h1 : esc ≠ '%') (p s : List Char) :
    likeStd nc (some esc) (wrap .endswith (lit esc p)) s = true ↔
      ∃ pre post, s = pre ++ post ∧ stripPrefix (ceq nc) p post = some [] := by
  simp only [wrap, likeStd_percent nc esc h1, anySuffix_iff, likeStd_lit_end]

theorem std_contains_raw (nc : Bool) (esc : Char) (h1 : esc ≠ '%') (p s : List Char) :
    likeStd nc (some esc) (wrap .contains (lit esc p)) s = true ↔
      ∃ pre post, s = pre ++ post ∧ (stripPrefix (ceq nc) p post).isSome = true := by
  simp only [wrap, likeStd_percent nc esc h1, anySuffix_iff]
  have := std_startswith_raw nc esc h1 p
  simp only [wrap] at this
  simp only [this]

/-! ## from the raw shapes to prefix / suffix / infix -/

theorem ceq_false : ceq false = (· == ·) := by
  funext a b; simp [ceq]

theorem raw_suffix_iff (p s : List Char) :
    (∃ pre post, s = pre ++ post ∧ stripPrefix (· == ·) p post = some []) ↔ p <:+ s := by
  constructor
  · rintro ⟨pre, post, e, h⟩
    have := (stripPrefix_eq_some_iff p post []).1 h
    exact ⟨pre, by rw [e, this]; simp⟩
  · rintro ⟨pre, e⟩
    exact ⟨pre, p, e.symm, (stripPrefix_eq_some_iff p p []).2 (by simp)⟩

theorem raw_infix_iff (p s : List Char) :
    (∃ pre post, s = pre ++ post ∧ (stripPrefix (· == ·) p post).isSome = true) ↔ p <:+: s := by
  constructor
  · rintro ⟨pre, post, e, h⟩
    obtain ⟨t, ht⟩ := (stripPrefix_isSome_iff p post).1 h
    exact ⟨pre, t, by rw [e, ← ht]; simp⟩
  · rintro ⟨pre, t, e⟩
    exact ⟨pre, p ++ t, by rw [← e]; simp, (stripPrefix_isSome_iff p (p ++ t)).2 ⟨t, rfl⟩⟩


/-! ## case-insensitive comparison = equality after ASCII lower-casing -/

theorem stripPrefix_ceq_true (p s : List Char) :
    (stripPrefix (ceq true) p s).map lowerS = stripPrefix (· == ·) (lowerS p) (lowerS s) := by
  induction p generalizing s with
  | nil => rfl
  | cons a p ih =>
    cases s with
    | nil => rfl
    | cons b s =>
      simp only [stripPrefix, lowerS, List.map_cons, ceq, if_true]
      by_cases h : (lowerAscii a == lowerAscii b) = true
      · simp only [h, if_true]; exact ih s
      · simp [h]

theorem stripPrefix_ceq_true_isSome (p s : List Char) :
    (stripPrefix (ceq true) p s).isSome = (stripPrefix (· == ·) (lowerS p) (lowerS s)).isSome := by
  rw [← stripPrefix_ceq_true, Option.isSome_map]

theorem stripPrefix_ceq_true_nil (p s : List Char) :
    stripPrefix (ceq true) p s = some [] ↔
      stripPrefix (· == ·) (lowerS p) (lowerS s) = some [] := by
  rw [← stripPrefix_ceq_true]
  constructor
  · intro h; rw [h]; rfl
  · intro h
    obtain ⟨t, ht, e⟩ := Option.map_eq_some_iff.1 h
    have : t = [] := by simpa [lowerS] using e
    rw [ht, this]

theorem raw_ci_suffix_iff (p s : List Char) :
    (∃ pre post, s = pre ++ post ∧ stripPrefix (ceq true) p post = some []) ↔
      lowerS p <:+ lowerS s := by
  constructor
  · rintro ⟨pre, post, e, h⟩
    have := (stripPrefix_eq_some_iff _ _ _).1 ((stripPrefix_ceq_true_nil p post).1 h)
    refine ⟨lowerS pre, ?_⟩
    rw [e]; simp only [lowerS, List.map_append] at this ⊢; rw [this]; simp
  · rintro ⟨pre', e⟩
    obtain ⟨pre, post, e1, e2, e3⟩ := List.map_eq_append_iff.1 e.symm
    refine ⟨pre, post, e1, (stripPrefix_ceq_true_nil p post).2 ?_⟩
    exact (stripPrefix_eq_some_iff _ _ _).2 (by simp [lowerS, e3])

theorem raw_ci_infix_iff (p s : List Char) :
    (∃ pre post, s = pre ++ post ∧ (stripPrefix (ceq true) p post).isSome = true) ↔
      lowerS p <:+: lowerS s := by
  constructor
  · rintro ⟨pre, post, e, h⟩
    rw [stripPrefix_ceq_true_isSome] at h
    obtain ⟨t, ht⟩ := (stripPrefix_isSome_iff _ _).1 h
    refine ⟨lowerS pre, t, ?_⟩
    rw [e]; simp only [lowerS, List.map_append] at ht ⊢; rw [← ht]; simp
  · rintro ⟨pre', t', e⟩
    obtain ⟨l1, post2, e1, e2, e3⟩ := List.map_eq_append_iff.1 e.symm
    obtain ⟨pre, mid, e4, e5, e6⟩ := List.map_eq_append_iff.1 e2
    refine ⟨pre, mid ++ post2, by rw [e1, e4]; simp, ?_⟩
    rw [stripPrefix_ceq_true_isSome]
    exact (stripPrefix_isSome_iff _ _).2 ⟨lowerS post2, by simp [lowerS, e6]⟩

theorem raw_ci_prefix_iff (p s : List Char) :
    (stripPrefix (ceq true) p s).isSome = true ↔ lowerS p <+: lowerS s := by
  rw [stripPrefix_ceq_true_isSome]; exact stripPrefix_isSome_iff _ _

/-- SQLite's `noCase` comparison is equality after ASCII lower-casing -/
theorem eqv_true_eq_ceq : eqv true = ceq true := by
  funext a b
  simp only [eqv, ceq, Bool.true_and, if_true]
  by_cases hab : a = b
  · subst hab; simp
  · by_cases hl : lowerAscii a = lowerAscii b
    · have key : a.toNat < 128 ∧ b.toNat < 128 := by
        unfold lowerAscii at hl
        by_cases ha : 65 ≤ a.toNat ∧ a.toNat ≤ 90
        · by_cases hb : 65 ≤ b.toNat ∧ b.toNat ≤ 90
          · rw [if_pos ha, if_pos hb] at hl
            have h1 := toNat_ofNat_small (a.toNat + 32) (by omega)
            have h2 := toNat_ofNat_small (b.toNat + 32) (by omega)
            rw [hl] at h1
            exact absurd (Char.toNat_inj.1 (by omega)) hab
          · rw [if_pos ha, if_neg hb] at hl
            have h1 := toNat_ofNat_small (a.toNat + 32) (by omega)
            rw [hl] at h1
            omega
        · by_cases hb : 65 ≤ b.toNat ∧ b.toNat ≤ 90
          · rw [if_neg ha, if_pos hb] at hl
            have h2 := toNat_ofNat_small (b.toNat + 32) (by omega)
            rw [← hl] at h2
            omega
          · rw [if_neg ha, if_neg hb] at hl
            exact absurd hl hab
      simp [hl, key.1, key.2]
    · have e1 : (a == b) = false := beq_eq_false_iff_ne.2 hab
      have e2 : (lowerAscii a == lowerAscii b) = false := beq_eq_false_iff_ne.2 hl
      rw [e1, e2]; rfl

end SaVerif.Like
