import SaVerif.Model.Like
/-! Helper lemmas about the LIKE model (core Lean only). -/
set_option linter.unusedSectionVars false
set_option linter.unusedSimpArgs false
namespace SaVerif.Like
open SaVerif.Gen.LikeDefaults

/-- the regenerated constants have the shape the lemmas below are about; a source edit
    that changes the escaped set makes this `decide` (and so every theorem built on it) fail -/
theorem gen_table : escapedChars = ['%', '_'] ∧ escapesEscape = true := by
  decide

/-- the regenerated default escape is an ordinary, caseless character (any such
    default keeps every theorem; `%`, `_` or a letter breaks this `decide`) -/
theorem gen_default :
    defaultEscape ≠ '%' ∧ defaultEscape ≠ '_' ∧
      ¬ (65 ≤ defaultEscape.toNat ∧ defaultEscape.toNat ≤ 90) ∧
      ¬ (97 ≤ defaultEscape.toNat ∧ defaultEscape.toNat ≤ 122) := by
  decide

/-! ## the escaping -/

/-- what autoescape is meant to produce: every `%`, `_` and escape character is
    preceded by one escape character, in a single pass -/
def lit (esc : Char) : List Char → List Char
  | [] => []
  | c :: cs => if c = esc ∨ c = '%' ∨ c = '_' then esc :: c :: lit esc cs else c :: lit esc cs

/-- the code is the specification, for every escape character -/
theorem escapeLike_eq_lit (esc : Char) (p : List Char) : escapeLike esc p = lit esc p := by
  induction p with
  | nil => rfl
  | cons c cs ih =>
    have h : (escapedChars.contains c || (escapesEscape && c == esc)) = true ↔
        (c = esc ∨ c = '%' ∨ c = '_') := by
      rw [gen_table.1, gen_table.2]
      simp only [List.contains_cons, List.contains_nil, Bool.or_false, Bool.true_and,
        Bool.or_eq_true, beq_iff_eq]
      constructor
      · rintro ((h | h) | h)
        · exact Or.inr (Or.inl h)
        · exact Or.inr (Or.inr h)
        · exact Or.inl h
      · rintro (h | h | h)
        · exact Or.inr h
        · exact Or.inl (Or.inl h)
        · exact Or.inl (Or.inr h)
    by_cases hc : c = esc ∨ c = '%' ∨ c = '_'
    · simp only [escapeLike, lit, if_pos hc, if_pos (h.2 hc), ih]
    · have : ¬ ((escapedChars.contains c || (escapesEscape && c == esc)) = true) := fun hh => hc (h.1 hh)
      simp only [escapeLike, lit, if_neg hc, this, ih]
      rfl

/-! ## prefix stripping under a character relation -/

def stripPrefix (r : Char → Char → Bool) : List Char → List Char → Option (List Char)
  | [], s => some s
  | _ :: _, [] => none
  | a :: p, b :: s => if r a b then stripPrefix r p s else none

theorem stripPrefix_eq_some_iff (p s t : List Char) :
    stripPrefix (· == ·) p s = some t ↔ s = p ++ t := by
  induction p generalizing s with
  | nil => simp [stripPrefix, eq_comm]
  | cons a p ih =>
    cases s with
    | nil => simp [stripPrefix]
    | cons b s =>
      simp only [stripPrefix, List.cons_append, List.cons.injEq]
      by_cases hab : a = b
      · subst hab; simp [ih]
      · have : ¬ b = a := fun h => hab h.symm
        simp [hab, this]

theorem stripPrefix_isSome_iff (p s : List Char) :
    (stripPrefix (· == ·) p s).isSome = true ↔ p <+: s := by
  rw [Option.isSome_iff_exists]
  constructor
  · rintro ⟨t, ht⟩; exact ⟨t, ((stripPrefix_eq_some_iff p s t).1 ht).symm⟩
  · rintro ⟨t, ht⟩; exact ⟨t, (stripPrefix_eq_some_iff p s t).2 ht.symm⟩

theorem eqv_false : eqv false = (· == ·) := by
  funext a b; simp [eqv]

/-- the search loop, when the continuation never aborts -/
theorem search_yes_iff (nc : Bool) (f : List Char → R) (hf : ∀ t, f t ≠ .abort) (c : Char)
    (s : List Char) :
    search nc f c s = .yes ↔
      ∃ pre c2 post, s = pre ++ c2 :: post ∧ eqv nc c c2 = true ∧ f post = .yes := by
  induction s with
  | nil => simp [search]
  | cons c2 s ih =>
    rw [search]
    constructor
    · intro h
      by_cases he : eqv nc c c2 = true
      · rw [if_pos he] at h
        cases hfs : f s with
        | yes => exact ⟨[], c2, s, rfl, he, hfs⟩
        | no =>
          rw [hfs] at h
          obtain ⟨pre, c3, post, e, h3, h4⟩ := ih.1 h
          exact ⟨c2 :: pre, c3, post, by simp [e], h3, h4⟩
        | abort => exact absurd hfs (hf s)
      · rw [if_neg he] at h
        obtain ⟨pre, c3, post, e, h3, h4⟩ := ih.1 h
        exact ⟨c2 :: pre, c3, post, by simp [e], h3, h4⟩
    · rintro ⟨pre, c3, post, e, h3, h4⟩
      cases pre with
      | nil =>
        simp only [List.nil_append, List.cons.injEq] at e
        obtain ⟨rfl, rfl⟩ := e
        rw [if_pos h3, h4]
      | cons d pre =>
        simp only [List.cons_append, List.cons.injEq] at e
        obtain ⟨rfl, rfl⟩ := e
        have : search nc f c (pre ++ c3 :: post) = .yes := ih.2 ⟨pre, c3, post, rfl, h3, h4⟩
        by_cases he : eqv nc c c2 = true
        · rw [if_pos he]
          cases hfs : f (pre ++ c3 :: post) with
          | yes => rfl
          | no => exact this
          | abort => exact absurd hfs (hf _)
        · rw [if_neg he]; exact this


/-! ## SQLite matcher on a pattern that spells a literal text -/

theorem mOne_ne (E : Option Char) {c : Char} (h : c ≠ '_') : (mOne E == some c) = false := by
  have h' : ¬ '_' = c := fun hh => h hh.symm
  unfold mOne; split <;> simp [h']

theorem mOne_esc (E : Option Char) {e : Char} (h : E = some e) : (mOne E == some e) = false := by
  by_cases he : e = '_'
  · subst he; subst h; simp [mOne]
  · exact mOne_ne E he

/-- `Lit E p P`: under escape setting `E` the pattern `P` spells the literal text `p`
    (plain characters stand for themselves, `escape + c` stands for `c`) -/
inductive Lit (E : Option Char) : List Char → List Char → Prop
  | nil : Lit E [] []
  | plain {c : Char} {p P : List Char} : c ≠ '%' → c ≠ '_' → E ≠ some c → Lit E p P →
      Lit E (c :: p) (c :: P)
  | esc {e c : Char} {p P : List Char} : E = some e → Lit E p P → Lit E (c :: p) (e :: c :: P)

section
variable (nc : Bool) (E : Option Char) (hA : mAll E = some '%')
include hA

theorem esc_ne_percent {e : Char} (h : E = some e) : e ≠ '%' := by
  intro he; subst he; subst h; simp [mAll] at hA

theorem mtch_Lit {p P : List Char} (h : Lit E p P) (rest : List Char) :
    ∀ s, mtch nc E (P ++ rest) s =
      match stripPrefix (eqv nc) p s with
      | some t => mtch nc E rest t
      | none => .no := by
  induction h with
  | nil => intro s; simp [stripPrefix]
  | @plain c p P h1 h2 h3 _ ih =>
    intro s
    have h1' : ¬ '%' = c := fun h => h1 h.symm
    have hp : (some '%' == some c) = false := by simp [h1']
    have hu : (mOne E == some c) = false := mOne_ne E h2
    have he : (E == some c) = false := by simp [h3]
    rw [List.cons_append, mtch.eq_def]
    simp only [hA, hp, hu, he, Bool.false_eq_true, if_false, Bool.or_false]
    cases s with
    | nil => simp [stripPrefix]
    | cons c2 s' =>
      simp only [stripPrefix]
      by_cases hq : eqv nc c c2 = true
      · simp only [hq, if_true]; exact ih s'
      · simp only [hq]; rfl
  | @esc e c p P hE _ ih =>
    intro s
    have h1' : ¬ '%' = e := fun h => esc_ne_percent E hA hE h.symm
    have hp : (some '%' == some e) = false := by simp [h1']
    have he : (E == some e) = true := by simp [hE]
    rw [List.cons_append, List.cons_append, mtch.eq_def]
    simp only [hA, hp, he, Bool.false_eq_true, if_false, if_true]
    cases s with
    | nil => simp [stripPrefix]
    | cons c2 s' =>
      simp only [stripPrefix]
      by_cases hq : eqv nc c c2 = true
      · simp only [hq, if_true]; exact ih s'
      · simp only [hq]; rfl

theorem star_Lit_cons {c : Char} {p P : List Char} (h : Lit E (c :: p) P) :
    ∃ P', Lit E p P' ∧ ∀ rest s, star nc E (P ++ rest) s = search nc (mtch nc E (P' ++ rest)) c s := by
  cases h with
  | @plain _ _ P' h1 h2 h3 hl =>
    refine ⟨P', hl, fun rest s => ?_⟩
    have h1' : ¬ '%' = c := fun h => h1 h.symm
    have hp : (some '%' == some c) = false := by simp [h1']
    have hu : (mOne E == some c) = false := mOne_ne E h2
    have he : (E == some c) = false := by simp [h3]
    rw [List.cons_append, star.eq_def]
    simp [hA, hp, hu, he]
  | @esc e _ _ P' hE hl =>
    refine ⟨P', hl, fun rest s => ?_⟩
    have h1' : ¬ '%' = e := fun h => esc_ne_percent E hA hE h.symm
    have hp : (some '%' == some e) = false := by simp [h1']
    have hu : (mOne E == some e) = false := mOne_esc E hE
    have he : (E == some e) = true := by simp [hE]
    rw [List.cons_append, List.cons_append, star.eq_def]
    simp [hA, hp, hu, he]

theorem star_nil' (s : List Char) : star nc E [] s = .yes := by
  rw [star.eq_def]

theorem star_percent' (s : List Char) : star nc E ['%'] s = .yes := by
  rw [star.eq_def]; simp [hA, star.eq_def]

theorem mtch_percent' (p s : List Char) : mtch nc E ('%' :: p) s = star nc E p s := by
  rw [mtch.eq_def]; simp [hA]

theorem mtch_Lit_end {p P : List Char} (h : Lit E p P) (s : List Char) :
    mtch nc E P s =
      match stripPrefix (eqv nc) p s with
      | some [] => .yes
      | _ => .no := by
  have := mtch_Lit nc E hA h [] s
  rw [List.append_nil] at this
  rw [this]
  cases hsp : stripPrefix (eqv nc) p s with
  | none => rfl
  | some t => cases t <;> simp [mtch]

theorem mtch_Lit_percent {p P : List Char} (h : Lit E p P) (s : List Char) :
    mtch nc E (P ++ ['%']) s = if (stripPrefix (eqv nc) p s).isSome then .yes else .no := by
  rw [mtch_Lit nc E hA h]
  cases hsp : stripPrefix (eqv nc) p s with
  | none => rfl
  | some t => simp [mtch_percent' nc E hA, star_nil' nc E hA]

theorem sqlite_startswith_Lit {p P : List Char} (h : Lit E p P) (s : List Char) :
    likeSqlite nc E (wrap .startswith P) s = (stripPrefix (eqv nc) p s).isSome := by
  simp only [likeSqlite, wrap, mtch_Lit_percent nc E hA h]
  cases (stripPrefix (eqv nc) p s).isSome <;> simp

theorem sqlite_endswith_Lit {p P : List Char} (h : Lit E p P) (s : List Char) :
    likeSqlite nc E (wrap .endswith P) s = true ↔
      ∃ pre post, s = pre ++ post ∧ stripPrefix (eqv nc) p post = some [] := by
  simp only [likeSqlite, wrap, mtch_percent' nc E hA, beq_iff_eq]
  cases p with
  | nil =>
    cases h
    simp only [star_nil' nc E hA, true_iff]
    exact ⟨s, [], by simp, rfl⟩
  | cons c p =>
    obtain ⟨P', hl, hstar⟩ := star_Lit_cons nc E hA h
    have := hstar [] s
    simp only [List.append_nil] at this
    have hna : ∀ t, mtch nc E P' t ≠ .abort := by
      intro t; rw [mtch_Lit_end nc E hA hl]; split <;> simp
    rw [this, search_yes_iff nc _ hna]
    constructor
    · rintro ⟨pre, c2, post, e, he, hm⟩
      refine ⟨pre, c2 :: post, e, ?_⟩
      rw [mtch_Lit_end nc E hA hl] at hm
      simp only [stripPrefix, he, if_true]
      split at hm <;> simp_all
    · rintro ⟨pre, post, e, hs⟩
      cases post with
      | nil => simp [stripPrefix] at hs
      | cons c2 post =>
        simp only [stripPrefix] at hs
        split at hs
        · rename_i he
          refine ⟨pre, c2, post, e, he, ?_⟩
          rw [mtch_Lit_end nc E hA hl, hs]
        · cases hs

theorem sqlite_contains_Lit {p P : List Char} (h : Lit E p P) (s : List Char) :
    likeSqlite nc E (wrap .contains P) s = true ↔
      ∃ pre post, s = pre ++ post ∧ (stripPrefix (eqv nc) p post).isSome = true := by
  simp only [likeSqlite, wrap, mtch_percent' nc E hA, beq_iff_eq]
  cases p with
  | nil =>
    cases h
    simp only [List.nil_append, star_percent' nc E hA, true_iff]
    exact ⟨[], s, by simp, rfl⟩
  | cons c p =>
    obtain ⟨P', hl, hstar⟩ := star_Lit_cons nc E hA h
    have hna : ∀ t, mtch nc E (P' ++ ['%']) t ≠ .abort := by
      intro t; rw [mtch_Lit_percent nc E hA hl]; split <;> simp
    rw [hstar ['%'] s, search_yes_iff nc _ hna]
    constructor
    · rintro ⟨pre, c2, post, e, he, hm⟩
      refine ⟨pre, c2 :: post, e, ?_⟩
      rw [mtch_Lit_percent nc E hA hl] at hm
      simp only [stripPrefix, he, if_true]
      split at hm <;> simp_all
    · rintro ⟨pre, post, e, hs⟩
      cases post with
      | nil => simp [stripPrefix] at hs
      | cons c2 post =>
        simp only [stripPrefix] at hs
        split at hs
        · rename_i he
          refine ⟨pre, c2, post, e, he, ?_⟩
          rw [mtch_Lit_percent nc E hA hl, if_pos hs]
        · cases hs

end

/-- the escaped operand spells the operand, for every escape character -/
theorem lit_Lit (esc : Char) (p : List Char) : Lit (some esc) p (lit esc p) := by
  induction p with
  | nil => exact .nil
  | cons c p ih =>
    by_cases hc : c = esc ∨ c = '%' ∨ c = '_'
    · simp only [lit, if_pos hc]; exact .esc rfl ih
    · simp only [lit, if_neg hc]
      refine .plain (fun h => hc (Or.inr (Or.inl h))) (fun h => hc (Or.inr (Or.inr h))) ?_ ih
      intro h; exact hc (Or.inl (Option.some.inj h).symm)

/-! ## ASCII lower-casing -/

theorem toNat_ofNat_small (n : Nat) (h : n < 0xd800) : (Char.ofNat n).toNat = n := by
  have hv : n.isValidChar := Or.inl h
  unfold Char.ofNat
  rw [dif_pos hv]
  simp [Char.ofNatAux, Char.toNat, UInt32.toNat]

theorem lowerAscii_idem (c : Char) : lowerAscii (lowerAscii c) = lowerAscii c := by
  unfold lowerAscii
  by_cases h : 65 ≤ c.toNat ∧ c.toNat ≤ 90
  · rw [if_pos h]
    have : (Char.ofNat (c.toNat + 32)).toNat = c.toNat + 32 := toNat_ofNat_small _ (by omega)
    rw [if_neg (by rw [this]; omega)]
  · rw [if_neg h, if_neg h]

def AllLower (l : List Char) : Prop := ∀ c ∈ l, lowerAscii c = c

theorem allLower_lowerS (s : List Char) : AllLower (lowerS s) := by
  intro c hc
  simp only [lowerS, List.mem_map] at hc
  obtain ⟨d, _, rfl⟩ := hc
  exact lowerAscii_idem d

theorem eqv_of_lower (nc : Bool) (a b : Char) (ha : lowerAscii a = a) (hb : lowerAscii b = b) :
    eqv nc a b = (a == b) := by
  simp only [eqv, ha, hb]
  cases h : (a == b) <;> simp

theorem stripPrefix_eqv_of_lower (nc : Bool) (p s : List Char) (hp : AllLower p) (hs : AllLower s) :
    stripPrefix (eqv nc) p s = stripPrefix (· == ·) p s := by
  induction p generalizing s with
  | nil => rfl
  | cons a p ih =>
    cases s with
    | nil => rfl
    | cons b s =>
      simp only [stripPrefix]
      rw [eqv_of_lower nc a b (hp a (by simp)) (hs b (by simp)),
        ih s (fun c hc => hp c (by simp [hc])) (fun c hc => hs c (by simp [hc]))]

/-- lower() commutes with the escaping when the escape character has no case -/
theorem lowerS_lit (esc : Char) (hesc : ∀ c, lowerAscii c = esc ↔ c = esc) (p : List Char) :
    lowerS (lit esc p) = lit esc (lowerS p) := by
  have hp : ∀ c, lowerAscii c = '%' ↔ c = '%' := by
    intro c; unfold lowerAscii
    by_cases h : 65 ≤ c.toNat ∧ c.toNat ≤ 90
    · rw [if_pos h]
      constructor
      · intro e
        have : (Char.ofNat (c.toNat + 32)).toNat = c.toNat + 32 := toNat_ofNat_small _ (by omega)
        rw [e] at this
        have : ('%' : Char).toNat = 37 := by decide
        omega
      · intro e; subst e; exact absurd h (by decide)
    · rw [if_neg h]
  have hu : ∀ c, lowerAscii c = '_' ↔ c = '_' := by
    intro c; unfold lowerAscii
    by_cases h : 65 ≤ c.toNat ∧ c.toNat ≤ 90
    · rw [if_pos h]
      constructor
      · intro e
        have : (Char.ofNat (c.toNat + 32)).toNat = c.toNat + 32 := toNat_ofNat_small _ (by omega)
        rw [e] at this
        have : ('_' : Char).toNat = 95 := by decide
        omega
      · intro e; subst e; exact absurd h (by decide)
    · rw [if_neg h]
  have he : lowerAscii esc = esc := (hesc esc).2 rfl
  induction p with
  | nil => rfl
  | cons c p ih =>
    simp only [lowerS] at ih
    by_cases hc : c = esc ∨ c = '%' ∨ c = '_'
    · have hc' : lowerAscii c = esc ∨ lowerAscii c = '%' ∨ lowerAscii c = '_' := by
        rw [hesc, hp, hu]; exact hc
      simp only [lit, lowerS, List.map_cons, if_pos hc, if_pos hc', he, ih]
    · have hc' : ¬ (lowerAscii c = esc ∨ lowerAscii c = '%' ∨ lowerAscii c = '_') := by
        rw [hesc, hp, hu]; exact hc
      simp only [lit, lowerS, List.map_cons, if_neg hc, if_neg hc', ih]


/-! ## the SQL-standard matcher on an escaped literal -/

theorem anySuffix_iff (f : List Char → Bool) (s : List Char) :
    anySuffix f s = true ↔ ∃ pre post, s = pre ++ post ∧ f post = true := by
  induction s with
  | nil =>
    simp only [anySuffix]
    constructor
    · intro h; exact ⟨[], [], rfl, h⟩
    · rintro ⟨pre, post, e, h⟩
      have : post = [] := by
        have := congrArg List.length e; simp at this; exact List.eq_nil_of_length_eq_zero (by omega)
      subst this; exact h
  | cons c s ih =>
    simp only [anySuffix, Bool.or_eq_true, ih]
    constructor
    · rintro (h | ⟨pre, post, e, h⟩)
      · exact ⟨[], c :: s, rfl, h⟩
      · exact ⟨c :: pre, post, by simp [e], h⟩
    · rintro ⟨pre, post, e, h⟩
      cases pre with
      | nil => left; simp only [List.nil_append] at e; rw [e]; exact h
      | cons d pre =>
        right
        simp only [List.cons_append, List.cons.injEq] at e
        exact ⟨pre, post, e.2, h⟩

theorem anySuffix_of_nil (f : List Char → Bool) (h : f [] = true) (s : List Char) :
    anySuffix f s = true :=
  (anySuffix_iff f s).2 ⟨s, [], by simp, h⟩

theorem likeStd_lit (nc : Bool) (esc : Char) (p rest s : List Char) :
    likeStd nc (some esc) (lit esc p ++ rest) s =
      match stripPrefix (ceq nc) p s with
      | some t => likeStd nc (some esc) rest t
      | none => false := by
  induction p generalizing s with
  | nil => simp [lit, stripPrefix]
  | cons c p ih =>
    by_cases hc : c = esc ∨ c = '%' ∨ c = '_'
    · simp only [lit, if_pos hc, List.cons_append]
      rw [likeStd.eq_def]
      simp only [beq_self_eq_true, if_true]
      cases s with
      | nil => simp [stripPrefix]
      | cons c2 s' =>
        simp only [stripPrefix]
        by_cases he : ceq nc c c2 = true
        · simp only [he, Bool.true_and, if_true]; exact ih s'
        · simp only [he, Bool.false_and]; rfl
    · have hce' : ¬ esc = c := fun h => hc (Or.inl h.symm)
      have hcp : ¬ c = '%' := fun h => hc (Or.inr (Or.inl h))
      have hcu : ¬ c = '_' := fun h => hc (Or.inr (Or.inr h))
      have hm : (some esc == some c) = false := by simp [hce']
      simp only [lit, if_neg hc, List.cons_append]
      rw [likeStd.eq_def]
      have hcu' : (c == '_') = false := by simp [hcu]
      have hcp' : (c == '%') = false := by simp [hcp]
      cases s with
      | nil => simp [stripPrefix, hm, hcp']
      | cons c2 s' =>
        simp only [stripPrefix, hm, hcp', hcu', Bool.false_or, Bool.false_eq_true, if_false]
        by_cases he : ceq nc c c2 = true
        · simp only [he, Bool.true_and, if_true]; exact ih s'
        · simp [he]

theorem likeStd_percent (nc : Bool) (esc : Char) (h1 : esc ≠ '%') (pat s : List Char) :
    likeStd nc (some esc) ('%' :: pat) s = anySuffix (likeStd nc (some esc) pat) s := by
  rw [likeStd.eq_def]
  simp [h1]

theorem std_startswith_raw (nc : Bool) (esc : Char) (h1 : esc ≠ '%') (p s : List Char) :
    likeStd nc (some esc) (wrap .startswith (lit esc p)) s =
      (stripPrefix (ceq nc) p s).isSome := by
  simp only [wrap, likeStd_lit]
  cases hsp : stripPrefix (ceq nc) p s with
  | none => rfl
  | some t =>
    simp only [Option.isSome_some, likeStd_percent nc esc h1]
    exact anySuffix_of_nil _ (by simp [likeStd]) t

theorem likeStd_lit_end (nc : Bool) (esc : Char) (p s : List Char) :
    likeStd nc (some esc) (lit esc p) s = true ↔ stripPrefix (ceq nc) p s = some [] := by
  have := likeStd_lit nc esc p [] s
  rw [List.append_nil] at this
  rw [this]
  cases hsp : stripPrefix (ceq nc) p s with
  | none => simp
  | some t => cases t <;> simp [likeStd]

theorem std_endswith_raw (nc : Bool) (esc : Char) (h1 : esc ≠ '%') (p s : List Char) :
    likeStd nc (some esc) (wrap .endswith (lit esc p)) s = true ↔
      ∃ pre post, s = pre ++ post ∧ stripPrefix (ceq nc) p post = some [] := by
  simp only [wrap, likeStd_percent nc esc h1, anySuffix_iff, likeStd_lit_end]

theorem std_contains_raw (nc : Bool) (esc : Char) (h1 : esc ≠ '%') (p s : List Char) :
    likeStd nc (some esc) (wrap .contains (lit esc p)) s = true ↔
      ∃ pre post, s = pre ++ post ∧ (stripPrefix (ceq nc) p post).isSome = true := by
  simp only [wrap, likeStd_percent nc esc h1, anySuffix_iff]
  have := std_startswith_raw nc esc h1 p
  simp only [wrap] at this
  simp only [this]

/-! ## from the raw shapes to prefix / suffix / infix -/

theorem ceq_false : ceq false = (· == ·) := by
  funext a b; simp [ceq]

theorem raw_suffix_iff (p s : List Char) :
    (∃ pre post, s = pre ++ post ∧ stripPrefix (· == ·) p post = some []) ↔ p <:+ s := by
  constructor
  · rintro ⟨pre, post, e, h⟩
    have := (stripPrefix_eq_some_iff p post []).1 h
    exact ⟨pre, by rw [e, this]; simp⟩
  · rintro ⟨pre, e⟩
    exact ⟨pre, p, e.symm, (stripPrefix_eq_some_iff p p []).2 (by simp)⟩

theorem raw_infix_iff (p s : List Char) :
    (∃ pre post, s = pre ++ post ∧ (stripPrefix (· == ·) p post).isSome = true) ↔ p <:+: s := by
  constructor
  · rintro ⟨pre, post, e, h⟩
    obtain ⟨t, ht⟩ := (stripPrefix_isSome_iff p post).1 h
    exact ⟨pre, t, by rw [e, ← ht]; simp⟩
  · rintro ⟨pre, t, e⟩
    exact ⟨pre, p ++ t, by rw [← e]; simp, (stripPrefix_isSome_iff p (p ++ t)).2 ⟨t, rfl⟩⟩


/-! ## case-insensitive comparison = equality after ASCII lower-casing -/

theorem stripPrefix_ceq_true (p s : List Char) :
    (stripPrefix (ceq true) p s).map lowerS = stripPrefix (· == ·) (lowerS p) (lowerS s) := by
  induction p generalizing s with
  | nil => rfl
  | cons a p ih =>
    cases s with
    | nil => rfl
    | cons b s =>
      simp only [stripPrefix, lowerS, List.map_cons, ceq, if_true]
      by_cases h : (lowerAscii a == lowerAscii b) = true
      · simp only [h, if_true]; exact ih s
      · simp [h]

theorem stripPrefix_ceq_true_isSome (p s : List Char) :
    (stripPrefix (ceq true) p s).isSome = (stripPrefix (· == ·) (lowerS p) (lowerS s)).isSome := by
  rw [← stripPrefix_ceq_true, Option.isSome_map]

theorem stripPrefix_ceq_true_nil (p s : List Char) :
    stripPrefix (ceq true) p s = some [] ↔
      stripPrefix (· == ·) (lowerS p) (lowerS s) = some [] := by
  rw [← stripPrefix_ceq_true]
  constructor
  · intro h; rw [h]; rfl
  · intro h
    obtain ⟨t, ht, e⟩ := Option.map_eq_some_iff.1 h
    have : t = [] := by simpa [lowerS] using e
    rw [ht, this]

theorem raw_ci_suffix_iff (p s : List Char) :
    (∃ pre post, s = pre ++ post ∧ stripPrefix (ceq true) p post = some []) ↔
      lowerS p <:+ lowerS s := by
  constructor
  · rintro ⟨pre, post, e, h⟩
    have := (stripPrefix_eq_some_iff _ _ _).1 ((stripPrefix_ceq_true_nil p post).1 h)
    refine ⟨lowerS pre, ?_⟩
    rw [e]; simp only [lowerS, List.map_append] at this ⊢; rw [this]; simp
  · rintro ⟨pre', e⟩
    obtain ⟨pre, post, e1, e2, e3⟩ := List.map_eq_append_iff.1 e.symm
    refine ⟨pre, post, e1, (stripPrefix_ceq_true_nil p post).2 ?_⟩
    exact (stripPrefix_eq_some_iff _ _ _).2 (by simp [lowerS, e3])

theorem raw_ci_infix_iff (p s : List Char) :
    (∃ pre post, s = pre ++ post ∧ (stripPrefix (ceq true) p post).isSome = true) ↔
      lowerS p <:+: lowerS s := by
  constructor
  · rintro ⟨pre, post, e, h⟩
    rw [stripPrefix_ceq_true_isSome] at h
    obtain ⟨t, ht⟩ := (stripPrefix_isSome_iff _ _).1 h
    refine ⟨lowerS pre, t, ?_⟩
    rw [e]; simp only [lowerS, List.map_append] at ht ⊢; rw [← ht]; simp
  · rintro ⟨pre', t', e⟩
    obtain ⟨l1, post2, e1, e2, e3⟩ := List.map_eq_append_iff.1 e.symm
    obtain ⟨pre, mid, e4, e5, e6⟩ := List.map_eq_append_iff.1 e2
    refine ⟨pre, mid ++ post2, by rw [e1, e4]; simp, ?_⟩
    rw [stripPrefix_ceq_true_isSome]
    exact (stripPrefix_isSome_iff _ _).2 ⟨lowerS post2, by simp [lowerS, e6]⟩

theorem raw_ci_prefix_iff (p s : List Char) :
    (stripPrefix (ceq true) p s).isSome = true ↔ lowerS p <+: lowerS s := by
  rw [stripPrefix_ceq_true_isSome]; exact stripPrefix_isSome_iff _ _

/-- SQLite's `noCase` comparison is equality after ASCII lower-casing -/
theorem eqv_true_eq_ceq : eqv true = ceq true := by
  funext a b
  simp only [eqv, ceq, Bool.true_and, if_true]
  by_cases hab : a = b
  · subst hab; simp
  · by_cases hl : lowerAscii a = lowerAscii b
    · have key : a.toNat < 128 ∧ b.toNat < 128 := by
        unfold lowerAscii at hl
        by_cases ha : 65 ≤ a.toNat ∧ a.toNat ≤ 90
        · by_cases hb : 65 ≤ b.toNat ∧ b.toNat ≤ 90
          · rw [if_pos ha, if_pos hb] at hl
            have h1 := toNat_ofNat_small (a.toNat + 32) (by omega)
            have h2 := toNat_ofNat_small (b.toNat + 32) (by omega)
            rw [hl] at h1
            exact absurd (Char.toNat_inj.1 (by omega)) hab
          · rw [if_pos ha, if_neg hb] at hl
            have h1 := toNat_ofNat_small (a.toNat + 32) (by omega)
            rw [hl] at h1
            omega
        · by_cases hb : 65 ≤ b.toNat ∧ b.toNat ≤ 90
          · rw [if_neg ha, if_pos hb] at hl
            have h2 := toNat_ofNat_small (b.toNat + 32) (by omega)
            rw [← hl] at h2
            omega
          · rw [if_neg ha, if_neg hb] at hl
            exact absurd hl hab
      simp [hl, key.1, key.2]
    · have e1 : (a == b) = false := beq_eq_false_iff_ne.2 hab
      have e2 : (lowerAscii a == lowerAscii b) = false := beq_eq_false_iff_ne.2 hl
      rw [e1, e2]; rfl

end SaVerif.Like
