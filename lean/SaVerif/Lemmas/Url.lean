import SaVerif.Model.Url
/-! Helper lemmas about M-URL, part 1: percent-coding and UTF-8 (core Lean only). -/
namespace SaVerif.Url

/-! ### hex digits -/

theorem hexVal_hexDigit : ∀ n : Fin 16, hexVal? (hexDigit n.val) = some n.val := by decide

theorem hexVal_hexDigit' {n : Nat} (h : n < 16) : hexVal? (hexDigit n) = some n :=
  hexVal_hexDigit ⟨n, h⟩

def isHexUp (c : Char) : Bool := ('0' ≤ c && c ≤ '9') || ('A' ≤ c && c ≤ 'F')

theorem isHexUp_hexDigit : ∀ n : Fin 16, isHexUp (hexDigit n.val) = true := by decide

theorem byte_recompose (b : UInt8) : UInt8.ofNat (16 * (b.toNat / 16) + b.toNat % 16) = b := by
  rw [Nat.div_add_mod]
  exact UInt8.ofNat_toNat

theorem uint8_div_lt (b : UInt8) : b.toNat / 16 < 16 := by
  have := b.toNat_lt
  omega

theorem uint8_mod_lt (b : UInt8) : b.toNat % 16 < 16 := Nat.mod_lt _ (by decide)

/-! ### pctDecode -/

theorem pctDecode_pctByte (b : UInt8) (t : Str) : pctDecode (pctByte b ++ t) = b :: pctDecode t := by
  simp only [pctByte, List.cons_append, List.nil_append]
  rw [pctDecode]
  simp only [beq_self_eq_true, if_true, hexVal_hexDigit' (uint8_div_lt b),
    hexVal_hexDigit' (uint8_mod_lt b), byte_recompose]

theorem pctDecode_flatMap (bs : List UInt8) (t : Str) :
    pctDecode (bs.flatMap pctByte ++ t) = bs ++ pctDecode t := by
  induction bs with
  | nil => simp
  | cons b bs ih =>
    rw [List.flatMap_cons, List.append_assoc, pctDecode_pctByte, ih]
    rfl

theorem pctDecode_cons_ne {c : Char} (hc : c ≠ '%') (t : Str) :
    pctDecode (c :: t) = String.utf8EncodeChar c ++ pctDecode t := by
  have hb : (c == '%') = false := by simpa using hc
  match t with
  | [] => simp [pctDecode]
  | [d] => simp [pctDecode]
  | d :: e :: r => rw [pctDecode]; simp only [hb, Bool.false_eq_true, if_false]

theorem alwaysSafe_pct : alwaysSafe '%' = false := by decide

theorem isSafe_pct_iff (safe : Str) : isSafe safe '%' = false ↔ '%' ∉ safe := by
  simp [isSafe, alwaysSafe_pct]

theorem quote_nil (safe : Str) : quote safe [] = [] := rfl

theorem quote_cons (safe : Str) (c : Char) (s : Str) :
    quote safe (c :: s) = quoteChar safe c ++ quote safe s := by
  simp [quote]

theorem quoteChar_safe {safe : Str} {c : Char} (h : isSafe safe c = true) : quoteChar safe c = [c] := by
  simp [quoteChar, h]

theorem quoteChar_unsafe {safe : Str} {c : Char} (h : isSafe safe c = false) :
    quoteChar safe c = (String.utf8EncodeChar c).flatMap pctByte := by
  simp [quoteChar, h]

theorem pctDecode_quote_append (safe : Str) (hs : '%' ∉ safe) (s t : Str) :
    pctDecode (quote safe s ++ t) = s.flatMap String.utf8EncodeChar ++ pctDecode t := by
  induction s with
  | nil => simp [quote]
  | cons c s ih =>
    rw [quote_cons, List.flatMap_cons, List.append_assoc, List.append_assoc]
    cases hc : isSafe safe c with
    | true =>
      have hne : c ≠ '%' := by
        intro he
        rw [he, (isSafe_pct_iff safe).2 hs] at hc
        cases hc
      rw [quoteChar_safe hc, List.cons_append, List.nil_append, pctDecode_cons_ne hne, ih]
    | false =>
      rw [quoteChar_unsafe hc, pctDecode_flatMap, ih]

theorem pctDecode_quote (safe : Str) (hs : '%' ∉ safe) (s : Str) :
    pctDecode (quote safe s) = s.flatMap String.utf8EncodeChar := by
  have := pctDecode_quote_append safe hs s []
  simpa [pctDecode] using this


/-! ### UTF-8 (on top of core's `utf8DecodeChar?_utf8EncodeChar_append`) -/

theorem decodeUtf8Aux_encode : ∀ (cs : Str) (fuel : Nat),
    (cs.flatMap String.utf8EncodeChar).length ≤ fuel →
    decodeUtf8Aux fuel (cs.flatMap String.utf8EncodeChar) = cs := by
  intro cs
  induction cs with
  | nil => intro fuel _; cases fuel <;> simp [decodeUtf8Aux]
  | cons c cs ih =>
    intro fuel hf
    rw [List.flatMap_cons] at hf ⊢
    have hlen : (String.utf8EncodeChar c).length = c.utf8Size := String.length_utf8EncodeChar c
    have hpos : 0 < c.utf8Size := c.utf8Size_pos
    rw [List.length_append] at hf
    cases fuel with
    | zero => omega
    | succ f =>
      cases hl : String.utf8EncodeChar c ++ cs.flatMap String.utf8EncodeChar with
      | nil =>
        have := congrArg List.length hl
        simp only [List.length_append, List.length_nil] at this
        omega
      | cons b bs =>
        rw [decodeUtf8Aux]
        have hdec : (b :: bs).toByteArray.utf8DecodeChar? 0 = some c := by
          rw [← hl, List.toByteArray_append]
          exact ByteArray.utf8DecodeChar?_utf8EncodeChar_append
        rw [hdec]
        simp only
        have hdrop : (b :: bs).drop c.utf8Size = cs.flatMap String.utf8EncodeChar := by
          rw [← hl, ← hlen, List.drop_left]
        rw [hdrop, ih f (by omega)]

theorem decodeUtf8_encode (cs : Str) : decodeUtf8 (cs.flatMap String.utf8EncodeChar) = cs :=
  decodeUtf8Aux_encode cs _ (Nat.le_refl _)

/-! ### character classes of `quote` output -/

/-- what `quote safe` can emit -/
def qAllowed (safe : Str) (c : Char) : Bool := isSafe safe c || c == '%' || isHexUp c

theorem mem_pctByte {b : UInt8} {c : Char} (h : c ∈ pctByte b) : c = '%' ∨ isHexUp c = true := by
  simp only [pctByte, List.mem_cons, List.not_mem_nil, or_false] at h
  rcases h with h | h | h
  · exact Or.inl h
  · exact Or.inr (h ▸ isHexUp_hexDigit ⟨_, uint8_div_lt b⟩)
  · exact Or.inr (h ▸ isHexUp_hexDigit ⟨_, uint8_mod_lt b⟩)

theorem mem_quoteChar {safe : Str} {c x : Char} (h : x ∈ quoteChar safe c) : qAllowed safe x = true := by
  cases hc : isSafe safe c with
  | true =>
    rw [quoteChar_safe hc] at h
    simp only [List.mem_singleton] at h
    subst h
    simp [qAllowed, hc]
  | false =>
    rw [quoteChar_unsafe hc] at h
    obtain ⟨b, _, hb⟩ := List.mem_flatMap.1 h
    rcases mem_pctByte hb with h1 | h1
    · simp [qAllowed, h1]
    · simp [qAllowed, h1]

theorem mem_quote {safe : Str} {s : Str} {x : Char} (h : x ∈ quote safe s) : qAllowed safe x = true := by
  unfold quote at h
  obtain ⟨c, _, hc⟩ := List.mem_flatMap.1 h
  exact mem_quoteChar hc

theorem isAscii_of_qAllowed {safe : Str} {x : Char} (h : qAllowed safe x = true) : isAscii x = true := by
  simp only [qAllowed, Bool.or_eq_true] at h
  rcases h with (h | h) | h
  · simp only [isSafe, Bool.and_eq_true, decide_eq_true_eq] at h
    simp [isAscii, h.1]
  · simp only [beq_iff_eq] at h; subst h; decide
  · simp only [isHexUp, Bool.or_eq_true, Bool.and_eq_true, decide_eq_true_eq] at h
    simp only [isAscii, decide_eq_true_eq]
    rcases h with ⟨_, h2⟩ | ⟨_, h2⟩
    · have : x.toNat ≤ ('9' : Char).toNat := h2
      have e : ('9' : Char).toNat = 57 := by decide
      omega
    · have : x.toNat ≤ ('F' : Char).toNat := h2
      have e : ('F' : Char).toNat = 70 := by decide
      omega

/-- no escape was needed ⇒ `quote` is the identity -/
theorem quote_eq_self_of_no_pct {safe : Str} : ∀ {s : Str}, '%' ∉ quote safe s → quote safe s = s := by
  intro s
  induction s with
  | nil => intro _; rfl
  | cons c s ih =>
    intro h
    rw [quote_cons] at h ⊢
    simp only [List.mem_append, not_or] at h
    cases hc : isSafe safe c with
    | true => rw [quoteChar_safe hc, ih h.2]; rfl
    | false =>
      exfalso
      apply h.1
      rw [quoteChar_unsafe hc]
      have hne := @String.utf8EncodeChar_ne_nil c
      cases hb : String.utf8EncodeChar c with
      | nil => exact absurd hb hne
      | cons b bs => simp [pctByte]


/-! ### unquote ∘ quote -/

theorem unquoteRuns_nil (fuel : Nat) : unquoteRuns fuel [] = [] := by
  cases fuel <;> rfl

theorem takeWhile_all {α} {p : α → Bool} : ∀ {l : List α}, (∀ x ∈ l, p x = true) → l.takeWhile p = l := by
  intro l
  induction l with
  | nil => intro _; rfl
  | cons a l ih =>
    intro h
    rw [List.takeWhile_cons, h a List.mem_cons_self]
    simp only [if_true]
    rw [ih (fun x hx => h x (List.mem_cons_of_mem _ hx))]

theorem dropWhile_all {α} {p : α → Bool} : ∀ {l : List α}, (∀ x ∈ l, p x = true) → l.dropWhile p = [] := by
  intro l
  induction l with
  | nil => intro _; rfl
  | cons a l ih =>
    intro h
    rw [List.dropWhile_cons, h a List.mem_cons_self]
    simp only [if_true]
    exact ih (fun x hx => h x (List.mem_cons_of_mem _ hx))

theorem unquoteRuns_ascii {c : Char} {t : Str} (h : ∀ x ∈ c :: t, isAscii x = true) (fuel : Nat) :
    unquoteRuns (fuel + 1) (c :: t) = decodeUtf8 (pctDecode (c :: t)) := by
  rw [unquoteRuns]
  simp only [h c List.mem_cons_self, if_true]
  rw [takeWhile_all h, dropWhile_all h, unquoteRuns_nil, List.append_nil]

/-- **unquote ∘ quote = id** for every string and every `safe` argument without `%` -/
theorem unquote_quote' (safe : Str) (hs : '%' ∉ safe) (s : Str) : unquote (quote safe s) = s := by
  unfold unquote
  by_cases hp : (quote safe s).contains '%' = true
  · rw [if_pos hp]
    have hasc : ∀ x ∈ quote safe s, isAscii x = true := fun x hx => isAscii_of_qAllowed (mem_quote hx)
    cases hq : quote safe s with
    | nil => rw [hq] at hp; simp at hp
    | cons c t =>
      rw [hq] at hasc
      rw [List.length_cons, unquoteRuns_ascii hasc, ← hq, pctDecode_quote safe hs, decodeUtf8_encode]
  · rw [if_neg hp]
    exact quote_eq_self_of_no_pct (by simpa using hp)

end SaVerif.Url
