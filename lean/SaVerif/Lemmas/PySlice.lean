import SaVerif.Lemmas.PySeq
/-! slice.indices bounds, validity of range positions, the extended-slice loop. -/
namespace SaVerif.PySeq

theorem adjust_bounds (len : Nat) (lower upper v : Int) (hlu : lower ≤ upper) :
    lower ≤ adjust len lower upper v ∨ 0 ≤ adjust len lower upper v := by
  unfold adjust
  split
  · split
    · exact Or.inl (Int.le_refl _)
    · exact Or.inl (by omega)
  · split
    · exact Or.inl hlu
    · exact Or.inr (by omega)

/-- what `slice.indices` guarantees -/
theorem sliceIndices_bounds {len : Nat} {s : Slice} {start stop step : Int}
    (h : sliceIndices len s = some (start, stop, step)) :
    step ≠ 0 ∧
    (0 < step → 0 ≤ start ∧ start ≤ len ∧ 0 ≤ stop ∧ stop ≤ len) ∧
    (step < 0 → -1 ≤ start ∧ start ≤ (len : Int) - 1 ∧ -1 ≤ stop ∧ stop ≤ (len : Int) - 1) := by
  unfold sliceIndices at h
  simp only at h
  by_cases h0 : (s.step.getD 1 == 0) = true
  · rw [if_pos h0] at h; cases h
  · rw [if_neg h0] at h
    simp only [Option.some.injEq, Prod.mk.injEq] at h
    obtain ⟨hs, ht, hp⟩ := h
    have hne : s.step.getD 1 ≠ 0 := by simpa using h0
    subst hp
    refine ⟨hne, ?_, ?_⟩
    · intro hpos
      have hn : ¬ (s.step.getD 1 < 0) := by omega
      simp only [hn, if_false] at hs ht
      subst hs; subst ht
      unfold adjust
      cases s.start <;> cases s.stop <;> simp only <;> (repeat' split) <;> omega
    · intro hneg
      simp only [hneg, if_true] at hs ht
      subst hs; subst ht
      unfold adjust
      cases s.start <;> cases s.stop <;> simp only <;> (repeat' split) <;> omega

theorem rangeLen_step1 (start stop : Int) :
    rangeLen start stop 1 = (stop - start).toNat := by
  unfold rangeLen
  simp only [show (1 : Int) > 0 by omega, if_true]
  split
  · rw [Int.ediv_one]; congr 1; omega
  · omega

/-- every position produced by `range(*slice.indices(len))` is a valid index -/
theorem rangeList_valid {len : Nat} {s : Slice} {start stop step : Int}
    (h : sliceIndices len s = some (start, stop, step)) :
    ∀ i ∈ rangeList start stop step, 0 ≤ i ∧ i < len := by
  obtain ⟨hne, hpos, hneg⟩ := sliceIndices_bounds h
  intro i hi
  unfold rangeList at hi
  rw [List.mem_map] at hi
  obtain ⟨k, hk, rfl⟩ := hi
  rw [List.mem_range] at hk
  unfold rangeLen at hk
  by_cases hp : step > 0
  · obtain ⟨h1, h2, h3, h4⟩ := hpos hp
    simp only [hp, if_true] at hk
    split at hk
    · rename_i hlt
      have hq : 0 ≤ (stop - start - 1) / step := Int.ediv_nonneg (by omega) (by omega)
      have hk' : (k : Int) ≤ (stop - start - 1) / step := by
        have : (k : Int) < (stop - start - 1) / step + 1 := by
          have := Int.lt_toNat.1 hk; exact this
        omega
      have hmul : (k : Int) * step ≤ (stop - start - 1) / step * step :=
        Int.mul_le_mul_of_nonneg_right hk' (by omega)
      have hle : (stop - start - 1) / step * step ≤ stop - start - 1 :=
        Int.ediv_mul_le _ (by omega)
      have hk0 : 0 ≤ (k : Int) * step := Int.mul_nonneg (by omega) (by omega)
      constructor <;> omega
    · omega
  · have hn : step < 0 := by omega
    obtain ⟨h1, h2, h3, h4⟩ := hneg hn
    have hnp : ¬ (step > 0) := hp
    simp only [hnp, if_false, hn, if_true] at hk
    split at hk
    · rename_i hlt
      have hq : 0 ≤ (start - stop - 1) / (-step) := Int.ediv_nonneg (by omega) (by omega)
      have hk' : (k : Int) ≤ (start - stop - 1) / (-step) := by
        have : (k : Int) < (start - stop - 1) / (-step) + 1 := by
          have := Int.lt_toNat.1 hk; exact this
        omega
      have hmul : (k : Int) * (-step) ≤ (start - stop - 1) / (-step) * (-step) :=
        Int.mul_le_mul_of_nonneg_right hk' (by omega)
      have hle : (start - stop - 1) / (-step) * (-step) ≤ start - stop - 1 :=
        Int.ediv_mul_le _ (by omega)
      have hk0 : 0 ≤ (k : Int) * (-step) := Int.mul_nonneg (by omega) (by omega)
      have hneg' : (k : Int) * step = -((k : Int) * (-step)) := by
        rw [Int.mul_neg, Int.neg_neg]
      constructor <;> omega
    · omega

/-! ### single item assignment at a valid position -/

theorem iSetItem_valid {l : List Item} {i : Int} (x : Item) (h0 : 0 ≤ i) (h1 : i < l.length) :
    ∃ old, l[i.toNat]? = some old ∧
      iSetItem l i x = ⟨l.set i.toNat x, [.rem old, .app x], .none⟩ := by
  have hk : i.toNat < l.length := (Int.toNat_lt h0).2 h1
  have hn : normIndex l.length i = some i.toNat := by
    unfold normIndex
    have : ¬ i < 0 := by omega
    simp [this, hk]
  refine ⟨l[i.toNat], List.getElem?_eq_getElem hk, ?_⟩
  unfold iSetItem pGet pSetItem
  rw [hn]
  simp only
  rw [List.getElem?_eq_getElem hk]

/-- the extended-slice loop with valid positions = assigning every position, with one
    remove and one append event per position, accounted -/
theorem extLoop_spec (rng : List Int) : ∀ (xs l : List Item) (ev : List Event),
    (∀ i ∈ rng, 0 ≤ i ∧ i < l.length) →
    ∃ ev', extLoop rng xs l ev = ⟨assignAll l rng xs, ev ++ ev', .none⟩ ∧
      Accounts l ev' (assignAll l rng xs) := by
  induction rng with
  | nil =>
    intro xs l ev _
    exact ⟨[], by simp [extLoop, assignAll], by simp [assignAll]; exact acc_refl l⟩
  | cons i is ih =>
    intro xs l ev hv
    cases xs with
    | nil => exact ⟨[], by simp [extLoop, assignAll], by simp [assignAll]; exact acc_refl l⟩
    | cons x xs =>
      obtain ⟨h0, h1⟩ := hv i (by simp)
      obtain ⟨old, hold, hset⟩ := iSetItem_valid x h0 h1
      have hlen : (l.set i.toNat x).length = l.length := List.length_set
      have hv' : ∀ j ∈ is, 0 ≤ j ∧ j < (l.set i.toNat x).length := by
        intro j hj; rw [hlen]; exact hv j (by simp [hj])
      obtain ⟨ev', he, hacc⟩ := ih xs (l.set i.toNat x) (ev ++ [.rem old, .app x]) hv'
      refine ⟨[.rem old, .app x] ++ ev', ?_, ?_⟩
      · simp only [extLoop]
        rw [hset]
        simp only
        have hni : ¬ i < 0 := by omega
        simp only [assignAll, hni, if_false]
        rw [he]
        simp
      · have hni : ¬ i < 0 := by omega
        simp only [assignAll, hni, if_false]
        exact acc_trans (acc_set hold) hacc

end SaVerif.PySeq
