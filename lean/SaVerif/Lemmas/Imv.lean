import SaVerif.Model.Imv
/-! Helper lemmas about M-IMV (core Lean only). -/
namespace SaVerif.Imv

/-! ### chunking -/

theorem chunkAux_flatten {α : Type} (n : Nat) (hn : 0 < n) :
    ∀ (fuel : Nat) (l : List α), l.length ≤ fuel → (chunkAux n fuel l).flatten = l := by
  intro fuel
  induction fuel with
  | zero =>
    intro l h
    have : l = [] := List.eq_nil_of_length_eq_zero (by omega)
    subst this; simp [chunkAux]
  | succ f ih =>
    intro l h
    simp only [chunkAux]
    split
    · rename_i he
      simp only [List.isEmpty_iff] at he
      subst he; simp
    · rename_i he
      have hpos : 0 < l.length := by
        cases l with
        | nil => simp at he
        | cons a t => simp
      have : (l.drop n).length ≤ f := by
        rw [List.length_drop]; omega
      simp only [List.flatten_cons, ih _ this, List.take_append_drop]

theorem chunkAux_mem {α : Type} (n : Nat) (hn : 0 < n) :
    ∀ (fuel : Nat) (l : List α) (b : List α), b ∈ chunkAux n fuel l →
      b ≠ [] ∧ b.length ≤ n := by
  intro fuel
  induction fuel with
  | zero => intro l b h; simp [chunkAux] at h
  | succ f ih =>
    intro l b h
    simp only [chunkAux] at h
    split at h
    · simp at h
    · rename_i he
      rcases List.mem_cons.1 h with rfl | h
      · constructor
        · cases l with
          | nil => simp at he
          | cons a t =>
            cases n with
            | zero => omega
            | succ m => simp
        · rw [List.length_take]; omega
      · exact ih _ _ h

/-- every chunk except possibly the last one is full -/
theorem chunkAux_dropLast_full {α : Type} (n : Nat) :
    ∀ (fuel : Nat) (l : List α) (b : List α), b ∈ (chunkAux n fuel l).dropLast →
      b.length = n := by
  intro fuel
  induction fuel with
  | zero => intro l b h; simp [chunkAux] at h
  | succ f ih =>
    intro l b h
    simp only [chunkAux] at h
    split at h
    · simp at h
    · cases hrest : chunkAux n f (l.drop n) with
      | nil => rw [hrest] at h; simp at h
      | cons c cs =>
        rw [hrest, List.dropLast_cons_cons] at h
        rcases List.mem_cons.1 h with rfl | h
        · -- the rest is non-empty, so drop n l is non-empty, so take n l is full
          have hne : l.drop n ≠ [] := by
            intro hd
            cases f with
            | zero => simp [chunkAux] at hrest
            | succ g => simp [chunkAux, hd] at hrest
          have : n < l.length := by
            have := List.length_pos_iff.2 hne
            rw [List.length_drop] at this; omega
          rw [List.length_take]; omega
        · exact ih _ _ (by rw [hrest]; exact h)

theorem totalBatches_step (m n : Nat) (hn : 0 < n) :
    totalBatches (m + n) n = totalBatches m n + 1 := by
  unfold totalBatches
  rw [Nat.add_div_right m hn, Nat.add_mod_right]
  omega

theorem chunkAux_length {α : Type} (n : Nat) (hn : 0 < n) :
    ∀ (fuel : Nat) (l : List α), l.length ≤ fuel →
      (chunkAux n fuel l).length = totalBatches l.length n := by
  intro fuel
  induction fuel with
  | zero =>
    intro l h
    have : l = [] := List.eq_nil_of_length_eq_zero (by omega)
    subst this; simp [chunkAux, totalBatches]
  | succ f ih =>
    intro l h
    simp only [chunkAux]
    split
    · rename_i he
      simp only [List.isEmpty_iff] at he
      subst he; simp [totalBatches]
    · rename_i he
      have hpos : 0 < l.length := by
        cases l with
        | nil => simp at he
        | cons a t => simp
      have hd : (l.drop n).length ≤ f := by rw [List.length_drop]; omega
      rw [List.length_cons, ih _ hd, List.length_drop]
      by_cases hle : n ≤ l.length
      · have : l.length = (l.length - n) + n := by omega
        rw [this, totalBatches_step _ _ hn]; simp
      · have hlt : l.length < n := by omega
        have h0 : l.length - n = 0 := by omega
        rw [h0]
        unfold totalBatches
        rw [Nat.div_eq_of_lt hlt, Nat.mod_eq_of_lt hlt, Nat.zero_div, Nat.zero_mod]
        have : l.length ≠ 0 := by omega
        simp [this]

/-! ### mkBatches / mkRows -/

theorem mkBatches_params {α : Type} (bs total : Nat) :
    ∀ (num : Nat) (cs : List (List α)), (mkBatches bs total num cs).map (·.params) = cs := by
  intro num cs
  induction cs generalizing num with
  | nil => simp [mkBatches]
  | cons c cs ih => simp [mkBatches, ih]

theorem mkBatches_nums {α : Type} (bs total : Nat) :
    ∀ (num : Nat) (cs : List (List α)),
      (mkBatches bs total num cs).map (·.num) = (List.range cs.length).map (· + num) := by
  intro num cs
  induction cs generalizing num with
  | nil => simp [mkBatches]
  | cons c cs ih =>
    simp only [mkBatches, List.map_cons, ih, List.length_cons, List.range_succ_eq_map,
      List.map_map]
    simp only [Nat.zero_add, List.cons.injEq, true_and]
    apply List.map_congr_left
    intro a _; simp; omega

theorem mkBatches_mem {α : Type} (bs total : Nat) :
    ∀ (num : Nat) (cs : List (List α)) (b : Batch α), b ∈ mkBatches bs total num cs →
      b.total = total ∧ b.downgraded = false ∧ b.params ∈ cs ∧
      ((∀ c ∈ cs.dropLast, c.length = bs) → b.current = b.params.length) := by
  intro num cs
  induction cs generalizing num with
  | nil => intro b h; simp [mkBatches] at h
  | cons c cs ih =>
    intro b h
    simp only [mkBatches] at h
    rcases List.mem_cons.1 h with rfl | h
    · refine ⟨rfl, rfl, by simp, ?_⟩
      intro hfull
      cases cs with
      | nil => simp
      | cons d ds =>
        simp only [List.isEmpty_cons, Bool.false_eq_true, ↓reduceIte]
        exact (hfull c (by simp)).symm
    · obtain ⟨h1, h2, h3, h4⟩ := ih _ _ h
      refine ⟨h1, h2, List.mem_cons_of_mem _ h3, ?_⟩
      intro hfull
      apply h4
      intro d hd
      apply hfull
      cases cs with
      | nil => simp at hd
      | cons e es => rw [List.dropLast_cons_cons]; exact List.mem_cons_of_mem _ hd

theorem mkRows_params {α : Type} (len : Nat) (d : Bool) :
    ∀ (num : Nat) (ps : List α), ((mkRows len d num ps).map (·.params)).flatten = ps := by
  intro num ps
  induction ps generalizing num with
  | nil => simp [mkRows]
  | cons p ps ih => simp [mkRows, ih]

theorem mkRows_mem {α : Type} (len : Nat) (d : Bool) :
    ∀ (num : Nat) (ps : List α) (b : Batch α), b ∈ mkRows len d num ps →
      b.total = len ∧ b.downgraded = d ∧ b.current = 1 ∧ ∃ p, p ∈ ps ∧ b.params = [p] := by
  intro num ps
  induction ps generalizing num with
  | nil => intro b h; simp [mkRows] at h
  | cons p ps ih =>
    intro b h
    simp only [mkRows] at h
    rcases List.mem_cons.1 h with rfl | h
    · exact ⟨rfl, rfl, rfl, p, by simp, rfl⟩
    · obtain ⟨h1, h2, h3, q, hq, h4⟩ := ih _ _ h
      exact ⟨h1, h2, h3, q, List.mem_cons_of_mem _ hq, h4⟩

theorem mkRows_length {α : Type} (len : Nat) (d : Bool) :
    ∀ (num : Nat) (ps : List α), (mkRows len d num ps).length = ps.length := by
  intro num ps
  induction ps generalizing num with
  | nil => simp [mkRows]
  | cons p ps ih => simp [mkRows, ih]

/-! ### positional parameter groups -/

theorem slice_flatten_uniform {β : Type} (w : Nat) :
    ∀ (ls : List (List β)), (∀ l ∈ ls, l.length = w) → ∀ (k : Nat) (hk : k < ls.length),
      slice (k * w) ((k + 1) * w) ls.flatten = ls[k] := by
  intro ls
  induction ls with
  | nil => intro _ k hk; simp at hk
  | cons l ls ih =>
    intro h k hk
    have hl : l.length = w := h l List.mem_cons_self
    unfold slice
    cases k with
    | zero =>
      simp only [Nat.zero_mul, List.drop_zero, Nat.zero_add, Nat.one_mul, List.flatten_cons,
        List.getElem_cons_zero]
      rw [List.take_append_of_le_length (by omega), List.take_of_length_le (by omega)]
    | succ j =>
      have ih' := ih (fun x hx => h x (List.mem_cons_of_mem _ hx)) j (by simpa using hk)
      unfold slice at ih'
      simp only [List.flatten_cons, List.getElem_cons_succ]
      rw [← ih']
      rw [List.take_append, List.drop_append]
      have e1 : (j + 1 + 1) * w - l.length = (j + 1) * w := by
        rw [hl, Nat.succ_mul (j+1) w]; omega
      have e2 : (j + 1) * w - (List.take ((j + 1 + 1) * w) l).length = j * w := by
        rw [List.length_take, hl, Nat.succ_mul j w, Nat.succ_mul (j+1) w, Nat.succ_mul j w]
        omega
      have e3 : List.drop ((j + 1) * w) (List.take ((j + 1 + 1) * w) l) = [] := by
        apply List.drop_of_length_le
        rw [List.length_take, hl, Nat.succ_mul j w]; omega
      rw [e1, e2, e3]; simp

/-! ### Pairwise helpers -/

theorem pairwise_trichotomy {α : Type} {R : α → α → Prop} :
    ∀ {l : List α}, l.Pairwise R → ∀ {a b : α}, a ∈ l → b ∈ l → a = b ∨ R a b ∨ R b a := by
  intro l h
  induction h with
  | nil => intro a b ha; cases ha
  | cons hx _ ih =>
    intro a b ha hb
    rcases List.mem_cons.1 ha with h1 | h1
    · rcases List.mem_cons.1 hb with h2 | h2
      · exact Or.inl (h1.trans h2.symm)
      · exact Or.inr (Or.inl (h1 ▸ hx _ h2))
    · rcases List.mem_cons.1 hb with h2 | h2
      · exact Or.inr (Or.inr (h2 ▸ hx _ h1))
      · exact ih h1 h2

/-! ### implicit sentinel: sorting restores a strictly increasing list -/

theorem sortImplicit_restores {ρ : Type} (key : ρ → Int) (rows rows' : List ρ)
    (hperm : rows'.Perm rows) (hinc : rows.Pairwise (fun a b => key a < key b)) :
    sortImplicit key rows' = rows := by
  unfold sortImplicit
  have hs : (rows'.mergeSort (fun a b => decide (key a ≤ key b))).Pairwise
      (fun a b => decide (key a ≤ key b) = true) :=
    List.pairwise_mergeSort
      (by intro a b c h1 h2; simp only [decide_eq_true_eq] at *; omega)
      (by intro a b; simp only [Bool.or_eq_true, decide_eq_true_eq]; omega) rows'
  have hp : (rows'.mergeSort (fun a b => decide (key a ≤ key b))).Perm rows :=
    (List.mergeSort_perm rows' _).trans hperm
  have hr : rows.Pairwise (fun a b => decide (key a ≤ key b) = true) :=
    hinc.imp (by intro a b h; simp only [decide_eq_true_eq]; omega)
  refine List.Perm.eq_of_pairwise ?_ hs hr hp
  intro a b ha hb h1 h2
  simp only [decide_eq_true_eq] at h1 h2
  have ha' : a ∈ rows := hp.subset ha
  rcases pairwise_trichotomy hinc ha' hb with h | h | h
  · exact h
  · omega
  · omega

/-! ### explicit sentinel: the dictionary -/

section dict
variable {κ ρ : Type} [BEq κ] [LawfulBEq κ]

theorem dictInsert_mem {d : List (κ × ρ)} {k : κ} {v : ρ} {kv : κ × ρ}
    (h : kv ∈ dictInsert d k v) : kv ∈ d ∨ kv = (k, v) := by
  induction d with
  | nil => simp [dictInsert] at h; exact Or.inr h
  | cons x xs ih =>
    obtain ⟨k', v'⟩ := x
    simp only [dictInsert] at h
    split at h
    · rename_i heq
      have : k' = k := by simpa using heq
      subst this
      rcases List.mem_cons.1 h with h | h
      · exact Or.inr h
      · exact Or.inl (List.mem_cons_of_mem _ h)
    · rcases List.mem_cons.1 h with h | h
      · exact Or.inl (h ▸ List.mem_cons_self)
      · rcases ih h with h | h
        · exact Or.inl (List.mem_cons_of_mem _ h)
        · exact Or.inr h

theorem dictInsert_fresh {d : List (κ × ρ)} {k : κ} {v : ρ}
    (h : ∀ kv ∈ d, kv.1 ≠ k) : dictInsert d k v = d ++ [(k, v)] := by
  induction d with
  | nil => simp [dictInsert]
  | cons x xs ih =>
    obtain ⟨k', v'⟩ := x
    have hne : k' ≠ k := h (k', v') List.mem_cons_self
    have : (k' == k) = false := by simpa using hne
    simp only [dictInsert, this, Bool.false_eq_true, ↓reduceIte, List.cons_append, List.cons.injEq,
      true_and]
    exact ih (fun kv hkv => h kv (List.mem_cons_of_mem _ hkv))

/-- invariant of the dict comprehension: every entry is `(key r, r)` for a row of the input -/
theorem dictOf_foldl_mem (key : ρ → κ) (rows : List ρ) (acc : List (κ × ρ)) (kv : κ × ρ)
    (h : kv ∈ rows.foldl (fun d r => dictInsert d (key r) r) acc) :
    kv ∈ acc ∨ (kv.2 ∈ rows ∧ kv.1 = key kv.2) := by
  induction rows generalizing acc with
  | nil => exact Or.inl h
  | cons r rs ih =>
    simp only [List.foldl_cons] at h
    rcases ih _ h with h | ⟨h1, h2⟩
    · rcases dictInsert_mem h with h | h
      · exact Or.inl h
      · subst h; exact Or.inr ⟨List.mem_cons_self, rfl⟩
    · exact Or.inr ⟨List.mem_cons_of_mem _ h1, h2⟩

theorem dictOf_mem (key : ρ → κ) (rows : List ρ) (kv : κ × ρ) (h : kv ∈ dictOf key rows) :
    kv.2 ∈ rows ∧ kv.1 = key kv.2 := by
  rcases dictOf_foldl_mem key rows [] kv h with h | h
  · cases h
  · exact h

theorem dictOf_foldl_nodup (key : ρ → κ) (rows : List ρ) (acc : List (κ × ρ))
    (hn : (acc.map (·.1) ++ rows.map key).Nodup) :
    rows.foldl (fun d r => dictInsert d (key r) r) acc = acc ++ rows.map (fun r => (key r, r)) := by
  induction rows generalizing acc with
  | nil => simp
  | cons r rs ih =>
    simp only [List.foldl_cons, List.map_cons]
    have hfresh : ∀ kv ∈ acc, kv.1 ≠ key r := by
      intro kv hkv heq
      rw [List.nodup_append] at hn
      exact hn.2.2 kv.1 (List.mem_map_of_mem hkv) (key r) (by simp) heq
    rw [dictInsert_fresh hfresh, ih]
    · simp
    · simpa [List.map_append, List.append_assoc] using hn

/-- with distinct keys the comprehension is the plain list of pairs -/
theorem dictOf_nodup (key : ρ → κ) (rows : List ρ) (hn : (rows.map key).Nodup) :
    dictOf key rows = rows.map (fun r => (key r, r)) := by
  unfold dictOf
  rw [dictOf_foldl_nodup key rows [] (by simpa using hn)]
  simp

theorem lookup_pairs (key : ρ → κ) :
    ∀ (rows : List ρ), (rows.map key).Nodup → ∀ r ∈ rows,
      (rows.map (fun r => (key r, r))).lookup (key r) = some r := by
  intro rows
  induction rows with
  | nil => intro _ r h; cases h
  | cons x xs ih =>
    intro hn r hr
    simp only [List.map_cons, List.nodup_cons] at hn
    simp only [List.map_cons, List.lookup_cons]
    rcases List.mem_cons.1 hr with rfl | hr
    · simp
    · have hne : key r ≠ key x := by
        intro heq
        exact hn.1 (heq ▸ List.mem_map_of_mem hr)
      have : (key r == key x) = false := by simpa using hne
      simp only [this]
      exact ih hn.2 r hr

theorem lookup_mem {d : List (κ × ρ)} {s : κ} {r : ρ} (h : d.lookup s = some r) :
    (s, r) ∈ d := by
  induction d with
  | nil => simp at h
  | cons x xs ih =>
    obtain ⟨k, v⟩ := x
    simp only [List.lookup_cons] at h
    split at h
    · rename_i heq
      have : s = k := by simpa using heq
      cases h; subst this; exact List.mem_cons_self
    · exact List.mem_cons_of_mem _ (ih h)

end dict

/-! ### mapM in Except -/

theorem mapM_ok_of_forall {κ ρ ε : Type} (f : κ → Except ε ρ) (g : ρ → κ) :
    ∀ (rs : List ρ), (∀ r ∈ rs, f (g r) = .ok r) → (rs.map g).mapM f = .ok rs := by
  intro rs
  induction rs with
  | nil => intro _; rfl
  | cons r rs ih =>
    intro h
    simp only [List.map_cons, List.mapM_cons, h r List.mem_cons_self,
      ih (fun x hx => h x (List.mem_cons_of_mem _ hx))]
    rfl

theorem mapM_ok_forall {κ ρ ε : Type} (f : κ → Except ε ρ) :
    ∀ (ss : List κ) (out : List ρ), ss.mapM f = .ok out →
      out.length = ss.length ∧ ∀ i (h1 : i < ss.length) (h2 : i < out.length),
        f ss[i] = .ok out[i] := by
  intro ss
  induction ss with
  | nil =>
    intro out h
    simp only [List.mapM_nil] at h
    cases h
    exact ⟨rfl, fun i h1 => by simp at h1⟩
  | cons s ss ih =>
    intro out h
    simp only [List.mapM_cons] at h
    cases hf : f s with
    | error e => rw [hf] at h; cases h
    | ok r =>
      rw [hf] at h
      cases hm : ss.mapM f with
      | error e => rw [hm] at h; cases h
      | ok rest =>
        rw [hm] at h
        cases h
        obtain ⟨hl, hall⟩ := ih rest hm
        refine ⟨by simp [hl], ?_⟩
        intro i h1 h2
        cases i with
        | zero => simpa using hf
        | succ j => simpa using hall j (by simpa using h1) (by simpa using h2)

end SaVerif.Imv
