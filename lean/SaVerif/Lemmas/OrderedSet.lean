import SaVerif.Model.OrderedSet
/-! Helper lemmas about the OrderedSet model (core Lean only). -/
namespace SaVerif.Coll

/-! ### builtin-set primitives -/

theorem mem_setAdd {st : List Elem} {x y : Elem} : y ∈ setAdd st x ↔ y = x ∨ y ∈ st := by
  unfold setAdd
  split
  · rename_i h
    have hx : x ∈ st := List.contains_iff_mem.1 h
    constructor
    · intro hy; exact Or.inr hy
    · rintro (rfl | hy)
      · exact hx
      · exact hy
  · simp

theorem nodup_setAdd {st : List Elem} {x : Elem} (h : st.Nodup) : (setAdd st x).Nodup := by
  unfold setAdd
  split
  · exact h
  · rename_i hx
    have : x ∉ st := fun hm => hx (List.contains_iff_mem.2 hm)
    exact List.nodup_cons.2 ⟨this, h⟩

theorem mem_setRemove {st : List Elem} {x y : Elem} : y ∈ setRemove st x ↔ y ∈ st ∧ y ≠ x := by
  unfold setRemove
  simp [List.mem_filter]

theorem nodup_filter {l : List Elem} (p : Elem → Bool) (h : l.Nodup) : (l.filter p).Nodup :=
  List.Nodup.sublist List.filter_sublist h

theorem nodup_setRemove {st : List Elem} {x : Elem} (h : st.Nodup) : (setRemove st x).Nodup :=
  nodup_filter _ h

theorem mem_setUpdate {l st : List Elem} {y : Elem} : y ∈ setUpdate st l ↔ y ∈ st ∨ y ∈ l := by
  unfold setUpdate
  induction l generalizing st with
  | nil => simp
  | cons a l ih =>
    simp only [List.foldl_cons, ih, mem_setAdd, List.mem_cons]
    constructor
    · rintro ((rfl | h) | h)
      · exact Or.inr (Or.inl rfl)
      · exact Or.inl h
      · exact Or.inr (Or.inr h)
    · rintro (h | rfl | h)
      · exact Or.inl (Or.inr h)
      · exact Or.inl (Or.inl rfl)
      · exact Or.inr h

theorem nodup_setUpdate {l st : List Elem} (h : st.Nodup) : (setUpdate st l).Nodup := by
  unfold setUpdate
  induction l generalizing st with
  | nil => exact h
  | cons a l ih => exact ih (nodup_setAdd h)

theorem mem_setInter {st : List Elem} {os : List (List Elem)} {y : Elem} :
    y ∈ setInter st os ↔ y ∈ st ∧ ∀ o ∈ os, y ∈ o := by
  unfold setInter
  simp [List.mem_filter]

theorem mem_setDiff {st : List Elem} {os : List (List Elem)} {y : Elem} :
    y ∈ setDiff st os ↔ y ∈ st ∧ ∀ o ∈ os, y ∉ o := by
  unfold setDiff
  simp [List.mem_filter]

theorem mem_setSymDiff {st c : List Elem} {y : Elem} :
    y ∈ setSymDiff st c ↔ (y ∈ st ∧ y ∉ c) ∨ (y ∈ c ∧ y ∉ st) := by
  unfold setSymDiff
  simp [List.mem_filter, mem_setUpdate]

theorem nodup_setSymDiff {st c : List Elem} (h : st.Nodup) : (setSymDiff st c).Nodup := by
  unfold setSymDiff
  rw [List.nodup_append]
  refine ⟨nodup_filter _ h, nodup_filter _ (nodup_setUpdate List.nodup_nil), ?_⟩
  intro a ha b hb hab
  subst hab
  simp [List.mem_filter] at ha hb
  exact hb.2 ha.1

/-! ### first-occurrence de-duplication: the order specification -/

/-- reference: keep the first occurrence of every element -/
def firstOcc : List Elem → List Elem
  | [] => []
  | x :: xs => x :: (firstOcc xs).filter (fun y => y != x)

/-- reference `add` of an insertion-ordered set -/
def refAdd (l : List Elem) (x : Elem) : List Elem := if l.contains x then l else l ++ [x]

def refUpdate (l : List Elem) (xs : List Elem) : List Elem := xs.foldl refAdd l

theorem mem_firstOcc {l : List Elem} {y : Elem} : y ∈ firstOcc l ↔ y ∈ l := by
  induction l with
  | nil => simp [firstOcc]
  | cons a l ih =>
    simp only [firstOcc, List.mem_cons, List.mem_filter, ih, bne_iff_ne]
    constructor
    · rintro (h | ⟨h, _⟩)
      · exact Or.inl h
      · exact Or.inr h
    · intro h
      by_cases hy : y = a
      · exact Or.inl hy
      · rcases h with h | h
        · exact Or.inl h
        · exact Or.inr ⟨h, hy⟩

theorem nodup_firstOcc (l : List Elem) : (firstOcc l).Nodup := by
  induction l with
  | nil => simp [firstOcc]
  | cons a l ih =>
    simp only [firstOcc]
    rw [List.nodup_cons]
    refine ⟨?_, nodup_filter _ ih⟩
    simp [List.mem_filter]

theorem firstOcc_of_nodup {l : List Elem} (h : l.Nodup) : firstOcc l = l := by
  induction l with
  | nil => rfl
  | cons a l ih =>
    rw [List.nodup_cons] at h
    simp only [firstOcc, ih h.2]
    congr 1
    rw [List.filter_eq_self]
    intro y hy
    simp only [bne_iff_ne, ne_eq]
    rintro rfl
    exact h.1 hy

theorem refUpdate_eq (xs : List Elem) : ∀ l : List Elem,
    refUpdate l xs = l ++ (firstOcc xs).filter (fun y => !l.contains y) := by
  induction xs with
  | nil => intro l; simp [refUpdate, firstOcc]
  | cons x xs ih =>
    intro l
    have hstep : refUpdate l (x :: xs) = refUpdate (refAdd l x) xs := rfl
    rw [hstep, ih]
    unfold refAdd
    by_cases hx : l.contains x = true
    · simp only [hx, if_true, firstOcc]
      congr 1
      rw [List.filter_cons]
      simp only [hx, Bool.not_true, Bool.false_eq_true, if_false, List.filter_filter]
      apply List.filter_congr
      intro y _
      by_cases hy : y = x
      · subst hy; simp [List.contains_iff_mem.1 hx]
      · simp [hy]
    · simp only [hx, Bool.false_eq_true, if_false, firstOcc]
      rw [List.filter_cons]
      simp only [hx, Bool.not_false, if_true, Bool.not_eq_true] at *
      simp only [hx, List.append_assoc, List.singleton_append,
        List.filter_filter]
      congr 2
      apply List.filter_congr
      intro y _
      simp only [List.contains_eq_mem, List.mem_append, List.mem_singleton]
      by_cases hy : y = x
      · subst hy; simp
      · simp [hy]

theorem uniqueList_eq_refUpdate (seq : List Elem) : uniqueList seq = refUpdate [] seq := rfl

theorem uniqueList_eq_firstOcc (seq : List Elem) : uniqueList seq = firstOcc seq := by
  rw [uniqueList_eq_refUpdate, refUpdate_eq]
  simp

theorem mem_uniqueList {l : List Elem} {y : Elem} : y ∈ uniqueList l ↔ y ∈ l := by
  rw [uniqueList_eq_firstOcc]; exact mem_firstOcc

theorem nodup_uniqueList (l : List Elem) : (uniqueList l).Nodup := by
  rw [uniqueList_eq_firstOcc]; exact nodup_firstOcc l

end SaVerif.Coll
