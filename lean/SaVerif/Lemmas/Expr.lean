import SaVerif.Model.Expr
/-!
Unfolding equations of `render` (structural recursion over the nested type `SaExpr`), stated
per constructor and proved by `rfl`, for use with `rw`/`simp` in the property files.
-/
namespace SaVerif.Expr
open SaVerif.Expr.Gen
open SaVerif.Pratt (G Sym Atom AtomKind Bracket)

theorem render_in_op (d : Dialect) (lb : Bool) (l r : SaExpr) (n : Option Op) (esc : Option String)
    (ty : Ty) :
    render d lb (.binary .in_op l r n esc ty) =
      (match inG d lb (fun rhs => G.inf .in_ (opText .in_op) (render d lb l) rhs) r with
       | some g => g
       | none => G.inf .in_ (opText .in_op) (render d lb l) (render d lb r)) := by
  rfl

theorem render_not_in_op (d : Dialect) (lb : Bool) (l r : SaExpr) (n : Option Op)
    (esc : Option String) (ty : Ty) :
    render d lb (.binary .not_in_op l r n esc ty) =
      (match inG d lb (fun rhs => G.inf .notIn (opText .not_in_op) (render d lb l) rhs) r with
       | some g => G.br .paren g
       | none => G.br .paren (G.inf .notIn (opText .not_in_op) (render d lb l) (render d lb r))) := by
  rfl

theorem render_grouping (d : Dialect) (lb : Bool) (e : SaExpr) :
    render d lb (.grouping e) = G.br .paren (render d lb e) := by
  rfl

theorem render_col (d : Dialect) (lb : Bool) (n : String) (ty : Ty) :
    render d lb (.col n ty) = G.atom ⟨n, .col n⟩ := by
  rfl

theorem render_case (d : Dialect) (lb : Bool) (v : SaExpr) (ws : List SaExpr) (e : SaExpr) (ty : Ty) :
    render d lb (.case_ v ws e ty) =
      caseG (optG v (render d lb v)) (renderList d lb ws) (optG e (render d lb e)) := by
  rfl

theorem render_cast (d : Dialect) (lb : Bool) (e : SaExpr) (ty : Ty) :
    render d lb (.cast e ty) = castG (castName d ty) (wouldGroup none e) (render d lb e) := by
  rfl

theorem render_func (d : Dialect) (lb : Bool) (n : String) (args : List SaExpr) (ty : Ty) :
    render d lb (.func n args ty) = G.br (.fn n) (chain .comma ", " (renderList d lb args)) := by
  rfl

theorem render_subq (d : Dialect) (lb : Bool) (n : String) (ty : Ty) :
    render d lb (.subq n ty) = G.atom ⟨"(SELECT " ++ n ++ ")", .col n⟩ := by
  rfl

end SaVerif.Expr
