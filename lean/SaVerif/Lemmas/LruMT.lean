import SaVerif.Model.LruMT
/-! Invariants of the multi-threaded LRUCache transition system (core Lean only). -/
namespace SaVerif.LruMT

/-! ### bookkeeping over the thread list -/

theorem sum_set (w : Thread → Nat) : ∀ (l : List Thread) (t : Nat) (th th' : Thread),
    l[t]? = some th → ((l.set t th').map w).sum + w th = (l.map w).sum + w th'
  | [], t, th, th', h => by simp at h
  | x :: xs, 0, th, th', h => by
    simp only [List.getElem?_cons_zero, Option.some.injEq] at h
    subst h
    simp only [List.set_cons_zero, List.map_cons, List.sum_cons]
    omega
  | x :: xs, t + 1, th, th', h => by
    simp only [List.getElem?_cons_succ] at h
    have := sum_set w xs t th th' h
    simp only [List.set_cons_succ, List.map_cons, List.sum_cons]
    omega

theorem mem_of_getElem? {l : List Thread} {t : Nat} {th : Thread} (h : l[t]? = some th) : th ∈ l :=
  List.mem_of_getElem? h

theorem mem_set {l : List Thread} {t : Nat} {th' x : Thread} (h : x ∈ l.set t th') :
    x ∈ l ∨ x = th' := List.mem_or_eq_of_mem_set h

/-! ### data primitives -/

theorem mem_store {data : List MEnt} {e x : MEnt} (hx : x ∈ store data e) : x = e ∨ x ∈ data := by
  unfold store at hx
  split at hx
  · rw [List.mem_map] at hx
    obtain ⟨y, hy, rfl⟩ := hx
    by_cases hk : (y.key == e.key) = true
    · simp [hk]
    · simp [hk, hy]
  · rw [List.mem_append, List.mem_singleton] at hx
    rcases hx with h | h
    · exact Or.inr h
    · exact Or.inl h

theorem length_store (data : List MEnt) (e : MEnt) :
    (store data e).length = if hasKey data e.key then data.length else data.length + 1 := by
  unfold store
  split <;> simp

theorem length_delKey_le (data : List MEnt) (k : Nat) : (delKey data k).length ≤ data.length := by
  unfold delKey; exact List.length_filter_le _ _

theorem mem_delKey {data : List MEnt} {k : Nat} {x : MEnt} (h : x ∈ delKey data k) : x ∈ data := by
  unfold delKey at h; exact (List.mem_filter.1 h).1

theorem length_writeCell (data : List MEnt) (c v : Nat) : (writeCell data c v).length = data.length := by
  unfold writeCell; simp

theorem mem_writeCell {data : List MEnt} {c v : Nat} {x : MEnt} (h : x ∈ writeCell data c v) :
    ∃ y ∈ data, y.key = x.key ∧ y.val = x.val := by
  unfold writeCell at h
  rw [List.mem_map] at h
  obtain ⟨y, hy, rfl⟩ := h
  refine ⟨y, hy, ?_⟩
  split <;> exact ⟨rfl, rfl⟩

theorem find_some {data : List MEnt} {k : Nat} {it : MEnt} (h : find data k = some it) :
    it ∈ data ∧ it.key = k := by
  unfold find at h
  exact ⟨List.mem_of_find?_eq_some h, by simpa using List.find?_some h⟩

/-! ### "only values stored under the key" -/

/-- what a program counter may carry: an item looked up under the key being read, or a
    (key, value) pair that some `cache[k] = v` of the programs asked to store -/
def PCOk (S : List (Nat × Nat)) : PC → Prop
  | .gI0 k it | .gI1 k it _ | .gI2 k it | .gW k it _ => it.key = k ∧ (it.key, it.val) ∈ S
  | .sI1 k v _ | .sI2 k v | .sSt k v _ => (k, v) ∈ S
  | _ => True

structure ThreadOk (S : List (Nat × Nat)) (th : Thread) : Prop where
  prog : ∀ k v, MOp.set k v ∈ th.prog → (k, v) ∈ S
  pc : PCOk S th.pc
  rets : ∀ k v, (k, some v) ∈ th.rets → (k, v) ∈ S

structure InvS (S : List (Nat × Nat)) (s : MState) : Prop where
  data : ∀ e ∈ s.data, (e.key, e.val) ∈ S
  threads : ∀ th ∈ s.threads, ThreadOk S th

theorem invS_setThread {S : List (Nat × Nat)} {s : MState} {data : List MEnt} {t : Nat} {th' : Thread}
    (h : InvS S s) (hd : ∀ e ∈ data, (e.key, e.val) ∈ S) (ht : ThreadOk S th') (s2 : MState)
    (hs2d : s2.data = data) (hs2t : s2.threads = s.threads.set t th') : InvS S s2 := by
  constructor
  · rw [hs2d]; exact hd
  · rw [hs2t]
    intro x hx
    rcases mem_set hx with h1 | h1
    · exact h.threads x h1
    · rw [h1]; exact ht

theorem invS_step {S : List (Nat × Nat)} {s s' : MState} {t : Nat} (h : InvS S s)
    (hs : mstep s t = some s') : InvS S s' := by
  unfold mstep at hs
  cases hth : s.threads[t]? with
  | none => rw [hth] at hs; cases hs
  | some th =>
    rw [hth] at hs
    have hok := h.threads th (mem_of_getElem? hth)
    obtain ⟨pc, prog, rets⟩ := th
    have hprogS : ∀ k v, MOp.set k v ∈ prog → (k, v) ∈ S := hok.prog
    have hretsS : ∀ k v, (k, some v) ∈ rets → (k, v) ∈ S := hok.rets
    have hpcS : PCOk S pc := hok.pc
    cases pc with
    | idle =>
      cases prog with
      | nil => cases hs
      | cons op rest =>
        have hrest : ∀ k v, MOp.set k v ∈ rest → (k, v) ∈ S :=
          fun k v hm => hprogS k v (List.mem_cons_of_mem _ hm)
        cases op with
        | get k =>
          simp only at hs
          cases hf : find s.data k with
          | none =>
            rw [hf] at hs; cases hs
            refine invS_setThread h h.data ⟨hrest, (show PCOk S PC.idle from trivial), ?_⟩ _ rfl rfl
            intro k' v' hm
            simp only [List.mem_cons, Prod.mk.injEq] at hm
            rcases hm with ⟨_, h2⟩ | hm
            · cases h2
            · exact hretsS k' v' hm
          | some it =>
            rw [hf] at hs; cases hs
            obtain ⟨hm, hk⟩ := find_some hf
            exact invS_setThread h h.data
              ⟨hrest, (show PCOk S (PC.gI0 k it) from ⟨hk, h.data it hm⟩), hretsS⟩ _ rfl rfl
        | set k v =>
          cases hs
          have : (k, v) ∈ S := hprogS k v (by simp)
          exact invS_setThread h h.data ⟨hrest, (show PCOk S (PC.sI1 k v s.counter) from this), hretsS⟩ _ rfl rfl
        | del k =>
          cases hs
          exact invS_setThread h (fun e he => h.data e (mem_delKey he))
            ⟨hrest, (show PCOk S PC.idle from trivial), hretsS⟩ _ rfl rfl
    | gI0 k it =>
      cases hs
      exact invS_setThread h h.data ⟨hprogS, (show PCOk S (PC.gI1 k it s.counter) from hpcS), hretsS⟩ _ rfl rfl
    | gI1 k it r =>
      cases hs
      exact invS_setThread h h.data ⟨hprogS, (show PCOk S (PC.gI2 k it) from hpcS), hretsS⟩ _ rfl rfl
    | gI2 k it =>
      cases hs
      exact invS_setThread h h.data ⟨hprogS, (show PCOk S (PC.gW k it s.counter) from hpcS), hretsS⟩ _ rfl rfl
    | gW k it v =>
      cases hs
      have hp : it.key = k ∧ (it.key, it.val) ∈ S := hpcS
      refine invS_setThread h ?_ ⟨hprogS, (show PCOk S PC.idle from trivial), ?_⟩ _ rfl rfl
      · intro e he
        obtain ⟨y, hy, h1, h2⟩ := mem_writeCell he
        rw [← h1, ← h2]; exact h.data y hy
      · intro k' v' hm
        simp only [List.mem_cons, Prod.mk.injEq, Option.some.injEq] at hm
        rcases hm with ⟨h1, h2⟩ | hm
        · rw [h1, h2, ← hp.1]; exact hp.2
        · exact hretsS k' v' hm
    | sI1 k v r =>
      cases hs
      exact invS_setThread h h.data ⟨hprogS, (show PCOk S (PC.sI2 k v) from hpcS), hretsS⟩ _ rfl rfl
    | sI2 k v =>
      cases hs
      exact invS_setThread h h.data ⟨hprogS, (show PCOk S (PC.sSt k v s.counter) from hpcS), hretsS⟩ _ rfl rfl
    | sSt k v c =>
      cases hs
      have hp : (k, v) ∈ S := hpcS
      refine invS_setThread h ?_ ⟨hprogS, (show PCOk S PC.m0 from trivial), hretsS⟩ _ rfl rfl
      intro e he
      rcases mem_store he with rfl | he
      · exact hp
      · exact h.data e he
    | m0 =>
      simp only at hs
      split at hs
      · cases hs
        exact invS_setThread h h.data ⟨hprogS, (show PCOk S PC.idle from trivial), hretsS⟩ _ rfl rfl
      · cases hs
        exact invS_setThread h h.data ⟨hprogS, (show PCOk S PC.m1 from trivial), hretsS⟩ _ rfl rfl
    | m1 =>
      simp only at hs
      split at hs
      · cases hs
        exact invS_setThread h h.data ⟨hprogS, (show PCOk S PC.m2 from trivial), hretsS⟩ _ rfl rfl
      · cases hs
        exact invS_setThread h h.data ⟨hprogS, (show PCOk S PC.m4 from trivial), hretsS⟩ _ rfl rfl
    | m2 =>
      cases hs
      exact invS_setThread h h.data ⟨hprogS, (show PCOk S (PC.m3 _) from trivial), hretsS⟩ _ rfl rfl
    | m3 todo =>
      cases todo with
      | nil =>
        cases hs
        exact invS_setThread h h.data ⟨hprogS, (show PCOk S PC.m1 from trivial), hretsS⟩ _ rfl rfl
      | cons k ks =>
        cases hs
        exact invS_setThread h (fun e he => h.data e (mem_delKey he))
          ⟨hprogS, (show PCOk S (PC.m3 ks) from trivial), hretsS⟩ _ rfl rfl
    | m4 =>
      cases hs
      exact invS_setThread h h.data ⟨hprogS, (show PCOk S PC.idle from trivial), hretsS⟩ _ rfl rfl

/-! ### size and mutex bookkeeping -/

/-- threads that have inserted and not yet had their insert covered by an "all clear":
    waiting for the try-lock, or holding the mutex before the final check -/
def w3 (th : Thread) : Nat :=
  match th.pc with
  | .m0 | .m1 | .m2 | .m3 _ => 1
  | _ => 0

/-- threads inside the mutex-protected section -/
def w4 (th : Thread) : Nat :=
  match th.pc with
  | .m1 | .m2 | .m3 _ | .m4 => 1
  | _ => 0

def busy (s : MState) : Nat := (s.threads.map w3).sum
def holders (s : MState) : Nat := (s.threads.map w4).sum

/-- `n <= capacity + capacity * threshold` -/
def within (s : MState) (n : Nat) : Prop := n * s.den ≤ s.cap * s.den + s.cap * s.num

theorem within_mono {s : MState} {n m : Nat} (h : within s n) (hm : m ≤ n) : within s m := by
  unfold within at *
  exact Nat.le_trans (Nat.mul_le_mul_right _ hm) h

structure InvN (s : MState) : Prop where
  size : within s (s.data.length - s.extra)
  extraLe : s.extra ≤ busy s + s.failed
  mutex : holders s = if s.held then 1 else 0

theorem not_over_within {s : MState} {n : Nat} (h : over s n = false) : within s n := by
  unfold over at h
  unfold within
  simpa using h

/-- the effect of one step on the counted quantities, case by case -/
theorem invN_step {s s' : MState} {t : Nat} (h : InvN s) (hs : mstep s t = some s') : InvN s' := by
  unfold mstep at hs
  cases hth : s.threads[t]? with
  | none => rw [hth] at hs; cases hs
  | some th =>
    rw [hth] at hs
    obtain ⟨pc, prog, rets⟩ := th
    have h3 := fun th' => sum_set w3 s.threads t ⟨pc, prog, rets⟩ th' hth
    have h4 := fun th' => sum_set w4 s.threads t ⟨pc, prog, rets⟩ th' hth
    obtain ⟨hsize, hextra, hmutex⟩ := h
    unfold busy at hextra
    unfold holders at hmutex
    -- a step that only moves the thread between states of equal weights and leaves
    -- data / extra / failed / held alone
    have same : ∀ (s2 : MState) (th' : Thread), s2.threads = s.threads.set t th' →
        w3 th' = w3 ⟨pc, prog, rets⟩ → w4 th' = w4 ⟨pc, prog, rets⟩ →
        s2.data.length ≤ s.data.length → s2.extra = s.extra → s2.failed = s.failed →
        s2.held = s.held → s2.cap = s.cap → s2.num = s.num → s2.den = s.den → InvN s2 := by
      intro s2 th' ht e3 e4 hl he hf hh hc hn hd
      have a3 := h3 th'
      have a4 := h4 th'
      refine ⟨?_, ?_, ?_⟩
      · have : within s (s2.data.length - s2.extra) := within_mono hsize (by rw [he]; omega)
        unfold within at this ⊢
        rw [hc, hn, hd]; exact this
      · unfold busy; rw [ht, he, hf]; omega
      · unfold holders; rw [ht, hh]; omega
    cases pc with
    | idle =>
      cases prog with
      | nil => cases hs
      | cons op rest =>
        cases op with
        | get k =>
          simp only at hs
          cases hf : find s.data k with
          | none =>
            rw [hf] at hs; cases hs
            exact same _ _ rfl rfl rfl (Nat.le_refl _) rfl rfl rfl rfl rfl rfl
          | some it =>
            rw [hf] at hs; cases hs
            exact same _ _ rfl rfl rfl (Nat.le_refl _) rfl rfl rfl rfl rfl rfl
        | set k v =>
          cases hs
          exact same _ _ rfl rfl rfl (Nat.le_refl _) rfl rfl rfl rfl rfl rfl
        | del k =>
          cases hs
          exact same _ _ rfl rfl rfl (by simp only [setThread]; exact length_delKey_le _ _) rfl rfl rfl rfl rfl rfl
    | gI0 k it => cases hs; exact same _ _ rfl rfl rfl (Nat.le_refl _) rfl rfl rfl rfl rfl rfl
    | gI1 k it r => cases hs; exact same _ _ rfl rfl rfl (Nat.le_refl _) rfl rfl rfl rfl rfl rfl
    | gI2 k it => cases hs; exact same _ _ rfl rfl rfl (Nat.le_refl _) rfl rfl rfl rfl rfl rfl
    | gW k it v =>
      cases hs
      exact same _ _ rfl rfl rfl (by simp [setThread, length_writeCell]) rfl rfl rfl rfl rfl rfl
    | sI1 k v r => cases hs; exact same _ _ rfl rfl rfl (Nat.le_refl _) rfl rfl rfl rfl rfl rfl
    | sI2 k v => cases hs; exact same _ _ rfl rfl rfl (Nat.le_refl _) rfl rfl rfl rfl rfl rfl
    | sSt k v c =>
      cases hs
      have a3 := h3 ⟨PC.m0, prog, rets⟩
      have a4 := h4 ⟨PC.m0, prog, rets⟩
      simp only [w3, w4] at a3 a4
      refine ⟨?_, ?_, ?_⟩
      · simp only [setThread]
        rw [length_store]
        simp only
        by_cases hk : hasKey s.data k = true
        · simp only [hk, if_true]; exact hsize
        · simp only [hk, Bool.false_eq_true, if_false]
          have : s.data.length + 1 - (s.extra + 1) = s.data.length - s.extra := by omega
          show within _ (s.data.length + 1 - (s.extra + 1))
          rw [this]; exact hsize
      · unfold busy
        simp only [setThread]
        split <;> omega
      · unfold holders
        simp only [setThread]
        show _ = (if s.held = true then 1 else 0); omega
    | m0 =>
      simp only at hs
      split at hs
      · rename_i hheld
        cases hs
        have a3 := h3 ⟨PC.idle, prog, rets⟩
        have a4 := h4 ⟨PC.idle, prog, rets⟩
        simp only [w3, w4] at a3 a4
        refine ⟨hsize, ?_, ?_⟩
        · unfold busy; simp only [setThread]; omega
        · unfold holders; simp only [setThread]; show _ = (if s.held = true then 1 else 0); omega
      · rename_i hheld
        cases hs
        have a3 := h3 ⟨PC.m1, prog, rets⟩
        have a4 := h4 ⟨PC.m1, prog, rets⟩
        simp only [w3, w4] at a3 a4
        have hfree : s.held = false := by simpa using hheld
        rw [hfree] at hmutex
        refine ⟨hsize, ?_, ?_⟩
        · unfold busy; simp only [setThread]; omega
        · unfold holders; simp only [setThread, if_true]
          simp only [Bool.false_eq_true, if_false] at hmutex
          omega
    | m1 =>
      simp only at hs
      split at hs
      · cases hs; exact same _ _ rfl rfl rfl (Nat.le_refl _) rfl rfl rfl rfl rfl rfl
      · rename_i hover
        cases hs
        have a3 := h3 ⟨PC.m4, prog, rets⟩
        have a4 := h4 ⟨PC.m4, prog, rets⟩
        simp only [w3, w4] at a3 a4
        have hw : within s s.data.length := not_over_within (by simpa using hover)
        refine ⟨?_, ?_, ?_⟩
        · simp only [setThread, Nat.sub_zero]; exact hw
        · unfold busy; simp only [setThread]; omega
        · unfold holders; simp only [setThread]; show _ = (if s.held = true then 1 else 0); omega
    | m2 => cases hs; exact same _ _ rfl rfl rfl (Nat.le_refl _) rfl rfl rfl rfl rfl rfl
    | m3 todo =>
      cases todo with
      | nil => cases hs; exact same _ _ rfl rfl rfl (Nat.le_refl _) rfl rfl rfl rfl rfl rfl
      | cons k ks =>
        cases hs
        exact same _ _ rfl rfl rfl (by simp only [setThread]; exact length_delKey_le _ _) rfl rfl rfl rfl rfl rfl
    | m4 =>
      cases hs
      have a3 := h3 ⟨PC.idle, prog, rets⟩
      have a4 := h4 ⟨PC.idle, prog, rets⟩
      simp only [w3, w4] at a3 a4
      have hheld : s.held = true := by
        cases hh : s.held with
        | true => rfl
        | false => rw [hh] at hmutex; simp at hmutex; omega
      rw [hheld] at hmutex
      simp only [if_true] at hmutex
      refine ⟨hsize, ?_, ?_⟩
      · unfold busy; simp only [setThread]; omega
      · unfold holders; simp only [setThread, Bool.false_eq_true, if_false]; omega

end SaVerif.LruMT
