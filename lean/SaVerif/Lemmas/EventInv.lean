import SaVerif.Lemmas.EventLoop
/-! The invariant behind `dispatch_eq_spec` (C28) and its preservation by every
operation of M-EVENT.  Core Lean only. -/
namespace SaVerif.Event

def isCls (e : RegEntry) : Bool :=
  match e.target with
  | .cls _ => true
  | .inst _ => false

def clsEntries (st : St) : List RegEntry := st.reg.filter isCls

def instEntries (st : St) (i : Nat) : List RegEntry := st.reg.filter (fun e => e.target == Target.inst i)

/-- the spec of an instance's own listeners -/
def specColl (st : St) (i : Nat) : List Lsn := orderOf (instEntries st i)

structure EInv (n : Nat) (st : St) : Prop where
  base : Base st
  clsDistinct : ((clsEntries st).map (fun e => e.lsn)).Nodup
  instDistinct : ∀ (i : Nat), ((instEntries st i).map (fun e => e.lsn)).Nodup
  keys : ∀ e1 ∈ st.reg, ∀ e2 ∈ st.reg, e1.target = e2.target → e1.fn = e2.fn → e1 = e2
  lsnBound : ∀ e ∈ st.reg, e.lsn < st.lsn.length
  fnKind : ∀ e ∈ st.reg, (e.lsn = e.fn ∧ e.fn < n) ∨ n ≤ e.lsn
  nle : n ≤ st.lsn.length
  inst : ∀ (i : Nat), collOf st i = specColl st i
  instCls : ∀ (i : Nat) (x : Inst), st.insts[i]? = some x → (dequeOf st x.cls).isSome = true
  instValid : ∀ e ∈ st.reg, ∀ (i : Nat), e.target = Target.inst i → i < st.insts.length

/-! ### small facts -/

theorem relevant_sub_cls (st : St) (k : Cls) : ∀ e ∈ relevant st k, e ∈ clsEntries st := by
  intro e he
  obtain ⟨h1, c, hc, _⟩ := mem_relevant.1 he
  unfold clsEntries
  rw [List.mem_filter]
  exact ⟨h1, by unfold isCls; rw [hc]⟩

theorem relevant_sublist (st : St) (k : Cls) : (relevant st k).Sublist (clsEntries st) := by
  unfold relevant clsEntries
  have : st.reg.filter (isClsRel st k) = (st.reg.filter isCls).filter (isClsRel st k) := by
    rw [List.filter_filter]
    apply List.filter_congr
    intro e _
    unfold isClsRel isCls
    cases e.target <;> simp
  rw [this]
  exact List.filter_sublist

theorem relevant_nodup {st : St} (h : ((clsEntries st).map (fun e => e.lsn)).Nodup) (k : Cls) :
    ((relevant st k).map (fun e => e.lsn)).Nodup :=
  ((relevant_sublist st k).map _).nodup h

theorem specDeque_nodup {st : St} (h : ((clsEntries st).map (fun e => e.lsn)).Nodup) (k : Cls) :
    (specDeque st k).Nodup := orderOf_nodup (relevant_nodup h k)

/-- two entries of a list with pairwise different listeners are equal iff their listeners are -/
theorem eq_of_lsn_eq {es : List RegEntry} (h : (es.map (fun e => e.lsn)).Nodup) {a b : RegEntry}
    (ha : a ∈ es) (hb : b ∈ es) (hl : a.lsn = b.lsn) : a = b := by
  induction es with
  | nil => cases ha
  | cons x t ih =>
    simp only [List.map_cons, List.nodup_cons, List.mem_map, not_exists, not_and] at h
    simp only [List.mem_cons] at ha hb
    rcases ha with rfl | ha <;> rcases hb with rfl | hb
    · rfl
    · exact absurd hl.symm (h.1 b hb)
    · exact absurd hl (h.1 a ha)
    · exact ih h.2 ha hb

/-! ### dropping a key -/

def notKey (t : Target) (fn : Nat) (e : RegEntry) : Bool := !(e.target == t && e.fn == fn)

theorem dropKey_reg (st : St) (t : Target) (fn : Nat) : (dropKey st t fn).reg = st.reg.filter (notKey t fn) := rfl

theorem findKey_some {st : St} {t : Target} {fn : Nat} {e : RegEntry} (h : findKey st t fn = some e) :
    e ∈ st.reg ∧ e.target = t ∧ e.fn = fn := by
  unfold findKey at h
  have h1 := List.mem_of_find?_eq_some h
  have h2 := List.find?_some h
  simp only [Bool.and_eq_true, beq_iff_eq] at h2
  exact ⟨h1, h2.1, h2.2⟩

/-- in a registry with unique keys `notKey` rejects exactly `e` -/
theorem notKey_iff {st : St} (hk : ∀ e1 ∈ st.reg, ∀ e2 ∈ st.reg, e1.target = e2.target → e1.fn = e2.fn → e1 = e2)
    {e : RegEntry} (he : e ∈ st.reg) {x : RegEntry} (hx : x ∈ st.reg) :
    notKey e.target e.fn x = false ↔ x = e := by
  unfold notKey
  simp only [Bool.not_eq_false', Bool.and_eq_true, beq_iff_eq]
  constructor
  · rintro ⟨h1, h2⟩; exact hk x hx e he h1 h2
  · rintro rfl; exact ⟨rfl, rfl⟩


/-! ### transport of the invariant along changes it cannot see -/

/-- same tree, deques, instances and registry; the listener table kept its length -/
structure SameCore (st st' : St) : Prop where
  parent : st'.parent = st.parent
  clslevel : st'.clslevel = st.clslevel
  insts : st'.insts = st.insts
  reg : st'.reg = st.reg
  lsnLen : st.lsn.length ≤ st'.lsn.length

theorem EInv.core {n : Nat} {st st' : St} (h : EInv n st) (hs : SameCore st st') : EInv n st' := by
  have hdq : ∀ k, dequeOf st' k = dequeOf st k := by intro k; unfold dequeOf; rw [hs.clslevel]
  have hsp : ∀ k, specDeque st' k = specDeque st k := specDeque_congr hs.parent hs.reg
  have hce : clsEntries st' = clsEntries st := by unfold clsEntries; rw [hs.reg]
  have hie : ∀ i, instEntries st' i = instEntries st i := by intro i; unfold instEntries; rw [hs.reg]
  have hco : ∀ i, collOf st' i = collOf st i := by intro i; unfold collOf; rw [hs.insts]
  refine ⟨⟨WFTree_congr hs.parent h.base.wf, by rw [hs.clslevel, hs.parent]; exact h.base.len, ?_, ?_⟩,
    by rw [hce]; exact h.clsDistinct, by intro i; rw [hie]; exact h.instDistinct i,
    by rw [hs.reg]; exact h.keys, ?_, by rw [hs.reg]; exact h.fnKind,
    Nat.le_trans h.nle hs.lsnLen, ?_, ?_, by rw [hs.reg, hs.insts]; exact h.instValid⟩
  · intro k d hd; rw [hdq] at hd; rw [hsp]; exact h.base.deq k d hd
  · intro e he c hc; rw [hs.reg] at he; rw [hdq]; exact h.base.tp e he c hc
  · intro e he; rw [hs.reg] at he; exact Nat.lt_of_lt_of_le (h.lsnBound e he) hs.lsnLen
  · intro i; unfold specColl; rw [hco, hie]; exact h.inst i
  · intro i x hx; rw [hs.insts] at hx; rw [hdq]; exact h.instCls i x hx

theorem callAll_core (ls : List Lsn) : ∀ (st : St), SameCore st (callAll st ls).1 := by
  induction ls with
  | nil => intro st; exact ⟨rfl, rfl, rfl, rfl, Nat.le_refl _⟩
  | cons l rest ih =>
    intro st
    simp only [callAll]
    split
    · exact ih st
    · rename_i info hinfo
      split
      · split
        · exact ih st
        · have h1 := ih { st with lsn := st.lsn.set l { info with fired := true } }
          exact ⟨h1.parent, h1.clslevel, h1.insts, h1.reg, by
            have := h1.lsnLen; simp at this; exact this⟩
      · exact ih st

theorem mkListener_core (st : St) (fn wrap : Nat) : SameCore st (mkListener st fn wrap).1 := by
  unfold mkListener
  split
  · exact ⟨rfl, rfl, rfl, rfl, Nat.le_refl _⟩
  · exact ⟨rfl, rfl, rfl, rfl, by simp⟩

/-- the listener object allocated for a `listen` call is below the new table length,
    and either the function itself or a fresh id -/
theorem mkListener_lsn (n : Nat) (st : St) (fn wrap : Nat) (hfn : fn < n) (hn : n ≤ st.lsn.length) :
    (mkListener st fn wrap).2 < (mkListener st fn wrap).1.lsn.length ∧
    ((wrap = 0 ∧ (mkListener st fn wrap).2 = fn) ∨
     (wrap ≠ 0 ∧ (mkListener st fn wrap).2 = st.lsn.length)) := by
  unfold mkListener
  split
  · rename_i h
    exact ⟨Nat.lt_of_lt_of_le hfn hn, Or.inl ⟨h, rfl⟩⟩
  · rename_i h
    exact ⟨by simp, Or.inr ⟨h, rfl⟩⟩


/-! ### instance collections -/

theorem collOf_setColl (st : St) (i j : Nat) (d : List Lsn) (hi : i < st.insts.length) :
    collOf (setColl st i d) j = if i = j then d else collOf st j := by
  unfold setColl
  have hx : st.insts[i]? = some st.insts[i] := List.getElem?_eq_getElem hi
  rw [hx]
  simp only
  unfold collOf
  by_cases h : i = j
  · subst h; simp [hi]
  · simp only [if_neg h]
    rw [List.getElem?_set_ne h]

theorem setColl_cls (st : St) (i j : Nat) (d : List Lsn) (x' : Inst)
    (h : (setColl st i d).insts[j]? = some x') : ∃ x, st.insts[j]? = some x ∧ x.cls = x'.cls := by
  unfold setColl at h
  cases hx : st.insts[i]? with
  | none => rw [hx] at h; exact ⟨x', h, rfl⟩
  | some x =>
    rw [hx] at h
    simp only at h
    by_cases hij : i = j
    · subst hij
      have hi : i < st.insts.length := by
        rcases Nat.lt_or_ge i st.insts.length with h1 | h1
        · exact h1
        · rw [List.getElem?_eq_none h1] at hx; cases hx
      rw [List.getElem?_set_self hi] at h
      cases h
      exact ⟨x, hx, rfl⟩
    · rw [List.getElem?_set_ne hij] at h
      exact ⟨x', h, rfl⟩

theorem setColl_frame (st : St) (i : Nat) (d : List Lsn) :
    (setColl st i d).parent = st.parent ∧ (setColl st i d).clslevel = st.clslevel ∧
    (setColl st i d).reg = st.reg ∧ (setColl st i d).lsn = st.lsn ∧
    (setColl st i d).insts.length = st.insts.length := by
  unfold setColl
  cases st.insts[i]? <;> simp

/-- a state that differs only in instance collections -/
theorem EInv.withColl {n : Nat} {st st' : St} (h : EInv n st)
    (hp : st'.parent = st.parent) (hc : st'.clslevel = st.clslevel) (hr : st'.reg = st.reg)
    (hl : st'.lsn = st.lsn) (hlen : st'.insts.length = st.insts.length)
    (hcls : ∀ (j : Nat) (x' : Inst), st'.insts[j]? = some x' → ∃ x, st.insts[j]? = some x ∧ x.cls = x'.cls)
    (hcoll : ∀ j, collOf st' j = specColl st' j) : EInv n st' := by
  have hdq : ∀ k, dequeOf st' k = dequeOf st k := by intro k; unfold dequeOf; rw [hc]
  have hsp : ∀ k, specDeque st' k = specDeque st k := specDeque_congr hp hr
  have hce : clsEntries st' = clsEntries st := by unfold clsEntries; rw [hr]
  have hie : ∀ i, instEntries st' i = instEntries st i := by intro i; unfold instEntries; rw [hr]
  refine ⟨⟨WFTree_congr hp h.base.wf, by rw [hc, hp]; exact h.base.len, ?_, ?_⟩,
    by rw [hce]; exact h.clsDistinct, by intro i; rw [hie]; exact h.instDistinct i,
    by rw [hr]; exact h.keys, by rw [hr, hl]; exact h.lsnBound, by rw [hr]; exact h.fnKind,
    by rw [hl]; exact h.nle, hcoll, ?_, by rw [hr, hlen]; exact h.instValid⟩
  · intro k d hd; rw [hdq] at hd; rw [hsp]; exact h.base.deq k d hd
  · intro e he c hc'; rw [hr] at he; rw [hdq]; exact h.base.tp e he c hc'
  · intro i x' hx'
    obtain ⟨x, hx, hxc⟩ := hcls i x' hx'
    rw [hdq, ← hxc]; exact h.instCls i x hx

theorem hasKey_iff {st : St} {t : Target} {fn : Nat} :
    hasKey st t fn = true ↔ ∃ e ∈ st.reg, e.target = t ∧ e.fn = fn := by
  unfold hasKey
  simp [List.any_eq_true]

theorem storeKey_new {st : St} {t : Target} {fn : Nat} (h : hasKey st t fn = false) (l : Lsn) (ins : Bool) :
    storeKey st t fn l ins = addReg st { target := t, fn := fn, lsn := l, ins := ins } := by
  unfold storeKey addReg
  simp [h]

/-- a registration on an instance does not change any class-level list -/
theorem specDeque_addReg_inst (st : St) (e : RegEntry) (i : Nat) (hi : e.target = Target.inst i) (k : Cls) :
    specDeque (addReg st e) k = specDeque st k := by
  have hcg : isClsRel (addReg st e) k = isClsRel st k :=
    isClsRel_congr (st := st) (st' := addReg st e) rfl k
  unfold specDeque relevant
  rw [hcg]
  simp only [addReg, List.filter_append]
  have : [e].filter (isClsRel st k) = [] := by
    simp [isClsRel, hi]
  rw [this, List.append_nil]

end SaVerif.Event
