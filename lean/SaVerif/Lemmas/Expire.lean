import SaVerif.Model.Expire
/-! Helper lemmas about M-ORM/expire (core Lean only): object-level coherence. -/
namespace SaVerif.Expire

/-- An object agrees with its row: every loaded, unmodified attribute holds the row's
    value, and every remembered committed value (`committed_state`) is the row's value. -/
structure CohObj (o : Obj) (row : Option Vals) : Prop where
  loaded : ∀ a v, o.dict a = some v → o.mod a = false → ∃ r, row = some r ∧ r a = v
  cv : ∀ a c, o.mod a = true → o.cval a = some c → ∃ r, row = some r ∧ r a = c

/-- well-formedness of an object w.r.t. the configuration -/
structure WFObj (c : Cfg) (o : Obj) : Prop where
  attr_lt : ∀ a, o.mod a = true → a < c.nattr
  mod_dirty : ∀ a, o.mod a = true → o.dirty = true

theorem cohObj_expireObj (o : Obj) (row : Option Vals) : CohObj (expireObj o) row :=
  ⟨fun _ _ h => by simp [expireObj] at h, fun _ _ h => by simp [expireObj] at h⟩

theorem cohObj_newObj (r : Vals) : CohObj (newObj r) (some r) :=
  ⟨fun a v h _ => ⟨r, rfl, by simpa [newObj] using h⟩, fun _ _ h => by simp [newObj] at h⟩

theorem cohObj_expireAttrs {o : Obj} {row : Option Vals} (h : CohObj o row) (l : List Attr) :
    CohObj (expireAttrs o l) row := by
  refine ⟨?_, ?_⟩
  · intro a v hd hm
    simp only [expireAttrs] at hd hm
    by_cases hc : l.contains a = true
    · rw [if_pos hc] at hd; cases hd
    · simp only [hc, Bool.false_eq_true, if_false] at hd hm
      exact h.loaded a v hd hm
  · intro a cv hm hcv
    simp only [expireAttrs] at hm hcv
    by_cases hc : l.contains a = true
    · rw [if_pos hc] at hm; cases hm
    · simp only [hc, Bool.false_eq_true, if_false] at hm hcv
      exact h.cv a cv hm hcv

theorem cohObj_expireSel {o : Obj} {row : Option Vals} (h : CohObj o row) (l : Option (List Attr)) :
    CohObj (expireSel o l) row := by
  cases l with
  | none => exact cohObj_expireObj o row
  | some l => exact cohObj_expireAttrs h l

theorem cohObj_loadExpired {o : Obj} {r : Vals} (h : CohObj o (some r)) :
    CohObj (loadExpired o r) (some r) := by
  refine ⟨?_, ?_⟩
  · intro a v hd hm
    simp only [loadExpired] at hd hm
    by_cases hc : ((o.dict a).isNone && !o.mod a) = true
    · simp only [hc, if_true, Option.some.injEq] at hd
      exact ⟨r, rfl, hd⟩
    · simp only [hc, Bool.false_eq_true, if_false] at hd
      exact h.loaded a v hd hm
  · intro a cv hm hcv
    exact h.cv a cv hm hcv

theorem covers_none (a : Attr) : covers none a = true := rfl

theorem covers_some (l : List Attr) (a : Attr) : covers (some l) a = l.contains a := rfl

theorem newObjCols_none (r : Vals) : newObjCols r none = newObj r := rfl

theorem loadExpiredCols_none (o : Obj) (r : Vals) : loadExpiredCols o r none = loadExpired o r := by
  simp [loadExpiredCols, loadExpired, covers]

/-- with every column in the row the regenerated flag plays no role -/
theorem populateCols_none (o : Obj) (r : Vals) : populateCols o r none = newObj r := rfl

/-- what `populateCols` is when the source pops absent attributes unconditionally -/
theorem populateCols_eq (hflag : SaVerif.Gen.ExpireCfg.populateExistingPopsAbsent = true) (o : Obj)
    (r : Vals) (cols : Option (List Attr)) : populateCols o r cols = newObjCols r cols := by
  simp [populateCols, newObjCols, hflag]

theorem cohObj_newObjCols (r : Vals) (cols : Option (List Attr)) : CohObj (newObjCols r cols) (some r) := by
  refine ⟨?_, fun _ _ h => by simp [newObjCols] at h⟩
  intro a v hd _
  simp only [newObjCols] at hd
  by_cases hc : covers cols a = true
  · simp only [hc, if_true, Option.some.injEq] at hd
    exact ⟨r, rfl, hd⟩
  · simp only [hc, Bool.false_eq_true, if_false] at hd
    cases hd

theorem cohObj_populateCols (hflag : SaVerif.Gen.ExpireCfg.populateExistingPopsAbsent = true) (o : Obj)
    (r : Vals) (cols : Option (List Attr)) : CohObj (populateCols o r cols) (some r) := by
  rw [populateCols_eq hflag]; exact cohObj_newObjCols r cols

theorem cohObj_loadExpiredCols {o : Obj} {r : Vals} (h : CohObj o (some r)) (cols : Option (List Attr)) :
    CohObj (loadExpiredCols o r cols) (some r) := by
  refine ⟨?_, ?_⟩
  · intro a v hd hm
    simp only [loadExpiredCols] at hd hm
    by_cases hc : ((o.dict a).isNone && !o.mod a && covers cols a) = true
    · simp only [hc, if_true, Option.some.injEq] at hd
      exact ⟨r, rfl, hd⟩
    · simp only [hc, Bool.false_eq_true, if_false] at hd
      exact h.loaded a v hd hm
  · intro a cv hm hcv
    exact h.cv a cv hm hcv

/-- loading into an object whose row is `r`, whatever it was before: only
    previously-unloaded attributes are touched, so coherence is needed for the rest -/
theorem cohObj_populateAttrs {o : Obj} {r : Vals} (h : CohObj o (some r)) (l : List Attr) :
    CohObj (populateAttrs o l r) (some r) := by
  refine ⟨?_, ?_⟩
  · intro a v hd hm
    simp only [populateAttrs] at hd hm
    by_cases hc : l.contains a = true
    · simp only [hc, if_true, Option.some.injEq] at hd
      exact ⟨r, rfl, hd⟩
    · simp only [hc, Bool.false_eq_true, if_false] at hd hm
      exact h.loaded a v hd hm
  · intro a cv hm hcv
    simp only [populateAttrs] at hm hcv
    by_cases hc : l.contains a = true
    · rw [if_pos hc] at hm; cases hm
    · simp only [hc, Bool.false_eq_true, if_false] at hm hcv
      exact h.cv a cv hm hcv

theorem cohObj_setAttr {o : Obj} {row : Option Vals} (h : CohObj o row) (a : Attr) (v : Int) :
    CohObj (setAttr o a v) row := by
  refine ⟨?_, ?_⟩
  · intro b w hd hm
    simp only [setAttr] at hd hm
    by_cases hb : b = a
    · simp [hb] at hm
    · simp only [hb, if_false] at hd hm
      exact h.loaded b w hd hm
  · intro b cv hm hcv
    simp only [setAttr] at hm hcv
    by_cases hb : b = a
    · subst hb
      simp only [if_true] at hcv
      by_cases hma : o.mod b = true
      · simp only [hma, if_true] at hcv
        exact h.cv b cv hma hcv
      · simp only [hma, Bool.false_eq_true, if_false] at hcv
        exact h.loaded b cv hcv (by simpa using hma)
    · simp only [hb, if_false] at hm hcv
      exact h.cv b cv hm hcv

theorem wfObj_newObj (c : Cfg) (r : Vals) : WFObj c (newObj r) :=
  ⟨fun _ h => by simp [newObj] at h, fun _ h => by simp [newObj] at h⟩

theorem wfObj_expireObj (c : Cfg) (o : Obj) : WFObj c (expireObj o) :=
  ⟨fun _ h => by simp [expireObj] at h, fun _ h => by simp [expireObj] at h⟩

theorem wfObj_expireAttrs {c : Cfg} {o : Obj} (h : WFObj c o) (l : List Attr) :
    WFObj c (expireAttrs o l) := by
  refine ⟨?_, ?_⟩ <;> intro a hm <;> simp only [expireAttrs] at hm ⊢ <;>
    by_cases hc : l.contains a = true
  · rw [if_pos hc] at hm; cases hm
  · simp only [hc, Bool.false_eq_true, if_false] at hm; exact h.attr_lt a hm
  · rw [if_pos hc] at hm; cases hm
  · simp only [hc, Bool.false_eq_true, if_false] at hm; exact h.mod_dirty a hm

theorem wfObj_expireSel {c : Cfg} {o : Obj} (h : WFObj c o) (l : Option (List Attr)) :
    WFObj c (expireSel o l) := by
  cases l with
  | none => exact wfObj_expireObj c o
  | some l => exact wfObj_expireAttrs h l

theorem wfObj_loadExpired {c : Cfg} {o : Obj} (h : WFObj c o) (r : Vals) :
    WFObj c (loadExpired o r) :=
  ⟨fun a hm => h.attr_lt a hm, fun a hm => h.mod_dirty a hm⟩

theorem wfObj_newObjCols (c : Cfg) (r : Vals) (cols : Option (List Attr)) : WFObj c (newObjCols r cols) :=
  ⟨fun _ h => by simp [newObjCols] at h, fun _ h => by simp [newObjCols] at h⟩

theorem wfObj_populateCols (c : Cfg) (o : Obj) (r : Vals) (cols : Option (List Attr)) :
    WFObj c (populateCols o r cols) :=
  ⟨fun _ h => by simp [populateCols] at h, fun _ h => by simp [populateCols] at h⟩

theorem wfObj_loadExpiredCols {c : Cfg} {o : Obj} (h : WFObj c o) (r : Vals) (cols : Option (List Attr)) :
    WFObj c (loadExpiredCols o r cols) :=
  ⟨fun a hm => h.attr_lt a hm, fun a hm => h.mod_dirty a hm⟩

theorem wfObj_populateAttrs {c : Cfg} {o : Obj} (h : WFObj c o) (l : List Attr) (r : Vals) :
    WFObj c (populateAttrs o l r) := by
  refine ⟨?_, ?_⟩ <;> intro a hm <;> simp only [populateAttrs] at hm ⊢ <;>
    by_cases hc : l.contains a = true
  · rw [if_pos hc] at hm; cases hm
  · simp only [hc, Bool.false_eq_true, if_false] at hm; exact h.attr_lt a hm
  · rw [if_pos hc] at hm; cases hm
  · simp only [hc, Bool.false_eq_true, if_false] at hm; exact h.mod_dirty a hm

theorem wfObj_setAttr {c : Cfg} {o : Obj} (h : WFObj c o) (a : Attr) (v : Int) (ha : a < c.nattr) :
    WFObj c (setAttr o a v) := by
  refine ⟨?_, fun _ _ => rfl⟩
  intro b hm
  simp only [setAttr] at hm
  by_cases hb : b = a
  · subst hb; exact ha
  · simp only [hb, if_false] at hm; exact h.attr_lt b hm

theorem wfObj_flushObj {c : Cfg} {o : Obj} (h : WFObj c o) (row : Option Vals) :
    WFObj c (flushObj o row) := by
  unfold flushObj
  by_cases hd : o.dirty = true
  · simp only [hd, if_true]
    exact ⟨fun _ hm => by simp at hm, fun _ hm => by simp at hm⟩
  · simp only [hd, Bool.false_eq_true, if_false]
    exact h

theorem anyBelow_false {n : Nat} {f : Nat → Bool} (h : anyBelow n f = false) {k : Nat} (hk : k < n) :
    f k = false := by
  unfold anyBelow at h
  rw [List.any_eq_false] at h
  simpa using h k (List.mem_range.2 hk)

theorem anyBelow_true {n : Nat} {f : Nat → Bool} {k : Nat} (hk : k < n) (h : f k = true) :
    anyBelow n f = true := by
  unfold anyBelow
  rw [List.any_eq_true]
  exact ⟨k, List.mem_range.2 hk, h⟩

/-- an attribute that is not in the UPDATE keeps its row value -/
theorem flushRow_unchanged (c : Cfg) (o : Obj) (r : Vals) (a : Attr) (hch : attrChanged o a = false) :
    ∃ r', flushRow c (some o) (some r) = some r' ∧ r' a = r a := by
  unfold flushRow
  by_cases hn : needsUpdate c o = true
  · simp only [hn, if_true]
    refine ⟨_, rfl, ?_⟩
    simp [hch]
  · simp only [hn, Bool.false_eq_true, if_false]
    exact ⟨r, rfl, rfl⟩

theorem attrChanged_of_unmod (o : Obj) (a : Attr) (hm : o.mod a = false) : attrChanged o a = false := by
  simp [attrChanged, hm]

/-- the flush of one (coherent, well-formed) object keeps it coherent with the row it
    wrote -/
theorem cohObj_flush {c : Cfg} {o : Obj} {row : Option Vals} (hw : WFObj c o) (h : CohObj o row)
    (hns : (needsUpdate c o && row.isNone) = false) :
    CohObj (flushObj o row) (flushRow c (some o) row) := by
  by_cases hd : o.dirty = true
  · -- all attributes committed
    cases row with
    | none =>
      -- no UPDATE was needed
      have hn : needsUpdate c o = false := by simpa using hns
      have hfr : flushRow c (some o) none = none := by simp [flushRow]
      rw [hfr]
      simp only [flushObj, hd, if_true]
      refine ⟨?_, fun _ _ hm => by simp at hm⟩
      intro a v hda _
      have hda : o.dict a = some v := by
        cases hpk : o.pk <;> simpa [hpk] using hda
      -- either it was unmodified (then coherent with `none`: impossible) or modified but unchanged
      by_cases hm : o.mod a = true
      · have hlt := hw.attr_lt a hm
        have hch : attrChanged o a = false := anyBelow_false hn hlt
        unfold attrChanged at hch
        simp only [hm, Bool.true_and] at hch
        cases hcv : o.cval a with
        | none => simp [hcv] at hch
        | some cv =>
          obtain ⟨r, hr, _⟩ := h.cv a cv hm hcv
          cases hr
      · obtain ⟨r, hr, _⟩ := h.loaded a v hda (by simpa using hm)
        cases hr
    | some r =>
      have hobj : flushObj o (some r) =
          ⟨(match o.pk with | false => loadExpired o r | true => o).dict, fun _ => false,
           fun _ => none, (match o.pk with | false => loadExpired o r | true => o).pk, false⟩ := by
        simp only [flushObj, hd, if_true]
        cases o.pk <;> rfl
      rw [hobj]
      refine ⟨?_, fun _ _ hm => by simp at hm⟩
      intro a v hda _
      simp only at hda
      -- the dict value before the flush-time load, or the loaded one
      have hcase : (o.dict a = some v) ∨ (o.dict a = none ∧ o.mod a = false ∧ r a = v) := by
        cases hpk : o.pk with
        | true => simp only [hpk] at hda; exact Or.inl hda
        | false =>
          simp only [hpk, loadExpired] at hda
          by_cases hc : ((o.dict a).isNone && !o.mod a) = true
          · simp only [hc, if_true, Option.some.injEq] at hda
            simp only [Bool.and_eq_true, Option.isNone_iff_eq_none, Bool.not_eq_true'] at hc
            exact Or.inr ⟨hc.1, hc.2, hda⟩
          · simp only [hc, Bool.false_eq_true, if_false] at hda
            exact Or.inl hda
      by_cases hm : o.mod a = true
      · have hlt := hw.attr_lt a hm
        rcases hcase with hdv | ⟨_, hm', _⟩
        · by_cases hch : attrChanged o a = true
          · have hn : needsUpdate c o = true := anyBelow_true hlt hch
            refine ⟨fun a => if (decide (a < c.nattr) && attrChanged o a) = true then (o.dict a).getD 0 else r a,
              by simp only [flushRow, hn, if_true], ?_⟩
            simp [hlt, hch, hdv]
          · -- modified but equal to the committed value
            have hchf : attrChanged o a = false := by simpa using hch
            obtain ⟨r', hr', he⟩ := flushRow_unchanged c o r a hchf
            unfold attrChanged at hchf
            simp only [hm, Bool.true_and, hdv] at hchf
            cases hcv : o.cval a with
            | none => simp [hcv] at hchf
            | some cv =>
              simp only [hcv, bne_eq_false_iff_eq] at hchf
              obtain ⟨r0, hr0, hv0⟩ := h.cv a cv hm hcv
              cases hr0
              exact ⟨r', hr', by rw [he, hv0, hchf]⟩
        · rw [hm] at hm'; cases hm'
      · have hmf : o.mod a = false := by simpa using hm
        obtain ⟨r', hr', he⟩ := flushRow_unchanged c o r a (attrChanged_of_unmod o a hmf)
        refine ⟨r', hr', ?_⟩
        rw [he]
        rcases hcase with hdv | ⟨_, _, hv⟩
        · obtain ⟨r0, hr0, hv0⟩ := h.loaded a v hdv hmf
          cases hr0; exact hv0
        · exact hv
  · -- not part of the flush: object and row untouched
    have hn : needsUpdate c o = false := by
      cases hnu : needsUpdate c o with
      | false => rfl
      | true =>
        unfold needsUpdate anyBelow at hnu
        rw [List.any_eq_true] at hnu
        obtain ⟨a, _, ha⟩ := hnu
        unfold attrChanged at ha
        simp only [Bool.and_eq_true] at ha
        exact absurd (hw.mod_dirty a ha.1) hd
    have hobj : flushObj o row = o := by simp [flushObj, hd]
    have hrow : flushRow c (some o) row = row := by
      cases row <;> simp [flushRow, hn]
    rw [hobj, hrow]
    exact h

end SaVerif.Expire
