import SaVerif.Model.Cascade
/-! Helper lemmas about M-CASCADE (core Lean only): the loop invariant of
`Mapper.cascade_iterator`. -/
namespace SaVerif.Cascade

/-! ### `RelationshipProperty.cascade_iterator` -/

theorem expand_spec (g : Graph) : ∀ (l visited : List Nat),
    (∀ x, x ∈ (expand g l visited).2 ↔ x ∈ visited ∨ x ∈ (expand g l visited).1) ∧
    (∀ c, c ∈ l → g.halt c = false → c ∈ (expand g l visited).2) ∧
    (∀ c, c ∈ (expand g l visited).1 → c ∈ l ∧ g.halt c = false ∧ c ∉ visited) ∧
    (expand g l visited).1.Nodup
  | [], visited => ⟨(fun x => by simp [expand]), (fun c h => by cases h),
      (fun c h => by simp [expand] at h), (by simp [expand])⟩
  | c :: cs, visited => by
    unfold expand
    split
    · rename_i hskip
      have ih := expand_spec g cs visited
      refine ⟨ih.1, ?_, ?_, ih.2.2.2⟩
      · intro d hd hh
        rcases List.mem_cons.1 hd with rfl | hd
        · simp only [Bool.or_eq_true, List.contains_eq_mem, decide_eq_true_eq] at hskip
          rcases hskip with hv | hv
          · exact (ih.1 d).2 (Or.inl hv)
          · rw [hh] at hv; cases hv
        · exact ih.2.1 d hd hh
      · intro d hd
        have := ih.2.2.1 d hd
        exact ⟨List.mem_cons_of_mem _ this.1, this.2⟩
    · rename_i hskip
      simp only [Bool.or_eq_true, List.contains_eq_mem, decide_eq_true_eq, not_or,
        Bool.not_eq_true] at hskip
      have ih := expand_spec g cs (c :: visited)
      simp only
      refine ⟨?_, ?_, ?_, ?_⟩
      · intro x
        rw [ih.1 x]
        simp only [List.mem_cons]
        constructor
        · rintro ((h | h) | h)
          · exact Or.inr (Or.inl h)
          · exact Or.inl h
          · exact Or.inr (Or.inr h)
        · rintro (h | h | h)
          · exact Or.inl (Or.inr h)
          · exact Or.inl (Or.inl h)
          · exact Or.inr h
      · intro d hd hh
        rcases List.mem_cons.1 hd with rfl | hd
        · exact (ih.1 d).2 (Or.inl (List.mem_cons_self ..))
        · exact ih.2.1 d hd hh
      · intro d hd
        rcases List.mem_cons.1 hd with rfl | hd
        · exact ⟨List.mem_cons_self .., hskip.2, hskip.1⟩
        · have := ih.2.2.1 d hd
          exact ⟨List.mem_cons_of_mem _ this.1, this.2.1, fun hv => this.2.2 (List.mem_cons_of_mem _ hv)⟩
      · rw [List.nodup_cons]
        refine ⟨?_, ih.2.2.2⟩
        intro hm
        exact (ih.2.2.1 c hm).2.2 (List.mem_cons_self ..)

/-! ### the loop invariant -/

/-- instances queued on the stack, not yet yielded -/
def pend : List Frame → List Nat
  | [] => []
  | .props _ _ :: rest => pend rest
  | .insts q :: rest => q ++ pend rest

theorem mem_allRels (g : Graph) (r : Nat) : r ∈ allRels g ↔ r < g.nrels := by
  simp [allRels]

structure Inv (g : Graph) (root : Nat) (s : St) : Prop where
  /-- every visited object is reachable through flagged edges -/
  sound : ∀ x, x ∈ s.visited → Reach g root x
  /-- an object whose properties are being walked is the root or reachable -/
  frames : ∀ n rs, Frame.props n rs ∈ s.stack → n = root ∨ Reach g root n
  /-- property lists on the stack only name relationships of the mapper -/
  rels : ∀ n rs, Frame.props n rs ∈ s.stack → ∀ r, r ∈ rs → r < g.nrels
  /-- visited = yielded ∪ queued, each once -/
  nodup : (s.out ++ pend s.stack).Nodup
  cover : ∀ x, x ∈ s.visited ↔ x ∈ s.out ∨ x ∈ pend s.stack
  /-- the root and every yielded object have each flagged child visited, or the relationship
      is still waiting in one of their frames -/
  closed : ∀ x, (x = root ∨ x ∈ s.out) → ∀ r, r < g.nrels → g.flag r = true →
    ∀ c, c ∈ g.vals x r → g.halt c = false →
      c ∈ s.visited ∨ ∃ rs, Frame.props x rs ∈ s.stack ∧ r ∈ rs

theorem inv_init (g : Graph) (root : Nat) :
    Inv g root { stack := [.props root (allRels g)], visited := [], out := [] } := by
  refine ⟨(fun x h => by cases h), ?_, ?_, (by simp [pend]), (fun x => by simp [pend]), ?_⟩
  · intro n rs h
    simp only [List.mem_singleton, Frame.props.injEq] at h
    exact Or.inl h.1
  · intro n rs h r hr
    simp only [List.mem_singleton, Frame.props.injEq] at h
    rw [h.2] at hr
    exact (mem_allRels g r).1 hr
  · intro x hx r hr _ c _ _
    rcases hx with rfl | hx
    · exact Or.inr ⟨allRels g, by simp, (mem_allRels g r).2 hr⟩
    · cases hx

/-- pop of an exhausted frame -/
theorem inv_pop (g : Graph) (root : Nat) (s : St) (f : Frame) (rest : List Frame)
    (hst : s.stack = f :: rest) (hf : f = .insts [] ∨ ∃ n, f = .props n [])
    (h : Inv g root s) : Inv g root { s with stack := rest } := by
  have ⟨hs, hfr, hrl, hn, hc, hcl⟩ := h
  rw [hst] at hfr hrl hn hc hcl
  have hp : pend (f :: rest) = pend rest := by
    rcases hf with rfl | ⟨n, rfl⟩ <;> simp [pend]
  rw [hp] at hn hc
  refine ⟨hs, fun m rs hm => hfr m rs (List.mem_cons_of_mem _ hm),
    fun m rs hm => hrl m rs (List.mem_cons_of_mem _ hm), hn, hc, ?_⟩
  intro x hx r hr hfl c hcv hh
  rcases hcl x hx r hr hfl c hcv hh with h1 | ⟨rs, hm, hrs⟩
  · exact Or.inl h1
  · rcases List.mem_cons.1 hm with heq | hm
    · rcases hf with rfl | ⟨n, rfl⟩
      · cases heq
      · simp only [Frame.props.injEq] at heq
        rw [heq.2] at hrs; cases hrs
    · exact Or.inr ⟨rs, hm, hrs⟩

/-- a relationship without the cascade is skipped -/
theorem inv_skip (g : Graph) (root : Nat) (s : St) (n r : Nat) (rs : List Nat) (rest : List Frame)
    (hst : s.stack = .props n (r :: rs) :: rest) (hflag : g.flag r = false)
    (h : Inv g root s) : Inv g root { s with stack := .props n rs :: rest } := by
  have ⟨hs, hfr, hrl, hn, hc, hcl⟩ := h
  rw [hst] at hfr hrl hn hc hcl
  refine ⟨hs, ?_, ?_, (by simpa [pend] using hn), (fun x => by simpa [pend] using hc x), ?_⟩
  · intro m rs' hm
    rcases List.mem_cons.1 hm with heq | hm
    · simp only [Frame.props.injEq] at heq
      rw [heq.1]
      exact hfr n (r :: rs) (List.mem_cons_self ..)
    · exact hfr m rs' (List.mem_cons_of_mem _ hm)
  · intro m rs' hm r' hr'
    rcases List.mem_cons.1 hm with heq | hm
    · simp only [Frame.props.injEq] at heq
      rw [heq.2] at hr'
      exact hrl n (r :: rs) (List.mem_cons_self ..) r' (List.mem_cons_of_mem _ hr')
    · exact hrl m rs' (List.mem_cons_of_mem _ hm) r' hr'
  · intro x hx r' hr' hfl c hcv hh
    rcases hcl x hx r' hr' hfl c hcv hh with h1 | ⟨rs', hm, hrs⟩
    · exact Or.inl h1
    · rcases List.mem_cons.1 hm with heq | hm
      · simp only [Frame.props.injEq] at heq
        rw [heq.2] at hrs
        rcases List.mem_cons.1 hrs with rfl | hrs
        · rw [hflag] at hfl; cases hfl
        · exact Or.inr ⟨rs, by rw [heq.1]; exact List.mem_cons_self .., hrs⟩
      · exact Or.inr ⟨rs', List.mem_cons_of_mem _ hm, hrs⟩

/-- a relationship with the cascade is expanded -/
theorem inv_expand (g : Graph) (root : Nat) (s : St) (n r : Nat) (rs : List Nat) (rest S' : List Frame)
    (hst : s.stack = .props n (r :: rs) :: rest) (hflag : g.flag r = true)
    (hS : ∀ f, f ∈ S' ↔ f = .props n rs ∨ f ∈ rest ∨
      ((expand g (g.vals n r) s.visited).1 ≠ [] ∧ f = .insts (expand g (g.vals n r) s.visited).1))
    (hP : pend S' = (expand g (g.vals n r) s.visited).1 ++ pend rest)
    (h : Inv g root s) :
    Inv g root { s with stack := S', visited := (expand g (g.vals n r) s.visited).2 } := by
  have ⟨hs, hfr, hrl, hn, hc, hcl⟩ := h
  rw [hst] at hfr hrl hn hc hcl
  have es := expand_spec g (g.vals n r) s.visited
  generalize expand g (g.vals n r) s.visited = e at *
  obtain ⟨F1, F2, F3, F4⟩ := es
  have hnr : n = root ∨ Reach g root n := hfr n (r :: rs) (List.mem_cons_self ..)
  have hrb : r < g.nrels := hrl n (r :: rs) (List.mem_cons_self ..) r (List.mem_cons_self ..)
  have hpold : pend (Frame.props n (r :: rs) :: rest) = pend rest := by simp [pend]
  rw [hpold] at hn hc
  refine ⟨?_, ?_, ?_, ?_, ?_, ?_⟩
  · intro x hx
    rcases (F1 x).1 hx with hx | hx
    · exact hs x hx
    · have := F3 x hx
      have ed : Edge g n x := ⟨r, hrb, hflag, this.1, this.2.1⟩
      rcases hnr with rfl | hnr
      · exact Reach.one ed
      · exact Reach.more hnr ed
  · intro m rs' hm
    rcases (hS _).1 hm with heq | hm | ⟨_, heq⟩
    · simp only [Frame.props.injEq] at heq
      rw [heq.1]; exact hnr
    · exact hfr m rs' (List.mem_cons_of_mem _ hm)
    · cases heq
  · intro m rs' hm r' hr'
    rcases (hS _).1 hm with heq | hm | ⟨_, heq⟩
    · simp only [Frame.props.injEq] at heq
      rw [heq.2] at hr'
      exact hrl n (r :: rs) (List.mem_cons_self ..) r' (List.mem_cons_of_mem _ hr')
    · exact hrl m rs' (List.mem_cons_of_mem _ hm) r' hr'
    · cases heq
  · show (s.out ++ pend S').Nodup
    rw [hP]
    rw [List.nodup_append] at hn ⊢
    refine ⟨hn.1, ?_, ?_⟩
    · rw [List.nodup_append]
      refine ⟨F4, hn.2.1, ?_⟩
      intro a ha b hb hab
      subst hab
      exact (F3 a ha).2.2 ((hc a).2 (Or.inr hb))
    · intro a ha b hb hab
      subst hab
      rcases List.mem_append.1 hb with hb | hb
      · exact (F3 a hb).2.2 ((hc a).2 (Or.inl ha))
      · exact hn.2.2 a ha a hb rfl
  · intro x
    show x ∈ e.2 ↔ x ∈ s.out ∨ x ∈ pend S'
    rw [hP, F1 x, hc x, List.mem_append]
    constructor
    · rintro ((h1 | h1) | h1)
      · exact Or.inl h1
      · exact Or.inr (Or.inr h1)
      · exact Or.inr (Or.inl h1)
    · rintro (h1 | h1 | h1)
      · exact Or.inl (Or.inl h1)
      · exact Or.inr h1
      · exact Or.inl (Or.inr h1)
  · intro x hx r' hr' hfl c hcv hh
    rcases hcl x hx r' hr' hfl c hcv hh with h1 | ⟨rs', hm, hrs⟩
    · exact Or.inl ((F1 c).2 (Or.inl h1))
    · rcases List.mem_cons.1 hm with heq | hm
      · simp only [Frame.props.injEq] at heq
        rw [heq.2] at hrs
        rcases List.mem_cons.1 hrs with rfl | hrs
        · rw [heq.1] at hcv
          exact Or.inl (F2 c hcv hh)
        · exact Or.inr ⟨rs, (hS _).2 (Or.inl (by rw [heq.1])), hrs⟩
      · exact Or.inr ⟨rs', (hS _).2 (Or.inr (Or.inl hm)), hrs⟩

/-- an instance is yielded and its properties are pushed -/
theorem inv_yield (g : Graph) (root : Nat) (s : St) (c : Nat) (cs : List Nat) (rest : List Frame)
    (hst : s.stack = .insts (c :: cs) :: rest) (h : Inv g root s) :
    Inv g root { s with stack := .props c (allRels g) :: .insts cs :: rest, out := s.out ++ [c] } := by
  have ⟨hs, hfr, hrl, hn, hc, hcl⟩ := h
  rw [hst] at hfr hrl hn hc hcl
  have hcv : c ∈ s.visited := (hc c).2 (Or.inr (by simp [pend]))
  refine ⟨hs, ?_, ?_, ?_, ?_, ?_⟩
  · intro m rs hm
    rcases List.mem_cons.1 hm with heq | hm
    · simp only [Frame.props.injEq] at heq
      rw [heq.1]; exact Or.inr (hs c hcv)
    · rcases List.mem_cons.1 hm with heq | hm
      · cases heq
      · exact hfr m rs (List.mem_cons_of_mem _ hm)
  · intro m rs hm r hr
    rcases List.mem_cons.1 hm with heq | hm
    · simp only [Frame.props.injEq] at heq
      rw [heq.2] at hr
      exact (mem_allRels g r).1 hr
    · rcases List.mem_cons.1 hm with heq | hm
      · cases heq
      · exact hrl m rs (List.mem_cons_of_mem _ hm) r hr
  · show ((s.out ++ [c]) ++ pend (Frame.props c (allRels g) :: Frame.insts cs :: rest)).Nodup
    simp only [pend] at hn ⊢
    simpa [List.append_assoc] using hn
  · intro x
    show x ∈ s.visited ↔ x ∈ s.out ++ [c] ∨ x ∈ pend (Frame.props c (allRels g) :: Frame.insts cs :: rest)
    rw [hc x]
    simp only [pend, List.mem_append, List.mem_cons, List.mem_singleton, List.not_mem_nil, or_false]
    constructor
    · rintro (h1 | (h1 | h1) | h1)
      · exact Or.inl (Or.inl h1)
      · exact Or.inl (Or.inr h1)
      · exact Or.inr (Or.inl h1)
      · exact Or.inr (Or.inr h1)
    · rintro ((h1 | h1) | h1 | h1)
      · exact Or.inl h1
      · exact Or.inr (Or.inl (Or.inl h1))
      · exact Or.inr (Or.inl (Or.inr h1))
      · exact Or.inr (Or.inr h1)
  · intro x hx r hr hfl d hdv hh
    have hx' : x = root ∨ x ∈ s.out ∨ x = c := by
      rcases hx with hx | hx
      · exact Or.inl hx
      · rcases List.mem_append.1 hx with hx | hx
        · exact Or.inr (Or.inl hx)
        · exact Or.inr (Or.inr (by simpa using hx))
    rcases hx' with hx' | hx' | hx'
    · rcases hcl x (Or.inl hx') r hr hfl d hdv hh with h1 | ⟨rs, hm, hrs⟩
      · exact Or.inl h1
      · refine Or.inr ⟨rs, ?_, hrs⟩
        rcases List.mem_cons.1 hm with heq | hm
        · cases heq
        · exact List.mem_cons_of_mem _ (List.mem_cons_of_mem _ hm)
    · rcases hcl x (Or.inr hx') r hr hfl d hdv hh with h1 | ⟨rs, hm, hrs⟩
      · exact Or.inl h1
      · refine Or.inr ⟨rs, ?_, hrs⟩
        rcases List.mem_cons.1 hm with heq | hm
        · cases heq
        · exact List.mem_cons_of_mem _ (List.mem_cons_of_mem _ hm)
    · subst hx'
      exact Or.inr ⟨allRels g, List.mem_cons_self .., (mem_allRels g r).2 hr⟩

theorem inv_step (g : Graph) (root : Nat) (s : St) (h : Inv g root s) : Inv g root (step g s) := by
  unfold step
  split
  · exact h
  · rename_i n rest hst
    exact inv_pop g root s _ rest hst (Or.inr ⟨n, rfl⟩) h
  · rename_i n r rs rest hst
    split
    · rename_i hflag
      simp only
      split
      · rename_i hq
        refine inv_expand g root s n r rs rest _ hst hflag ?_ ?_ h
        · intro f
          have : (expand g (g.vals n r) s.visited).1 = [] := by simpa using hq
          simp [this]
        · have : (expand g (g.vals n r) s.visited).1 = [] := by simpa using hq
          simp [pend, this]
      · rename_i hq
        refine inv_expand g root s n r rs rest _ hst hflag ?_ ?_ h
        · intro f
          have : (expand g (g.vals n r) s.visited).1 ≠ [] := by simpa using hq
          simp only [List.mem_cons, this, ne_eq, not_false_eq_true, true_and]
          constructor
          · rintro (h1 | h1 | h1)
            · exact Or.inr (Or.inr h1)
            · exact Or.inl h1
            · exact Or.inr (Or.inl h1)
          · rintro (h1 | h1 | h1)
            · exact Or.inr (Or.inl h1)
            · exact Or.inr (Or.inr h1)
            · exact Or.inl h1
        · simp [pend]
    · rename_i hflag
      exact inv_skip g root s n r rs rest hst (by simpa using hflag) h
  · rename_i rest hst
    exact inv_pop g root s _ rest hst (Or.inl rfl) h
  · rename_i c cs rest hst
    exact inv_yield g root s c cs rest hst h

theorem inv_loop (g : Graph) (root : Nat) : ∀ (fuel : Nat) (s s' : St), Inv g root s →
    loop g fuel s = some s' → Inv g root s' ∧ s'.stack = []
  | 0, s, s', h, hl => by
    simp only [loop] at hl
    split at hl
    · rename_i he
      cases hl
      exact ⟨h, by simpa using he⟩
    · cases hl
  | fuel + 1, s, s', h, hl => by
    simp only [loop] at hl
    split at hl
    · rename_i he
      cases hl
      exact ⟨h, by simpa using he⟩
    · exact inv_loop g root fuel _ s' (inv_step g root s h) hl

end SaVerif.Cascade
