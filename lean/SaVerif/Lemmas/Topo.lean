import SaVerif.Model.Topo
/-! Helper lemmas about M-TOPO (core Lean only). -/
namespace SaVerif.Topo

theorem mem_parentsOf {ts : List Edge} {p c : Node} : p ∈ parentsOf ts c ↔ (p, c) ∈ ts := by
  unfold parentsOf
  simp only [List.mem_map, List.mem_filter, beq_iff_eq]
  constructor
  · rintro ⟨⟨a, b⟩, ⟨h1, h2⟩, h3⟩
    simp only at h2 h3
    subst h2; subst h3; exact h1
  · intro h
    exact ⟨(p, c), ⟨h, rfl⟩, rfl⟩

theorem ready_iff {ts : List Edge} {todo : List Node} {n : Node} :
    ready ts todo n = true ↔ ∀ p, (p, n) ∈ ts → p ∉ todo := by
  unfold ready
  simp only [List.all_eq_true, Bool.not_eq_true', List.contains_eq_mem, decide_eq_false_iff_not]
  constructor
  · intro h p hp; exact h p (mem_parentsOf.2 hp)
  · intro h p hp; exact h p (mem_parentsOf.1 hp)

theorem mem_layer {ts : List Edge} {todo : List Node} {n : Node} :
    n ∈ layer ts todo ↔ n ∈ todo ∧ ∀ p, (p, n) ∈ ts → p ∉ todo := by
  unfold layer
  rw [List.mem_filter, ready_iff]

theorem mem_remaining {todo out : List Node} {n : Node} :
    n ∈ remaining todo out ↔ n ∈ todo ∧ n ∉ out := by
  unfold remaining
  simp [List.mem_filter]

/-- inside `todo`, "not in the layer" is "not ready" -/
theorem remaining_layer_eq (ts : List Edge) (todo : List Node) :
    remaining todo (layer ts todo) = todo.filter (fun t => !ready ts todo t) := by
  unfold remaining
  apply List.filter_congr
  intro x hx
  have : (layer ts todo).contains x = ready ts todo x := by
    unfold layer
    rw [Bool.eq_iff_iff]
    simp [List.mem_filter, hx]
  rw [this]

theorem layer_remaining_perm (ts : List Edge) (todo : List Node) :
    (layer ts todo ++ remaining todo (layer ts todo)).Perm todo := by
  rw [remaining_layer_eq]
  unfold layer
  exact List.filter_append_perm _ _

theorem remaining_length_lt {ts : List Edge} {todo : List Node}
    (h : (layer ts todo).isEmpty = false) :
    (remaining todo (layer ts todo)).length < todo.length := by
  have hp := (layer_remaining_perm ts todo).length_eq
  rw [List.length_append] at hp
  have : 0 < (layer ts todo).length := by
    cases hl : layer ts todo with
    | nil => rw [hl] at h; simp at h
    | cons a l => simp
  omega

end SaVerif.Topo
