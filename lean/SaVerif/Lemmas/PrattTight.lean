import SaVerif.Lemmas.Pratt
/-!
`tight g k t`: every operator of `t` that is not inside a bracket binds at least `k` in
grammar `g` (on every side).  From tightness follow the two spine conditions of `wb`
(`leftOK_of_tight`, `rightOK_of_tight`), tightness is inherited by the operands of a chain
and is preserved by re-association (`tight_norm`).
-/
namespace SaVerif.Pratt

def tight (g : Grammar) (k : Nat) : G → Bool
  | G.atom _ => true
  | G.br _ _ => true
  | G.pre s _ c =>
    match g.prefixBp s with
    | none => false
    | some bp => decide (k ≤ bp) && tight g k c
  | G.inf s _ l r =>
    match g.infixBp s with
    | none => false
    | some (lbp, rbp) => decide (k ≤ lbp) && decide (k ≤ rbp) && tight g k l && tight g k r
  | G.tern s _ _ _ a b c =>
    match g.infixBp s, g.ternBp s with
    | some (lbp, rbp), some (_, bp3, _) =>
      decide (k ≤ lbp) && decide (k ≤ rbp) && decide (k ≤ bp3) &&
        tight g k a && tight g k b && tight g k c
    | _, _ => false

theorem tight_mono (g : Grammar) {k k' : Nat} (h : k' ≤ k) : ∀ t : G, tight g k t = true → tight g k' t = true := by
  intro t
  induction t with
  | atom a => intro _; rfl
  | br b c _ => intro _; rfl
  | pre s t c ih =>
    intro ht
    simp only [tight] at ht ⊢
    cases hb : g.prefixBp s with
    | none => simp [hb] at ht
    | some bp =>
      simp only [hb, Bool.and_eq_true, decide_eq_true_eq] at ht ⊢
      exact ⟨by omega, ih ht.2⟩
  | inf s t l r ihl ihr =>
    intro ht
    simp only [tight] at ht ⊢
    cases hb : g.infixBp s with
    | none => simp [hb] at ht
    | some p =>
      obtain ⟨lbp, rbp⟩ := p
      simp only [hb, Bool.and_eq_true, decide_eq_true_eq] at ht ⊢
      exact ⟨⟨⟨by omega, by omega⟩, ihl ht.1.2⟩, ihr ht.2⟩
  | tern s t m mt a b c iha ihb ihc =>
    intro ht
    simp only [tight] at ht ⊢
    cases hb : g.infixBp s with
    | none => simp [hb] at ht
    | some p =>
      obtain ⟨lbp, rbp⟩ := p
      cases hq : g.ternBp s with
      | none => simp [hb, hq] at ht
      | some q =>
        obtain ⟨mid, bp3, mand⟩ := q
        simp only [hb, hq, Bool.and_eq_true, decide_eq_true_eq] at ht ⊢
        obtain ⟨⟨⟨⟨⟨h1, h2⟩, h3⟩, h4⟩, h5⟩, h6⟩ := ht
        exact ⟨⟨⟨⟨⟨by omega, by omega⟩, by omega⟩, iha h4⟩, ihb h5⟩, ihc h6⟩

/-- a tight tree can be the right operand of anything whose right binding power is ≤ k -/
theorem leftOK_of_tight (g : Grammar) {k m : Nat} (h : m ≤ k) :
    ∀ t : G, tight g k t = true → leftOK g m t = true := by
  intro t
  induction t with
  | atom a => intro _; rfl
  | br b c _ => intro _; rfl
  | pre s t c _ => intro _; rfl
  | inf s t l r ihl _ =>
    intro ht
    simp only [tight] at ht
    simp only [leftOK]
    cases hb : g.infixBp s with
    | none => simp [hb] at ht
    | some p =>
      obtain ⟨lbp, rbp⟩ := p
      simp only [hb, Bool.and_eq_true, decide_eq_true_eq] at ht ⊢
      exact ⟨by omega, ihl ht.1.2⟩
  | tern s t m' mt a b c iha _ _ =>
    intro ht
    simp only [tight] at ht
    simp only [leftOK]
    cases hb : g.infixBp s with
    | none => simp [hb] at ht
    | some p =>
      obtain ⟨lbp, rbp⟩ := p
      cases hq : g.ternBp s with
      | none => simp [hb, hq] at ht
      | some q =>
        obtain ⟨mid, bp3, mand⟩ := q
        simp only [hb, hq, Bool.and_eq_true, decide_eq_true_eq] at ht ⊢
        exact ⟨by omega, iha ht.1.1.2⟩

theorem stops_mono (g : Grammar) {k k' : Nat} (h : k ≤ k') (f : Option Sym)
    (hs : stops g k f = true) : stops g k' f = true := by
  cases f with
  | none => rfl
  | some s =>
    simp only [stops] at hs ⊢
    cases hb : g.infixBp s with
    | none => simp
    | some p =>
      obtain ⟨lbp, rbp⟩ := p
      simp only [hb, decide_eq_true_eq] at hs ⊢
      omega

/-- no operator on the right spine of `t` has `f` as the optional middle symbol of its
    ternary form (`x LIKE y` followed by `ESCAPE`) -/
def noMid (g : Grammar) (f : Option Sym) : G → Bool
  | G.atom _ => true
  | G.br _ _ => true
  | G.pre _ _ c => noMid g f c
  | G.inf s _ _ r =>
    (match g.ternBp s with
     | none => true
     | some (mid, _, _) => decide (f ≠ some mid)) && noMid g f r
  | G.tern _ _ _ _ _ _ c => noMid g f c

/-- a tight tree can be the left operand of (be followed by) any operator binding less than k -/
theorem rightOK_of_tight (g : Grammar) {k : Nat} (f : Option Sym) (hs : stops g k f = true) :
    ∀ t : G, tight g k t = true → noMid g f t = true → rightOK g f t = true := by
  intro t
  induction t with
  | atom a => intro _ _; rfl
  | br b c _ => intro _ _; rfl
  | pre s t c ih =>
    intro ht hm
    simp only [tight] at ht
    simp only [rightOK]
    cases hb : g.prefixBp s with
    | none => simp [hb] at ht
    | some bp =>
      simp only [hb, Bool.and_eq_true, decide_eq_true_eq] at ht ⊢
      exact ⟨stops_mono g ht.1 f hs, ih ht.2 (by simpa [noMid] using hm)⟩
  | inf s t l r _ ihr =>
    intro ht hm
    simp only [tight] at ht
    simp only [noMid, Bool.and_eq_true] at hm
    simp only [rightOK]
    cases hb : g.infixBp s with
    | none => simp [hb] at ht
    | some p =>
      obtain ⟨lbp, rbp⟩ := p
      simp only [hb, Bool.and_eq_true, decide_eq_true_eq] at ht ⊢
      exact ⟨⟨stops_mono g ht.1.1.2 f hs, ihr ht.2 hm.2⟩, hm.1⟩
  | tern s t m' mt a b c _ _ ihc =>
    intro ht hm
    simp only [tight] at ht
    simp only [rightOK]
    cases hb : g.infixBp s with
    | none => simp [hb] at ht
    | some p =>
      obtain ⟨lbp, rbp⟩ := p
      cases hq : g.ternBp s with
      | none => simp [hb, hq] at ht
      | some q =>
        obtain ⟨mid, bp3, mand⟩ := q
        simp only [hb, hq, Bool.and_eq_true, decide_eq_true_eq] at ht ⊢
        exact ⟨stops_mono g ht.1.1.1.2 f hs, ihc ht.2 (by simpa [noMid] using hm)⟩

end SaVerif.Pratt

namespace SaVerif.Pratt

/-! ### chains of one associative operator -/

def rootIs (s : Sym) : G → Bool
  | G.inf s' _ _ _ => decide (s' = s)
  | _ => false

theorem lspine_of_not_root (s : Sym) (t : G) (h : rootIs s t = false) : G.lspine s t = (t, []) := by
  cases t with
  | atom a => rfl
  | pre s' t' c => rfl
  | br k c => rfl
  | tern s' t' m mt a b c => rfl
  | inf s' t' l r =>
    simp only [rootIs, decide_eq_false_iff_not] at h
    simp [G.lspine, h]

theorem lspine_foldl (s : Sym) (xs : List (String × G)) (a : G) :
    G.lspine s (xs.foldl (fun acc x => G.inf s x.1 acc x.2) a)
      = ((G.lspine s a).1, (G.lspine s a).2 ++ xs) := by
  induction xs generalizing a with
  | nil => simp
  | cons x xs ih =>
    simp only [List.foldl_cons, ih]
    simp [G.lspine, List.append_assoc]

/-- operands of the chain at the root of `t`: head and tail of `lspine` -/
def chainOps (s : Sym) (t : G) : List G := (G.lspine s t).1 :: (G.lspine s t).2.map (·.2)

theorem tight_foldl (g : Grammar) (k : Nat) (s : Sym) (lbp rbp : Nat)
    (hb : g.infixBp s = some (lbp, rbp)) (hl : k ≤ lbp) (hr : k ≤ rbp)
    (xs : List (String × G)) (a : G) (ha : tight g k a = true)
    (hx : ∀ x ∈ xs, tight g k x.2 = true) :
    tight g k (xs.foldl (fun acc x => G.inf s x.1 acc x.2) a) = true := by
  induction xs generalizing a with
  | nil => simpa using ha
  | cons x xs ih =>
    simp only [List.foldl_cons]
    apply ih
    · simp [tight, hb, hl, hr, ha, hx x (by simp)]
    · intro y hy; exact hx y (by simp [hy])

theorem tight_lspine (g : Grammar) (k : Nat) (s : Sym) :
    ∀ t : G, tight g k t = true →
      tight g k (G.lspine s t).1 = true ∧ ∀ x ∈ (G.lspine s t).2, tight g k x.2 = true := by
  intro t
  induction t with
  | atom a => intro h; simp [G.lspine, h]
  | pre s' t' c _ => intro h; simp [G.lspine, h]
  | br b c _ => intro h; simp [G.lspine, h]
  | tern s' t' m mt a b c _ _ _ => intro h; simp [G.lspine, h]
  | inf s' t' l r ihl _ =>
    intro h
    by_cases hc : s' = s
    · subst hc
      have h' := h
      simp only [tight] at h'
      cases hb : g.infixBp s' with
      | none => simp [hb] at h'
      | some p =>
        obtain ⟨lbp, rbp⟩ := p
        simp only [hb, Bool.and_eq_true, decide_eq_true_eq] at h'
        obtain ⟨h1, h2⟩ := ihl h'.1.2
        simp only [G.lspine, if_true]
        refine ⟨h1, ?_⟩
        intro x hx
        simp only [List.mem_append, List.mem_singleton] at hx
        rcases hx with hx | hx
        · exact h2 x hx
        · subst hx; exact h'.2
    · simp [G.lspine, hc, h]

/-- re-association keeps tightness (the exposed operators are the same) -/
theorem tight_norm (g : Grammar) (k : Nat) : ∀ t : G, tight g k t = true → tight g k t.norm = true := by
  intro t
  induction t with
  | atom a => intro h; simpa [G.norm] using h
  | br b c _ => intro _; simp [G.norm, tight]
  | pre s t c ih =>
    intro h
    simp only [tight] at h
    simp only [G.norm, tight]
    cases hb : g.prefixBp s with
    | none => simp [hb] at h
    | some bp =>
      simp only [hb, Bool.and_eq_true] at h ⊢
      exact ⟨h.1, ih h.2⟩
  | tern s t m mt a b c iha ihb ihc =>
    intro h
    simp only [tight] at h
    simp only [G.norm, tight]
    cases hb : g.infixBp s with
    | none => simp [hb] at h
    | some p =>
      obtain ⟨lbp, rbp⟩ := p
      cases hq : g.ternBp s with
      | none => simp [hb, hq] at h
      | some q =>
        obtain ⟨mid, bp3, mand⟩ := q
        simp only [hb, hq, Bool.and_eq_true] at h ⊢
        obtain ⟨⟨⟨h1, h4⟩, h5⟩, h6⟩ := h
        exact ⟨⟨⟨h1, iha h4⟩, ihb h5⟩, ihc h6⟩
  | inf s t l r ihl ihr =>
    intro h
    have h' := h
    simp only [tight] at h'
    cases hb : g.infixBp s with
    | none => simp [hb] at h'
    | some p =>
      obtain ⟨lbp, rbp⟩ := p
      simp only [hb, Bool.and_eq_true, decide_eq_true_eq] at h'
      obtain ⟨⟨⟨h1, h2⟩, h3⟩, h4⟩ := h'
      by_cases ha : G.assocSym s = true
      · simp only [G.norm, ha, if_true]
        obtain ⟨t1, t2⟩ := tight_lspine g k s r.norm (ihr h4)
        apply tight_foldl g k s lbp rbp hb h1 h2
        · simp [tight, hb, h1, h2, ihl h3, t1]
        · exact t2
      · simp [G.norm, ha, tight, hb, h1, h2, ihl h3, ihr h4]

theorem noMid_foldl (g : Grammar) (f : Option Sym) (s : Sym) (hq : g.ternBp s = none)
    (xs : List (String × G)) (a : G) (ha : noMid g f a = true)
    (hx : ∀ x ∈ xs, noMid g f x.2 = true) :
    noMid g f (xs.foldl (fun acc x => G.inf s x.1 acc x.2) a) = true := by
  induction xs generalizing a with
  | nil => simpa using ha
  | cons x xs ih =>
    simp only [List.foldl_cons]
    apply ih
    · simp [noMid, hq, hx x (by simp)]
    · intro y hy; exact hx y (by simp [hy])

end SaVerif.Pratt

namespace SaVerif.Pratt

/-- every exposed *binary infix* node (not inside a bracket) has a symbol satisfying `P`
    (prefix operators and complete ternary forms cannot swallow a following middle symbol) -/
def allExp (P : Sym → Bool) : G → Bool
  | G.atom _ => true
  | G.br _ _ => true
  | G.pre _ _ c => allExp P c
  | G.inf s _ l r => P s && allExp P l && allExp P r
  | G.tern _ _ _ _ a b c => allExp P a && allExp P b && allExp P c

/-- `f` is not the middle symbol of the ternary form of `s` -/
def notMidOf (g : Grammar) (f : Option Sym) (s : Sym) : Bool :=
  match g.ternBp s with
  | none => true
  | some (mid, _, _) => decide (f ≠ some mid)

theorem noMid_of_allExp (g : Grammar) (f : Option Sym) :
    ∀ t : G, allExp (notMidOf g f) t = true → noMid g f t = true := by
  intro t
  induction t with
  | atom a => intro _; rfl
  | br b c _ => intro _; rfl
  | pre s t c ih => intro h; simp only [allExp] at h; simpa [noMid] using ih h
  | inf s t l r _ ihr =>
    intro h
    simp only [allExp, Bool.and_eq_true] at h
    simp only [noMid, Bool.and_eq_true]
    refine ⟨?_, ihr h.2⟩
    have := h.1.1
    simp only [notMidOf] at this
    exact this
  | tern s t m mt a b c _ _ ihc =>
    intro h
    simp only [allExp, Bool.and_eq_true] at h
    simpa [noMid] using ihc h.2

theorem allExp_foldl (P : Sym → Bool) (s : Sym) (hs : P s = true)
    (xs : List (String × G)) (a : G) (ha : allExp P a = true)
    (hx : ∀ x ∈ xs, allExp P x.2 = true) :
    allExp P (xs.foldl (fun acc x => G.inf s x.1 acc x.2) a) = true := by
  induction xs generalizing a with
  | nil => simpa using ha
  | cons x xs ih =>
    simp only [List.foldl_cons]
    apply ih
    · simp [allExp, hs, ha, hx x (by simp)]
    · intro y hy; exact hx y (by simp [hy])

theorem allExp_lspine (P : Sym → Bool) (s : Sym) :
    ∀ t : G, allExp P t = true →
      allExp P (G.lspine s t).1 = true ∧ ∀ x ∈ (G.lspine s t).2, allExp P x.2 = true := by
  intro t
  induction t with
  | atom a => intro h; simp [G.lspine, h]
  | pre s' t' c _ => intro h; simp [G.lspine, h]
  | br b c _ => intro h; simp [G.lspine, h]
  | tern s' t' m mt a b c _ _ _ => intro h; simp [G.lspine, h]
  | inf s' t' l r ihl _ =>
    intro h
    by_cases hc : s' = s
    · subst hc
      have h' := h
      simp only [allExp, Bool.and_eq_true] at h'
      obtain ⟨h1, h2⟩ := ihl h'.1.2
      simp only [G.lspine, if_true]
      refine ⟨h1, ?_⟩
      intro x hx
      simp only [List.mem_append, List.mem_singleton] at hx
      rcases hx with hx | hx
      · exact h2 x hx
      · subst hx; exact h'.2
    · simp [G.lspine, hc, h]

theorem allExp_norm (P : Sym → Bool) : ∀ t : G, allExp P t = true → allExp P t.norm = true := by
  intro t
  induction t with
  | atom a => intro h; simpa [G.norm] using h
  | br b c _ => intro _; simp [G.norm, allExp]
  | pre s t c ih =>
    intro h
    simp only [allExp] at h
    simp [G.norm, allExp, ih h]
  | tern s t m mt a b c iha ihb ihc =>
    intro h
    simp only [allExp, Bool.and_eq_true] at h
    simp [G.norm, allExp, iha h.1.1, ihb h.1.2, ihc h.2]
  | inf s t l r ihl ihr =>
    intro h
    simp only [allExp, Bool.and_eq_true] at h
    by_cases ha : G.assocSym s = true
    · simp only [G.norm, ha, if_true]
      obtain ⟨t1, t2⟩ := allExp_lspine P s r.norm (ihr h.2)
      apply allExp_foldl P s h.1.1
      · simp [allExp, h.1.1, ihl h.1.2, t1]
      · exact t2
    · simp [G.norm, ha, allExp, h.1.1, ihl h.1.2, ihr h.2]

theorem rootIs_foldl (s s' : Sym) (xs : List (String × G)) (a : G) (h : rootIs s a = decide (s' = s))
    (ha : ∀ x : String × G, rootIs s (G.inf s' x.1 a x.2) = decide (s' = s)) :
    rootIs s (xs.foldl (fun acc x => G.inf s' x.1 acc x.2) a) = decide (s' = s) := by
  induction xs generalizing a with
  | nil => simpa using h
  | cons x xs ih =>
    simp only [List.foldl_cons]
    apply ih
    · simp [rootIs]
    · intro y; simp [rootIs]

theorem rootIs_norm (s : Sym) (t : G) : rootIs s t.norm = rootIs s t := by
  cases t with
  | atom a => rfl
  | pre s' t' c => rfl
  | br k c => rfl
  | tern s' t' m mt a b c => rfl
  | inf s' t' l r =>
    by_cases ha : G.assocSym s' = true
    · simp only [G.norm, ha, if_true]
      rw [rootIs_foldl s s']
      · simp [rootIs]
      · simp [rootIs]
      · intro x; simp [rootIs]
    · simp [G.norm, ha, rootIs]

/-- the left operand of a separator may itself be a separator chain (`a, b, c`;
    `c THEN r WHEN c2 THEN r2 ELSE e`): only its last operand faces the next separator -/
def sepLeft (g : Grammar) (s : Sym) (lbp : Nat) : G → Bool
  | G.inf s2 _ _ r2 =>
    s.isSep && s2.isSep && !G.assocSym s2 &&
    (match g.infixBp s2 with
     | some (_, rbp2) =>
       decide (lbp < rbp2) && (g.ternBp s2).isNone && tight g (lbp + 1) r2 &&
         allExp (notMidOf g (some s)) r2
     | none => false)
  | _ => false

/-- compositional sufficient condition for `wb g t.norm`: every node checks that its operands
    bind tightly enough for *its own* binding powers; the operands of a chain of one
    associative operator may themselves be chains of that operator (nested either way) -/
def ok (g : Grammar) : G → Bool
  | G.atom _ => true
  | G.br _ c => ok g c
  | G.pre s _ c =>
    match g.prefixBp s with
    | none => false
    | some bp => ok g c && tight g bp c
  | G.inf s _ l r =>
    match g.infixBp s with
    | none => false
    | some (lbp, rbp) =>
      ok g l && ok g r &&
      (if G.assocSym s then
        decide (lbp < rbp) && (g.ternBp s).isNone &&
          (rootIs s l || (tight g rbp l && allExp (notMidOf g (some s)) l)) &&
          (rootIs s r || (tight g rbp r && allExp (notMidOf g (some s)) r))
       else
        (match g.ternBp s with
         | some (_, _, true) => false
         | _ => true) &&
        ((tight g (lbp + 1) l && allExp (notMidOf g (some s)) l) || sepLeft g s lbp l) &&
        tight g rbp r)
  | G.tern s _ m _ a b c =>
    match g.infixBp s, g.ternBp s with
    | some (lbp, rbp), some (mid, bp3, _) =>
      decide (m = mid) && ok g a && ok g b && ok g c &&
        tight g (lbp + 1) a && allExp (notMidOf g (some s)) a &&
        tight g rbp b && allExp (notMidOf g (some m)) b && stops g rbp (some m) &&
        tight g bp3 c
    | _, _ => false

end SaVerif.Pratt

namespace SaVerif.Pratt

/-- what an operand of an `s`-chain must satisfy -/
def good (g : Grammar) (s : Sym) (rbp : Nat) (x : G) : Prop :=
  wb g x = true ∧ tight g rbp x = true ∧ allExp (notMidOf g (some s)) x = true

theorem stops_self (g : Grammar) {s : Sym} {lbp rbp : Nat} (hb : g.infixBp s = some (lbp, rbp))
    (hlt : lbp < rbp) : stops g rbp (some s) = true := by
  simp [stops, hb, hlt]

theorem good_leftOK {g : Grammar} {s : Sym} {rbp : Nat} {x : G} (h : good g s rbp x) :
    leftOK g rbp x = true :=
  leftOK_of_tight g (Nat.le_refl _) x h.2.1

theorem good_rightOK {g : Grammar} {s : Sym} {lbp rbp : Nat} {x : G}
    (hb : g.infixBp s = some (lbp, rbp)) (hlt : lbp < rbp) (h : good g s rbp x) :
    rightOK g (some s) x = true :=
  rightOK_of_tight g (some s) (stops_self g hb hlt) x h.2.1 (noMid_of_allExp g _ x h.2.2)

theorem wb_foldl (g : Grammar) (s : Sym) (lbp rbp : Nat) (hb : g.infixBp s = some (lbp, rbp))
    (hlt : lbp < rbp) (hq : g.ternBp s = none)
    (xs : List (String × G)) (a : G) (ha : wb g a = true) (hra : rightOK g (some s) a = true)
    (hx : ∀ x ∈ xs, good g s rbp x.2) :
    wb g (xs.foldl (fun acc x => G.inf s x.1 acc x.2) a) = true ∧
    rightOK g (some s) (xs.foldl (fun acc x => G.inf s x.1 acc x.2) a) = true := by
  induction xs generalizing a with
  | nil => exact ⟨by simpa using ha, by simpa using hra⟩
  | cons x xs ih =>
    simp only [List.foldl_cons]
    have gx := hx x (by simp)
    apply ih
    · simp [wb, hb, hq, ha, gx.1, hra, good_leftOK gx]
    · simp [rightOK, hb, hq, stops_self g hb hlt, good_rightOK hb hlt gx]
    · intro y hy; exact hx y (by simp [hy])

/-- if every operand of the chain at the root of a well-bracketed `c` is good, `c` can be
    followed by `s` -/
theorem rightOK_of_chain (g : Grammar) (s : Sym) (lbp rbp : Nat) (hb : g.infixBp s = some (lbp, rbp))
    (hlt : lbp < rbp) (hq : g.ternBp s = none) (c : G)
    (hops : ∀ x ∈ chainOps s c, good g s rbp x) : rightOK g (some s) c = true := by
  cases c with
  | inf s' t' l r =>
    by_cases hc : s' = s
    · subst hc
      have hr : good g s' rbp r := hops r (by simp [chainOps, G.lspine])
      simp [rightOK, hb, hq, stops_self g hb hlt, good_rightOK hb hlt hr]
    · exact good_rightOK hb hlt (hops _ (by simp [chainOps, G.lspine, hc]))
  | atom a => rfl
  | br k c => rfl
  | pre s' t' c => exact good_rightOK hb hlt (hops _ (by simp [chainOps, G.lspine]))
  | tern s' t' m mt a b c => exact good_rightOK hb hlt (hops _ (by simp [chainOps, G.lspine]))

theorem chainOps_inf_same (s : Sym) (t : String) (l r : G) :
    chainOps s (G.inf s t l r) = chainOps s l ++ [r] := by
  simp [chainOps, G.lspine]

theorem chainOps_foldl (s : Sym) (xs : List (String × G)) (a : G) :
    chainOps s (xs.foldl (fun acc x => G.inf s x.1 acc x.2) a) = chainOps s a ++ xs.map (·.2) := by
  simp [chainOps, lspine_foldl]

theorem chainOps_of_not_root (s : Sym) (t : G) (h : rootIs s t = false) : chainOps s t = [t] := by
  simp [chainOps, lspine_of_not_root s t h]

/-- **ok ⇒ well bracketed after re-association**, together with the chain invariant -/
theorem wb_norm_of_ok_aux (g : Grammar) : ∀ t : G, ok g t = true →
    wb g t.norm = true ∧
    (∀ s lbp rbp, rootIs s t = true → G.assocSym s = true → g.infixBp s = some (lbp, rbp) →
      ∀ x ∈ chainOps s t.norm, good g s rbp x) := by
  intro t
  induction t with
  | atom a =>
    intro _
    exact ⟨rfl, by intro s lbp rbp h; simp [rootIs] at h⟩
  | br k c ih =>
    intro h
    have hc : ok g c = true := by simpa [ok] using h
    exact ⟨by simpa [G.norm, wb] using (ih hc).1, by intro s lbp rbp h; simp [rootIs] at h⟩
  | pre s t c ih =>
    intro h
    simp only [ok] at h
    cases hb : g.prefixBp s with
    | none => simp [hb] at h
    | some bp =>
      simp only [hb, Bool.and_eq_true] at h
      refine ⟨?_, by intro s' lbp rbp h'; simp [rootIs] at h'⟩
      simp only [G.norm, wb, hb, Bool.and_eq_true]
      exact ⟨(ih h.1).1, leftOK_of_tight g (Nat.le_refl _) _ (tight_norm g bp c h.2)⟩
  | tern s t m mt a b c iha ihb ihc =>
    intro h
    simp only [ok] at h
    refine ⟨?_, by intro s' lbp rbp h'; simp [rootIs] at h'⟩
    cases hb : g.infixBp s with
    | none => simp [hb] at h
    | some p =>
      obtain ⟨lbp, rbp⟩ := p
      cases hq : g.ternBp s with
      | none => simp [hb, hq] at h
      | some q =>
        obtain ⟨mid, bp3, mand⟩ := q
        simp only [hb, hq, Bool.and_eq_true, decide_eq_true_eq] at h
        obtain ⟨⟨⟨⟨⟨⟨⟨⟨⟨hm, ha⟩, hbk⟩, hc⟩, hta⟩, hna⟩, htb⟩, hnb⟩, hst⟩, htc⟩ := h
        simp only [G.norm, wb, hb, hq, Bool.and_eq_true, decide_eq_true_eq]
        refine ⟨⟨⟨⟨⟨⟨⟨⟨hm, (iha ha).1⟩, (ihb hbk).1⟩, (ihc hc).1⟩, ?_⟩, ?_⟩, ?_⟩, hst⟩, ?_⟩
        · apply rightOK_of_tight g (some s) (k := lbp + 1) (by simp [stops, hb]) _ (tight_norm g _ a hta)
          exact noMid_of_allExp g _ _ (allExp_norm _ a hna)
        · exact leftOK_of_tight g (Nat.le_refl _) _ (tight_norm g _ b htb)
        · exact rightOK_of_tight g (some m) hst _ (tight_norm g _ b htb)
            (noMid_of_allExp g _ _ (allExp_norm _ b hnb))
        · exact leftOK_of_tight g (Nat.le_refl _) _ (tight_norm g _ c htc)
  | inf s t l r ihl ihr =>
    intro h
    simp only [ok] at h
    cases hb : g.infixBp s with
    | none => simp [hb] at h
    | some p =>
      obtain ⟨lbp, rbp⟩ := p
      simp only [hb, Bool.and_eq_true] at h
      obtain ⟨⟨hl, hr⟩, hcond⟩ := h
      obtain ⟨wl, cl⟩ := ihl hl
      obtain ⟨wr, cr⟩ := ihr hr
      by_cases ha : G.assocSym s = true
      · simp only [ha, if_true, Bool.and_eq_true, decide_eq_true_eq, Bool.or_eq_true] at hcond
        obtain ⟨⟨⟨hlt, hq⟩, hcl⟩, hcr⟩ := hcond
        have hq' : g.ternBp s = none := by
          cases hh : g.ternBp s with
          | none => rfl
          | some q => simp [hh] at hq
        -- operands contributed by a child
        have childOps : ∀ c : G, wb g c.norm = true →
            (∀ s lbp rbp, rootIs s c = true → G.assocSym s = true → g.infixBp s = some (lbp, rbp) →
              ∀ x ∈ chainOps s c.norm, good g s rbp x) →
            (rootIs s c = true ∨ (tight g rbp c = true ∧ allExp (notMidOf g (some s)) c = true)) →
            ∀ x ∈ chainOps s c.norm, good g s rbp x := by
          intro c wc cc hc
          by_cases hroot : rootIs s c = true
          · exact cc s lbp rbp hroot ha hb
          · have hroot' : rootIs s c = false := by simpa using hroot
            rcases hc with hc | hc
            · exact absurd hc hroot
            · intro x hx
              rw [chainOps_of_not_root s c.norm (by rw [rootIs_norm]; exact hroot')] at hx
              simp only [List.mem_singleton] at hx
              subst hx
              exact ⟨wc, tight_norm g _ c hc.1, allExp_norm _ c hc.2⟩
        have opsL := childOps l wl cl hcl
        have opsR := childOps r wr cr hcr
        have hRsplit : chainOps s r.norm = (G.lspine s r.norm).1 :: (G.lspine s r.norm).2.map (·.2) := rfl
        have gh : good g s rbp (G.lspine s r.norm).1 := opsR _ (by simp [hRsplit])
        have gtl : ∀ x ∈ (G.lspine s r.norm).2, good g s rbp x.2 := by
          intro x hx
          exact opsR _ (by rw [hRsplit]; simp only [List.mem_cons, List.mem_map]; right; exact ⟨x, hx, rfl⟩)
        have hrl : rightOK g (some s) l.norm = true :=
          rightOK_of_chain g s lbp rbp hb hlt hq' l.norm opsL
        have w0 : wb g (G.inf s t l.norm (G.lspine s r.norm).1) = true := by
          simp [wb, hb, hq', wl, gh.1, hrl, good_leftOK gh]
        have r0 : rightOK g (some s) (G.inf s t l.norm (G.lspine s r.norm).1) = true := by
          simp [rightOK, hb, hq', stops_self g hb hlt, good_rightOK hb hlt gh]
        have hfold := wb_foldl g s lbp rbp hb hlt hq' (G.lspine s r.norm).2 _ w0 r0 gtl
        refine ⟨by simpa [G.norm, ha] using hfold.1, ?_⟩
        intro s' lbp' rbp' hroot ha' hb'
        have hs : s = s' := by simpa [rootIs] using hroot
        subst hs
        rw [hb] at hb'
        cases hb'
        intro x hx
        simp only [G.norm, ha, if_true, chainOps_foldl, chainOps_inf_same, List.mem_append,
          List.mem_singleton, List.mem_map] at hx
        rcases hx with (hx | hx) | hx
        · exact opsL x hx
        · subst hx; exact gh
        · obtain ⟨y, hy, rfl⟩ := hx
          exact gtl y hy
      · have ha' : G.assocSym s = false := by simpa using ha
        simp only [ha', Bool.false_eq_true, if_false, Bool.and_eq_true, Bool.or_eq_true] at hcond
        obtain ⟨⟨hmand, hleft⟩, htr⟩ := hcond
        refine ⟨?_, ?_⟩
        · simp only [G.norm, ha', Bool.false_eq_true, if_false, wb, hb, Bool.and_eq_true]
          refine ⟨⟨⟨⟨hmand, wl⟩, wr⟩, ?_⟩, ?_⟩
          · rcases hleft with ⟨htl, hnl⟩ | hsep
            · apply rightOK_of_tight g (some s) (k := lbp + 1) (by simp [stops, hb]) _ (tight_norm g _ l htl)
              exact noMid_of_allExp g _ _ (allExp_norm _ l hnl)
            · cases l with
              | inf s2 t2 l2 r2 =>
                simp only [sepLeft, Bool.and_eq_true, Bool.not_eq_true'] at hsep
                obtain ⟨⟨⟨_, _⟩, hna2⟩, hrest⟩ := hsep
                cases hb2 : g.infixBp s2 with
                | none => simp [hb2] at hrest
                | some p2 =>
                  obtain ⟨lbp2, rbp2⟩ := p2
                  simp only [hb2, Bool.and_eq_true, decide_eq_true_eq] at hrest
                  obtain ⟨⟨⟨hlt2, hq2⟩, ht2⟩, hn2⟩ := hrest
                  have hq2' : g.ternBp s2 = none := by
                    cases hh : g.ternBp s2 with
                    | none => rfl
                    | some q => simp [hh] at hq2
                  simp only [G.norm, hna2, Bool.false_eq_true, if_false, rightOK, hb2, hq2',
                    Bool.and_eq_true, Bool.and_true]
                  refine ⟨by simp [stops, hb, hlt2], ?_⟩
                  apply rightOK_of_tight g (some s) (k := lbp + 1) (by simp [stops, hb]) _ (tight_norm g _ r2 ht2)
                  exact noMid_of_allExp g _ _ (allExp_norm _ r2 hn2)
              | atom a => simp [sepLeft] at hsep
              | pre s2 t2 c => simp [sepLeft] at hsep
              | br k c => simp [sepLeft] at hsep
              | tern s2 t2 m mt a b c => simp [sepLeft] at hsep
          · exact leftOK_of_tight g (Nat.le_refl _) _ (tight_norm g _ r htr)
        · intro s' lbp' rbp' hroot hassoc
          have hs : s = s' := by simpa [rootIs] using hroot
          subst hs
          rw [ha'] at hassoc
          cases hassoc

/-- **Theorem (ok ⇒ read back).** -/
theorem wb_norm_of_ok (g : Grammar) (t : G) (h : ok g t = true) : wb g t.norm = true :=
  (wb_norm_of_ok_aux g t h).1

end SaVerif.Pratt
