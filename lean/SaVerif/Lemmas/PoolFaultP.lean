import SaVerif.Lemmas.PoolFault
/-! Pool-level invariants of the fault machine (accounting, liveness of connected
records, queue hygiene).  Core Lean only. -/
namespace SaVerif.PoolFault

def inUseOf (recs : List Rec) (r : Nat) : Bool := (recs.getD r blankRec).inUse

def b2n (b : Bool) : Nat := if b then 1 else 0

/-- number of records referenced by a fairy (`fairy_ref is not None`) -/
def inUseCount (recs : List Rec) : Nat := (recs.map (fun x => b2n x.inUse)).sum

theorem inUseOf_set (recs : List Rec) (r r' : Nat) (x : Rec) :
    inUseOf (recs.set r x) r' = if r = r' ∧ r < recs.length then x.inUse else inUseOf recs r' := by
  unfold inUseOf
  by_cases h : r = r'
  · subst h
    by_cases h2 : r < recs.length
    · simp [h2]
    · simp [h2]
  · simp [h, List.getD_eq_getElem?_getD, List.getElem?_set_ne h]

theorem inUseCount_set (recs : List Rec) (r : Nat) (x : Rec) (h : r < recs.length) :
    inUseCount (recs.set r x) + b2n (inUseOf recs r) = inUseCount recs + b2n x.inUse := by
  induction recs generalizing r with
  | nil => simp at h
  | cons a l ih =>
    cases r with
    | zero => simp [inUseCount, inUseOf]; omega
    | succ n =>
      have := ih n (by simpa using h)
      simp [inUseCount, inUseOf] at this ⊢
      omega

theorem inUseCount_append_blank (recs : List Rec) : inUseCount (recs ++ [blankRec]) = inUseCount recs := by
  simp [inUseCount, blankRec, b2n]

theorem inUseCount_zero_of_all (recs : List Rec) (h : ∀ x ∈ recs, x.inUse = false) : inUseCount recs = 0 := by
  induction recs with
  | nil => rfl
  | cons a l ih =>
    have h1 := h a (by simp)
    have h2 := ih (fun x hx => h x (by simp [hx]))
    simp [inUseCount, b2n, h1] at h2 ⊢
    exact h2

theorem inUseOf_lt {recs : List Rec} {r : Nat} (h : inUseOf recs r = true) : r < recs.length := by
  rcases Nat.lt_or_ge r recs.length with h1 | h1
  · exact h1
  · simp [inUseOf, List.getD_eq_getElem?_getD, List.getElem?_eq_none h1, blankRec] at h

theorem inUseOf_append_blank (recs : List Rec) (r : Nat) :
    inUseOf (recs ++ [blankRec]) r = inUseOf recs r := by
  unfold inUseOf
  rcases Nat.lt_trichotomy r recs.length with h1 | h1 | h1
  · simp [List.getD_eq_getElem?_getD, List.getElem?_append_left h1]
  · subst h1; simp [List.getD_eq_getElem?_getD, blankRec]
  · have : recs.length + 1 ≤ r := h1
    simp [List.getD_eq_getElem?_getD, this, Nat.le_of_lt h1]

/-- a record is accounted for: idle in the queue, referenced by a fairy, or the one
    record currently travelling between the two (`fl`) -/
def Live (fl : Option Nat) (st : St) (r : Nat) : Prop :=
  r ∈ st.queue ∨ inUseOf st.recs r = true ∨ fl = some r

structure PInv (c : Cfg) (fl : Option Nat) (st : St) : Prop where
  acct : st.overflow + c.size = st.queue.length + inUseCount st.recs + (if fl.isSome then 1 else 0)
  qValid : ∀ r ∈ st.queue, r < st.recs.length
  qIdle : ∀ r ∈ st.queue, inUseOf st.recs r = false
  qNodup : st.queue.Nodup
  flOk : ∀ r, fl = some r → r < st.recs.length ∧ r ∉ st.queue ∧ inUseOf st.recs r = false
  liveConn : ∀ r c, connOf st.recs r = some c → Live fl st r
  fValid : ∀ (h : Nat) (x : Fairy), st.fairies[h]? = some (some x) → x.rid < st.recs.length
  qLe : 0 < c.size → st.queue.length ≤ c.size

theorem PInv.qv {c fl st} (h : PInv c fl st) : QV st := ⟨h.qValid, h.fValid⟩

/-- `st'` differs from `st` only in clock / plan / ledger / invalidation time and in the
    connection, timestamps and `fresh` flag of record `r` -/
structure FrameR (r : Nat) (st st' : St) : Prop where
  queue : st'.queue = st.queue
  overflow : st'.overflow = st.overflow
  fairies : st'.fairies = st.fairies
  len : st'.recs.length = st.recs.length
  inUse : ∀ r', inUseOf st'.recs r' = inUseOf st.recs r'
  conn : ∀ r', r' ≠ r → connOf st'.recs r' = connOf st.recs r'

theorem FrameR.refl (r : Nat) (st : St) : FrameR r st st :=
  ⟨rfl, rfl, rfl, rfl, fun _ => rfl, fun _ _ => rfl⟩

theorem FrameR.trans {r : Nat} {a b c : St} (h1 : FrameR r a b) (h2 : FrameR r b c) : FrameR r a c :=
  ⟨h2.queue.trans h1.queue, h2.overflow.trans h1.overflow, h2.fairies.trans h1.fairies,
   h2.len.trans h1.len, fun r' => (h2.inUse r').trans (h1.inUse r'),
   fun r' hr => (h2.conn r' hr).trans (h1.conn r' hr)⟩

theorem FrameR.of_fields {r : Nat} {st st' : St} (h1 : st'.queue = st.queue) (h2 : st'.overflow = st.overflow)
    (h3 : st'.fairies = st.fairies) (h4 : st'.recs = st.recs) : FrameR r st st' :=
  ⟨h1, h2, h3, by rw [h4], fun _ => by rw [h4], fun _ _ => by rw [h4]⟩

theorem FrameR.ofSetRec (st : St) (r : Nat) (x : Rec) (hx : x.inUse = (getRec st r).inUse) :
    FrameR r st (setRec st r x) := by
  refine ⟨rfl, rfl, rfl, setRec_length st r x, ?_, ?_⟩
  · intro r'
    simp only [setRec, inUseOf_set]
    split
    · rename_i hh; rw [hx, ← hh.1]; rfl
    · rfl
  · intro r' hr'
    simp only [setRec, connOf_set]
    split
    · rename_i hh; exact absurd hh.1.symm hr'
    · rfl

theorem tickSt_frame (r : Nat) (st : St) : FrameR r st (tickSt st) := FrameR.of_fields rfl rfl rfl rfl
theorem dropFault_frame (r : Nat) (st : St) : FrameR r st (dropFault st) := FrameR.of_fields rfl rfl rfl rfl

theorem connectPre_frame (r : Nat) (st : St) : FrameR r st (connectPre st r) := by
  unfold connectPre
  refine FrameR.trans (tickSt_frame r st) ?_
  exact FrameR.ofSetRec _ r _ rfl

theorem connectOk_frame (r : Nat) (st : St) : FrameR r st (connectOk st r) := by
  unfold connectOk
  refine FrameR.trans (b := { st with conns := st.conns ++ [true] }) (FrameR.of_fields rfl rfl rfl rfl) ?_
  exact FrameR.ofSetRec _ r _ rfl

theorem connect_frame (r : Nat) (st : St) : FrameR r st (connect st r).1 := by
  unfold connect
  split
  · exact (connectPre_frame r st).trans (dropFault_frame r _)
  · exact ((connectPre_frame r st).trans (dropFault_frame r _)).trans (connectOk_frame r _)

theorem closeConn_frame (r c : Nat) (st : St) : FrameR r st (closeConn st r c) := by
  unfold closeConn
  refine FrameR.trans (b := { st with conns := st.conns.set c false }) (FrameR.of_fields rfl rfl rfl rfl) ?_
  exact FrameR.ofSetRec _ r _ rfl

theorem closeRec_frame (r : Nat) (st : St) : FrameR r st (closeRec st r) := by
  unfold closeRec
  split
  · exact FrameR.refl r st
  · exact (dropFault_frame r st).trans (closeConn_frame r _ _)

theorem invalidate_frame (r : Nat) (b : Bool) (st : St) : FrameR r st (invalidate st r b) := by
  unfold invalidate
  split
  · exact FrameR.refl r st
  · split
    · refine FrameR.trans (tickSt_frame r st) ?_
      exact FrameR.ofSetRec _ r _ rfl
    · exact closeRec_frame r st

theorem getConnection_frame (c : Cfg) (r : Nat) (st : St) : FrameR r st (getConnection c st r).1 := by
  unfold getConnection
  split
  · exact connect_frame r st
  · split
    · split
      · exact ((tickSt_frame r st).trans (closeRec_frame r _)).trans (connect_frame r _)
      · exact tickSt_frame r st
    · split
      · exact (closeRec_frame r st).trans (connect_frame r _)
      · exact FrameR.refl r st

theorem bumpInvTime_frame (r r0 : Nat) (st : St) : FrameR r st (bumpInvTime st r0) := by
  unfold bumpInvTime
  split
  · exact FrameR.of_fields rfl rfl rfl rfl
  · exact FrameR.refl r st

theorem afterDisconnect_frame (r ev : Nat) (st : St) : FrameR r st (afterDisconnect st r ev) := by
  unfold afterDisconnect
  split
  · exact (invalidate_frame r false st).trans (bumpInvTime_frame r r _)
  · exact invalidate_frame r false st

theorem pingSt_frame (c : Cfg) (r : Nat) (b : Bool) (st : St) : FrameR r st (pingSt c st b) := by
  unfold pingSt; split
  · exact dropFault_frame r st
  · exact FrameR.refl r st

theorem evSt_frame (c : Cfg) (r n : Nat) (st : St) : FrameR r st (evSt c st n) := by
  unfold evSt; split
  · exact FrameR.refl r st
  · split
    · exact dropFault_frame r st
    · exact FrameR.refl r st

theorem resetStep_frame (c : Cfg) (r : Nat) (ca : Option Nat) (st : St) :
    FrameR r st (resetStep c st r ca) := by
  unfold resetStep
  split
  · exact FrameR.refl r st
  · split
    · exact FrameR.refl r st
    · split
      · exact (dropFault_frame r st).trans (invalidate_frame r false _)
      · exact dropFault_frame r st

theorem inUseCount_congr {a b : List Rec} (hl : b.length = a.length)
    (h : ∀ r, inUseOf b r = inUseOf a r) : inUseCount b = inUseCount a := by
  unfold inUseCount
  congr 1
  apply List.ext_getElem
  · simp [hl]
  · intro i h1 h2
    simp at h1 h2
    have := h i
    simp [inUseOf, List.getD_eq_getElem?_getD, List.getElem?_eq_getElem h1,
      List.getElem?_eq_getElem h2] at this
    simp [this]

/-- the pool-level invariant survives any change confined to record `r`, provided `r`
    is accounted for (so that a connection it acquires is not a leak) -/
theorem PInv.frame {c : Cfg} {fl : Option Nat} {st st' : St} {r : Nat} (h : PInv c fl st)
    (hf : FrameR r st st')
    (hl : Live fl st r ∨ (∀ c', connOf st'.recs r = some c' → connOf st.recs r = some c')) :
    PInv c fl st' := by
  have hcnt := inUseCount_congr hf.len hf.inUse
  refine ⟨?_, ?_, ?_, ?_, ?_, ?_, ?_, ?_⟩
  · rw [hf.overflow, hf.queue, hcnt]; exact h.acct
  · intro r' hr'; rw [hf.queue] at hr'; rw [hf.len]; exact h.qValid r' hr'
  · intro r' hr'; rw [hf.queue] at hr'; rw [hf.inUse]; exact h.qIdle r' hr'
  · rw [hf.queue]; exact h.qNodup
  · intro r' hr'
    have := h.flOk r' hr'
    rw [hf.len, hf.queue, hf.inUse]; exact this
  · intro r' c' hc'
    have key : Live fl st r' → Live fl st' r' := by
      intro hh
      unfold Live at hh ⊢
      rw [hf.queue, hf.inUse]; exact hh
    by_cases e : r' = r
    · subst e
      rcases hl with hl | hl
      · exact key hl
      · exact key (h.liveConn r' c' (hl c' hc'))
    · rw [hf.conn r' e] at hc'
      exact key (h.liveConn r' c' hc')
  · intro k x hk
    rw [hf.fairies] at hk
    rw [hf.len]; exact h.fValid k x hk
  · rw [hf.queue]; exact h.qLe


/-! ### operations that only ever *remove* a record's connection -/

theorem closeRec_conn_sub (st : St) (r : Nat) (c' : Nat) :
    connOf (closeRec st r).recs r = some c' → connOf st.recs r = some c' := by
  rw [closeRec_connOf]; intro h; cases h

theorem invalidate_conn_sub (st : St) (r : Nat) (b : Bool) (c' : Nat) :
    connOf (invalidate st r b).recs r = some c' → connOf st.recs r = some c' := by
  unfold invalidate
  split
  · exact id
  · split
    · intro h
      simp only [setRec, tickSt, connOf_set] at h
      split at h
      · exact h
      · exact h
    · exact closeRec_conn_sub st r c'

theorem resetStep_conn_sub (c : Cfg) (st : St) (r : Nat) (ca : Option Nat) (c' : Nat) :
    connOf (resetStep c st r ca).recs r = some c' → connOf st.recs r = some c' := by
  unfold resetStep
  split
  · exact id
  · split
    · exact id
    · split
      · intro h; exact invalidate_conn_sub (dropFault st) r false c' h
      · exact id

theorem PInv.invalidate {c fl st} (h : PInv c fl st) (r : Nat) (b : Bool) :
    PInv c fl (invalidate st r b) :=
  h.frame (invalidate_frame r b st) (Or.inr (invalidate_conn_sub st r b))

theorem PInv.resetStep {c fl st} (h : PInv c fl st) (r : Nat) (ca : Option Nat) :
    PInv c fl (resetStep c st r ca) :=
  h.frame (resetStep_frame c r ca st) (Or.inr (resetStep_conn_sub c st r ca))

/-! ### the operations that move a record between queue / flight / in use -/

theorem doReturn_PInv {c : Cfg} {st : St} {r : Nat} (h : PInv c (some r) st) :
    PInv c none (doReturn c st r) := by
  obtain ⟨hlt, hnq, hnu⟩ := h.flOk r rfl
  unfold doReturn
  split
  · -- Full: close the record, give the slot back
    have h1 : PInv c (some r) (closeRec st r) :=
      h.frame (closeRec_frame r st) (Or.inl (Or.inr (Or.inr rfl)))
    have hn : connOf (closeRec st r).recs r = none := closeRec_connOf st r
    have hov : (closeRec st r).overflow = st.overflow := (closeRec_frame r st).overflow
    refine ⟨?_, h1.qValid, h1.qIdle, h1.qNodup, ?_, ?_, h1.fValid, h1.qLe⟩
    · have := h1.acct
      simp only [Option.isSome_some, if_true] at this
      simp only [Option.isSome_none]
      rw [hov] at this
      simp; omega
    · intro r' hr'; cases hr'
    · intro r' c' hc'
      have hl := h1.liveConn r' c' hc'
      rcases hl with hl | hl | hl
      · exact Or.inl hl
      · exact Or.inr (Or.inl hl)
      · cases hl; rw [hn] at hc'; cases hc'
  · rename_i hfull
    refine ⟨?_, ?_, ?_, ?_, ?_, ?_, h.fValid, ?_⟩
    · have := h.acct
      simp only [Option.isSome_some, if_true] at this
      simp [List.length_append]; omega
    · intro r' hr'
      simp only [List.mem_append, List.mem_singleton] at hr'
      rcases hr' with e | e
      · exact h.qValid r' e
      · subst e; exact hlt
    · intro r' hr'
      simp only [List.mem_append, List.mem_singleton] at hr'
      rcases hr' with e | e
      · exact h.qIdle r' e
      · subst e; exact hnu
    · rw [List.nodup_append]
      refine ⟨h.qNodup, by simp, ?_⟩
      intro a ha b hb
      simp only [List.mem_singleton] at hb
      subst hb
      intro e; subst e; exact hnq ha
    · intro r' hr'; cases hr'
    · intro r' c' hc'
      rcases h.liveConn r' c' hc' with hl | hl | hl
      · exact Or.inl (by simp [hl])
      · exact Or.inr (Or.inl hl)
      · cases hl; exact Or.inl (by simp)
    · intro hs
      have := h.qLe hs
      simp [full, hs] at hfull
      simp [List.length_append]; omega

/-- clearing `fairy_ref` turns an in-use record into the record in flight -/
theorem clearInUse_PInv {c : Cfg} {st : St} {r : Nat} (h : PInv c none st)
    (hu : inUseOf st.recs r = true) :
    PInv c (some r) (setRec st r { getRec st r with inUse := false }) := by
  have hlt := inUseOf_lt hu
  have hcnt := inUseCount_set st.recs r { getRec st r with inUse := false } hlt
  have hconn : ∀ r', connOf (st.recs.set r { getRec st r with inUse := false }) r' = connOf st.recs r' := by
    intro r'
    rw [connOf_set]
    split
    · rename_i hh; rw [← hh.1]; rfl
    · rfl
  refine ⟨?_, ?_, ?_, h.qNodup, ?_, ?_, ?_, h.qLe⟩
  · have := h.acct
    simp only [setRec, Option.isSome_some, if_true]
    simp only [Option.isSome_none] at this
    rw [hu] at hcnt
    simp [b2n] at hcnt this ⊢
    omega
  · intro r' hr'; simp only [setRec, List.length_set]; exact h.qValid r' hr'
  · intro r' hr'
    simp only [setRec, inUseOf_set]
    split
    · rfl
    · exact h.qIdle r' hr'
  · intro r' hr'
    cases hr'
    refine ⟨by simp [hlt], ?_, by simp [setRec, inUseOf_set, hlt]⟩
    intro hq
    have := h.qIdle r hq
    rw [hu] at this; cases this
  · intro r' c' hc'
    simp only [setRec] at hc'
    rw [hconn] at hc'
    rcases h.liveConn r' c' hc' with hl | hl | hl
    · exact Or.inl hl
    · by_cases e : r' = r
      · exact Or.inr (Or.inr (by rw [e]))
      · refine Or.inr (Or.inl ?_)
        simp only [setRec, inUseOf_set]
        split
        · rename_i hh; exact absurd hh.1.symm e
        · exact hl
    · cases hl
  · intro k x hk; simp only [setRec, List.length_set]; exact h.fValid k x hk

theorem checkin_PInv_inUse {c : Cfg} {st : St} {r : Nat} (b : Bool) (h : PInv c none st)
    (hu : inUseOf st.recs r = true) : PInv c none (checkin c st r b) := by
  unfold checkin
  have hu' : (getRec st r).inUse = true := hu
  rw [if_neg (by simp [hu'])]
  exact doReturn_PInv (clearInUse_PInv h hu)

theorem checkin_PInv_flight {c : Cfg} {st : St} {r : Nat} (h : PInv c (some r) st) :
    PInv c none (checkin c st r false) := by
  unfold checkin
  rw [if_neg (by simp)]
  apply doReturn_PInv
  have hnu := (h.flOk r rfl).2.2
  exact h.frame (FrameR.ofSetRec st r _ (by simp; exact hnu)) (Or.inl (Or.inr (Or.inr rfl)))

theorem checkin_PInv_idle {c : Cfg} {st : St} {r : Nat} (h : PInv c none st)
    (hu : inUseOf st.recs r = false) : PInv c none (checkin c st r true) := by
  unfold checkin
  have hu' : (getRec st r).inUse = false := hu
  rw [if_pos ⟨hu', rfl⟩]
  exact h

theorem invalidate_inUse (st : St) (r : Nat) (b : Bool) (r' : Nat) :
    inUseOf (invalidate st r b).recs r' = inUseOf st.recs r' := (invalidate_frame r b st).inUse r'

theorem checkinFailed_PInv_inUse {c : Cfg} {st : St} {r : Nat} (h : PInv c none st)
    (hu : inUseOf st.recs r = true) : PInv c none (checkinFailed c st r true) := by
  unfold checkinFailed
  exact checkin_PInv_inUse true (h.invalidate r false) (by rw [invalidate_inUse]; exact hu)

theorem checkinFailed_PInv_flight {c : Cfg} {st : St} {r : Nat} (h : PInv c (some r) st) :
    PInv c none (checkinFailed c st r false) := by
  unfold checkinFailed
  exact checkin_PInv_flight (h.invalidate r false)


theorem takeOne_spec {lifo : Bool} {q : List Nat} {r : Nat} {rest : List Nat}
    (h : takeOne lifo q = some (r, rest)) (hn : q.Nodup) :
    q.length = rest.length + 1 ∧ r ∈ q ∧ r ∉ rest ∧ rest.Nodup ∧ (∀ x, x ∈ q ↔ x = r ∨ x ∈ rest) := by
  unfold takeOne at h
  split at h
  · split at h
    · rename_i r' hl
      cases h
      obtain ⟨ys, hys⟩ := List.getLast?_eq_some_iff.1 hl
      subst hys
      rw [List.nodup_append] at hn
      simp only [List.dropLast_concat]
      refine ⟨by simp, by simp, ?_, hn.1, ?_⟩
      · intro hm; exact hn.2.2 r hm r (by simp) rfl
      · intro x; simp [or_comm]
    · cases h
  · split at h
    · cases h
      rw [List.nodup_cons] at hn
      exact ⟨by simp, by simp, hn.1, hn.2, fun x => by simp⟩
    · cases h

theorem pop_PInv {c : Cfg} {st : St} {r : Nat} {rest : List Nat} (h : PInv c none st)
    (hto : takeOne c.lifo st.queue = some (r, rest)) : PInv c (some r) { st with queue := rest } := by
  obtain ⟨hlen, hmem, hnot, hnd, hiff⟩ := takeOne_spec hto h.qNodup
  refine ⟨?_, ?_, ?_, hnd, ?_, ?_, h.fValid, ?_⟩
  · have := h.acct
    simp only [Option.isSome_none] at this
    simp only [Option.isSome_some, if_true]
    simp at this ⊢; omega
  · intro r' hr'; exact h.qValid r' ((hiff r').2 (Or.inr hr'))
  · intro r' hr'; exact h.qIdle r' ((hiff r').2 (Or.inr hr'))
  · intro r' hr'
    cases hr'
    exact ⟨h.qValid r hmem, hnot, h.qIdle r hmem⟩
  · intro r' c' hc'
    rcases h.liveConn r' c' hc' with hl | hl | hl
    · rcases (hiff r').1 hl with e | e
      · exact Or.inr (Or.inr (by rw [e]))
      · exact Or.inl e
    · exact Or.inr (Or.inl hl)
    · cases hl
  · intro hs; have := h.qLe hs; simp at this ⊢; omega

theorem newRec_PInv {c : Cfg} {st : St} (h : PInv c none st) :
    PInv c (some st.recs.length) (newRec st) := by
  unfold newRec
  refine ⟨?_, ?_, ?_, h.qNodup, ?_, ?_, ?_, h.qLe⟩
  · have := h.acct
    simp only [Option.isSome_none] at this
    simp only [Option.isSome_some, if_true, inUseCount_append_blank]
    simp at this ⊢; omega
  · intro r' hr'; have := h.qValid r' hr'; simp; omega
  · intro r' hr'; simp only [inUseOf_append_blank]; exact h.qIdle r' hr'
  · intro r' hr'
    cases hr'
    refine ⟨by simp, ?_, ?_⟩
    · intro hq; have := h.qValid _ hq; omega
    · simp [inUseOf, List.getD_eq_getElem?_getD, blankRec]
  · intro r' c' hc'
    simp only [connOf_append_blank] at hc'
    rcases h.liveConn r' c' hc' with hl | hl | hl
    · exact Or.inl hl
    · exact Or.inr (Or.inl (by simp only [inUseOf_append_blank]; exact hl))
    · cases hl
  · intro k x hk; have := h.fValid k x hk; simp; omega

/-- result of `_do_get`: the record obtained is in flight, otherwise nothing changed hands -/
theorem doGet_PInv {c : Cfg} {st : St} (h : PInv c none st) :
    (∀ r, (doGet c st).2 = GetRes.ok r → PInv c (some r) (doGet c st).1) ∧
    ((∀ r, (doGet c st).2 ≠ GetRes.ok r) → PInv c none (doGet c st).1) := by
  cases hto : takeOne c.lifo st.queue with
  | some p =>
    obtain ⟨r', rest⟩ := p
    simp only [doGet, hto]
    constructor
    · intro r hr; cases hr; exact pop_PInv h hto
    · intro hne; exact absurd rfl (hne r')
  | none =>
    simp only [doGet, hto]
    split
    · exact ⟨fun r hr => (by cases hr), fun _ => h⟩
    · have h1 := newRec_PInv h
      have h2 : PInv c (some st.recs.length) (connect (newRec st) st.recs.length).1 :=
        h1.frame (connect_frame _ _) (Or.inl (Or.inr (Or.inr rfl)))
      split
      · constructor
        · intro r hr; cases hr; exact h2
        · intro hne; exact absurd rfl (hne _)
      · rename_i hc
        constructor
        · intro r hr; cases hr
        · intro _
          -- creation failed: the new record never got a connection; give the slot back
          have hn : connOf (connect (newRec st) st.recs.length).1.recs st.recs.length = none := by
            have hpre := connectPre_connOf (st := newRec st) st.recs.length (newRec_connOf_new st) st.recs.length
            unfold connect at hc ⊢
            split
            · simp only [dropFault]; rw [hpre]; exact newRec_connOf_new st
            · rename_i hf; simp [hf] at hc
          refine ⟨?_, h2.qValid, h2.qIdle, h2.qNodup, ?_, ?_, h2.fValid, h2.qLe⟩
          · have := h2.acct
            simp only [Option.isSome_some, if_true] at this
            simp only [Option.isSome_none]
            simp; omega
          · intro r' hr'; cases hr'
          · intro r' c' hc'
            rcases h2.liveConn r' c' hc' with hl | hl | hl
            · exact Or.inl hl
            · exact Or.inr (Or.inl hl)
            · cases hl; rw [hn] at hc'; cases hc'

theorem markInUse_PInv {c : Cfg} {st : St} {r : Nat} (h : PInv c (some r) st) :
    PInv c none (markInUse st r) ∧ inUseOf (markInUse st r).recs r = true := by
  obtain ⟨hlt, hnq, hnu⟩ := h.flOk r rfl
  have hcnt := inUseCount_set st.recs r { getRec st r with inUse := true } hlt
  have hconn : ∀ r', connOf (st.recs.set r { getRec st r with inUse := true }) r' = connOf st.recs r' := by
    intro r'
    rw [connOf_set]
    split
    · rename_i hh; rw [← hh.1]; rfl
    · rfl
  have hiu : inUseOf (markInUse st r).recs r = true := by simp [markInUse, setRec, inUseOf_set, hlt]
  refine ⟨⟨?_, ?_, ?_, h.qNodup, ?_, ?_, ?_, h.qLe⟩, hiu⟩
  · have := h.acct
    simp only [Option.isSome_some, if_true] at this
    simp only [markInUse, setRec, Option.isSome_none]
    rw [hnu] at hcnt
    simp [b2n] at hcnt this ⊢
    omega
  · intro r' hr'; simp only [markInUse, setRec, List.length_set]; exact h.qValid r' hr'
  · intro r' hr'
    simp only [markInUse, setRec, inUseOf_set]
    split
    · rename_i hh; rw [← hh.1] at hr'; exact absurd hr' hnq
    · exact h.qIdle r' hr'
  · intro r' hr'; cases hr'
  · intro r' c' hc'
    simp only [markInUse, setRec] at hc'
    rw [hconn] at hc'
    rcases h.liveConn r' c' hc' with hl | hl | hl
    · exact Or.inl hl
    · refine Or.inr (Or.inl ?_)
      simp only [markInUse, setRec, inUseOf_set]
      split
      · rfl
      · exact hl
    · cases hl; exact Or.inr (Or.inl hiu)
  · intro k x hk; simp only [markInUse, setRec, List.length_set]; exact h.fValid k x hk

def LoopRes.isOk : LoopRes → Bool
  | .ok _ => true
  | _ => false

theorem checkoutLoop_PInv (c : Cfg) (r : Nat) :
    ∀ (n : Nat) (st : St), PInv c none st → inUseOf st.recs r = true →
      PInv c none (checkoutLoop c r n st).1 ∧
      ((checkoutLoop c r n st).2.isOk = true → inUseOf (checkoutLoop c r n st).1.recs r = true) := by
  intro n
  induction n with
  | zero =>
    intro st h hu
    simp only [checkoutLoop]
    have h1 := h.invalidate r false
    have hu1 : inUseOf (invalidate st r false).recs r = true := by rw [invalidate_inUse]; exact hu
    have hu1' : (getRec (invalidate st r false) r).inUse = true := hu1
    rw [if_pos hu1']
    exact ⟨checkin_PInv_inUse true h1 hu1, by simp [LoopRes.isOk]⟩
  | succ n ih =>
    intro st h hu
    have f1 : FrameR r st (pingSt c (setRec st r { getRec st r with fresh := false }) (getRec st r).fresh) := by
      refine FrameR.trans (b := setRec st r { getRec st r with fresh := false }) ?_ (pingSt_frame c r _ _)
      exact FrameR.ofSetRec st r _ rfl
    have h1 := h.frame f1 (Or.inl (Or.inr (Or.inl hu)))
    have hu1 := (f1.inUse r).trans hu
    simp only [checkoutLoop]
    generalize pingSt c (setRec st r { getRec st r with fresh := false }) (getRec st r).fresh = st1 at *
    generalize pingRes c (setRec st r { getRec st r with fresh := false }) (getRec st r).fresh = ping at *
    split
    · exact ⟨checkinFailed_PInv_inUse h1 hu1, by simp [LoopRes.isOk]⟩
    · have f2 := evSt_frame c r ping st1
      have h2 := h1.frame f2 (Or.inl (Or.inr (Or.inl hu1)))
      have hu2 := (f2.inUse r).trans hu1
      generalize evSt c st1 ping = st2 at *
      generalize evRes c st1 ping = ev at *
      split
      · exact ⟨h2, fun _ => hu2⟩
      · split
        · exact ⟨checkinFailed_PInv_inUse h2 hu2, by simp [LoopRes.isOk]⟩
        · have f3 := afterDisconnect_frame r ev st2
          have h3 := h2.frame f3 (Or.inl (Or.inr (Or.inl hu2)))
          have hu3 := (f3.inUse r).trans hu2
          have f4 := getConnection_frame c r (afterDisconnect st2 r ev)
          have h4 := h3.frame f4 (Or.inl (Or.inr (Or.inl hu3)))
          have hu4 := (f4.inUse r).trans hu3
          split
          · exact ih _ h4 hu4
          · exact ⟨checkinFailed_PInv_inUse h4 hu4, by simp [LoopRes.isOk]⟩

theorem checkoutFairy_PInv {c : Cfg} {st : St} {r : Nat} (h : PInv c (some r) st) :
    PInv c none (checkoutFairy c st r).1 ∧
    ((checkoutFairy c st r).2.isOk = true → inUseOf (checkoutFairy c st r).1.recs r = true) := by
  have ⟨h1, hu1⟩ := markInUse_PInv h
  unfold checkoutFairy
  split
  · exact ⟨h1, fun _ => hu1⟩
  · exact checkoutLoop_PInv c r 2 _ h1 hu1

theorem finishCheckout_PInv {c : Cfg} {st : St} {r : Nat} (res : LoopRes) (h : PInv c none st)
    (hu : res.isOk = true → inUseOf st.recs r = true) : PInv c none (finishCheckout st r res).1 := by
  unfold finishCheckout
  split
  · rename_i cn
    have hlt := inUseOf_lt (hu rfl)
    refine ⟨h.acct, h.qValid, h.qIdle, h.qNodup, h.flOk, h.liveConn, ?_, h.qLe⟩
    intro k x hk
    simp only [addFairy] at hk ⊢
    rcases Nat.lt_or_ge k st.fairies.length with hk1 | hk1
    · rw [List.getElem?_append_left hk1] at hk; exact h.fValid k x hk
    · rw [List.getElem?_append_right hk1] at hk
      cases hkk : k - st.fairies.length with
      | zero => rw [hkk] at hk; simp at hk; subst hk; exact hlt
      | succ m => rw [hkk] at hk; simp at hk
  all_goals exact h

theorem checkout_PInv {c : Cfg} {st : St} (h : PInv c none st) : PInv c none (checkout c st).1 := by
  have ⟨hok, herr⟩ := doGet_PInv (c := c) h
  unfold checkout
  split
  · rename_i he; exact herr (fun r hr => by rw [he] at hr; cases hr)
  · rename_i he; exact herr (fun r hr => by rw [he] at hr; cases hr)
  · rename_i r he
    have h1 := hok r he
    have h2 := h1.frame (getConnection_frame c r _) (Or.inl (Or.inr (Or.inr rfl)))
    split
    · have ⟨h3, hu3⟩ := checkoutFairy_PInv h2
      exact finishCheckout_PInv _ h3 hu3
    · exact checkinFailed_PInv_flight h2

theorem finalize_PInv {c : Cfg} {st : St} (r : Nat) (ca : Option Nat) (h : PInv c none st) :
    PInv c none (finalize c st r ca) := by
  unfold finalize
  split
  · rename_i hu; exact checkin_PInv_inUse true (h.resetStep r ca) hu
  · exact h.resetStep r ca

theorem release_PInv {c : Cfg} {st : St} (k : Nat) (h : PInv c none st) : PInv c none (release st k) := by
  refine ⟨h.acct, h.qValid, h.qIdle, h.qNodup, h.flOk, h.liveConn, ?_, h.qLe⟩
  intro k' x hk
  simp only [release] at hk ⊢
  by_cases e : k = k'
  · subst e
    rcases Nat.lt_or_ge k st.fairies.length with h1 | h1
    · simp [h1] at hk
    · rw [List.getElem?_eq_none (by simp; omega)] at hk; cases hk
  · rw [List.getElem?_set_ne e] at hk; exact h.fValid k' x hk

theorem hardInvalidate_PInv {c : Cfg} {st : St} (k : Nat) (f : Fairy) (h : PInv c none st) :
    PInv c none (hardInvalidate c st k f) := by
  unfold hardInvalidate
  split
  · exact h
  · exact release_PInv k (finalize_PInv f.rid none (h.invalidate f.rid false))

theorem bumpInvTime_recs (st : St) (r : Nat) : (bumpInvTime st r).recs = st.recs := by
  unfold bumpInvTime; split <;> rfl

theorem PInv.bump {c : Cfg} {fl : Option Nat} {st : St} (h : PInv c fl st) (r0 : Nat) :
    PInv c fl (bumpInvTime st r0) :=
  h.frame (bumpInvTime_frame 0 r0 st) (Or.inr (fun c' hc' => by rw [bumpInvTime_recs] at hc'; exact hc'))

theorem exec_PInv {c : Cfg} {st : St} (op : Op) (h : PInv c none st) : PInv c none (exec c st op).1 := by
  cases op with
  | co => simp only [exec]; exact checkout_PInv h
  | wait n =>
    simp only [exec]
    exact ⟨h.acct, h.qValid, h.qIdle, h.qNodup, h.flOk, h.liveConn, h.fValid, h.qLe⟩
  | ci k =>
    simp only [exec]; split
    · exact h
    · exact release_PInv k (finalize_PInv _ _ h)
  | drop k =>
    simp only [exec]; split
    · exact h
    · exact release_PInv k (finalize_PInv _ _ h)
  | inv k =>
    simp only [exec]; split
    · exact h
    · exact hardInvalidate_PInv k _ h
  | soft k =>
    simp only [exec]; split
    · exact h
    · split
      · exact h
      · exact h.invalidate _ true
  | pinv k =>
    simp only [exec]; split
    · exact h
    · exact hardInvalidate_PInv k _ (h.bump _)

end SaVerif.PoolFault
