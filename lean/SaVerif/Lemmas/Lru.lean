import SaVerif.Model.Lru
/-! Lemmas about the LRUCache model (core Lean only). -/
namespace SaVerif.Coll
namespace Lru

/-- entries pairwise differ in key and in counter -/
def Distinct (data : List LEntry) : Prop :=
  data.Pairwise (fun a b => a.key ≠ b.key ∧ a.ctr ≠ b.ctr)

/-- representation invariant: one entry per key, every counter value used once and never
    ahead of the cache's counter -/
structure Inv (c : Lru) : Prop where
  distinct : Distinct c.data
  bounded : ∀ e ∈ c.data, e.ctr ≤ c.counter

theorem eq_of_key_eq {data : List LEntry} (h : Distinct data) {a b : LEntry}
    (ha : a ∈ data) (hb : b ∈ data) (hk : a.key = b.key) : a = b := by
  induction data with
  | nil => cases ha
  | cons x xs ih =>
    unfold Distinct at h
    rw [List.pairwise_cons] at h
    rcases List.mem_cons.1 ha with rfl | ha' <;> rcases List.mem_cons.1 hb with rfl | hb'
    · rfl
    · exact absurd hk (h.1 b hb').1
    · exact absurd hk.symm (h.1 a ha').1
    · exact ih h.2 ha' hb'

theorem eq_of_ctr_eq {data : List LEntry} (h : Distinct data) {a b : LEntry}
    (ha : a ∈ data) (hb : b ∈ data) (hk : a.ctr = b.ctr) : a = b := by
  induction data with
  | nil => cases ha
  | cons x xs ih =>
    unfold Distinct at h
    rw [List.pairwise_cons] at h
    rcases List.mem_cons.1 ha with rfl | ha' <;> rcases List.mem_cons.1 hb with rfl | hb'
    · rfl
    · exact absurd hk (h.1 b hb').2
    · exact absurd hk.symm (h.1 a ha').2
    · exact ih h.2 ha' hb'

theorem distinct_perm {l₁ l₂ : List LEntry} (p : l₁.Perm l₂) : Distinct l₁ ↔ Distinct l₂ :=
  p.pairwise_iff (fun h => ⟨fun e => h.1 e.symm, fun e => h.2 e.symm⟩)

/-! ### delKey / evict -/

theorem foldl_delKey (items : List LEntry) : ∀ data : List LEntry,
    items.foldl (fun d it => delKey d it.key) data
      = data.filter (fun e => !(items.map (·.key)).contains e.key) := by
  induction items with
  | nil =>
    intro data
    exact (List.filter_eq_self.2 (by simp)).symm
  | cons it items ih =>
    intro data
    rw [List.foldl_cons, ih]
    unfold delKey
    rw [List.filter_filter, List.map_cons]
    apply List.filter_congr
    intro e _
    by_cases h : e.key = it.key
    · simp [h]
    · simp [h]

theorem evict_eq (cap : Nat) (data : List LEntry) :
    evict cap data
      = data.filter (fun e => !(((byCounter data).drop cap).map (·.key)).contains e.key) := by
  unfold evict; exact foldl_delKey _ _

theorem insertDesc_perm (x : LEntry) (l : List LEntry) : (insertDesc x l).Perm (x :: l) := by
  induction l with
  | nil => exact List.Perm.refl _
  | cons y ys ih =>
    unfold insertDesc
    split
    · exact List.Perm.refl _
    · exact (List.Perm.cons y ih).trans (List.Perm.swap x y ys)

theorem byCounter_perm (data : List LEntry) : (byCounter data).Perm data := by
  induction data with
  | nil => exact List.Perm.refl _
  | cons x xs ih =>
    unfold byCounter
    exact (insertDesc_perm x _).trans (List.Perm.cons x ih)

theorem insertDesc_sorted (x : LEntry) {l : List LEntry}
    (h : l.Pairwise (fun a b => a.ctr ≥ b.ctr)) :
    (insertDesc x l).Pairwise (fun a b => a.ctr ≥ b.ctr) := by
  induction l with
  | nil => simp [insertDesc]
  | cons y ys ih =>
    rw [List.pairwise_cons] at h
    unfold insertDesc
    split
    · rename_i hxy
      rw [List.pairwise_cons]
      refine ⟨?_, List.pairwise_cons.2 h⟩
      intro b hb
      rcases List.mem_cons.1 hb with rfl | hb
      · exact hxy
      · have := h.1 b hb; omega
    · rename_i hxy
      rw [List.pairwise_cons]
      refine ⟨?_, ih h.2⟩
      intro b hb
      rcases List.mem_cons.1 ((insertDesc_perm x ys).mem_iff.1 hb) with rfl | hb
      · omega
      · exact h.1 b hb

theorem byCounter_sorted (data : List LEntry) :
    (byCounter data).Pairwise (fun a b => a.ctr ≥ b.ctr) := by
  induction data with
  | nil => exact List.Pairwise.nil
  | cons x xs ih => unfold byCounter; exact insertDesc_sorted x ih

/-- with one entry per key, eviction keeps exactly the first `cap` entries of the
    counter-descending order -/
theorem evict_perm_take {data : List LEntry} (h : Distinct data) (cap : Nat) :
    (evict cap data).Perm ((byCounter data).take cap) := by
  rw [evict_eq]
  let p : LEntry → Bool := fun e => !(((byCounter data).drop cap).map (·.key)).contains e.key
  have hs : Distinct (byCounter data) := (distinct_perm (byCounter_perm data)).2 h
  have h1 : (data.filter p).Perm ((byCounter data).filter p) := (byCounter_perm data).symm.filter p
  refine h1.trans ?_
  have hsplit : byCounter data = (byCounter data).take cap ++ (byCounter data).drop cap :=
    (List.take_append_drop cap _).symm
  have hdrop : ((byCounter data).drop cap).filter p = [] := by
    rw [List.filter_eq_nil_iff]
    intro e he
    have : e.key ∈ ((byCounter data).drop cap).map (·.key) := List.mem_map.2 ⟨e, he, rfl⟩
    have hc : (((byCounter data).drop cap).map (·.key)).contains e.key = true :=
      List.contains_iff_mem.2 this
    show ¬ (!(((byCounter data).drop cap).map (·.key)).contains e.key) = true
    rw [hc]; simp
  have htake : ((byCounter data).take cap).filter p = (byCounter data).take cap := by
    rw [List.filter_eq_self]
    intro e he
    simp only [p, Bool.not_eq_true', List.contains_eq_mem, decide_eq_false_iff_not, List.mem_map,
      not_exists, not_and]
    intro e' he' hk
    have := List.Pairwise.rel_of_mem_take_of_mem_drop hs he he'
    exact this.1 hk.symm
  have : (byCounter data).filter p = (byCounter data).take cap := by
    conv => lhs; rw [hsplit]
    rw [List.filter_append, hdrop, htake, List.append_nil]
  rw [this]

theorem evict_length_le {data : List LEntry} (h : Distinct data) (cap : Nat) :
    (evict cap data).length ≤ cap := by
  rw [(evict_perm_take h cap).length_eq, List.length_take]
  omega

theorem evict_length {data : List LEntry} (h : Distinct data) (cap : Nat) :
    (evict cap data).length = min cap data.length := by
  rw [(evict_perm_take h cap).length_eq, List.length_take, (byCounter_perm data).length_eq]

theorem mem_evict {data : List LEntry} {cap : Nat} {e : LEntry} (he : e ∈ evict cap data) :
    e ∈ data := by
  rw [evict_eq] at he
  exact (List.mem_filter.1 he).1

theorem evict_sublist (cap : Nat) (data : List LEntry) : (evict cap data).Sublist data := by
  rw [evict_eq]; exact List.filter_sublist

/-- every evicted entry is strictly older than every surviving entry -/
theorem evict_older {data : List LEntry} (h : Distinct data) (cap : Nat) {e e' : LEntry}
    (he : e ∈ evict cap data) (he' : e' ∈ data) (hne : e' ∉ evict cap data) :
    e'.ctr < e.ctr := by
  have hp := evict_perm_take h cap
  have het : e ∈ (byCounter data).take cap := hp.mem_iff.1 he
  have he's : e' ∈ byCounter data := (byCounter_perm data).mem_iff.2 he'
  have he'd : e' ∈ (byCounter data).drop cap := by
    rw [← List.take_append_drop cap (byCounter data), List.mem_append] at he's
    rcases he's with h1 | h1
    · exact absurd (hp.mem_iff.2 h1) hne
    · exact h1
  have hge := List.Pairwise.rel_of_mem_take_of_mem_drop (byCounter_sorted data) het he'd
  have hneq : e.ctr ≠ e'.ctr := by
    intro hc
    have : e = e' := eq_of_ctr_eq h (mem_evict he) he' hc
    subst this
    exact hne he
  omega

/-! ### the `while` loop -/

theorem not_over_of_le (c : Lru) {n : Nat} (h : n ≤ c.capacity) : c.over n = false := by
  unfold over
  simp only [decide_eq_false_iff_not, Nat.not_lt]
  calc n * c.thrDen ≤ c.capacity * c.thrDen := Nat.mul_le_mul_right _ h
    _ ≤ c.capacity * c.thrDen + c.capacity * c.thrNum := Nat.le_add_right _ _

theorem over_pos (c : Lru) {n : Nat} (h : c.over n = true) : 0 < n := by
  unfold over at h
  simp only [decide_eq_true_eq] at h
  cases n with
  | zero => simp at h
  | succ m => omega

/-- the loop body runs at most once and the fuel is never exhausted -/
theorem manageLoop_eq (c : Lru) {data : List LEntry} (h : Distinct data) :
    manageLoop c (data.length + 1) data
      = if c.over data.length then evict c.capacity data else data := by
  simp only [manageLoop]
  by_cases ho : c.over data.length = true
  · rw [if_pos ho, if_pos ho]
    have hpos := over_pos c ho
    obtain ⟨m, hm⟩ : ∃ m, data.length = m + 1 := ⟨data.length - 1, by omega⟩
    rw [hm]
    simp only [manageLoop]
    rw [not_over_of_le c (evict_length_le h _)]
    simp
  · rw [if_neg ho, if_neg ho]

theorem manageLoop_not_over (c : Lru) {data : List LEntry} (h : Distinct data) :
    c.over (manageLoop c (data.length + 1) data).length = false := by
  rw [manageLoop_eq c h]
  by_cases ho : c.over data.length = true
  · rw [if_pos ho]; exact not_over_of_le c (evict_length_le h _)
  · rw [if_neg ho]; simpa using ho

theorem manageLoop_sublist (c : Lru) {data : List LEntry} (h : Distinct data) :
    (manageLoop c (data.length + 1) data).Sublist data := by
  rw [manageLoop_eq c h]
  split
  · exact evict_sublist _ _
  · exact List.Sublist.refl _

/-! ### store / touch -/

theorem any_key_iff' {data : List LEntry} {k : Nat} :
    data.any (fun x => x.key == k) = true ↔ ∃ e ∈ data, e.key = k := by
  simp [List.any_eq_true]

theorem mem_store {data : List LEntry} {e x : LEntry} (hx : x ∈ store data e) :
    x = e ∨ (x ∈ data ∧ x.key ≠ e.key) := by
  unfold store at hx
  split at hx
  · rw [List.mem_map] at hx
    obtain ⟨y, hy, rfl⟩ := hx
    by_cases hk : y.key = e.key
    · simp [hk]
    · have : (y.key == e.key) = false := by simpa using hk
      simp [this, hy, hk]
  · rename_i hany
    rw [List.mem_append, List.mem_singleton] at hx
    rcases hx with hx | hx
    · right
      refine ⟨hx, ?_⟩
      intro hk
      exact hany (any_key_iff'.2 ⟨x, hx, hk⟩)
    · exact Or.inl hx

theorem distinct_map_replace {data : List LEntry} (h : Distinct data) (e : LEntry)
    (hctr : ∀ x ∈ data, x.ctr < e.ctr) :
    Distinct (data.map (fun x => if x.key == e.key then e else x)) := by
  unfold Distinct
  rw [List.pairwise_map]
  refine List.Pairwise.imp_of_mem ?_ h
  intro a b ha hb hab
  by_cases hka : a.key = e.key <;> by_cases hkb : b.key = e.key
  · exact absurd (hka.trans hkb.symm) hab.1
  · have h1 : (a.key == e.key) = true := by simpa using hka
    have h2 : (b.key == e.key) = false := by simpa using hkb
    simp only [h1, h2, if_true, Bool.false_eq_true, if_false]
    exact ⟨fun hh => hkb hh.symm, by have := hctr b hb; omega⟩
  · have h1 : (a.key == e.key) = false := by simpa using hka
    have h2 : (b.key == e.key) = true := by simpa using hkb
    simp only [h1, h2, if_true, Bool.false_eq_true, if_false]
    exact ⟨hka, by have := hctr a ha; omega⟩
  · have h1 : (a.key == e.key) = false := by simpa using hka
    have h2 : (b.key == e.key) = false := by simpa using hkb
    simp only [h1, h2, Bool.false_eq_true, if_false]
    exact hab

theorem distinct_store {data : List LEntry} (h : Distinct data) (e : LEntry)
    (hctr : ∀ x ∈ data, x.ctr < e.ctr) : Distinct (store data e) := by
  unfold store
  split
  · exact distinct_map_replace h e hctr
  · rename_i hany
    unfold Distinct
    rw [List.pairwise_append]
    refine ⟨h, by simp, ?_⟩
    intro a ha b hb
    rw [List.mem_singleton] at hb
    subst hb
    refine ⟨?_, by have := hctr a ha; omega⟩
    intro hk
    exact hany (any_key_iff'.2 ⟨a, ha, hk⟩)

theorem inv_touch {c : Lru} (h : c.Inv) (k : Nat) : (c.touch k).Inv := by
  constructor
  · unfold touch Distinct
    simp only
    rw [List.pairwise_map]
    refine List.Pairwise.imp_of_mem ?_ h.distinct
    intro a b ha hb hab
    have ba := h.bounded a ha
    have bb := h.bounded b hb
    by_cases hka : a.key = k <;> by_cases hkb : b.key = k
    · exact absurd (hka.trans hkb.symm) hab.1
    · have h1 : (a.key == k) = true := by simpa using hka
      have h2 : (b.key == k) = false := by simpa using hkb
      simp only [h1, h2, if_true, Bool.false_eq_true, if_false]
      exact ⟨hab.1, by omega⟩
    · have h1 : (a.key == k) = false := by simpa using hka
      have h2 : (b.key == k) = true := by simpa using hkb
      simp only [h1, h2, if_true, Bool.false_eq_true, if_false]
      exact ⟨hab.1, by omega⟩
    · have h1 : (a.key == k) = false := by simpa using hka
      have h2 : (b.key == k) = false := by simpa using hkb
      simp only [h1, h2, Bool.false_eq_true, if_false]
      exact hab
  · intro e he
    unfold touch at he ⊢
    simp only at he ⊢
    rw [List.mem_map] at he
    obtain ⟨y, hy, rfl⟩ := he
    have := h.bounded y hy
    split
    · simp
    · omega

theorem inv_manageSize {c : Lru} (h : c.Inv) : c.manageSize.Inv := by
  constructor
  · exact List.Pairwise.sublist (manageLoop_sublist c h.distinct) h.distinct
  · intro e he
    exact h.bounded e ((manageLoop_sublist c h.distinct).mem he)

theorem inv_setitem {c : Lru} (h : c.Inv) (k v : Nat) : (c.setitem k v).Inv := by
  unfold setitem
  apply inv_manageSize
  constructor
  · exact distinct_store h.distinct _ (by intro x hx; have := h.bounded x hx; simp only; omega)
  · intro e he
    simp only at he ⊢
    rcases mem_store he with rfl | ⟨he', _⟩
    · simp
    · have := h.bounded e he'; omega

theorem inv_delKey {c : Lru} (h : c.Inv) (k : Nat) : Inv { c with data := delKey c.data k } := by
  constructor
  · exact List.Pairwise.filter _ h.distinct
  · intro e he
    exact h.bounded e (List.mem_filter.1 he).1

theorem inv_getitem {c : Lru} (h : c.Inv) (k : Nat) : (c.getitem k).1.Inv := by
  unfold getitem
  split
  · exact inv_touch h k
  · exact h

theorem inv_get {c : Lru} (h : c.Inv) (k : Nat) : (c.get k).1.Inv := by
  unfold get
  split
  · exact inv_touch h k
  · exact h

theorem inv_delitem {c : Lru} (h : c.Inv) (k : Nat) : (c.delitem k).1.Inv := by
  unfold delitem
  split
  · exact inv_delKey h k
  · exact h

theorem inv_contains {c : Lru} (h : c.Inv) (k : Nat) : (c.contains k).1.Inv := by
  have := inv_getitem h k
  unfold contains
  split <;> simp_all

theorem inv_setdefault {c : Lru} (h : c.Inv) (k v : Nat) : (c.setdefault k v).1.Inv := by
  have := inv_getitem h k
  unfold setdefault
  split
  · exact inv_setitem h k v
  · exact this

theorem inv_pop {c : Lru} (h : c.Inv) (k : Nat) (d : Bool) : (c.pop k d).1.Inv := by
  have := inv_getitem h k
  unfold pop
  cases hg : c.getitem k with
  | mk c' r =>
    rw [hg] at this
    cases r <;> first | exact this | exact inv_delitem this k

theorem inv_popitem {c : Lru} (h : c.Inv) : c.popitem.1.Inv := by
  unfold popitem
  split
  · exact h
  · rename_i e es _
    have := inv_getitem h e.key
    exact inv_delitem this e.key

theorem inv_clearLoop (fuel : Nat) : ∀ {c : Lru}, c.Inv → (clearLoop fuel c).Inv := by
  induction fuel with
  | zero => intro c h; exact h
  | succ n ih =>
    intro c h
    have hp := inv_popitem h
    unfold clearLoop
    cases hg : c.popitem with
    | mk c' r =>
      rw [hg] at hp
      cases r <;> first | exact hp | exact ih hp

/-! ### find -/

theorem find_some {c : Lru} {k : Nat} {e : LEntry} (h : c.find k = some e) :
    e ∈ c.data ∧ e.key = k := by
  unfold find at h
  exact ⟨List.mem_of_find?_eq_some h, by simpa using List.find?_some h⟩

theorem find_of_mem {c : Lru} (h : Distinct c.data) {e : LEntry} (he : e ∈ c.data) :
    c.find e.key = some e := by
  cases hf : c.find e.key with
  | none =>
    unfold find at hf
    rw [List.find?_eq_none] at hf
    exact absurd (by simp) (hf e he)
  | some e' =>
    have := find_some hf
    rw [eq_of_key_eq h this.1 he this.2]

theorem find_none {c : Lru} {k : Nat} (h : c.find k = none) : ∀ e ∈ c.data, e.key ≠ k := by
  unfold find at h
  rw [List.find?_eq_none] at h
  intro e he
  simpa using h e he

theorem mem_store_self (data : List LEntry) (e : LEntry) : e ∈ store data e := by
  unfold store
  split
  · rename_i hany
    obtain ⟨x, hx, hk⟩ := any_key_iff'.1 hany
    rw [List.mem_map]
    exact ⟨x, hx, by simp [hk]⟩
  · simp

theorem length_store_le (data : List LEntry) (e : LEntry) :
    (store data e).length ≤ data.length + 1 := by
  unfold store
  split <;> simp

/-! ### key/value view (ignoring counters) -/

def kvs (data : List LEntry) : List (Nat × Nat) := data.map (fun e => (e.key, e.val))

theorem mem_kvs {data : List LEntry} {p : Nat × Nat} :
    p ∈ kvs data ↔ ∃ e ∈ data, e.key = p.1 ∧ e.val = p.2 := by
  unfold kvs
  rw [List.mem_map]
  constructor
  · rintro ⟨e, he, rfl⟩; exact ⟨e, he, rfl, rfl⟩
  · rintro ⟨e, he, h1, h2⟩; exact ⟨e, he, by rw [h1, h2]⟩

theorem kvs_touch (c : Lru) (k : Nat) : kvs (c.touch k).data = kvs c.data := by
  unfold touch kvs
  simp only [List.map_map]
  apply List.map_congr_left
  intro e _
  simp only [Function.comp]
  split <;> rfl

/-- every (key, value) held by `c'` is held by `c` -/
def KvSub (c' c : Lru) : Prop := ∀ p ∈ kvs c'.data, p ∈ kvs c.data

theorem kvsub_refl (c : Lru) : KvSub c c := fun _ h => h

theorem kvsub_trans {a b c : Lru} (h1 : KvSub a b) (h2 : KvSub b c) : KvSub a c :=
  fun p hp => h2 p (h1 p hp)

theorem kvsub_touch (c : Lru) (k : Nat) : KvSub (c.touch k) c := by
  intro p hp; rw [kvs_touch] at hp; exact hp

theorem kvsub_of_subset {c' c : Lru} (h : ∀ e ∈ c'.data, e ∈ c.data) : KvSub c' c := by
  intro p hp
  rw [mem_kvs] at hp ⊢
  obtain ⟨e, he, h1, h2⟩ := hp
  exact ⟨e, h e he, h1, h2⟩

theorem kvsub_getitem (c : Lru) (k : Nat) : KvSub (c.getitem k).1 c := by
  unfold getitem
  split
  · exact kvsub_touch c k
  · exact kvsub_refl c

theorem kvsub_get (c : Lru) (k : Nat) : KvSub (c.get k).1 c := by
  unfold get
  split
  · exact kvsub_touch c k
  · exact kvsub_refl c

theorem kvsub_delitem (c : Lru) (k : Nat) : KvSub (c.delitem k).1 c := by
  unfold delitem
  split
  · exact kvsub_of_subset (fun e he => (List.mem_filter.1 he).1)
  · exact kvsub_refl c

theorem kvsub_contains (c : Lru) (k : Nat) : KvSub (c.contains k).1 c := by
  have := kvsub_getitem c k
  unfold contains
  split <;> simp_all

theorem kvsub_pop (c : Lru) (k : Nat) (d : Bool) : KvSub (c.pop k d).1 c := by
  have := kvsub_getitem c k
  unfold pop
  cases hg : c.getitem k with
  | mk c' r =>
    rw [hg] at this
    cases r <;> first | exact this | exact kvsub_trans (kvsub_delitem c' k) this

theorem kvsub_popitem (c : Lru) : KvSub c.popitem.1 c := by
  unfold popitem
  split
  · exact kvsub_refl c
  · rename_i e es _
    exact kvsub_trans (kvsub_delitem _ e.key) (kvsub_getitem c e.key)

theorem kvsub_clearLoop (fuel : Nat) : ∀ c : Lru, KvSub (clearLoop fuel c) c := by
  induction fuel with
  | zero => intro c; exact kvsub_refl c
  | succ n ih =>
    intro c
    have hp := kvsub_popitem c
    unfold clearLoop
    cases hg : c.popitem with
    | mk c' r =>
      rw [hg] at hp
      cases r <;> first | exact hp | exact kvsub_trans (ih c') hp

theorem kvsub_manageSize {c : Lru} (h : Distinct c.data) : KvSub c.manageSize c :=
  kvsub_of_subset (fun _ he => (manageLoop_sublist c h).mem he)

/-- the state between `self._data[key] = …` and `_manage_size()` -/
def afterStore (c : Lru) (k v : Nat) : Lru :=
  { c with counter := c.counter + 1, data := store c.data ⟨k, v, c.counter + 1⟩ }

theorem setitem_eq (c : Lru) (k v : Nat) : c.setitem k v = (afterStore c k v).manageSize := rfl

theorem distinct_afterStore {c : Lru} (h : c.Inv) (k v : Nat) : Distinct (afterStore c k v).data :=
  distinct_store h.distinct _ (by intro x hx; have := h.bounded x hx; simp only; omega)

/-- what a `__setitem__` leaves behind: the new pair, or old pairs under other keys -/
theorem kvs_setitem {c : Lru} (h : c.Inv) (k v : Nat) :
    ∀ p ∈ kvs (c.setitem k v).data, p = (k, v) ∨ (p ∈ kvs c.data ∧ p.1 ≠ k) := by
  intro p hp
  rw [setitem_eq] at hp
  have := kvsub_manageSize (distinct_afterStore h k v) p hp
  rw [mem_kvs] at this
  obtain ⟨e, he, h1, h2⟩ := this
  rcases mem_store he with rfl | ⟨he', hk⟩
  · left
    simp only at h1 h2
    rw [h1, h2]
  · right
    refine ⟨mem_kvs.2 ⟨e, he', h1, h2⟩, ?_⟩
    rw [← h1]; exact hk

theorem getitem_keyError_iff (c : Lru) (k : Nat) :
    (c.getitem k).2 = .keyError ↔ c.find k = none := by
  unfold getitem
  cases c.find k <;> simp

theorem getitem_val {c : Lru} {k v : Nat} (h : (c.getitem k).2 = .val v) :
    (k, v) ∈ kvs c.data := by
  unfold getitem at h
  cases hf : c.find k with
  | none => rw [hf] at h; cases h
  | some e =>
    rw [hf] at h
    simp only [LRet.val.injEq] at h
    have := find_some hf
    exact mem_kvs.2 ⟨e, this.1, this.2, h⟩

theorem get_val {c : Lru} {k v : Nat} (h : (c.get k).2 = .val v) : (k, v) ∈ kvs c.data := by
  unfold get at h
  cases hf : c.find k with
  | none => rw [hf] at h; cases h
  | some e =>
    rw [hf] at h
    simp only [LRet.val.injEq] at h
    have := find_some hf
    exact mem_kvs.2 ⟨e, this.1, this.2, h⟩

end Lru
end SaVerif.Coll
