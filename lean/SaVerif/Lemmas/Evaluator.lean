import SaVerif.Model.Evaluator
import SaVerif.Lemmas.LikePlain
/-! Helper lemmas about the evaluator model (core Lean only). -/
set_option linter.unusedSimpArgs false
set_option linter.unusedSectionVars false
namespace SaVerif.Eval
open SaVerif.Like SaVerif.Gen.EvalOps

/-! ## the regenerated visitor table: what the evaluator lacks -/

theorem unsupported_table :
    supported "visit_floordiv_binary_op" = false ∧
    supported "visit_between_op_binary_op" = false ∧
    supported "visit_add_clauselist_op" = false ∧
    supported "visit_mul_clauselist_op" = false ∧
    supported "visit_concat_op_clauselist_op" = false := by decide

/-- only plain startswith / endswith have a visitor -/
theorem likeVisit_supported (k : Kind) (icase neg : Bool) (h : supported (likeVisit k icase neg) = true) :
    icase = false ∧ neg = false ∧ k ≠ .contains := by
  cases k <;> cases icase <;> cases neg <;> revert h <;> decide

/-! ## small facts -/

theorem isEmpty_append {α : Type} (a b : List α) : (a ++ b).isEmpty = (a.isEmpty && b.isEmpty) := by
  cases a <;> simp

theorem straight_val {α β γ : Type} (g : α → β → γ) (x : Option α) (y : Option β) :
    straight (fun a b => Py.val (some (g a b))) (.val x) (.val y) =
      .val (lift2 (fun a b => some (g a b)) x y) := by
  cases x <;> cases y <;> rfl

theorem modOk_fmod (a b : Int) (h : modOk a b = true) : b ≠ 0 ∧ Int.fmod a b = Int.tmod a b := by
  simp only [modOk, Bool.and_eq_true, Bool.or_eq_true, decide_eq_true_eq, bne_iff_ne, ne_eq] at h
  refine ⟨h.1, ?_⟩
  rw [Int.fmod_eq_tmod]
  rcases h.2 with (h1 | h2) | h3
  · have : b ∣ a := Int.dvd_of_emod_eq_zero h1
    simp [this]
  · by_cases hd : b ∣ a
    · simp [hd]
    · simp [hd, h2.1, h2.2]
  · by_cases hd : b ∣ a
    · simp [hd]
    · have h1 : ¬ (0 ≤ a) := by omega
      have h2 : ¬ (0 ≤ b) := by omega
      simp only [hd, h1, h2, if_false]
      omega

/-! ## integer and string expressions -/

theorem safeI_bin (r : Row) (a b : IExp) (l : List String)
    (h : (violatedI r a ++ violatedI r b ++ l).isEmpty = true) :
    safeI r a = true ∧ safeI r b = true ∧ l.isEmpty = true := by
  simp only [isEmpty_append, Bool.and_eq_true] at h
  exact ⟨h.1.1, h.1.2, h.2⟩

theorem getI_loaded (o : Obj) (hx : o.xi = []) (i : Nat) : getI o i = .val (o.row.ints.getD i none) := by
  simp [getI, hx]

theorem getS_loaded (o : Obj) (hx : o.xs = []) (i : Nat) : getS o i = .val (o.row.strs.getD i none) := by
  simp [getS, hx]

theorem evalI_eq (o : Obj) (hx : o.xi = []) :
    ∀ e : IExp, evaluableI e = true → safeI o.row e = true → evalPyI o e = .val (evalSqlI o.row e) := by
  intro e
  induction e with
  | col i => intro _ _; simp [evalPyI, evalSqlI, getI_loaded o hx]
  | lit v => intro _ _; simp [evalPyI, evalSqlI]
  | add a b iha ihb =>
    intro he hs
    simp only [evaluableI, Bool.and_eq_true] at he
    have hs' := safeI_bin o.row a b [] (by simpa [safeI, violatedI] using hs)
    simp only [evalPyI, evalSqlI, iha he.1.2 hs'.1, ihb he.2 hs'.2.1, straight_val]
  | sub a b iha ihb =>
    intro he hs
    simp only [evaluableI, Bool.and_eq_true] at he
    have hs' := safeI_bin o.row a b [] (by simpa [safeI, violatedI] using hs)
    simp only [evalPyI, evalSqlI, iha he.1.2 hs'.1, ihb he.2 hs'.2.1, straight_val]
  | mul a b iha ihb =>
    intro he hs
    simp only [evaluableI, Bool.and_eq_true] at he
    have hs' := safeI_bin o.row a b [] (by simpa [safeI, violatedI] using hs)
    simp only [evalPyI, evalSqlI, iha he.1.2 hs'.1, ihb he.2 hs'.2.1, straight_val]
  | mod a b iha ihb =>
    intro he hs
    simp only [evaluableI, Bool.and_eq_true] at he
    have hs' := safeI_bin o.row a b _ (by simpa [safeI, violatedI] using hs)
    simp only [evalPyI, evalSqlI, iha he.1.2 hs'.1, ihb he.2 hs'.2.1]
    cases hxa : evalSqlI o.row a with
    | none => cases evalSqlI o.row b <;> rfl
    | some x =>
      cases hyb : evalSqlI o.row b with
      | none => rfl
      | some y =>
        have h3 := hs'.2.2
        rw [hxa, hyb] at h3
        simp only at h3
        by_cases hy : y = 0
        · simp [hy] at h3
        · simp only [hy, if_false] at h3
          by_cases hm : modOk x y = true
          · have := modOk_fmod x y hm
            simp [straight, pyMod, lift2, sqlMod, hy, this.2]
          · simp [hm] at h3
  | floordiv a b _ _ =>
    intro he _
    simp [evaluableI, unsupported_table.1] at he
  | neg a _ => intro he _; simp [evaluableI] at he

theorem evalS_eq (o : Obj) (hx : o.xs = []) :
    ∀ e : SExp, evaluableS e = true → evalPyS o e = .val (evalSqlS o.row e) := by
  intro e
  induction e with
  | col i => intro _; simp [evalPyS, evalSqlS, getS_loaded o hx]
  | lit v => intro _; simp [evalPyS, evalSqlS]
  | concat a b iha ihb =>
    intro he
    simp only [evaluableS, Bool.and_eq_true] at he
    simp only [evalPyS, evalSqlS, iha he.1.2, ihb he.2, straight_val]


/-! ## LIKE: a self-spelling bind value -/

theorem evalSqlite_plain (k : Kind) (escape : Option Char) (auto : Bool) (other col : List Char) :
    evalSqlite false ⟨k, false, false⟩ escape auto other col =
      likeSqlite false (effective escape auto other).2 (wrap k (effective escape auto other).1) col := by
  simp [evalSqlite]

theorem likeOk_pyTest (k : Kind) (escape : Option Char) (auto : Bool) (other col : List Char)
    (h : likeOk other escape auto = true) :
    evalSqlite false ⟨k, false, false⟩ escape auto other col =
      pyTest k (effective escape auto other).1 col := by
  rw [evalSqlite_plain]
  simp only [likeOk, Bool.and_eq_true, bne_iff_ne, ne_eq, List.all_eq_true] at h
  apply sqlite_plain_pyTest
  · simp [mAll, h.1]
  · intro c hc
    have := h.2 c hc
    exact ⟨this.1.1, this.1.2, this.2⟩

/-! ## boolean expressions: exact agreement under all guards -/

theorem and3_true (x : Option Bool) : and3 (some true) x = x := by
  cases x with
  | none => rfl
  | some b => cases b <;> rfl

theorem or3_false (x : Option Bool) : or3 (some false) x = x := by
  cases x with
  | none => rfl
  | some b => cases b <;> rfl

section exact
variable (o : Obj) (hxi : o.xi = []) (hxs : o.xs = [])
include hxi hxs

mutual
theorem evalB_eq : ∀ e : BExp, evaluableB e = true → safeB true o.row e = true →
    evalPyB o e = .val (evalSqlB o.row e)
  | .icmp op a b, he, hs => by
    simp only [evaluableB, Bool.and_eq_true] at he
    have hs' := safeI_bin o.row a b [] (by simpa [safeB, violatedB] using hs)
    simp only [evalPyB, evalSqlB, evalI_eq o hxi a he.1.2 hs'.1, evalI_eq o hxi b he.2 hs'.2.1,
      straight_val]
  | .scmp op a b, he, _ => by
    simp only [evaluableB, Bool.and_eq_true] at he
    simp only [evalPyB, evalSqlB, evalS_eq o hxs a he.1.2, evalS_eq o hxs b he.2, straight_val]
  | .qcmp op a b c, he, hs => by
    simp only [evaluableB, Bool.and_eq_true] at he
    simp only [safeB, violatedB, isEmpty_append, Bool.and_eq_true] at hs
    simp only [evalPyB, evalSqlB, evalI_eq o hxi a he.1.1.2 hs.1.1.1, evalI_eq o hxi b he.1.2 hs.1.1.2,
      evalI_eq o hxi c he.2 hs.1.2]
    have hz := hs.2
    cases hx : evalSqlI o.row a with
    | none => cases evalSqlI o.row b <;> cases evalSqlI o.row c <;> rfl
    | some x =>
      cases hy : evalSqlI o.row b with
      | none => cases evalSqlI o.row c <;> rfl
      | some y =>
        rw [hy] at hz
        have hy0 : y ≠ 0 := by
          intro h0; subst h0; simp at hz
        cases evalSqlI o.row c <;> simp [straight, pyQuot, lift2, hy0]
  | .inull neg a, he, hs => by
    simp only [evaluableB, Bool.and_eq_true] at he
    have hs' : safeI o.row a = true := by simpa [safeB, violatedB, safeI] using hs
    simp only [evalPyB, evalSqlB, evalI_eq o hxi a he.2 hs']
  | .snull neg a, he, _ => by
    simp only [evaluableB, Bool.and_eq_true] at he
    simp only [evalPyB, evalSqlB, evalS_eq o hxs a he.2]
  | .iin neg a l, he, hs => by
    simp only [evaluableB, Bool.and_eq_true] at he
    simp only [safeB, violatedB, isEmpty_append, Bool.and_eq_true] at hs
    simp only [evalPyB, evalSqlB, evalI_eq o hxi a he.2 hs.1.1]
    have hn : l.contains none = false := by
      cases h : l.contains none
      · rfl
      · have h2 := hs.1.2
        rw [h] at h2
        simp at h2
    cases hx : evalSqlI o.row a with
    | none =>
      have hl : l.isEmpty = false := by
        cases h : l.isEmpty
        · rfl
        · simp [h, hx] at hs
      cases neg <;> simp [straight, sqlIn, hl, not3]
    | some v =>
      cases hc : l.contains (some v) <;> cases hl : l.isEmpty <;> cases neg <;>
        simp_all [straight, sqlIn, not3]
  | .like k icase neg a other escape auto, he, hs => by
    simp only [evaluableB, Bool.and_eq_true] at he
    obtain ⟨h1, h2, _⟩ := likeVisit_supported k icase neg he.1
    subst h1; subst h2
    have hok : likeOk other escape auto = true := by
      cases h : likeOk other escape auto
      · simp [safeB, violatedB, h] at hs
      · rfl
    simp only [evalPyB, evalSqlB, evalS_eq o hxs a he.2]
    cases evalSqlS o.row a with
    | none => rfl
    | some col => simp [straight, likeOk_pyTest k escape auto other col hok]
  | .between _ _ _, he, _ => by
    simp [evaluableB, unsupported_table.2.1] at he
  | .and l, he, hs => by
    simp only [evaluableB, Bool.and_eq_true] at he
    simp only [evalPyB, evalSqlB]
    exact andLoop_eq l he.2 (by simpa [safeB, violatedB] using hs)
  | .or l, he, hs => by
    simp only [evaluableB, Bool.and_eq_true] at he
    simp only [evalPyB, evalSqlB]
    rw [orLoop_eq l false he.2 (by simpa [safeB, violatedB] using hs)]
    simp [or3_false]
  | .not a, he, hs => by
    simp only [evaluableB, Bool.and_eq_true] at he
    have ih := evalB_eq a he.2 (by simpa [safeB, violatedB] using hs)
    simp only [evalPyB, evalSqlB, ih]
    cases evalSqlB o.row a with
    | none => rfl
    | some b => rfl
  | .const v, _, _ => by simp [evalPyB, evalSqlB]
theorem andLoop_eq : ∀ l : List BExp, evaluableL l = true → (violatedAnd true o.row l).isEmpty = true →
    andLoop o l = .val (andSql o.row l)
  | [], _, _ => by simp [andLoop, andSql]
  | e :: es, he, hs => by
    simp only [evaluableL, Bool.and_eq_true] at he
    simp only [violatedAnd, isEmpty_append, Bool.and_eq_true] at hs
    have ih1 := evalB_eq e he.1 (by simpa [safeB] using hs.1.1)
    have ih2 := andLoop_eq es he.2 hs.1.2
    simp only [andLoop, andSql, ih1]
    cases hv : evalSqlB o.row e with
    | none =>
      have hg := hs.2
      rw [hv] at hg
      cases hr : andSql o.row es with
      | none => rfl
      | some b =>
        cases b
        · simp [hr] at hg
        · rfl
    | some b =>
      cases b
      · rfl
      · simp only [ih2, and3_true]
theorem orLoop_eq : ∀ (l : List BExp) (hasNull : Bool), evaluableL l = true →
    (violatedL true o.row l).isEmpty = true →
    orLoop o l hasNull = .val (or3 (if hasNull then none else some false) (orSql o.row l))
  | [], hasNull, _, _ => by cases hasNull <;> simp [orLoop, orSql, or3]
  | e :: es, hasNull, he, hs => by
    simp only [evaluableL, Bool.and_eq_true] at he
    simp only [violatedL, isEmpty_append, Bool.and_eq_true] at hs
    have ih1 := evalB_eq e he.1 (by simpa [safeB] using hs.1)
    simp only [orLoop, orSql, ih1]
    cases hv : evalSqlB o.row e with
    | none =>
      simp only [orLoop_eq es true he.2 hs.2]
      cases hasNull <;> cases orSql o.row es with
      | none => rfl
      | some b => cases b <;> rfl
    | some b =>
      cases b
      · simp only [orLoop_eq es hasNull he.2 hs.2, or3_false]
      · cases hasNull <;> cases orSql o.row es with
        | none => rfl
        | some b => cases b <;> rfl
end

end exact


/-! ## without NOT the AND-order guard is not needed: Python may say None where SQL says FALSE -/

/-- the evaluator's value is the SQL value, or it is None where SQL has FALSE -/
def Rel (p : Py Bool) (s : Option Bool) : Prop := p = .val s ∨ (p = .val none ∧ s = some false)

theorem violatedB_leaf_strict (r : Row) (e : BExp) (h : ∀ l, e ≠ .and l) (h' : ∀ l, e ≠ .or l)
    (h'' : ∀ a, e ≠ .not a) : violatedB true r e = violatedB false r e := by
  cases e <;> simp_all [violatedB]

theorem or3_mask (h : Bool) (x : Option Bool) :
    or3 (if h then none else some false) (or3 none x) = or3 none x := by
  cases h <;> cases x with
  | none => rfl
  | some b => cases b <;> rfl

theorem or3_true_mask (h : Bool) (x : Option Bool) :
    or3 (if h then none else some false) (or3 (some true) x) = some true := by
  cases h <;> cases x with
  | none => rfl
  | some b => cases b <;> rfl

theorem rel_or_weaken (res : Py Bool) (h : Bool) (x : Option Bool) (hr : Rel res (or3 none x)) :
    Rel res (or3 (if h then none else some false) x) := by
  cases h
  · simp only [Bool.false_eq_true, if_false, or3_false]
    cases x with
    | none => exact hr
    | some b =>
      cases b
      · rcases hr with hr | ⟨hr, hc⟩
        · exact Or.inr ⟨hr, rfl⟩
        · cases hc
      · exact hr
  · exact hr

section weak
variable (o : Obj) (hxi : o.xi = []) (hxs : o.xs = [])
include hxi hxs

mutual
theorem relB : ∀ e : BExp, evaluableB e = true → notFree e = true → safeB false o.row e = true →
    Rel (evalPyB o e) (evalSqlB o.row e)
  | .and l, he, hn, hs => by
    simp only [evaluableB, Bool.and_eq_true] at he
    simp only [evalPyB, evalSqlB]
    exact relAnd l he.2 (by simpa [notFree] using hn) (by simpa [safeB, violatedB] using hs)
  | .or l, he, hn, hs => by
    simp only [evaluableB, Bool.and_eq_true] at he
    simp only [evalPyB, evalSqlB]
    have := relOr l false he.2 (by simpa [notFree] using hn) (by simpa [safeB, violatedB] using hs)
    simpa [or3_false] using this
  | .not a, _, hn, _ => by simp [notFree] at hn
  | .icmp op a b, he, _, hs =>
    Or.inl (evalB_eq o hxi hxs _ he (by simpa [safeB, violatedB] using hs))
  | .scmp op a b, he, _, hs =>
    Or.inl (evalB_eq o hxi hxs _ he (by simpa [safeB, violatedB] using hs))
  | .qcmp op a b c, he, _, hs =>
    Or.inl (evalB_eq o hxi hxs _ he (by simpa [safeB, violatedB] using hs))
  | .inull neg a, he, _, hs =>
    Or.inl (evalB_eq o hxi hxs _ he (by simpa [safeB, violatedB] using hs))
  | .snull neg a, he, _, hs =>
    Or.inl (evalB_eq o hxi hxs _ he (by simpa [safeB, violatedB] using hs))
  | .iin neg a l, he, _, hs =>
    Or.inl (evalB_eq o hxi hxs _ he (by simpa [safeB, violatedB] using hs))
  | .like k ic ng a ot es au, he, _, hs =>
    Or.inl (evalB_eq o hxi hxs _ he (by simpa [safeB, violatedB] using hs))
  | .between a lo hi, he, _, hs =>
    Or.inl (evalB_eq o hxi hxs _ he (by simpa [safeB, violatedB] using hs))
  | .const v, he, _, hs =>
    Or.inl (evalB_eq o hxi hxs _ he (by simpa [safeB, violatedB] using hs))
theorem relAnd : ∀ l : List BExp, evaluableL l = true → notFreeL l = true →
    (violatedAnd false o.row l).isEmpty = true → Rel (andLoop o l) (andSql o.row l)
  | [], _, _, _ => by simp [andLoop, andSql, Rel]
  | e :: es, he, hn, hs => by
    simp only [evaluableL, Bool.and_eq_true] at he
    simp only [notFreeL, Bool.and_eq_true] at hn
    simp only [violatedAnd, isEmpty_append, Bool.and_eq_true] at hs
    have ih1 := relB e he.1 hn.1 (by simpa [safeB] using hs.1.1)
    have ih2 := relAnd es he.2 hn.2 hs.1.2
    simp only [andLoop, andSql]
    rcases ih1 with h1 | ⟨h1, h2⟩
    · rw [h1]
      cases hv : evalSqlB o.row e with
      | none =>
        cases hr : andSql o.row es with
        | none => exact Or.inl rfl
        | some b =>
          cases b
          · exact Or.inr ⟨rfl, rfl⟩
          · exact Or.inl rfl
      | some b =>
        cases b
        · exact Or.inl rfl
        · simpa [and3_true] using ih2
    · rw [h1, h2]
      exact Or.inr ⟨rfl, by cases andSql o.row es <;> rfl⟩
theorem relOr : ∀ (l : List BExp) (hasNull : Bool), evaluableL l = true → notFreeL l = true →
    (violatedL false o.row l).isEmpty = true →
    Rel (orLoop o l hasNull) (or3 (if hasNull then none else some false) (orSql o.row l))
  | [], hasNull, _, _, _ => by cases hasNull <;> simp [orLoop, orSql, or3, Rel]
  | e :: es, hasNull, he, hn, hs => by
    simp only [evaluableL, Bool.and_eq_true] at he
    simp only [notFreeL, Bool.and_eq_true] at hn
    simp only [violatedL, isEmpty_append, Bool.and_eq_true] at hs
    have ih1 := relB e he.1 hn.1 (by simpa [safeB] using hs.1)
    simp only [orLoop, orSql]
    rcases ih1 with h1 | ⟨h1, h2⟩
    · rw [h1]
      cases hv : evalSqlB o.row e with
      | none =>
        have := relOr es true he.2 hn.2 hs.2
        simp only [if_true] at this
        simpa [or3_mask] using this
      | some b =>
        cases b
        · simpa [or3_false] using relOr es hasNull he.2 hn.2 hs.2
        · simp only [or3_true_mask]; exact Or.inl rfl
    · rw [h1, h2]
      have := relOr es true he.2 hn.2 hs.2
      simp only [if_true] at this
      simpa [or3_false] using rel_or_weaken _ hasNull _ this
end

end weak

theorem matched_of_rel (o : Obj) (w : BExp) (h : Rel (evalPyB o w) (evalSqlB o.row w)) :
    matchedPy o w = some (matchedSql o.row w) := by
  unfold matchedPy matchedSql
  rcases h with h | ⟨h1, h2⟩
  · rw [h]
    cases evalSqlB o.row w with
    | none => rfl
    | some b => cases b <;> rfl
  · rw [h1, h2]; rfl


/-! ## SET clause: sequential evaluation against the dict being written -/

theorem getD_setAt_ne (l : List (Option Int)) (i j : Nat) (v : Option Int) (h : (i == j) = false) :
    (setAt l i v).getD j none = l.getD j none := by
  have hne : i ≠ j := by simpa using h
  simp [setAt, List.getD_eq_getElem?_getD, List.getElem?_set_ne hne]

theorem evalSqlI_setAt (r : Row) (i : Nat) (v : Option Int) :
    ∀ e : IExp, readsI i e = false → evalSqlI { r with ints := setAt r.ints i v } e = evalSqlI r e := by
  intro e
  induction e with
  | col j => intro h; simp only [readsI] at h; simp only [evalSqlI]; exact getD_setAt_ne _ _ _ _ h
  | lit v => intro _; rfl
  | add a b iha ihb => intro h; simp only [readsI, Bool.or_eq_false_iff] at h; simp [evalSqlI, iha h.1, ihb h.2]
  | sub a b iha ihb => intro h; simp only [readsI, Bool.or_eq_false_iff] at h; simp [evalSqlI, iha h.1, ihb h.2]
  | mul a b iha ihb => intro h; simp only [readsI, Bool.or_eq_false_iff] at h; simp [evalSqlI, iha h.1, ihb h.2]
  | mod a b iha ihb => intro h; simp only [readsI, Bool.or_eq_false_iff] at h; simp [evalSqlI, iha h.1, ihb h.2]
  | floordiv a b iha ihb => intro h; simp only [readsI, Bool.or_eq_false_iff] at h; simp [evalSqlI, iha h.1, ihb h.2]
  | neg a iha => intro h; simp only [readsI] at h; simp [evalSqlI, iha h]

theorem violatedI_setAt (r : Row) (i : Nat) (v : Option Int) :
    ∀ e : IExp, readsI i e = false → violatedI { r with ints := setAt r.ints i v } e = violatedI r e := by
  intro e
  induction e with
  | col j => intro _; rfl
  | lit v => intro _; rfl
  | add a b iha ihb => intro h; simp only [readsI, Bool.or_eq_false_iff] at h; simp [violatedI, iha h.1, ihb h.2]
  | sub a b iha ihb => intro h; simp only [readsI, Bool.or_eq_false_iff] at h; simp [violatedI, iha h.1, ihb h.2]
  | mul a b iha ihb => intro h; simp only [readsI, Bool.or_eq_false_iff] at h; simp [violatedI, iha h.1, ihb h.2]
  | mod a b iha ihb =>
    intro h; simp only [readsI, Bool.or_eq_false_iff] at h
    simp [violatedI, iha h.1, ihb h.2, evalSqlI_setAt r i v a h.1, evalSqlI_setAt r i v b h.2]
  | floordiv a b iha ihb => intro h; simp only [readsI, Bool.or_eq_false_iff] at h; simp [violatedI, iha h.1, ihb h.2]
  | neg a iha => intro h; simp only [readsI] at h; simp [violatedI, iha h]

/-- under independence, the loop that reads the dict it writes computes the simultaneous
    assignment (`r0` = the row before the statement) -/
theorem applySeq_eq_sim (r0 : Row) : ∀ (sets : List (Nat × IExp)) (r : Row) (xs : List Nat),
    (∀ p ∈ sets, evalSqlI r p.2 = evalSqlI r0 p.2 ∧ evaluableI p.2 = true ∧ safeI r p.2 = true) →
    setsIndependent sets = true →
    applySeqObj sets ⟨r, [], xs⟩ =
      .ok ⟨{ r with ints := sets.foldl (fun acc p => setAt acc p.1 (evalSqlI r0 p.2)) r.ints }, [], xs⟩
  | [], r, xs, _, _ => by simp [applySeqObj]
  | (i, e) :: rest, r, xs, hp, hi => by
    have h1 := hp (i, e) (by simp)
    simp only [setsIndependent, Bool.and_eq_true, List.all_eq_true, Bool.not_eq_true',
      bne_iff_ne, ne_eq] at hi
    have hev := evalI_eq ⟨r, [], xs⟩ rfl e h1.2.1 h1.2.2
    simp only at hev
    simp only [applySeqObj, List.contains_nil, Bool.false_eq_true, if_false, hev, h1.1, List.foldl_cons]
    have := applySeq_eq_sim r0 rest { r with ints := setAt r.ints i (evalSqlI r0 e) } xs
      (by
        intro p hpm
        have hr : readsI i p.2 = false := (hi.1.1 p hpm).1
        have h2 := hp p (by simp [hpm])
        refine ⟨?_, h2.2.1, ?_⟩
        · rw [evalSqlI_setAt r i _ p.2 hr]; exact h2.1
        · simp only [safeI]; rw [violatedI_setAt r i _ p.2 hr]; exact h2.2.2)
      hi.2
    simpa using this

theorem applySim_eq_foldl (sets : List (Nat × IExp)) (r : Row) :
    applySim sets r = { r with ints := sets.foldl (fun acc p => setAt acc p.1 (evalSqlI r p.2)) r.ints } := rfl


/-! ## expired attributes: a definite answer never depended on them -/

theorem straight_sound {α β γ : Type} (op : α → β → Py γ) (a a' : Py α) (b b' : Py β)
    (ha : a ≠ .expired → a' = a) (hb : b ≠ .expired → b' = b)
    (h : straight op a b ≠ .expired) : straight op a' b' = straight op a b := by
  cases a with
  | zerodiv =>
    rw [ha (by simp)]
    cases b' <;> rfl
  | expired =>
    cases b with
    | zerodiv =>
      rw [hb (by simp)]
      cases a' with
      | val x => cases x <;> rfl
      | expired => rfl
      | zerodiv => rfl
    | expired => exact absurd rfl h
    | val y => cases y <;> exact absurd rfl h
  | val x =>
    rw [ha (by simp)]
    cases b with
    | zerodiv => rw [hb (by simp)]
    | expired => cases x <;> exact absurd rfl h
    | val y => rw [hb (by simp)]

section expired
variable (o : Obj) (r' : Row)
  (hi : ∀ i, o.xi.contains i = false → r'.ints.getD i none = o.row.ints.getD i none)
  (hs : ∀ i, o.xs.contains i = false → r'.strs.getD i none = o.row.strs.getD i none)
include hi hs

theorem expired_sound_I : ∀ e : IExp, evalPyI o e ≠ .expired → evalPyI ⟨r', [], []⟩ e = evalPyI o e := by
  intro e
  induction e with
  | col i =>
    intro h
    simp only [evalPyI, getI] at h ⊢
    cases hc : o.xi.contains i
    · have := hi i hc
      simp only [List.contains_nil, Bool.false_eq_true, if_false, this]
    · rw [hc] at h; simp at h
  | lit v => intro _; rfl
  | add a b iha ihb => intro h; simp only [evalPyI] at h ⊢; exact straight_sound _ _ _ _ _ iha ihb h
  | sub a b iha ihb => intro h; simp only [evalPyI] at h ⊢; exact straight_sound _ _ _ _ _ iha ihb h
  | mul a b iha ihb => intro h; simp only [evalPyI] at h ⊢; exact straight_sound _ _ _ _ _ iha ihb h
  | mod a b iha ihb => intro h; simp only [evalPyI] at h ⊢; exact straight_sound _ _ _ _ _ iha ihb h
  | floordiv a b _ _ => intro _; rfl
  | neg a _ => intro _; rfl

theorem expired_sound_S : ∀ e : SExp, evalPyS o e ≠ .expired → evalPyS ⟨r', [], []⟩ e = evalPyS o e := by
  intro e
  induction e with
  | col i =>
    intro h
    simp only [evalPyS, getS] at h ⊢
    cases hc : o.xs.contains i
    · have := hs i hc
      simp only [List.contains_nil, Bool.false_eq_true, if_false, this]
    · rw [hc] at h; simp at h
  | lit v => intro _; rfl
  | concat a b iha ihb => intro h; simp only [evalPyS] at h ⊢; exact straight_sound _ _ _ _ _ iha ihb h

mutual
theorem expired_sound_B : ∀ e : BExp, evalPyB o e ≠ .expired → evalPyB ⟨r', [], []⟩ e = evalPyB o e
  | .icmp op a b, h => by
    simp only [evalPyB] at h ⊢
    exact straight_sound _ _ _ _ _ (expired_sound_I o r' hi hs a) (expired_sound_I o r' hi hs b) h
  | .scmp op a b, h => by
    simp only [evalPyB] at h ⊢
    exact straight_sound _ _ _ _ _ (expired_sound_S o r' hi hs a) (expired_sound_S o r' hi hs b) h
  | .qcmp op a b c, h => by
    simp only [evalPyB] at h ⊢
    refine straight_sound _ _ _ _ _ ?_ (expired_sound_I o r' hi hs c) h
    intro h2
    exact straight_sound _ _ _ _ _ (expired_sound_I o r' hi hs a) (expired_sound_I o r' hi hs b) h2
  | .inull neg a, h => by
    simp only [evalPyB] at h ⊢
    have := expired_sound_I o r' hi hs a
    cases hv : evalPyI o a with
    | expired => simp [hv] at h
    | zerodiv => rw [this (by simp [hv]), hv]
    | val v => rw [this (by simp [hv]), hv]
  | .snull neg a, h => by
    simp only [evalPyB] at h ⊢
    have := expired_sound_S o r' hi hs a
    cases hv : evalPyS o a with
    | expired => simp [hv] at h
    | zerodiv => rw [this (by simp [hv]), hv]
    | val v => rw [this (by simp [hv]), hv]
  | .iin neg a l, h => by
    simp only [evalPyB] at h ⊢
    exact straight_sound _ _ _ _ _ (expired_sound_I o r' hi hs a) (fun _ => rfl) h
  | .like k ic ng a ot es au, h => by
    simp only [evalPyB] at h ⊢
    exact straight_sound _ _ _ _ _ (expired_sound_S o r' hi hs a) (fun _ => rfl) h
  | .between _ _ _, _ => by simp [evalPyB]
  | .and l, h => by
    simp only [evalPyB] at h ⊢
    exact expired_sound_and l h
  | .or l, h => by
    simp only [evalPyB] at h ⊢
    exact expired_sound_or l false h
  | .not a, h => by
    simp only [evalPyB] at h ⊢
    have := expired_sound_B a
    cases hv : evalPyB o a with
    | expired => simp [hv] at h
    | zerodiv => rw [this (by simp [hv]), hv]
    | val v => rw [this (by simp [hv]), hv]
  | .const v, _ => by simp [evalPyB]
theorem expired_sound_and : ∀ l : List BExp, andLoop o l ≠ .expired → andLoop ⟨r', [], []⟩ l = andLoop o l
  | [], _ => by simp [andLoop]
  | e :: es, h => by
    simp only [andLoop] at h ⊢
    have ih := expired_sound_B e
    cases hv : evalPyB o e with
    | expired => simp [hv] at h
    | zerodiv => rw [ih (by simp [hv]), hv]
    | val v =>
      rw [ih (by simp [hv]), hv]
      rw [hv] at h
      cases v with
      | none => rfl
      | some b =>
        cases b
        · rfl
        · exact expired_sound_and es h
theorem expired_sound_or : ∀ (l : List BExp) (hn : Bool), orLoop o l hn ≠ .expired →
    orLoop ⟨r', [], []⟩ l hn = orLoop o l hn
  | [], hn, _ => by simp [orLoop]
  | e :: es, hn, h => by
    simp only [orLoop] at h ⊢
    have ih := expired_sound_B e
    cases hv : evalPyB o e with
    | expired => simp [hv] at h
    | zerodiv => rw [ih (by simp [hv]), hv]
    | val v =>
      rw [ih (by simp [hv]), hv]
      rw [hv] at h
      cases v with
      | none => exact expired_sound_or es true h
      | some b =>
        cases b
        · exact expired_sound_or es hn h
        · rfl
end

end expired


/-! ## bulk UPDATE by primary key keeps loaded objects in sync -/

theorem getD_setAt (l : List (Option Int)) (i j : Nat) (v : Option Int) :
    (setAt l i v).getD j none = if i = j ∧ i < l.length then v else l.getD j none := by
  simp only [setAt, List.getD_eq_getElem?_getD, List.getElem?_set]
  by_cases h : i = j
  · subst h
    by_cases hl : i < l.length
    · simp [hl]
    · simp [hl, List.getElem?_eq_none (Nat.le_of_not_lt hl)]
  · simp [h]

theorem applyCols_sync (skip : List Nat) (c : Nat) :
    ∀ (cols : List (Nat × Option Int)) (r1 r2 : List (Option Int)), r1.length = r2.length →
      (skip.contains c = true ∨ r1.getD c none = r2.getD c none) →
      (applyCols cols skip r1).length = (applyCols cols [] r2).length ∧
      (skip.contains c = true ∨ (applyCols cols skip r1).getD c none = (applyCols cols [] r2).getD c none)
  | [], r1, r2, hl, h => ⟨hl, h⟩
  | (k, v) :: rest, r1, r2, hl, h => by
    simp only [applyCols, List.foldl_cons, List.contains_nil, Bool.false_eq_true, if_false]
    by_cases hk : skip.contains k = true
    · simp only [hk, if_true]
      apply applyCols_sync skip c rest r1 (setAt r2 k v) (by simp [setAt, hl])
      rcases h with h | h
      · exact Or.inl h
      · by_cases hkc : k = c
        · subst hkc; exact Or.inl hk
        · right
          rw [getD_setAt, if_neg (fun hh => hkc hh.1)]
          exact h
    · simp only [hk]
      apply applyCols_sync skip c rest (setAt r1 k v) (setAt r2 k v) (by simp [setAt, hl])
      rcases h with h | h
      · exact Or.inl h
      · right; rw [getD_setAt, getD_setAt, hl, h]

/-- a slot is well formed and in sync: same width, every unexpired loaded attribute equals
    the database value -/
def SlotOk (s : Slot) : Prop :=
  ∀ o, s.sess = some o → o.1.length = s.db.length ∧
    ∀ c, o.2.contains c = true ∨ o.1.getD c none = s.db.getD c none

theorem bulkStep_ok (p : BulkParam) (slots : List Slot) (h : ∀ s ∈ slots, SlotOk s) :
    ∀ s ∈ bulkStep p slots, SlotOk s := by
  intro s hs
  obtain ⟨s0, hs0, rfl⟩ := List.mem_map.1 hs
  have h0 := h s0 hs0
  by_cases hp : (s0.pk == p.1) = true
  · simp only [hp, if_true]
    intro o ho
    cases hse : s0.sess with
    | none => simp [hse] at ho
    | some o0 =>
      simp only [hse, Option.map_some, Option.some.injEq] at ho
      subst ho
      obtain ⟨hl, hc⟩ := h0 o0 hse
      refine ⟨(applyCols_sync o0.2 0 p.2 o0.1 s0.db hl (hc 0)).1, ?_⟩
      intro c
      exact (applyCols_sync o0.2 c p.2 o0.1 s0.db hl (hc c)).2
  · simp only [hp]; exact h0

theorem bulkByPk_ok : ∀ (params : List BulkParam) (slots : List Slot), (∀ s ∈ slots, SlotOk s) →
    ∀ s ∈ bulkByPk params slots, SlotOk s
  | [], slots, h => by simpa [bulkByPk] using h
  | p :: ps, slots, h => by
    simp only [bulkByPk, List.foldl_cons]
    exact bulkByPk_ok ps (bulkStep p slots) (bulkStep_ok p slots h)

end SaVerif.Eval
