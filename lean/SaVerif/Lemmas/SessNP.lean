import SaVerif.Lemmas.Sess
import SaVerif.Lemmas.SessNew
/-! `session.new` holds pending instances only: frame relations for M-ORM/Sess. -/
set_option linter.unusedSimpArgs false
namespace SaVerif.Sess

/-- the two flags "pending" is made of -/
def flagsEq (a b : Obj) : Prop := a.key = b.key ∧ a.att = b.att
def Pend (ob : Obj) : Prop := ob.key = none ∧ ob.att = true

/-- every member of `session._new` is a pending instance -/
def NP (σ : Sess) : Prop := ∀ o ∈ σ.new, Pend (getO σ o)

/-- `τ` arises from `σ` such that every member of `τ.new` is an old member with unchanged
    flags, or is pending in `τ` outright -/
def G (σ τ : Sess) : Prop :=
  ∀ o ∈ τ.new, (o ∈ σ.new ∧ flagsEq (getO τ o) (getO σ o)) ∨ Pend (getO τ o)

/-- full frame: `_new` and the flags of every instance unchanged -/
def FF (σ τ : Sess) : Prop := τ.new = σ.new ∧ ∀ o, flagsEq (getO τ o) (getO σ o)

theorem flagsEq.rfl' (a : Obj) : flagsEq a a := ⟨rfl, rfl⟩
theorem flagsEq.trans' {a b c : Obj} (h1 : flagsEq a b) (h2 : flagsEq b c) : flagsEq a c :=
  ⟨h1.1.trans h2.1, h1.2.trans h2.2⟩

theorem FF.refl (σ : Sess) : FF σ σ := ⟨rfl, fun _ => flagsEq.rfl' _⟩
theorem FF.trans {σ τ ρ : Sess} (h1 : FF σ τ) (h2 : FF τ ρ) : FF σ ρ :=
  ⟨h2.1.trans h1.1, fun o => (h2.2 o).trans' (h1.2 o)⟩

theorem G.refl (σ : Sess) : G σ σ := fun o ho => Or.inl ⟨ho, flagsEq.rfl' _⟩

theorem G.trans {σ τ ρ : Sess} (h1 : G σ τ) (h2 : G τ ρ) : G σ ρ := by
  intro o ho
  rcases h2 o ho with ⟨hτ, hf⟩ | hp
  · rcases h1 o hτ with ⟨hσ, hf2⟩ | hp2
    · exact Or.inl ⟨hσ, hf.trans' hf2⟩
    · exact Or.inr ⟨hf.1.trans hp2.1, hf.2.trans hp2.2⟩
  · exact Or.inr hp

theorem G_of_FF {σ τ : Sess} (h : FF σ τ) : G σ τ :=
  fun o ho => Or.inl ⟨h.1 ▸ ho, h.2 o⟩

theorem NP_of_G {σ τ : Sess} (h : G σ τ) (hn : NP σ) : NP τ := by
  intro o ho
  rcases h o ho with ⟨hσ, hf⟩ | hp
  · exact ⟨hf.1.trans (hn o hσ).1, hf.2.trans (hn o hσ).2⟩
  · exact hp

theorem G_of_new_nil {σ τ : Sess} (h : τ.new = []) : G σ τ := by
  intro o ho; rw [h] at ho; cases ho

/-- members of `new'` ⊆ `new`, flags untouched -/
theorem G_of_sub {σ τ : Sess} (hs : ∀ o ∈ τ.new, o ∈ σ.new) (hf : ∀ o, flagsEq (getO τ o) (getO σ o)) : G σ τ :=
  fun o ho => Or.inl ⟨hs o ho, hf o⟩

/-! ### objects -/

theorem getO_setO_eq (σ : Sess) (x o : Oid) (f : Obj → Obj) :
    getO (setO σ x f) o = if x = o then ((σ.objs[o]?).map f).getD {} else getO σ o := by
  simp only [getO, setO, List.getD_eq_getElem?_getD, List.getElem?_modify]
  split
  · rename_i h; subst h; simp
  · simp

theorem flags_setO (σ : Sess) (x : Oid) (f : Obj → Obj)
    (hf : ∀ ob : Obj, (f ob).key = ob.key ∧ (f ob).att = ob.att) (o : Oid) :
    flagsEq (getO (setO σ x f) o) (getO σ o) := by
  rw [getO_setO_eq]
  split
  · rename_i h; subst h
    simp only [getO, List.getD_eq_getElem?_getD]
    cases σ.objs[x]? with
    | none => exact flagsEq.rfl' _
    | some ob => exact hf ob
  · exact flagsEq.rfl' _

theorem FF_setO (σ : Sess) (x : Oid) (f : Obj → Obj)
    (hf : ∀ ob : Obj, (f ob).key = ob.key ∧ (f ob).att = ob.att) : FF σ (setO σ x f) :=
  ⟨rfl, flags_setO σ x f hf⟩

theorem FF_emit (σ : Sess) (e : Ev) (o : Oid) : FF σ (emit σ e o) := ⟨rfl, fun _ => flagsEq.rfl' _⟩

theorem FF_of_eq {σ τ : Sess} (hn : τ.new = σ.new) (ho : τ.objs = σ.objs) : FF σ τ :=
  ⟨hn, fun o => by simp only [getO, ho]; exact flagsEq.rfl' _⟩

theorem FF_updTxn (σ : Sess) (f : Txn → Txn) : FF σ (updTxn σ f) := by
  unfold updTxn; split <;> exact FF_of_eq rfl rfl
theorem FF_autobegin (σ : Sess) : FF σ (autobegin σ) := by
  unfold autobegin; split <;> exact FF_of_eq rfl rfl
theorem FF_popTxnDeleted (σ : Sess) (o : Oid) : FF σ (popTxnDeleted σ o) := by
  unfold popTxnDeleted; split <;> exact FF_of_eq rfl rfl
theorem FF_markNondetIf (c : Bool) (σ : Sess) : FF σ (markNondetIf c σ) := by
  unfold markNondetIf; split <;> exact FF_of_eq rfl rfl
theorem FF_imSafeDiscard (σ : Sess) (o : Oid) : FF σ (imSafeDiscard σ o) := by
  unfold imSafeDiscard; repeat' split
  all_goals exact FF_of_eq rfl rfl
theorem FF_imReplace (σ : Sess) (o : Oid) : FF σ (imReplace σ o) := by
  unfold imReplace; repeat' split
  all_goals exact FF_of_eq rfl rfl
theorem FF_imAdd (σ : Sess) (o : Oid) : FF σ (imAdd σ o).1 := by
  unfold imAdd; repeat' split
  all_goals exact FF_of_eq rfl rfl

theorem FF_foldl {α : Type} (g : Sess → α → Sess) (hg : ∀ σ a, FF σ (g σ a)) :
    ∀ (l : List α) (σ : Sess), FF σ (l.foldl g σ) := by
  intro l
  induction l with
  | nil => intro σ; exact FF.refl σ
  | cons a t ih => intro σ; exact (hg σ a).trans (ih _)

theorem G_foldl {α : Type} (g : Sess → α → Sess) (hg : ∀ σ a, G σ (g σ a)) :
    ∀ (l : List α) (σ : Sess), G σ (l.foldl g σ) := by
  intro l
  induction l with
  | nil => intro σ; exact G.refl σ
  | cons a t ih => intro σ; exact (hg σ a).trans (ih _)

theorem G_bind {σ : Sess} {r : R} {f : Sess → R} (h : G σ r.1) (hf : ∀ τ, G τ (f τ).1) : G σ (r.bind f).1 := by
  unfold R.bind
  split
  · exact h
  · exact h.trans (hf _)

theorem FF_bind {σ : Sess} {r : R} {f : Sess → R} (h : FF σ r.1) (hf : ∀ τ, FF τ (f τ).1) : FF σ (r.bind f).1 := by
  unfold R.bind
  split
  · exact h
  · exact h.trans (hf _)

/-! ### detach / attach / save / update / delete / expunge -/

/-- `_detach_states` on an instance that is not in `_new` -/
theorem G_detachOne (t : Bool) (σ : Sess) (x : Oid) (hx : x ∉ σ.new) : G σ (detachOne t σ x) := by
  have hnew : (detachOne t σ x).new = σ.new := new_detachOne t σ x
  intro o ho
  rw [hnew] at ho
  refine Or.inl ⟨ho, ?_⟩
  have hne : x ≠ o := fun e => hx (e ▸ ho)
  have : getO (detachOne t σ x) o = getO σ o := by
    unfold detachOne
    simp only
    repeat' split
    all_goals simp [getO_setO_ne _ _ _ _ hne]
  rw [this]; exact flagsEq.rfl' _

theorem G_detachStates : ∀ (os : List Oid) (σ : Sess) (t : Bool), (∀ x ∈ os, x ∉ σ.new) → G σ (detachStates σ os t)
  | [], σ, t, _ => G.refl σ
  | x :: os, σ, t, h => by
    unfold detachStates
    simp only [List.foldl_cons]
    have h1 := G_detachOne t σ x (h x List.mem_cons_self)
    have h2 : ∀ y ∈ os, y ∉ (detachOne t σ x).new := by
      intro y hy; rw [new_detachOne]; exact h y (List.mem_cons_of_mem _ hy)
    exact h1.trans (G_detachStates os _ t h2)

theorem FF_beforeAttach (σ : Sess) (o : Oid) : FF σ (beforeAttach σ o).1 := by
  unfold beforeAttach; simp only; split <;> exact FF_autobegin σ

/-- `_after_attach`: the instance becomes attached; it is pending iff it has no key -/
theorem G_afterAttach (σ : Sess) (x : Oid) (hx : x ∈ σ.new → (getO σ x).key = none ∧ x < σ.objs.length) :
    G σ (afterAttach σ x) := by
  intro o ho
  have hnew : (afterAttach σ x).new = σ.new := new_afterAttach σ x
  rw [hnew] at ho
  by_cases hox : o = x
  · subst hox
    right
    have ⟨hk, hl⟩ := hx ho
    unfold afterAttach
    simp only
    split <;> simp [Pend, getO_setO_same _ _ _ hl, hk]
  · left
    refine ⟨ho, ?_⟩
    have : getO (afterAttach σ x) o = getO σ o := by
      unfold afterAttach; simp only
      split <;> simp [getO_setO_ne _ _ _ _ (Ne.symm hox)]
    rw [this]; exact flagsEq.rfl' _

theorem getO_autobegin (σ : Sess) (o : Oid) : getO (autobegin σ) o = getO σ o := by
  unfold autobegin; split <;> rfl

theorem beforeAttach_eq (σ : Sess) (o : Oid) : beforeAttach σ o = (autobegin σ, !(getO σ o).att) := by
  unfold beforeAttach
  simp only [getO_autobegin]
  cases (getO σ o).att <;> simp

theorem objs_len_autobegin (σ : Sess) : (autobegin σ).objs.length = σ.objs.length := by
  unfold autobegin; split <;> rfl

theorem mem_new_registerNew (σ : Sess) (x o : Oid) (h : o ∈ (registerNew σ x).new) : o ∈ σ.new ∨ o = x := by
  unfold registerNew at h
  split at h
  · exact Or.inl h
  · simp only [new_setO, List.mem_append, List.mem_singleton] at h; exact h

theorem mem_registerNew_self (σ : Sess) (x : Oid) : x ∈ (registerNew σ x).new := by
  unfold registerNew
  split
  · rename_i h; simpa using h
  · simp

theorem flags_registerNew (σ : Sess) (x o : Oid) : flagsEq (getO (registerNew σ x) o) (getO σ o) := by
  unfold registerNew
  split
  · exact flagsEq.rfl' _
  · have := flags_setO { σ with new := σ.new ++ [x] } x (fun ob => { ob with ins := σ.new.length + 1 })
      (fun ob => ⟨rfl, rfl⟩) o
    exact this

theorem objs_len_registerNew (σ : Sess) (x : Oid) : (registerNew σ x).objs.length = σ.objs.length := by
  unfold registerNew; split <;> simp [setO]

theorem flags_afterAttach_ne (σ : Sess) (x o : Oid) (h : o ≠ x) : getO (afterAttach σ x) o = getO σ o := by
  unfold afterAttach; simp only
  split <;> simp [getO_setO_ne _ _ _ _ (Ne.symm h)]

theorem flags_afterAttach_self (σ : Sess) (x : Oid) (h : x < σ.objs.length) :
    (getO (afterAttach σ x) x).key = (getO σ x).key ∧ (getO (afterAttach σ x) x).att = true := by
  unfold afterAttach; simp only
  split <;> simp [getO_setO_same _ _ _ h]

/-- `_save_impl` keeps "members of `_new` are pending" -/
theorem NP_saveImpl (σ : Sess) (x : Oid) (hx : x < σ.objs.length) (hn : NP σ) : NP (saveImpl σ x).1 := by
  unfold saveImpl
  split
  · exact hn
  · rename_i hk
    have hk' : (getO σ x).key = none := by
      cases h : (getO σ x).key with
      | none => rfl
      | some k => simp [h] at hk
    rw [beforeAttach_eq]
    simp only [ok]
    have hlen : x < (registerNew (autobegin σ) x).objs.length := by
      rw [objs_len_registerNew, objs_len_autobegin]; exact hx
    have hfl : ∀ o, flagsEq (getO (registerNew (autobegin σ) x) o) (getO σ o) := fun o => by
      have := flags_registerNew (autobegin σ) x o
      rw [getO_autobegin] at this; exact this
    have hmem : ∀ o, o ∈ (registerNew (autobegin σ) x).new → o ∈ σ.new ∨ o = x := fun o ho => by
      have := mem_new_registerNew (autobegin σ) x o ho
      rw [new_autobegin] at this; exact this
    intro o ho
    by_cases hatt : (getO σ x).att = true
    · simp only [hatt, Bool.not_true, Bool.false_eq_true, if_false] at ho ⊢
      rcases hmem o ho with h | h
      · exact ⟨(hfl o).1.trans (hn o h).1, (hfl o).2.trans (hn o h).2⟩
      · subst h; exact ⟨(hfl o).1.trans hk', (hfl o).2.trans hatt⟩
    · have hatt' : (getO σ x).att = false := by simpa using hatt
      simp only [hatt', Bool.not_false, if_true] at ho ⊢
      rw [new_afterAttach] at ho
      by_cases hox : o = x
      · subst hox
        have := flags_afterAttach_self (registerNew (autobegin σ) o) o hlen
        exact ⟨this.1.trans ((hfl o).1.trans hk'), this.2⟩
      · rw [flags_afterAttach_ne _ _ _ hox]
        rcases hmem o ho with h | h
        · exact ⟨(hfl o).1.trans (hn o h).1, (hfl o).2.trans (hn o h).2⟩
        · exact absurd h hox

/-- only instance `x` may differ between `σ` and `τ` -/
def OO (x : Oid) (σ τ : Sess) : Prop := ∀ o, o ≠ x → getO τ o = getO σ o

theorem OO.refl (x : Oid) (σ : Sess) : OO x σ σ := fun _ _ => rfl
theorem OO.trans {x : Oid} {σ τ ρ : Sess} (h1 : OO x σ τ) (h2 : OO x τ ρ) : OO x σ ρ :=
  fun o ho => (h2 o ho).trans (h1 o ho)
theorem OO_of_objs {x : Oid} {σ τ : Sess} (h : τ.objs = σ.objs) : OO x σ τ := fun o _ => by simp [getO, h]
theorem OO_setO (x : Oid) (σ : Sess) (f : Obj → Obj) : OO x σ (setO σ x f) :=
  fun o ho => getO_setO_ne _ _ _ _ (Ne.symm ho)
theorem OO_emit (x : Oid) (σ : Sess) (e : Ev) (o : Oid) : OO x σ (emit σ e o) := fun _ _ => rfl
theorem OO_autobegin (x : Oid) (σ : Sess) : OO x σ (autobegin σ) := fun o _ => getO_autobegin σ o
theorem OO_imReplace (x : Oid) (σ : Sess) (o : Oid) : OO x σ (imReplace σ o) := by
  unfold imReplace; repeat' split
  all_goals exact OO_of_objs rfl
theorem OO_imAdd (x : Oid) (σ : Sess) (o : Oid) : OO x σ (imAdd σ o).1 := by
  unfold imAdd; repeat' split
  all_goals exact OO_of_objs rfl
theorem OO_imSafeDiscard (x : Oid) (σ : Sess) (o : Oid) : OO x σ (imSafeDiscard σ o) := by
  unfold imSafeDiscard; repeat' split
  all_goals exact OO_of_objs rfl
theorem OO_beforeAttach (x : Oid) (σ : Sess) (o : Oid) : OO x σ (beforeAttach σ o).1 := by
  rw [beforeAttach_eq]; exact OO_autobegin x σ
theorem OO_afterAttach (x : Oid) (σ : Sess) : OO x σ (afterAttach σ x) :=
  fun o ho => flags_afterAttach_ne σ x o ho
theorem OO_deleted_upd (x : Oid) (σ : Sess) (l : List Oid) : OO x σ { σ with deleted := l } := OO_of_objs rfl

theorem OO_bind {x : Oid} {σ : Sess} {r : R} {f : Sess → R} (h : OO x σ r.1) (hf : ∀ τ, OO x τ (f τ).1) :
    OO x σ (r.bind f).1 := by
  unfold R.bind
  split
  · exact h
  · exact h.trans (hf _)

theorem OO_updateImpl (σ : Sess) (x : Oid) (r : Bool) : OO x σ (updateImpl σ x r).1 := by
  unfold updateImpl
  simp only
  split
  · exact OO.refl _ _
  · split
    · exact OO.refl _ _
    · split
      · exact OO.refl _ _
      · have h0 : ∀ τ : Sess, OO x σ τ → OO x σ (beforeAttach τ x).1 := fun τ h => h.trans (OO_beforeAttach x τ x)
        apply OO_bind
        · split
          · simp only [ok]
            refine OO.trans ?_ (OO_imReplace x _ x)
            refine OO.trans ?_ (OO_deleted_upd x _ _)
            apply h0
            split
            · exact OO_setO x σ _
            · exact OO.refl _ _
          · refine OO.trans ?_ (OO_imAdd x _ x)
            refine OO.trans ?_ (OO_deleted_upd x _ _)
            apply h0
            split
            · exact OO_setO x σ _
            · exact OO.refl _ _
        · intro τ
          repeat' split
          all_goals first
            | exact OO.refl _ _
            | exact OO_afterAttach x τ
            | exact OO_emit x τ _ _

/-- `_update_impl`: `_new` untouched; only the instance itself changes, and only when it has a key -/
theorem G_updateImpl (σ : Sess) (x : Oid) (r : Bool) (hn : NP σ) : G σ (updateImpl σ x r).1 := by
  by_cases hk : (getO σ x).key = none
  · have : updateImpl σ x r = fail σ .invalid := by unfold updateImpl; simp [hk]
    rw [this]; exact G.refl σ
  · have hx : x ∉ σ.new := fun h => hk (hn x h).1
    intro o ho
    rw [new_updateImpl] at ho
    left
    refine ⟨ho, ?_⟩
    have hne : o ≠ x := fun e => hx (e ▸ ho)
    rw [OO_updateImpl σ x r o hne]
    exact flagsEq.rfl' _

theorem NP_updateImpl (σ : Sess) (x : Oid) (r : Bool) (hn : NP σ) : NP (updateImpl σ x r).1 :=
  NP_of_G (G_updateImpl σ x r hn) hn

theorem NP_add (σ : Sess) (x : Oid) (hx : x < σ.objs.length) (hn : NP σ) : NP (add σ x).1 := by
  unfold add
  split
  · exact NP_saveImpl σ x hx hn
  · exact NP_updateImpl σ x false hn

theorem NP_of_FF {σ τ : Sess} (h : FF σ τ) (hn : NP σ) : NP τ := NP_of_G (G_of_FF h) hn

theorem FF_deleted_upd (σ : Sess) (l : List Oid) : FF σ { σ with deleted := l } := FF_of_eq rfl rfl
theorem FF_sql (σ : Sess) (n : Nat) : FF σ { σ with sql := n } := FF_of_eq rfl rfl
theorem FF_db (σ : Sess) (l : List Nat) : FF σ { σ with db := l } := FF_of_eq rfl rfl
theorem FF_sql_db (σ : Sess) (n : Nat) (l : List Nat) : FF σ { σ with sql := n, db := l } := FF_of_eq rfl rfl
theorem FF_txns (σ : Sess) (l : List Txn) : FF σ { σ with txns := l } := FF_of_eq rfl rfl
theorem FF_txns_db (σ : Sess) (d : List Nat) (l : List Txn) : FF σ { σ with txns := l, db := d } := FF_of_eq rfl rfl
theorem FF_db_txns (σ : Sess) (d : List Nat) (l : List Txn) : FF σ { σ with db := d, txns := l } := FF_of_eq rfl rfl
theorem FF_committed (σ : Sess) (l : List Nat) : FF σ { σ with committed := l } := FF_of_eq rfl rfl

/-- `Session.delete` -/
theorem NP_delete (σ : Sess) (x : Oid) (hn : NP σ) : NP (delete σ x).1 := by
  by_cases hk : (getO σ x).key = none
  · have : delete σ x = fail σ .invalid := by unfold delete; simp [hk]
    rw [this]; exact hn
  · have hx : x ∉ σ.new := fun h => hk (hn x h).1
    have hOO : OO x σ (delete σ x).1 := by
      unfold delete
      split
      · exact OO.refl _ _
      · rw [beforeAttach_eq]
        simp only
        split
        · exact OO_autobegin x σ
        · apply OO_bind
          · exact (OO_autobegin x σ).trans (OO_imAdd x _ x)
          · intro τ
            simp only [ok]
            refine OO.trans ?_ (OO_deleted_upd x _ _)
            split
            · exact OO_afterAttach x τ
            · exact OO.refl _ _
    have hnew : (delete σ x).1.new = σ.new := by
      unfold delete
      split
      · rfl
      · rw [beforeAttach_eq]
        simp only
        split
        · exact new_autobegin σ
        · apply new_bind
          · rw [new_imAdd]; exact new_autobegin σ
          · intro τ
            simp only [ok, new_deleted_upd]
            split <;> simp
    intro o ho
    rw [hnew] at ho
    have hne : o ≠ x := fun e => hx (e ▸ ho)
    rw [hOO o hne]
    exact hn o ho

/-- `_expunge_states` loop body: FF except that `_new` shrinks -/
theorem G_expungeOne (σ : Sess) (x : Oid) : G σ (expungeOne σ x) := by
  unfold expungeOne
  split
  · apply G_of_sub
    · intro o ho; exact (List.mem_filter.1 ho).1
    · intro o; exact flagsEq.rfl' _
  · split
    · exact G_of_FF ((FF_imSafeDiscard σ x).trans (FF_deleted_upd _ _))
    · exact G_of_FF (FF_popTxnDeleted σ x)

theorem G_expungeStates (σ : Sess) (os : List Oid) (t : Bool) : G σ (expungeStates σ os t) := by
  unfold expungeStates
  refine (G_foldl _ G_expungeOne os σ).trans ?_
  apply G_detachStates
  intro x hx
  rw [new_foldl_expungeOne]
  intro hm
  have := (List.mem_filter.1 hm).2
  simp [hx] at this

theorem NP_expunge (σ : Sess) (x : Oid) (hn : NP σ) : NP (expunge σ x).1 := by
  unfold expunge
  split
  · exact hn
  · exact NP_of_G (G_expungeStates σ [x] false) hn

theorem new_expungeAll (σ : Sess) : (expungeAll σ).new = [] := by
  unfold expungeAll
  rw [new_detachStates]

theorem NP_of_new_nil {σ : Sess} (h : σ.new = []) : NP σ := by
  intro o ho; rw [h] at ho; cases ho

theorem NP_expungeAll (σ : Sess) : NP (expungeAll σ) := NP_of_new_nil (new_expungeAll σ)

/-- `_remove_newly_deleted`: only the `_deleted` flag of the instance changes -/
theorem FF_removeNewlyDeletedOne (σ : Sess) (x : Oid) : FF σ (removeNewlyDeletedOne σ x) := by
  unfold removeNewlyDeletedOne
  simp only
  refine FF.trans ?_ (FF_emit _ _ _)
  refine FF.trans ?_ (FF_setO _ _ _ (fun ob => ⟨rfl, rfl⟩))
  refine FF.trans ?_ (FF_deleted_upd _ _)
  exact (FF_updTxn σ _).trans (FF_imSafeDiscard _ _)

theorem FF_removeNewlyDeleted (σ : Sess) (os : List Oid) : FF σ (removeNewlyDeleted σ os) := by
  unfold removeNewlyDeleted
  exact FF_foldl _ FF_removeNewlyDeletedOne _ _

theorem FF_loaded (σ : Sess) (x : Oid) (k : Nat) : FF σ (setO σ x (fun ob => loadedObj ob k)) :=
  FF_setO _ _ _ (fun ob => ⟨rfl, rfl⟩)

theorem FF_wasAlreadyDeleted (σ : Sess) (ex : Oid) : FF σ (wasAlreadyDeleted σ ex).1 := by
  unfold wasAlreadyDeleted
  simp only
  repeat' split
  all_goals first
    | exact FF.refl σ
    | exact FF_sql σ _
    | exact (FF_sql σ _).trans (FF_loaded _ _ _)
    | exact (FF_sql σ _).trans (FF_removeNewlyDeleted _ _)

theorem FF_organizeOne (st st' : OrgState) (o : Oid) (he : organizeOne st o = .ok st') : FF st.σ st'.σ := by
  unfold organizeOne at he
  simp only at he
  have hw : ∀ ex, FF st.σ (wasAlreadyDeleted st.σ ex).1 := fun ex => FF_wasAlreadyDeleted _ _
  repeat' split at he
  all_goals first
    | (cases he; done)
    | (injection he with he; subst he; first | exact FF.refl _ | exact hw _)

theorem FF_organize : ∀ (os : List Oid) (st : OrgState), FF st.σ (organize st os).1.σ
  | [], st => FF.refl _
  | o :: os, st => by
    unfold organize
    split
    · exact FF.refl _
    · rename_i st' he
      exact (FF_organizeOne _ _ _ he).trans (FF_organize os st')

theorem FF_flushDml (σ : Sess) (u i : List Oid) : FF σ (flushDml σ u i).1 := by
  unfold flushDml
  simp only
  repeat' split
  all_goals exact FF_of_eq rfl rfl

theorem FF_deleteParam (σ : Sess) (o : Oid) : FF σ (deleteParam σ o).1 := by
  unfold deleteParam
  simp only
  repeat' split
  all_goals first
    | exact FF.refl σ
    | exact FF_sql σ _
    | exact (FF_sql σ _).trans (FF_loaded _ _ _)

theorem FF_deleteParams : ∀ (os : List Oid) (σ : Sess) (acc : List Nat), FF σ (deleteParams σ os acc).1
  | [], σ, acc => FF.refl σ
  | o :: os, σ, acc => by
    unfold deleteParams
    have := FF_deleteParam σ o
    split
    · rename_i heq; rw [heq] at this; exact this
    · rename_i heq; rw [heq] at this; exact this.trans (FF_deleteParams os _ _)

theorem FF_flushDeletes (σ : Sess) (ds : List Oid) : FF σ (flushDeletes σ ds).1 := by
  unfold flushDeletes
  have := FF_deleteParams ds σ []
  split
  · rename_i heq; rw [heq] at this; exact this
  · rename_i heq; rw [heq] at this
    simp only [ok]
    split
    · exact this
    · exact this.trans (FF_sql_db _ _ _)

/-! ### `_register_persistent` -/

/-- flags change on members of `xs` only; `_new` untouched -/
def FX (xs : List Oid) (σ τ : Sess) : Prop := τ.new = σ.new ∧ ∀ o, o ∉ xs → flagsEq (getO τ o) (getO σ o)

theorem FX_of_FF {xs : List Oid} {σ τ : Sess} (h : FF σ τ) : FX xs σ τ := ⟨h.1, fun o _ => h.2 o⟩
theorem FX.refl (xs : List Oid) (σ : Sess) : FX xs σ σ := FX_of_FF (FF.refl σ)
theorem FX.trans {xs : List Oid} {σ τ ρ : Sess} (h1 : FX xs σ τ) (h2 : FX xs τ ρ) : FX xs σ ρ :=
  ⟨h2.1.trans h1.1, fun o ho => (h2.2 o ho).trans' (h1.2 o ho)⟩
theorem FX.mono {xs ys : List Oid} {σ τ : Sess} (h : FX xs σ τ) (hs : ∀ x ∈ xs, x ∈ ys) : FX ys σ τ :=
  ⟨h.1, fun o ho => h.2 o (fun hx => ho (hs o hx))⟩
theorem FX_setO (σ : Sess) (x : Oid) (f : Obj → Obj) : FX [x] σ (setO σ x f) :=
  ⟨rfl, fun o ho => by
    have : x ≠ o := fun e => ho (by simp [e])
    rw [getO_setO_ne _ _ _ _ this]; exact flagsEq.rfl' _⟩

theorem FX_registerKeyOne (σ : Sess) (x : Oid) : FX [x] σ (registerKeyOne σ x).1 := by
  unfold registerKeyOne
  simp only
  split
  · exact FX.refl _ _
  · rename_i ik _
    have h2 : ∀ τ : Sess, FX [x] σ τ → FX [x] σ (match (match imLookup τ ik with
          | some o' => if (o' == x) = true then (none : Option Oid) else some o'
          | none => none) with
        | none => ok (imReplace τ x)
        | some o' =>
          if ((getO (imReplace τ x) o').pk.isNone && (getO (imReplace τ x) o').expA) = true then
            if (!(getO (imReplace τ x) o').att) = true then fail (imReplace τ x) Err.detachedInst
            else
              if ({ (imReplace τ x) with sql := (imReplace τ x).sql + 1 } : Sess).db.contains ik = true then
                ok (setO { (imReplace τ x) with sql := (imReplace τ x).sql + 1 } o' fun ob => loadedObj ob ik)
              else fail { (imReplace τ x) with sql := (imReplace τ x).sql + 1 } Err.objectDeleted
          else ok (imReplace τ x)).1 := by
      intro τ hτ
      have hr : FX [x] σ (imReplace τ x) := hτ.trans (FX_of_FF (FF_imReplace τ x))
      repeat' split
      all_goals first
        | exact hr
        | exact hr.trans (FX_of_FF (FF_sql _ _))
        | exact hr.trans (FX_of_FF ((FF_sql _ _).trans (FF_loaded _ _ _)))
    apply h2
    split
    · exact FX_setO σ x _
    · split
      · exact FX.refl _ _
      · exact (FX_of_FF ((FF_imSafeDiscard σ x).trans (FF_updTxn _ _))).trans (FX_setO _ x _)

theorem FX_registerKeys : ∀ (os : List Oid) (σ : Sess), FX os σ (registerKeys σ os).1
  | [], σ => FX.refl _ _
  | x :: os, σ => by
    unfold registerKeys
    unfold R.bind
    have h1 : FX (x :: os) σ (registerKeyOne σ x).1 :=
      (FX_registerKeyOne σ x).mono (fun y hy => by simp at hy; simp [hy])
    split
    · exact h1
    · exact h1.trans ((FX_registerKeys os _).mono (fun y hy => List.mem_cons_of_mem _ hy))

theorem FF_registerAlteredOne (σ : Sess) (o : Oid) : FF σ (registerAlteredOne σ o) := by
  unfold registerAlteredOne
  split <;> exact FF_updTxn σ _

theorem FF_failNondet (c : Bool) (r : R) : FF r.1 (failNondet c r).1 := by
  unfold failNondet
  split
  · exact FF_markNondetIf _ _
  · exact FF.refl _

theorem registerFinish_spec (σ : Sess) (os : List Oid) :
    ∀ o ∈ (registerFinish σ os).new, o ∈ σ.new ∧ o ∉ os ∧ flagsEq (getO (registerFinish σ os) o) (getO σ o) := by
  have hff : FF σ (List.foldl registerAlteredOne (List.foldl (fun σ o => setO σ o commitAllObj) σ os) os) :=
    (FF_foldl (fun σ o => setO σ o commitAllObj) (fun σ a => FF_setO σ a _ (fun ob => ⟨rfl, rfl⟩)) os σ).trans
      (FF_foldl _ FF_registerAlteredOne _ _)
  unfold registerFinish
  simp only
  generalize (List.foldl registerAlteredOne (List.foldl (fun σ o => setO σ o commitAllObj) σ os) os) = τ at hff
  have hff2 : FF τ (List.foldl (fun σ o => emit σ Ev.p2s o) τ (List.filter (fun o => τ.new.contains o) os)) :=
    FF_foldl _ (fun σ a => FF_emit σ _ a) _ _
  intro o ho
  have hm := List.mem_filter.1 ho
  have hnew : o ∈ τ.new := hff2.1 ▸ hm.1
  refine ⟨hff.1 ▸ hnew, ?_, ?_⟩
  · intro hos
    have : o ∈ List.filter (fun o => τ.new.contains o) os := List.mem_filter.2 ⟨hos, by simpa using hnew⟩
    have h2 := hm.2
    simp [this] at h2
    rcases h2 with h2 | h2
    · exact h2 hos
    · exact h2 hnew
  · have : getO ({ (List.foldl (fun σ o => emit σ Ev.p2s o) τ (List.filter (fun o => τ.new.contains o) os)) with
        new := (List.foldl (fun σ o => emit σ Ev.p2s o) τ (List.filter (fun o => τ.new.contains o) os)).new.filter
          (fun o => !(List.filter (fun o => τ.new.contains o) os).contains o) } : Sess) o =
        getO (List.foldl (fun σ o => emit σ Ev.p2s o) τ (List.filter (fun o => τ.new.contains o) os)) o := rfl
    rw [this]
    exact (hff2.2 o).trans' (hff.2 o)

/-- `_register_persistent`, when it does not raise: what stays in `_new` is untouched -/
theorem G_registerPersistent (σ : Sess) (os : List Oid) (hok : (registerPersistent σ os).2 = none) :
    G σ (registerPersistent σ os).1 := by
  unfold registerPersistent at hok ⊢
  simp only at hok ⊢
  have hk : FX os σ (failNondet (decide (os.length > 1)) (registerKeys (markNondetIf (dupIdent σ os) σ) os)).1 :=
    ((FX_of_FF (FF_markNondetIf _ σ)).trans (FX_registerKeys os _)).trans (FX_of_FF (FF_failNondet _ _))
  generalize failNondet (decide (os.length > 1)) (registerKeys (markNondetIf (dupIdent σ os) σ) os) = r at hk hok ⊢
  unfold R.bind at hok ⊢
  split at hok
  · rename_i e he
    simp [he] at hok
  · rename_i he
    simp only [he, ok]
    intro o ho
    have := registerFinish_spec r.1 os o ho
    left
    exact ⟨hk.1 ▸ this.1, this.2.2.trans' (hk.2 o this.2.1)⟩

/-! ### the transaction stack stays non-empty through `flushExecute` -/

def TK (σ τ : Sess) : Prop := σ.txns ≠ [] → τ.txns ≠ []

theorem TK.refl (σ : Sess) : TK σ σ := id
theorem TK.trans {σ τ ρ : Sess} (h1 : TK σ τ) (h2 : TK τ ρ) : TK σ ρ := fun h => h2 (h1 h)
theorem TK_of_eq {σ τ : Sess} (h : τ.txns = σ.txns) : TK σ τ := fun hn => h ▸ hn
theorem TK_updTxn (σ : Sess) (f : Txn → Txn) : TK σ (updTxn σ f) := by
  unfold updTxn; intro h
  split
  · rename_i he; exact absurd he h
  · simp
theorem TK_setO (σ : Sess) (o : Oid) (f : Obj → Obj) : TK σ (setO σ o f) := TK_of_eq rfl
theorem TK_emit (σ : Sess) (e : Ev) (o : Oid) : TK σ (emit σ e o) := TK_of_eq rfl
theorem TK_imSafeDiscard (σ : Sess) (o : Oid) : TK σ (imSafeDiscard σ o) := by
  unfold imSafeDiscard; repeat' split
  all_goals exact TK_of_eq rfl
theorem TK_imReplace (σ : Sess) (o : Oid) : TK σ (imReplace σ o) := by
  unfold imReplace; repeat' split
  all_goals exact TK_of_eq rfl
theorem TK_markNondetIf (c : Bool) (σ : Sess) : TK σ (markNondetIf c σ) := by
  unfold markNondetIf; split <;> exact TK_of_eq rfl
theorem TK_failNondet (c : Bool) (r : R) : TK r.1 (failNondet c r).1 := by
  unfold failNondet; split
  · exact TK_markNondetIf _ _
  · exact TK.refl _

theorem TK_foldl {α : Type} (g : Sess → α → Sess) (hg : ∀ σ a, TK σ (g σ a)) :
    ∀ (l : List α) (σ : Sess), TK σ (l.foldl g σ) := by
  intro l
  induction l with
  | nil => intro σ; exact TK.refl σ
  | cons a t ih => intro σ; exact (hg σ a).trans (ih _)

theorem TK_bind {σ : Sess} {r : R} {f : Sess → R} (h : TK σ r.1) (hf : ∀ τ, TK τ (f τ).1) : TK σ (r.bind f).1 := by
  unfold R.bind
  split
  · exact h
  · exact h.trans (hf _)

theorem TK_removeNewlyDeletedOne (σ : Sess) (x : Oid) : TK σ (removeNewlyDeletedOne σ x) := by
  unfold removeNewlyDeletedOne
  simp only
  refine TK.trans ?_ (TK_emit _ _ _)
  refine TK.trans ?_ (TK_setO _ _ _)
  refine TK.trans ?_ (TK_of_eq (σ := imSafeDiscard (updTxn σ _) x) rfl)
  exact (TK_updTxn σ _).trans (TK_imSafeDiscard _ _)

theorem TK_removeNewlyDeleted (σ : Sess) (os : List Oid) : TK σ (removeNewlyDeleted σ os) :=
  TK_foldl _ TK_removeNewlyDeletedOne _ _

theorem TK_wasAlreadyDeleted (σ : Sess) (ex : Oid) : TK σ (wasAlreadyDeleted σ ex).1 := by
  unfold wasAlreadyDeleted
  simp only
  repeat' split
  all_goals first
    | exact TK.refl σ
    | exact TK_of_eq rfl
    | exact (TK_of_eq (τ := { σ with sql := σ.sql + 1 }) rfl).trans (TK_removeNewlyDeleted _ _)

theorem TK_organizeOne (st st' : OrgState) (o : Oid) (he : organizeOne st o = .ok st') : TK st.σ st'.σ := by
  unfold organizeOne at he
  simp only at he
  have hw : ∀ ex, TK st.σ (wasAlreadyDeleted st.σ ex).1 := fun ex => TK_wasAlreadyDeleted _ _
  repeat' split at he
  all_goals first
    | (cases he; done)
    | (injection he with he; subst he; first | exact TK.refl _ | exact hw _)

theorem TK_organize : ∀ (os : List Oid) (st : OrgState), TK st.σ (organize st os).1.σ
  | [], st => TK.refl _
  | o :: os, st => by
    unfold organize
    split
    · exact TK.refl _
    · rename_i st' he
      exact (TK_organizeOne _ _ _ he).trans (TK_organize os st')

theorem TK_flushDml (σ : Sess) (u i : List Oid) : TK σ (flushDml σ u i).1 := by
  unfold flushDml
  simp only
  repeat' split
  all_goals exact TK_of_eq rfl

theorem TK_deleteParam (σ : Sess) (o : Oid) : TK σ (deleteParam σ o).1 := by
  unfold deleteParam
  simp only
  repeat' split
  all_goals exact TK_of_eq rfl

theorem TK_deleteParams : ∀ (os : List Oid) (σ : Sess) (acc : List Nat), TK σ (deleteParams σ os acc).1
  | [], σ, acc => TK.refl σ
  | o :: os, σ, acc => by
    unfold deleteParams
    have := TK_deleteParam σ o
    split
    · rename_i heq; rw [heq] at this; exact this
    · rename_i heq; rw [heq] at this; exact this.trans (TK_deleteParams os _ _)

theorem TK_flushDeletes (σ : Sess) (ds : List Oid) : TK σ (flushDeletes σ ds).1 := by
  unfold flushDeletes
  have := TK_deleteParams ds σ []
  split
  · rename_i heq; rw [heq] at this; exact this
  · rename_i heq; rw [heq] at this
    simp only [ok]
    split
    · exact this
    · exact this.trans (TK_of_eq rfl)

theorem TK_registerKeyOne (σ : Sess) (x : Oid) : TK σ (registerKeyOne σ x).1 := by
  unfold registerKeyOne
  simp only
  split
  · exact TK.refl _
  · rename_i ik _
    have h2 : ∀ τ : Sess, TK σ τ → TK σ (match (match imLookup τ ik with
          | some o' => if (o' == x) = true then (none : Option Oid) else some o'
          | none => none) with
        | none => ok (imReplace τ x)
        | some o' =>
          if ((getO (imReplace τ x) o').pk.isNone && (getO (imReplace τ x) o').expA) = true then
            if (!(getO (imReplace τ x) o').att) = true then fail (imReplace τ x) Err.detachedInst
            else
              if ({ (imReplace τ x) with sql := (imReplace τ x).sql + 1 } : Sess).db.contains ik = true then
                ok (setO { (imReplace τ x) with sql := (imReplace τ x).sql + 1 } o' fun ob => loadedObj ob ik)
              else fail { (imReplace τ x) with sql := (imReplace τ x).sql + 1 } Err.objectDeleted
          else ok (imReplace τ x)).1 := by
      intro τ hτ
      have hr : TK σ (imReplace τ x) := hτ.trans (TK_imReplace τ x)
      repeat' split
      all_goals first
        | exact hr
        | exact hr.trans (TK_of_eq rfl)
    apply h2
    split
    · exact TK_setO σ x _
    · split
      · exact TK.refl _
      · exact ((TK_imSafeDiscard σ x).trans (TK_updTxn _ _)).trans (TK_setO _ x _)

theorem TK_registerKeys : ∀ (os : List Oid) (σ : Sess), TK σ (registerKeys σ os).1
  | [], σ => TK.refl _
  | x :: os, σ => by
    unfold registerKeys
    exact TK_bind (TK_registerKeyOne σ x) (fun τ => TK_registerKeys os τ)

theorem TK_registerAlteredOne (σ : Sess) (o : Oid) : TK σ (registerAlteredOne σ o) := by
  unfold registerAlteredOne
  split <;> exact TK_updTxn σ _

theorem TK_registerFinish (σ : Sess) (os : List Oid) : TK σ (registerFinish σ os) := by
  unfold registerFinish
  simp only
  refine TK.trans ?_ (TK_of_eq rfl)
  refine TK.trans ?_ (TK_foldl _ (fun σ a => TK_emit σ _ a) _ _)
  refine TK.trans ?_ (TK_foldl _ TK_registerAlteredOne _ _)
  exact TK_foldl _ (fun σ a => TK_setO σ a _) _ _

theorem TK_registerPersistent (σ : Sess) (os : List Oid) : TK σ (registerPersistent σ os).1 := by
  unfold registerPersistent
  simp only
  apply TK_bind
  · exact ((TK_markNondetIf _ σ).trans (TK_registerKeys os _)).trans (TK_failNondet _ _)
  · intro τ
    exact TK_registerFinish τ os

theorem TK_flushExecute (σ : Sess) (proc dels : List Oid) : TK σ (flushExecute σ proc dels).1 := by
  unfold flushExecute
  simp only
  have ho := TK_organize (sortBy (fun o => (getO σ o).ins) (proc.filter (fun o => (getO σ o).key.isNone)) ++
      sortBy (fun o => (getO σ o).key.getD 0) (proc.filter (fun o => (getO σ o).key.isSome)))
      { σ := σ, isdel := dels, listonly := [], upd := [], ins := [] }
  split
  · rename_i heq; rw [heq] at ho; exact ho
  · rename_i heq; rw [heq] at ho
    apply TK_bind
    · exact (ho.trans (TK_markNondetIf _ _)).trans (TK_flushDml _ _ _)
    · intro τ
      apply TK_bind
      · exact TK_flushDeletes _ _
      · intro τ2
        exact (TK_removeNewlyDeleted _ _).trans (TK_registerPersistent _ _)

/-! ### flush -/

theorem bind_ok {r : R} {f : Sess → R} (h : (r.bind f).2 = none) : r.2 = none ∧ (f r.1).2 = none := by
  unfold R.bind at h
  split at h
  · rename_i e he; rw [he] at h; cases h
  · rename_i he; exact ⟨he, h⟩

theorem bind_eq_of_ok {r : R} {f : Sess → R} (h : r.2 = none) : r.bind f = f r.1 := by
  unfold R.bind; rw [h]

/-- a flush that does not raise keeps "members of `_new` are pending" -/
theorem G_flushExecute_ok (σ : Sess) (proc dels : List Oid) (hok : (flushExecute σ proc dels).2 = none) :
    G σ (flushExecute σ proc dels).1 := by
  unfold flushExecute at hok ⊢
  simp only at hok ⊢
  have ho := FF_organize (sortBy (fun o => (getO σ o).ins) (proc.filter (fun o => (getO σ o).key.isNone)) ++
      sortBy (fun o => (getO σ o).key.getD 0) (proc.filter (fun o => (getO σ o).key.isSome)))
      { σ := σ, isdel := dels, listonly := [], upd := [], ins := [] }
  split at hok
  · rename_i heq; simp [fail] at hok
  · rename_i st heq
    rw [heq] at ho
    have h1 := bind_ok hok
    rw [bind_eq_of_ok h1.1] at hok ⊢
    have h2 := bind_ok hok
    rw [bind_eq_of_ok h2.1] at hok ⊢
    apply G.trans (τ := st.σ) (G_of_FF ho)
    apply G.trans (G_of_FF (FF_markNondetIf _ st.σ))
    apply G.trans (G_of_FF (FF_flushDml _ _ _))
    apply G.trans (G_of_FF (FF_flushDeletes _ _))
    apply G.trans (G_of_FF (FF_removeNewlyDeleted _ _))
    exact G_registerPersistent _ _ hok

theorem NP_restoreSnapshot (σ : Sess) (d : Bool) (hn : NP σ) : NP (restoreSnapshot σ d).1 := by
  by_cases h : σ.txns = []
  · unfold restoreSnapshot; rw [h]; exact hn
  · exact NP_of_new_nil (new_restoreSnapshot σ d h)

theorem new_flushFailed (σ : Sess) (h : σ.txns ≠ []) : (flushFailed σ).new = [] := by
  unfold flushFailed
  split
  · rename_i he; exact absurd he h
  · rename_i t ts he
    simp only
    have hne : ({ σ with db := if t.nested = true then t.snap else σ.committed,
                         txns := { t with active := false } :: ts } : Sess).txns ≠ [] := by simp
    have h1 := new_restoreSnapshot _ t.nested hne
    split
    · rename_i τ e heq
      rw [heq] at h1
      rw [new_markNondetIf]; exact h1
    · rename_i τ heq
      rw [heq] at h1
      have h2 : (if isClean τ = true then ok τ else restoreSnapshot τ t.nested).1.new = [] := by
        split
        · exact h1
        · by_cases hτ : τ.txns = []
          · unfold restoreSnapshot; rw [hτ]; exact h1
          · exact new_restoreSnapshot _ _ hτ
      split
      · rename_i τ2 e heq2
        rw [heq2] at h2
        rw [new_markNondetIf]; exact h2
      · rename_i τ2 heq2
        rw [heq2] at h2
        rw [new_updTxn]; exact h2

theorem requireActive_txns (σ : Sess) : (requireActive σ).1.txns ≠ [] := by
  unfold requireActive
  simp only
  have : (autobegin σ).txns ≠ [] := by
    unfold autobegin
    split
    · simp
    · rename_i h; simpa using h
  repeat' split
  all_goals exact this

theorem FF_requireActive (σ : Sess) : FF σ (requireActive σ).1 := by
  unfold requireActive
  simp only
  repeat' split
  all_goals exact FF_autobegin σ

theorem NP_flushCore (τ : Sess) (proc dels : List Oid) (hn : NP τ) (htx : τ.txns ≠ []) :
    NP (flushCore τ proc dels).1 := by
  unfold flushCore
  have hG := G_flushExecute_ok τ proc dels
  have hk := TK_flushExecute τ proc dels htx
  cases h : flushExecute τ proc dels with
  | mk ρ e =>
    rw [h] at hG hk
    cases e with
    | none => exact NP_of_G (hG rfl) hn
    | some e => exact NP_of_new_nil (new_flushFailed ρ hk)

/-- `Session.flush()` -/
theorem NP_flush (σ : Sess) (hn : NP σ) : NP (flush σ).1 := by
  unfold flush
  split
  · exact hn
  · simp only
    split
    · exact hn
    · split
      · exact hn
      · unfold R.bind
        split
        · exact NP_of_FF (FF_requireActive σ) hn
        · exact NP_flushCore _ _ _ (NP_of_FF (FF_requireActive σ) hn) (requireActive_txns σ)

theorem NP_autoflush (σ : Sess) (hn : NP σ) : NP (autoflush σ).1 := NP_flush σ hn

/-! ### transactions -/

theorem new_removeSnapshot (σ : Sess) : (removeSnapshot σ).new = σ.new := by
  unfold removeSnapshot
  split
  · rfl
  · split
    · simp only
      show (detachStates _ _ false).new = σ.new
      rw [new_detachStates]
      exact new_foldl _ (fun σ a => new_setO σ a _) _ _
    · split
      · split <;> rfl
      · rfl

theorem flushUntilClean_ok_new : ∀ (n : Nat) (σ : Sess), (flushUntilClean n σ).2 = none → (flushUntilClean n σ).1.new = []
  | 0, σ, h => by
    unfold flushUntilClean at h ⊢
    split
    · rename_i hc
      simp only [isClean, Bool.and_eq_true, List.isEmpty_iff] at hc
      exact hc.2
    · rename_i hc; simp [hc, fail] at h
  | n + 1, σ, h => by
    unfold flushUntilClean at h ⊢
    split
    · rename_i hc
      simp only [isClean, Bool.and_eq_true, List.isEmpty_iff] at hc
      exact hc.2
    · rename_i hc
      simp only [hc] at h
      have h1 := bind_ok h
      rw [bind_eq_of_ok h1.1] at h ⊢
      exact flushUntilClean_ok_new n _ h

theorem NP_flushUntilClean : ∀ (n : Nat) (σ : Sess), NP σ → NP (flushUntilClean n σ).1
  | 0, σ, h => by unfold flushUntilClean; split <;> exact h
  | n + 1, σ, h => by
    unfold flushUntilClean
    split
    · exact h
    · unfold R.bind
      split
      · exact NP_flush σ h
      · exact NP_flushUntilClean n _ (NP_flush σ h)

theorem NP_txnCommit : ∀ (n : Nat) (σ : Sess) (b : Bool), NP σ → NP (txnCommit n σ b).1
  | 0, σ, b, h => h
  | n + 1, σ, b, h => by
    unfold txnCommit
    split
    · exact h
    · split
      · exact h
      · cases hr : flushUntilClean 100 σ with
        | mk τ e =>
          cases e with
          | some e =>
            simp only [R.bind]
            have := NP_flushUntilClean 100 σ h
            rw [hr] at this; exact this
          | none =>
            simp only [R.bind]
            have hnil : τ.new = [] := by
              have := flushUntilClean_ok_new 100 σ (by rw [hr])
              rw [hr] at this; exact this
            have h1 : (removeSnapshot (match τ.txns with
                | t :: _ => if t.nested = true then τ else { τ with committed := τ.db }
                | [] => τ)).new = [] := by
              rw [new_removeSnapshot]
              split
              · split <;> exact hnil
              · exact hnil
            split
            · exact NP_txnCommit n _ _ (NP_of_new_nil h1)
            · exact NP_of_new_nil h1

theorem NP_bind {r : R} {f : Sess → R} (h : NP r.1) (hf : ∀ τ, NP τ → NP (f τ).1) : NP (r.bind f).1 := by
  unfold R.bind
  split
  · exact h
  · exact hf _ h

theorem NP_txnRollback : ∀ (n : Nat) (σ : Sess) (b : Bool), NP σ → NP (txnRollback n σ b).1
  | 0, σ, b, h => h
  | n + 1, σ, b, h => by
    unfold txnRollback
    split
    · exact h
    · simp only
      apply NP_bind
      · split
        · exact NP_restoreSnapshot _ _ (NP_of_FF (FF_db_txns σ _ _) h)
        · exact h
      · intro τ hτ
        apply NP_bind
        · split
          · exact hτ
          · exact NP_restoreSnapshot _ _ hτ
        · intro τ2 hτ2
          split
          · exact NP_txnRollback n _ _ (NP_of_FF (FF_txns _ _) hτ2)
          · exact NP_of_FF (FF_txns _ _) hτ2

theorem NP_commit (σ : Sess) (h : NP σ) : NP (commit σ).1 := by
  unfold commit
  exact NP_txnCommit _ _ _ (NP_of_FF (FF_autobegin σ) h)

theorem NP_rollback (σ : Sess) (h : NP σ) : NP (rollback σ).1 := NP_txnRollback _ _ _ h

theorem NP_beginNested (σ : Sess) (h : NP σ) : NP (beginNested σ).1 := by
  unfold beginNested
  simp only
  have ha := NP_of_FF (FF_autobegin σ) h
  split
  · exact ha
  · split
    · exact ha
    · unfold R.bind
      split
      · exact NP_flush _ ha
      · exact NP_of_FF (FF_txns _ _) (NP_flush _ ha)

theorem NP_nestedCommit (σ : Sess) (h : NP σ) : NP (nestedCommit σ).1 := by
  unfold nestedCommit
  split
  · exact h
  · exact NP_txnCommit _ _ _ h

theorem NP_nestedRollback (σ : Sess) (h : NP σ) : NP (nestedRollback σ).1 := by
  unfold nestedRollback
  split
  · exact h
  · exact NP_txnRollback _ _ _ h

theorem NP_close (σ : Sess) : NP (close σ) := by
  unfold close
  simp only
  split
  · exact NP_expungeAll σ
  · exact NP_of_FF (FF_txns_db _ _ _) (NP_expungeAll σ)

/-! ### loads, attribute set, merge, queries -/

theorem lt_of_att (σ : Sess) (o : Oid) (h : (getO σ o).att = true) : o < σ.objs.length := by
  by_cases hl : o < σ.objs.length
  · exact hl
  · have : getO σ o = {} := by
      simp only [getO, List.getD_eq_getElem?_getD]
      rw [List.getElem?_eq_none (Nat.le_of_not_lt hl)]; rfl
    rw [this] at h; cases h

theorem getO_append_lt (σ : Sess) (extra : List Obj) (o : Oid) (h : o < σ.objs.length) (τ : Sess)
    (hτ : τ.objs = σ.objs ++ extra) : getO τ o = getO σ o := by
  simp only [getO, hτ, List.getD_eq_getElem?_getD]
  rw [List.getElem?_append_left h]

/-- appending instances and leaving `_new` alone -/
theorem NP_append (σ τ : Sess) (extra : List Obj) (hobjs : τ.objs = σ.objs ++ extra) (hnew : τ.new = σ.new)
    (hn : NP σ) : NP τ := by
  intro o ho
  rw [hnew] at ho
  have := hn o ho
  rw [getO_append_lt σ extra o (lt_of_att σ o this.2) τ hobjs]
  exact this

theorem NP_loadNew (σ : Sess) (k : Nat) (hn : NP σ) : NP (loadNew σ k).1 := by
  unfold loadNew
  exact NP_append σ _ [{ key := some k, att := true, pk := some k }] rfl rfl hn

theorem NP_newObj (σ : Sess) (k : Nat) (hn : NP σ) : NP (newObj σ k) := by
  unfold newObj
  exact NP_append σ _ [{ pk := some k, cpk := some .noValue, modified := true }] rfl rfl hn

theorem NP_sqlPrelude (σ : Sess) (af : Bool) (hn : NP σ) : NP (sqlPrelude σ af).1 := by
  unfold sqlPrelude
  apply NP_bind (NP_of_FF (FF_requireActive σ) hn)
  intro τ hτ
  apply NP_bind
  · split
    · exact NP_autoflush τ hτ
    · exact hτ
  · intro τ2 hτ2
    exact NP_of_FF (FF_sql _ _) hτ2

theorem NP_loadRow (σ : Sess) (k : Nat) (hn : NP σ) : NP (loadRow σ k).1 := by
  unfold loadRow
  split
  · split
    · simp only
      split
      · exact NP_of_FF (FF_loaded _ _ _) hn
      · exact hn
    · exact NP_loadNew σ k hn
  · exact hn

theorem NP_loadByPk (σ : Sess) (k : Nat) (af : Bool) (hn : NP σ) : NP (loadByPk σ k af).1.1 := by
  unfold loadByPk
  have := NP_sqlPrelude σ af hn
  split
  · rename_i heq; rw [heq] at this; exact this
  · rename_i heq; rw [heq] at this
    exact NP_loadRow _ _ this

theorem NP_loadExpired (σ : Sess) (o : Oid) (hn : NP σ) : NP (loadExpired σ o).1.1 := by
  unfold loadExpired
  simp only
  split
  · exact hn
  · have := NP_sqlPrelude σ true hn
    split
    · rename_i heq; rw [heq] at this; exact this
    · rename_i heq; rw [heq] at this
      split
      · exact this
      · split
        · exact NP_of_FF (FF_loaded _ _ _) this
        · exact this

theorem NP_loadOld (σ : Sess) (o : Oid) (af : Bool) (hn : NP σ) : NP (loadOld σ o af).1.1 := by
  unfold loadOld
  simp only
  split
  · exact hn
  · split
    · split
      · exact hn
      · split
        · exact hn
        · have := NP_sqlPrelude σ af hn
          split
          · rename_i heq; rw [heq] at this; exact this
          · rename_i heq; rw [heq] at this
            split
            · exact this
            · split
              · exact NP_of_FF (FF_loaded _ _ _) this
              · exact this
    · exact hn

theorem FF_applySet (σ : Sess) (o : Oid) (v : Nat) (old : Old) : FF σ (applySet σ o v old) := by
  unfold applySet
  simp only
  refine FF.trans ?_ (FF_setO _ _ _ (fun ob => ⟨rfl, rfl⟩))
  split
  · split
    · refine FF.trans ?_ (FF_autobegin _)
      refine FF.trans ?_ (FF_setO _ _ _ (fun ob => ⟨rfl, rfl⟩))
      exact FF_setO _ _ _ (fun ob => ⟨rfl, rfl⟩)
    · refine FF.trans ?_ (FF_setO _ _ _ (fun ob => ⟨rfl, rfl⟩))
      exact FF_setO _ _ _ (fun ob => ⟨rfl, rfl⟩)
  · exact FF_setO _ _ _ (fun ob => ⟨rfl, rfl⟩)

theorem NP_setPk (σ : Sess) (o : Oid) (v : Nat) (af : Bool) (hn : NP σ) : NP (setPk σ o v af).1 := by
  unfold setPk
  have := NP_loadOld σ o af hn
  split
  · rename_i heq; rw [heq] at this; exact this
  · rename_i heq; rw [heq] at this; exact NP_of_FF (FF_applySet _ _ _ _) this

theorem NP_expire (σ : Sess) (o : Oid) (hn : NP σ) : NP (expire σ o).1 := by
  unfold expire
  split
  · exact hn
  · exact NP_of_FF (FF_setO _ _ _ (fun ob => ⟨rfl, rfl⟩)) hn

theorem NP_get (σ : Sess) (k : Nat) (hn : NP σ) : NP (Sess.get σ k).1.1 := by
  unfold Sess.get
  split
  · split
    · rename_i o _ _
      have := NP_loadExpired σ o hn
      split
      · rename_i heq; rw [heq] at this
        exact NP_loadByPk _ _ _ (NP_of_FF (FF_removeNewlyDeleted _ _) this)
      · rename_i heq; rw [heq] at this; exact this
      · rename_i heq; rw [heq] at this; exact this
      · rename_i heq; rw [heq] at this
        exact NP_loadByPk _ _ _ (NP_of_FF (FF_removeNewlyDeleted _ _) this)
    · exact hn
  · exact NP_loadByPk _ _ _ hn

theorem NP_mergeFind (σ : Sess) (k : Nat) (hn : NP σ) : NP (mergeFind σ k).1.1 := by
  unfold mergeFind
  split
  · exact hn
  · exact NP_loadByPk _ _ _ hn

theorem NP_mergeTarget (σ : Sess) (mo : Option Oid) (hn : NP σ) : NP (mergeTarget σ mo).1.1 := by
  unfold mergeTarget
  split
  · exact hn
  · apply NP_saveImpl
    · simp
    · exact NP_append σ _ [{}] rfl rfl hn

theorem NP_mergeCopy (σ : Sess) (src m k : Nat) (hn : NP σ) : NP (mergeCopy σ src m k).1 := by
  unfold mergeCopy
  simp only
  apply NP_bind
  · split
    · exact NP_setPk _ _ _ _ hn
    · split
      · exact NP_of_FF (FF_setO _ _ _ (fun ob => ⟨rfl, rfl⟩)) hn
      · exact hn
  · intro τ hτ
    split
    · exact NP_setPk _ _ _ _ hτ
    · exact hτ

theorem NP_merge (σ : Sess) (src : Oid) (hn : NP σ) : NP (merge σ src).1.1 := by
  unfold merge
  have h1 := NP_autoflush σ hn
  split
  · rename_i heq; rw [heq] at h1; exact h1
  · rename_i τ heq; rw [heq] at h1
    simp only
    split
    · exact h1
    · rename_i k _
      have h2 := NP_mergeFind τ k h1
      split
      · rename_i heq2; rw [heq2] at h2; exact h2
      · rename_i τ2 mo heq2; rw [heq2] at h2
        have h3 := NP_mergeTarget τ2 mo h2
        split
        · rename_i heq3; rw [heq3] at h3; exact h3
        · rename_i τ3 m heq3; rw [heq3] at h3
          split
          · exact h3
          · have h4 := NP_mergeCopy τ3 src m k h3
            split
            · rename_i heq4; rw [heq4] at h4; exact h4
            · rename_i heq4; rw [heq4] at h4; exact h4

/-- changing only an instance that is not a member of `_new` -/
theorem NP_setO_notin (σ : Sess) (x : Oid) (f : Obj → Obj) (hx : x ∉ σ.new) (hn : NP σ) : NP (setO σ x f) := by
  intro o ho
  have hne : x ≠ o := fun e => hx (e ▸ ho)
  rw [getO_setO_ne _ _ _ _ hne]
  exact hn o ho

theorem NP_makeTransient (σ : Sess) (o : Oid) (k : Nat) (hn : NP σ) : NP (makeTransient σ o k) := by
  unfold makeTransient
  simp only
  apply NP_setPk
  by_cases hatt : (getO σ o).att = true
  · simp only [hatt, if_true]
    have hG := G_expungeStates σ [o] false
    have hnp := NP_of_G hG hn
    apply NP_setO_notin _ _ _ _ hnp
    unfold expungeStates
    rw [new_detachStates, new_foldl_expungeOne]
    intro hm
    have := (List.mem_filter.1 hm).2
    simp at this
  · simp only [hatt, Bool.false_eq_true, if_false]
    apply NP_setO_notin _ _ _ _ hn
    intro hm
    exact hatt (hn o hm).2

theorem NP_makeTransientToDetached (σ : Sess) (o : Oid) (hn : NP σ) : NP (makeTransientToDetached σ o).1 := by
  unfold makeTransientToDetached
  simp only
  split
  · exact hn
  · rename_i hc
    split
    · exact hn
    · apply NP_setO_notin _ _ _ _ hn
      intro hm
      have := (hn o hm).2
      simp [this] at hc

theorem NP_instanceForRow (pe : Bool) (acc : Sess × List Oid) (k : Nat) (h : NP acc.1) :
    NP (instanceForRow pe acc k).1 := by
  unfold instanceForRow
  obtain ⟨σ, out⟩ := acc
  simp only
  split
  · simp only
    split
    · exact NP_of_FF (FF_loaded _ _ _) h
    · split
      · exact NP_of_FF (FF_loaded _ _ _) h
      · exact h
  · exact NP_loadNew _ _ h

theorem NP_foldl_pair {α β : Type} (g : Sess × β → α → Sess × β) (hg : ∀ acc a, NP acc.1 → NP (g acc a).1) :
    ∀ (l : List α) (acc : Sess × β), NP acc.1 → NP (l.foldl g acc).1 := by
  intro l
  induction l with
  | nil => intro acc h; exact h
  | cons a t ih => intro acc h; exact ih _ (hg _ _ h)

theorem NP_queryAll (σ : Sess) (pe : Bool) (hn : NP σ) : NP (queryAll σ pe).1.1 := by
  unfold queryAll
  have := NP_sqlPrelude σ true hn
  split
  · rename_i heq; rw [heq] at this; exact this
  · rename_i heq; rw [heq] at this
    simp only
    exact NP_foldl_pair _ (NP_instanceForRow pe) _ _ this

theorem NP_refresh (σ : Sess) (o : Oid) (hn : NP σ) : NP (refresh σ o).1 := by
  unfold refresh
  split
  · exact hn
  · simp only
    have h0 : NP (setO σ o expireObj) := NP_of_FF (FF_setO σ o expireObj (fun ob => ⟨rfl, rfl⟩)) hn
    apply NP_bind (NP_autoflush _ h0)
    intro τ hτ
    apply NP_bind (NP_of_FF (FF_requireActive τ) hτ)
    intro τ2 hτ2
    split
    · exact NP_of_FF (FF_sql _ _) hτ2
    · split
      · exact NP_of_FF ((FF_sql _ _).trans (FF_loaded _ _ _)) hτ2
      · exact NP_of_FF (FF_sql _ _) hτ2

/-- every harness operation on existing instances keeps "members of `_new` are pending" -/
theorem NP_step (σ : Sess) (op : Op) (hv : opValid σ op = true) (h : NP σ) : NP (step σ op).1.1 := by
  cases op with
  | new k => exact NP_newObj _ _ h
  | add o =>
    have : o < σ.objs.length := by simpa [opValid] using hv
    exact NP_add _ _ this h
  | delete o => exact NP_delete _ _ h
  | expunge o => exact NP_expunge _ _ h
  | expire o => exact NP_expire _ _ h
  | mt o k => exact NP_makeTransient _ _ _ h
  | mtd o => exact NP_makeTransientToDetached _ _ h
  | setpk o k => exact NP_setPk _ _ _ _ h
  | merge o => exact NP_merge _ _ h
  | get k => exact NP_get _ _ h
  | flush => exact NP_flush _ h
  | commit => exact NP_commit _ h
  | rollback => exact NP_rollback _ h
  | nbegin => exact NP_beginNested _ h
  | ncommit => exact NP_nestedCommit _ h
  | nrollback => exact NP_nestedRollback _ h
  | close => exact NP_close _
  | expungeAll => exact NP_expungeAll _
  | query pe => exact NP_queryAll _ _ h
  | refresh o => exact NP_refresh _ _ h

end SaVerif.Sess
