import SaVerif.Lemmas.PySlice
/-! `del l[slice]`: what is deleted is exactly the items of `l[slice]` (a fact about the builtin
list model, needed for the event accounting of the instrumented `__delitem__(slice)`). -/
namespace SaVerif.PySeq

theorem zipIdx_snd_ge {l : List Item} {k : Nat} {p : Item × Nat} (h : p ∈ l.zipIdx k) : k ≤ p.2 := by
  obtain ⟨a, i⟩ := p
  exact (List.mem_zipIdx h).1

/-- position `k + i` occurs exactly once in `l.zipIdx k`, carrying `l[i]` -/
theorem filter_zipIdx_eq (l : List Item) : ∀ (k i : Nat) (h : i < l.length),
    (l.zipIdx k).filter (fun p => p.2 == k + i) = [(l[i], k + i)] := by
  induction l with
  | nil => intro k i h; simp at h
  | cons a as ih =>
    intro k i h
    rw [List.zipIdx_cons, List.filter_cons]
    cases i with
    | zero =>
      simp only [Nat.add_zero, beq_self_eq_true, if_true, List.getElem_cons_zero]
      congr 1
      rw [List.filter_eq_nil_iff]
      intro p hp
      have := zipIdx_snd_ge hp
      simp only [beq_iff_eq]
      omega
    | succ j =>
      have hne : ((a, k).2 == k + (j + 1)) = false := by
        simp only [beq_eq_false_iff_ne, ne_eq]; omega
      rw [hne]
      simp only [Bool.false_eq_true, if_false]
      have hj : j < as.length := by simpa using h
      have := ih (k + 1) j hj
      have e : k + 1 + j = k + (j + 1) := by omega
      rw [e] at this
      rw [this]
      simp

/-- removing one more (valid, new) position removes exactly the item there -/
theorem deletePositions_cons (l : List Item) (S : List Int) (i : Nat) (hi : i < l.length)
    (hn : (i : Int) ∉ S) :
    (deletePositions l S).Perm (deletePositions l ((i : Int) :: S) ++ [l[i]]) := by
  unfold deletePositions
  let Z := l.zipIdx
  let q : Item × Nat → Bool := fun p => !S.contains (p.2 : Int)
  let r' : Item × Nat → Bool := fun p => !(p.2 == i)
  have h1 : ((Z.filter q).filter r' ++ (Z.filter q).filter (fun x => !r' x)).Perm (Z.filter q) :=
    List.filter_append_perm r' (Z.filter q)
  have h2 : (Z.filter q).filter r' = Z.filter (fun p => !((i : Int) :: S).contains (p.2 : Int)) := by
    rw [List.filter_filter]
    apply List.filter_congr
    intro p _
    simp only [r', q, List.contains_cons]
    by_cases hp : p.2 = i
    · have e1 : (p.2 == i) = true := by simpa using hp
      have e2 : ((p.2 : Int) == (i : Int)) = true := by simp [hp]
      rw [e1, e2]; rfl
    · have e1 : (p.2 == i) = false := by simpa using hp
      have e2 : ((p.2 : Int) == (i : Int)) = false := by
        simp only [beq_eq_false_iff_ne, ne_eq]; omega
      rw [e1, e2]; rfl
  have h3 : (Z.filter q).filter (fun x => !r' x) = [(l[i], i)] := by
    rw [List.filter_filter]
    have : Z.filter (fun a => (!r' a) && q a) = (Z.filter (fun p => p.2 == 0 + i)).filter q := by
      rw [List.filter_filter]
      apply List.filter_congr
      intro p _
      simp only [r', Bool.not_not, Nat.zero_add]
      exact Bool.and_comm _ _
    rw [this, filter_zipIdx_eq l 0 i hi]
    simp only [Nat.zero_add, List.filter_cons, List.filter_nil]
    have : q (l[i], i) = true := by
      simp only [q, Bool.not_eq_true', List.contains_eq_mem, decide_eq_false_iff_not]
      exact hn
    rw [this]; rfl
  rw [h2, h3] at h1
  have h4 := h1.symm.map Prod.fst
  rw [List.map_append] at h4
  exact h4

/-- `l` = what `del l[idx]` keeps + the items at `idx`, as multisets (distinct valid positions) -/
theorem deletePositions_perm (l : List Item) : ∀ (idx : List Int), idx.Nodup →
    (∀ j ∈ idx, 0 ≤ j ∧ j < l.length) →
    l.Perm (deletePositions l idx ++ idx.filterMap (getAt l)) := by
  intro idx
  induction idx with
  | nil =>
    intro _ _
    unfold deletePositions
    have hf : l.zipIdx.filter (fun p => !([] : List Int).contains (p.2 : Int)) = l.zipIdx :=
      List.filter_eq_self.2 (by intro p _; rfl)
    rw [hf]
    simp only [List.filterMap_nil, List.append_nil]
    have hm : List.map (fun x => x.1) l.zipIdx = l := List.zipIdx_map_fst 0 l
    rw [hm]
  | cons j rest ih =>
    intro hn hv
    rw [List.nodup_cons] at hn
    obtain ⟨h0, h1⟩ := hv j (by simp)
    have hi : j.toNat < l.length := (Int.toNat_lt h0).2 h1
    have hj : ((j.toNat : Nat) : Int) = j := Int.toNat_of_nonneg h0
    have hget : getAt l j = some l[j.toNat] := by
      unfold getAt
      have : ¬ j < 0 := by omega
      rw [if_neg this]
      exact List.getElem?_eq_getElem hi
    have ihp := ih hn.2 (fun x hx => hv x (by simp [hx]))
    have hstep := deletePositions_cons l rest j.toNat hi (by rw [hj]; exact hn.1)
    rw [hj] at hstep
    rw [List.filterMap_cons, hget]
    simp only
    -- l ~ D(rest) ++ P(rest) ~ (D(j::rest) ++ [x]) ++ P(rest) ~ D(j::rest) ++ x :: P(rest)
    refine ihp.trans ?_
    refine (hstep.append_right _).trans ?_
    simp

theorem rangeList_nodup (start stop step : Int) (hs : step ≠ 0) :
    (rangeList start stop step).Nodup := by
  unfold rangeList List.Nodup
  rw [List.pairwise_map]
  have := List.nodup_range (n := rangeLen start stop step)
  unfold List.Nodup at this
  refine this.imp ?_
  intro a b hab h
  apply hab
  have h' : (a : Int) * step = (b : Int) * step := by omega
  have := Int.eq_of_mul_eq_mul_right hs h'
  omega

/-- the instrumented `del l[slice]`: events account exactly for the deleted items -/
theorem iDelSlice_accounts (l : List Item) (s : Slice) :
    Accounts l (iDelSlice l s).events (iDelSlice l s).items := by
  unfold iDelSlice pGetSlice pDelSlice
  cases hs : sliceIndices l.length s with
  | none => exact acc_refl l
  | some t =>
    obtain ⟨start, stop, step⟩ := t
    simp only
    unfold Accounts
    rw [apps_map_rem, rems_map_rem, List.append_nil]
    exact deletePositions_perm l _ (rangeList_nodup start stop step (sliceIndices_bounds hs).1)
      (rangeList_valid hs)

end SaVerif.PySeq
