import SaVerif.Model.Sess
/-! Helper lemmas about M-ORM/Sess (core Lean only). -/
namespace SaVerif.Sess

@[simp] theorem getO_setO_same (σ : Sess) (o : Oid) (f : Obj → Obj) (h : o < σ.objs.length) :
    getO (setO σ o f) o = f (getO σ o) := by
  simp [getO, setO, List.getD_eq_getElem?_getD, List.getElem?_modify, h]

@[simp] theorem getO_setO_ne (σ : Sess) (o o' : Oid) (f : Obj → Obj) (h : o ≠ o') :
    getO (setO σ o f) o' = getO σ o' := by
  simp [getO, setO, List.getD_eq_getElem?_getD, List.getElem?_modify, h]

@[simp] theorem setO_objs_length (σ : Sess) (o : Oid) (f : Obj → Obj) :
    (setO σ o f).objs.length = σ.objs.length := by simp [setO]

@[simp] theorem getO_emit (σ : Sess) (e : Ev) (o o' : Oid) : getO (emit σ e o) o' = getO σ o' := rfl
@[simp] theorem emit_log (σ : Sess) (e : Ev) (o : Oid) : (emit σ e o).log = σ.log ++ [(e, o)] := rfl
@[simp] theorem setO_log (σ : Sess) (o : Oid) (f : Obj → Obj) : (setO σ o f).log = σ.log := rfl
@[simp] theorem emit_objs (σ : Sess) (e : Ev) (o : Oid) : (emit σ e o).objs = σ.objs := rfl

end SaVerif.Sess
