import SaVerif.Lemmas.PoolFaultP
/-! "No stale hand-out": what `get_connection` / the checkout loop guarantee about the
record they deliver.  Core Lean only. -/
namespace SaVerif.PoolFault

/-- record `r` carries connection `cn` and none of the staleness tests of
    `get_connection` fires for it -/
def Good (st : St) (r cn : Nat) : Prop :=
  connOf st.recs r = some cn ∧ stale st (getRec st r) = false

theorem Good.of_eq {st st' : St} {r cn : Nat} (h : Good st r cn) (h1 : getRec st' r = getRec st r)
    (h2 : st'.invTime = st.invTime) : Good st' r cn := by
  unfold Good at *
  have : connOf st'.recs r = connOf st.recs r := by
    show (getRec st' r).conn = (getRec st r).conn
    rw [h1]
  rw [this, h1]
  refine ⟨h.1, ?_⟩
  have := h.2
  simp only [stale, h2] at this ⊢
  exact this

theorem getRec_setRec_self (st : St) (r : Nat) (x : Rec) (h : r < st.recs.length) :
    getRec (setRec st r x) r = x := by
  simp [getRec, setRec, h]

theorem connect_good {st : St} {r : Nat} (h : GR st) (hr : r < st.recs.length)
    (hok : (connect st r).2 = true) : ∃ cn, Good (connect st r).1 r cn := by
  unfold connect at hok ⊢
  split
  · rename_i hf; simp [hf] at hok
  · have hr1 : r < (dropFault (connectPre st r)).recs.length := by simp [dropFault, hr]
    refine ⟨(dropFault (connectPre st r)).conns.length, ?_, ?_⟩
    · simp [connectOk, setRec, connOf_set, hr1]
    · have hx : getRec (connectOk (dropFault (connectPre st r)) r) r =
          { getRec (dropFault (connectPre st r)) r with
              conn := some (dropFault (connectPre st r)).conns.length, fresh := true } := by
        unfold connectOk
        rw [getRec_setRec_self _ _ _ (by simpa using hr1)]
      have hy : getRec (dropFault (connectPre st r)) r =
          { getRec st r with conn := none, start := st.clock } := by
        show getRec (connectPre st r) r = _
        unfold connectPre
        rw [getRec_setRec_self _ _ _ (by simpa [tickSt] using hr)]
      rw [hx, hy]
      have ht := h.t.getRec r
      have hi := h.t.inv
      simp [stale, connectOk, setRec, dropFault, connectPre, tickSt]
      omega

theorem closeRec_GR' {st : St} (r : Nat) (h : GR st) : GR (closeRec st r) := closeRec_GR r h

theorem getConnection_good {c : Cfg} {st : St} {r : Nat} (h : GR st) (hr : r < st.recs.length)
    (hok : (getConnection c st r).2 = true) : ∃ cn, Good (getConnection c st r).1 r cn := by
  cases hcn : (getRec st r).conn with
  | none =>
    simp only [getConnection, hcn] at hok ⊢
    exact connect_good h hr hok
  | some cn =>
    simp only [getConnection, hcn] at hok ⊢
    by_cases h1 : 0 ≤ c.recycle
    · rw [if_pos h1] at hok ⊢
      by_cases h2 : c.recycle < (st.clock : Int) - (getRec st r).start ∨ stale st (getRec st r) = true
      · rw [if_pos h2] at hok ⊢
        exact connect_good (closeRec_GR r h.tick) (by rw [closeRec_length]; exact hr) hok
      · rw [if_neg h2]
        refine ⟨cn, hcn, ?_⟩
        have : ¬ (stale st (getRec st r) = true) := fun e => h2 (Or.inr e)
        simp only [Bool.not_eq_true] at this
        exact this
    · rw [if_neg h1] at hok ⊢
      by_cases h2 : stale st (getRec st r) = true
      · rw [if_pos h2] at hok ⊢
        exact connect_good (closeRec_GR r h) (by rw [closeRec_length]; exact hr) hok
      · rw [if_neg h2]
        refine ⟨cn, hcn, ?_⟩
        simp only [Bool.not_eq_true] at h2
        exact h2

theorem good_setFresh {st : St} {r cn : Nat} (h : Good st r cn) (hr : r < st.recs.length) :
    Good (setRec st r { getRec st r with fresh := false }) r cn := by
  unfold Good at *
  rw [getRec_setRec_self _ _ _ hr]
  refine ⟨?_, h.2⟩
  simp only [setRec, connOf_set]
  simp [hr]
  exact h.1

theorem good_pingSt {c : Cfg} {st : St} {r cn : Nat} (b : Bool) (h : Good st r cn) :
    Good (pingSt c st b) r cn := by
  unfold pingSt; split
  · exact h.of_eq rfl rfl
  · exact h

theorem good_evSt {c : Cfg} {st : St} {r cn : Nat} (n : Nat) (h : Good st r cn) :
    Good (evSt c st n) r cn := by
  unfold evSt; split
  · exact h
  · split
    · exact h.of_eq rfl rfl
    · exact h

theorem good_markInUse {st : St} {r cn : Nat} (h : Good st r cn) (hr : r < st.recs.length) :
    Good (markInUse st r) r cn := by
  unfold Good markInUse at *
  rw [getRec_setRec_self _ _ _ hr]
  refine ⟨?_, h.2⟩
  simp only [setRec, connOf_set]
  simp [hr]
  exact h.1

/-- the loop delivers `.ok conn` only for a record that passes the staleness tests -/
theorem checkoutLoop_good (c : Cfg) (r : Nat) :
    ∀ (n : Nat) (st : St), GR st → r < st.recs.length → (∃ cn, Good st r cn) →
      ∀ conn, (checkoutLoop c r n st).2 = LoopRes.ok conn →
        ∃ cn, conn = some cn ∧ Good (checkoutLoop c r n st).1 r cn := by
  intro n
  induction n with
  | zero => intro st _ _ _ conn h; simp [checkoutLoop] at h
  | succ n ih =>
    intro st hg hr hgood conn hres
    obtain ⟨cn0, hg0⟩ := hgood
    have g1 : GR (pingSt c (setRec st r { getRec st r with fresh := false }) (getRec st r).fresh) :=
      pingSt_GR _ (hg.setField r _ rfl rfl rfl)
    have gd1 : Good (pingSt c (setRec st r { getRec st r with fresh := false }) (getRec st r).fresh) r cn0 :=
      good_pingSt _ (good_setFresh hg0 hr)
    have hr1 : r < (pingSt c (setRec st r { getRec st r with fresh := false }) (getRec st r).fresh).recs.length := by
      simp [hr]
    simp only [checkoutLoop] at hres ⊢
    generalize pingSt c (setRec st r { getRec st r with fresh := false }) (getRec st r).fresh = st1 at *
    generalize pingRes c (setRec st r { getRec st r with fresh := false }) (getRec st r).fresh = ping at *
    by_cases hp : ping = 2
    · rw [if_pos hp] at hres; cases hres
    · rw [if_neg hp] at hres ⊢
      have g2 := evSt_GR (c := c) ping g1
      have gd2 := good_evSt (c := c) ping gd1
      have hr2 : r < (evSt c st1 ping).recs.length := by simp [hr1]
      generalize evSt c st1 ping = st2 at *
      generalize evRes c st1 ping = ev at *
      by_cases he : ev = 0
      · rw [if_pos he] at hres ⊢
        cases hres
        exact ⟨cn0, gd2.1, gd2⟩
      · rw [if_neg he] at hres ⊢
        by_cases he3 : ev = 3
        · rw [if_pos he3] at hres; cases hres
        · rw [if_neg he3] at hres ⊢
          have g3 := afterDisconnect_GR r ev g2
          have hr3 : r < (afterDisconnect st2 r ev).recs.length := by simp [hr2]
          by_cases hok : (getConnection c (afterDisconnect st2 r ev) r).2 = true
          · rw [if_pos hok] at hres ⊢
            exact ih _ (getConnection_GR r g3 hr3) (by simp [hr2]) (getConnection_good g3 hr3 hok) conn hres
          · rw [if_neg hok] at hres; cases hres

theorem checkoutFairy_good {c : Cfg} {st : St} {r : Nat} (hg : GR st) (hr : r < st.recs.length)
    (hgood : ∃ cn, Good st r cn) (conn : Option Nat) (hres : (checkoutFairy c st r).2 = LoopRes.ok conn) :
    ∃ cn, conn = some cn ∧ Good (checkoutFairy c st r).1 r cn := by
  obtain ⟨cn0, hg0⟩ := hgood
  have gm := good_markInUse hg0 hr
  unfold checkoutFairy at hres ⊢
  split
  · rename_i hc
    rw [if_pos hc] at hres
    cases hres
    exact ⟨cn0, gm.1, gm⟩
  · rename_i hc
    rw [if_neg hc] at hres
    exact checkoutLoop_good c r 2 _ (markInUse_GR r hg) (by simp [hr]) ⟨cn0, gm⟩ conn hres

/-- **what a successful checkout hands out** -/
theorem checkout_ok_spec {c : Cfg} {st : St} {h r cn : Nat} (hg : GR st) (hp : PInv c none st)
    (hco : (checkout c st).2 = CoRes.ok h r cn) :
    Good (checkout c st).1 r cn ∧
    (checkout c st).1.fairies[h]? = some (some { rid := r, conn := some cn }) := by
  have g := doGet_GR (c := c) hg
  unfold checkout at hco ⊢
  split
  · rename_i he; simp [he] at hco
  · rename_i he; simp [he] at hco
  · rename_i r' he
    simp only [he] at hco
    have hv := doGet_valid hp.qv he
    have g2 := getConnection_GR (c := c) r' g hv
    split
    · rename_i hok
      rw [if_pos hok] at hco
      have hgood := getConnection_good g hv hok
      have hv2 : r' < (getConnection c (doGet c st).1 r').1.recs.length := by simp [hv]
      generalize hst3 : getConnection c (doGet c st).1 r' = gc at *
      cases hres : (checkoutFairy c gc.1 r').2 with
      | ok conn =>
        obtain ⟨cn', hcn', hgd⟩ := checkoutFairy_good g2 hv2 hgood conn hres
        subst hcn'
        rw [hres] at hco
        simp only [finishCheckout] at hco ⊢
        cases hco
        refine ⟨hgd.of_eq rfl rfl, ?_⟩
        simp [addFairy]
      | connectError => rw [hres] at hco; simp [finishCheckout] at hco
      | checkoutError => rw [hres] at hco; simp [finishCheckout] at hco
      | exhausted => rw [hres] at hco; simp [finishCheckout] at hco
    · rename_i hok
      rw [if_neg hok] at hco
      cases hco

end SaVerif.PoolFault
