import SaVerif.Lemmas.TxnPool
/-!
How the pair (database/pool state, "a DBAPI connection is held") can evolve inside ONE
Connection API call: only through four kinds of basic moves.  Any invariant of that pair
that survives the basic moves survives every call (used for the pool-generation
invariants of C27).
-/
namespace SaVerif.Txn

/-- only rows / savepoints / armed faults / isolation flag of the held connection change -/
structure DataOnly (db db' : DB) : Prop where
  idle : db'.idle = db.idle
  clock : db'.clock = db.clock
  invalTime : db'.invalTime = db.invalTime
  nextRid : db'.nextRid = db.nextRid
  rid : db'.raw.rid = db.raw.rid
  born : db'.raw.born = db.raw.born

theorem DataOnly.refl (db : DB) : DataOnly db db := ⟨rfl, rfl, rfl, rfl, rfl, rfl⟩
theorem DataOnly.trans {a b c : DB} (h1 : DataOnly a b) (h2 : DataOnly b c) : DataOnly a c :=
  ⟨h2.idle.trans h1.idle, h2.clock.trans h1.clock, h2.invalTime.trans h1.invalTime,
   h2.nextRid.trans h1.nextRid, h2.rid.trans h1.rid, h2.born.trans h1.born⟩

abbrev St := DB × Bool

inductive Evo : St → St → Prop
  | refl (s : St) : Evo s s
  | data {db db' : DB} {h : Bool} : DataOnly db db' → Evo (db, h) (db', h)
  | checkout {db : DB} : Evo (db, false) (db.checkout, true)
  | checkoutFail {db db' : DB} {k : FKind} : db.checkoutF = (db', some k) → Evo (db, false) (db', false)
  | disc {db : DB} {h : Bool} : Evo (db, h) (db.poolInvalidate.kill, false)
  | kill {db : DB} {h : Bool} : Evo (db, h) (db.kill, false)
  | trans {a b c : St} : Evo a b → Evo b c → Evo a c

def Conn.st (c : Conn) : St := (c.db, c.hasDbapi)

theorem takeFault_dataOnly (db : DB) (p : FPoint) : DataOnly db (db.takeFault p).2 := by
  unfold DB.takeFault
  split <;> exact ⟨rfl, rfl, rfl, rfl, rfl, rfl⟩

theorem commit_dataOnly (db : DB) : DataOnly db db.commit := ⟨rfl, rfl, rfl, rfl, rfl, rfl⟩
theorem rollback_dataOnly (db : DB) : DataOnly db db.rollback := ⟨rfl, rfl, rfl, rfl, rfl, rfl⟩
theorem write_dataOnly (db : DB) (d : Data) : DataOnly db (db.write d) := by
  unfold DB.write; split <;> exact ⟨rfl, rfl, rfl, rfl, rfl, rfl⟩

theorem apply_dataOnly (db : DB) (q : Sql) (db' : DB) (r : Res) (h : db.apply q = (some db', r)) :
    DataOnly db db' := by
  unfold DB.apply at h
  split at h
  · split at h
    · simp only [Prod.mk.injEq, Option.some.injEq] at h; rw [← h.1]; exact write_dataOnly _ _
    · simp at h
  · simp only [Prod.mk.injEq, Option.some.injEq] at h; rw [← h.1]; exact write_dataOnly _ _
  · simp only [Prod.mk.injEq, Option.some.injEq] at h; rw [← h.1]; exact DataOnly.refl _
  · simp only [Prod.mk.injEq, Option.some.injEq] at h; rw [← h.1]; exact ⟨rfl, rfl, rfl, rfl, rfl, rfl⟩
  · split at h
    · rename_i r' hr
      simp only [Prod.mk.injEq, Option.some.injEq] at h; rw [← h.1]
      unfold Raw.rollbackTo at hr
      split at hr
      · simp only [Option.some.injEq] at hr; rw [← hr]; exact ⟨rfl, rfl, rfl, rfl, rfl, rfl⟩
      · simp at hr
    · simp at h
  · split at h
    · rename_i r' hr
      simp only [Prod.mk.injEq, Option.some.injEq] at h; rw [← h.1]
      unfold Raw.release at hr
      split at hr
      · simp only [Option.some.injEq] at hr; rw [← hr]; split <;> exact ⟨rfl, rfl, rfl, rfl, rfl, rfl⟩
      · simp at hr
    · simp at h

/-- the evolution relation between the states before and after a call -/
def E (c c' : Conn) : Prop := Evo c.st c'.st

theorem E.refl (c : Conn) : E c c := Evo.refl _
theorem E.trans {a b c : Conn} (h1 : E a b) (h2 : E b c) : E a c := Evo.trans h1 h2

theorem E.of_same {c c' : Conn} (h : SameDb c c') : E c c' := by
  unfold E Conn.st; rw [h.db, h.hasDbapi]; exact Evo.refl _

theorem E.of_data (c : Conn) (db' : DB) (h : DataOnly c.db db') : E c { c with db := db' } :=
  Evo.data h

theorem andThen_E {c : Conn} {x : Conn × Res} {f : Conn → Conn × Res}
    (h1 : E c x.1) (h2 : ∀ c1, E c1 (f c1).1) : E c (andThen x f).1 := by
  obtain ⟨c1, r⟩ := x
  cases r <;> first | exact h1.trans (h2 c1) | exact h1

theorem andFinally_E {c : Conn} {x : Conn × Res} {g : Conn → Conn}
    (h1 : E c x.1) (h2 : ∀ c1, E c1 (g c1)) : E c (andFinally x g).1 :=
  h1.trans (h2 x.1)

theorem revalidate_E (c : Conn) : E c c.revalidate.1 := by
  unfold Conn.revalidate
  split
  · rename_i hc
    split
    · exact E.refl c
    · simp only [Bool.and_eq_true, Bool.not_eq_true'] at hc
      unfold E Conn.st
      cases hx : c.db.checkoutF with
      | mk db o =>
        cases o with
        | none =>
          have hco : db = c.db.checkout := by
            have := checkoutF_none hx
            exact this
          simp only [hc.2, hco]
          exact Evo.checkout
        | some k =>
          simp only [hc.2]
          exact Evo.checkoutFail hx
  · exact E.refl c

theorem connProp_E (c : Conn) : E c c.connProp.1 := by
  unfold Conn.connProp
  split
  · exact E.refl c
  · exact revalidate_E c

theorem onDisconnect_E (c : Conn) : E c c.onDisconnect := by
  unfold Conn.onDisconnect
  split
  · exact E.refl c
  · exact Evo.disc

theorem invalidate_E (c : Conn) : E c c.invalidate.1 := by
  unfold Conn.invalidate
  split
  · exact E.refl c
  · split
    · exact E.refl c
    · exact Evo.kill

theorem sameDb_pushRoot (c : Conn) : SameDb c c.pushRoot := ⟨rfl, rfl⟩
theorem sameDb_pushNested (c : Conn) : SameDb c c.pushNested := ⟨rfl, rfl⟩
theorem sameDb_warn (c : Conn) : SameDb c c.warn := ⟨rfl, rfl⟩
theorem sameDb_setTxn (c : Conn) (h : Nat) (f : Txn → Txn) : SameDb c (c.setTxn h f) := ⟨rfl, rfl⟩

theorem beginRoot_E (c : Conn) : E c c.beginRoot.1 := by
  unfold Conn.beginRoot
  split
  · exact E.refl c
  · exact andThen_E (connProp_E c) (fun c1 => E.of_same (sameDb_pushRoot c1))

theorem begin_E (c : Conn) : E c c.begin.1 := by
  unfold Conn.begin
  split
  · exact beginRoot_E c
  · exact E.refl c

theorem autobegin_E (c : Conn) : E c c.autobegin.1 := by
  unfold Conn.autobegin
  split
  · exact begin_E c
  · exact E.refl c

theorem discError_E (c : Conn) : E c c.discError.1 := by
  unfold Conn.discError
  split
  · simp only []
    split
    · exact E.refl c
    · exact Evo.kill
  · exact onDisconnect_E c

theorem plainError_E (c : Conn) : E c c.plainError.1 := by
  unfold Conn.plainError
  split
  · exact E.refl c
  · split
    · split
      · exact E.refl c
      · cases hf : c.db.takeFault .rollback with
        | mk o db1 =>
          have hs : DataOnly c.db db1 := by
            have := takeFault_dataOnly c.db .rollback; rw [hf] at this; exact this
          cases o with
          | some k =>
            cases k with
            | err => exact E.of_data c db1 hs
            | disc => exact (E.of_data c db1 hs).trans (discError_E _)
            | kbi => exact (E.of_data c db1 hs).trans (discError_E _)
          | none => exact E.of_data c _ (hs.trans (rollback_dataOnly db1))
    · exact E.refl c

theorem kbiError_E (c : Conn) : E c c.kbiError.1 := by
  unfold Conn.kbiError
  simp only []
  split
  · exact E.refl c
  · exact Evo.kill

theorem dbapiError_E (c : Conn) (k : FKind) : E c (c.dbapiError k).1 := by
  unfold Conn.dbapiError
  split
  · exact kbiError_E c
  · split
    · exact discError_E c
    · cases k with
      | disc => exact discError_E c
      | err => exact plainError_E c
      | kbi => exact plainError_E c

theorem dbapiCall_E (c : Conn) (p : FPoint) (f : DB → DB) (hf : ∀ db, DataOnly db (f db)) :
    E c (c.dbapiCall p f).1 := by
  unfold Conn.dbapiCall
  cases hf' : c.db.takeFault p with
  | mk o db1 =>
    have hs : DataOnly c.db db1 := by
      have := takeFault_dataOnly c.db p; rw [hf'] at this; exact this
    cases o with
    | some k => exact (E.of_data c db1 hs).trans (dbapiError_E _ k)
    | none => exact E.of_data c _ (hs.trans (hf db1))

theorem runSql_E (c : Conn) (q : Sql) : E c (c.runSql q).1 := by
  unfold Conn.runSql
  cases hf' : c.db.takeFault .execute with
  | mk o db1 =>
    have hs : DataOnly c.db db1 := by
      have := takeFault_dataOnly c.db .execute; rw [hf'] at this; exact this
    cases o with
    | some k => exact (E.of_data c db1 hs).trans (dbapiError_E _ k)
    | none =>
      simp only []
      cases ha : c.db.apply q with
      | mk o2 r =>
        cases o2 with
        | some db2 => exact E.of_data c db2 (apply_dataOnly _ _ _ _ ha)
        | none => exact dbapiError_E c .err

theorem execChecked_E (c : Conn) (q : Sql) : E c (c.execChecked q).1 := by
  unfold Conn.execChecked
  split
  · exact E.refl c
  · split
    · exact E.refl c
    · exact andThen_E (autobegin_E c) (fun c1 => runSql_E c1 q)

theorem execute_E (c : Conn) (q : Sql) : E c (c.execute q).1 := by
  unfold Conn.execute
  refine andThen_E (connProp_E c) (fun c1 => ?_)
  exact andThen_E (dbapiCall_E c1 .cursor id (fun db => DataOnly.refl db))
    (fun c2 => execChecked_E c2 q)

theorem rollbackImpl_E (c : Conn) : E c c.rollbackImpl.1 := by
  unfold Conn.rollbackImpl
  split
  · split
    · exact E.refl c
    · exact dbapiCall_E c .rollback DB.rollback rollback_dataOnly
  · exact E.refl c

theorem rootCloseImpl_E (c : Conn) (h : Nat) (b : Bool) : E c (c.rootCloseImpl h b).1 := by
  unfold Conn.rootCloseImpl
  refine andFinally_E ?_ (fun c1 => E.of_same (sameDb_rootCloseFinally c1 h b))
  refine andThen_E ?_ (fun c1 => E.of_same (sameDb_cancelNested c1))
  split
  · exact rollbackImpl_E c
  · exact E.refl c

theorem commitImpl_E (c : Conn) : E c c.commitImpl.1 := by
  unfold Conn.commitImpl
  exact andThen_E (connProp_E c) (fun c1 => dbapiCall_E c1 .commit DB.commit commit_dataOnly)

theorem rootCommit_E (c : Conn) (h : Nat) : E c (c.rootCommit h).1 := by
  unfold Conn.rootCommit
  split
  · refine andThen_E ?_ (fun c1 => E.of_same ⟨rfl, rfl⟩)
    exact andFinally_E (commitImpl_E c)
      (fun c1 => E.of_same ((sameDb_cancelNested c1).trans (sameDb_rootDeactivate _ h)))
  · split
    · exact E.refl c
    · exact E.refl c

theorem nestedCloseImpl_E (c : Conn) (h : Nat) (w : Bool) : E c (c.nestedCloseImpl h w).1 := by
  unfold Conn.nestedCloseImpl
  refine andFinally_E ?_
    (fun c1 => E.of_same ((sameDb_deactivate c1 h).trans (sameDb_nestedDeactivate _ h w)))
  split
  · exact execute_E c _
  · exact E.refl c

theorem nestedCommit_E (c : Conn) (h : Nat) : E c (c.nestedCommit h).1 := by
  unfold Conn.nestedCommit
  split
  · refine andThen_E ?_ (fun c1 => E.of_same (sameDb_nestedDeactivate c1 h true))
    exact andFinally_E (execute_E c _) (fun c1 => E.of_same (sameDb_deactivate c1 h))
  · split
    · exact E.refl c
    · exact E.refl c

theorem beginNested_E (c : Conn) : E c c.beginNested.1 := by
  unfold Conn.beginNested
  refine andThen_E (autobegin_E c) (fun c1 => ?_)
  split
  · exact E.refl c1
  · simp only []
    have h0 : E c1 { c1 with spSeq := c1.spSeq + 1 } := E.of_same ⟨rfl, rfl⟩
    exact h0.trans (andThen_E (execute_E _ _) (fun c2 => E.of_same (sameDb_pushNested c2)))

theorem tCommit_E (c : Conn) (h : Nat) : E c (c.tCommit h).1 := by
  unfold Conn.tCommit
  split
  · exact rootCommit_E c h
  · exact nestedCommit_E c h

theorem tRollback_E (c : Conn) (h : Nat) : E c (c.tRollback h).1 := by
  unfold Conn.tRollback
  split
  · exact rootCloseImpl_E c h true
  · exact nestedCloseImpl_E c h true

theorem tClose_E (c : Conn) (h : Nat) : E c (c.tClose h).1 := by
  unfold Conn.tClose
  split
  · exact rootCloseImpl_E c h false
  · exact nestedCloseImpl_E c h false

theorem commit_E (c : Conn) : E c c.commit.1 := by
  unfold Conn.commit
  split
  · exact tCommit_E c _
  · exact E.refl c

theorem rollback_E (c : Conn) : E c c.rollback.1 := by
  unfold Conn.rollback
  split
  · exact tRollback_E c _
  · exact E.refl c

theorem enter_E (c : Conn) (h : Nat) : E c (c.enter h).1 := E.of_same ⟨rfl, rfl⟩

theorem exitFinally_E (c : Conn) (h : Nat) (b : Bool) : E c (c.exitFinally h b) := by
  unfold Conn.exitFinally
  have h1 : SameDb c (if !b then { c with ctxMgr := (c.txn h).outerCtx } else c) := by
    split <;> exact ⟨rfl, rfl⟩
  exact E.of_same (h1.trans (sameDb_setTxn _ h _))

theorem commitOrRollback_E (c : Conn) (h : Nat) : E c (c.commitOrRollback h).1 := by
  unfold Conn.commitOrRollback
  simp only []
  have h1 := tCommit_E c h
  have h2 := tRollback_E (c.tCommit h).1 h
  cases hr : (c.tCommit h).2 <;> simp only [] <;>
    first
    | exact h1
    | (cases hr2 : ((c.tCommit h).1.tRollback h).2 <;> simp only [] <;> exact h1.trans h2)

theorem exit_E (c : Conn) (h : Nat) (e : Bool) : E c (c.exit h e).1 := by
  unfold Conn.exit
  simp only []
  refine andFinally_E ?_ (fun c1 => exitFinally_E c1 h _)
  split
  · exact commitOrRollback_E c h
  · split
    · split
      · exact tClose_E c h
      · exact E.refl c
    · exact tRollback_E c h

theorem applyChar_dataOnly (db : DB) (b : Bool) : DataOnly db (db.applyChar b) := by
  unfold DB.applyChar
  cases b <;> exact ⟨rfl, rfl, rfl, rfl, rfl, rfl⟩

theorem setAutocommit_E (c : Conn) : E c c.setAutocommit.1 := by
  unfold Conn.setAutocommit
  split
  · exact E.refl c
  · exact andThen_E (connProp_E c) (fun c1 => E.of_data c1 _ (applyChar_dataOnly _ _))

theorem setLogToken_E (c : Conn) : E c c.setLogToken.1 := by
  unfold Conn.setLogToken
  exact andThen_E (connProp_E c) (fun c1 => E.of_data c1 _ (applyChar_dataOnly _ _))

theorem setReadUnc_E (c : Conn) : E c c.setReadUnc.1 := by
  unfold Conn.setReadUnc
  split
  · exact E.refl c
  · exact andThen_E (connProp_E c) (fun c1 => E.of_data c1 _ ⟨rfl, rfl, rfl, rfl, rfl, rfl⟩)

/-- every API call that neither closes nor replaces the Connection -/
def Op.plain : Op → Bool
  | .begin | .beginNested | .exec _ | .commit | .rollback | .tCommit _ | .tRollback _ | .tClose _
  | .enter _ | .exitOk _ | .exitExc _ | .invalidate | .autocommit | .arm _ _ | .disarm
  | .readUnc | .logToken | .otherOpt | .tokenAuto => true
  | _ => false

theorem step_E (c : Conn) (op : Op) (hp : op.plain = true) : E c (c.step op).1 := by
  cases op with
  | begin => exact begin_E c
  | beginNested => exact beginNested_E c
  | exec s => exact execute_E c _
  | commit => exact commit_E c
  | rollback => exact rollback_E c
  | tCommit h => exact tCommit_E c h
  | tRollback h => exact tRollback_E c h
  | tClose h => exact tClose_E c h
  | enter h => exact enter_E c h
  | exitOk h => exact exit_E c h false
  | exitExc h => exact exit_E c h true
  | invalidate => exact invalidate_E c
  | autocommit => exact setAutocommit_E c
  | readUnc => exact setReadUnc_E c
  | logToken => exact setLogToken_E c
  | otherOpt => exact E.refl c
  | tokenAuto => exact setAutocommit_E c
  | arm p k => exact E.of_data c _ ⟨rfl, rfl, rfl, rfl, rfl, rfl⟩
  | disarm => exact E.of_data c _ ⟨rfl, rfl, rfl, rfl, rfl, rfl⟩
  | close => simp [Op.plain] at hp
  | warm n => simp [Op.plain] at hp
  | connect => simp [Op.plain] at hp
  | gc => simp [Op.plain] at hp

end SaVerif.Txn
