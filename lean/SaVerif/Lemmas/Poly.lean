import SaVerif.Model.Poly
/-! Helper lemmas and the consistent-storage functions for the polymorphic loading model. -/
set_option linter.unusedSimpArgs false
set_option linter.unusedVariables false
namespace SaVerif.Poly

/-- a stored object: primary key, class, and the value of every attribute column -/
structure PObj where
  id : Nat
  cls : Nat
  attr : Nat → Option Int

/-- what the property says the object must come back as -/
def entOf (h : Hier) (o : PObj) : Ent := ⟨o.id, o.cls, (h.anc o.cls).map o.attr⟩

/-- the hierarchy is closed: every ancestor of a class is a class, every class is its own
    last ancestor -/
structure WFH (h : Hier) : Prop where
  anc_lt : ∀ c a, c < h.n → a ∈ h.anc c → a < h.n
  self : ∀ c, c < h.n → h.isa c c = true
  /-- no two classes share a polymorphic identity (`polymorphic_map` is a dict) -/
  ident_inj : ∀ d e v, d < h.n → e < h.n → h.ident d = some v → h.ident e = some v → d = e

theorem mapM_ok {α β : Type} (f : α → Res β) (g : α → β) :
    ∀ (l : List α), (∀ x ∈ l, f x = .ok (g x)) → l.mapM f = .ok (l.map g)
  | [], _ => rfl
  | x :: xs, h => by
    rw [List.mapM_cons, h x (by simp), mapM_ok f g xs (fun y hy => h y (by simp [hy]))]
    rfl

theorem mem_sub (h : Hier) (c d : Nat) : d ∈ h.sub c ↔ d < h.n ∧ h.isa d c = true := by
  simp [Hier.sub, List.mem_filter, List.mem_range]

/-- **in_list_exact**: a value is in the single-table IN list of class `c` iff it is the
    identity of a (non-abstract) class of `c`'s subtree -/
theorem mem_inList (h : Hier) (c v : Nat) :
    v ∈ h.inList c ↔ ∃ d, d < h.n ∧ h.isa d c = true ∧ h.ident d = some v := by
  simp only [Hier.inList, List.mem_filterMap, mem_sub]
  constructor
  · rintro ⟨d, ⟨h1, h2⟩, h3⟩; exact ⟨d, h1, h2, h3⟩
  · rintro ⟨d, h1, h2, h3⟩; exact ⟨d, ⟨h1, h2⟩, h3⟩

/-- the polymorphic map finds the class that carries the identity -/
theorem classOf_ident (h : Hier) (hw : WFH h) (d v : Nat) (hd : d < h.n) (hi : h.ident d = some v) :
    h.classOf v = some d := by
  unfold Hier.classOf
  cases hf : (List.range h.n).find? (fun e => h.ident e == some v) with
  | none =>
    have := List.find?_eq_none.1 hf d (List.mem_range.2 hd)
    simp [hi] at this
  | some e =>
    have h1 := List.find?_some hf
    have h2 := List.mem_of_find?_eq_some hf
    have h3 : h.ident e = some v := by simpa using h1
    rw [hw.ident_inj e d v (List.mem_range.1 h2) hd h3 hi]

theorem classOf_some (h : Hier) (v d : Nat) (hf : h.classOf v = some d) :
    d < h.n ∧ h.ident d = some v := by
  unfold Hier.classOf at hf
  have h1 := List.find?_some hf
  have h2 := List.mem_of_find?_eq_some hf
  exact ⟨List.mem_range.1 h2, by simpa using h1⟩

theorem classOf_none (h : Hier) (v : Nat) (hf : h.classOf v = none) :
    ∀ d, d < h.n → h.ident d ≠ some v := by
  intro d hd hi
  have := List.find?_eq_none.1 hf d (List.mem_range.2 hd)
  simp [hi] at this

/-! ## single table -/

def storeSingle (h : Hier) (objs : List PObj) : List SRow :=
  objs.map (fun o => ⟨o.id, h.ident o.cls,
    (List.range h.n).map (fun a => if (h.anc o.cls).contains a then o.attr a else none)⟩)

theorem entOfSRow_store (h : Hier) (hw : WFH h) (o : PObj) (ho : o.cls < h.n) :
    entOfSRow h o.cls ⟨o.id, h.ident o.cls,
      (List.range h.n).map (fun a => if (h.anc o.cls).contains a then o.attr a else none)⟩ = entOf h o := by
  simp only [entOfSRow, entOf, Ent.mk.injEq, true_and]
  apply List.map_congr_left
  intro a ha
  have hlt : a < h.n := hw.anc_lt o.cls a ho ha
  have hc : (h.anc o.cls).contains a = true := by simpa using ha
  simp [List.getD_eq_getElem?_getD, List.getElem?_map, List.getElem?_range hlt, hc]
  intro hn; exact absurd ha hn

/-! ## concrete tables -/

def storeConcrete (h : Hier) (objs : List PObj) : CTables :=
  (List.range h.n).map (fun d => (objs.filter (fun o => o.cls == d)).map (fun o => (o.id, (h.anc d).map o.attr)))

theorem mem_insertEnt (e x : Ent) (l : List Ent) : x ∈ insertEnt e l ↔ x = e ∨ x ∈ l := by
  induction l with
  | nil => simp [insertEnt]
  | cons y ys ih =>
    simp only [insertEnt]
    split
    · simp
    · simp only [List.mem_cons, ih]
      constructor
      · rintro (h | h | h)
        · exact Or.inr (Or.inl h)
        · exact Or.inl h
        · exact Or.inr (Or.inr h)
      · rintro (h | h | h)
        · exact Or.inr (Or.inl h)
        · exact Or.inl h
        · exact Or.inr (Or.inr h)

theorem mem_sortEnts (x : Ent) (l : List Ent) : x ∈ sortEnts l ↔ x ∈ l := by
  induction l with
  | nil => simp [sortEnts]
  | cons y ys ih =>
    simp only [sortEnts, List.foldr_cons] at ih ⊢
    rw [mem_insertEnt, ih]; simp

/-- the result of `sortEnts` is ordered by id -/
def Sorted : List Ent → Prop
  | [] => True
  | [_] => True
  | a :: b :: rest => a.id ≤ b.id ∧ Sorted (b :: rest)

theorem sorted_insertEnt (e : Ent) : ∀ (l : List Ent), Sorted l → Sorted (insertEnt e l)
  | [], _ => trivial
  | [x], _ => by
    simp only [insertEnt]
    split
    · exact ⟨by assumption, trivial⟩
    · exact ⟨by omega, trivial⟩
  | x :: y :: rest, hs => by
    simp only [insertEnt]
    split
    · exact ⟨by assumption, hs⟩
    · rename_i hne
      have ih := sorted_insertEnt e (y :: rest) hs.2
      simp only [insertEnt] at ih ⊢
      split
      · exact ⟨by omega, by assumption, hs.2⟩
      · rename_i h2
        simp only [h2, if_false] at ih
        exact ⟨hs.1, ih⟩

theorem sorted_sortEnts (l : List Ent) : Sorted (sortEnts l) := by
  induction l with
  | nil => trivial
  | cons x xs ih => simp only [sortEnts, List.foldr_cons] at ih ⊢; exact sorted_insertEnt x _ ih


/-! ## joined tables -/

def storeJoined (h : Hier) (root : Nat) (objs : List PObj) : JTables :=
  ⟨objs.map (fun o => (o.id, h.ident o.cls, o.attr root)),
   (List.range h.n).map (fun a => (objs.filter (fun o => h.isa o.cls a)).map (fun o => (o.id, o.attr a)))⟩

theorem mapM_some {α β : Type} (f : α → Option β) (g : α → β) :
    ∀ (l : List α), (∀ x ∈ l, f x = some (g x)) → l.mapM f = some (l.map g)
  | [], _ => rfl
  | x :: xs, h => by
    rw [List.mapM_cons, h x (by simp), mapM_some f g xs (fun y hy => h y (by simp [hy]))]
    rfl

/-- with distinct primary keys, looking a key up in a (filtered, projected) table finds
    exactly the object's own row -/
theorem find_unique {β : Type} (p : PObj → Bool) (f : PObj → β) (key : β → Nat)
    (hk : ∀ x, key (f x) = x.id) :
    ∀ (l : List PObj), (l.map (·.id)).Nodup → ∀ o ∈ l, p o = true →
      ((l.filter p).map f).find? (fun r => key r == o.id) = some (f o)
  | [], _, o, ho, _ => by cases ho
  | x :: xs, hn, o, ho, hp => by
    rw [List.map_cons, List.nodup_cons] at hn
    by_cases hx : x = o
    · subst hx
      simp [List.filter_cons, hp, hk]
    · have ho' : o ∈ xs := by
        rcases List.mem_cons.1 ho with h | h
        · exact absurd h.symm hx
        · exact h
      have hid : x.id ≠ o.id := by
        intro he
        apply hn.1
        rw [he]
        exact List.mem_map.2 ⟨o, ho', rfl⟩
      have ih := find_unique p f key hk xs hn.2 o ho' hp
      by_cases hpx : p x = true
      · simp only [List.filter_cons, hpx, if_true, List.map_cons, List.find?_cons, hk]
        have : (x.id == o.id) = false := by simp [hid]
        rw [this]; exact ih
      · simp only [List.filter_cons, hpx]; exact ih

theorem any_unique {β : Type} (p : PObj → Bool) (f : PObj → β) (key : β → Nat)
    (hk : ∀ x, key (f x) = x.id) :
    ∀ (l : List PObj), (l.map (·.id)).Nodup → ∀ o ∈ l,
      ((l.filter p).map f).any (fun r => key r == o.id) = p o
  | [], _, o, ho => by cases ho
  | x :: xs, hn, o, ho => by
    rw [List.map_cons, List.nodup_cons] at hn
    by_cases hx : x = o
    · subst hx
      cases hp : p x
      · simp only [List.filter_cons, hp, Bool.false_eq_true, if_false]
        rw [List.any_eq_false]
        intro r hr
        obtain ⟨y, hy, rfl⟩ := List.mem_map.1 hr
        have hy' := (List.mem_filter.1 hy).1
        rw [hk]
        intro he
        apply hn.1
        have : y.id = x.id := by simpa using he
        rw [← this]
        exact List.mem_map.2 ⟨y, hy', rfl⟩
      · simp [List.filter_cons, hp, hk]
    · have ho' : o ∈ xs := by
        rcases List.mem_cons.1 ho with h | h
        · exact absurd h.symm hx
        · exact h
      have hid : x.id ≠ o.id := by
        intro he
        apply hn.1
        rw [he]
        exact List.mem_map.2 ⟨o, ho', rfl⟩
      have ih := any_unique p f key hk xs hn.2 o ho'
      by_cases hpx : p x = true
      · simp only [List.filter_cons, hpx, if_true, List.map_cons, List.any_cons, hk]
        have : (x.id == o.id) = false := by simp [hid]
        rw [this, Bool.false_or]; exact ih
      · simp only [List.filter_cons, hpx]; exact ih

end SaVerif.Poly
