import SaVerif.Lemmas.Result
import SaVerif.Model.ResultMemo
/-! Refinement of the memoizing facade (`mstep`) and transparency of memoization. -/
namespace SaVerif.Result

section Generic
variable {σ : Type} {O : SrcOps σ} {good : σ → Prop} {abs : σ → Plain}

def absM (abs : σ → Plain) (st : MSt σ) : MSt Plain :=
  { src := abs st.src, sss := st.sss, width := st.width, yp := st.yp, ypKind := st.ypKind, sets := st.sets,
    r := st.r, v := st.v }

@[simp] theorem mgetH_absM (st : MSt σ) (t : Tgt) : mgetH (absM abs st) t = mgetH st t := by
  cases t <;> simp [mgetH, absM]

@[simp] theorem isR_absM (st : MSt σ) (t : Tgt) : isR (absM abs st) t = isR st t := by
  cases t <;> simp [isR, absM]

theorem msetH_absM (st : MSt σ) (t : Tgt) (h : MHandle) (s : σ) (sets : List (List Key)) :
    ({ msetH (absM abs st) t h with src := abs s, sets := sets } : MSt Plain) =
      absM abs { msetH st t h with src := s, sets := sets } := by
  cases t with
  | r => simp [msetH, absM]
  | v => cases hv : st.v <;> simp [msetH, absM, hv]

theorem msetH_src (st : MSt σ) (t : Tgt) (h : MHandle) : (msetH st t h).src = st.src ∧ (msetH st t h).yp = st.yp := by
  cases t with
  | r => simp [msetH]
  | v => cases hv : st.v <;> simp [msetH, hv]

theorem only_refines (R : Refines O good abs) (pol : Policy) (use : Bool) (st : MSt σ) (t : Tgt)
    (second rnone scalar : Bool) (hg : good st.src)
    (hz : (mstep.only O use st t second rnone scalar).1.2 = false) :
    mstep.only Plain.ops use (absM abs st) t second rnone scalar =
      ((mstep.only O use st t second rnone scalar).1, absM abs (mstep.only O use st t second rnone scalar).2) ∧
    good (mstep.only O use st t second rnone scalar).2.src := by
  have _ := pol
  simp only [mstep.only, mgetH_absM] at hz ⊢
  rcases hc0 : getAll use (mgetH st t) with ⟨c, h1⟩
  simp only [hc0] at hz ⊢
  have hc : O.corner st.src = false := by simpa using hz
  have h := onlyOne_refines R st.sss (capHandle st.sets h1.view c) second rnone scalar st.src hg hc
  rw [show (absM abs st).src = abs st.src from rfl, show (absM abs st).sss = st.sss from rfl,
    show (absM abs st).sets = st.sets from rfl, h.1, hc]
  refine ⟨?_, ?_⟩
  · cases t with
    | r => simp [msetH, absM, Plain.ops]
    | v => cases hv : st.v <;> simp [msetH, absM, hv, Plain.ops]
  · exact h.2

/-- **mstep_refines**: one call on the memoizing facade over a source that refines the bare
    list returns what it returns over the bare list (same memo, same filter sets), whenever
    the call raises no hazard flag -/
theorem mstep_refines (R : Refines O good abs) (pol : Policy) (use : Bool) (st : MSt σ) (op : Op)
    (hg : good st.src) (hz : (mstep O pol use st op).1.2 = false) :
    mstep Plain.ops pol use (absM abs st) op = ((mstep O pol use st op).1, absM abs (mstep O pol use st op).2) ∧
    good (mstep O pol use st op).2.src := by
  cases op with
  | unique t u =>
    simp only [mstep, mgetH_absM, isR_absM]
    refine ⟨?_, ?_⟩
    · cases t with
      | r => simp [msetH, absM]
      | v => cases hv : st.v <;> simp [msetH, absM, hv]
    · simpa using (msetH_src st t _).1 ▸ hg
  | columns t idxs =>
    simp only [mstep, mgetH_absM]
    rw [show (absM abs st).sss = st.sss from rfl, show (absM abs st).width = st.width from rfl]
    have hset : ∀ h : MHandle, msetH (absM abs st) t h = absM abs (msetH st t h) := by
      intro h
      cases t with
      | r => simp [msetH, absM]
      | v => cases hv : st.v <;> simp [msetH, absM, hv]
    have hgs : ∀ h : MHandle, good (msetH st t h).src := fun h => (msetH_src st t h).1 ▸ hg
    split
    · exact ⟨by rw [hset], hgs _⟩
    · split
      · exact ⟨by rw [hset], hgs _⟩
      · exact ⟨by rw [hset], hgs _⟩
  | yieldPer t n =>
    have hflag : O.ypLossy st.src = false := by
      have := hz
      simp only [mstep] at this
      cases hl : O.ypLossy st.src with
      | false => rfl
      | true => simp [hl] at this
    have hy := R.yieldPer n st.src hg hflag
    refine ⟨?_, ?_⟩
    · simp only [mstep, isR_absM, hflag]
      rw [show (absM abs st).src = abs st.src from rfl, ← hy.1]
      rfl
    · simpa [mstep] using hy.2
  | scalars i =>
    simp only [mstep]
    rw [show (absM abs st).sss = st.sss from rfl, show (absM abs st).width = st.width from rfl,
      show (absM abs st).r = st.r from rfl]
    split
    · exact ⟨rfl, hg⟩
    · split
      · exact ⟨rfl, hg⟩
      · exact ⟨rfl, hg⟩
  | mappings => exact ⟨rfl, hg⟩
  | fetchone t =>
    simp only [mstep, mgetH_absM]
    rcases getOne use (mgetH st t) with ⟨c, h1⟩
    have h := onerow_refines R false st.sss (capHandle st.sets h1.view c) st.src hg
    rw [show (absM abs st).src = abs st.src from rfl, show (absM abs st).sss = st.sss from rfl,
      show (absM abs st).sets = st.sets from rfl, h.1]
    rcases hx : onerow O false st.sss (capHandle st.sets h1.view c) st.src with ⟨r, h', s'⟩
    rw [hx] at h
    exact ⟨by simp only; rw [msetH_absM], h.2⟩
  | next t =>
    simp only [mstep, mgetH_absM]
    rcases getOne use (mgetH st t) with ⟨c, h1⟩
    have h := onerow_refines R false st.sss (capHandle st.sets h1.view c) st.src hg
    rw [show (absM abs st).src = abs st.src from rfl, show (absM abs st).sss = st.sss from rfl,
      show (absM abs st).sets = st.sets from rfl, h.1]
    rcases hx : onerow O false st.sss (capHandle st.sets h1.view c) st.src with ⟨r, h', s'⟩
    rw [hx] at h
    cases r with
    | error e => exact ⟨by simp only; rw [msetH_absM], h.2⟩
    | ok o => cases o <;> exact ⟨by simp only; rw [msetH_absM], h.2⟩
  | fetchmany t n =>
    revert hz
    simp only [mstep, mgetH_absM]
    rw [show (absM abs st).yp = st.yp from rfl]
    rcases getMany use (mgetH st t) st.yp with ⟨c, h1⟩
    intro hz
    simp only at hz ⊢
    have heff : effSize n c.yp ≠ some 0 := by
      intro h0
      rcases hx : manyrows O st.sss c.yp (capHandle st.sets h1.view c) n st.src with ⟨r, h', s'⟩
      rw [hx] at hz
      cases r <;> simp [h0] at hz
    have h := manyrows_refines R st.sss c.yp (capHandle st.sets h1.view c) n st.src hg heff
    rw [show (absM abs st).src = abs st.src from rfl, show (absM abs st).sss = st.sss from rfl,
      show (absM abs st).sets = st.sets from rfl, h.1]
    rcases hx : manyrows O st.sss c.yp (capHandle st.sets h1.view c) n st.src with ⟨r, h', s'⟩
    rw [hx] at h
    cases r <;> exact ⟨by simp only; rw [msetH_absM], h.2⟩
  | fetchall t =>
    simp only [mstep, mgetH_absM]
    rcases getAll use (mgetH st t) with ⟨c, h1⟩
    have h := allrows_refines R st.sss (capHandle st.sets h1.view c) st.src hg
    rw [show (absM abs st).src = abs st.src from rfl, show (absM abs st).sss = st.sss from rfl,
      show (absM abs st).sets = st.sets from rfl, h.1]
    rcases hx : allrows O st.sss (capHandle st.sets h1.view c) st.src with ⟨r, h', s'⟩
    rw [hx] at h
    exact ⟨by simp only; rw [msetH_absM], h.2⟩
  | iter t k =>
    simp only [mstep, mgetH_absM]
    rcases getIter use (mgetH st t) with ⟨c, h1⟩
    have h := iterLoop_refines R st.sss k (capHandle st.sets h1.view c) st.src hg
    rw [show (absM abs st).src = abs st.src from rfl, show (absM abs st).sss = st.sss from rfl,
      show (absM abs st).sets = st.sets from rfl, h.1]
    rcases hx : iterLoop O st.sss k (capHandle st.sets h1.view c) st.src with ⟨r, h', s'⟩
    rw [hx] at h
    cases r <;> exact ⟨by simp only; rw [msetH_absM], h.2⟩
  | partitions t n k =>
    revert hz
    simp only [mstep, mgetH_absM]
    rw [show (absM abs st).yp = st.yp from rfl]
    rcases getMany use (mgetH st t) st.yp with ⟨c, h1⟩
    intro hz
    simp only at hz ⊢
    have heff : effSize n c.yp ≠ some 0 := by
      intro h0
      rcases hx : partLoop O st.sss c.yp n k (capHandle st.sets h1.view c) st.src with ⟨r, h', s'⟩
      rw [hx] at hz
      cases r <;> simp [h0] at hz
    have h := partLoop_refines R st.sss c.yp n heff k (capHandle st.sets h1.view c) st.src hg
    rw [show (absM abs st).src = abs st.src from rfl, show (absM abs st).sss = st.sss from rfl,
      show (absM abs st).sets = st.sets from rfl, h.1]
    rcases hx : partLoop O st.sss c.yp n k (capHandle st.sets h1.view c) st.src with ⟨r, h', s'⟩
    rw [hx] at h
    cases r <;> exact ⟨by simp only; rw [msetH_absM], h.2⟩
  | first t => exact only_refines R pol use st t false false false hg hz
  | one t => exact only_refines R pol use st t true true false hg hz
  | oneOrNone t => exact only_refines R pol use st t true false false hg hz
  | scalar => exact only_refines R pol use st .r false false true hg hz
  | scalarOne => exact only_refines R pol use st .r true true true hg hz
  | scalarOneOrNone => exact only_refines R pol use st .r true false true hg hz
  | close t =>
    have h := R.softClose true st.src hg
    refine ⟨?_, ?_⟩
    · simp only [mstep]
      rw [show (absM abs st).src = abs st.src from rfl]
      show _ = ((Out.unit, false), absM abs { st with src := O.softClose true st.src })
      simp only [absM]
      rw [h.1]; rfl
    · simpa [mstep] using h.2
  | closed t =>
    refine ⟨?_, hg⟩
    simp only [mstep]
    rw [show (absM abs st).src = abs st.src from rfl, R.isHard]
    rfl
  | freeze =>
    simp only [mstep]
    rw [show (absM abs st).src = abs st.src from rfl, show (absM abs st).sss = st.sss from rfl,
      show (absM abs st).r = st.r from rfl, show (absM abs st).width = st.width from rfl,
      show (absM abs st).sets = st.sets from rfl]
    split
    · have h := R.drainRaw st.src hg
      have h1 : (Plain.ops.drainRaw (abs st.src)).1 = (O.drainRaw st.src).1 := by
        rw [← h.1]; rfl
      refine ⟨?_, (R.ofList _).2⟩
      simp only [absM]
      rw [(R.ofList _).1, ← h1]
    · rcases getAll use st.r with ⟨c, h1⟩
      have h := allrows_refines R false (capHandle st.sets View.rows c) st.src hg
      simp only
      rw [h.1]
      rcases hx : allrows O false (capHandle st.sets View.rows c) st.src with ⟨o, h', s'⟩
      rw [hx] at h
      cases o with
      | items l =>
        simp only [absM]
        refine ⟨?_, (R.ofList _).2⟩
        rw [(R.ofList _).1]
      | none => exact ⟨rfl, h.2⟩
      | item _ => exact ⟨rfl, h.2⟩
      | parts _ => exact ⟨rfl, h.2⟩
      | val _ => exact ⟨rfl, h.2⟩
      | bool _ => exact ⟨rfl, h.2⟩
      | unit => exact ⟨rfl, h.2⟩
      | err _ => exact ⟨rfl, h.2⟩

end Generic
end SaVerif.Result

namespace SaVerif.Result

/-! ## transparency of memoization -/

/-- what any getter built *now* would capture -/
def capOf (h : MHandle) (yp : Option Nat) : Cap := { cols := h.cols, uq := h.uq, yp := yp }

/-- every memoized attribute of the handle agrees with the current configuration -/
def MHandle.fresh (h : MHandle) (yp : Option Nat) : Prop :=
  (∀ c, h.memo.rowG = some c → c = h.cols) ∧ (∀ u, h.memo.us = some u → h.uq = some u) ∧
  (∀ c, h.memo.one = some c → c = capOf h none) ∧ (∀ c, h.memo.iter = some c → c = capOf h none) ∧
  (∀ c, h.memo.many = some c → c = capOf h yp)

def MHandle.core (h : MHandle) : MHandle := { h with memo := Memo.empty }

theorem core_fresh (h : MHandle) (yp : Option Nat) : h.core.fresh yp := by
  simp [MHandle.fresh, MHandle.core, Memo.empty]

theorem getRowG_fresh {h : MHandle} {yp : Option Nat} (hf : h.fresh yp) :
    (getRowG true h).1 = h.cols ∧ (getRowG true h).2.core = h.core ∧ (getRowG true h).2.fresh yp ∧
    (getRowG true h).2.uq = h.uq := by
  obtain ⟨f1, f2, f3, f4, f5⟩ := hf
  unfold getRowG
  cases hr : h.memo.rowG with
  | some c => simp only [if_true, hr]; exact ⟨f1 c hr, by first | rfl | trivial, ⟨f1, f2, f3, f4, f5⟩, by first | rfl | trivial⟩
  | none =>
    simp only [if_true, hr]
    refine ⟨by first | rfl | trivial, by first | rfl | trivial, ?_, by first | rfl | trivial⟩
    refine ⟨?_, f2, f3, f4, f5⟩
    intro c hc; simpa using hc.symm

theorem getUS_fresh {h : MHandle} {yp : Option Nat} (hf : h.fresh yp) :
    (getUS true h).1 = h.uq ∨ (∃ u, h.memo.us = some u ∧ (getUS true h).1 = some u ∧ h.uq = some u) := by
  obtain ⟨_, f2, _⟩ := hf
  unfold getUS
  cases hr : h.memo.us with
  | some u => right; exact ⟨u, rfl, by simp, f2 u hr⟩
  | none => left; simp

theorem getUS_fresh' {h : MHandle} {yp : Option Nat} (hf : h.fresh yp) (hs : h.uq.isSome = true) :
    (getUS true h).1 = h.uq ∧ (getUS true h).2.core = h.core ∧ (getUS true h).2.fresh yp := by
  obtain ⟨f1, f2, f3, f4, f5⟩ := hf
  unfold getUS
  cases hr : h.memo.us with
  | some u =>
    simp only [if_true, hr]
    exact ⟨(f2 u hr).symm, by first | rfl | trivial, ⟨f1, f2, f3, f4, f5⟩⟩
  | none =>
    simp only [if_true, hr]
    refine ⟨by first | rfl | trivial, by first | rfl | trivial, ?_⟩
    refine ⟨f1, ?_, f3, f4, f5⟩
    intro u hu
    simpa using hu

theorem mkCap_fresh {h : MHandle} {yp0 : Option Nat} (yp : Option Nat) (hf : h.fresh yp0) :
    (mkCap true h yp).1 = capOf h yp ∧ (mkCap true h yp).2.core = h.core ∧ (mkCap true h yp).2.fresh yp0 := by
  have hr := getRowG_fresh hf
  unfold mkCap
  rcases hg : getRowG true h with ⟨c, h1⟩
  rw [hg] at hr
  obtain ⟨hc, hcore, hfr, huq⟩ := hr
  simp only at hc hcore hfr huq
  cases hs : h.uq.isSome with
  | false =>
    simp only [Bool.false_eq_true, if_false]
    refine ⟨?_, hcore, hfr⟩
    have : h.uq = none := by cases hq : h.uq <;> simp_all
    simp [capOf, hc, this]
  | true =>
    simp only [if_true]
    have hs1 : h1.uq.isSome = true := by rw [huq]; exact hs
    have hu := getUS_fresh' hfr hs1
    rcases hg2 : getUS true h1 with ⟨u, h2⟩
    rw [hg2] at hu
    obtain ⟨hu1, hu2, hu3⟩ := hu
    simp only at hu1 hu2 hu3
    refine ⟨?_, hu2.trans hcore, hu3⟩
    simp [capOf, hc, hu1, huq]

theorem core_eq_fields {a b : MHandle} (h : a.core = b.core) : a.view = b.view ∧ a.cols = b.cols ∧ a.uq = b.uq := by
  cases a; cases b
  simp only [MHandle.core, MHandle.mk.injEq] at h
  exact ⟨h.1, h.2.1, h.2.2.1⟩

theorem fresh_set_memo {h : MHandle} {yp : Option Nat} (hf : h.fresh yp) (m : Memo)
    (h1 : ∀ c, m.rowG = some c → c = h.cols) (h2 : ∀ u, m.us = some u → h.uq = some u)
    (h3 : ∀ c, m.one = some c → c = capOf h none) (h4 : ∀ c, m.iter = some c → c = capOf h none)
    (h5 : ∀ c, m.many = some c → c = capOf h yp) : ({ h with memo := m } : MHandle).fresh yp := by
  have _ := hf
  exact ⟨h1, h2, h3, h4, h5⟩

theorem getOne_fresh {h : MHandle} {yp0 : Option Nat} (hf : h.fresh yp0) :
    (getOne true h).1 = capOf h none ∧ (getOne true h).2.core = h.core ∧ (getOne true h).2.fresh yp0 := by
  unfold getOne
  cases hr : h.memo.one with
  | some c =>
    simp only [if_true, hr]
    exact ⟨hf.2.2.1 c hr, by first | rfl | trivial, hf⟩
  | none =>
    simp only [if_true, hr]
    have hm := mkCap_fresh (yp0 := yp0) none hf
    rcases hg : mkCap true h none with ⟨c, h'⟩
    rw [hg] at hm
    obtain ⟨hc, hcore, hfr⟩ := hm
    simp only at hc hcore hfr
    have hflds := core_eq_fields hcore
    refine ⟨hc, ?_, ?_⟩
    · simpa [MHandle.core] using hcore
    · obtain ⟨f1, f2, f3, f4, f5⟩ := hfr
      refine ⟨f1, f2, ?_, f4, f5⟩
      intro c' hc'
      simp only [Option.some.injEq] at hc'
      rw [← hc', hc]
      simp [capOf, hflds.2.1, hflds.2.2]

theorem getIter_fresh {h : MHandle} {yp0 : Option Nat} (hf : h.fresh yp0) :
    (getIter true h).1 = capOf h none ∧ (getIter true h).2.core = h.core ∧ (getIter true h).2.fresh yp0 := by
  unfold getIter
  cases hr : h.memo.iter with
  | some c =>
    simp only [if_true, hr]
    exact ⟨hf.2.2.2.1 c hr, by first | rfl | trivial, hf⟩
  | none =>
    simp only [if_true, hr]
    have hm := mkCap_fresh (yp0 := yp0) none hf
    rcases hg : mkCap true h none with ⟨c, h'⟩
    rw [hg] at hm
    obtain ⟨hc, hcore, hfr⟩ := hm
    simp only at hc hcore hfr
    have hflds := core_eq_fields hcore
    refine ⟨hc, ?_, ?_⟩
    · simpa [MHandle.core] using hcore
    · obtain ⟨f1, f2, f3, f4, f5⟩ := hfr
      refine ⟨f1, f2, f3, ?_, f5⟩
      intro c' hc'
      simp only [Option.some.injEq] at hc'
      rw [← hc', hc]
      simp [capOf, hflds.2.1, hflds.2.2]

theorem getMany_fresh {h : MHandle} {yp0 : Option Nat} (hf : h.fresh yp0) :
    (getMany true h yp0).1 = capOf h yp0 ∧ (getMany true h yp0).2.core = h.core ∧
    (getMany true h yp0).2.fresh yp0 := by
  unfold getMany
  cases hr : h.memo.many with
  | some c =>
    simp only [if_true, hr]
    exact ⟨hf.2.2.2.2 c hr, by first | rfl | trivial, hf⟩
  | none =>
    simp only [if_true, hr]
    have hm := mkCap_fresh (yp0 := yp0) yp0 hf
    rcases hg : mkCap true h yp0 with ⟨c, h'⟩
    rw [hg] at hm
    obtain ⟨hc, hcore, hfr⟩ := hm
    simp only at hc hcore hfr
    have hflds := core_eq_fields hcore
    refine ⟨hc, ?_, ?_⟩
    · simpa [MHandle.core] using hcore
    · obtain ⟨f1, f2, f3, f4, f5⟩ := hfr
      refine ⟨f1, f2, f3, f4, ?_⟩
      intro c' hc'
      simp only [Option.some.injEq] at hc'
      rw [← hc', hc]
      simp [capOf, hflds.2.1, hflds.2.2]

theorem getAll_fresh {h : MHandle} {yp0 : Option Nat} (hf : h.fresh yp0) :
    (getAll true h).1 = capOf h none ∧ (getAll true h).2.core = h.core ∧ (getAll true h).2.fresh yp0 :=
  mkCap_fresh none hf

end SaVerif.Result

namespace SaVerif.Result
section Transparent
variable {σ : Type} (O : SrcOps σ) (pol : Policy)

/-- the same facade with every memoized getter thrown away -/
def forget (st : MSt σ) : MSt σ := { st with r := st.r.core, v := st.v.map MHandle.core }

def MSt.fresh (st : MSt σ) : Prop := st.r.fresh st.yp ∧ ∀ hv, st.v = some hv → hv.fresh st.yp

theorem mgetH_forget (st : MSt σ) (t : Tgt) : mgetH (forget st) t = (mgetH st t).core := by
  cases t with
  | r => rfl
  | v => cases hv : st.v <;> simp [mgetH, forget, hv]

theorem isR_forget (st : MSt σ) (t : Tgt) : isR (forget st) t = isR st t := by
  cases t with
  | r => rfl
  | v => cases hv : st.v <;> simp [isR, forget, hv]

theorem mgetH_fresh {st : MSt σ} (hf : st.fresh) (t : Tgt) : (mgetH st t).fresh st.yp := by
  cases t with
  | r => exact hf.1
  | v =>
    cases hv : st.v with
    | none => simpa [mgetH, hv] using hf.1
    | some h => simpa [mgetH, hv] using hf.2 h hv

theorem core_core (h : MHandle) : h.core.core = h.core := rfl

theorem forget_msetH (st : MSt σ) (t : Tgt) (a b : MHandle) (hab : a.core = b.core) (s : σ)
    (ss : List (List Key)) :
    forget ({ msetH st t a with src := s, sets := ss } : MSt σ) =
      forget ({ msetH (forget st) t b with src := s, sets := ss } : MSt σ) := by
  have hcc : (MHandle.core ∘ MHandle.core) = MHandle.core := by funext x; rfl
  cases t with
  | r => simp [msetH, forget, hab, hcc]
  | v =>
    cases hv : st.v with
    | none => simp [msetH, forget, hv, hab]
    | some x => simp [msetH, forget, hv, hab, core_core]

theorem fresh_msetH {st : MSt σ} (hf : st.fresh) (t : Tgt) (a : MHandle) (ha : a.fresh st.yp) (s : σ)
    (ss : List (List Key)) : ({ msetH st t a with src := s, sets := ss } : MSt σ).fresh := by
  cases t with
  | r => exact ⟨ha, hf.2⟩
  | v =>
    cases hv : st.v with
    | none =>
      refine ⟨by simpa [msetH, hv] using ha, ?_⟩
      intro x hx
      simp [msetH, hv] at hx
    | some h =>
      refine ⟨by simpa [msetH, hv] using hf.1, ?_⟩
      intro x hx
      simp only [msetH, hv, Option.some.injEq] at hx
      rw [← hx]
      simpa [msetH, hv] using ha

/-- fetch through a getter: same captured configuration whether the memo is used or empty -/
theorem fetch_transparent {α : Type} (st : MSt σ) (t : Tgt) (hf : st.fresh)
    (get : MHandle → Cap × MHandle)
    (hget : ∀ h : MHandle, h.fresh st.yp → ∃ y, (get h).1 = capOf h y ∧ (get h.core).1 = capOf h y ∧
      (get h).2.core = h.core ∧ (get h.core).2.core = h.core ∧ (get h).2.fresh st.yp)
    (run : Cap → View → α × Handle × σ) (out : α → Out) :
    let a := get (mgetH st t)
    let b := get (mgetH (forget st) t)
    let ra := run a.1 a.2.view
    let rb := run b.1 b.2.view
    out ra.1 = out rb.1 ∧
    forget ({ msetH st t a.2 with src := ra.2.2, sets := writeBack st.sets a.1 ra.2.1 } : MSt σ) =
      forget ({ msetH (forget st) t b.2 with src := rb.2.2, sets := writeBack st.sets b.1 rb.2.1 } : MSt σ) ∧
    ({ msetH st t a.2 with src := ra.2.2, sets := writeBack st.sets a.1 ra.2.1 } : MSt σ).fresh := by
  intro a b ra rb
  have hh := hget (mgetH st t) (mgetH_fresh hf t)
  obtain ⟨y, h1, h2, h3, h4, h5⟩ := hh
  have hb : b = get (mgetH st t).core := by show get (mgetH (forget st) t) = _; rw [mgetH_forget]
  have hcap : a.1 = b.1 := by rw [hb]; show (get (mgetH st t)).1 = _; rw [h1, h2]
  have hcore : a.2.core = b.2.core := by rw [hb]; show (get (mgetH st t)).2.core = _; rw [h3, h4]
  have hview : a.2.view = b.2.view := (core_eq_fields hcore).1
  have hr : ra = rb := by show run a.1 a.2.view = run b.1 b.2.view; rw [hcap, hview]
  refine ⟨by rw [hr], ?_, ?_⟩
  · rw [hr, hcap]
    exact forget_msetH st t a.2 b.2 hcore _ _
  · exact fresh_msetH hf t a.2 h5 _ _

end Transparent
end SaVerif.Result

namespace SaVerif.Result
section Transparent2
variable {σ : Type} (O : SrcOps σ) (pol : Policy)

theorem capOf_core (h : MHandle) (y : Option Nat) : capOf h.core y = capOf h y := rfl

theorem hget_one (yp : Option Nat) : ∀ h : MHandle, h.fresh yp → ∃ y, (getOne true h).1 = capOf h y ∧
    (getOne true h.core).1 = capOf h y ∧ (getOne true h).2.core = h.core ∧ (getOne true h.core).2.core = h.core ∧
    (getOne true h).2.fresh yp := fun h hf =>
  ⟨none, (getOne_fresh hf).1, (getOne_fresh (core_fresh h yp)).1, (getOne_fresh hf).2.1,
    (getOne_fresh (core_fresh h yp)).2.1, (getOne_fresh hf).2.2⟩

theorem hget_iter (yp : Option Nat) : ∀ h : MHandle, h.fresh yp → ∃ y, (getIter true h).1 = capOf h y ∧
    (getIter true h.core).1 = capOf h y ∧ (getIter true h).2.core = h.core ∧ (getIter true h.core).2.core = h.core ∧
    (getIter true h).2.fresh yp := fun h hf =>
  ⟨none, (getIter_fresh hf).1, (getIter_fresh (core_fresh h yp)).1, (getIter_fresh hf).2.1,
    (getIter_fresh (core_fresh h yp)).2.1, (getIter_fresh hf).2.2⟩

theorem hget_all (yp : Option Nat) : ∀ h : MHandle, h.fresh yp → ∃ y, (getAll true h).1 = capOf h y ∧
    (getAll true h.core).1 = capOf h y ∧ (getAll true h).2.core = h.core ∧ (getAll true h.core).2.core = h.core ∧
    (getAll true h).2.fresh yp := fun h hf =>
  ⟨none, (getAll_fresh hf).1, (getAll_fresh (core_fresh h yp)).1, (getAll_fresh hf).2.1,
    (getAll_fresh (core_fresh h yp)).2.1, (getAll_fresh hf).2.2⟩

theorem hget_many (yp : Option Nat) : ∀ h : MHandle, h.fresh yp → ∃ y, (getMany true h yp).1 = capOf h y ∧
    (getMany true h.core yp).1 = capOf h y ∧ (getMany true h yp).2.core = h.core ∧
    (getMany true h.core yp).2.core = h.core ∧ (getMany true h yp).2.fresh yp := fun h hf =>
  ⟨yp, (getMany_fresh hf).1, (getMany_fresh (core_fresh h yp)).1, (getMany_fresh hf).2.1,
    (getMany_fresh (core_fresh h yp)).2.1, (getMany_fresh hf).2.2⟩

theorem forget_msetH' (st : MSt σ) (t : Tgt) (a b : MHandle) (hab : a.core = b.core)
    (ss : List (List Key)) :
    forget ({ msetH st t a with sets := ss } : MSt σ) = forget ({ msetH (forget st) t b with sets := ss } : MSt σ) := by
  have := forget_msetH st t a b hab st.src ss
  have e1 : ({ msetH st t a with src := st.src, sets := ss } : MSt σ) = { msetH st t a with sets := ss } := by
    rw [show st.src = (msetH st t a).src from (msetH_src st t a).1.symm]
  have e2 : ({ msetH (forget st) t b with src := st.src, sets := ss } : MSt σ) = { msetH (forget st) t b with sets := ss } := by
    rw [show st.src = (msetH (forget st) t b).src from (msetH_src (forget st) t b).1.symm]
  rw [e1, e2] at this
  exact this

theorem fresh_msetH' {st : MSt σ} (hf : st.fresh) (t : Tgt) (a : MHandle) (ha : a.fresh st.yp)
    (ss : List (List Key)) : ({ msetH st t a with sets := ss } : MSt σ).fresh := by
  have := fresh_msetH hf t a ha st.src ss
  rw [show st.src = (msetH st t a).src from (msetH_src st t a).1.symm] at this
  exact this

theorem empty_fresh (h : MHandle) (yp : Option Nat) (he : h.memo = Memo.empty) : h.fresh yp := by
  simp [MHandle.fresh, he, Memo.empty]

theorem reset_fresh (h : MHandle) (yp : Option Nat) (b : Bool) (hb : b = true ∨ h.memo = Memo.empty) :
    (h.reset b).fresh yp := by
  unfold MHandle.reset
  cases b with
  | true => exact empty_fresh _ _ rfl
  | false =>
    rcases hb with h0 | h0
    · cases h0
    · exact empty_fresh _ _ h0

theorem reset_core (h : MHandle) (b : Bool) : (h.reset b).core = h.core := by
  unfold MHandle.reset; cases b <;> rfl

theorem fresh_yp {h : MHandle} {yp yp' : Option Nat} (hf : h.fresh yp) (hm : h.memo.many = none) : h.fresh yp' := by
  obtain ⟨f1, f2, f3, f4, _⟩ := hf
  exact ⟨f1, f2, f3, f4, by intro c hc; rw [hm] at hc; cases hc⟩

theorem only_transparent (st : MSt σ) (t : Tgt) (a b c : Bool) (hf : st.fresh) :
    (mstep.only O true st t a b c).1.1 = (mstep.only O true (forget st) t a b c).1.1 ∧
    forget (mstep.only O true st t a b c).2 = forget (mstep.only O true (forget st) t a b c).2 ∧
    (mstep.only O true st t a b c).2.fresh := by
  have hh := hget_all st.yp (mgetH st t) (mgetH_fresh hf t)
  obtain ⟨y, h1, h2, h3, h4, h5⟩ := hh
  simp only [mstep.only, mgetH_forget]
  have hcap : (getAll true (mgetH st t)).1 = (getAll true (mgetH st t).core).1 := by rw [h1, h2]
  have hcore : (getAll true (mgetH st t)).2.core = (getAll true (mgetH st t).core).2.core := by rw [h3, h4]
  have hview := (core_eq_fields hcore).1
  rw [show (forget st).sss = st.sss from rfl, show (forget st).sets = st.sets from rfl,
    show (forget st).src = st.src from rfl, ← hcap, ← hview]
  refine ⟨rfl, ?_, ?_⟩
  · have := forget_msetH st t _ _ hcore
      (onlyOne O st.sss (capHandle st.sets (getAll true (mgetH st t)).2.view (getAll true (mgetH st t)).1) a b c st.src).2 st.sets
    have e : ∀ (x : MSt σ) s, ({ x with src := s, sets := x.sets } : MSt σ) = { x with src := s } := fun _ _ => rfl
    simpa [show (msetH st t (getAll true (mgetH st t)).2).sets = st.sets from by
        cases t with
        | r => rfl
        | v => cases hv : st.v <;> simp [msetH, hv],
      show (msetH (forget st) t (getAll true (mgetH st t).core).2).sets = st.sets from by
        cases t with
        | r => rfl
        | v => cases hv : st.v <;> simp [msetH, forget, hv]] using this
  · have := fresh_msetH hf t _ h5
      (onlyOne O st.sss (capHandle st.sets (getAll true (mgetH st t)).2.view (getAll true (mgetH st t)).1) a b c st.src).2 st.sets
    have hs : (msetH st t (getAll true (mgetH st t)).2).sets = st.sets := by
      cases t with
      | r => rfl
      | v => cases hv : st.v <;> simp [msetH, hv]
    simpa [hs] using this

end Transparent2
end SaVerif.Result
