import SaVerif.Lemmas.Result
/-! Declarative characterisation of the Result-level loops over the bare list. -/
namespace SaVerif.Result

/-- the first `n` rows whose key has not been seen, in order of appearance:
    (items, updated seen-set, rows not touched) -/
def takeUniq (sss : Bool) (h : Handle) (u : UStrat) :
    List Row → Nat → List Key → List Item × List Key × List Row
  | [], _, seen => ([], seen, [])
  | r :: rest, n, seen =>
    if n = 0 then ([], seen, r :: rest)
    else
      let k := keyOf u (mkItem sss h r)
      if seen.contains k then takeUniq sss h u rest n seen
      else
        match takeUniq sss h u rest (n - 1) (k :: seen) with
        | (o, s', r') => (mkItem sss h r :: o, s', r')

/-- every key met while scanning `rows` is hashable -/
def hashableRows (sss : Bool) (h : Handle) (u : UStrat) (rows : List Row) : Prop :=
  ∀ r ∈ rows, (keyOf u (mkItem sss h r)).hashable = true

theorem takeUniq_zero (sss : Bool) (h : Handle) (u : UStrat) (rows : List Row) (seen : List Key) :
    takeUniq sss h u rows 0 seen = ([], seen, rows) := by
  cases rows <;> simp [takeUniq]

theorem uniqFold_append (u : UStrat) :
    ∀ (a b : List Item) (seen : List Key) (oa : List Item) (sa : List Key),
      uniqFold u a seen = (some oa, sa) →
      uniqFold u (a ++ b) seen =
        (match uniqFold u b sa with
         | (some ob, sb) => (some (oa ++ ob), sb)
         | (none, sb) => (none, sb)) := by
  intro a
  induction a with
  | nil =>
    intro b seen oa sa h
    simp only [uniqFold] at h
    cases h
    simp only [List.nil_append]
    rcases uniqFold u b seen with ⟨ob, sb⟩
    cases ob <;> simp
  | cons x xs ih =>
    intro b seen oa sa h
    simp only [uniqFold, List.cons_append] at h ⊢
    split at h
    · cases h
    · rename_i hh
      simp only [hh]
      split at h
      · rename_i hc
        simp only [hc, if_true]
        exact ih b seen oa sa h
      · rename_i hc
        simp only [hc]
        rcases hx : uniqFold u xs (keyOf u x :: seen) with ⟨o1, s1⟩
        rw [hx] at h
        cases o1 with
        | none => simp at h
        | some o1 =>
          simp only [Prod.mk.injEq, Option.some.injEq] at h
          obtain ⟨rfl, rfl⟩ := h
          rw [ih b _ o1 s1 hx]
          rcases uniqFold u b s1 with ⟨ob, sb⟩
          cases ob <;> simp

/-- what `takeUniq` returns is the de-duplication of exactly the prefix it consumed -/
theorem takeUniq_prefix (sss : Bool) (h : Handle) (u : UStrat) :
    ∀ (rows : List Row) (n : Nat) (seen : List Key), hashableRows sss h u rows →
      ∃ c, rows = c ++ (takeUniq sss h u rows n seen).2.2 ∧
        uniqFold u (c.map (mkItem sss h)) seen =
          (some (takeUniq sss h u rows n seen).1, (takeUniq sss h u rows n seen).2.1) := by
  intro rows
  induction rows with
  | nil => intro n seen _; exact ⟨[], by simp [takeUniq, uniqFold]⟩
  | cons r rest ih =>
    intro n seen hh
    have hr : (keyOf u (mkItem sss h r)).hashable = true := hh r (by simp)
    have hrest : hashableRows sss h u rest := fun x hx => hh x (by simp [hx])
    simp only [takeUniq]
    by_cases hn : n = 0
    · simp only [hn, if_true]
      exact ⟨[], by simp [uniqFold]⟩
    · simp only [hn, if_false]
      by_cases hc : seen.contains (keyOf u (mkItem sss h r)) = true
      · simp only [hc, if_true]
        obtain ⟨c, h1, h2⟩ := ih n seen hrest
        refine ⟨r :: c, by simp [← h1], ?_⟩
        simp only [List.map_cons, uniqFold, hr, hc]
        simpa using h2
      · simp only [hc]
        obtain ⟨c, h1, h2⟩ := ih (n - 1) (keyOf u (mkItem sss h r) :: seen) hrest
        refine ⟨r :: c, by simp [← h1], ?_⟩
        simp only [List.map_cons, uniqFold, hr, hc]
        rw [h2]
        simp

theorem uniqFold_length_le (u : UStrat) :
    ∀ (a : List Item) (seen : List Key) (o : List Item) (s : List Key),
      uniqFold u a seen = (some o, s) → o.length ≤ a.length := by
  intro a
  induction a with
  | nil => intro seen o s h; simp [uniqFold] at h; simp [h.1.symm]
  | cons x xs ih =>
    intro seen o s h
    simp only [uniqFold] at h
    split at h
    · cases h
    · split at h
      · have := ih _ _ _ h; simp; omega
      · rcases hx : uniqFold u xs (keyOf u x :: seen) with ⟨o1, s1⟩
        rw [hx] at h
        cases o1 with
        | none => simp at h
        | some o1 =>
          simp only [Prod.mk.injEq, Option.some.injEq] at h
          have := ih _ _ _ hx
          rw [← h.1]; simp; omega

theorem uniqFold_hashable (sss : Bool) (h : Handle) (u : UStrat) :
    ∀ (a : List Row) (seen : List Key), hashableRows sss h u a →
      ∃ o s, uniqFold u (a.map (mkItem sss h)) seen = (some o, s) := by
  intro a
  induction a with
  | nil => intro seen _; exact ⟨[], seen, by simp [uniqFold]⟩
  | cons r rest ih =>
    intro seen hh
    have hr : (keyOf u (mkItem sss h r)).hashable = true := hh r (by simp)
    have hrest : hashableRows sss h u rest := fun x hx => hh x (by simp [hx])
    simp only [List.map_cons, uniqFold, hr]
    by_cases hc : seen.contains (keyOf u (mkItem sss h r)) = true
    · simp only [hc]; simpa using ih seen hrest
    · obtain ⟨o, s, hos⟩ := ih (keyOf u (mkItem sss h r) :: seen) hrest
      simp only [hc, hos]
      exact ⟨_, _, rfl⟩

/-- scanning a batch `a` of at most `n` rows and then continuing equals scanning `a ++ b` -/
theorem takeUniq_append (sss : Bool) (h : Handle) (u : UStrat) :
    ∀ (a b : List Row) (n : Nat) (seen : List Key) (oa : List Item) (sa : List Key),
      a.length ≤ n → uniqFold u (a.map (mkItem sss h)) seen = (some oa, sa) →
      takeUniq sss h u (a ++ b) n seen =
        (oa ++ (takeUniq sss h u b (n - oa.length) sa).1,
          (takeUniq sss h u b (n - oa.length) sa).2.1, (takeUniq sss h u b (n - oa.length) sa).2.2) := by
  intro a
  induction a with
  | nil =>
    intro b n seen oa sa _ hu
    simp only [List.map_nil, uniqFold, Prod.mk.injEq, Option.some.injEq] at hu
    obtain ⟨rfl, rfl⟩ := hu
    simp
  | cons r rest ih =>
    intro b n seen oa sa hlen hu
    simp only [List.length_cons] at hlen
    have hn : n ≠ 0 := by omega
    simp only [List.cons_append, takeUniq, hn, if_false]
    simp only [List.map_cons, uniqFold] at hu
    split at hu
    · cases hu
    · split at hu
      · rename_i hc
        simp only [hc, if_true]
        exact ih b n seen oa sa (by omega) hu
      · rename_i hc
        simp only [hc]
        rcases hx : uniqFold u (rest.map (mkItem sss h)) (keyOf u (mkItem sss h r) :: seen) with ⟨o1, s1⟩
        rw [hx] at hu
        cases o1 with
        | none => simp at hu
        | some o1 =>
          simp only [Prod.mk.injEq, Option.some.injEq] at hu
          obtain ⟨rfl, rfl⟩ := hu
          rw [ih b (n - 1) _ o1 s1 (by omega) hx]
          have : n - 1 - o1.length = n - (mkItem sss h r :: o1).length := by simp; omega
          simp [this]

end SaVerif.Result

namespace SaVerif.Result

theorem hashableRows_take {sss : Bool} {h : Handle} {u : UStrat} {rows : List Row} (n : Nat)
    (hh : hashableRows sss h u rows) : hashableRows sss h u (rows.take n) :=
  fun r hr => hh r (List.mem_of_mem_take hr)

theorem hashableRows_drop {sss : Bool} {h : Handle} {u : UStrat} {rows : List Row} (n : Nat)
    (hh : hashableRows sss h u rows) : hashableRows sss h u (rows.drop n) :=
  fun r hr => hh r (List.mem_of_mem_drop hr)

/-- **the batching loop of the uniquing `fetchmany` computes `takeUniq`** -/
theorem manyLoop_plain (sss : Bool) (h : Handle) (u : UStrat) (num : Nat) :
    ∀ (fuel : Nat) (collect : List Item) (seen : List Key) (p : Plain),
      p.hard = false → hashableRows sss h u p.rem → p.rem.length < fuel →
      (manyLoop Plain.ops sss h u num fuel collect seen p).1 =
          .ok (collect ++ (takeUniq sss h u p.rem (num - collect.length) seen).1) ∧
      (manyLoop Plain.ops sss h u num fuel collect seen p).2.1 =
          (takeUniq sss h u p.rem (num - collect.length) seen).2.1 ∧
      (manyLoop Plain.ops sss h u num fuel collect seen p).2.2.rem =
          (takeUniq sss h u p.rem (num - collect.length) seen).2.2 ∧
      (manyLoop Plain.ops sss h u num fuel collect seen p).2.2.hard = false := by
  intro fuel
  induction fuel with
  | zero => intro collect seen p _ _ hf; omega
  | succ f ih =>
    intro collect seen p hhard hh hf
    simp only [manyLoop]
    by_cases hreq : num - collect.length = 0
    · simp [hreq, takeUniq_zero, hhard]
    · simp only [hreq, if_false]
      have hfm : Plain.ops.fetchmany (some (num - collect.length)) p =
          (.ok (p.rem.take (num - collect.length)),
            { p with rem := p.rem.drop (num - collect.length),
                     d1 := p.d1 && !(p.rem.take (num - collect.length)).isEmpty }) := by
        simp [Plain.ops, Plain.fetchmany, hhard]
      rw [hfm]
      cases htk : p.rem.take (num - collect.length) with
      | nil =>
        have hrem : p.rem = [] := by
          rcases List.take_eq_nil_iff.1 htk with h0 | h0
          · exact absurd h0 hreq
          · exact h0
        simp [hrem, takeUniq, hhard]
      | cons r rs =>
        simp only
        have hha : hashableRows sss h u (p.rem.take (num - collect.length)) := hashableRows_take _ hh
        obtain ⟨out, seen1, huf⟩ := uniqFold_hashable sss h u _ seen hha
        rw [htk] at huf
        rw [huf]
        simp only
        have hlen : (p.rem.take (num - collect.length)).length ≤ num - collect.length := by
          simp [List.length_take]; omega
        have hsplit := takeUniq_append sss h u (p.rem.take (num - collect.length))
          (p.rem.drop (num - collect.length)) (num - collect.length) seen out seen1 hlen (by rw [htk]; exact huf)
        rw [List.take_append_drop] at hsplit
        have hol : out.length ≤ num - collect.length := by
          have := uniqFold_length_le u _ _ _ _ huf
          rw [← htk] at this
          simp [List.length_take] at this
          omega
        have hdl : (p.rem.drop (num - collect.length)).length < f := by
          have : 0 < (p.rem.take (num - collect.length)).length := by rw [htk]; simp
          simp [List.length_take] at this
          simp [List.length_drop]; omega
        have hi := ih (collect ++ out) seen1
          { p with rem := p.rem.drop (num - collect.length),
                   d1 := p.d1 && !(r :: rs).isEmpty }
          hhard (hashableRows_drop _ hh) hdl
        have hnum : num - (collect ++ out).length = num - collect.length - out.length := by
          simp; omega
        rw [hnum] at hi
        rw [hsplit]
        simp only [List.isEmpty_cons, Bool.not_false, Bool.and_true] at hi ⊢
        refine ⟨?_, hi.2.1, hi.2.2.1, hi.2.2.2⟩
        rw [hi.1]; simp

end SaVerif.Result

namespace SaVerif.Result

theorem Plain.fetchone_open (b : Bool) (p : Plain) (hh : p.hard = false) :
    Plain.ops.fetchone b p =
      (match p.rem with
       | [] => (.ok none, { rem := [], hard := b, d1 := false })
       | r :: rest => (.ok (some r), { p with rem := rest })) := by
  obtain ⟨rem, hard, d1⟩ := p
  simp only at hh; subst hh
  cases rem <;> simp [Plain.ops, Plain.fetchone]

theorem Plain.rawNext_open (p : Plain) (hh : p.hard = false) :
    Plain.ops.rawNext p =
      (match p.rem with
       | [] => (.ok none, { rem := [], hard := false, d1 := false })
       | r :: rest => (.ok (some r), { p with rem := rest })) := by
  obtain ⟨rem, hard, d1⟩ := p
  simp only at hh; subst hh
  cases rem <;> simp [Plain.ops, Plain.rawNext]

/-- the skip loop of the uniquing `fetchone` / iterator step computes `takeUniq … 1` -/
theorem oneLoop_plain (raw sss : Bool) (h : Handle) (u : UStrat) :
    ∀ (fuel : Nat) (seen : List Key) (p : Plain),
      p.hard = false → hashableRows sss h u p.rem → p.rem.length < fuel →
      (oneLoop Plain.ops raw sss h u fuel seen p).1 = .ok (takeUniq sss h u p.rem 1 seen).1.head? ∧
      (oneLoop Plain.ops raw sss h u fuel seen p).2.1 = (takeUniq sss h u p.rem 1 seen).2.1 ∧
      (oneLoop Plain.ops raw sss h u fuel seen p).2.2.rem = (takeUniq sss h u p.rem 1 seen).2.2 ∧
      (oneLoop Plain.ops raw sss h u fuel seen p).2.2.hard = false := by
  intro fuel
  induction fuel with
  | zero => intro seen p _ _ hf; omega
  | succ f ih =>
    intro seen p hhard hh hf
    have hprim : (if raw then Plain.ops.rawNext p else Plain.ops.fetchone false p) =
        (match p.rem with
         | [] => (.ok none, { rem := [], hard := false, d1 := false })
         | r :: rest => (.ok (some r), { p with rem := rest })) := by
      cases raw
      · simpa using Plain.fetchone_open false p hhard
      · simpa using Plain.rawNext_open p hhard
    simp only [oneLoop]
    rw [hprim]
    cases hrem : p.rem with
    | nil => simp [takeUniq]
    | cons r rest =>
      have hr : (keyOf u (mkItem sss h r)).hashable = true := hh r (by simp [hrem])
      simp only [hr, Bool.not_true, Bool.false_eq_true, if_false, takeUniq, Nat.succ_ne_zero]
      by_cases hc : seen.contains (keyOf u (mkItem sss h r)) = true
      · simp only [hc, if_true]
        have := ih seen { p with rem := rest } hhard
          (fun x hx => hh x (by simp [hrem, hx])) (by simp [hrem] at hf; simpa using hf)
        simpa using this
      · simp only [hc]
        simp [takeUniq_zero, hhard]

end SaVerif.Result

namespace SaVerif.Result

/-! ## "delivered = de-duplicated projection of the consumed prefix" -/

/-- what a handle must hand out for the consumed raw rows `c`: their projection, with the
    unique filter (if any) applied against the handle's seen-set; `none` = TypeError -/
def deliver (sss : Bool) (h : Handle) (c : List Row) : Option (List Item) × Handle :=
  match h.uq with
  | none => (some (c.map (mkItem sss h)), h)
  | some u =>
    ((uniqFold u.strat (c.map (mkItem sss h)) u.seen).1,
      { h with uq := some { u with seen := (uniqFold u.strat (c.map (mkItem sss h)) u.seen).2 } })

/-- same projection, same filter strategy (only the seen-set may differ) -/
def Handle.sameShape (h h' : Handle) : Prop :=
  h'.view = h.view ∧ h'.cols = h.cols ∧ (h'.uq.map (·.strat)) = (h.uq.map (·.strat))

theorem mkItem_shape {sss : Bool} {h h' : Handle} (hs : h.sameShape h') (r : Row) :
    mkItem sss h' r = mkItem sss h r := by
  obtain ⟨hv, hc, _⟩ := hs
  simp [mkItem, hv, hc]

theorem postItem_shape {sss : Bool} {h h' : Handle} (hs : h.sameShape h') (it : Item) :
    postItem sss h' it = postItem sss h it := by
  obtain ⟨hv, _, _⟩ := hs
  simp [postItem, hv]

theorem deliver_shape {sss : Bool} {h : Handle} {c : List Row} : h.sameShape (deliver sss h c).2 := by
  unfold deliver
  cases hu : h.uq with
  | none => simp [Handle.sameShape, hu]
  | some u => simp [Handle.sameShape, hu]

theorem sameShape_trans {h1 h2 h3 : Handle} (a : h1.sameShape h2) (b : h2.sameShape h3) :
    h1.sameShape h3 :=
  ⟨b.1.trans a.1, b.2.1.trans a.2.1, b.2.2.trans a.2.2⟩

theorem deliver_append (sss : Bool) (h : Handle) (c1 c2 : List Row) (o1 : List Item)
    (h1 : deliver sss h c1 = (some o1, (deliver sss h c1).2)) :
    deliver sss h (c1 ++ c2) =
      ((match (deliver sss (deliver sss h c1).2 c2).1 with
        | some o2 => some (o1 ++ o2)
        | none => none), (deliver sss (deliver sss h c1).2 c2).2) := by
  have hsh : h.sameShape (deliver sss h c1).2 := deliver_shape
  have hmk : ∀ r, mkItem sss (deliver sss h c1).2 r = mkItem sss h r := fun r => mkItem_shape hsh r
  unfold deliver at h1 ⊢
  cases hu : h.uq with
  | none =>
    simp only [hu] at h1 ⊢
    simp only [Prod.mk.injEq, Option.some.injEq] at h1
    simp [← h1.1]
  | some u =>
    simp only [hu] at h1 ⊢
    have hfold : uniqFold u.strat (c1.map (mkItem sss h)) u.seen =
        (some o1, (uniqFold u.strat (c1.map (mkItem sss h)) u.seen).2) := by
      have := congrArg Prod.fst h1
      simp only at this
      exact Prod.ext this rfl
    have happ := uniqFold_append u.strat (c1.map (mkItem sss h)) (c2.map (mkItem sss h)) u.seen o1 _ hfold
    have hmk2 : (c2.map (mkItem sss { h with uq := some { u with seen := (uniqFold u.strat (c1.map (mkItem sss h)) u.seen).2 } })) =
        c2.map (mkItem sss h) := by
      apply List.map_congr_left
      intro r _
      simp [mkItem]
    simp only [List.map_append, hmk2]
    rw [happ]
    rcases uniqFold u.strat (c2.map (mkItem sss h)) (uniqFold u.strat (c1.map (mkItem sss h)) u.seen).2 with ⟨ob, sb⟩
    cases ob <;> simp

/-- the handle's filter never meets an unhashable key in `rows` -/
def Handle.hashOk (sss : Bool) (h : Handle) (rows : List Row) : Prop :=
  ∀ u, h.uq = some u → hashableRows sss h u.strat rows

/-- one call consumed the prefix `c` of the remaining rows, handed out `items`, left the
    rest untouched and the source open -/
def Delivers (sss : Bool) (h : Handle) (p : Plain) (items : List Item) (h' : Handle) (p' : Plain) : Prop :=
  ∃ c pre, p.rem = c ++ p'.rem ∧ deliver sss h c = (some pre, h') ∧
    items = pre.map (postItem sss h) ∧ p'.hard = false

theorem Delivers.shape {sss : Bool} {h h' : Handle} {p p' : Plain} {items : List Item}
    (d : Delivers sss h p items h' p') : h.sameShape h' := by
  obtain ⟨c, pre, _, hd, _, _⟩ := d
  have := deliver_shape (sss := sss) (h := h) (c := c)
  rw [hd] at this
  exact this

theorem Delivers.refl (sss : Bool) (h : Handle) (p : Plain) (hp : p.hard = false) :
    Delivers sss h p [] h p := by
  refine ⟨[], [], by simp, ?_, by simp, hp⟩
  unfold deliver
  cases hu : h.uq with
  | none => simp
  | some u =>
    simp only [List.map_nil, uniqFold]
    have : ({ h with uq := some { u with seen := u.seen } } : Handle) = h := by
      cases h; simp_all
    simp [this]

theorem Delivers.trans {sss : Bool} {h h1 h2 : Handle} {p p1 p2 : Plain} {i1 i2 : List Item}
    (d1 : Delivers sss h p i1 h1 p1) (d2 : Delivers sss h1 p1 i2 h2 p2) :
    Delivers sss h p (i1 ++ i2) h2 p2 := by
  have hsh := d1.shape
  obtain ⟨c1, pre1, e1, hd1, hi1, _⟩ := d1
  obtain ⟨c2, pre2, e2, hd2, hi2, hp2⟩ := d2
  refine ⟨c1 ++ c2, pre1 ++ pre2, by rw [e1, e2]; simp, ?_, ?_, hp2⟩
  · have h1eq : (deliver sss h c1).2 = h1 := by rw [hd1]
    have := deliver_append sss h c1 c2 pre1 (by rw [hd1])
    rw [this, h1eq, hd2]
  · rw [hi1, hi2]
    simp only [List.map_append]
    congr 1
    apply List.map_congr_left
    intro it _
    exact postItem_shape hsh it

theorem hashOk_shape {sss : Bool} {h h' : Handle} {rows : List Row} (hs : h.sameShape h')
    (hh : h.hashOk sss rows) : h'.hashOk sss rows := by
  intro u' hu' r hr
  obtain ⟨hv, hc, hst⟩ := hs
  rw [hu'] at hst
  cases hu : h.uq with
  | none => simp [hu] at hst
  | some u =>
    simp only [hu, Option.map_some, Option.some.injEq] at hst
    have := hh u hu r hr
    rw [mkItem_shape ⟨hv, hc, by simp [hu, hu', hst]⟩ r, hst]
    exact this

theorem hashOk_suffix {sss : Bool} {h : Handle} {c rest : List Row}
    (hh : h.hashOk sss (c ++ rest)) : h.hashOk sss rest :=
  fun u hu r hr => hh u hu r (by simp [hr])

end SaVerif.Result

namespace SaVerif.Result

theorem takeUniq_length_le (sss : Bool) (h : Handle) (u : UStrat) :
    ∀ (rows : List Row) (n : Nat) (seen : List Key), (takeUniq sss h u rows n seen).1.length ≤ n := by
  intro rows
  induction rows with
  | nil => intro n seen; simp [takeUniq]
  | cons r rest ih =>
    intro n seen
    simp only [takeUniq]
    split
    · simp
    · split
      · exact ih n seen
      · have := ih (n - 1) (keyOf u (mkItem sss h r) :: seen)
        simp only [List.length_cons]
        omega

theorem head?_toList_of_length_le_one {α : Type} (l : List α) (h : l.length ≤ 1) :
    l.head?.toList = l := by
  cases l with
  | nil => rfl
  | cons x xs =>
    cases xs with
    | nil => rfl
    | cons y ys => simp at h

theorem deliver_uq (sss : Bool) (h : Handle) (u : UQ) (c : List Row) (hu : h.uq = some u) :
    deliver sss h c = ((uniqFold u.strat (c.map (mkItem sss h)) u.seen).1,
      { h with uq := some { u with seen := (uniqFold u.strat (c.map (mkItem sss h)) u.seen).2 } }) := by
  simp [deliver, hu]

theorem deliver_none (sss : Bool) (h : Handle) (c : List Row) (hu : h.uq = none) :
    deliver sss h c = (some (c.map (mkItem sss h)), h) := by
  simp [deliver, hu]

/-- `fetchone()` / `next()` / one iterator step -/
theorem onerow_delivers (raw sss : Bool) (h : Handle) (p : Plain) (hp : p.hard = false)
    (hh : h.hashOk sss p.rem) :
    ∃ o, (onerow Plain.ops raw sss h p).1 = .ok o ∧
      Delivers sss h p o.toList (onerow Plain.ops raw sss h p).2.1 (onerow Plain.ops raw sss h p).2.2 := by
  unfold onerow
  cases hu : h.uq with
  | none =>
    have hprim : (if raw then Plain.ops.rawNext p else Plain.ops.fetchone false p) =
        (match p.rem with
         | [] => (.ok none, { rem := [], hard := false, d1 := false })
         | r :: rest => (.ok (some r), { p with rem := rest })) := by
      cases raw
      · simpa using Plain.fetchone_open false p hp
      · simpa using Plain.rawNext_open p hp
    simp only
    rw [hprim]
    cases hrem : p.rem with
    | nil =>
      refine ⟨none, rfl, [], [], by simp [hrem], ?_, by simp, rfl⟩
      simp [deliver_none sss h [] hu]
    | cons r rest =>
      refine ⟨some (postItem sss h (mkItem sss h r)), rfl, [r], [mkItem sss h r], by simp [hrem], ?_, by simp, hp⟩
      simp [deliver_none sss h [r] hu]
  | some u =>
    simp only
    have hl := oneLoop_plain raw sss h u.strat (Plain.ops.size p + 1) u.seen p hp (hh u hu)
      (by simp [Plain.ops])
    obtain ⟨c, hc1, hc2⟩ := takeUniq_prefix sss h u.strat p.rem 1 u.seen (hh u hu)
    have hlen := takeUniq_length_le sss h u.strat p.rem 1 u.seen
    rcases hx : oneLoop Plain.ops raw sss h u.strat (Plain.ops.size p + 1) u.seen p with ⟨o, seen', p1⟩
    rw [hx] at hl
    simp only at hl
    obtain ⟨ho, hs, hr, hhd⟩ := hl
    subst ho
    cases hhead : (takeUniq sss h u.strat p.rem 1 u.seen).1.head? with
    | none =>
      simp only
      refine ⟨none, rfl, c, (takeUniq sss h u.strat p.rem 1 u.seen).1, by rw [hr]; exact hc1, ?_, ?_, hhd⟩
      · rw [deliver_uq sss h u c hu, hc2, hs]
      · have := head?_toList_of_length_le_one _ hlen
        rw [hhead] at this
        rw [← this]; simp
    | some it =>
      simp only
      refine ⟨some (postItem sss h it), rfl, c, (takeUniq sss h u.strat p.rem 1 u.seen).1,
        by rw [hr]; exact hc1, ?_, ?_, hhd⟩
      · rw [deliver_uq sss h u c hu, hc2, hs]
      · have := head?_toList_of_length_le_one _ hlen
        rw [hhead] at this
        rw [← this]; simp

end SaVerif.Result

namespace SaVerif.Result

theorem Delivers.hashOk {sss : Bool} {h h' : Handle} {p p' : Plain} {items : List Item}
    (d : Delivers sss h p items h' p') (hh : h.hashOk sss p.rem) : h'.hashOk sss p'.rem := by
  have hsh := d.shape
  obtain ⟨c, pre, e, _, _, _⟩ := d
  rw [e] at hh
  exact hashOk_shape hsh (hashOk_suffix hh)

theorem Plain.fetchmany_open (n : Option Nat) (p : Plain) (hp : p.hard = false) :
    ∃ k, Plain.ops.fetchmany n p =
      (.ok (p.rem.take k), { p with rem := p.rem.drop k, d1 := p.d1 && !(p.rem.take k).isEmpty }) := by
  cases n with
  | none => exact ⟨if p.d1 then 1 else p.rem.length, by simp [Plain.ops, Plain.fetchmany, hp]⟩
  | some n => exact ⟨n, by simp [Plain.ops, Plain.fetchmany, hp]⟩

/-- `fetchmany(num)` -/
theorem manyrows_delivers (sss : Bool) (yp : Option Nat) (h : Handle) (num : Option Nat) (p : Plain)
    (hp : p.hard = false) (hh : h.hashOk sss p.rem) :
    ∃ l, (manyrows Plain.ops sss yp h num p).1 = .ok l ∧
      Delivers sss h p l (manyrows Plain.ops sss yp h num p).2.1 (manyrows Plain.ops sss yp h num p).2.2 := by
  unfold manyrows
  cases hu : h.uq with
  | none =>
    simp only
    obtain ⟨k, hk⟩ := Plain.fetchmany_open (effSize num yp) p hp
    rw [hk]
    refine ⟨_, rfl, p.rem.take k, (p.rem.take k).map (mkItem sss h), by simp, ?_, ?_, hp⟩
    · simp [deliver_none sss h _ hu]
    · simp [List.map_map, Function.comp_def]
  | some u =>
    simp only
    -- the three ways the loop is entered all end in `manyLoop`; treat the loop once
    have loop : ∀ (n : Nat),
        ∃ l, (manyFin sss h u (manyLoop Plain.ops sss h u.strat n (Plain.ops.size p + 1) [] u.seen p)).1 = .ok l ∧
          Delivers sss h p l
            (manyFin sss h u (manyLoop Plain.ops sss h u.strat n (Plain.ops.size p + 1) [] u.seen p)).2.1
            (manyFin sss h u (manyLoop Plain.ops sss h u.strat n (Plain.ops.size p + 1) [] u.seen p)).2.2 := by
      intro n
      have hl := manyLoop_plain sss h u.strat n (Plain.ops.size p + 1) [] u.seen p hp (hh u hu)
        (by simp [Plain.ops])
      obtain ⟨c, hc1, hc2⟩ := takeUniq_prefix sss h u.strat p.rem n u.seen (hh u hu)
      rcases hx : manyLoop Plain.ops sss h u.strat n (Plain.ops.size p + 1) [] u.seen p with ⟨o, seen', p1⟩
      rw [hx] at hl
      simp only [List.length_nil, Nat.sub_zero, List.nil_append] at hl
      obtain ⟨ho, hs, hr, hhd⟩ := hl
      subst ho
      simp only [manyFin]
      refine ⟨_, rfl, c, (takeUniq sss h u.strat p.rem n u.seen).1, by rw [hr]; exact hc1, ?_, rfl, hhd⟩
      rw [deliver_uq sss h u c hu, hc2, hs]
    cases num with
    | some n => exact loop n
    | none =>
      simp only
      split
      · exact loop (ypOr0 yp)
      · obtain ⟨k, hk⟩ := Plain.fetchmany_open none p hp
        rw [hk]
        simp only
        have hha : hashableRows sss h u.strat (p.rem.take k) := hashableRows_take _ (hh u hu)
        obtain ⟨out, seen1, huf⟩ := uniqFold_hashable sss h u.strat _ u.seen hha
        rw [huf]
        simp only
        have hp1 : ({ p with rem := p.rem.drop k, d1 := p.d1 && !(p.rem.take k).isEmpty } : Plain).hard = false := hp
        have hl := manyLoop_plain sss h u.strat (p.rem.take k).length
          (Plain.ops.size { p with rem := p.rem.drop k, d1 := p.d1 && !(p.rem.take k).isEmpty } + 1) out seen1
          { p with rem := p.rem.drop k, d1 := p.d1 && !(p.rem.take k).isEmpty } hp1
          (hashableRows_drop _ (hh u hu)) (by simp [Plain.ops])
        obtain ⟨c2, hc1, hc2⟩ := takeUniq_prefix sss h u.strat (p.rem.drop k)
          ((p.rem.take k).length - out.length) seen1 (hashableRows_drop _ (hh u hu))
        rcases hx : manyLoop Plain.ops sss h u.strat (p.rem.take k).length
          (Plain.ops.size { p with rem := p.rem.drop k, d1 := p.d1 && !(p.rem.take k).isEmpty } + 1) out seen1
          { p with rem := p.rem.drop k, d1 := p.d1 && !(p.rem.take k).isEmpty } with ⟨o, seen', p2⟩
        rw [hx] at hl
        simp only at hl
        obtain ⟨ho, hs, hr, hhd⟩ := hl
        subst ho
        simp only [manyFin]
        refine ⟨_, rfl, p.rem.take k ++ c2,
          out ++ (takeUniq sss h u.strat (p.rem.drop k) ((p.rem.take k).length - out.length) seen1).1,
          ?_, ?_, rfl, hhd⟩
        · rw [hr, List.append_assoc, ← hc1, List.take_append_drop]
        · rw [deliver_uq sss h u _ hu]
          have happ := uniqFold_append u.strat ((p.rem.take k).map (mkItem sss h)) (c2.map (mkItem sss h))
            u.seen out seen1 huf
          rw [List.map_append, happ, hc2, hs]

/-- `all()` / `fetchall()` -/
theorem allrows_delivers (sss : Bool) (h : Handle) (p : Plain) (hp : p.hard = false)
    (hh : h.hashOk sss p.rem) :
    ∃ l, (allrows Plain.ops sss h p).1 = .items l ∧
      Delivers sss h p l (allrows Plain.ops sss h p).2.1 (allrows Plain.ops sss h p).2.2 := by
  unfold allrows
  have hfa : Plain.ops.fetchall p = (.ok p.rem, { p with rem := [], d1 := false }) := by
    simp [Plain.ops, Plain.fetchall, hp]
  rw [hfa]
  simp only
  cases hu : h.uq with
  | none =>
    refine ⟨_, rfl, p.rem, p.rem.map (mkItem sss h), by simp, ?_, by simp, hp⟩
    simp [deliver_none sss h _ hu]
  | some u =>
    simp only
    obtain ⟨out, seen1, huf⟩ := uniqFold_hashable sss h u.strat p.rem u.seen (hh u hu)
    rw [huf]
    refine ⟨_, rfl, p.rem, out, by simp, ?_, rfl, hp⟩
    rw [deliver_uq sss h u _ hu, huf]

end SaVerif.Result

namespace SaVerif.Result

/-- `for row in result` pulled at most `k` times -/
theorem iterLoop_delivers (sss : Bool) :
    ∀ (k : Nat) (h : Handle) (p : Plain), p.hard = false → h.hashOk sss p.rem →
      ∃ l, (iterLoop Plain.ops sss k h p).1 = .ok l ∧
        Delivers sss h p l (iterLoop Plain.ops sss k h p).2.1 (iterLoop Plain.ops sss k h p).2.2 := by
  intro k
  induction k with
  | zero => intro h p hp _; exact ⟨[], rfl, Delivers.refl sss h p hp⟩
  | succ k ih =>
    intro h p hp hh
    simp only [iterLoop]
    obtain ⟨o, ho, hd⟩ := onerow_delivers true sss h p hp hh
    rcases hx : onerow Plain.ops true sss h p with ⟨r, h1, p1⟩
    rw [hx] at ho hd
    simp only at ho hd
    subst ho
    cases o with
    | none => exact ⟨[], rfl, by simpa using hd⟩
    | some it =>
      simp only
      have hp1 : p1.hard = false := by obtain ⟨_, _, _, _, _, h4⟩ := hd; exact h4
      obtain ⟨l, hl, hdl⟩ := ih h1 p1 hp1 (hd.hashOk hh)
      rcases hy : iterLoop Plain.ops sss k h1 p1 with ⟨r2, h2, p2⟩
      rw [hy] at hl hdl
      simp only at hl hdl
      subst hl
      exact ⟨it :: l, rfl, by simpa using hd.trans hdl⟩

/-- `partitions(size)` pulled at most `k` times: the partitions, concatenated -/
theorem partLoop_delivers (sss : Bool) (yp num : Option Nat) :
    ∀ (k : Nat) (h : Handle) (p : Plain), p.hard = false → h.hashOk sss p.rem →
      ∃ ps, (partLoop Plain.ops sss yp num k h p).1 = .ok ps ∧
        Delivers sss h p ps.flatten (partLoop Plain.ops sss yp num k h p).2.1
          (partLoop Plain.ops sss yp num k h p).2.2 := by
  intro k
  induction k with
  | zero => intro h p hp _; exact ⟨[], rfl, Delivers.refl sss h p hp⟩
  | succ k ih =>
    intro h p hp hh
    simp only [partLoop]
    obtain ⟨l, hl, hd⟩ := manyrows_delivers sss yp h num p hp hh
    rcases hx : manyrows Plain.ops sss yp h num p with ⟨r, h1, p1⟩
    rw [hx] at hl hd
    simp only at hl hd
    subst hl
    cases l with
    | nil => exact ⟨[], rfl, by simpa using hd⟩
    | cons x xs =>
      simp only
      have hp1 : p1.hard = false := by obtain ⟨_, _, _, _, _, h4⟩ := hd; exact h4
      obtain ⟨ps, hps, hdl⟩ := ih h1 p1 hp1 (hd.hashOk hh)
      rcases hy : partLoop Plain.ops sss yp num k h1 p1 with ⟨r2, h2, p2⟩
      rw [hy] at hps hdl
      simp only at hps hdl
      subst hps
      exact ⟨(x :: xs) :: ps, rfl, by simpa using hd.trans hdl⟩

/-- calls that only hand out rows, on the Result itself -/
def Op.isData : Op → Bool
  | .fetchone .r | .next .r | .fetchmany .r _ | .fetchall .r | .iter .r _ | .partitions .r _ _ => true
  | _ => false

/-- the rows an output hands to the caller -/
def Out.delivered : Out → List Item
  | .item i => [i]
  | .items l => l
  | .parts ps => ps.flatten
  | _ => []

/-- final facade state of a run -/
def runFinal {σ : Type} (O : SrcOps σ) (st : St σ) : List Op → St σ
  | [] => st
  | op :: ops => runFinal O (step O st op).2 ops

theorem step_delivers (st : St Plain) (op : Op) (hd : op.isData = true) (hv : st.v = none)
    (hp : st.src.hard = false) (hh : st.r.hashOk st.sss st.src.rem) :
    Delivers st.sss st.r st.src (step Plain.ops st op).1.1.delivered (step Plain.ops st op).2.r
      (step Plain.ops st op).2.src ∧
    (step Plain.ops st op).2.v = none ∧ (step Plain.ops st op).2.sss = st.sss := by
  cases op with
  | fetchone t =>
    cases t with
    | v => simp [Op.isData] at hd
    | r =>
      obtain ⟨o, ho, hdl⟩ := onerow_delivers false st.sss st.r st.src hp hh
      simp only [step, getH, setH]
      rcases hx : onerow Plain.ops false st.sss st.r st.src with ⟨r, h1, p1⟩
      rw [hx] at ho hdl
      simp only at ho hdl
      subst ho
      cases o <;> exact ⟨by simpa [exOut, Out.delivered] using hdl, hv, by first | rfl | trivial⟩
  | next t =>
    cases t with
    | v => simp [Op.isData] at hd
    | r =>
      obtain ⟨o, ho, hdl⟩ := onerow_delivers false st.sss st.r st.src hp hh
      simp only [step, getH, setH]
      rcases hx : onerow Plain.ops false st.sss st.r st.src with ⟨r, h1, p1⟩
      rw [hx] at ho hdl
      simp only at ho hdl
      subst ho
      cases o <;> exact ⟨by simpa [exOut, Out.delivered] using hdl, hv, by first | rfl | trivial⟩
  | fetchmany t n =>
    cases t with
    | v => simp [Op.isData] at hd
    | r =>
      obtain ⟨l, hl, hdl⟩ := manyrows_delivers st.sss st.yp st.r n st.src hp hh
      simp only [step, getH, setH]
      rcases hx : manyrows Plain.ops st.sss st.yp st.r n st.src with ⟨r, h1, p1⟩
      rw [hx] at hl hdl
      simp only at hl hdl
      subst hl
      exact ⟨by simpa [Out.delivered] using hdl, hv, by first | rfl | trivial⟩
  | fetchall t =>
    cases t with
    | v => simp [Op.isData] at hd
    | r =>
      obtain ⟨l, hl, hdl⟩ := allrows_delivers st.sss st.r st.src hp hh
      simp only [step, getH, setH]
      rcases hx : allrows Plain.ops st.sss st.r st.src with ⟨r, h1, p1⟩
      rw [hx] at hl hdl
      simp only at hl hdl
      subst hl
      exact ⟨by simpa [Out.delivered] using hdl, hv, by first | rfl | trivial⟩
  | iter t k =>
    cases t with
    | v => simp [Op.isData] at hd
    | r =>
      obtain ⟨l, hl, hdl⟩ := iterLoop_delivers st.sss k st.r st.src hp hh
      simp only [step, getH, setH]
      rcases hx : iterLoop Plain.ops st.sss k st.r st.src with ⟨r, h1, p1⟩
      rw [hx] at hl hdl
      simp only at hl hdl
      subst hl
      exact ⟨by simpa [Out.delivered] using hdl, hv, by first | rfl | trivial⟩
  | partitions t n k =>
    cases t with
    | v => simp [Op.isData] at hd
    | r =>
      obtain ⟨l, hl, hdl⟩ := partLoop_delivers st.sss st.yp n k st.r st.src hp hh
      simp only [step, getH, setH]
      rcases hx : partLoop Plain.ops st.sss st.yp n k st.r st.src with ⟨r, h1, p1⟩
      rw [hx] at hl hdl
      simp only at hl hdl
      subst hl
      exact ⟨by simpa [Out.delivered] using hdl, hv, by first | rfl | trivial⟩
  | unique _ _ => simp [Op.isData] at hd
  | columns _ _ => simp [Op.isData] at hd
  | yieldPer _ _ => simp [Op.isData] at hd
  | scalars _ => simp [Op.isData] at hd
  | mappings => simp [Op.isData] at hd
  | first _ => simp [Op.isData] at hd
  | one _ => simp [Op.isData] at hd
  | oneOrNone _ => simp [Op.isData] at hd
  | scalar => simp [Op.isData] at hd
  | scalarOne => simp [Op.isData] at hd
  | scalarOneOrNone => simp [Op.isData] at hd
  | close _ => simp [Op.isData] at hd
  | closed _ => simp [Op.isData] at hd
  | freeze => simp [Op.isData] at hd

end SaVerif.Result

namespace SaVerif.Result

/-! ## `_only_one_row` over the bare list -/

/-- the closed, emptied source every `_only_one_row` call leaves behind -/
def Plain.done : Plain := { rem := [], hard := true, d1 := false }

/-- the second-row loop: `true` iff some remaining row differs (by key) from the first -/
theorem skipEq_plain (sss : Bool) (h : Handle) (u : UStrat) (k0 : Key) :
    ∀ (fuel : Nat) (p : Plain), p.hard = false → p.rem.length < fuel →
      (skipEq Plain.ops sss h u k0 fuel p).1 =
        .ok (p.rem.any (fun r => decide (keyOf u (mkItem sss h r) ≠ k0))) ∧
      Plain.softClose true (skipEq Plain.ops sss h u k0 fuel p).2 = Plain.done ∧
      (p.rem.any (fun r => decide (keyOf u (mkItem sss h r) ≠ k0)) = false →
        (skipEq Plain.ops sss h u k0 fuel p).2 = Plain.done) := by
  intro fuel
  induction fuel with
  | zero => intro p _ hf; omega
  | succ f ih =>
    intro p hp hf
    simp only [skipEq]
    rw [Plain.fetchone_open true p hp]
    cases hrem : p.rem with
    | nil => simp [Plain.softClose, Plain.done]
    | cons r rest =>
      simp only
      by_cases hk : keyOf u (mkItem sss h r) = k0
      · simp only [hk, if_true]
        have := ih { p with rem := rest } hp (by simp [hrem] at hf; simpa using hf)
        simpa [hk] using this
      · simp [hk, Plain.softClose, Plain.done]

theorem takeUniq_nil_iff (sss : Bool) (h : Handle) (u : UStrat) :
    ∀ (rows : List Row) (n : Nat) (seen : List Key), 0 < n →
      ((takeUniq sss h u rows n seen).1 = [] ↔
        ∀ r ∈ rows, seen.contains (keyOf u (mkItem sss h r)) = true) := by
  intro rows
  induction rows with
  | nil => intro n seen _; simp [takeUniq]
  | cons r rest ih =>
    intro n seen hn
    have hn0 : n ≠ 0 := by omega
    simp only [takeUniq, hn0, if_false]
    by_cases hc : seen.contains (keyOf u (mkItem sss h r)) = true
    · simp only [hc, if_true]
      rw [ih n seen hn]
      constructor
      · intro hall x hx
        rcases List.mem_cons.1 hx with rfl | hx
        · exact hc
        · exact hall x hx
      · intro hall x hx
        exact hall x (List.mem_cons_of_mem _ hx)
    · simp only [hc]
      constructor
      · intro hnil; simp at hnil
      · intro hall
        exact absurd (hall r (by simp)) hc

end SaVerif.Result
