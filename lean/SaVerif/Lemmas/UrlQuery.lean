import SaVerif.Lemmas.Url
/-! Helper lemmas about M-URL, part 2: quote_plus, parse_qsl and the query dict. -/
namespace SaVerif.Url

/-! ### generic scanning lemmas -/

theorem takeWhile_append_cons {α} {p : α → Bool} {a : List α} {c : α} (b : List α)
    (ha : ∀ x ∈ a, p x = true) (hc : p c = false) :
    (a ++ c :: b).takeWhile p = a ∧ (a ++ c :: b).dropWhile p = c :: b := by
  induction a with
  | nil => simp [hc]
  | cons x a ih =>
    have hx := ha x List.mem_cons_self
    have := ih (fun y hy => ha y (List.mem_cons_of_mem _ hy))
    simp [hx, this.1, this.2]

theorem takeWhile_append_nil {α} {p : α → Bool} {a : List α} (ha : ∀ x ∈ a, p x = true) :
    a.takeWhile p = a ∧ a.dropWhile p = [] := ⟨takeWhile_all ha, dropWhile_all ha⟩

/-! ### quote_plus -/

theorem isSafe_space_of_ne {c : Char} (h : c ≠ ' ') : isSafe [' '] c = isSafe [] c := by
  simp [isSafe, h]

theorem quote_space_eq_of_no_space : ∀ {s : Str}, ' ' ∉ s → quote [' '] s = quote [] s := by
  intro s
  induction s with
  | nil => intro _; rfl
  | cons c s ih =>
    intro h
    simp only [List.mem_cons, not_or] at h
    rw [quote_cons, quote_cons, ih h.2]
    have : quoteChar [' '] c = quoteChar [] c := by
      unfold quoteChar
      rw [isSafe_space_of_ne (fun he => h.1 he.symm)]
    rw [this]

theorem plus_not_qAllowed_space : qAllowed [' '] '+' = false := by decide
theorem plus_not_qAllowed_nil : qAllowed [] '+' = false := by decide

theorem plusToSpace_spaceToPlus {c : Char} (h : c ≠ '+') : plusToSpace (spaceToPlus c) = c := by
  unfold spaceToPlus plusToSpace
  by_cases hs : c = ' '
  · subst hs; decide
  · have h1 : (c == ' ') = false := by simpa using hs
    have h2 : (c == '+') = false := by simpa using h
    simp [h1, h2]

theorem map_plusToSpace_of_no_plus : ∀ {l : Str}, '+' ∉ l → l.map plusToSpace = l := by
  intro l
  induction l with
  | nil => intro _; rfl
  | cons c l ih =>
    intro h
    simp only [List.mem_cons, not_or] at h
    have h2 : (c == '+') = false := by simpa using (fun he : c = '+' => h.1 he.symm)
    simp [plusToSpace, h2, ih h.2]

theorem map_plus_space_plus : ∀ {l : Str}, '+' ∉ l → (l.map spaceToPlus).map plusToSpace = l := by
  intro l
  induction l with
  | nil => intro _; rfl
  | cons c l ih =>
    intro h
    simp only [List.mem_cons, not_or] at h
    simp only [List.map_cons]
    rw [plusToSpace_spaceToPlus (fun he => h.1 he.symm)]
    simpa using ih h.2

/-- **quote_plus round trip**: `unquote(quote_plus(s).replace('+', ' ')) = s` -/
theorem qsDecode_quotePlus (s : Str) : qsDecode (quotePlus s) = s := by
  unfold qsDecode quotePlus
  by_cases hsp : s.contains ' ' = true
  · rw [if_pos hsp]
    have hno : '+' ∉ quote [' '] s := fun h => by
      have := mem_quote h
      rw [plus_not_qAllowed_space] at this
      cases this
    rw [map_plus_space_plus hno]
    exact unquote_quote' [' '] (by decide) s
  · rw [if_neg hsp]
    have hno : '+' ∉ quote [] s := fun h => by
      have := mem_quote h
      rw [plus_not_qAllowed_nil] at this
      cases this
    rw [map_plusToSpace_of_no_plus hno]
    exact unquote_quote' [] (by simp) s

/-- characters `quote_plus` can emit -/
theorem mem_quotePlus {s : Str} {x : Char} (h : x ∈ quotePlus s) : qAllowed [] x = true ∨ x = '+' := by
  unfold quotePlus at h
  by_cases hsp : s.contains ' ' = true
  · rw [if_pos hsp] at h
    obtain ⟨y, hy, rfl⟩ := List.mem_map.1 h
    have hq := mem_quote hy
    by_cases hys : y = ' '
    · right; subst hys; decide
    · left
      have h1 : (y == ' ') = false := by simpa using hys
      simp only [spaceToPlus, h1, Bool.false_eq_true, if_false]
      simp only [qAllowed, isSafe_space_of_ne hys] at hq ⊢
      exact hq
  · rw [if_neg hsp] at h
    exact Or.inl (mem_quote h)

theorem amp_not_in_quotePlus {s : Str} : '&' ∉ quotePlus s := fun h => by
  rcases mem_quotePlus h with h | h
  · revert h; decide
  · revert h; decide

theorem eq_not_in_quotePlus {s : Str} : '=' ∉ quotePlus s := fun h => by
  rcases mem_quotePlus h with h | h
  · revert h; decide
  · revert h; decide

theorem at_not_in_quotePlus {s : Str} : '@' ∉ quotePlus s := fun h => by
  rcases mem_quotePlus h with h | h
  · revert h; decide
  · revert h; decide

/-! ### split -/

theorem splitOnChar_none {sep : Char} : ∀ {a : Str}, sep ∉ a → splitOnChar sep a = [a] := by
  intro a
  induction a with
  | nil => intro _; rfl
  | cons c a ih =>
    intro h
    simp only [List.mem_cons, not_or] at h
    have hc : (c == sep) = false := by simpa using fun he => h.1 he.symm
    simp only [splitOnChar, hc, Bool.false_eq_true, if_false, ih h.2]

theorem splitOnChar_append {sep : Char} (b : Str) : ∀ {a : Str}, sep ∉ a →
    splitOnChar sep (a ++ sep :: b) = a :: splitOnChar sep b := by
  intro a
  induction a with
  | nil => intro _; simp [splitOnChar]
  | cons c a ih =>
    intro h
    simp only [List.mem_cons, not_or] at h
    have hc : (c == sep) = false := by simpa using fun he => h.1 he.symm
    simp only [List.cons_append, splitOnChar, hc, Bool.false_eq_true, if_false, ih h.2]

theorem splitOnChar_intercalate {sep : Char} : ∀ {ps : List Str}, ps ≠ [] → (∀ p ∈ ps, sep ∉ p) →
    splitOnChar sep (intercalate [sep] ps) = ps := by
  intro ps
  induction ps with
  | nil => intro h; exact absurd rfl h
  | cons x xs ih =>
    intro _ hall
    cases xs with
    | nil => simp only [intercalate]; exact splitOnChar_none (hall x List.mem_cons_self)
    | cons y ys =>
      simp only [intercalate, List.append_assoc, List.singleton_append]
      rw [splitOnChar_append _ (hall x List.mem_cons_self),
        ih (by simp) (fun p hp => hall p (List.mem_cons_of_mem _ hp))]

theorem splitFirst_append {sep : Char} {a : Str} (b : Str) (h : sep ∉ a) :
    splitFirst sep (a ++ sep :: b) = (a, some b) := by
  unfold splitFirst
  have := takeWhile_append_cons (p := fun x => x != sep) (a := a) (c := sep) b
    (fun x hx => by
      simp only [bne_iff_ne, ne_eq]
      intro he
      exact h (he ▸ hx)) (by simp)
  rw [this.1, this.2]

/-! ### parse_qsl on a rendered query string -/

theorem filterMap_eq_self {α} {f : α → Option α} : ∀ {l : List α}, (∀ x ∈ l, f x = some x) →
    l.filterMap f = l := by
  intro l
  induction l with
  | nil => intro _; rfl
  | cons a l ih =>
    intro h
    rw [List.filterMap_cons, h a List.mem_cons_self, ih (fun x hx => h x (List.mem_cons_of_mem _ hx))]

def pairStr (kv : Str × Str) : Str := quotePlus kv.1 ++ '=' :: quotePlus kv.2

theorem amp_not_in_pairStr (kv : Str × Str) : '&' ∉ pairStr kv := by
  unfold pairStr
  simp only [List.mem_append, List.mem_cons, not_or]
  exact ⟨amp_not_in_quotePlus, by decide, amp_not_in_quotePlus⟩

theorem parseQsl_render {kvs : List (Str × Str)} (hne : kvs ≠ []) :
    parseQsl true (intercalate ['&'] (kvs.map pairStr)) = kvs := by
  unfold parseQsl
  have hne' : kvs.map pairStr ≠ [] := by simpa using hne
  have hnotempty : (intercalate ['&'] (kvs.map pairStr)).isEmpty = false := by
    cases kvs with
    | nil => exact absurd rfl hne
    | cons kv rest =>
      cases rest with
      | nil => simp [intercalate, pairStr]
      | cons kv2 rest2 => simp [intercalate, pairStr]
  rw [hnotempty]
  simp only [Bool.false_eq_true, if_false]
  rw [splitOnChar_intercalate hne' (by
    intro p hp
    obtain ⟨kv, _, rfl⟩ := List.mem_map.1 hp
    exact amp_not_in_pairStr kv)]
  rw [List.filterMap_map]
  have : ∀ kv : Str × Str, ((fun nv : Str =>
      if nv.isEmpty then none
      else
        match splitFirst '=' nv with
        | (n, none) => if true then some (qsDecode n, qsDecode []) else none
        | (n, some v) => if !v.isEmpty || true then some (qsDecode n, qsDecode v) else none) ∘ pairStr) kv
      = some kv := by
    intro kv
    simp only [Function.comp, pairStr]
    have h1 : (quotePlus kv.1 ++ '=' :: quotePlus kv.2).isEmpty = false := by simp
    rw [h1, splitFirst_append _ eq_not_in_quotePlus]
    simp [qsDecode_quotePlus]
  exact filterMap_eq_self (fun kv _ => this kv)


/-! ### rebuilding the query dict -/

def keysOf (q : List (Str × QVal)) : List Str := q.map (·.1)

def kvsOf (e : Str × QVal) : List (Str × Str) := e.2.toList.map (fun v => (e.1, v))

/-- a one-element tuple cannot be told from a plain string in the rendered form, an empty
    one leaves no trace at all -/
def WFVal : QVal → Prop
  | .single _ => True
  | .multi vs => 2 ≤ vs.length

theorem addPair_new {q : List (Str × QVal)} {k v : Str} (h : k ∉ keysOf q) :
    addPair q (k, v) = q ++ [(k, QVal.single v)] := by
  unfold addPair
  have : q.any (fun e => e.1 == k) = false := by
    simp only [List.any_eq_false, beq_iff_eq]
    intro e he hk
    exact h (List.mem_map.2 ⟨e, he, hk⟩)
  simp [this]

theorem addPair_last {acc : List (Str × QVal)} {k w : Str} {qv : QVal} (h : k ∉ keysOf acc) :
    addPair (acc ++ [(k, qv)]) (k, w) = acc ++ [(k, QVal.multi (qv.toList ++ [w]))] := by
  unfold addPair
  have hany : (acc ++ [(k, qv)]).any (fun e => e.1 == k) = true := by simp
  rw [if_pos hany, List.map_append]
  have hacc : acc.map (fun e => if e.1 == k then (e.1, QVal.multi (e.2.toList ++ [w])) else e) = acc := by
    conv => rhs; rw [← List.map_id acc]
    apply List.map_congr_left
    intro e he
    have : (e.1 == k) = false := by
      simp only [beq_eq_false_iff_ne, ne_eq]
      intro hk
      exact h (List.mem_map.2 ⟨e, he, hk⟩)
    simp [this]
  rw [hacc]
  simp

theorem foldl_addPair_more {acc : List (Str × QVal)} {k : Str} (h : k ∉ keysOf acc) :
    ∀ (vs : List Str) (qv : QVal), vs ≠ [] →
      (vs.map (fun v => (k, v))).foldl addPair (acc ++ [(k, qv)]) =
        acc ++ [(k, QVal.multi (qv.toList ++ vs))] := by
  intro vs
  induction vs with
  | nil => intro _ hne; exact absurd rfl hne
  | cons w vs ih =>
    intro qv _
    rw [List.map_cons, List.foldl_cons, addPair_last h]
    cases vs with
    | nil => simp
    | cons w2 vs2 =>
      rw [ih _ (by simp)]
      simp [QVal.toList]

theorem foldl_addPair_entry {acc : List (Str × QVal)} {e : Str × QVal} (h : e.1 ∉ keysOf acc)
    (hw : WFVal e.2) : (kvsOf e).foldl addPair acc = acc ++ [e] := by
  obtain ⟨k, qv⟩ := e
  cases qv with
  | single v => simp [kvsOf, QVal.toList, addPair_new h]
  | multi vs =>
    match vs, hw with
    | v1 :: v2 :: rest, _ =>
      simp only [kvsOf, QVal.toList, List.map_cons, List.foldl_cons]
      rw [addPair_new h]
      have := foldl_addPair_more h (v2 :: rest) (QVal.single v1) (by simp)
      simp only [List.map_cons, List.foldl_cons, QVal.toList] at this
      rw [this]
      simp

theorem foldl_addPair_entries : ∀ (E acc : List (Str × QVal)), (keysOf (acc ++ E)).Nodup →
    (∀ e ∈ E, WFVal e.2) → (E.flatMap kvsOf).foldl addPair acc = acc ++ E := by
  intro E
  induction E with
  | nil => intro acc _ _; simp
  | cons e E ih =>
    intro acc hn hw
    rw [List.flatMap_cons, List.foldl_append]
    have hk : e.1 ∉ keysOf acc := by
      intro hin
      simp only [keysOf, List.map_append, List.map_cons] at hn hin
      rw [List.nodup_append] at hn
      exact hn.2.2 _ hin _ List.mem_cons_self rfl
    rw [foldl_addPair_entry hk (hw e List.mem_cons_self), ih]
    · simp
    · simpa using hn
    · intro e' he'
      exact hw e' (List.mem_cons_of_mem _ he')

/-! ### keys.sort() -/

theorem sortEntries_perm_aux : ∀ (q acc : List (Str × QVal)),
    (q.foldl (fun acc e => acc.takeWhile (fun x => strLe x.1 e.1) ++ [e] ++
        acc.dropWhile (fun x => strLe x.1 e.1)) acc).Perm (acc ++ q) := by
  intro q
  induction q with
  | nil => intro acc; simp
  | cons e q ih =>
    intro acc
    rw [List.foldl_cons]
    refine (ih _).trans ?_
    have h1 : (acc.takeWhile (fun x => strLe x.1 e.1) ++ [e] ++ acc.dropWhile (fun x => strLe x.1 e.1)).Perm
        (acc ++ [e]) := by
      have := List.takeWhile_append_dropWhile (p := fun x : Str × QVal => strLe x.1 e.1) (l := acc)
      calc (acc.takeWhile (fun x => strLe x.1 e.1) ++ [e] ++ acc.dropWhile (fun x => strLe x.1 e.1)).Perm
            (acc.takeWhile (fun x => strLe x.1 e.1) ++ (acc.dropWhile (fun x => strLe x.1 e.1) ++ [e])) := by
              rw [List.append_assoc]
              exact List.Perm.append_left _ List.perm_append_comm
        _ = acc ++ [e] := by rw [← List.append_assoc, this]
    calc (acc.takeWhile (fun x => strLe x.1 e.1) ++ [e] ++ acc.dropWhile (fun x => strLe x.1 e.1) ++ q).Perm
          (acc ++ [e] ++ q) := List.Perm.append_right _ h1
      _ = acc ++ e :: q := by simp

theorem sortEntries_perm (q : List (Str × QVal)) : (sortEntries q).Perm q := by
  have := sortEntries_perm_aux q []
  simpa [sortEntries] using this

/-- rendered query text in terms of `pairStr` -/
theorem renderPairs_eq (q : List (Str × QVal)) :
    renderPairs q = ((sortEntries q).flatMap kvsOf).map pairStr := by
  unfold renderPairs
  rw [List.map_flatMap]
  induction sortEntries q with
  | nil => rfl
  | cons e es ih =>
    rw [List.flatMap_cons, List.flatMap_cons, ih]
    simp [kvsOf, pairStr]

end SaVerif.Url
