import SaVerif.Model.ImmDict
import SaVerif.Lemmas.IdentitySet
/-! Lemmas about the immutabledict model (association lists with unique keys). -/
namespace SaVerif.Coll

def kvKeys (d : KV) : List Nat := d.map (·.1)

/-- well-formed dict: no key twice -/
def KVWf (d : KV) : Prop := (kvKeys d).Nodup

theorem kvGet_nil (k : Nat) : kvGet [] k = none := rfl

theorem kvGet_cons (e : Nat × Nat) (d : KV) (k : Nat) :
    kvGet (e :: d) k = if e.1 = k then some e.2 else kvGet d k := by
  unfold kvGet
  rw [List.find?_cons]
  by_cases h : e.1 = k
  · simp [h]
  · have : (e.1 == k) = false := by simpa using h
    simp [this, h]

theorem kvGet_eq_none_iff {d : KV} {k : Nat} : kvGet d k = none ↔ k ∉ (kvKeys d) := by
  induction d with
  | nil => simp [kvGet_nil, kvKeys]
  | cons e d ih =>
    rw [kvGet_cons]
    by_cases h : e.1 = k
    · simp [h, kvKeys]
    · simp only [h, if_false, ih, kvKeys, List.map_cons, List.mem_cons, not_or]
      constructor
      · intro h1; exact ⟨fun hk => h hk.symm, h1⟩
      · intro h1; exact h1.2

theorem any_key_iff {d : KV} {k : Nat} : d.any (fun e => e.1 == k) = true ↔ k ∈ (kvKeys d) := by
  simp [kvKeys, List.any_eq_true]

theorem kvSet_keys (d : KV) (k v : Nat) : kvKeys (kvSet d k v) = dictSet (kvKeys d) k := by
  unfold kvSet dictSet
  by_cases h : k ∈ (kvKeys d)
  · rw [if_pos (any_key_iff.2 h), if_pos (List.contains_iff_mem.2 h)]
    unfold kvKeys
    rw [List.map_map]
    apply List.map_congr_left
    intro e _
    by_cases he : e.1 = k
    · simp [he]
    · simp [he]
  · have h1 : d.any (fun e => e.1 == k) = false := by
      rw [Bool.eq_false_iff]; exact fun hh => h (any_key_iff.1 hh)
    have h2 : (kvKeys d).contains k = false := by simpa using h
    rw [h1, h2]
    simp [kvKeys]

theorem kvGet_map_set {d : KV} {k v k' : Nat} (hk : k ∈ (kvKeys d)) :
    kvGet (d.map (fun e => if e.1 == k then (k, v) else e)) k'
      = if k' = k then some v else kvGet d k' := by
  induction d with
  | nil => simp [kvKeys] at hk
  | cons e d ih =>
    rw [List.map_cons, kvGet_cons, kvGet_cons]
    by_cases he : e.1 = k
    · have : (e.1 == k) = true := by simpa using he
      simp only [this, if_true]
      by_cases hk' : k' = k
      · subst hk'; simp
      · have hne : ¬ k = k' := fun h => hk' h.symm
        have hne2 : ¬ e.1 = k' := by rw [he]; exact hne
        simp only [hne, hk', hne2, if_false]
        by_cases hkd : k ∈ (kvKeys d)
        · rw [ih hkd]; simp [hk']
        · -- the map changes nothing on d
          have : d.map (fun e => if e.1 == k then (k, v) else e) = d := by
            conv => rhs; rw [← List.map_id d]
            apply List.map_congr_left
            intro x hx
            have hxk : ¬ x.1 = k := by
              intro hh; apply hkd; rw [← hh]
              exact List.mem_map.2 ⟨x, hx, rfl⟩
            have : (x.1 == k) = false := by simpa using hxk
            simp [this]
          rw [this]
    · have hf : (e.1 == k) = false := by simpa using he
      have hkd : k ∈ (kvKeys d) := by
        simp only [kvKeys, List.map_cons, List.mem_cons] at hk
        rcases hk with h | h
        · exact absurd h.symm he
        · exact h
      simp only [hf, Bool.false_eq_true, if_false]
      rw [ih hkd]
      by_cases h1 : e.1 = k'
      · have : ¬ k' = k := by rw [← h1]; exact he
        simp [h1, this]
      · simp [h1]

theorem kvGet_kvSet (d : KV) (k v k' : Nat) :
    kvGet (kvSet d k v) k' = if k' = k then some v else kvGet d k' := by
  unfold kvSet
  by_cases h : k ∈ (kvKeys d)
  · rw [if_pos (any_key_iff.2 h)]
    exact kvGet_map_set h
  · have h1 : d.any (fun e => e.1 == k) = false := by
      rw [Bool.eq_false_iff]; exact fun hh => h (any_key_iff.1 hh)
    rw [h1]
    simp only [Bool.false_eq_true, if_false]
    induction d with
    | nil =>
      rw [List.nil_append, kvGet_cons, kvGet_nil]
      by_cases hk : k' = k
      · simp [hk]
      · have : ¬ k = k' := fun hh => hk hh.symm
        simp [hk, this, kvGet_nil]
    | cons e d ih =>
      rw [List.cons_append, kvGet_cons, kvGet_cons]
      have hk : ¬ e.1 = k ∧ k ∉ (kvKeys d) := by
        simp only [kvKeys, List.map_cons, List.mem_cons, not_or] at h
        exact ⟨fun hh => h.1 hh.symm, h.2⟩
      have h1' : d.any (fun e => e.1 == k) = false := by
        rw [Bool.eq_false_iff]; exact fun hh => hk.2 (any_key_iff.1 hh)
      by_cases he : e.1 = k'
      · have : ¬ k' = k := by rw [← he]; exact hk.1
        simp [he, this]
      · simp only [he, if_false]
        exact ih hk.2 h1'

theorem kvUpdate_keys (o : KV) : ∀ d : KV, kvKeys (kvUpdate d o) = dictUpdate (kvKeys d) (kvKeys o) := by
  induction o with
  | nil => intro d; rfl
  | cons e o ih =>
    intro d
    show kvKeys (kvUpdate (kvSet d e.1 e.2) o) = _
    rw [ih, kvSet_keys]
    rfl

theorem kvUpdate_wf {d : KV} (h : (KVWf d)) (o : KV) : KVWf (kvUpdate d o) := by
  unfold KVWf
  rw [kvUpdate_keys]
  exact nodup_dictUpdate h _

theorem kvGet_kvUpdate {o : KV} (ho : (KVWf o)) : ∀ (d : KV) (k : Nat),
    kvGet (kvUpdate d o) k = (kvGet o k).or (kvGet d k) := by
  induction o with
  | nil => intro d k; simp [kvUpdate, kvGet_nil]
  | cons e o ih =>
    intro d k
    have hw : e.1 ∉ (kvKeys o) ∧ (KVWf o) := by
      unfold KVWf kvKeys at ho
      rw [List.map_cons, List.nodup_cons] at ho
      exact ho
    show kvGet (kvUpdate (kvSet d e.1 e.2) o) k = _
    rw [ih hw.2, kvGet_kvSet, kvGet_cons]
    by_cases hk : k = e.1
    · have : kvGet o e.1 = none := kvGet_eq_none_iff.2 hw.1
      simp [this, hk]
    · have : ¬ e.1 = k := fun h => hk h.symm
      simp [hk, this]

/-- updating an empty dict with a well-formed dict gives that dict (same items, same order) -/
theorem kvUpdate_nil_of_wf : ∀ {o : KV}, (KVWf o) → ∀ pre : KV, (∀ e ∈ o, e.1 ∉ (kvKeys pre)) →
    kvUpdate pre o = pre ++ o := by
  intro o
  induction o with
  | nil => intro _ pre _; simp [kvUpdate]
  | cons e o ih =>
    intro ho pre hpre
    have hw : e.1 ∉ (kvKeys o) ∧ (KVWf o) := by
      unfold KVWf kvKeys at ho
      rw [List.map_cons, List.nodup_cons] at ho
      exact ho
    show kvUpdate (kvSet pre e.1 e.2) o = _
    have hnot : pre.any (fun x => x.1 == e.1) = false := by
      rw [Bool.eq_false_iff]; exact fun hh => hpre e (by simp) (any_key_iff.1 hh)
    have hset : kvSet pre e.1 e.2 = pre ++ [e] := by
      unfold kvSet; rw [hnot]; rfl
    rw [hset, ih hw.2 (pre ++ [e])]
    · simp
    · intro x hx
      simp only [kvKeys, List.map_append, List.map_cons, List.map_nil, List.mem_append,
        List.mem_singleton, not_or]
      refine ⟨hpre x (by simp [hx]), ?_⟩
      intro hxe
      apply hw.1
      rw [← hxe]
      exact List.mem_map.2 ⟨x, hx, rfl⟩

theorem kvUpdate_nil_eq {o : KV} (ho : (KVWf o)) : kvUpdate [] o = o := by
  have := kvUpdate_nil_of_wf ho [] (by intro e _; simp [kvKeys])
  simpa using this

/-! ### `_union_other` against the plain left-to-right merge -/

/-- reference: merge left to right, later mappings win, `None` contributes nothing -/
def mergeSpec (self : KV) (others : List DArg) : KV :=
  others.foldl (fun r d => kvUpdate r d.items) self

theorem falsy_items {d : DArg} (h : d.falsy = true) : d.items = [] := by
  unfold DArg.falsy at h
  exact List.isEmpty_iff.1 h

theorem mergeSpec_all_falsy {others : List DArg} (h : ∀ d ∈ others, d.falsy = true) (r : KV) :
    mergeSpec r others = r := by
  unfold mergeSpec
  induction others generalizing r with
  | nil => rfl
  | cons d ds ih =>
    simp only [List.foldl_cons]
    rw [falsy_items (h d (by simp))]
    exact ih (fun x hx => h x (by simp [hx])) r

theorem fresh_fold_eq (others : List DArg) (r : KV) :
    others.foldl (fun res d => if d.falsy then res else kvUpdate res d.items) r
      = mergeSpec r others := by
  unfold mergeSpec
  induction others generalizing r with
  | nil => rfl
  | cons d ds ih =>
    simp only [List.foldl_cons]
    by_cases hd : d.falsy = true
    · rw [if_pos hd, falsy_items hd]
      exact ih r
    · rw [if_neg hd]
      exact ih _

/-- what the scanning loop computed, in terms of the argument list -/
theorem scan_spec (ds : List DArg) : ∀ (oo : OnlyOne) (i : Nat),
    match scanOnlyOne oo i ds with
    | .isFalse => oo = .isFalse ∧ ∀ d ∈ ds, d.falsy = true
    | .isSelf => oo = .isSelf ∧ ∀ d ∈ ds, d.falsy = true
    | .isArg j =>
        (oo = .isArg j ∧ ∀ d ∈ ds, d.falsy = true) ∨
        (oo = .isFalse ∧ ∃ pre kv post, ds = pre ++ DArg.imm kv :: post ∧
            (∀ d ∈ pre, d.falsy = true) ∧ (∀ d ∈ post, d.falsy = true) ∧ j = i + pre.length)
    | .isNone => True := by
  induction ds with
  | nil =>
    intro oo i
    simp only [scanOnlyOne]
    cases oo <;> simp
  | cons d ds ih =>
    intro oo i
    simp only [scanOnlyOne]
    by_cases hd : d.falsy = true
    · rw [if_pos hd]
      have := ih oo (i + 1)
      revert this
      cases scanOnlyOne oo (i + 1) ds with
      | isFalse =>
        rintro ⟨h1, h2⟩
        exact ⟨h1, fun x hx => by rcases List.mem_cons.1 hx with rfl | hx; exact hd; exact h2 x hx⟩
      | isSelf =>
        rintro ⟨h1, h2⟩
        exact ⟨h1, fun x hx => by rcases List.mem_cons.1 hx with rfl | hx; exact hd; exact h2 x hx⟩
      | isArg j =>
        rintro (⟨h1, h2⟩ | ⟨h1, pre, kv, post, h2, h3, h4, h5⟩)
        · exact Or.inl ⟨h1, fun x hx => by rcases List.mem_cons.1 hx with rfl | hx; exact hd; exact h2 x hx⟩
        · refine Or.inr ⟨h1, d :: pre, kv, post, by simp [h2], ?_, h4, by simp; omega⟩
          intro x hx
          rcases List.mem_cons.1 hx with rfl | hx
          · exact hd
          · exact h3 x hx
      | isNone => intro _; trivial
    · rw [if_neg hd]
      cases oo with
      | isFalse =>
        cases d with
        | none => simp [DArg.falsy, DArg.items] at hd
        | other kv => simp
        | imm kv =>
          simp only
          have := ih (.isArg i) (i + 1)
          revert this
          cases scanOnlyOne (.isArg i) (i + 1) ds with
          | isFalse => rintro ⟨h1, _⟩; cases h1
          | isSelf => rintro ⟨h1, _⟩; cases h1
          | isArg j =>
            rintro (⟨h1, h2⟩ | ⟨h1, _⟩)
            · cases h1
              exact Or.inr ⟨trivial, [], kv, ds, rfl, by simp, h2, by simp⟩
            · cases h1
          | isNone => intro _; trivial
      | isSelf => cases d <;> simp
      | isArg j => cases d <;> simp
      | isNone => cases d <;> simp

end SaVerif.Coll
