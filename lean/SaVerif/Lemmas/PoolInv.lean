import SaVerif.Lemmas.Pool
/-!
Preservation of the M-POOL invariants by every transition of the LTS
(`SaVerif/Model/Pool.lean`).  One lemma per invariant; each does the case split
over the 30 transitions of `trans` once.  Core Lean only.
-/
namespace SaVerif.Pool

syntax "trans_cases " ident : tactic
macro_rules
  | `(tactic| trans_cases $h:ident) =>
    `(tactic| (unfold trans at $h:ident; split at $h:ident <;> (try split at $h:ident) <;> (try cases $h:ident)))

theorem acct_step (c : Cfg) (s s' : State) (t : Nat) (l : Label)
    (h : s.overflow + c.size = s.queue.length + s.out.length + slotSum s)
    (hs : step c s t l = some s') :
    s'.overflow + c.size = s'.queue.length + s'.out.length + slotSum s' := by
  obtain ⟨old, new, sh, hold, htr, rfl⟩ := step_eq hs
  have key := sumMap_set slots s.pcs t old new hold
  simp only [slotSum] at h ⊢
  trans_cases htr
  all_goals try (simp [slots] at key ⊢; omega)
  · -- pop
    rename_i heq
    have := (popRest_some heq).1
    simp [slots] at key ⊢; omega
  · -- cp
    rename_i hmem
    have := List.length_erase_of_mem hmem
    have hpos : 0 < s.out.length := List.length_pos_of_mem hmem
    simp [slots] at key ⊢; omega

/-- lock ownership: a thread at a lock-holding pc is the recorded owner -/
def LockOwner (s : State) : Prop := ∀ t pc, s.pcs[t]? = some pc → holds pc = true → s.lock = some t

theorem lockOwner_step (c : Cfg) (s s' : State) (t : Nat) (l : Label)
    (h : LockOwner s) (hs : step c s t l = some s') : LockOwner s' := by
  obtain ⟨old, new, sh, hold, htr, rfl⟩ := step_eq hs
  have hlt := lt_length_of_getElem? hold
  have hown := h t old hold
  intro u pc hu hh
  simp only at hu
  by_cases hut : u = t
  · subst hut
    rw [List.getElem?_set_self hlt] at hu
    cases hu
    trans_cases htr
    all_goals try (simp [holds] at hh; done)
    all_goals try (simp [holds] at hown ⊢; done)
    all_goals try (simp [holds] at hown ⊢; exact hown)
  · rw [List.getElem?_set_ne (Ne.symm hut)] at hu
    have hu' := h u pc hu hh
    trans_cases htr
    all_goals try (exact hu')
    all_goals try (simp [holds] at hown; simp_all; done)

/-- a value read under the lock is still the value of the counter -/
def ReadValid (c : Cfg) (s : State) : Prop :=
  c.maxOv ≠ -1 → ∀ (t : Nat) (v : Int), s.pcs[t]? = some (Pc.i2 v) → s.overflow = v

theorem readValid_step (c : Cfg) (s s' : State) (t : Nat) (l : Label)
    (hl : LockOwner s) (h : ReadValid c s) (hs : step c s t l = some s') : ReadValid c s' := by
  obtain ⟨old, new, sh, hold, htr, rfl⟩ := step_eq hs
  have hlt := lt_length_of_getElem? hold
  have hown := hl t old hold
  intro hm u v hu
  simp only at hu
  by_cases hut : u = t
  · subst hut
    rw [List.getElem?_set_self hlt] at hu
    cases hu
    trans_cases htr
    rename_i hv; simp [hv]
  · rw [List.getElem?_set_ne (Ne.symm hut)] at hu
    have hu' := h hm u v hu
    have hlu := hl u _ hu (by simp [holds])
    trans_cases htr
    all_goals try (exact hu')
    all_goals try (simp_all; done)
    all_goals (simp [holds] at hown; rw [hown] at hlu; cases hlu; exact absurd rfl hut)

theorem limit_step (c : Cfg) (s s' : State) (t : Nat) (l : Label)
    (hr : ReadValid c s) (h : c.maxOv ≠ -1 → s.overflow ≤ c.maxOv)
    (hs : step c s t l = some s') : c.maxOv ≠ -1 → s'.overflow ≤ c.maxOv := by
  obtain ⟨old, new, sh, hold, htr, rfl⟩ := step_eq hs
  intro hm
  have h' := h hm
  have hrv := hr hm t
  trans_cases htr
  all_goals try (exact h')
  all_goals try (simp_all; done)
  all_goals try (simp at *; omega)
  · rename_i hg
    have := hrv _ hold
    simp; omega

theorem idleLe_step (c : Cfg) (s s' : State) (t : Nat) (l : Label)
    (h : 0 < c.size → s.queue.length ≤ c.size)
    (hs : step c s t l = some s') : 0 < c.size → s'.queue.length ≤ c.size := by
  obtain ⟨old, new, sh, hold, htr, rfl⟩ := step_eq hs
  intro hm
  have h' := h hm
  trans_cases htr
  all_goals try (exact h')
  · rename_i heq
    have := (popRest_some heq).1
    simp; omega
  · rename_i hg
    simp [full, hm] at hg
    simp; omega

theorem occ_step (c : Cfg) (s s' : State) (t : Nat) (l : Label) (x : Rec)
    (hs : step c s t l = some s') :
    s.nextId ≤ s'.nextId ∧
    occ x s' ≤ occ x s + (if x = s.nextId ∧ s'.nextId = s.nextId + 1 then 1 else 0) := by
  obtain ⟨old, new, sh, hold, htr, rfl⟩ := step_eq hs
  have key := sumMap_set (fun pc => (transit pc).count x) s.pcs t old new hold
  simp only [occ]
  trans_cases htr
  all_goals try (simp [transit] at key ⊢; omega)
  · -- pop
    rename_i r _ rest heq
    have hq := (popRest_some heq).2 x
    by_cases hx : x = r
    · subst hx; simp [transit] at key hq ⊢; omega
    · simp [transit, hx, Ne.symm hx] at key hq ⊢; omega
  · -- cr
    rename_i r hr
    subst hr
    by_cases hx : x = s.nextId
    · subst hx; simp [transit] at key ⊢; omega
    · simp [transit, hx, Ne.symm hx] at key ⊢; omega
  · -- cp
    rename_i r hmem
    by_cases hx : x = r
    · subst hx
      have := List.count_pos_iff.2 hmem
      simp [transit] at key ⊢; omega
    · simp [transit, List.count_erase_of_ne hx, Ne.symm hx] at key ⊢; omega

end SaVerif.Pool
