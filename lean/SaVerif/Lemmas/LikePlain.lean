import SaVerif.Lemmas.Like
/-! A text without wildcards and escape characters spells itself as a LIKE pattern, for any
    ESCAPE setting (including no ESCAPE clause).  Used by C43: the ORM evaluator compares
    against the bind value itself, which is right exactly when the bind value spells itself. -/
namespace SaVerif.Like

/-- a text without `%`, `_` and escape characters spells itself -/
theorem Lit_self (E : Option Char) (p : List Char)
    (h : ∀ c ∈ p, c ≠ '%' ∧ c ≠ '_' ∧ E ≠ some c) : Lit E p p := by
  induction p with
  | nil => exact .nil
  | cons c p ih =>
    have hc := h c (by simp)
    exact .plain hc.1 hc.2.1 hc.2.2 (ih (fun d hd => h d (by simp [hd])))

/-- case-sensitive LIKE with a self-spelling operand is the Python test, for every
    ESCAPE setting other than `%` (including none) -/
theorem sqlite_plain_pyTest (E : Option Char) (hA : mAll E = some '%')
    (k : Kind) (p s : List Char) (h : ∀ c ∈ p, c ≠ '%' ∧ c ≠ '_' ∧ E ≠ some c) :
    likeSqlite false E (wrap k p) s = pyTest k p s := by
  have hl := Lit_self E p h
  have hb : ∀ {a b : Bool}, (a = true ↔ b = true) → a = b := by
    intro a b; cases a <;> cases b <;> simp
  cases k with
  | startswith =>
    rw [sqlite_startswith_Lit false E hA hl, eqv_false]
    apply hb
    rw [stripPrefix_isSome_iff]; simp [pyTest]
  | endswith =>
    apply hb
    rw [sqlite_endswith_Lit false E hA hl, eqv_false, raw_suffix_iff]; simp [pyTest]
  | contains =>
    apply hb
    rw [sqlite_contains_Lit false E hA hl, eqv_false, raw_infix_iff]
    simp only [pyTest, anySuffix_iff, List.isPrefixOf_iff_prefix]
    constructor
    · rintro ⟨pre, t, e⟩
      exact ⟨pre, p ++ t, by rw [← e]; simp, t, rfl⟩
    · rintro ⟨pre, post, e, t, ht⟩
      exact ⟨pre, t, by rw [e, ← ht]; simp⟩

end SaVerif.Like
