import SaVerif.Lemmas.TxnPool
/-!
Frame lemma for the context-manager fields: no transaction operation changes
`Connection._trans_context_manager` or the `_outer_trans_ctx` / `_trans_subject` slots of an
existing transaction object (only `__enter__` / `__exit__` do).
-/
namespace SaVerif.Txn

structure CtxSame (c c' : Conn) : Prop where
  ctxMgr : c'.ctxMgr = c.ctxMgr
  len : c.txns.length ≤ c'.txns.length
  keep : ∀ x, x < c.txns.length →
    (c'.txn x).outerCtx = (c.txn x).outerCtx ∧ (c'.txn x).subject = (c.txn x).subject

theorem CtxSame.refl (c : Conn) : CtxSame c c := ⟨rfl, Nat.le_refl _, fun _ _ => ⟨rfl, rfl⟩⟩
theorem CtxSame.trans {a b c : Conn} (h1 : CtxSame a b) (h2 : CtxSame b c) : CtxSame a c :=
  ⟨h2.ctxMgr.trans h1.ctxMgr, Nat.le_trans h1.len h2.len, fun x hx =>
    ⟨((h2.keep x (Nat.lt_of_lt_of_le hx h1.len)).1).trans (h1.keep x hx).1,
     ((h2.keep x (Nat.lt_of_lt_of_le hx h1.len)).2).trans (h1.keep x hx).2⟩⟩

/-- same handle table and context manager -/
theorem ctxSame_of_eq {c c' : Conn} (h1 : c'.txns = c.txns) (h2 : c'.ctxMgr = c.ctxMgr) : CtxSame c c' :=
  ⟨h2, by rw [h1]; exact Nat.le_refl _, fun x _ => by simp [Conn.txn, h1]⟩

theorem ctxSame_setTxn (c : Conn) (h : Nat) (f : Txn → Txn)
    (hf : ∀ t, (f t).outerCtx = t.outerCtx ∧ (f t).subject = t.subject) : CtxSame c (c.setTxn h f) :=
  ⟨rfl, by simp, fun x hx => by
    by_cases e : h = x
    · subst e; rw [setTxn_txn_eq _ _ _ hx]; exact hf _
    · rw [setTxn_txn_ne _ _ _ _ e]; exact ⟨rfl, rfl⟩⟩

theorem ctxSame_append (c : Conn) (t : Txn) : CtxSame c { c with txns := c.txns ++ [t] } :=
  ⟨rfl, by simp, fun x hx => by rw [txn_append_lt c t x hx]; exact ⟨rfl, rfl⟩⟩

theorem ctxSame_pushRoot (c : Conn) : CtxSame c c.pushRoot :=
  ⟨rfl, by simp [Conn.pushRoot], fun x hx => by
    rw [show c.pushRoot.txn x = c.txn x from txn_append_lt c _ x hx]; exact ⟨rfl, rfl⟩⟩

theorem ctxSame_pushNested (c : Conn) : CtxSame c c.pushNested :=
  ⟨rfl, by simp [Conn.pushNested], fun x hx => by
    rw [show c.pushNested.txn x = c.txn x from txn_append_lt c _ x hx]; exact ⟨rfl, rfl⟩⟩

theorem ctxSame_deactivate (c : Conn) (h : Nat) : CtxSame c (c.deactivate h) :=
  ctxSame_setTxn c h _ (fun _ => ⟨rfl, rfl⟩)

theorem andThen_ctx {c : Conn} {x : Conn × Res} {f : Conn → Conn × Res}
    (h1 : CtxSame c x.1) (h2 : ∀ c1, CtxSame c1 (f c1).1) : CtxSame c (andThen x f).1 := by
  obtain ⟨c1, r⟩ := x
  cases r <;> first | exact h1.trans (h2 c1) | exact h1

theorem andFinally_ctx {c : Conn} {x : Conn × Res} {g : Conn → Conn}
    (h1 : CtxSame c x.1) (h2 : ∀ c1, CtxSame c1 (g c1)) : CtxSame c (andFinally x g).1 :=
  h1.trans (h2 x.1)

theorem revalidate_ctx (c : Conn) : CtxSame c c.revalidate.1 := by
  unfold Conn.revalidate
  split
  · split
    · exact CtxSame.refl c
    · split <;> exact ctxSame_of_eq rfl rfl
  · exact CtxSame.refl c

theorem connProp_ctx (c : Conn) : CtxSame c c.connProp.1 := by
  unfold Conn.connProp
  split
  · exact CtxSame.refl c
  · exact revalidate_ctx c

theorem onDisconnect_ctx (c : Conn) : CtxSame c c.onDisconnect := by
  unfold Conn.onDisconnect
  split
  · exact CtxSame.refl c
  · exact ctxSame_of_eq rfl rfl

theorem beginRoot_ctx (c : Conn) : CtxSame c c.beginRoot.1 := by
  unfold Conn.beginRoot
  split
  · exact CtxSame.refl c
  · exact andThen_ctx (connProp_ctx c) (fun c1 => ctxSame_pushRoot c1)

theorem begin_ctx (c : Conn) : CtxSame c c.begin.1 := by
  unfold Conn.begin
  split
  · exact beginRoot_ctx c
  · exact CtxSame.refl c

theorem autobegin_ctx (c : Conn) : CtxSame c c.autobegin.1 := by
  unfold Conn.autobegin
  split
  · exact begin_ctx c
  · exact CtxSame.refl c

theorem discError_ctx (c : Conn) : CtxSame c c.discError.1 := by
  unfold Conn.discError
  split
  · simp only []
    split
    · exact CtxSame.refl c
    · exact ctxSame_of_eq rfl rfl
  · exact onDisconnect_ctx c

theorem plainError_ctx (c : Conn) : CtxSame c c.plainError.1 := by
  unfold Conn.plainError
  split
  · exact CtxSame.refl c
  · split
    · split
      · exact CtxSame.refl c
      · cases hf : c.db.takeFault .rollback with
        | mk o db1 =>
          cases o with
          | some k =>
            cases k with
            | err => exact ctxSame_of_eq rfl rfl
            | disc =>
              have h1 : CtxSame c ({ c with db := db1 } : Conn) := ctxSame_of_eq rfl rfl
              exact h1.trans (discError_ctx _)
            | kbi =>
              have h1 : CtxSame c ({ c with db := db1 } : Conn) := ctxSame_of_eq rfl rfl
              exact h1.trans (discError_ctx _)
          | none => exact ctxSame_of_eq rfl rfl
    · exact CtxSame.refl c

theorem dbapiError_ctx (c : Conn) (k : FKind) : CtxSame c (c.dbapiError k).1 := by
  unfold Conn.dbapiError
  split
  · unfold Conn.kbiError
    simp only []
    split
    · exact CtxSame.refl c
    · exact ctxSame_of_eq rfl rfl
  · split
    · exact discError_ctx c
    · cases k with
      | disc => exact discError_ctx c
      | err => exact plainError_ctx c
      | kbi => exact plainError_ctx c

theorem dbapiCall_ctx (c : Conn) (p : FPoint) (f : DB → DB) : CtxSame c (c.dbapiCall p f).1 := by
  unfold Conn.dbapiCall
  split
  · rename_i k db _
    exact (ctxSame_of_eq (c := c) (c' := { c with db := db }) rfl rfl).trans (dbapiError_ctx _ k)
  · exact ctxSame_of_eq rfl rfl

theorem runSql_ctx (c : Conn) (q : Sql) : CtxSame c (c.runSql q).1 := by
  unfold Conn.runSql
  split
  · rename_i k db _
    exact (ctxSame_of_eq (c := c) (c' := { c with db := db }) rfl rfl).trans (dbapiError_ctx _ k)
  · split
    · exact ctxSame_of_eq rfl rfl
    · exact dbapiError_ctx c .err

theorem execChecked_ctx (c : Conn) (q : Sql) : CtxSame c (c.execChecked q).1 := by
  unfold Conn.execChecked
  split
  · exact CtxSame.refl c
  · split
    · exact CtxSame.refl c
    · exact andThen_ctx (autobegin_ctx c) (fun c1 => runSql_ctx c1 q)

theorem execute_ctx (c : Conn) (q : Sql) : CtxSame c (c.execute q).1 := by
  unfold Conn.execute
  refine andThen_ctx (connProp_ctx c) (fun c1 => ?_)
  exact andThen_ctx (dbapiCall_ctx c1 .cursor id) (fun c2 => execChecked_ctx c2 q)

theorem nestedDeactivate_ctx (c : Conn) (h : Nat) (w : Bool) : CtxSame c (c.nestedDeactivate h w) := by
  unfold Conn.nestedDeactivate
  split
  · exact ctxSame_of_eq rfl rfl
  · split
    · exact ctxSame_of_eq rfl rfl
    · exact CtxSame.refl c

theorem cancel_ctx : ∀ (fuel : Nat) (c : Conn) (h : Nat), CtxSame c (Conn.cancel fuel c h) := by
  intro fuel
  induction fuel with
  | zero => intro c h; exact CtxSame.refl c
  | succ f ih =>
    intro c h
    simp only [Conn.cancel]
    have h1 : CtxSame c ((c.deactivate h).nestedDeactivate h true) :=
      (ctxSame_deactivate c h).trans (nestedDeactivate_ctx _ h true)
    split
    · exact h1.trans (ih _ _)
    · exact h1

theorem cancelNested_ctx (c : Conn) : CtxSame c c.cancelNested := by
  unfold Conn.cancelNested
  split
  · exact cancel_ctx _ _ _
  · exact CtxSame.refl c

theorem rootDeactivate_ctx (c : Conn) (h : Nat) : CtxSame c (c.rootDeactivate h) := by
  unfold Conn.rootDeactivate
  split
  · exact ctxSame_deactivate c h
  · split
    · exact ctxSame_of_eq rfl rfl
    · exact CtxSame.refl c

theorem rollbackImpl_ctx (c : Conn) : CtxSame c c.rollbackImpl.1 := by
  unfold Conn.rollbackImpl
  split
  · split
    · exact CtxSame.refl c
    · exact dbapiCall_ctx c .rollback DB.rollback
  · exact CtxSame.refl c

theorem rootCloseFinally_ctx (c : Conn) (h : Nat) (b : Bool) : CtxSame c (c.rootCloseFinally h b) := by
  unfold Conn.rootCloseFinally
  have h1 : CtxSame c (if c.act h || b then c.rootDeactivate h else c) := by
    split
    · exact rootDeactivate_ctx c h
    · exact CtxSame.refl c
  have key : ∀ c1 : Conn, CtxSame c1 (if c1.transaction == some h then { c1 with transaction := none } else c1) := by
    intro c1
    split
    · exact ctxSame_of_eq rfl rfl
    · exact CtxSame.refl _
  exact h1.trans (key _)

theorem rootCloseImpl_ctx (c : Conn) (h : Nat) (b : Bool) : CtxSame c (c.rootCloseImpl h b).1 := by
  unfold Conn.rootCloseImpl
  refine andFinally_ctx ?_ (fun c1 => rootCloseFinally_ctx c1 h b)
  refine andThen_ctx ?_ (fun c1 => cancelNested_ctx c1)
  split
  · exact rollbackImpl_ctx c
  · exact CtxSame.refl c

theorem commitImpl_ctx (c : Conn) : CtxSame c c.commitImpl.1 := by
  unfold Conn.commitImpl
  exact andThen_ctx (connProp_ctx c) (fun c1 => dbapiCall_ctx c1 .commit DB.commit)

theorem rootCommit_ctx (c : Conn) (h : Nat) : CtxSame c (c.rootCommit h).1 := by
  unfold Conn.rootCommit
  split
  · refine andThen_ctx ?_ (fun c1 => ctxSame_of_eq rfl rfl)
    exact andFinally_ctx (commitImpl_ctx c)
      (fun c1 => (cancelNested_ctx c1).trans (rootDeactivate_ctx _ h))
  · split
    · exact CtxSame.refl c
    · exact CtxSame.refl c

theorem nestedCloseImpl_ctx (c : Conn) (h : Nat) (w : Bool) : CtxSame c (c.nestedCloseImpl h w).1 := by
  unfold Conn.nestedCloseImpl
  refine andFinally_ctx ?_ (fun c1 => (ctxSame_deactivate c1 h).trans (nestedDeactivate_ctx _ h w))
  split
  · exact execute_ctx c _
  · exact CtxSame.refl c

theorem nestedCommit_ctx (c : Conn) (h : Nat) : CtxSame c (c.nestedCommit h).1 := by
  unfold Conn.nestedCommit
  split
  · refine andThen_ctx ?_ (fun c1 => nestedDeactivate_ctx c1 h true)
    exact andFinally_ctx (execute_ctx c _) (fun c1 => ctxSame_deactivate c1 h)
  · split
    · exact CtxSame.refl c
    · exact CtxSame.refl c

theorem tCommit_ctx (c : Conn) (h : Nat) : CtxSame c (c.tCommit h).1 := by
  unfold Conn.tCommit
  split
  · exact rootCommit_ctx c h
  · exact nestedCommit_ctx c h

theorem tRollback_ctx (c : Conn) (h : Nat) : CtxSame c (c.tRollback h).1 := by
  unfold Conn.tRollback
  split
  · exact rootCloseImpl_ctx c h true
  · exact nestedCloseImpl_ctx c h true

theorem tClose_ctx (c : Conn) (h : Nat) : CtxSame c (c.tClose h).1 := by
  unfold Conn.tClose
  split
  · exact rootCloseImpl_ctx c h false
  · exact nestedCloseImpl_ctx c h false

theorem commitOrRollback_ctx (c : Conn) (h : Nat) : CtxSame c (c.commitOrRollback h).1 := by
  unfold Conn.commitOrRollback
  simp only []
  have h1 := tCommit_ctx c h
  have h2 := tRollback_ctx (c.tCommit h).1 h
  cases hr : (c.tCommit h).2 <;> simp only [] <;>
    first
    | exact h1
    | (cases hr2 : ((c.tCommit h).1.tRollback h).2 <;> simp only [] <;> exact h1.trans h2)

/-- the transaction part of `__exit__` (before its `finally:`) -/
def Conn.exitBody (c : Conn) (h : Nat) (exc : Bool) : Conn × Res :=
  if !exc && c.act h then c.commitOrRollback h
  else if !c.act h then (if !c.attached h then c.tClose h else (c, .ok))
  else c.tRollback h

theorem exitBody_ctx (c : Conn) (h : Nat) (e : Bool) : CtxSame c (c.exitBody h e).1 := by
  unfold Conn.exitBody
  split
  · exact commitOrRollback_ctx c h
  · split
    · split
      · exact tClose_ctx c h
      · exact CtxSame.refl c
    · exact tRollback_ctx c h

end SaVerif.Txn
