import SaVerif.Lemmas.PySeq
import SaVerif.Model.PySetDict
/-! Lemmas about the instrumented set model: the `each` loops and exact events. -/
namespace SaVerif.PySeq

/-- events that say exactly what changed between the old set `s` and the result -/
structure ExactEvents (s : List Item) (r : Res) : Prop where
  appsNodup : (apps r.events).Nodup
  remsNodup : (rems r.events).Nodup
  appsIff : ∀ x, x ∈ apps r.events ↔ x ∈ r.items ∧ x ∉ s
  remsIff : ∀ x, x ∈ rems r.events ↔ x ∈ s ∧ x ∉ r.items

theorem mem_sAdd {s : List Item} {x y : Item} : y ∈ sAdd s x ↔ y ∈ s ∨ y = x := by
  unfold sAdd
  split
  · rename_i h
    have hx : x ∈ s := List.contains_iff_mem.1 h
    constructor
    · intro hy; exact Or.inl hy
    · rintro (hy | rfl)
      · exact hy
      · exact hx
  · simp

theorem nodup_sAdd {s : List Item} {x : Item} (h : s.Nodup) : (sAdd s x).Nodup := by
  unfold sAdd
  split
  · exact h
  · rename_i hx
    have hx' : x ∉ s := fun hm => hx (List.contains_iff_mem.2 hm)
    rw [List.nodup_append]
    refine ⟨h, by simp, ?_⟩
    intro a ha b hb hab
    simp only [List.mem_singleton] at hb
    subst hb; subst hab; exact hx' ha

theorem mem_sUnion {s v : List Item} {y : Item} : y ∈ sUnion s v ↔ y ∈ s ∨ y ∈ v := by
  unfold sUnion
  induction v generalizing s with
  | nil => simp
  | cons a v ih =>
    simp only [List.foldl_cons, ih, mem_sAdd, List.mem_cons]
    constructor
    · rintro ((h | h) | h)
      · exact Or.inl h
      · exact Or.inr (Or.inl h)
      · exact Or.inr (Or.inr h)
    · rintro (h | h | h)
      · exact Or.inl (Or.inl h)
      · exact Or.inl (Or.inr h)
      · exact Or.inr h

theorem nodup_sUnion {s : List Item} (h : s.Nodup) (v : List Item) : (sUnion s v).Nodup := by
  unfold sUnion
  induction v generalizing s with
  | nil => exact h
  | cons a v ih => exact ih (nodup_sAdd h)

theorem mem_sDiff {s v : List Item} {y : Item} : y ∈ sDiff s v ↔ y ∈ s ∧ y ∉ v := by
  unfold sDiff; simp [List.mem_filter]

theorem mem_sInter {s v : List Item} {y : Item} : y ∈ sInter s v ↔ y ∈ s ∧ y ∈ v := by
  unfold sInter; simp [List.mem_filter]

theorem nodup_filter' {l : List Item} (p : Item → Bool) (h : l.Nodup) : (l.filter p).Nodup :=
  List.Nodup.sublist List.filter_sublist h

theorem mem_sSymDiff {s v : List Item} {y : Item} :
    y ∈ sSymDiff s v ↔ (y ∈ s ∧ y ∉ v) ∨ (y ∈ v ∧ y ∉ s) := by
  unfold sSymDiff
  simp only [List.mem_append, mem_sDiff, mem_sUnion]
  simp

theorem nodup_sSymDiff {s : List Item} (h : s.Nodup) (v : List Item) : (sSymDiff s v).Nodup := by
  unfold sSymDiff
  rw [List.nodup_append]
  refine ⟨nodup_filter' _ h, nodup_filter' _ (nodup_sUnion List.nodup_nil v), ?_⟩
  intro a ha b hb hab
  subst hab
  rw [mem_sDiff] at ha hb
  exact hb.2 ha.1

namespace SetI

/-- the state of an `each` loop: what has been added / removed so far relative to `s0` -/
structure Loop (s0 s : List Item) (ev : List Event) : Prop where
  nodup : s.Nodup
  appsNodup : (apps ev).Nodup
  remsNodup : (rems ev).Nodup
  appsIff : ∀ x, x ∈ apps ev ↔ x ∈ s ∧ x ∉ s0
  remsIff : ∀ x, x ∈ rems ev ↔ x ∈ s0 ∧ x ∉ s

theorem loop_start {s : List Item} (h : s.Nodup) : Loop s s [] :=
  ⟨h, by simp [apps], by simp [rems], by simp [apps], by simp [rems]⟩

/-- adding an element that is not a "removed then re-added" one keeps the bookkeeping exact -/
theorem loop_add {s0 s : List Item} {ev : List Event} (h : Loop s0 s ev) (x : Item)
    (hx0 : x ∈ s0 → x ∈ s) :
    Loop s0 (add s x).items (ev ++ (add s x).events) := by
  unfold add
  by_cases hx : x ∈ s
  · rw [if_pos (List.contains_iff_mem.2 hx)]
    simpa using h
  · have hc : s.contains x = false := by simpa using hx
    rw [hc]
    simp only [Bool.false_eq_true, if_false]
    have hx0' : x ∉ s0 := fun h0 => hx (hx0 h0)
    refine ⟨?_, ?_, ?_, ?_, ?_⟩
    · rw [List.nodup_append]
      refine ⟨h.nodup, by simp, ?_⟩
      intro a ha b hb hab
      simp only [List.mem_singleton] at hb
      subst hb; subst hab; exact hx ha
    · rw [apps_append]
      simp only [apps]
      rw [List.nodup_append]
      refine ⟨h.appsNodup, by simp, ?_⟩
      intro a ha b hb hab
      simp only [List.mem_singleton] at hb
      subst hb; subst hab
      exact hx ((h.appsIff a).1 ha).1
    · rw [rems_append]; simpa [rems] using h.remsNodup
    · intro y
      rw [apps_append]
      simp only [apps, List.mem_append, List.mem_singleton, h.appsIff]
      constructor
      · rintro (⟨h1, h2⟩ | rfl)
        · exact ⟨Or.inl h1, h2⟩
        · exact ⟨Or.inr rfl, hx0'⟩
      · rintro ⟨h1 | rfl, h2⟩
        · exact Or.inl ⟨h1, h2⟩
        · exact Or.inr rfl
    · intro y
      rw [rems_append]
      simp only [rems, List.append_nil, h.remsIff, List.mem_append, List.mem_singleton]
      constructor
      · rintro ⟨h1, h2⟩
        exact ⟨h1, fun hh => by rcases hh with hh | rfl; exact h2 hh; exact hx0' h1⟩
      · rintro ⟨h1, h2⟩
        exact ⟨h1, fun hh => h2 (Or.inl hh)⟩

/-- discarding an element that was not added by this loop keeps the bookkeeping exact -/
theorem loop_discard {s0 s : List Item} {ev : List Event} (h : Loop s0 s ev) (x : Item)
    (hx0 : x ∈ s → x ∈ s0) :
    Loop s0 (discard s x).items (ev ++ (discard s x).events) := by
  unfold discard
  by_cases hx : x ∈ s
  · rw [if_pos (List.contains_iff_mem.2 hx)]
    simp only
    have hx0' : x ∈ s0 := hx0 hx
    refine ⟨h.nodup.erase x, ?_, ?_, ?_, ?_⟩
    · rw [apps_append]; simpa [apps] using h.appsNodup
    · rw [rems_append]
      simp only [rems]
      rw [List.nodup_append]
      refine ⟨h.remsNodup, by simp, ?_⟩
      intro a ha b hb hab
      simp only [List.mem_singleton] at hb
      subst hb; subst hab
      exact ((h.remsIff a).1 ha).2 hx
    · intro y
      rw [apps_append]
      simp only [apps, List.append_nil, h.appsIff, h.nodup.mem_erase_iff]
      constructor
      · rintro ⟨h1, h2⟩
        exact ⟨⟨fun e => h2 (e ▸ hx0'), h1⟩, h2⟩
      · rintro ⟨⟨_, h1⟩, h2⟩
        exact ⟨h1, h2⟩
    · intro y
      rw [rems_append]
      simp only [rems, List.mem_append, List.mem_singleton, h.remsIff, h.nodup.mem_erase_iff]
      constructor
      · rintro (⟨h1, h2⟩ | rfl)
        · exact ⟨h1, fun hh => h2 hh.2⟩
        · exact ⟨hx0', fun hh => hh.1 rfl⟩
      · rintro ⟨h1, h2⟩
        by_cases hy : y = x
        · exact Or.inr hy
        · exact Or.inl ⟨h1, fun hh => h2 ⟨hy, hh⟩⟩
  · have hc : s.contains x = false := by simpa using hx
    rw [hc]
    simpa using h

theorem remove_eq_discard {s : List Item} {x : Item} (hx : x ∈ s) : remove s x = discard s x := by
  unfold remove discard
  rw [if_pos (List.contains_iff_mem.2 hx), if_pos (List.contains_iff_mem.2 hx)]

theorem add_ret (s : List Item) (x : Item) : (add s x).ret = .none := by
  unfold add; split <;> rfl

theorem discard_ret (s : List Item) (x : Item) : (discard s x).ret = .none := by
  unfold discard; split <;> rfl

theorem mem_add_items {s : List Item} {x y : Item} : y ∈ (add s x).items ↔ y ∈ s ∨ y = x := by
  unfold add
  by_cases hx : x ∈ s
  · rw [if_pos (List.contains_iff_mem.2 hx)]
    constructor
    · exact Or.inl
    · rintro (h | rfl)
      · exact h
      · exact hx
  · have hc : s.contains x = false := by simpa using hx
    rw [hc]; simp

theorem mem_discard_items {s : List Item} (h : s.Nodup) {x y : Item} :
    y ∈ (discard s x).items ↔ y ∈ s ∧ y ≠ x := by
  unfold discard
  by_cases hx : x ∈ s
  · rw [if_pos (List.contains_iff_mem.2 hx)]
    simp only [h.mem_erase_iff]; exact And.comm
  · have hc : s.contains x = false := by simpa using hx
    rw [hc]
    simp only [Bool.false_eq_true, if_false]
    constructor
    · intro hy; exact ⟨hy, fun e => hx (e ▸ hy)⟩
    · exact And.left

/-- `for item in xs: self.add(item)` where no `xs` element was removed earlier in this call -/
theorem each_add (xs : List Item) : ∀ (s0 s : List Item) (ev : List Event), Loop s0 s ev →
    (∀ x ∈ xs, x ∈ s0 → x ∈ s) →
    let r := each add xs s ev
    r.ret = .none ∧ Loop s0 r.items r.events ∧ (∀ y, y ∈ r.items ↔ y ∈ s ∨ y ∈ xs) := by
  induction xs with
  | nil => intro s0 s ev h _; exact ⟨rfl, h, by simp [each]⟩
  | cons x xs ih =>
    intro s0 s ev h hx
    have hl := loop_add h x (hx x (by simp))
    simp only [each]
    rw [add_ret]
    simp only
    have hx' : ∀ y ∈ xs, y ∈ s0 → y ∈ (add s x).items := by
      intro y hy hy0
      exact mem_add_items.2 (Or.inl (hx y (by simp [hy]) hy0))
    obtain ⟨h1, h2, h3⟩ := ih s0 (add s x).items (ev ++ (add s x).events) hl hx'
    refine ⟨h1, h2, ?_⟩
    intro y
    rw [h3, mem_add_items]
    simp only [List.mem_cons]
    constructor
    · rintro ((h | h) | h)
      · exact Or.inl h
      · exact Or.inr (Or.inl h)
      · exact Or.inr (Or.inr h)
    · rintro (h | h | h)
      · exact Or.inl (Or.inl h)
      · exact Or.inl (Or.inr h)
      · exact Or.inr h

/-- `for item in xs: self.discard(item)` where no `xs` element was added earlier in this call -/
theorem each_discard (xs : List Item) : ∀ (s0 s : List Item) (ev : List Event), Loop s0 s ev →
    (∀ x ∈ xs, x ∈ s → x ∈ s0) →
    let r := each discard xs s ev
    r.ret = .none ∧ Loop s0 r.items r.events ∧ (∀ y, y ∈ r.items ↔ y ∈ s ∧ y ∉ xs) := by
  induction xs with
  | nil => intro s0 s ev h _; exact ⟨rfl, h, by simp [each]⟩
  | cons x xs ih =>
    intro s0 s ev h hx
    have hl := loop_discard h x (hx x (by simp))
    simp only [each]
    rw [discard_ret]
    simp only
    have hx' : ∀ y ∈ xs, y ∈ (discard s x).items → y ∈ s0 := by
      intro y hy hyi
      exact hx y (by simp [hy]) ((mem_discard_items h.nodup).1 hyi).1
    obtain ⟨h1, h2, h3⟩ := ih s0 (discard s x).items (ev ++ (discard s x).events) hl hx'
    refine ⟨h1, h2, ?_⟩
    intro y
    rw [h3, mem_discard_items h.nodup]
    simp only [List.mem_cons, not_or]
    constructor
    · rintro ⟨⟨h1, h2⟩, h3⟩; exact ⟨h1, h2, h3⟩
    · rintro ⟨h1, h2, h3⟩; exact ⟨⟨h1, h2⟩, h3⟩

/-- `for item in xs: self.remove(item)` when every element is present and listed once -/
theorem each_remove (xs : List Item) : ∀ (s0 s : List Item) (ev : List Event), Loop s0 s ev →
    xs.Nodup → (∀ x ∈ xs, x ∈ s ∧ x ∈ s0) →
    let r := each remove xs s ev
    r.ret = .none ∧ Loop s0 r.items r.events ∧ (∀ y, y ∈ r.items ↔ y ∈ s ∧ y ∉ xs) := by
  induction xs with
  | nil => intro s0 s ev h _ _; exact ⟨rfl, h, by simp [each]⟩
  | cons x xs ih =>
    intro s0 s ev h hn hx
    rw [List.nodup_cons] at hn
    obtain ⟨hxs, hx0⟩ := hx x (by simp)
    have hl := loop_discard h x (fun _ => hx0)
    simp only [each]
    rw [remove_eq_discard hxs, discard_ret]
    simp only
    have hx' : ∀ y ∈ xs, y ∈ (discard s x).items ∧ y ∈ s0 := by
      intro y hy
      obtain ⟨a, b⟩ := hx y (by simp [hy])
      refine ⟨(mem_discard_items h.nodup).2 ⟨a, ?_⟩, b⟩
      rintro rfl
      exact hn.1 hy
    obtain ⟨h1, h2, h3⟩ := ih s0 (discard s x).items (ev ++ (discard s x).events) hl hn.2 hx'
    refine ⟨h1, h2, ?_⟩
    intro y
    rw [h3, mem_discard_items h.nodup]
    simp only [List.mem_cons, not_or]
    constructor
    · rintro ⟨⟨h1, h2⟩, h3⟩; exact ⟨h1, h2, h3⟩
    · rintro ⟨h1, h2, h3⟩; exact ⟨⟨h1, h2⟩, h3⟩

/-- `want/have` update: afterwards the members are exactly `want` -/
theorem wantHave_spec {s want : List Item} (hs : s.Nodup) (hw : want.Nodup) :
    let r := wantHave s want
    r.ret = .none ∧ Loop s r.items r.events ∧ (∀ y, y ∈ r.items ↔ y ∈ want) := by
  intro r
  have hrem := each_remove (sDiff s want) s s [] (loop_start hs) (nodup_filter' _ hs)
    (by intro x hx; rw [mem_sDiff] at hx; exact ⟨hx.1, hx.1⟩)
  obtain ⟨r1, l1, m1⟩ := hrem
  have hadd := each_add (sDiff want s) s (each remove (sDiff s want) s []).items
    (each remove (sDiff s want) s []).events l1
    (by intro x hx hx0; rw [mem_sDiff] at hx; exact absurd hx0 hx.2)
  obtain ⟨r2, l2, m2⟩ := hadd
  have hr : r = each add (sDiff want s) (each remove (sDiff s want) s []).items
      (each remove (sDiff s want) s []).events := by
    show wantHave s want = _
    unfold wantHave
    simp only
    rw [r1]
  rw [hr]
  refine ⟨r2, l2, ?_⟩
  intro y
  rw [m2, m1, mem_sDiff, mem_sDiff]
  by_cases hy : y ∈ s <;> by_cases hyw : y ∈ want <;> simp [hy, hyw]

theorem exact_of_loop {s : List Item} {r : Res} (h : Loop s r.items r.events) : ExactEvents s r :=
  ⟨h.appsNodup, h.remsNodup, h.appsIff, h.remsIff⟩

end SetI
end SaVerif.PySeq
