import SaVerif.Model.Result
/-! Helper lemmas for M-RESULT (core Lean only): every real source refines the bare list. -/
namespace SaVerif.Result

/-! ## abstraction of a real source to the bare list -/

def Src.abs : Src → Plain
  | .cursor st cur _ hard =>
    match st with
    | .default => { rem := cur, hard := hard, d1 := true }
    | .buffered buf _ _ _ => { rem := buf ++ cur, hard := hard, d1 := false }
    | .full buf => { rem := buf, hard := hard, d1 := false }
    | .noCursor => { rem := [], hard := hard, d1 := false }
  | .iter it _ hard => { rem := it, hard := hard, d1 := false }
  | .chunked p b _ _ _ hard => { rem := p ++ b, hard := hard, d1 := false }

/-- representation invariant of the real sources (preserved by every primitive);
    for ChunkedIteratorResult it includes `dynamic_yield_per = False` -/
def Src.good : Src → Prop
  | .cursor st cur soft hard =>
    (soft = true ↔ st = .noCursor) ∧ (st = .noCursor → cur = []) ∧ (hard = true → soft = true)
  | .iter it _ hard => hard = true → it = []
  | .chunked p b _ dyn _ hard => dyn = false ∧ (hard = true → p = [] ∧ b = [])

theorem chunkSize_pos (cs : Option Nat) (x : Row) (xs : List Row) : 0 < Src.chunkSize cs (x :: xs) := by
  unfold Src.chunkSize
  cases cs with
  | none => simp
  | some n => by_cases hn : n = 0 <;> simp [hn]; omega

theorem chTake_spec (cs : Option Nat) :
    ∀ (k : Nat) (p b : List Row),
      (Src.chTake cs k p b).1 = (p ++ b).take k ∧
      (Src.chTake cs k p b).2.1 ++ (Src.chTake cs k p b).2.2 = (p ++ b).drop k := by
  intro k
  induction k with
  | zero => intro p b; simp [Src.chTake]
  | succ k ih =>
    intro p b
    cases p with
    | cons r p =>
      have := ih p b
      simp only [Src.chTake, List.cons_append, List.take_succ_cons, List.drop_succ_cons]
      exact ⟨by rw [this.1], this.2⟩
    | nil =>
      simp only [Src.chTake, List.nil_append]
      split
      · rename_i h
        have hb : b = [] := by
          cases b with
          | nil => rfl
          | cons x xs =>
            exfalso
            have hp := chunkSize_pos cs x xs
            revert h
            generalize Src.chunkSize cs (x :: xs) = n at hp
            cases n with
            | zero => omega
            | succ m => simp
        subst hb; simp
      · rename_i r rest h
        have hsplit := List.take_append_drop (Src.chunkSize cs b) b
        rw [h] at hsplit
        generalize b.drop (Src.chunkSize cs b) = d at *
        clear h
        subst hsplit
        have := ih rest d
        constructor
        · show r :: _ = _
          rw [this.1]; simp
        · show _ = List.drop (k + 1) (r :: rest ++ d)
          rw [this.2]; simp

/-- `O` (sources of type `σ`) is indistinguishable from the bare list through `abs`,
    for states satisfying `good`; the three side conditions are exactly the hazards
    (`corner`, `ypLossy`) and the driver-defined `fetchmany(0)`. -/
structure Refines {σ : Type} (O : SrcOps σ) (good : σ → Prop) (abs : σ → Plain) : Prop where
  fetchone : ∀ (b : Bool) (s : σ), good s → (b = true → O.corner s = false) →
    Prod.map id abs (O.fetchone b s) = Plain.fetchone b (abs s) ∧ good (O.fetchone b s).2
  rawNext : ∀ s, good s →
    Prod.map id abs (O.rawNext s) = Plain.rawNext (abs s) ∧ good (O.rawNext s).2
  fetchmany : ∀ n s, good s → n ≠ some 0 →
    Prod.map id abs (O.fetchmany n s) = Plain.fetchmany n (abs s) ∧ good (O.fetchmany n s).2
  fetchall : ∀ s, good s →
    Prod.map id abs (O.fetchall s) = Plain.fetchall (abs s) ∧ good (O.fetchall s).2
  drainRaw : ∀ s, good s →
    Prod.map id abs (O.drainRaw s) = Plain.ops.drainRaw (abs s) ∧ good (O.drainRaw s).2
  softClose : ∀ b s, good s →
    abs (O.softClose b s) = Plain.softClose b (abs s) ∧ good (O.softClose b s)
  yieldPer : ∀ n s, good s → O.ypLossy s = false →
    abs (O.yieldPer n s) = Plain.ops.yieldPer n (abs s) ∧ good (O.yieldPer n s)
  size : ∀ s, good s → O.size s = (abs s).rem.length
  isHard : ∀ s, O.isHard s = (abs s).hard
  ofList : ∀ l, abs (O.ofList l) = Plain.ops.ofList l ∧ good (O.ofList l)
  corner_some : ∀ b s r, good s → (O.fetchone b s).1 = .ok (some r) →
    O.corner (O.fetchone b s).2 = false

theorem cursorSoftClose_abs (b : Bool) (st : Strat) (cur : List Row) (soft hard : Bool)
    (hg : Src.good (.cursor st cur soft hard)) (hns : soft = false) :
    Src.abs (Src.cursorSoftClose b st cur soft hard) = { rem := [], hard := hard || b, d1 := false } ∧
    Src.good (Src.cursorSoftClose b st cur soft hard) := by
  subst hns
  obtain ⟨h1, h2, h3⟩ := hg
  have hh : hard = false := by cases hard <;> simp_all
  subst hh
  cases b <;> simp [Src.cursorSoftClose, Src.abs, Src.good]

theorem src_fetchone_refines (b : Bool) (s : Src) (hg : s.good) (hc : b = true → s.corner = false) :
    Prod.map id Src.abs (Src.fetchone b s) = Plain.fetchone b s.abs ∧ (Src.fetchone b s).2.good := by
  cases s with
  | cursor st cur soft hard =>
    obtain ⟨h1, h2, h3⟩ := hg
    cases st with
    | noCursor =>
      have hs : soft = true := h1.2 rfl
      have hcur := h2 rfl
      subst hs; subst hcur
      cases hard
      · cases b
        · simp [Src.fetchone, Src.abs, Plain.fetchone, Src.good]
        · simp [Src.corner] at hc
      · simp [Src.fetchone, Src.abs, Plain.fetchone, Src.good]
    | default =>
      have hs : soft = false := by cases soft <;> simp_all
      have hh : hard = false := by cases hard <;> simp_all
      subst hs; subst hh
      cases cur with
      | nil => cases b <;> simp [Src.fetchone, Src.abs, Plain.fetchone, Src.good, Src.cursorSoftClose]
      | cons r rest => simp [Src.fetchone, Src.abs, Plain.fetchone, Src.good]
    | full buf =>
      have hs : soft = false := by cases soft <;> simp_all
      have hh : hard = false := by cases hard <;> simp_all
      subst hs; subst hh
      cases buf with
      | nil => cases b <;> simp [Src.fetchone, Src.abs, Plain.fetchone, Src.good, Src.cursorSoftClose]
      | cons r rest => simp [Src.fetchone, Src.abs, Plain.fetchone, Src.good]
    | buffered buf bs g mx =>
      have hs : soft = false := by cases soft <;> simp_all
      have hh : hard = false := by cases hard <;> simp_all
      subst hs; subst hh
      cases buf with
      | cons r rest => simp [Src.fetchone, Src.abs, Plain.fetchone, Src.good]
      | nil =>
        cases cur with
        | nil =>
          cases b <;> simp [Src.fetchone, Src.bufferRows, Src.abs, Plain.fetchone, Src.good, Src.cursorSoftClose]
        | cons c cs =>
          by_cases hb : bs < 1
          · simp [Src.fetchone, Src.bufferRows, hb, Src.abs, Plain.fetchone, Src.good]
          · have hb' : ¬ bs = 0 := by omega
            obtain ⟨m, rfl⟩ : ∃ m, bs = m + 1 := ⟨bs - 1, by omega⟩
            simp [Src.fetchone, Src.bufferRows, Src.abs, Plain.fetchone, Src.good]
  | iter it soft hard =>
    cases hard
    · cases it with
      | nil => cases b <;> simp [Src.fetchone, Src.abs, Plain.fetchone, Src.good]
      | cons r rest => simp [Src.fetchone, Src.abs, Plain.fetchone, Src.good]
    · simp [Src.fetchone, Src.abs, Plain.fetchone]; exact hg
  | chunked p bb cs dyn soft hard =>
    obtain ⟨hd, hh⟩ := hg
    cases hard
    · have h := chTake_spec cs 1 p bb
      simp only [Src.fetchone]
      rcases hct : Src.chTake cs 1 p bb with ⟨o, p', b'⟩
      rw [hct] at h
      simp only at h
      cases hpb : p ++ bb with
      | nil =>
        rw [hpb] at h
        have ho : o = [] := by simpa using h.1
        subst ho
        cases b <;> simp [Src.abs, Plain.fetchone, Src.good, hpb, hd]
      | cons r rest =>
        rw [hpb] at h
        have ho : o = [r] := by simpa using h.1
        subst ho
        simp [Src.abs, Plain.fetchone, Src.good, hpb, hd]
        simpa using h.2
    · simp [Src.fetchone, Src.abs, Plain.fetchone, Src.good]; exact ⟨hd, hh rfl⟩

theorem Plain.rawNext_eq (p : Plain) : Plain.rawNext p = Plain.fetchone false p := by
  obtain ⟨rem, hard, d1⟩ := p
  cases hard <;> cases rem <;> simp [Plain.rawNext, Plain.fetchone]

theorem src_rawNext_refines (s : Src) (hg : s.good) :
    Prod.map id Src.abs (Src.rawNext s) = Plain.rawNext s.abs ∧ (Src.rawNext s).2.good := by
  cases s with
  | cursor st cur soft hard =>
    have h := src_fetchone_refines false (.cursor st cur soft hard) hg (by simp)
    simp only [Src.rawNext]
    exact ⟨by rw [h.1, Plain.rawNext_eq], h.2⟩
  | iter it soft hard =>
    cases hard
    · cases it <;> simp [Src.rawNext, Src.abs, Plain.rawNext, Src.good]
    · simp [Src.rawNext, Src.abs, Plain.rawNext]; exact hg
  | chunked p bb cs dyn soft hard =>
    obtain ⟨hd, hh⟩ := hg
    cases hard
    · have h := chTake_spec cs 1 p bb
      simp only [Src.rawNext]
      rcases hct : Src.chTake cs 1 p bb with ⟨o, p', b'⟩
      rw [hct] at h
      simp only at h
      cases hpb : p ++ bb with
      | nil =>
        rw [hpb] at h
        have ho : o = [] := by simpa using h.1
        subst ho
        have : p' ++ b' = [] := by simpa using h.2
        simp [Src.abs, Plain.rawNext, Src.good, hpb, hd, this]
      | cons r rest =>
        rw [hpb] at h
        have ho : o = [r] := by simpa using h.1
        subst ho
        simp [Src.abs, Plain.rawNext, Src.good, hpb, hd]
        simpa using h.2
    · simp [Src.rawNext, Src.abs, Plain.rawNext, Src.good]; exact ⟨hd, hh rfl⟩

theorem cursor_live {st : Strat} {cur : List Row} {soft hard : Bool}
    (hg : Src.good (.cursor st cur soft hard)) (hst : st ≠ .noCursor) : soft = false ∧ hard = false := by
  obtain ⟨h1, _, h3⟩ := hg
  have hs : soft = false := by
    cases soft
    · rfl
    · exact absurd (h1.1 rfl) hst
  subst hs
  cases hard
  · exact ⟨rfl, rfl⟩
  · simp at h3

theorem src_fetchall_refines (s : Src) (hg : s.good) :
    Prod.map id Src.abs (Src.fetchall s) = Plain.fetchall s.abs ∧ (Src.fetchall s).2.good := by
  cases s with
  | cursor st cur soft hard =>
    cases st with
    | noCursor =>
      obtain ⟨h1, h2, h3⟩ := hg
      have hs : soft = true := h1.2 rfl
      have hcur := h2 rfl
      subst hs; subst hcur
      cases hard <;> simp [Src.fetchall, Src.abs, Plain.fetchall, Src.good]
    | default =>
      obtain ⟨rfl, rfl⟩ := cursor_live hg (by simp)
      simp [Src.fetchall, Src.abs, Plain.fetchall, Src.good, Src.cursorSoftClose]
    | full buf =>
      obtain ⟨rfl, rfl⟩ := cursor_live hg (by simp)
      simp [Src.fetchall, Src.abs, Plain.fetchall, Src.good, Src.cursorSoftClose]
    | buffered buf bs g mx =>
      obtain ⟨rfl, rfl⟩ := cursor_live hg (by simp)
      simp [Src.fetchall, Src.abs, Plain.fetchall, Src.good, Src.cursorSoftClose]
  | iter it soft hard =>
    cases hard
    · simp [Src.fetchall, Src.abs, Plain.fetchall, Src.good]
    · simp [Src.fetchall, Src.abs, Plain.fetchall]; exact hg
  | chunked p bb cs dyn soft hard =>
    obtain ⟨hd, hh⟩ := hg
    cases hard
    · simp [Src.fetchall, Src.abs, Plain.fetchall, Src.good, hd]
    · simp [Src.fetchall, Src.abs, Plain.fetchall, Src.good]; exact ⟨hd, hh rfl⟩

theorem src_drainRaw_refines (s : Src) (hg : s.good) :
    Prod.map id Src.abs (Src.drainRaw s) = Plain.ops.drainRaw s.abs ∧ (Src.drainRaw s).2.good := by
  cases s with
  | cursor st cur soft hard =>
    have h := src_fetchall_refines (.cursor st cur soft hard) hg
    cases st with
    | noCursor =>
      obtain ⟨h1, h2, h3⟩ := hg
      have hs : soft = true := h1.2 rfl
      have hcur := h2 rfl
      subst hs; subst hcur
      cases hard <;> simp [Src.drainRaw, Src.fetchall, Src.abs, Plain.ops, Src.good]
    | default =>
      obtain ⟨rfl, rfl⟩ := cursor_live hg (by simp)
      simp [Src.drainRaw, Src.fetchall, Src.abs, Plain.ops, Src.good, Src.cursorSoftClose]
    | full buf =>
      obtain ⟨rfl, rfl⟩ := cursor_live hg (by simp)
      simp [Src.drainRaw, Src.fetchall, Src.abs, Plain.ops, Src.good, Src.cursorSoftClose]
    | buffered buf bs g mx =>
      obtain ⟨rfl, rfl⟩ := cursor_live hg (by simp)
      simp [Src.drainRaw, Src.fetchall, Src.abs, Plain.ops, Src.good, Src.cursorSoftClose]
  | iter it soft hard =>
    simp [Src.drainRaw, Src.abs, Plain.ops, Src.good]
  | chunked p bb cs dyn soft hard =>
    obtain ⟨hd, hh⟩ := hg
    simp [Src.drainRaw, Src.abs, Plain.ops, Src.good, hd]

theorem src_softClose_refines (b : Bool) (s : Src) (hg : s.good) :
    Src.abs (Src.softClose b s) = Plain.softClose b s.abs ∧ (Src.softClose b s).good := by
  cases s with
  | cursor st cur soft hard =>
    cases st with
    | noCursor =>
      obtain ⟨h1, h2, h3⟩ := hg
      have hs : soft = true := h1.2 rfl
      have hcur := h2 rfl
      subst hs; subst hcur
      cases hard <;> cases b <;> simp [Src.softClose, Src.cursorSoftClose, Src.abs, Plain.softClose, Src.good]
    | default =>
      obtain ⟨rfl, rfl⟩ := cursor_live hg (by simp)
      cases b <;> simp [Src.softClose, Src.cursorSoftClose, Src.abs, Plain.softClose, Src.good]
    | full buf =>
      obtain ⟨rfl, rfl⟩ := cursor_live hg (by simp)
      cases b <;> simp [Src.softClose, Src.cursorSoftClose, Src.abs, Plain.softClose, Src.good]
    | buffered buf bs g mx =>
      obtain ⟨rfl, rfl⟩ := cursor_live hg (by simp)
      cases b <;> simp [Src.softClose, Src.cursorSoftClose, Src.abs, Plain.softClose, Src.good]
  | iter it soft hard =>
    simp [Src.softClose, Src.abs, Plain.softClose, Src.good]
  | chunked p bb cs dyn soft hard =>
    obtain ⟨hd, hh⟩ := hg
    simp [Src.softClose, Src.abs, Plain.softClose, Src.good, hd]

theorem src_yieldPer_refines (n : Nat) (s : Src) (hg : s.good) (hl : s.ypLossy = false) :
    Src.abs (Src.yieldPer n s) = Plain.ops.yieldPer n s.abs ∧ (Src.yieldPer n s).good := by
  cases s with
  | cursor st cur soft hard =>
    cases st with
    | noCursor =>
      obtain ⟨h1, h2, h3⟩ := hg
      simp [Src.yieldPer, Src.abs, Plain.ops, Src.good]; exact ⟨h1.2 rfl, h2 rfl, h3⟩
    | default =>
      obtain ⟨rfl, rfl⟩ := cursor_live hg (by simp)
      simp [Src.yieldPer, Src.abs, Plain.ops, Src.good]
    | full buf =>
      obtain ⟨rfl, rfl⟩ := cursor_live hg (by simp)
      simp [Src.yieldPer, Src.abs, Plain.ops, Src.good]
    | buffered buf bs g mx =>
      obtain ⟨rfl, rfl⟩ := cursor_live hg (by simp)
      simp [Src.yieldPer, Src.abs, Plain.ops, Src.good]
  | iter it soft hard =>
    simp [Src.yieldPer, Src.abs, Plain.ops]; exact hg
  | chunked p bb cs dyn soft hard =>
    obtain ⟨hd, hh⟩ := hg
    have hp : p = [] := by simpa [Src.ypLossy] using hl
    subst hp
    simp [Src.yieldPer, Src.abs, Plain.ops, Src.good, hd]
    intro h; exact (hh h).2

theorem src_size (s : Src) (hg : s.good) : Src.size s = s.abs.rem.length := by
  cases s with
  | cursor st cur soft hard =>
    cases st with
    | noCursor => simp [Src.size, Src.abs]
    | default => simp [Src.size, Src.abs]
    | full buf => simp [Src.size, Src.abs]
    | buffered buf bs g mx => simp [Src.size, Src.abs]
  | iter it soft hard => simp [Src.size, Src.abs]
  | chunked p bb cs dyn soft hard => simp [Src.size, Src.abs]

theorem src_isHard (s : Src) : Src.isHard s = s.abs.hard := by
  cases s with
  | cursor st cur soft hard => cases st <;> simp [Src.isHard, Src.abs]
  | iter it soft hard => simp [Src.isHard, Src.abs]
  | chunked p bb cs dyn soft hard => simp [Src.isHard, Src.abs]

theorem src_corner_some (b : Bool) (s : Src) (r : Row) (hg : s.good)
    (h : (Src.fetchone b s).1 = .ok (some r)) : Src.corner (Src.fetchone b s).2 = false := by
  cases s with
  | cursor st cur soft hard =>
    cases st with
    | noCursor =>
      cases hard <;> simp [Src.fetchone] at h
    | default =>
      obtain ⟨rfl, rfl⟩ := cursor_live hg (by simp)
      cases cur with
      | nil => simp [Src.fetchone] at h
      | cons c cs => simp [Src.fetchone, Src.corner]
    | full buf =>
      obtain ⟨rfl, rfl⟩ := cursor_live hg (by simp)
      cases buf with
      | nil => simp [Src.fetchone] at h
      | cons c cs => simp [Src.fetchone, Src.corner]
    | buffered buf bs g mx =>
      obtain ⟨rfl, rfl⟩ := cursor_live hg (by simp)
      cases buf with
      | cons c cs => simp [Src.fetchone, Src.corner]
      | nil =>
        simp only [Src.fetchone] at h ⊢
        rcases hb : Src.bufferRows bs g mx cur with ⟨nb, bs', cur'⟩
        rw [hb] at h
        cases nb with
        | nil => simp at h
        | cons c cs => simp [Src.corner]
  | iter it soft hard => cases hard <;> cases it <;> simp [Src.fetchone, Src.corner] <;> simp_all [Src.fetchone]
  | chunked p bb cs dyn soft hard =>
    cases hard
    · simp only [Src.fetchone]
      rcases hct : Src.chTake cs 1 p bb with ⟨o, p', b'⟩
      cases o <;> simp [Src.corner]
    · simp [Src.fetchone, Src.corner]

theorem Plain.fetchmany_none_nod1 (p : Plain) (h : p.d1 = false) :
    Plain.fetchmany none p = Plain.fetchall p := by
  obtain ⟨rem, hard, d1⟩ := p
  simp only at h; subst h
  cases hard <;> simp [Plain.fetchmany, Plain.fetchall]

theorem buf_take (buf cur : List Row) (k : Nat) (h : k > buf.length) :
    (buf ++ cur.take (k - buf.length)).take k = (buf ++ cur).take k ∧
    (buf ++ cur.take (k - buf.length)).drop k ++ cur.drop (k - buf.length) = (buf ++ cur).drop k := by
  constructor
  · rw [List.take_append, List.take_append, List.take_take]
    simp
  · rw [List.drop_append, List.drop_append]
    have h1 : buf.drop k = [] := List.drop_of_length_le (by omega)
    have h2 : (cur.take (k - buf.length)).drop (k - buf.length) = [] :=
      List.drop_of_length_le (by simp [List.length_take]; omega)
    simp [h1, h2]

theorem src_fetchmany_refines (n : Option Nat) (s : Src) (hg : s.good) (hn : n ≠ some 0) :
    Prod.map id Src.abs (Src.fetchmany n s) = Plain.fetchmany n s.abs ∧ (Src.fetchmany n s).2.good := by
  cases s with
  | cursor st cur soft hard =>
    cases st with
    | noCursor =>
      obtain ⟨h1, h2, h3⟩ := hg
      have hs : soft = true := h1.2 rfl
      have hcur := h2 rfl
      subst hs; subst hcur
      cases hard <;> cases n <;> simp [Src.fetchmany, Src.abs, Plain.fetchmany, Src.good]
    | default =>
      obtain ⟨rfl, rfl⟩ := cursor_live hg (by simp)
      cases n with
      | none =>
        cases cur with
        | nil => simp [Src.fetchmany, Src.abs, Plain.fetchmany, Src.good, Src.cursorSoftClose]
        | cons c cs => simp [Src.fetchmany, Src.abs, Plain.fetchmany, Src.good]
      | some k =>
        have hk : k ≠ 0 := by intro h; exact hn (by rw [h])
        obtain ⟨m, rfl⟩ : ∃ m, k = m + 1 := ⟨k - 1, by omega⟩
        cases cur with
        | nil => simp [Src.fetchmany, Src.abs, Plain.fetchmany, Src.good, Src.cursorSoftClose]
        | cons c cs => simp [Src.fetchmany, Src.abs, Plain.fetchmany, Src.good]
    | full buf =>
      obtain ⟨rfl, rfl⟩ := cursor_live hg (by simp)
      cases n with
      | none =>
        have h := src_fetchall_refines (.cursor (.full buf) cur false false) hg
        simp only [Src.fetchmany]
        rw [Plain.fetchmany_none_nod1 _ (by simp [Src.abs])]
        exact h
      | some k =>
        have hk : k ≠ 0 := by intro h; exact hn (by rw [h])
        obtain ⟨m, rfl⟩ : ∃ m, k = m + 1 := ⟨k - 1, by omega⟩
        cases buf with
        | nil => simp [Src.fetchmany, Src.abs, Plain.fetchmany, Src.good, Src.cursorSoftClose]
        | cons c cs => simp [Src.fetchmany, Src.abs, Plain.fetchmany, Src.good]
    | buffered buf bs g mx =>
      obtain ⟨rfl, rfl⟩ := cursor_live hg (by simp)
      cases n with
      | none =>
        have h := src_fetchall_refines (.cursor (.buffered buf bs g mx) cur false false) hg
        simp only [Src.fetchmany]
        rw [Plain.fetchmany_none_nod1 _ (by simp [Src.abs])]
        exact h
      | some k =>
        simp only [Src.fetchmany]
        by_cases hgt : k > buf.length
        · have hbt := buf_take buf cur k hgt
          simp only [hgt, if_true]
          by_cases hne : (cur.take (k - buf.length)).isEmpty = true
          · -- the cursor is exhausted: everything left is the buffer
            have hcur : cur = [] := by
              have := List.take_eq_nil_iff.1 (List.isEmpty_iff.1 hne)
              rcases this with h | h
              · omega
              · exact h
            subst hcur
            have h1 : buf.take k = buf := List.take_of_length_le (by omega)
            have h2 : buf.drop k = [] := List.drop_of_length_le (by omega)
            simp [Src.abs, Plain.fetchmany, Src.good, Src.cursorSoftClose, h1, h2]
          · simp only [hne]
            simp [Src.abs, Plain.fetchmany, Src.good, hbt.1, hbt.2]
        · have hle : k ≤ buf.length := by omega
          simp only [hgt, if_false]
          simp [Src.abs, Plain.fetchmany, Src.good, List.take_append_of_le_length hle,
            List.drop_append_of_le_length hle]
  | iter it soft hard =>
    cases hard
    · cases n <;> simp [Src.fetchmany, Src.abs, Plain.fetchmany, Src.good]
    · simp [Src.fetchmany, Src.abs, Plain.fetchmany]; exact hg
  | chunked p bb cs dyn soft hard =>
    obtain ⟨hd, hh⟩ := hg
    subst hd
    cases hard
    · cases n with
      | none =>
        have : List.take (p.length + bb.length) (p ++ bb) = p ++ bb :=
          List.take_of_length_le (by simp)
        simp [Src.fetchmany, Src.abs, Plain.fetchmany, Src.good, this]
      | some k =>
        have h := chTake_spec cs k p bb
        simp [Src.fetchmany, Src.abs, Plain.fetchmany, Src.good, h.1, h.2]
    · simp [Src.fetchmany, Src.abs, Plain.fetchmany, Src.good]; exact hh rfl

/-- **every real source refines the bare list** -/
theorem src_refines : Refines Src.ops Src.good Src.abs where
  fetchone := src_fetchone_refines
  rawNext := src_rawNext_refines
  fetchmany := src_fetchmany_refines
  fetchall := src_fetchall_refines
  drainRaw := src_drainRaw_refines
  softClose := src_softClose_refines
  yieldPer := src_yieldPer_refines
  size := src_size
  isHard := src_isHard
  ofList := fun l => by simp [Src.ops, Src.abs, Plain.ops, Src.good]
  corner_some := src_corner_some

/-! ## the Result-level functions commute with the abstraction -/

section Generic
variable {σ : Type} {O : SrcOps σ} {good : σ → Prop} {abs : σ → Plain}

theorem Refines.fetchone' (R : Refines O good abs) (b : Bool) (s : σ) (hg : good s)
    (hc : b = true → O.corner s = false) :
    Plain.ops.fetchone b (abs s) = ((O.fetchone b s).1, abs (O.fetchone b s).2) ∧
      good (O.fetchone b s).2 := by
  have h := R.fetchone b s hg hc
  exact ⟨by show Plain.fetchone b (abs s) = _; rw [← h.1]; rfl, h.2⟩

theorem Refines.rawNext' (R : Refines O good abs) (s : σ) (hg : good s) :
    Plain.ops.rawNext (abs s) = ((O.rawNext s).1, abs (O.rawNext s).2) ∧ good (O.rawNext s).2 := by
  have h := R.rawNext s hg
  exact ⟨by show Plain.rawNext (abs s) = _; rw [← h.1]; rfl, h.2⟩

theorem Refines.fetchmany' (R : Refines O good abs) (n : Option Nat) (s : σ) (hg : good s)
    (hn : n ≠ some 0) :
    Plain.ops.fetchmany n (abs s) = ((O.fetchmany n s).1, abs (O.fetchmany n s).2) ∧
      good (O.fetchmany n s).2 := by
  have h := R.fetchmany n s hg hn
  exact ⟨by show Plain.fetchmany n (abs s) = _; rw [← h.1]; rfl, h.2⟩

theorem Refines.fetchall' (R : Refines O good abs) (s : σ) (hg : good s) :
    Plain.ops.fetchall (abs s) = ((O.fetchall s).1, abs (O.fetchall s).2) ∧
      good (O.fetchall s).2 := by
  have h := R.fetchall s hg
  exact ⟨by show Plain.fetchall (abs s) = _; rw [← h.1]; rfl, h.2⟩

theorem oneLoop_refines (R : Refines O good abs) (raw sss : Bool) (h : Handle) (u : UStrat) :
    ∀ (fuel : Nat) (seen : List Key) (s : σ), good s →
      oneLoop Plain.ops raw sss h u fuel seen (abs s) =
        ((oneLoop O raw sss h u fuel seen s).1, (oneLoop O raw sss h u fuel seen s).2.1,
          abs (oneLoop O raw sss h u fuel seen s).2.2) ∧
      good (oneLoop O raw sss h u fuel seen s).2.2 := by
  intro fuel
  induction fuel with
  | zero => intro seen s hg; simp [oneLoop, hg]
  | succ f ih =>
    intro seen s hg
    have hp : (if raw then Plain.ops.rawNext (abs s) else Plain.ops.fetchone false (abs s)) =
        ((if raw then O.rawNext s else O.fetchone false s).1,
          abs (if raw then O.rawNext s else O.fetchone false s).2) ∧
        good (if raw then O.rawNext s else O.fetchone false s).2 := by
      cases raw
      · simpa using R.fetchone' false s hg (by simp)
      · simpa using R.rawNext' s hg
    simp only [oneLoop]
    rw [hp.1]
    rcases hx : (if raw then O.rawNext s else O.fetchone false s) with ⟨o, s1⟩
    rw [hx] at hp
    have hg1 : good s1 := hp.2
    cases o with
    | error e => simp [hg1]
    | ok r =>
      cases r with
      | none => simp [hg1]
      | some rw_ =>
        simp only
        split
        · simp [hg1]
        · split
          · exact ih seen s1 hg1
          · simp [hg1]

theorem onerow_refines (R : Refines O good abs) (raw sss : Bool) (h : Handle) (s : σ) (hg : good s) :
    onerow Plain.ops raw sss h (abs s) =
      ((onerow O raw sss h s).1, (onerow O raw sss h s).2.1, abs (onerow O raw sss h s).2.2) ∧
    good (onerow O raw sss h s).2.2 := by
  unfold onerow
  cases huq : h.uq with
  | none =>
    have hp : (if raw then Plain.ops.rawNext (abs s) else Plain.ops.fetchone false (abs s)) =
        ((if raw then O.rawNext s else O.fetchone false s).1,
          abs (if raw then O.rawNext s else O.fetchone false s).2) ∧
        good (if raw then O.rawNext s else O.fetchone false s).2 := by
      cases raw
      · simpa using R.fetchone' false s hg (by simp)
      · simpa using R.rawNext' s hg
    simp only
    rw [hp.1]
    rcases hx : (if raw then O.rawNext s else O.fetchone false s) with ⟨o, s1⟩
    rw [hx] at hp
    have hg1 : good s1 := hp.2
    cases o with
    | error e => simp [hg1]
    | ok r => cases r <;> simp [hg1]
  | some u =>
    have hsz : Plain.ops.size (abs s) = O.size s := by
      rw [R.size s hg]; rfl
    have hl := oneLoop_refines R raw sss h u.strat (O.size s + 1) u.seen s hg
    simp only [hsz]
    rw [hl.1]
    rcases hx : oneLoop O raw sss h u.strat (O.size s + 1) u.seen s with ⟨o, seen', s1⟩
    rw [hx] at hl
    have hg1 : good s1 := hl.2
    cases o with
    | error e => simp [hg1]
    | ok r => cases r <;> simp [hg1]

theorem manyLoop_refines (R : Refines O good abs) (sss : Bool) (h : Handle) (u : UStrat) (num : Nat) :
    ∀ (fuel : Nat) (collect : List Item) (seen : List Key) (s : σ), good s →
      manyLoop Plain.ops sss h u num fuel collect seen (abs s) =
        ((manyLoop O sss h u num fuel collect seen s).1, (manyLoop O sss h u num fuel collect seen s).2.1,
          abs (manyLoop O sss h u num fuel collect seen s).2.2) ∧
      good (manyLoop O sss h u num fuel collect seen s).2.2 := by
  intro fuel
  induction fuel with
  | zero => intro collect seen s hg; simp [manyLoop, hg]
  | succ f ih =>
    intro collect seen s hg
    simp only [manyLoop]
    by_cases hreq : num - collect.length = 0
    · simp [hreq, hg]
    · simp only [hreq, if_false]
      have hp := R.fetchmany' (some (num - collect.length)) s hg (by simpa using hreq)
      rw [hp.1]
      rcases hx : O.fetchmany (some (num - collect.length)) s with ⟨o, s1⟩
      rw [hx] at hp
      have hg1 : good s1 := hp.2
      cases o with
      | error e => simp [hg1]
      | ok rows =>
        cases rows with
        | nil => simp [hg1]
        | cons r rs =>
          simp only
          split
          · simp [hg1]
          · exact ih _ _ s1 hg1

theorem manyrows_refines (R : Refines O good abs) (sss : Bool) (yp : Option Nat) (h : Handle)
    (num : Option Nat) (s : σ) (hg : good s) (hn : effSize num yp ≠ some 0) :
    manyrows Plain.ops sss yp h num (abs s) =
      ((manyrows O sss yp h num s).1, (manyrows O sss yp h num s).2.1,
        abs (manyrows O sss yp h num s).2.2) ∧
    good (manyrows O sss yp h num s).2.2 := by
  unfold manyrows
  have hsz : Plain.ops.size (abs s) = O.size s := by rw [R.size s hg]; rfl
  cases huq : h.uq with
  | none =>
    simp only
    have hp := R.fetchmany' _ s hg hn
    rw [hp.1]
    rcases hx : O.fetchmany (effSize num yp) s with ⟨o, s1⟩
    rw [hx] at hp
    have hg1 : good s1 := hp.2
    cases o <;> simp [hg1]
  | some u =>
    simp only [hsz]
    cases num with
    | some n =>
      simp only
      have hl := manyLoop_refines R sss h u.strat n (O.size s + 1) [] u.seen s hg
      rw [hl.1]
      rcases hx : manyLoop O sss h u.strat n (O.size s + 1) [] u.seen s with ⟨o, seen', s1⟩
      rw [hx] at hl
      have hg1 : good s1 := hl.2
      cases o <;> simp [manyFin, hg1]
    | none =>
      simp only
      split
      · have hl := manyLoop_refines R sss h u.strat (ypOr0 yp)
          (O.size s + 1) [] u.seen s hg
        rw [hl.1]
        rcases hx : manyLoop O sss h u.strat (ypOr0 yp)
          (O.size s + 1) [] u.seen s with ⟨o, seen', s1⟩
        rw [hx] at hl
        have hg1 : good s1 := hl.2
        cases o <;> simp [manyFin, hg1]
      · have hp := R.fetchmany' none s hg (by simp)
        rw [hp.1]
        rcases hx : O.fetchmany none s with ⟨o, s1⟩
        rw [hx] at hp
        have hg1 : good s1 := hp.2
        cases o with
        | error e => simp [hg1]
        | ok rows =>
          simp only
          split
          · simp [hg1]
          · rename_i out seen' _
            have hsz1 : Plain.ops.size (abs s1) = O.size s1 := by rw [R.size s1 hg1]; rfl
            have hl := manyLoop_refines R sss h u.strat rows.length (O.size s1 + 1) out seen' s1 hg1
            simp only [hsz1]
            rw [hl.1]
            rcases hx2 : manyLoop O sss h u.strat rows.length (O.size s1 + 1) out seen' s1 with ⟨o2, seen2, s2⟩
            rw [hx2] at hl
            have hg2 : good s2 := hl.2
            cases o2 <;> simp [manyFin, hg2]

theorem allrows_refines (R : Refines O good abs) (sss : Bool) (h : Handle) (s : σ) (hg : good s) :
    allrows Plain.ops sss h (abs s) =
      ((allrows O sss h s).1, (allrows O sss h s).2.1, abs (allrows O sss h s).2.2) ∧
    good (allrows O sss h s).2.2 := by
  unfold allrows
  have hp := R.fetchall' s hg
  rw [hp.1]
  rcases hx : O.fetchall s with ⟨o, s1⟩
  rw [hx] at hp
  have hg1 : good s1 := hp.2
  cases o with
  | error e => simp [hg1]
  | ok rows =>
    simp only
    cases h.uq with
    | none => simp [hg1]
    | some u =>
      simp only
      split <;> simp [hg1]

theorem partLoop_refines (R : Refines O good abs) (sss : Bool) (yp num : Option Nat)
    (hn : effSize num yp ≠ some 0) :
    ∀ (k : Nat) (h : Handle) (s : σ), good s →
      partLoop Plain.ops sss yp num k h (abs s) =
        ((partLoop O sss yp num k h s).1, (partLoop O sss yp num k h s).2.1,
          abs (partLoop O sss yp num k h s).2.2) ∧
      good (partLoop O sss yp num k h s).2.2 := by
  intro k
  induction k with
  | zero => intro h s hg; simp [partLoop, hg]
  | succ k ih =>
    intro h s hg
    simp only [partLoop]
    have hm := manyrows_refines R sss yp h num s hg hn
    rw [hm.1]
    rcases hx : manyrows O sss yp h num s with ⟨o, h1, s1⟩
    rw [hx] at hm
    have hg1 : good s1 := hm.2
    cases o with
    | error e => simp [hg1]
    | ok l =>
      cases l with
      | nil => simp [hg1]
      | cons x xs =>
        simp only
        have hi := ih h1 s1 hg1
        rw [hi.1]
        rcases hy : partLoop O sss yp num k h1 s1 with ⟨o2, h2, s2⟩
        rw [hy] at hi
        have hg2 : good s2 := hi.2
        cases o2 <;> simp [hg2]

theorem iterLoop_refines (R : Refines O good abs) (sss : Bool) :
    ∀ (k : Nat) (h : Handle) (s : σ), good s →
      iterLoop Plain.ops sss k h (abs s) =
        ((iterLoop O sss k h s).1, (iterLoop O sss k h s).2.1, abs (iterLoop O sss k h s).2.2) ∧
      good (iterLoop O sss k h s).2.2 := by
  intro k
  induction k with
  | zero => intro h s hg; simp [iterLoop, hg]
  | succ k ih =>
    intro h s hg
    simp only [iterLoop]
    have hm := onerow_refines R true sss h s hg
    rw [hm.1]
    rcases hx : onerow O true sss h s with ⟨o, h1, s1⟩
    rw [hx] at hm
    have hg1 : good s1 := hm.2
    cases o with
    | error e => simp [hg1]
    | ok r =>
      cases r with
      | none => simp [hg1]
      | some it =>
        simp only
        have hi := ih h1 s1 hg1
        rw [hi.1]
        rcases hy : iterLoop O sss k h1 s1 with ⟨o2, h2, s2⟩
        rw [hy] at hi
        have hg2 : good s2 := hi.2
        cases o2 <;> simp [hg2]

theorem skipEq_refines (R : Refines O good abs) (sss : Bool) (h : Handle) (u : UStrat) (k0 : Key) :
    ∀ (fuel : Nat) (s : σ), good s → O.corner s = false →
      skipEq Plain.ops sss h u k0 fuel (abs s) =
        ((skipEq O sss h u k0 fuel s).1, abs (skipEq O sss h u k0 fuel s).2) ∧
      good (skipEq O sss h u k0 fuel s).2 := by
  intro fuel
  induction fuel with
  | zero => intro s hg _; simp [skipEq, hg]
  | succ f ih =>
    intro s hg hc
    simp only [skipEq]
    have hp := R.fetchone' true s hg (fun _ => hc)
    rw [hp.1]
    have hcs := R.corner_some true s
    rcases hx : O.fetchone true s with ⟨o, s1⟩
    rw [hx] at hp hcs
    have hg1 : good s1 := hp.2
    cases o with
    | error e => simp [hg1]
    | ok r =>
      cases r with
      | none => simp [hg1]
      | some rw_ =>
        simp only
        split
        · exact ih s1 hg1 (hcs rw_ hg rfl)
        · simp [hg1]

theorem onlyOne_refines (R : Refines O good abs) (sss : Bool) (h : Handle) (second rnone scalar : Bool)
    (s : σ) (hg : good s) (hc : O.corner s = false) :
    onlyOne Plain.ops sss h second rnone scalar (abs s) =
      ((onlyOne O sss h second rnone scalar s).1, abs (onlyOne O sss h second rnone scalar s).2) ∧
    good (onlyOne O sss h second rnone scalar s).2 := by
  unfold onlyOne
  have hp := R.fetchone' true s hg (fun _ => hc)
  rw [hp.1]
  have hcs := R.corner_some true s
  rcases hx : O.fetchone true s with ⟨o, s1⟩
  rw [hx] at hp hcs
  have hg1 : good s1 := hp.2
  cases o with
  | error e => simp [hg1]
  | ok r =>
    cases r with
    | none => simp [hg1]
    | some rw_ =>
      have hc1 : O.corner s1 = false := hcs rw_ hg rfl
      have hsz1 : Plain.ops.size (abs s1) = O.size s1 := by rw [R.size s1 hg1]; rfl
      have hsc : ∀ s2, good s2 → Plain.ops.softClose true (abs s2) = abs (O.softClose true s2) ∧
          good (O.softClose true s2) := fun s2 h2 =>
        ⟨((R.softClose true s2 h2).1).symm, (R.softClose true s2 h2).2⟩
      simp only
      generalize (if (scalar && sss) = true then ({ h with view := View.scalars } : Handle) else h) = h1
      cases second with
      | false =>
        simp only [Bool.false_eq_true, if_false]
        have := hsc s1 hg1
        rw [this.1]
        split <;> simp [this.2]
      | true =>
        simp only [if_true]
        cases h.uq with
        | some u =>
          simp only [hsz1]
          have hl := skipEq_refines R sss h1 u.strat (keyOf u.strat (mkItem sss h1 rw_))
            (O.size s1 + 1) s1 hg1 hc1
          rw [hl.1]
          rcases hy : skipEq O sss h1 u.strat (keyOf u.strat (mkItem sss h1 rw_))
            (O.size s1 + 1) s1 with ⟨o2, s2⟩
          rw [hy] at hl
          have hg2 : good s2 := hl.2
          cases o2 with
          | error e => simp [hg2]
          | ok b =>
            cases b with
            | true =>
              have := hsc s2 hg2
              simp only
              rw [this.1]
              simp [this.2]
            | false =>
              simp only
              split <;> simp [hg2]
        | none =>
          simp only
          have hp2 := R.fetchone' true s1 hg1 (fun _ => hc1)
          rw [hp2.1]
          rcases hy : O.fetchone true s1 with ⟨o2, s2⟩
          rw [hy] at hp2
          have hg2 : good s2 := hp2.2
          cases o2 with
          | error e => simp [hg2]
          | ok r2 =>
            cases r2 with
            | some _ =>
              have := hsc s2 hg2
              simp only
              rw [this.1]
              simp [this.2]
            | none =>
              simp only
              split <;> simp [hg2]

/-- the facade state over the abstracted source -/
def absSt (abs : σ → Plain) (st : St σ) : St Plain :=
  { src := abs st.src, sss := st.sss, width := st.width, yp := st.yp, r := st.r, v := st.v }

/-- sizes for which `fetchmany` is not driver-defined -/
def Op.sized : Op → Bool
  | .fetchmany _ n => n != some 0
  | .partitions _ n _ => n != some 0
  | .yieldPer _ n => n != 0
  | _ => true

@[simp] theorem getH_absSt (st : St σ) (t : Tgt) : getH (absSt abs st) t = getH st t := by
  cases t <;> simp [getH, absSt]

@[simp] theorem setH_absSt (st : St σ) (t : Tgt) (h : Handle) (s : σ) :
    setH (absSt abs st) t h (abs s) = absSt abs (setH st t h s) := by
  cases t with
  | r => simp [setH, absSt]
  | v => cases hv : st.v <;> simp [setH, absSt, hv]

theorem step_refines (R : Refines O good abs) (st : St σ) (op : Op) (hg : good st.src)
    (hyp : st.yp ≠ some 0) (hs : op.sized = true) (hz : (step O st op).1.2 = false) :
    step Plain.ops (absSt abs st) op = ((step O st op).1, absSt abs (step O st op).2) ∧
    good (step O st op).2.src ∧ (step O st op).2.yp ≠ some 0 := by
  cases op with
  | unique t u =>
    refine ⟨?_, ?_, ?_⟩
    · simp only [step, getH_absSt]
      rw [show (absSt abs st).src = abs st.src from rfl, setH_absSt]
    · cases t <;> simp [step, setH] <;> (try cases st.v) <;> simp [hg]
    · cases t <;> simp [step, setH] <;> (try cases st.v) <;> simp [hyp]
  | columns t idxs =>
    simp only [step, getH_absSt]
    rw [show (absSt abs st).src = abs st.src from rfl, show (absSt abs st).sss = st.sss from rfl,
      show (absSt abs st).width = st.width from rfl]
    split
    · exact ⟨rfl, hg, hyp⟩
    · split
      · exact ⟨rfl, hg, hyp⟩
      · rw [setH_absSt]
        refine ⟨rfl, ?_, ?_⟩
        · cases t <;> simp [setH] <;> (try cases st.v) <;> simp [hg]
        · cases t <;> simp [setH] <;> (try cases st.v) <;> simp [hyp]
  | yieldPer t n =>
    have hl : O.ypLossy st.src = false := by simpa [step] using hz
    have hy := R.yieldPer n st.src hg hl
    have hn : n ≠ 0 := by simpa [Op.sized] using hs
    refine ⟨?_, ?_, ?_⟩
    · simp only [step, hl]
      rw [show (absSt abs st).src = abs st.src from rfl, ← hy.1]
      rfl
    · simpa [step] using hy.2
    · simpa [step] using hn
  | scalars i =>
    simp only [step]
    rw [show (absSt abs st).sss = st.sss from rfl, show (absSt abs st).width = st.width from rfl,
      show (absSt abs st).r = st.r from rfl]
    split
    · exact ⟨rfl, hg, hyp⟩
    · split
      · exact ⟨rfl, hg, hyp⟩
      · exact ⟨rfl, hg, hyp⟩
  | mappings => exact ⟨rfl, hg, hyp⟩
  | fetchone t =>
    have h := onerow_refines R false st.sss (getH st t) st.src hg
    simp only [step, getH_absSt]
    rw [show (absSt abs st).src = abs st.src from rfl, show (absSt abs st).sss = st.sss from rfl, h.1]
    rcases hx : onerow O false st.sss (getH st t) st.src with ⟨o, h1, s1⟩
    rw [hx] at h
    refine ⟨by simp, ?_, ?_⟩
    · cases t <;> simp [setH] <;> (try cases st.v) <;> simp [h.2]
    · cases t <;> simp [setH] <;> (try cases st.v) <;> simp [hyp]
  | next t =>
    have h := onerow_refines R false st.sss (getH st t) st.src hg
    simp only [step, getH_absSt]
    rw [show (absSt abs st).src = abs st.src from rfl, show (absSt abs st).sss = st.sss from rfl, h.1]
    rcases hx : onerow O false st.sss (getH st t) st.src with ⟨o, h1, s1⟩
    rw [hx] at h
    have hgs : good (setH st t h1 s1).src ∧ (setH st t h1 s1).yp ≠ some 0 := by
      cases t <;> simp [setH] <;> (try cases st.v) <;> simp [h.2, hyp]
    cases o with
    | error e => exact ⟨by simp, hgs.1, hgs.2⟩
    | ok r => cases r <;> exact ⟨by simp, hgs.1, hgs.2⟩
  | fetchmany t n =>
    have hn : n ≠ some 0 := by simpa [Op.sized] using hs
    have heff : effSize n st.yp ≠ some 0 := by cases n <;> simp_all [effSize]
    have h := manyrows_refines R st.sss st.yp (getH st t) n st.src hg heff
    simp only [step, getH_absSt]
    rw [show (absSt abs st).src = abs st.src from rfl, show (absSt abs st).sss = st.sss from rfl,
      show (absSt abs st).yp = st.yp from rfl, h.1]
    rcases hx : manyrows O st.sss st.yp (getH st t) n st.src with ⟨o, h1, s1⟩
    rw [hx] at h
    have hgs : good (setH st t h1 s1).src ∧ (setH st t h1 s1).yp ≠ some 0 := by
      cases t <;> simp [setH] <;> (try cases st.v) <;> simp [h.2, hyp]
    cases o <;> exact ⟨by simp, hgs.1, hgs.2⟩
  | fetchall t =>
    have h := allrows_refines R st.sss (getH st t) st.src hg
    simp only [step, getH_absSt]
    rw [show (absSt abs st).src = abs st.src from rfl, show (absSt abs st).sss = st.sss from rfl, h.1]
    rcases hx : allrows O st.sss (getH st t) st.src with ⟨o, h1, s1⟩
    rw [hx] at h
    refine ⟨by simp, ?_, ?_⟩
    · cases t <;> simp [setH] <;> (try cases st.v) <;> simp [h.2]
    · cases t <;> simp [setH] <;> (try cases st.v) <;> simp [hyp]
  | iter t k =>
    have h := iterLoop_refines R st.sss k (getH st t) st.src hg
    simp only [step, getH_absSt]
    rw [show (absSt abs st).src = abs st.src from rfl, show (absSt abs st).sss = st.sss from rfl, h.1]
    rcases hx : iterLoop O st.sss k (getH st t) st.src with ⟨o, h1, s1⟩
    rw [hx] at h
    have hgs : good (setH st t h1 s1).src ∧ (setH st t h1 s1).yp ≠ some 0 := by
      cases t <;> simp [setH] <;> (try cases st.v) <;> simp [h.2, hyp]
    cases o <;> exact ⟨by simp, hgs.1, hgs.2⟩
  | partitions t n k =>
    have hn : n ≠ some 0 := by simpa [Op.sized] using hs
    have heff : effSize n st.yp ≠ some 0 := by cases n <;> simp_all [effSize]
    have h := partLoop_refines R st.sss st.yp n heff k (getH st t) st.src hg
    simp only [step, getH_absSt]
    rw [show (absSt abs st).src = abs st.src from rfl, show (absSt abs st).sss = st.sss from rfl,
      show (absSt abs st).yp = st.yp from rfl, h.1]
    rcases hx : partLoop O st.sss st.yp n k (getH st t) st.src with ⟨o, h1, s1⟩
    rw [hx] at h
    have hgs : good (setH st t h1 s1).src ∧ (setH st t h1 s1).yp ≠ some 0 := by
      cases t <;> simp [setH] <;> (try cases st.v) <;> simp [h.2, hyp]
    cases o <;> exact ⟨by simp, hgs.1, hgs.2⟩
  | first t =>
    have hc : O.corner st.src = false := by simpa [step] using hz
    have h := onlyOne_refines R st.sss (getH st t) false false false st.src hg hc
    simp only [step, getH_absSt, hc]
    rw [show (absSt abs st).src = abs st.src from rfl, show (absSt abs st).sss = st.sss from rfl, h.1]
    exact ⟨rfl, h.2, hyp⟩
  | one t =>
    have hc : O.corner st.src = false := by simpa [step] using hz
    have h := onlyOne_refines R st.sss (getH st t) true true false st.src hg hc
    simp only [step, getH_absSt, hc]
    rw [show (absSt abs st).src = abs st.src from rfl, show (absSt abs st).sss = st.sss from rfl, h.1]
    exact ⟨rfl, h.2, hyp⟩
  | oneOrNone t =>
    have hc : O.corner st.src = false := by simpa [step] using hz
    have h := onlyOne_refines R st.sss (getH st t) true false false st.src hg hc
    simp only [step, getH_absSt, hc]
    rw [show (absSt abs st).src = abs st.src from rfl, show (absSt abs st).sss = st.sss from rfl, h.1]
    exact ⟨rfl, h.2, hyp⟩
  | scalar =>
    have hc : O.corner st.src = false := by simpa [step] using hz
    have h := onlyOne_refines R st.sss st.r false false true st.src hg hc
    simp only [step, hc]
    rw [show (absSt abs st).src = abs st.src from rfl, show (absSt abs st).sss = st.sss from rfl,
      show (absSt abs st).r = st.r from rfl, h.1]
    exact ⟨rfl, h.2, hyp⟩
  | scalarOne =>
    have hc : O.corner st.src = false := by simpa [step] using hz
    have h := onlyOne_refines R st.sss st.r true true true st.src hg hc
    simp only [step, hc]
    rw [show (absSt abs st).src = abs st.src from rfl, show (absSt abs st).sss = st.sss from rfl,
      show (absSt abs st).r = st.r from rfl, h.1]
    exact ⟨rfl, h.2, hyp⟩
  | scalarOneOrNone =>
    have hc : O.corner st.src = false := by simpa [step] using hz
    have h := onlyOne_refines R st.sss st.r true false true st.src hg hc
    simp only [step, hc]
    rw [show (absSt abs st).src = abs st.src from rfl, show (absSt abs st).sss = st.sss from rfl,
      show (absSt abs st).r = st.r from rfl, h.1]
    exact ⟨rfl, h.2, hyp⟩
  | close t =>
    have h := R.softClose true st.src hg
    refine ⟨?_, ?_, hyp⟩
    · simp only [step]
      rw [show (absSt abs st).src = abs st.src from rfl]
      show _ = ((Out.unit, false), absSt abs { st with src := O.softClose true st.src })
      simp only [absSt]
      rw [h.1]; rfl
    · simpa [step] using h.2
  | closed t =>
    refine ⟨?_, hg, hyp⟩
    simp only [step]
    rw [show (absSt abs st).src = abs st.src from rfl, R.isHard]
    rfl
  | freeze =>
    simp only [step]
    rw [show (absSt abs st).src = abs st.src from rfl, show (absSt abs st).sss = st.sss from rfl,
      show (absSt abs st).r = st.r from rfl, show (absSt abs st).width = st.width from rfl]
    split
    · have h := R.drainRaw st.src hg
      have h1 : (Plain.ops.drainRaw (abs st.src)).1 = (O.drainRaw st.src).1 := by
        rw [← h.1]; rfl
      refine ⟨?_, (R.ofList _).2, by simp⟩
      simp only [absSt]
      rw [(R.ofList _).1, ← h1]
    · have h := allrows_refines R false st.r st.src hg
      rw [h.1]
      rcases hx : allrows O false st.r st.src with ⟨o, h1, s1⟩
      rw [hx] at h
      cases o with
      | items l =>
        simp only [absSt]
        refine ⟨?_, (R.ofList _).2, by simp⟩
        rw [(R.ofList _).1]
      | none => exact ⟨rfl, h.2, hyp⟩
      | item _ => exact ⟨rfl, h.2, hyp⟩
      | parts _ => exact ⟨rfl, h.2, hyp⟩
      | val _ => exact ⟨rfl, h.2, hyp⟩
      | bool _ => exact ⟨rfl, h.2, hyp⟩
      | unit => exact ⟨rfl, h.2, hyp⟩
      | err _ => exact ⟨rfl, h.2, hyp⟩

end Generic
