import SaVerif.Model.Pool
/-! Helper lemmas about M-POOL (core Lean only). -/
namespace SaVerif.Pool

theorem sumMap_set (f : Pc → Nat) :
    ∀ (pcs : List Pc) (t : Nat) (old new : Pc), pcs[t]? = some old →
      sumMap f (pcs.set t new) + f old = sumMap f pcs + f new := by
  intro pcs
  induction pcs with
  | nil => intro t old new h; simp at h
  | cons a l ih =>
    intro t old new h
    cases t with
    | zero =>
      simp at h; subst h
      simp [sumMap]; omega
    | succ n =>
      simp at h
      have := ih n old new h
      simp [sumMap] at this ⊢
      omega

theorem sumMap_replicate_zero (f : Pc → Nat) (pc : Pc) (h : f pc = 0) (n : Nat) :
    sumMap f (List.replicate n pc) = 0 := by
  induction n with
  | zero => simp [sumMap]
  | succ n ih => simp [sumMap, List.replicate_succ, h] at ih ⊢

theorem sumMap_eq_zero_of_all (f : Pc → Nat) (pcs : List Pc) (h : ∀ pc ∈ pcs, f pc = 0) :
    sumMap f pcs = 0 := by
  induction pcs with
  | nil => simp [sumMap]
  | cons a l ih =>
    have h1 := h a (by simp)
    have h2 := ih (fun pc hp => h pc (by simp [hp]))
    simp [sumMap] at h2 ⊢
    omega

theorem le_sumMap_of_mem (f : Pc → Nat) (pcs : List Pc) (t : Nat) (pc : Pc) (h : pcs[t]? = some pc) :
    f pc ≤ sumMap f pcs := by
  induction pcs generalizing t with
  | nil => simp at h
  | cons a l ih =>
    cases t with
    | zero => simp at h; subst h; simp [sumMap]
    | succ n =>
      simp at h
      have := ih n h
      simp [sumMap] at this ⊢
      omega

theorem getElem?_set_self' (pcs : List Pc) (t : Nat) (old new : Pc) (h : pcs[t]? = some old) :
    (pcs.set t new)[t]? = some new := by
  have : t < pcs.length := by
    rcases Nat.lt_or_ge t pcs.length with h1 | h1
    · exact h1
    · rw [List.getElem?_eq_none h1] at h; cases h
  simp [this]

theorem takeOne_some {lifo : Bool} {q : List Rec} {r : Rec} {rest : List Rec}
    (h : takeOne lifo q = some (r, rest)) :
    q.length = rest.length + 1 ∧ (∀ x, q.count x = rest.count x + (if x = r then 1 else 0)) := by
  unfold takeOne at h
  split at h
  · split at h
    · rename_i r' hl
      cases h
      obtain ⟨ys, hys⟩ := List.getLast?_eq_some_iff.1 hl
      have hq : q = q.dropLast ++ [r] := by
        subst hys; simp
      constructor
      · subst hys; simp
      · intro x
        have hc : q.count x = (q.dropLast ++ [r]).count x := by rw [← hq]
        rw [hc, List.count_append]
        by_cases hx : x = r
        · simp [hx]
        · simp [hx, Ne.symm hx]
    · cases h
  · split at h
    · cases h
      constructor
      · simp
      · intro x
        by_cases hx : x = r
        · simp [hx]
        · simp [hx, Ne.symm hx]
    · cases h

theorem popRest_some {lifo : Bool} {q : List Rec} {r : Rec} {rest : List Rec}
    (h : popRest lifo q r = some rest) :
    q.length = rest.length + 1 ∧ (∀ x, q.count x = rest.count x + (if x = r then 1 else 0)) := by
  unfold popRest at h
  split at h
  · rename_i r' rest' heq
    split at h
    · rename_i hr
      cases h; subst hr
      exact takeOne_some heq
    · cases h
  · cases h

theorem popRest_nil (lifo : Bool) (r : Rec) : popRest lifo [] r = none := by
  cases lifo <;> simp [popRest, takeOne]

/-- a non-empty queue always offers exactly one record to `pop` -/
theorem popRest_of_ne_nil (lifo : Bool) (q : List Rec) (h : q ≠ []) :
    ∃ r rest, popRest lifo q r = some rest := by
  cases lifo
  · cases q with
    | nil => exact absurd rfl h
    | cons a l => exact ⟨a, l, by simp [popRest, takeOne]⟩
  · cases hl : q.getLast? with
    | none => simp [List.getLast?_eq_none_iff] at hl; exact absurd hl h
    | some a => exact ⟨a, q.dropLast, by simp [popRest, takeOne, hl]⟩

/-! ### step decomposition -/

theorem step_eq {c : Cfg} {s s' : State} {t : Nat} {l : Label} (hs : step c s t l = some s') :
    ∃ old new sh, s.pcs[t]? = some old ∧ trans c s.toShared t old l = some (new, sh) ∧
      s' = { toShared := sh, pcs := s.pcs.set t new } := by
  unfold step at hs
  split at hs
  · rename_i pc hpc
    split at hs
    · rename_i pc' sh htr
      cases hs
      exact ⟨pc, pc', sh, hpc, htr, rfl⟩
    · cases hs
  · cases hs

theorem lt_length_of_getElem? {pcs : List Pc} {t : Nat} {pc : Pc} (h : pcs[t]? = some pc) :
    t < pcs.length := by
  rcases Nat.lt_or_ge t pcs.length with h1 | h1
  · exact h1
  · rw [List.getElem?_eq_none h1] at h; cases h

end SaVerif.Pool
