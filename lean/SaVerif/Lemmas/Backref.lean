import SaVerif.Model.Backref
/-! Helper lemmas about M-BACKREF (core Lean only): the symmetry invariant and its preservation by every operation. -/
namespace SaVerif.Backref

structure Inv (st : St) : Prop where
  sym : ∀ p c, c ∈ st.kids p ↔ st.par c = some p
  nodup : ∀ p, (st.kids p).Nodup

@[simp, grind =] theorem setKids_kids (st : St) (p : Nat) (l : List Nat) (q : Nat) :
    (setKids st p l).kids q = if q = p then l else st.kids q := rfl
@[simp, grind =] theorem setKids_par (st : St) (p : Nat) (l : List Nat) (d : Nat) : (setKids st p l).par d = st.par d := rfl
@[simp, grind =] theorem setPar_par (st : St) (c : Nat) (x : Option Nat) (d : Nat) :
    (setPar st c x).par d = if d = c then x else st.par d := rfl
@[simp, grind =] theorem setPar_kids (st : St) (c : Nat) (x : Option Nat) (q : Nat) : (setPar st c x).kids q = st.kids q := rfl

theorem mem_erase_nodup {l : List Nat} (h : l.Nodup) (a b : Nat) : a ∈ l.erase b ↔ a ≠ b ∧ a ∈ l :=
  List.Nodup.mem_erase_iff h

theorem inv_setParent {st : St} (h : Inv st) (c : Nat) (new : Option Nat) : Inv (setParent st c new) := by
  have ⟨hs, hn⟩ := h
  unfold setParent scalarSet
  simp only
  split
  · exact h
  · rename_i hne
    have me := @mem_erase_nodup
    have ns : ∀ (l : List Nat) (a : Nat), l.Nodup → (l.erase a).Nodup := fun l a h => h.erase a
    cases ho : st.par c <;> cases new <;> simp only [ho, popKid] at hne ⊢
    · simp at hne
    · constructor
      · intro p c'; grind
      · intro p; grind [List.nodup_append]
    · constructor
      · intro p c'; grind
      · intro p; grind
    · constructor
      · intro p c'; grind
      · intro p; grind [List.nodup_append]

macro "br_facts" : tactic =>
  `(tactic| (have me := @mem_erase_nodup
             have ns : ∀ (l : List Nat) (a : Nat), l.Nodup → (l.erase a).Nodup := fun l a h => h.erase a))

theorem inv_append {st : St} (h : Inv st) (p c : Nat) (hc : c ∉ st.kids p) : Inv (append st p c) := by
  have ⟨hs, hn⟩ := h
  br_facts
  unfold append appendEvent scalarSet
  simp only
  split
  · rename_i heq
    exact absurd ((hs p c).2 heq) hc
  · cases ho : st.par c <;> simp only [popKid]
    · constructor
      · intro p' c'; grind
      · intro p'; grind [List.nodup_append]
    · constructor
      · intro p' c'; grind
      · intro p'; grind [List.nodup_append]

theorem count_le_one_of_nodup {l : List Nat} (h : l.Nodup) (c : Nat) : hasDupes l c = false := by
  unfold hasDupes
  have := List.nodup_iff_count.1 h c
  simp only [gt_iff_lt, decide_eq_false_iff_not, Nat.not_lt]
  exact this

theorem removeEvent_spec (st : St) (p c : Nat) (coll : List Nat) (hd : hasDupes coll c = false) :
    (∀ q, (removeEvent st p c coll).kids q = st.kids q) ∧
    (∀ d, (removeEvent st p c coll).par d = if d = c ∧ st.par c = some p then none else st.par d) := by
  unfold removeEvent
  rw [hd]
  simp only [Bool.false_eq_true, if_false]
  split
  · rename_i hp
    refine ⟨fun _ => rfl, fun d => ?_⟩
    simp only [setPar_par, hp, and_true]
  · rename_i hp
    refine ⟨fun _ => rfl, fun d => ?_⟩
    simp [hp]

theorem inv_remove {st : St} (h : Inv st) (p c : Nat) : Inv (remove st p c).1 := by
  have ⟨hs, hn⟩ := h
  br_facts
  obtain ⟨rk, rp⟩ := removeEvent_spec st p c (st.kids p) (count_le_one_of_nodup (hn p) c)
  unfold remove
  simp only
  generalize removeEvent st p c (st.kids p) = st1 at *
  split
  · rename_i hin
    constructor
    · intro p' c'; grind
    · intro p'; grind
  · rename_i hin
    constructor
    · intro p' c'; grind
    · intro p'; grind

theorem normIdx_lt {n : Nat} {i : Int} {k : Nat} (h : normIdx n i = some k) : k < n := by
  unfold normIdx at h
  split at h
  · split at h
    · cases h
    · simp only [Option.some.injEq] at h; omega
  · split at h
    · simp only [Option.some.injEq] at h; omega
    · cases h

theorem eraseIdx_eq_erase_of_nodup : ∀ (l : List Nat) (k : Nat) (h : k < l.length), l.Nodup →
    l.eraseIdx k = l.erase l[k]
  | [], _, h, _ => by simp at h
  | a :: as, 0, _, _ => by simp
  | a :: as, k + 1, h, hn => by
    have hn' := List.nodup_cons.1 hn
    have hk : k < as.length := by simpa using h
    have hne : ¬ (a == as[k]) = true := by
      simp only [beq_iff_eq]
      intro hh; exact hn'.1 (hh ▸ List.getElem_mem hk)
    simp only [List.eraseIdx_cons_succ, List.getElem_cons_succ]
    rw [List.erase_cons_tail hne, eraseIdx_eq_erase_of_nodup as k hk hn'.2]

theorem inv_delItem {st : St} (h : Inv st) (p : Nat) (i : Int) : Inv (delItem st p i).1 := by
  have ⟨hs, hn⟩ := h
  br_facts
  unfold delItem
  split
  · exact h
  · rename_i k hk
    split
    · exact h
    · rename_i c hc
      obtain ⟨rk, rp⟩ := removeEvent_spec st p c (st.kids p) (count_le_one_of_nodup (hn p) c)
      simp only
      generalize removeEvent st p c (st.kids p) = st1 at *
      have hkl := normIdx_lt hk
      have hget : (st.kids p)[k] = c := by
        rw [List.getElem?_eq_getElem hkl] at hc; simpa using hc
      have herase : (st.kids p).eraseIdx k = (st.kids p).erase c := by
        rw [← hget]; exact eraseIdx_eq_erase_of_nodup _ k hkl (hn p)
      have : (st1.kids p).eraseIdx k = (st.kids p).erase c := by rw [rk p]; exact herase
      have hmem : c ∈ st.kids p := hget ▸ List.getElem_mem hkl
      constructor
      · intro p' c'; grind
      · intro p'; grind

theorem inv_pop {st : St} (h : Inv st) (p : Nat) (i : Int) : Inv (pop st p i).1 := by
  have ⟨hs, hn⟩ := h
  br_facts
  unfold pop
  split
  · exact h
  · rename_i k hk
    split
    · exact h
    · rename_i c hc
      have hkl := normIdx_lt hk
      have hget : (st.kids p)[k] = c := by
        rw [List.getElem?_eq_getElem hkl] at hc; simpa using hc
      have herase : (st.kids p).eraseIdx k = (st.kids p).erase c := by
        rw [← hget]; exact eraseIdx_eq_erase_of_nodup _ k hkl (hn p)
      have hmem : c ∈ st.kids p := hget ▸ List.getElem_mem hkl
      have hnd : ((st.kids p).erase c).Nodup := (hn p).erase c
      simp only
      rw [herase]
      obtain ⟨rk, rp⟩ := removeEvent_spec (setKids st p ((st.kids p).erase c)) p c
        ((setKids st p ((st.kids p).erase c)).kids p)
        (count_le_one_of_nodup (by simpa using hnd) c)
      generalize removeEvent (setKids st p ((st.kids p).erase c)) p c
        ((setKids st p ((st.kids p).erase c)).kids p) = st1 at *
      constructor
      · intro p' c'; grind
      · intro p'; grind

theorem mem_set_nodup {l : List Nat} (hn : l.Nodup) (k : Nat) (hk : k < l.length) (c x : Nat) :
    x ∈ l.set k c ↔ x = c ∨ (x ∈ l ∧ x ≠ l[k]) := by
  induction l generalizing k with
  | nil => simp at hk
  | cons a as ih =>
    have hn' := List.nodup_cons.1 hn
    cases k with
    | zero =>
      simp only [List.set_cons_zero, List.mem_cons, List.getElem_cons_zero]
      constructor
      · rintro (h | h)
        · exact Or.inl h
        · exact Or.inr ⟨Or.inr h, fun hh => hn'.1 (hh ▸ h)⟩
      · rintro (h | ⟨h | h, hne⟩)
        · exact Or.inl h
        · exact absurd h hne
        · exact Or.inr h
    | succ j =>
      have hj : j < as.length := by simpa using hk
      simp only [List.set_cons_succ, List.mem_cons, List.getElem_cons_succ, ih hn'.2 j hj]
      constructor
      · rintro (h | h | ⟨h, hne⟩)
        · exact Or.inr ⟨Or.inl h, fun hh => hn'.1 (by rw [← h, hh]; exact List.getElem_mem hj)⟩
        · exact Or.inl h
        · exact Or.inr ⟨Or.inr h, hne⟩
      · rintro (h | ⟨h | h, hne⟩)
        · exact Or.inr (Or.inl h)
        · exact Or.inl h
        · exact Or.inr (Or.inr ⟨h, hne⟩)

theorem nodup_set {l : List Nat} (hn : l.Nodup) (k : Nat) (hk : k < l.length) (c : Nat)
    (hc : c ∉ l ∨ l[k] = c) : (l.set k c).Nodup := by
  induction l generalizing k with
  | nil => simp at hk
  | cons a as ih =>
    have hn' := List.nodup_cons.1 hn
    cases k with
    | zero =>
      simp only [List.set_cons_zero, List.nodup_cons]
      refine ⟨?_, hn'.2⟩
      rcases hc with hc | hc
      · exact fun hm => hc (List.mem_cons_of_mem _ hm)
      · simp only [List.getElem_cons_zero] at hc; subst hc; exact hn'.1
    | succ j =>
      have hj : j < as.length := by simpa using hk
      simp only [List.set_cons_succ, List.nodup_cons]
      refine ⟨?_, ih hn'.2 j hj ?_⟩
      · intro hm
        rcases (mem_set_nodup hn'.2 j hj c a).1 hm with h | ⟨h, _⟩
        · subst h
          rcases hc with hc | hc
          · exact hc (List.mem_cons_self ..)
          · simp only [List.getElem_cons_succ] at hc
            exact hn'.1 (hc ▸ List.getElem_mem hj)
        · exact hn'.1 h
      · rcases hc with hc | hc
        · exact Or.inl (fun hm => hc (List.mem_cons_of_mem _ hm))
        · exact Or.inr (by simpa using hc)

theorem inv_setItem {st : St} (h : Inv st) (p : Nat) (i : Int) (c : Nat)
    (g : ∀ k, normIdx (st.kids p).length i = some k → c ∉ st.kids p ∨ (st.kids p)[k]? = some c) :
    Inv (setItem st p i c).1 := by
  have ⟨hs, hn⟩ := h
  br_facts
  unfold setItem
  split
  · exact h
  · rename_i k hk
    split
    · exact h
    · rename_i e he
      have hkl := normIdx_lt hk
      have hget : (st.kids p)[k] = e := by
        rw [List.getElem?_eq_getElem hkl] at he; simpa using he
      have hmem : e ∈ st.kids p := hget ▸ List.getElem_mem hkl
      have hg : c ∉ st.kids p ∨ (st.kids p)[k] = c := by
        rcases g k hk with hg | hg
        · exact Or.inl hg
        · right; rw [List.getElem?_eq_getElem hkl] at hg; simpa using hg
      have ms := fun x => mem_set_nodup (hn p) k hkl c x
      have nds := nodup_set (hn p) k hkl c hg
      obtain ⟨rk, rp⟩ := removeEvent_spec st p e (st.kids p) (count_le_one_of_nodup (hn p) e)
      simp only
      generalize removeEvent st p e (st.kids p) = st1 at *
      unfold appendEvent scalarSet
      simp only
      split
      · rename_i heq
        -- c's parent is already p after the remove event: impossible under the guard
        exfalso
        have := rp c
        rw [heq] at this
        split at this
        · cases this
        · rename_i hne
          have hcp : st.par c = some p := this.symm
          have hcm := (hs p c).2 hcp
          rcases hg with hg | hg
          · exact hg hcm
          · exact hne ⟨(hget ▸ hg).symm ▸ rfl, by rw [← hg] at hcp; rw [hget] at hcp; exact hcp⟩
      · rename_i hne
        cases ho : st1.par c <;> simp only [popKid]
        · constructor
          · intro p' c'; grind
          · intro p'; grind
        · constructor
          · intro p' c'; grind
          · intro p'; grind

/-- a run of remove events against a collection that does not change and holds no duplicates -/
theorem foldRemove_spec (p : Nat) : ∀ (l : List Nat) (s : St), (s.kids p).Nodup →
    (∀ q, (l.foldl (fun s c => removeEvent s p c (s.kids p)) s).kids q = s.kids q) ∧
    (∀ d, (l.foldl (fun s c => removeEvent s p c (s.kids p)) s).par d =
      if d ∈ l ∧ s.par d = some p then none else s.par d)
  | [], s, _ => ⟨fun _ => rfl, fun d => by simp⟩
  | c :: cs, s, hn => by
    obtain ⟨rk, rp⟩ := removeEvent_spec s p c (s.kids p) (count_le_one_of_nodup hn c)
    have hn1 : ((removeEvent s p c (s.kids p)).kids p).Nodup := by rw [rk p]; exact hn
    obtain ⟨ik, ip⟩ := foldRemove_spec p cs (removeEvent s p c (s.kids p)) hn1
    simp only [List.foldl_cons]
    generalize removeEvent s p c (s.kids p) = s1 at *
    generalize List.foldl (fun s c => removeEvent s p c (s.kids p)) s1 cs = s2 at *
    constructor
    · intro q; rw [ik q, rk q]
    · intro d; grind

theorem inv_clear {st : St} (h : Inv st) (p : Nat) : Inv (clear st p) := by
  have ⟨hs, hn⟩ := h
  obtain ⟨fk, fp⟩ := foldRemove_spec p (st.kids p) st (hn p)
  unfold clear
  simp only
  generalize List.foldl (fun s c => removeEvent s p c (s.kids p)) st (st.kids p) = s1 at *
  constructor
  · intro p' c'; grind
  · intro p'; grind

/-- the invariant of the first loop of `bulk_replace` -/
structure Mid (st s : St) (p : Nat) (old done : List Nat) : Prop where
  kp : s.kids p = done
  other : ∀ q, q ≠ p → ∀ x, x ∈ s.kids q ↔ s.par x = some q
  mine : ∀ x, s.par x = some p ↔ (x ∈ old ∨ x ∈ done)
  nodup : ∀ q, q ≠ p → (s.kids q).Nodup

theorem replace_loop (st : St) (p : Nat) (old : List Nat) :
    ∀ (rest done : List Nat) (s : St), Mid st s p old done → (done ++ rest).Nodup →
      Mid st (rest.foldl (fun s c =>
        if old.contains c then setKids s p (s.kids p ++ [c])
        else
          let s1 := appendEvent s p c
          setKids s1 p (s1.kids p ++ [c])) s) p old (done ++ rest)
  | [], done, s, hm, _ => by simpa using hm
  | c :: rest, done, s, hm, hn => by
    have ⟨m1, m2, m3, m4⟩ := hm
    br_facts
    have hc : c ∉ done := by
      intro hd
      have := List.nodup_append.1 hn
      exact this.2.2 c hd c (List.mem_cons_self ..) rfl
    simp only [List.foldl_cons]
    have key : Mid st (if old.contains c then setKids s p (s.kids p ++ [c])
        else
          let s1 := appendEvent s p c
          setKids s1 p (s1.kids p ++ [c])) p old (done ++ [c]) := by
      split
      · rename_i ho
        have ho' : c ∈ old := by simpa using ho
        constructor
        · simp [m1]
        · intro q hq x; grind
        · intro x; grind
        · intro q hq; grind
      · rename_i ho
        have ho' : c ∉ old := by simpa using ho
        have hpc : s.par c ≠ some p := fun hh => by
          rcases (m3 c).1 hh with h1 | h1
          · exact ho' h1
          · exact hc h1
        unfold appendEvent scalarSet
        simp only [hpc, if_false]
        cases hq : s.par c <;> simp only [popKid]
        · constructor
          · simp [m1]
          · intro q hq x; grind
          · intro x; grind
          · intro q hq; grind
        · rename_i q0
          have hq0 : q0 ≠ p := fun hh => hpc (hh ▸ hq)
          constructor
          · grind
          · intro q hq' x; grind
          · intro x; grind
          · intro q hq'; grind
    have := replace_loop st p old rest (done ++ [c]) _ key (by simpa using hn)
    simpa using this

theorem inv_replace {st : St} (h : Inv st) (p : Nat) (new : List Nat) (hnew : new.Nodup) :
    Inv (replace st p new) := by
  have ⟨hs, hn⟩ := h
  have m0 : Mid st (setKids st p []) p (st.kids p) [] := by
    constructor
    · simp
    · intro q hq x; simp [hq, hs]
    · intro x; simp [hs]
    · intro q hq; simp [hq, hn]
  have m1 := replace_loop st p (st.kids p) new [] _ m0 (by simpa using hnew)
  unfold replace
  simp only
  generalize List.foldl (fun s c =>
        if (st.kids p).contains c then setKids s p (s.kids p ++ [c])
        else
          let s1 := appendEvent s p c
          setKids s1 p (s1.kids p ++ [c])) (setKids st p []) new = s1 at *
  simp only [List.nil_append] at m1
  have ⟨a1, a2, a3, a4⟩ := m1
  have hnd1 : (s1.kids p).Nodup := by rw [a1]; exact hnew
  obtain ⟨fk, fp⟩ := foldRemove_spec p ((st.kids p).filter (fun c => !new.contains c)).eraseDups s1 hnd1
  generalize List.foldl (fun s c => removeEvent s p c (s.kids p)) s1
    ((st.kids p).filter (fun c => !new.contains c)).eraseDups = s2 at *
  have hmem : ∀ d, d ∈ ((st.kids p).filter (fun c => !new.contains c)).eraseDups ↔
      d ∈ st.kids p ∧ d ∉ new := by
    intro d
    rw [List.mem_eraseDups]
    simp
  constructor
  · intro p' c'
    by_cases hp : p' = p
    · subst hp
      rw [fk, a1, fp]
      have := hmem c'
      have := a3 c'
      have := hs p' c'
      grind
    · rw [fk, a2 p' hp, fp]
      have := hmem c'
      grind
  · intro p'
    by_cases hp : p' = p
    · subst hp; rw [fk, a1]; exact hnew
    · rw [fk]; exact a4 p' hp
end SaVerif.Backref
