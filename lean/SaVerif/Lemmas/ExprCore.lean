import SaVerif.Lemmas.Expr
import SaVerif.Lemmas.PrattTight
import SaVerif.Model.ExprGrammar
/-!
The core fragment of the expression language (arithmetic `+ - * %`, unary minus, the six
comparisons, `IS` / `IS NOT`, `AND` / `OR` / `NOT`, parentheses) and the proof that every
*well grouped* element of it renders to a token tree satisfying `Pratt.ok g` — for every
grammar `g` that is compatible with the regenerated precedence table (`coreCompat`).
-/
namespace SaVerif.Expr
open SaVerif.Expr.Gen SaVerif.Pratt

/-- binary operators of the fragment (all rendered as `left <text> right`) -/
def coreBin (op : Op) : Bool :=
  op = .add || op = .sub || op = .mul || op = .mod || op = .eq || op = .ne || op = .lt ||
  op = .le || op = .gt || op = .ge || op = .is_ || op = .is_not || op = .concat_op

/-- the two divisions: rendered by `visit_truediv_binary` / `visit_floordiv_binary` -/
def coreDiv (op : Op) : Bool := op = .truediv || op = .floordiv

/-- binary operators of the fragment -/
def coreBinD (op : Op) : Bool := coreBin op || coreDiv op

/-- operators of flattened lists in the fragment -/
def coreList (op : Op) : Bool :=
  op = .add || op = .mul || op = .and_ || op = .or_ || op = .concat_op

/-- the dialect spells string concatenation as the function `concat(…)` -/
def catFn (d : Dialect) (op : Op) : Bool := op = .concat_op && (d = .mysql || d = .mariadb)

def coreUn (op : Op) : Bool := op = .neg || op = .inv

/-- every infix operator of the fragment -/
def coreInfix : List Op :=
  [.add, .sub, .mul, .mod, .eq, .ne, .lt, .le, .gt, .ge, .is_, .is_not, .and_, .or_,
   .truediv, .floordiv, .concat_op, .like_op, .not_like_op, .ilike_op, .not_ilike_op,
   .in_op, .not_in_op, .between_op, .not_between_op]

def corePrefix : List Op := [.neg, .inv]

/-- precedence of an operator as `is_precedent` reads it for the *child* -/
def precOf (op : Op) : Int := (precedence op).getD opSmallest

/-- the root operator of a core element, if it has one -/
def rootOp : SaExpr → Option Op
  | .binary op _ _ _ _ _ => some op
  | .clist op _ _ _ _ => some op
  | .unary op _ _ => some op
  | _ => none

/-- an operand without root operator: an atom, a `Grouping`, a bracket construct -/
def closedE (c : SaExpr) : Bool := (rootOp c).isNone

/-- the LIKE family (`like`, `not_like`, `ilike`, `not_ilike`, with or without `escape=`) -/
def likeOp (op : Op) : Bool :=
  op = .like_op || op = .not_like_op || op = .ilike_op || op = .not_ilike_op

/-- the pairs operator / recorded negation of the LIKE family -/
def likePair (op n : Op) : Bool :=
  (op = .like_op && n = .not_like_op) || (op = .not_like_op && n = .like_op) ||
  (op = .ilike_op && n = .not_ilike_op) || (op = .not_ilike_op && n = .ilike_op)

/-- the root operator (if any) has precedence above `p` -/
def rootAbove (p : Int) : SaExpr → Bool
  | .binary op _ _ _ _ _ => decide (p < precOf op)
  | .clist op _ _ _ _ => decide (p < precOf op)
  | .unary op _ _ => decide (p < precOf op)
  | _ => true

mutual
/-- every operator of the element that is not inside a `Grouping` has precedence above `p`
    (the ungrouped `lo AND hi` pair of a BETWEEN is no operator of its own) -/
def above (p : Int) : SaExpr → Bool
  | .binary op l r _ _ _ => decide (p < precOf op) && above p l && above p r
  | .clist op cs group _ _ => (!group || decide (p < precOf op)) && aboveList p cs
  | .unary op e _ => decide (p < precOf op) && above p e
  | _ => true
def aboveList (p : Int) : List SaExpr → Bool
  | [] => true
  | e :: es => above p e && aboveList p es
end

/-- `between_op` / `not_between_op` -/
def btwOp (op : Op) : Bool := op = .between_op || op = .not_between_op

def btwPair (op n : Op) : Bool :=
  (op = .between_op && n = .not_between_op) || (op = .not_between_op && n = .between_op)

/-- operators of the fragment with a ternary form in the backends' grammars -/
def ternOp (op : Op) : Bool := likeOp op || btwOp op

/-- `in_op` / `not_in_op` -/
def inOp (op : Op) : Bool := op = .in_op || op = .not_in_op

/-- the right operand of `x.in_([v₁, …])` / `x.not_in([…])`: a non-empty expanding parameter that
    carries the operator it is used with -/
def inRight (op : Op) : SaExpr → Bool
  | .inlist vs _ eo => !vs.isEmpty && eo = op
  | _ => false

def inPair (op n : Op) : Bool :=
  (op = .in_op && n = .not_in_op) || (op = .not_in_op && n = .in_op)

mutual
/-- the element belongs to the fragment -/
def Core : SaExpr → Bool
  | .col _ _ => true
  | .bind _ _ => true
  | .null => true
  | .true_ => true
  | .false_ => true
  | .binary op l r _ esc _ =>
    Core l &&
      ((coreBinD op && esc.isNone && Core r) || (likeOp op && closedE l && closedE r && Core r) ||
       (inOp op && esc.isNone && inRight op r) || (btwOp op && esc.isNone && CoreBtw r))
  | .clist op cs group _ _ => coreList op && group && decide (2 ≤ cs.length) && CoreList cs
  | .unary op e _ => coreUn op && Core e
  | .grouping e => Core e
  | .subq _ _ => true
  | .func _ args _ => !args.isEmpty && CoreList args
  | .cast e _ => Core e
  | .case_ v ws e _ =>
    (isAbsent v || Core v) && CoreList ws && decide (2 ≤ ws.length) && decide (ws.length % 2 = 0) &&
      (isAbsent e || Core e)
  | _ => false
def CoreList : List SaExpr → Bool
  | [] => true
  | e :: es => Core e && CoreList es
/-- the right operand of `x.between(lo, hi)`: the ungrouped pair `lo AND hi` (`_between_impl`
    passes `group=False`) whose bounds expose only operators with a precedence number above
    BETWEEN's — **finding `between-bound-ungrouped` is excluded here** -/
def CoreBtw : SaExpr → Bool
  | .clist .and_ [lo, hi] false false _ =>
    Core lo && Core hi && above (precOf .between_op) lo && above (precOf .between_op) hi
  | _ => false
end

mutual
/-- every operand is already grouped against its parent (`self_group` would not wrap it) -/
def WG : SaExpr → Bool
  | .binary op l r _ _ _ =>
    !wouldGroup (some op) l && !wouldGroup (some op) r && WG l && WG r
  | .clist op cs _ _ _ => WGList op cs
  | .unary op e _ => !wouldGroup (some op) e && WG e
  | .grouping e => WG e
  | .func _ args _ => WGAll args
  | .cast e _ => WG e
  | .case_ v ws e _ => WG v && WGAll ws && WG e
  | _ => true
def WGList (op : Op) : List SaExpr → Bool
  | [] => true
  | e :: es => !wouldGroup (some op) e && WG e && WGList op es
def WGAll : List SaExpr → Bool
  | [] => true
  | e :: es => WG e && WGAll es
end

/-- the four kinds of binary nodes of the fragment: generic (incl. the divisions and
    concatenation), the LIKE family over closed operands, IN / NOT IN with an expanding list,
    BETWEEN / NOT BETWEEN with its ungrouped pair of bounds -/
theorem core_binary {op : Op} {l r : SaExpr} {n : Option Op} {esc : Option String} {ty : Ty}
    (hc : Core (.binary op l r n esc ty) = true) :
    Core l = true ∧
      ((coreBinD op = true ∧ esc.isNone = true ∧ Core r = true) ∨
       (likeOp op = true ∧ closedE l = true ∧ closedE r = true ∧ Core r = true) ∨
       (inOp op = true ∧ esc.isNone = true ∧ inRight op r = true) ∨
       (btwOp op = true ∧ esc.isNone = true ∧ CoreBtw r = true)) := by
  simp only [Core, Bool.and_eq_true, Bool.or_eq_true] at hc
  obtain ⟨hl, h⟩ := hc
  refine ⟨hl, ?_⟩
  rcases h with ((h | h) | h) | h
  · exact Or.inl ⟨h.1.1, h.1.2, h.2⟩
  · exact Or.inr (Or.inl ⟨h.1.1.1, h.1.1.2, h.1.2, h.2⟩)
  · exact Or.inr (Or.inr (Or.inl ⟨h.1.1, h.1.2, h.2⟩))
  · exact Or.inr (Or.inr (Or.inr ⟨h.1.1, h.1.2, h.2⟩))

theorem coreBtw_cases {r : SaExpr} (h : CoreBtw r = true) :
    ∃ lo hi ty, r = .clist .and_ [lo, hi] false false ty ∧ Core lo = true ∧ Core hi = true ∧
      above (precOf .between_op) lo = true ∧ above (precOf .between_op) hi = true := by
  unfold CoreBtw at h
  split at h
  · rename_i lo hi ty
    simp only [Bool.and_eq_true] at h
    exact ⟨lo, hi, ty, rfl, h.1.1.1, h.1.1.2, h.1.2, h.2⟩
  · cases h

theorem btwOp_mem {op : Op} (h : btwOp op = true) : op ∈ coreInfix := by
  cases op <;> simp [btwOp] at h <;> simp [coreInfix]

theorem inOp_mem {op : Op} (h : inOp op = true) : op ∈ coreInfix := by
  cases op <;> simp [inOp] at h <;> simp [coreInfix]

theorem likeOp_mem {op : Op} (h : likeOp op = true) : op ∈ coreInfix := by
  cases op <;> simp [likeOp] at h <;> simp [coreInfix]

/-- the operator of a binary of the fragment is one of its infix operators -/
theorem core_binary_mem {op : Op} {l r : SaExpr} {n : Option Op} {esc : Option String} {ty : Ty}
    (hc : Core (.binary op l r n esc ty) = true) : op ∈ coreInfix := by
  obtain ⟨_, h⟩ := core_binary hc
  rcases h with ⟨hop, _, _⟩ | ⟨hl, _, _, _⟩ | ⟨hi, _, _⟩ | ⟨hb, _, _⟩
  · rcases (by simpa [coreBinD] using hop : coreBin op = true ∨ coreDiv op = true) with h' | h'
    · cases op <;> simp [coreBin] at h' <;> simp [coreInfix]
    · cases op <;> simp [coreDiv] at h' <;> simp [coreInfix]
  · exact likeOp_mem hl
  · exact inOp_mem hi
  · exact btwOp_mem hb

theorem inRight_cases {op : Op} {r : SaExpr} (h : inRight op r = true) :
    ∃ vs ty, r = .inlist vs ty op ∧ vs ≠ [] := by
  cases r <;> simp [inRight] at h
  rename_i vs ty eo
  obtain ⟨h1, h2⟩ := h
  subst h2
  exact ⟨vs, ty, rfl, h1⟩

/-! ### the table facts the proof needs, as one decidable statement per grammar -/

def infBase (g : Grammar) (op : Op) : Nat :=
  match g.infixBp (symOf op) with
  | some (lbp, rbp) =>
    (match g.ternBp (symOf op) with
     | some (_, bp3, _) => min (min lbp rbp) bp3
     | none => min lbp rbp)
  | none => 0

def preBase (g : Grammar) (op : Op) : Nat := (g.prefixBp (symOf op)).getD 0

def sepSyms : List Sym := [.comma, .as_, .when_, .then_, .else_]

def likeOps : List Op := [.like_op, .not_like_op, .ilike_op, .not_ilike_op]

/-- the LIKE family in `g`: every member has the optional `ESCAPE` continuation, `ESCAPE` is no
    infix operator of its own, and ILIKE / NOT ILIKE sit on the level of LIKE / NOT LIKE (every
    dialect but PostgreSQL spells `ilike` as `lower(x) LIKE lower(y)`) -/
def btwOps : List Op := [.between_op, .not_between_op]

/-- BETWEEN / NOT BETWEEN in `g`: the mandatory `AND` continuation; `AND` itself stops the
    first bound; every operator of the fragment with a higher precedence number binds tighter
    than the level the second bound is read at -/
def btwCompat (g : Grammar) : Bool :=
  btwOps.all fun o =>
    match g.infixBp (symOf o), g.ternBp (symOf o) with
    | some (_, rbp), some (.and_, bp3, true) =>
      stops g rbp (some .and_) &&
      (coreInfix.all fun o' => !decide (precOf .between_op < precOf o') || decide (bp3 ≤ infBase g o')) &&
      (corePrefix.all fun u => !decide (precOf .between_op < precOf u) || decide (bp3 ≤ preBase g u))
    | _, _ => false

def likeCompat (g : Grammar) : Bool :=
  (likeOps.all fun o => match g.ternBp (symOf o) with
    | some (.escape, _, false) => true
    | _ => false) &&
  (g.infixBp .escape).isNone &&
  decide (g.infixBp .ilike = g.infixBp .like) && decide (g.ternBp .ilike = g.ternBp .like) &&
  decide (g.infixBp .notIlike = g.infixBp .notLike) && decide (g.ternBp .notIlike = g.ternBp .notLike)

/-- the separators inside brackets (`,` `AS` `WHEN` `THEN` `ELSE`) share one left-associative
    level, have no ternary form, and every operator of the fragment binds tighter -/
def sepCompat (g : Grammar) : Bool :=
  match g.infixBp .comma with
  | none => false
  | some (sl, sr) =>
    decide (sl < sr) &&
    (sepSyms.all fun s => g.infixBp s == some (sl, sr) && (g.ternBp s).isNone) &&
    (coreInfix.all fun o => decide (sr ≤ infBase g o)) &&
    (corePrefix.all fun u => decide (sr ≤ preBase g u)) &&
    (coreInfix.all fun o => decide (opSmallest - 1 < precOf o)) &&
    (corePrefix.all fun u => decide (opSmallest - 1 < precOf u)) &&
    -- SQLite spells true division `l / (r + 0.0)`: whatever is left bare under `/` binds
    -- tighter than the `+` it is put under
    decide (precOf .add ≤ precOf .truediv) &&
    likeCompat g && btwCompat g

/-- in `g`, every infix operator of the fragment with a higher precedence number than `concat_op`
    binds tighter than `||` on both sides: true for PostgreSQL, false for SQLite (where `||`
    binds tighter than arithmetic — finding F1) -/
def concatFull (g : Grammar) : Bool :=
  match g.infixBp .concat with
  | none => false
  | some (lbp, rbp) =>
    coreInfix.all fun o => !decide (precOf .concat_op < precOf o) ||
      (decide (lbp + 1 ≤ infBase g o) && decide (rbp ≤ infBase g o))

/-- compatibility of the regenerated precedence numbers with grammar `g`, on the fragment -/
def coreCompat (g : Grammar) : Bool :=
  sepCompat g &&
  -- every symbol is an operator of the grammar, without ternary form
  (coreInfix.all fun o => (g.infixBp (symOf o)).isSome &&
      (ternOp o || (g.ternBp (symOf o)).isNone) && (precedence o).isSome) &&
  (corePrefix.all fun u => (g.prefixBp (symOf u)).isSome && (precedence u).isSome) &&
  -- a child whose precedence number is higher binds tighter than the parent, on both sides
  (coreInfix.all fun p => match g.infixBp (symOf p) with
    | none => false
    | some (lbp, rbp) =>
      -- (for the parent `concat_op` this is `concatFull g`: finding F1 on SQLite)
      (coreInfix.all fun o => p == .concat_op || !decide (precOf p < precOf o) ||
        (decide (lbp + 1 ≤ infBase g o) && decide (rbp ≤ infBase g o))) &&
      (corePrefix.all fun u => !decide (precOf p < precOf u) ||
        (decide (lbp + 1 ≤ preBase g u) && decide (rbp ≤ preBase g u)))) &&
  (corePrefix.all fun u =>
      (coreInfix.all fun o => !decide (precOf u < precOf o) || decide (preBase g u ≤ infBase g o)) &&
      (corePrefix.all fun v => !decide (precOf u < precOf v) || decide (preBase g u ≤ preBase g v))) &&
  -- operators SQLAlchemy leaves bare under themselves are left-associative chains in g
  (coreInfix.all fun o => !naturalSelfPrecedent o ||
      (G.assocSym (symOf o) && match g.infixBp (symOf o) with
        | some (lbp, rbp) => decide (lbp < rbp)
        | none => false)) &&
  -- and the chain operators of the backend are exactly rendered from those
  (coreInfix.all fun o => !G.assocSym (symOf o) || naturalSelfPrecedent o) &&
  (corePrefix.all fun u => !naturalSelfPrecedent u)

end SaVerif.Expr

namespace SaVerif.Expr
open SaVerif.Expr.Gen SaVerif.Pratt

/-! ### unfolding equations of `render` on the fragment -/

theorem catFn_false_iff {d : Dialect} {op : Op} (h : catFn d op = false) :
    ¬ (op = .concat_op ∧ (d = .mysql ∨ d = .mariadb)) := by
  intro hh
  simp [catFn, hh.1] at h
  rcases hh.2 with h' | h' <;> simp [h'] at h

theorem catFn_true {d : Dialect} {op : Op} (h : catFn d op = true) :
    op = .concat_op ∧ (d = .mysql ∨ d = .mariadb) := by
  simpa [catFn] using h

theorem render_coreBin (d : Dialect) (lb : Bool) (op : Op) (l r : SaExpr) (n : Option Op)
    (esc : Option String) (ty : Ty) (h : coreBin op = true) (hcf : catFn d op = false) :
    ∃ txt, render d lb (.binary op l r n esc ty) = G.inf (symOf op) txt (render d lb l) (render d lb r) := by
  by_cases hc : op = .concat_op
  · subst hc
    have hn : ¬ (d = .mysql ∨ d = .mariadb) := fun hh => catFn_false_iff hcf ⟨rfl, hh⟩
    refine ⟨opText .concat_op, ?_⟩
    show (if d = .mysql ∨ d = .mariadb then _ else _) = _
    simp only [hn, if_false]
    rfl
  · cases op <;> simp [coreBin] at h <;> first | exact ⟨_, rfl⟩ | exact absurd rfl hc

theorem render_catFn_bin (d : Dialect) (lb : Bool) (op : Op) (l r : SaExpr) (n : Option Op)
    (esc : Option String) (ty : Ty) (hcf : catFn d op = true) :
    render d lb (.binary op l r n esc ty) =
      G.br (.fn "concat") (G.inf .comma ", " (render d lb l) (render d lb r)) := by
  obtain ⟨ho, hd⟩ := catFn_true hcf
  subst ho
  show (if d = .mysql ∨ d = .mariadb then _ else _) = _
  simp only [hd, if_true]

theorem render_clist (d : Dialect) (lb : Bool) (op : Op) (cs : List SaExpr) (gr bl : Bool) (ty : Ty)
    (h : catFn d op = false) :
    render d lb (.clist op cs gr bl ty) = chain (symOf op) (opText op) (renderList d lb cs) := by
  have := catFn_false_iff h
  show (if op = .concat_op ∧ (d = .mysql ∨ d = .mariadb) then _ else _) = _
  simp [this]

theorem render_catFn_list (d : Dialect) (lb : Bool) (op : Op) (cs : List SaExpr) (gr bl : Bool) (ty : Ty)
    (h : catFn d op = true) :
    render d lb (.clist op cs gr bl ty) = G.br (.fn "concat") (chain .comma ", " (renderList d lb cs)) := by
  have := catFn_true h
  show (if op = .concat_op ∧ (d = .mysql ∨ d = .mariadb) then _ else _) = _
  simp [this]

theorem render_unary (d : Dialect) (lb : Bool) (op : Op) (e : SaExpr) (ty : Ty) :
    render d lb (.unary op e ty) = G.pre (symOf op) (opText op) (render d lb e) := rfl

theorem renderList_cons (d : Dialect) (lb : Bool) (e : SaExpr) (es : List SaExpr) :
    renderList d lb (e :: es) = render d lb e :: renderList d lb es := rfl

theorem renderList_nil (d : Dialect) (lb : Bool) : renderList d lb [] = [] := rfl

theorem coreBin_mem {op : Op} (h : coreBin op = true) : op ∈ coreInfix := by
  cases op <;> simp [coreBin] at h <;> simp [coreInfix]

theorem coreDiv_mem {op : Op} (h : coreDiv op = true) : op ∈ coreInfix := by
  cases op <;> simp [coreDiv] at h <;> simp [coreInfix]

theorem coreBinD_cases {op : Op} (h : coreBinD op = true) : coreBin op = true ∨ coreDiv op = true := by
  simpa [coreBinD] using h

theorem coreBinD_mem {op : Op} (h : coreBinD op = true) : op ∈ coreInfix := by
  rcases coreBinD_cases h with h | h
  · exact coreBin_mem h
  · exact coreDiv_mem h

def zeroAtom : G := G.atom ⟨"0.0", .num "0.0"⟩

/-- the four spellings of a division over the rendered operands `L`, `R` -/
inductive DivShape (L R : G) : G → Prop
  | plain : DivShape L R (G.inf .slash " / " L R)
  | real0 : DivShape L R (G.inf .slash " / " L (G.br .paren (G.inf .plus " + " R zeroAtom)))
  | cast (n : String) : DivShape L R (G.inf .slash " / " L (G.br .cast (G.inf .as_ " AS " R (opaqueG n))))
  | floor : DivShape L R (G.br (.fn "FLOOR") (G.inf .slash " / " L R))

theorem truedivG_shape (d : Dialect) (L R : G) : DivShape L R (truedivG d L R) := by
  unfold truedivG
  split
  · exact .real0
  · split
    · exact .cast _
    · exact .plain

theorem floordivG_shape (d : Dialect) (lt rt : Ty) (L R : G) : DivShape L R (floordivG d lt rt L R) := by
  unfold floordivG
  split
  · exact .plain
  · exact .floor

theorem render_coreDiv (d : Dialect) (lb : Bool) (op : Op) (l r : SaExpr) (n : Option Op)
    (esc : Option String) (ty : Ty) (h : coreDiv op = true) :
    DivShape (render d lb l) (render d lb r) (render d lb (.binary op l r n esc ty)) := by
  cases op <;> simp [coreDiv] at h
  · exact truedivG_shape d _ _
  · exact floordivG_shape d _ _ _ _

theorem coreList_mem {op : Op} (h : coreList op = true) : op ∈ coreInfix := by
  cases op <;> simp [coreList] at h <;> simp [coreInfix]

theorem coreUn_mem {op : Op} (h : coreUn op = true) : op ∈ corePrefix := by
  cases op <;> simp [coreUn] at h <;> simp [corePrefix]

/-! ### unpacking `coreCompat` -/

structure LikeFacts (g : Grammar) : Prop where
  tern : ∀ o, likeOp o = true → ∃ bp3, g.ternBp (symOf o) = some (.escape, bp3, false)
  esc_none : g.infixBp .escape = none
  same_i : g.infixBp .ilike = g.infixBp .like
  same_t : g.ternBp .ilike = g.ternBp .like
  same_ni : g.infixBp .notIlike = g.infixBp .notLike
  same_nt : g.ternBp .notIlike = g.ternBp .notLike

theorem like_of_bool (g : Grammar) (h : likeCompat g = true) : LikeFacts g := by
  simp only [likeCompat, Bool.and_eq_true, List.all_eq_true, decide_eq_true_eq, Option.isNone_iff_eq_none] at h
  obtain ⟨⟨⟨⟨⟨h1, h2⟩, h3⟩, h4⟩, h5⟩, h6⟩ := h
  refine ⟨?_, h2, h3, h4, h5, h6⟩
  intro o ho
  have hm : o ∈ likeOps := by cases o <;> simp [likeOp] at ho <;> simp [likeOps]
  have := h1 o hm
  cases hq : g.ternBp (symOf o) with
  | none => simp [hq] at this
  | some q =>
    obtain ⟨m, b3, fl⟩ := q
    cases m <;> cases fl <;> simp [hq] at this
    exact ⟨b3, rfl⟩

structure BtwFacts (g : Grammar) : Prop where
  tern : ∀ o, btwOp o = true → ∃ bp3, g.ternBp (symOf o) = some (.and_, bp3, true)
  stop : ∀ o, btwOp o = true → ∀ lbp rbp, g.infixBp (symOf o) = some (lbp, rbp) →
    stops g rbp (some .and_) = true
  hi_inf : ∀ o, btwOp o = true → ∀ bp3, g.ternBp (symOf o) = some (.and_, bp3, true) →
    ∀ o' ∈ coreInfix, precOf .between_op < precOf o' → bp3 ≤ infBase g o'
  hi_pre : ∀ o, btwOp o = true → ∀ bp3, g.ternBp (symOf o) = some (.and_, bp3, true) →
    ∀ u ∈ corePrefix, precOf .between_op < precOf u → bp3 ≤ preBase g u

theorem btw_of_bool (g : Grammar) (h : btwCompat g = true) : BtwFacts g := by
  simp only [btwCompat, List.all_eq_true] at h
  have key : ∀ o, btwOp o = true → ∃ lbp rbp bp3, g.infixBp (symOf o) = some (lbp, rbp) ∧
      g.ternBp (symOf o) = some (.and_, bp3, true) ∧ stops g rbp (some .and_) = true ∧
      (∀ o' ∈ coreInfix, precOf .between_op < precOf o' → bp3 ≤ infBase g o') ∧
      (∀ u ∈ corePrefix, precOf .between_op < precOf u → bp3 ≤ preBase g u) := by
    intro o ho
    have hm : o ∈ btwOps := by cases o <;> simp [btwOp] at ho <;> simp [btwOps]
    have := h o hm
    cases hb : g.infixBp (symOf o) with
    | none => simp [hb] at this
    | some pr =>
      obtain ⟨lbp, rbp⟩ := pr
      cases hq : g.ternBp (symOf o) with
      | none => simp [hb, hq] at this
      | some q =>
        obtain ⟨m, b3, fl⟩ := q
        cases m <;> cases fl <;> simp [hb, hq] at this
        refine ⟨lbp, rbp, b3, rfl, rfl, this.1.1, ?_, ?_⟩
        · intro o' ho' hlt
          have := this.1.2 o' ho'
          rcases this with h' | h'
          · omega
          · exact h'
        · intro u hu hlt
          have := this.2 u hu
          rcases this with h' | h'
          · omega
          · exact h'
  refine ⟨?_, ?_, ?_, ?_⟩
  · intro o ho
    obtain ⟨_, _, bp3, _, hq, _⟩ := key o ho
    exact ⟨bp3, hq⟩
  · intro o ho lbp rbp hb
    obtain ⟨l', r', _, hb', _, hs, _⟩ := key o ho
    rw [hb] at hb'; cases hb'; exact hs
  · intro o ho bp3 hq
    obtain ⟨_, _, b3, _, hq', _, h1, _⟩ := key o ho
    rw [hq] at hq'; cases hq'; exact h1
  · intro o ho bp3 hq
    obtain ⟨_, _, b3, _, hq', _, _, h2⟩ := key o ho
    rw [hq] at hq'; cases hq'; exact h2

structure Compat (g : Grammar) : Prop where
  inf_known : ∀ o ∈ coreInfix, ∃ lbp rbp, g.infixBp (symOf o) = some (lbp, rbp) ∧
    (ternOp o = false → g.ternBp (symOf o) = none) ∧ (precedence o).isSome = true
  pre_known : ∀ u ∈ corePrefix, ∃ bp, g.prefixBp (symOf u) = some bp ∧ (precedence u).isSome = true
  inf_inf : ∀ p ∈ coreInfix, p ≠ .concat_op → ∀ o ∈ coreInfix, ∀ lbp rbp,
    g.infixBp (symOf p) = some (lbp, rbp) →
    precOf p < precOf o → lbp + 1 ≤ infBase g o ∧ rbp ≤ infBase g o
  inf_pre : ∀ p ∈ coreInfix, ∀ u ∈ corePrefix, ∀ lbp rbp, g.infixBp (symOf p) = some (lbp, rbp) →
    precOf p < precOf u → lbp + 1 ≤ preBase g u ∧ rbp ≤ preBase g u
  pre_inf : ∀ u ∈ corePrefix, ∀ o ∈ coreInfix, precOf u < precOf o → preBase g u ≤ infBase g o
  pre_pre : ∀ u ∈ corePrefix, ∀ v ∈ corePrefix, precOf u < precOf v → preBase g u ≤ preBase g v
  nsp_assoc : ∀ o ∈ coreInfix, naturalSelfPrecedent o = true →
    G.assocSym (symOf o) = true ∧ ∃ lbp rbp, g.infixBp (symOf o) = some (lbp, rbp) ∧ lbp < rbp
  assoc_nsp : ∀ o ∈ coreInfix, G.assocSym (symOf o) = true → naturalSelfPrecedent o = true
  pre_not_nsp : ∀ u ∈ corePrefix, naturalSelfPrecedent u = false
  sep : ∃ sl sr, sl < sr ∧
    (∀ s, s.isSep = true → g.infixBp s = some (sl, sr) ∧ g.ternBp s = none) ∧
    (∀ o ∈ coreInfix, sr ≤ infBase g o) ∧ (∀ u ∈ corePrefix, sr ≤ preBase g u)
  bottom : (∀ o ∈ coreInfix, opSmallest - 1 < precOf o) ∧ (∀ u ∈ corePrefix, opSmallest - 1 < precOf u)
  add_div : precOf .add ≤ precOf .truediv
  like : LikeFacts g
  btw : BtwFacts g

theorem sep_of_bool (g : Grammar) (h : sepCompat g = true) :
    (∃ sl sr, sl < sr ∧
      (∀ s, s.isSep = true → g.infixBp s = some (sl, sr) ∧ g.ternBp s = none) ∧
      (∀ o ∈ coreInfix, sr ≤ infBase g o) ∧ (∀ u ∈ corePrefix, sr ≤ preBase g u)) ∧
    ((∀ o ∈ coreInfix, opSmallest - 1 < precOf o) ∧ (∀ u ∈ corePrefix, opSmallest - 1 < precOf u)) ∧
    precOf .add ≤ precOf .truediv ∧ LikeFacts g ∧ BtwFacts g := by
  unfold sepCompat at h
  cases hb : g.infixBp .comma with
  | none => simp [hb] at h
  | some p =>
    obtain ⟨sl, sr⟩ := p
    simp only [hb, Bool.and_eq_true, List.all_eq_true, decide_eq_true_eq, beq_iff_eq] at h
    obtain ⟨⟨⟨⟨⟨⟨⟨⟨h1, h2⟩, h3⟩, h4⟩, h5⟩, h6⟩, h7⟩, h8⟩, h9⟩ := h
    refine ⟨⟨sl, sr, h1, ?_, h3, h4⟩, ⟨h5, h6⟩, h7, like_of_bool g h8, btw_of_bool g h9⟩
    intro s hs
    have hm : s ∈ sepSyms := by cases s <;> simp [Sym.isSep] at hs <;> simp [sepSyms]
    have := h2 s hm
    refine ⟨this.1, ?_⟩
    cases hq : g.ternBp s with
    | none => rfl
    | some q => have := this.2; simp [hq] at this

theorem concatFull_spec (g : Grammar) (h : concatFull g = true) :
    ∀ o ∈ coreInfix, ∀ lbp rbp, g.infixBp .concat = some (lbp, rbp) →
      precOf .concat_op < precOf o → lbp + 1 ≤ infBase g o ∧ rbp ≤ infBase g o := by
  intro o ho lbp rbp hb hlt
  simp only [concatFull, hb, List.all_eq_true] at h
  have := h o ho
  simp [hlt] at this
  exact this

theorem compat_of_bool (g : Grammar) (h : coreCompat g = true) : Compat g := by
  have hsep : sepCompat g = true := by
    simp only [coreCompat, Bool.and_eq_true] at h
    exact h.1.1.1.1.1.1.1
  obtain ⟨hS, hB, hAD, hLK, hBT⟩ := sep_of_bool g hsep
  simp only [coreCompat, Bool.and_eq_true, List.all_eq_true] at h
  obtain ⟨⟨⟨⟨⟨⟨⟨_, h1⟩, h2⟩, h3⟩, h4⟩, h5⟩, h6⟩, h7⟩ := h
  refine ⟨?_, ?_, ?_, ?_, ?_, ?_, ?_, ?_, ?_, hS, hB, hAD, hLK, hBT⟩
  · intro o ho
    have := h1 o ho
    try simp only [Bool.and_eq_true] at this
    cases hb : g.infixBp (symOf o) with
    | none => simp [hb] at this
    | some p =>
      obtain ⟨lbp, rbp⟩ := p
      refine ⟨lbp, rbp, rfl, ?_, this.2⟩
      intro hl
      cases hq : g.ternBp (symOf o) with
      | none => rfl
      | some q => simp [hq, hl] at this
  · intro u hu
    have := h2 u hu
    try simp only [Bool.and_eq_true] at this
    cases hb : g.prefixBp (symOf u) with
    | none => simp [hb] at this
    | some bp => exact ⟨bp, rfl, this.2⟩
  · intro p hp hpc o ho lbp rbp hb hlt
    have := h3 p hp
    simp only [hb, Bool.and_eq_true, List.all_eq_true] at this
    have := this.1 o ho
    simp [hlt, hpc] at this
    exact this
  · intro p hp u hu lbp rbp hb hlt
    have := h3 p hp
    simp only [hb, Bool.and_eq_true, List.all_eq_true] at this
    have := this.2 u hu
    simp [hlt] at this
    exact this
  · intro u hu o ho hlt
    have := (h4 u hu)
    try simp only [Bool.and_eq_true, List.all_eq_true] at this
    have := this.1 o ho
    simp [hlt] at this
    exact this
  · intro u hu v hv hlt
    have := (h4 u hu)
    try simp only [Bool.and_eq_true, List.all_eq_true] at this
    have := this.2 v hv
    simp [hlt] at this
    exact this
  · intro o ho hn
    have := h5 o ho
    simp only [hn, Bool.not_true, Bool.false_or, Bool.and_eq_true] at this
    refine ⟨this.1, ?_⟩
    cases hb : g.infixBp (symOf o) with
    | none => simp [hb] at this
    | some p =>
      obtain ⟨lbp, rbp⟩ := p
      simp only [hb, decide_eq_true_eq] at this
      exact ⟨lbp, rbp, rfl, this.2⟩
  · intro o ho ha
    have := h6 o ho
    simpa [ha] using this
  · intro u hu
    have := h7 u hu
    simpa using this

end SaVerif.Expr

namespace SaVerif.Expr
open SaVerif.Expr.Gen SaVerif.Pratt

/-! ### from "not grouped" to "precedence above" -/

theorem precOf_le_of_not_precedent {cop op : Op} (hop : (precedence op).isSome = true)
    (h : isPrecedent cop (some op) = false) : precOf op ≤ precOf cop := by
  simp only [isPrecedent] at h
  by_cases hs : cop = op ∧ naturalSelfPrecedent cop = true
  · rw [hs.1]; exact Int.le_refl _
  · simp only [hs, if_false, decide_eq_false_iff_not] at h
    cases hp : precedence op with
    | none => simp [hp] at hop
    | some v =>
      simp only [hp, Option.getD_some] at h
      simp only [precOf, hp, Option.getD_some]
      omega

theorem same_of_not_precedent_le {cop op : Op} (hop : (precedence op).isSome = true)
    (h : isPrecedent cop (some op) = false) (hle : precOf cop ≤ precOf op) :
    cop = op ∧ naturalSelfPrecedent cop = true := by
  simp only [isPrecedent] at h
  by_cases hs : cop = op ∧ naturalSelfPrecedent cop = true
  · exact hs
  · simp only [hs, if_false, decide_eq_false_iff_not] at h
    cases hp : precedence op with
    | none => simp [hp] at hop
    | some v =>
      simp only [hp, Option.getD_some] at h
      simp only [precOf, hp, Option.getD_some] at hle
      omega

theorem not_precedent_of_not_wouldGroup {a : Op} {c : SaExpr} {cop : Op} (hc : Core c = true)
    (hr : rootOp c = some cop) (h : wouldGroup (some a) c = false) :
    isPrecedent cop (some a) = false := by
  cases c with
  | binary op l r n esc ty =>
    simp only [rootOp, Option.some.injEq] at hr; subst hr
    simp only [wouldGroup, Bool.or_eq_false_iff] at h
    exact h.1
  | clist op cs gr bl ty =>
    simp only [rootOp, Option.some.injEq] at hr; subst hr
    simp only [Core, Bool.and_eq_true, decide_eq_true_eq] at hc
    obtain ⟨⟨⟨_, hgr⟩, hlen⟩, _⟩ := hc
    have hne : cs.isEmpty = false := by
      cases cs with
      | nil => simp at hlen
      | cons x xs => rfl
    simp only [wouldGroup, hne, Bool.and_false, Bool.not_false, Bool.true_and, hgr,
      Bool.or_eq_false_iff] at h
    exact h.1
  | unary op e ty =>
    simp only [rootOp, Option.some.injEq] at hr; subst hr
    simpa [wouldGroup] using h
  | col n ty => simp [rootOp] at hr
  | bind v ty => simp [rootOp] at hr
  | null => simp [rootOp] at hr
  | true_ => simp [rootOp] at hr
  | false_ => simp [rootOp] at hr
  | asbool e op n => simp [rootOp] at hr
  | grouping e => simp [rootOp] at hr
  | case_ v w e ty => simp [rootOp] at hr
  | cast e ty => simp [rootOp] at hr
  | func n a ty => simp [rootOp] at hr
  | subq n ty => simp [rootOp] at hr
  | inlist v ty eo => simp [rootOp] at hr
  | inrows r n eo => simp [rootOp] at hr
  | tuple_ es => simp [rootOp] at hr
  | litcol _ _ => simp [rootOp] at hr
  | ilikeOperand _ => simp [rootOp] at hr
  | absent => simp [rootOp] at hr

theorem rootAbove_of_rootOp {p : Int} {c : SaExpr} :
    (∀ cop, rootOp c = some cop → p < precOf cop) → rootAbove p c = true := by
  intro h
  cases c <;> simp [rootAbove] <;> first | exact h _ rfl | skip

/-- regenerated table: BETWEEN and NOT BETWEEN share a precedence number -/
theorem btw_prec : precOf .not_between_op = precOf .between_op := by decide

theorem btwOp_prec {op : Op} (h : btwOp op = true) : precOf op = precOf .between_op := by
  cases op <;> simp [btwOp] at h
  · rfl
  · exact btw_prec

mutual
theorem above_mono {p q : Int} (h : p ≤ q) : ∀ e : SaExpr, above q e = true → above p e = true
  | .binary op l r _ _ _, ha => by
    simp only [above, Bool.and_eq_true, decide_eq_true_eq] at ha ⊢
    exact ⟨⟨by omega, above_mono h l ha.1.2⟩, above_mono h r ha.2⟩
  | .clist op cs gr _ _, ha => by
    simp only [above, Bool.and_eq_true, Bool.or_eq_true, Bool.not_eq_true', decide_eq_true_eq] at ha ⊢
    refine ⟨?_, aboveList_mono h cs ha.2⟩
    rcases ha.1 with h1 | h1
    · exact Or.inl h1
    · exact Or.inr (by omega)
  | .unary op e _, ha => by
    simp only [above, Bool.and_eq_true, decide_eq_true_eq] at ha ⊢
    exact ⟨by omega, above_mono h e ha.2⟩
  | .col _ _, _ => rfl
  | .bind _ _, _ => rfl
  | .null, _ => rfl
  | .true_, _ => rfl
  | .false_, _ => rfl
  | .asbool _ _ _, _ => rfl
  | .grouping _, _ => rfl
  | .case_ _ _ _ _, _ => rfl
  | .cast _ _, _ => rfl
  | .func _ _ _, _ => rfl
  | .subq _ _, _ => rfl
  | .inlist _ _ _, _ => rfl
  | .inrows _ _ _, _ => rfl
  | .tuple_ _, _ => rfl
  | .litcol _ _, _ => rfl
  | .ilikeOperand _, _ => rfl
  | .absent, _ => rfl
theorem aboveList_mono {p q : Int} (h : p ≤ q) : ∀ es : List SaExpr, aboveList q es = true → aboveList p es = true
  | [], _ => rfl
  | e :: es, ha => by
    simp only [aboveList, Bool.and_eq_true] at ha ⊢
    exact ⟨above_mono h e ha.1, aboveList_mono h es ha.2⟩
end

mutual
theorem above_of_WG (hprec : ∀ o, o ∈ coreInfix ∨ o ∈ corePrefix → (precedence o).isSome = true) :
    ∀ (e : SaExpr) (p : Int), Core e = true → WG e = true → rootAbove p e = true → above p e = true
  | .col _ _, _, _, _, _ => rfl
  | .bind _ _, _, _, _, _ => rfl
  | .null, _, _, _, _ => rfl
  | .true_, _, _, _, _ => rfl
  | .false_, _, _, _, _ => rfl
  | .grouping _, _, _, _, _ => rfl
  | .binary op l r n esc ty, p, hc, hw, hr => by
    have hmem := core_binary_mem hc
    obtain ⟨hcl, hk⟩ := core_binary hc
    simp only [WG, Bool.and_eq_true, Bool.not_eq_true'] at hw
    obtain ⟨⟨⟨hgl, hgr⟩, hwl⟩, hwr⟩ := hw
    simp only [rootAbove, decide_eq_true_eq] at hr
    have hs := hprec op (Or.inl hmem)
    simp only [above, Bool.and_eq_true, decide_eq_true_eq]
    refine ⟨⟨hr, ?_⟩, ?_⟩
    · apply above_of_WG hprec l p hcl hwl
      apply rootAbove_of_rootOp
      intro cop hcop
      have := precOf_le_of_not_precedent hs (not_precedent_of_not_wouldGroup hcl hcop hgl)
      omega
    · have key : ∀ hcr : Core r = true, above p r = true := by
        intro hcr
        apply above_of_WG hprec r p hcr hwr
        apply rootAbove_of_rootOp
        intro cop hcop
        have := precOf_le_of_not_precedent hs (not_precedent_of_not_wouldGroup hcr hcop hgr)
        omega
      rcases hk with ⟨_, _, hcr⟩ | ⟨_, _, _, hcr⟩ | ⟨_, _, hir⟩ | ⟨hbo, _, hbr⟩
      · exact key hcr
      · exact key hcr
      · obtain ⟨vs, ty', he, _⟩ := inRight_cases hir
        subst he; rfl
      · obtain ⟨lo, hi, ty', he, _, _, alo, ahi⟩ := coreBtw_cases hbr
        subst he
        have hle : p ≤ precOf .between_op := by rw [← btwOp_prec hbo]; omega
        simp [above, aboveList, above_mono hle lo alo, above_mono hle hi ahi]
  | .unary op e ty, p, hc, hw, hr => by
    simp only [Core, Bool.and_eq_true] at hc
    simp only [WG, Bool.and_eq_true, Bool.not_eq_true'] at hw
    simp only [rootAbove, decide_eq_true_eq] at hr
    have hs := hprec op (Or.inr (coreUn_mem hc.1))
    simp only [above, Bool.and_eq_true, decide_eq_true_eq]
    refine ⟨hr, ?_⟩
    apply above_of_WG hprec e p hc.2 hw.2
    apply rootAbove_of_rootOp
    intro cop hcop
    have := precOf_le_of_not_precedent hs (not_precedent_of_not_wouldGroup hc.2 hcop hw.1)
    omega
  | .clist op cs gr bl ty, p, hc, hw, hr => by
    simp only [Core, Bool.and_eq_true] at hc
    simp only [WG] at hw
    simp only [rootAbove, decide_eq_true_eq] at hr
    have hs := hprec op (Or.inl (coreList_mem hc.1.1.1))
    simp only [above, Bool.and_eq_true, Bool.or_eq_true, decide_eq_true_eq]
    exact ⟨Or.inr hr, aboveList_of_WG hprec op cs p hs hc.2 hw hr⟩
  | .asbool _ _ _, _, hc, _, _ => by simp [Core] at hc
  | .case_ _ _ _ _, _, _, _, _ => rfl
  | .cast _ _, _, _, _, _ => rfl
  | .func _ _ _, _, _, _, _ => rfl
  | .subq _ _, _, _, _, _ => rfl
  | .inlist _ _ _, _, hc, _, _ => by simp [Core] at hc
  | .inrows _ _ _, _, hc, _, _ => by simp [Core] at hc
  | .tuple_ _, _, hc, _, _ => by simp [Core] at hc
  | .litcol _ _, _, hc, _, _ => by simp [Core] at hc
  | .ilikeOperand _, _, hc, _, _ => by simp [Core] at hc
  | .absent, _, hc, _, _ => by simp [Core] at hc

theorem aboveList_of_WG (hprec : ∀ o, o ∈ coreInfix ∨ o ∈ corePrefix → (precedence o).isSome = true) :
    ∀ (op : Op) (cs : List SaExpr) (p : Int), (precedence op).isSome = true →
      CoreList cs = true → WGList op cs = true → p < precOf op → aboveList p cs = true
  | _, [], _, _, _, _, _ => rfl
  | op, c :: cs, p, hs, hc, hw, hr => by
    simp only [CoreList, Bool.and_eq_true] at hc
    simp only [WGList, Bool.and_eq_true, Bool.not_eq_true'] at hw
    simp only [aboveList, Bool.and_eq_true]
    refine ⟨?_, aboveList_of_WG hprec op cs p hs hc.2 hw.2 hr⟩
    apply above_of_WG hprec c p hc.1 hw.1.2
    apply rootAbove_of_rootOp
    intro cop hcop
    have := precOf_le_of_not_precedent hs (not_precedent_of_not_wouldGroup hc.1 hcop hw.1.1)
    omega
end

end SaVerif.Expr

namespace SaVerif.Expr
open SaVerif.Expr.Gen SaVerif.Pratt

/-! ### tightness of the rendering -/

theorem tight_caseG (g : Grammar) (k : Nat) (v : Option G) (ws : List G) (e : Option G) :
    tight g k (caseG v ws e) = true := by
  unfold caseG
  cases caseBody v ws with
  | none => rfl
  | some p => obtain ⟨kk, b⟩ := p; cases e <;> rfl

theorem allExp_caseG (P : Sym → Bool) (v : Option G) (ws : List G) (e : Option G) :
    allExp P (caseG v ws e) = true := by
  unfold caseG
  cases caseBody v ws with
  | none => rfl
  | some p => obtain ⟨kk, b⟩ := p; cases e <;> rfl

theorem rootOp_none_of_not_grouped (e : SaExpr) (hc : Core e = true) (h : wouldGroup none e = false) :
    rootOp e = none := by
  cases e with
  | binary op l r n esc ty => simp [wouldGroup, isPrecedent] at h
  | clist op cs gr bl ty =>
    simp only [Core, Bool.and_eq_true, decide_eq_true_eq] at hc
    obtain ⟨⟨⟨_, hgr⟩, hlen⟩, _⟩ := hc
    cases cs with
    | nil => simp at hlen
    | cons c cs => simp [wouldGroup, isPrecedent, hgr] at h
  | unary op x ty => simp [wouldGroup, isPrecedent] at h
  | _ => rfl

/-- an element without root operator renders to an atom or a bracket: tight at every level -/
theorem tight_of_no_rootOp (g : Grammar) (d : Dialect) (k : Nat) :
    ∀ c : SaExpr, Core c = true → rootOp c = none → tight g k (render d true c) = true
  | .col _ _, _, _ => rfl
  | .bind _ _, _, _ => rfl
  | .null, _, _ => rfl
  | .true_, _, _ => rfl
  | .false_, _, _ => rfl
  | .grouping _, _, _ => by rw [render_grouping]; rfl
  | .subq _ _, _, _ => rfl
  | .func _ _ _, _, _ => by rw [render_func]; rfl
  | .case_ _ _ _ _, _, _ => by rw [render_case]; exact tight_caseG g k _ _ _
  | .cast e ty, hc, _ => by
    rw [render_cast]
    cases castName d ty with
    | some n => rfl
    | none =>
      by_cases hg : wouldGroup none e = true
      · simp [castG, hg, tight]
      · have hg' : wouldGroup none e = false := by simpa using hg
        simp only [castG, hg', Bool.false_eq_true, if_false]
        have hce : Core e = true := by simpa [Core] using hc
        exact tight_of_no_rootOp g d k e hce (rootOp_none_of_not_grouped e hce hg')
  | .binary _ _ _ _ _ _, _, h => by simp [rootOp] at h
  | .clist _ _ _ _ _, _, h => by simp [rootOp] at h
  | .unary _ _ _, _, h => by simp [rootOp] at h
  | .asbool _ _ _, hc, _ => by simp [Core] at hc
  | .inlist _ _ _, hc, _ => by simp [Core] at hc
  | .inrows _ _ _, hc, _ => by simp [Core] at hc
  | .tuple_ _, hc, _ => by simp [Core] at hc
  | .litcol _ _, hc, _ => by simp [Core] at hc
  | .ilikeOperand _, hc, _ => by simp [Core] at hc
  | .absent, hc, _ => by simp [Core] at hc

/-! ### the LIKE family: closed operands -/

/-- an atom or a bracket -/
def closedG : G → Bool
  | G.atom _ => true
  | G.br _ _ => true
  | _ => false

theorem tight_closed (g : Grammar) (k : Nat) {x : G} (h : closedG x = true) : tight g k x = true := by
  cases x <;> simp [closedG] at h <;> rfl

theorem allExp_closed (P : Sym → Bool) {x : G} (h : closedG x = true) : allExp P x = true := by
  cases x <;> simp [closedG] at h <;> rfl

theorem closedG_caseG (v : Option G) (ws : List G) (e : Option G) : closedG (caseG v ws e) = true := by
  unfold caseG
  cases caseBody v ws with
  | none => rfl
  | some p => obtain ⟨kk, b⟩ := p; cases e <;> rfl

/-- an element without root operator renders to an atom or a bracket -/
theorem closedG_render (d : Dialect) :
    ∀ c : SaExpr, Core c = true → rootOp c = none → closedG (render d true c) = true
  | .col _ _, _, _ => rfl
  | .bind _ _, _, _ => rfl
  | .null, _, _ => rfl
  | .true_, _, _ => rfl
  | .false_, _, _ => rfl
  | .grouping _, _, _ => by rw [render_grouping]; rfl
  | .subq _ _, _, _ => rfl
  | .func _ _ _, _, _ => by rw [render_func]; rfl
  | .case_ _ _ _ _, _, _ => by rw [render_case]; exact closedG_caseG _ _ _
  | .cast e ty, hc, _ => by
    rw [render_cast]
    cases castName d ty with
    | some n => rfl
    | none =>
      by_cases hg : wouldGroup none e = true
      · simp [castG, hg, closedG]
      · have hg' : wouldGroup none e = false := by simpa using hg
        simp only [castG, hg', Bool.false_eq_true, if_false]
        have hce : Core e = true := by simpa [Core] using hc
        exact closedG_render d e hce (rootOp_none_of_not_grouped e hce hg')
  | .binary _ _ _ _ _ _, _, h => by simp [rootOp] at h
  | .clist _ _ _ _ _, _, h => by simp [rootOp] at h
  | .unary _ _ _, _, h => by simp [rootOp] at h
  | .asbool _ _ _, hc, _ => by simp [Core] at hc
  | .inlist _ _ _, hc, _ => by simp [Core] at hc
  | .inrows _ _ _, hc, _ => by simp [Core] at hc
  | .tuple_ _, hc, _ => by simp [Core] at hc
  | .litcol _ _, hc, _ => by simp [Core] at hc
  | .ilikeOperand _, hc, _ => by simp [Core] at hc
  | .absent, hc, _ => by simp [Core] at hc

/-- the symbol a dialect renders a LIKE-family operator with -/
def likeSym (d : Dialect) : Op → Sym
  | .not_like_op => .notLike
  | .ilike_op => if d = .postgresql then .ilike else .like
  | .not_ilike_op => if d = .postgresql then .notIlike else .notLike
  | _ => .like

/-- `lower(…)` around the operands of `ilike` on every dialect but PostgreSQL -/
def likeWrap (d : Dialect) (op : Op) (x : G) : G :=
  if (op = .ilike_op ∨ op = .not_ilike_op) ∧ d ≠ .postgresql then lowerG x else x

theorem render_like (d : Dialect) (lb : Bool) (op : Op) (l r : SaExpr) (n : Option Op)
    (esc : Option String) (ty : Ty) (h : likeOp op = true) :
    ∃ t, render d lb (.binary op l r n esc ty) =
      likeG d (likeSym d op) t (likeWrap d op (render d lb l)) (likeWrap d op (render d lb r)) esc := by
  cases op <;> simp [likeOp] at h
  · exact ⟨_, rfl⟩
  · exact ⟨_, rfl⟩
  · by_cases hd : d = .postgresql
    · subst hd; exact ⟨_, rfl⟩
    · refine ⟨" LIKE ", ?_⟩
      show (if d = .postgresql then _ else _) = _
      simp [hd, likeSym, likeWrap]
  · by_cases hd : d = .postgresql
    · subst hd; exact ⟨_, rfl⟩
    · refine ⟨" NOT LIKE ", ?_⟩
      show (if d = .postgresql then _ else _) = _
      simp [hd, likeSym, likeWrap]

/-- `x IN (v₁, …)` / `(x NOT IN (v₁, …))` for a non-empty list -/
theorem render_inNode (d : Dialect) (lb : Bool) (op : Op) (l : SaExpr) (vs : List Lit) (lty : Ty)
    (n : Option Op) (esc : Option String) (ty : Ty) (h : inOp op = true) (hne : vs ≠ []) :
    render d lb (.binary op l (.inlist vs lty op) n esc ty) =
      (if op = .in_op then G.inf .in_ (opText .in_op) (render d lb l) (G.br .paren (litListG d lb vs))
       else G.br .paren
        (G.inf .notIn (opText .not_in_op) (render d lb l) (G.br .paren (litListG d lb vs)))) := by
  have he : vs.isEmpty = false := by cases vs <;> simp at hne ⊢
  cases op <;> simp [inOp] at h
  · rw [render_in_op]; simp [inG, he]
  · rw [render_not_in_op]; simp [inG, he]

/-- `x BETWEEN lo AND hi` / `x NOT BETWEEN lo AND hi`: one ternary node -/
theorem render_btw (d : Dialect) (lb : Bool) (op : Op) (l lo hi : SaExpr) (cty : Ty)
    (n : Option Op) (esc : Option String) (ty : Ty) (h : btwOp op = true) :
    ∃ t, render d lb (.binary op l (.clist .and_ [lo, hi] false false cty) n esc ty) =
      G.tern (symOf op) t .and_ (opText .and_) (render d lb l) (render d lb lo) (render d lb hi) := by
  have hr : render d lb (.clist .and_ [lo, hi] false false cty) =
      G.inf .and_ (opText .and_) (render d lb lo) (render d lb hi) := by
    rw [render_clist d lb .and_ _ _ _ _ rfl]
    rfl
  cases op <;> simp [btwOp] at h
  · refine ⟨" BETWEEN ", ?_⟩
    show betweenG .between " BETWEEN " (render d lb l) (render d lb (.clist .and_ [lo, hi] false false cty)) = _
    rw [hr]; rfl
  · refine ⟨" NOT BETWEEN ", ?_⟩
    show betweenG .notBetween " NOT BETWEEN " (render d lb l)
      (render d lb (.clist .and_ [lo, hi] false false cty)) = _
    rw [hr]; rfl

theorem closedG_likeWrap (d : Dialect) (op : Op) (x : G) (h : closedG x = true) :
    closedG (likeWrap d op x) = true := by
  unfold likeWrap
  split
  · rfl
  · exact h

theorem ok_likeWrap (g : Grammar) (d : Dialect) (op : Op) (x : G) (h : ok g x = true) :
    ok g (likeWrap d op x) = true := by
  unfold likeWrap
  split
  · simpa [lowerG, ok] using h
  · exact h

theorem tight_likeG (g : Grammar) (k : Nat) (d : Dialect) (s : Sym) (t : String) (L R : G)
    (esc : Option String) (lbp rbp bp3 : Nat) (hb : g.infixBp s = some (lbp, rbp))
    (hq : g.ternBp s = some (.escape, bp3, false)) (h1 : k ≤ lbp) (h2 : k ≤ rbp) (h3 : k ≤ bp3)
    (cL : closedG L = true) (cR : closedG R = true) : tight g k (likeG d s t L R esc) = true := by
  cases esc <;> simp [likeG, tight, hb, hq, h1, h2, h3, tight_closed g k cL, tight_closed g k cR]

theorem allExp_likeG (P : Sym → Bool) (d : Dialect) (s : Sym) (t : String) (L R : G)
    (esc : Option String) (hP : P s = true) (cL : closedG L = true) (cR : closedG R = true) :
    allExp P (likeG d s t L R esc) = true := by
  cases esc <;> simp [likeG, allExp, hP, allExp_closed P cL, allExp_closed P cR]

theorem ok_likeG (g : Grammar) (d : Dialect) (s : Sym) (t : String) (L R : G)
    (esc : Option String) (lbp rbp bp3 : Nat) (hb : g.infixBp s = some (lbp, rbp))
    (hq : g.ternBp s = some (.escape, bp3, false)) (ha : G.assocSym s = false)
    (hesc : g.infixBp .escape = none)
    (cL : closedG L = true) (cR : closedG R = true) (okL : ok g L = true) (okR : ok g R = true) :
    ok g (likeG d s t L R esc) = true := by
  cases esc with
  | none =>
    simp [likeG, ok, hb, ha, hq, okL, okR, tight_closed g _ cL, tight_closed g _ cR, allExp_closed _ cL]
  | some c =>
    simp [likeG, ok, hb, hq, okL, okR, tight_closed g _ cL, tight_closed g _ cR, allExp_closed _ cL,
      allExp_closed _ cR, stops, hesc, tight]

theorem likeSym_symOf (d : Dialect) (op : Op) (h : likeOp op = true) :
    ∃ o ∈ coreInfix, btwOp o = false ∧ likeSym d op = symOf o := by
  cases op <;> simp [likeOp] at h
  · exact ⟨.like_op, by simp [coreInfix], rfl, rfl⟩
  · exact ⟨.not_like_op, by simp [coreInfix], rfl, rfl⟩
  · by_cases hd : d = .postgresql
    · exact ⟨.ilike_op, by simp [coreInfix], rfl, by simp [likeSym, hd, symOf]⟩
    · exact ⟨.like_op, by simp [coreInfix], rfl, by simp [likeSym, hd, symOf]⟩
  · by_cases hd : d = .postgresql
    · exact ⟨.not_ilike_op, by simp [coreInfix], rfl, by simp [likeSym, hd, symOf]⟩
    · exact ⟨.not_like_op, by simp [coreInfix], rfl, by simp [likeSym, hd, symOf]⟩

theorem coreBinD_not_btw {op : Op} (h : coreBinD op = true) : btwOp op = false := by
  rcases coreBinD_cases h with h | h
  · cases op <;> simp [coreBin] at h <;> rfl
  · cases op <;> simp [coreDiv] at h <;> rfl

theorem coreList_not_btw {op : Op} (h : coreList op = true) : btwOp op = false := by
  cases op <;> simp [coreList] at h <;> rfl

theorem inOp_not_btw {op : Op} (h : inOp op = true) : btwOp op = false := by
  cases op <;> simp [inOp] at h <;> rfl

theorem btwOp_not_like {op : Op} (h : btwOp op = true) : likeOp op = false := by
  cases op <;> simp [btwOp] at h <;> rfl

theorem coreBinD_not_like {op : Op} (h : coreBinD op = true) : likeOp op = false := by
  rcases coreBinD_cases h with h | h
  · cases op <;> simp [coreBin] at h <;> rfl
  · cases op <;> simp [coreDiv] at h <;> rfl

theorem coreList_not_like {op : Op} (h : coreList op = true) : likeOp op = false := by
  cases op <;> simp [coreList] at h <;> rfl

theorem symOf_ne_escape (o : Op) : symOf o ≠ .escape := by
  cases o <;> simp [symOf]

theorem tight_chainFrom (g : Grammar) (k : Nat) (s : Sym) (t : String) (lbp rbp : Nat)
    (hb : g.infixBp s = some (lbp, rbp)) (hl : k ≤ lbp) (hr : k ≤ rbp) :
    ∀ (gs : List G) (acc : G), tight g k acc = true → (∀ x ∈ gs, tight g k x = true) →
      tight g k (chainFrom s t acc gs) = true
  | [], acc, ha, _ => by simpa [chainFrom] using ha
  | x :: gs, acc, ha, hx => by
    simp only [chainFrom]
    apply tight_chainFrom g k s t lbp rbp hb hl hr gs
    · simp [tight, hb, hl, hr, ha, hx x (by simp)]
    · intro y hy; exact hx y (by simp [hy])

theorem allExp_chainFrom (P : Sym → Bool) (s : Sym) (t : String) (hs : P s = true) :
    ∀ (gs : List G) (acc : G), allExp P acc = true → (∀ x ∈ gs, allExp P x = true) →
      allExp P (chainFrom s t acc gs) = true
  | [], acc, ha, _ => by simpa [chainFrom] using ha
  | x :: gs, acc, ha, hx => by
    simp only [chainFrom]
    apply allExp_chainFrom P s t hs gs
    · simp [allExp, hs, ha, hx x (by simp)]
    · intro y hy; exact hx y (by simp [hy])

theorem infBase_le {g : Grammar} {o : Op} {lbp rbp k : Nat}
    (hb : g.infixBp (symOf o) = some (lbp, rbp)) (h : k ≤ infBase g o) : k ≤ lbp ∧ k ≤ rbp := by
  simp only [infBase, hb] at h
  split at h <;> omega

theorem infBase_le3 {g : Grammar} {o : Op} {lbp rbp k bp3 : Nat} {m : Sym} {fl : Bool}
    (hb : g.infixBp (symOf o) = some (lbp, rbp)) (hq : g.ternBp (symOf o) = some (m, bp3, fl))
    (h : k ≤ infBase g o) : k ≤ lbp ∧ k ≤ rbp ∧ k ≤ bp3 := by
  simp only [infBase, hb, hq] at h
  omega

/-- the binding powers of the symbol a LIKE-family operator is rendered with are those the
    table facts were checked for -/
theorem like_facts (g : Grammar) (C : Compat g) (d : Dialect) (op : Op) (h : likeOp op = true) :
    ∃ lbp rbp bp3, g.infixBp (likeSym d op) = some (lbp, rbp) ∧
      g.ternBp (likeSym d op) = some (.escape, bp3, false) ∧
      g.infixBp (symOf op) = some (lbp, rbp) ∧ g.ternBp (symOf op) = some (.escape, bp3, false) ∧
      G.assocSym (likeSym d op) = false := by
  obtain ⟨lbp, rbp, hb, _, _⟩ := C.inf_known op (likeOp_mem h)
  obtain ⟨bp3, hq⟩ := C.like.tern op h
  refine ⟨lbp, rbp, bp3, ?_, ?_, hb, hq, ?_⟩
  · cases op <;> simp [likeOp] at h
    · exact hb
    · exact hb
    · by_cases hd : d = .postgresql
      · simp only [likeSym, hd, if_true]; exact hb
      · simp only [likeSym, hd, if_false]; rw [← C.like.same_i]; exact hb
    · by_cases hd : d = .postgresql
      · simp only [likeSym, hd, if_true]; exact hb
      · simp only [likeSym, hd, if_false]; rw [← C.like.same_ni]; exact hb
  · cases op <;> simp [likeOp] at h
    · exact hq
    · exact hq
    · by_cases hd : d = .postgresql
      · simp only [likeSym, hd, if_true]; exact hq
      · simp only [likeSym, hd, if_false]; rw [← C.like.same_t]; exact hq
    · by_cases hd : d = .postgresql
      · simp only [likeSym, hd, if_true]; exact hq
      · simp only [likeSym, hd, if_false]; rw [← C.like.same_nt]; exact hq
  · cases op <;> simp [likeOp] at h
    · rfl
    · rfl
    · by_cases hd : d = .postgresql <;> simp [likeSym, hd, G.assocSym]
    · by_cases hd : d = .postgresql <;> simp [likeSym, hd, G.assocSym]

theorem closedE_none {c : SaExpr} (h : closedE c = true) : rootOp c = none := by
  simpa [closedE] using h

theorem symOf_div {op : Op} (h : coreDiv op = true) : symOf op = .slash := by
  cases op <;> simp [coreDiv] at h <;> rfl

theorem tight_div (g : Grammar) (k lbp rbp : Nat) (hb : g.infixBp .slash = some (lbp, rbp))
    (hl : k ≤ lbp) (hr : k ≤ rbp) {L R x : G} (sh : DivShape L R x)
    (tL : tight g k L = true) (tR : tight g k R = true) : tight g k x = true := by
  cases sh <;> simp [tight, hb, hl, hr, tL, tR]

theorem allExp_div (P : Sym → Bool) (hP : P .slash = true) {L R x : G} (sh : DivShape L R x)
    (aL : allExp P L = true) (aR : allExp P R = true) : allExp P x = true := by
  cases sh <;> simp [allExp, hP, aL, aR]

mutual
/-- if every operator outside parentheses has precedence above `p`, and the grammar binds all
    such operators at least `k`, the rendering is `k`-tight -/
theorem tight_render (g : Grammar) (C : Compat g) (d : Dialect) (k : Nat) (p : Int)
    (H : ∀ o ∈ coreInfix, p < precOf o → k ≤ infBase g o)
    (H' : ∀ u ∈ corePrefix, p < precOf u → k ≤ preBase g u) :
    ∀ e : SaExpr, Core e = true → above p e = true → tight g k (render d true e) = true
  | .col _ _, _, _ => rfl
  | .bind _ _, _, _ => rfl
  | .null, _, _ => rfl
  | .true_, _, _ => rfl
  | .false_, _, _ => rfl
  | .grouping e, _, _ => by rw [render_grouping]; rfl
  | .binary op l r n esc ty, hc, ha => by
    obtain ⟨hcl, hk⟩ := core_binary hc
    simp only [above, Bool.and_eq_true, decide_eq_true_eq] at ha
    obtain ⟨⟨hp, hal⟩, har⟩ := ha
    rcases hk with ⟨hop, _, hcr⟩ | ⟨hlk, cl, cr, hcr⟩ | ⟨hin, _, hir⟩ | ⟨hbo, _, hbr⟩
    case inr.inr.inr =>
      obtain ⟨lo, hi, cty, he, hclo, hchi, _, _⟩ := coreBtw_cases hbr
      subst he
      obtain ⟨lbp, rbp, hb, _, _⟩ := C.inf_known op (btwOp_mem hbo)
      obtain ⟨bp3, hq⟩ := C.btw.tern op hbo
      obtain ⟨h1, h2, h3⟩ := infBase_le3 hb hq (H op (btwOp_mem hbo) hp)
      obtain ⟨t, heq⟩ := render_btw d true op l lo hi cty n esc ty hbo
      simp only [above, aboveList, Bool.and_eq_true, Bool.not_false, Bool.true_or, Bool.true_and,
        Bool.and_true] at har
      rw [heq]
      simp [tight, hb, hq, h1, h2, h3, tight_render g C d k p H H' l hcl hal,
        tight_render g C d k p H H' lo hclo har.1, tight_render g C d k p H H' hi hchi har.2]
    case inr.inr.inl =>
      obtain ⟨vs, lty, he, hne⟩ := inRight_cases hir
      subst he
      rw [render_inNode d true op l vs lty n esc ty hin hne]
      split
      · rename_i ho
        subst ho
        obtain ⟨lbp, rbp, hb, _, _⟩ := C.inf_known .in_op (inOp_mem hin)
        obtain ⟨h1, h2⟩ := infBase_le hb (H .in_op (inOp_mem hin) hp)
        have hb2 : g.infixBp .in_ = some (lbp, rbp) := hb
        simp [tight, hb2, h1, h2, tight_render g C d k p H H' l hcl hal]
      · rfl
    case inr.inl =>
      obtain ⟨lbp, rbp, bp3, hb, hq, hb', hq', _⟩ := like_facts g C d op hlk
      obtain ⟨h1, h2, h3⟩ := infBase_le3 hb' hq' (H op (likeOp_mem hlk) hp)
      obtain ⟨t, heq⟩ := render_like d true op l r n esc ty hlk
      rw [heq]
      exact tight_likeG g k d _ t _ _ esc lbp rbp bp3 hb hq h1 h2 h3
        (closedG_likeWrap _ _ _ (closedG_render d l hcl (closedE_none cl)))
        (closedG_likeWrap _ _ _ (closedG_render d r hcr (closedE_none cr)))
    obtain ⟨lbp, rbp, hb, _, _⟩ := C.inf_known op (coreBinD_mem hop)
    obtain ⟨h1, h2⟩ := infBase_le hb (H op (coreBinD_mem hop) hp)
    rcases coreBinD_cases hop with hop' | hdiv
    · by_cases hcf : catFn d op = true
      · rw [render_catFn_bin d true op l r n esc ty hcf]; rfl
      · obtain ⟨txt, heq⟩ := render_coreBin d true op l r n esc ty hop' (by simpa using hcf)
        rw [heq]
        simp [tight, hb, h1, h2, tight_render g C d k p H H' l hcl hal, tight_render g C d k p H H' r hcr har]
    · rw [symOf_div hdiv] at hb
      exact tight_div g k lbp rbp hb h1 h2 (render_coreDiv d true op l r n esc ty hdiv)
        (tight_render g C d k p H H' l hcl hal) (tight_render g C d k p H H' r hcr har)
  | .unary op e ty, hc, ha => by
    simp only [Core, Bool.and_eq_true] at hc
    simp only [above, Bool.and_eq_true, decide_eq_true_eq] at ha
    obtain ⟨bp, hb, _⟩ := C.pre_known op (coreUn_mem hc.1)
    have h1 := H' op (coreUn_mem hc.1) ha.1
    simp only [preBase, hb, Option.getD_some] at h1
    rw [render_unary]
    simp [tight, hb, h1, tight_render g C d k p H H' e hc.2 ha.2]
  | .clist op cs gr bl ty, hc, ha => by
    simp only [Core, Bool.and_eq_true, decide_eq_true_eq] at hc
    obtain ⟨⟨⟨hop, _⟩, hlen⟩, hcs⟩ := hc
    rename_i hgr
    simp only [above, hgr, Bool.not_true, Bool.false_or, Bool.and_eq_true, decide_eq_true_eq] at ha
    obtain ⟨lbp, rbp, hb, _, _⟩ := C.inf_known op (coreList_mem hop)
    obtain ⟨h1, h2⟩ := infBase_le hb (H op (coreList_mem hop) ha.1)
    by_cases hcf : catFn d op = true
    · rw [render_catFn_list d true op cs gr bl ty hcf]; rfl
    · rw [render_clist d true op cs gr bl ty (by simpa using hcf)]
      have hall := tight_renderList g C d k p H H' cs hcs ha.2
      cases hcs' : renderList d true cs with
      | nil => rfl
      | cons x xs =>
        simp only [chain]
        rw [hcs'] at hall
        exact tight_chainFrom g k _ _ lbp rbp hb h1 h2 xs x (hall x (by simp))
          (fun y hy => hall y (by simp [hy]))
  | .asbool _ _ _, hc, _ => by simp [Core] at hc
  | .case_ v ws e ty, hc, _ => tight_of_no_rootOp g d k _ hc rfl
  | .cast e ty, hc, _ => tight_of_no_rootOp g d k _ hc rfl
  | .func n args ty, hc, _ => tight_of_no_rootOp g d k _ hc rfl
  | .subq _ _, _, _ => rfl
  | .inlist _ _ _, hc, _ => by simp [Core] at hc
  | .inrows _ _ _, hc, _ => by simp [Core] at hc
  | .tuple_ _, hc, _ => by simp [Core] at hc
  | .litcol _ _, hc, _ => by simp [Core] at hc
  | .ilikeOperand _, hc, _ => by simp [Core] at hc
  | .absent, hc, _ => by simp [Core] at hc

theorem tight_renderList (g : Grammar) (C : Compat g) (d : Dialect) (k : Nat) (p : Int)
    (H : ∀ o ∈ coreInfix, p < precOf o → k ≤ infBase g o)
    (H' : ∀ u ∈ corePrefix, p < precOf u → k ≤ preBase g u) :
    ∀ cs : List SaExpr, CoreList cs = true → aboveList p cs = true →
      ∀ x ∈ renderList d true cs, tight g k x = true
  | [], _, _ => by intro x hx; simp [renderList_nil] at hx
  | c :: cs, hc, ha => by
    simp only [CoreList, Bool.and_eq_true] at hc
    simp only [aboveList, Bool.and_eq_true] at ha
    intro x hx
    rw [renderList_cons] at hx
    simp only [List.mem_cons] at hx
    rcases hx with hx | hx
    · subst hx; exact tight_render g C d k p H H' c hc.1 ha.1
    · exact tight_renderList g C d k p H H' cs hc.2 ha.2 x hx
end

mutual
/-- every operator symbol the fragment renders satisfies `P` ⇒ so does every exposed symbol -/
theorem allExp_render (d : Dialect) (P : Sym → Bool)
    (hP : ∀ o ∈ coreInfix, btwOp o = false → P (symOf o) = true)
    (hP' : ∀ u ∈ corePrefix, P (symOf u) = true) :
    ∀ e : SaExpr, Core e = true → allExp P (render d true e) = true
  | .col _ _, _ => rfl
  | .bind _ _, _ => rfl
  | .null, _ => rfl
  | .true_, _ => rfl
  | .false_, _ => rfl
  | .grouping e, _ => by rw [render_grouping]; rfl
  | .binary op l r n esc ty, hc => by
    obtain ⟨hcl, hk⟩ := core_binary hc
    rcases hk with ⟨hop, _, hcr⟩ | ⟨hlk, cl, cr, hcr⟩ | ⟨hin, _, hir⟩ | ⟨hbo, _, hbr⟩
    case inr.inr.inr =>
      obtain ⟨lo, hi, cty, he, hclo, hchi, _, _⟩ := coreBtw_cases hbr
      subst he
      obtain ⟨t, heq⟩ := render_btw d true op l lo hi cty n esc ty hbo
      rw [heq]
      simp [allExp, allExp_render d P hP hP' l hcl, allExp_render d P hP hP' lo hclo,
        allExp_render d P hP hP' hi hchi]
    case inr.inr.inl =>
      obtain ⟨vs, lty, he, hne⟩ := inRight_cases hir
      subst he
      rw [render_inNode d true op l vs lty n esc ty hin hne]
      split
      · rename_i ho
        subst ho
        have hPs : P .in_ = true := hP .in_op (inOp_mem hin) rfl
        simp [allExp, hPs, allExp_render d P hP hP' l hcl]
      · rfl
    case inr.inl =>
      obtain ⟨t, heq⟩ := render_like d true op l r n esc ty hlk
      obtain ⟨o, ho, hnb, hso⟩ := likeSym_symOf d op hlk
      rw [heq]
      exact allExp_likeG P d _ t _ _ esc (by rw [hso]; exact hP o ho hnb)
        (closedG_likeWrap _ _ _ (closedG_render d l hcl (closedE_none cl)))
        (closedG_likeWrap _ _ _ (closedG_render d r hcr (closedE_none cr)))
    rcases coreBinD_cases hop with hop' | hdiv
    · by_cases hcf : catFn d op = true
      · rw [render_catFn_bin d true op l r n esc ty hcf]; rfl
      · obtain ⟨txt, heq⟩ := render_coreBin d true op l r n esc ty hop' (by simpa using hcf)
        rw [heq]
        simp [allExp, hP op (coreBin_mem hop') (coreBinD_not_btw hop), allExp_render d P hP hP' l hcl,
          allExp_render d P hP hP' r hcr]
    · have hs := hP op (coreDiv_mem hdiv) (coreBinD_not_btw hop)
      rw [symOf_div hdiv] at hs
      exact allExp_div P hs (render_coreDiv d true op l r n esc ty hdiv)
        (allExp_render d P hP hP' l hcl) (allExp_render d P hP hP' r hcr)
  | .unary op e ty, hc => by
    simp only [Core, Bool.and_eq_true] at hc
    rw [render_unary]
    simp [allExp, hP' op (coreUn_mem hc.1), allExp_render d P hP hP' e hc.2]
  | .clist op cs gr bl ty, hc => by
    simp only [Core, Bool.and_eq_true, decide_eq_true_eq] at hc
    obtain ⟨⟨⟨hop, _⟩, hlen⟩, hcs⟩ := hc
    by_cases hcf : catFn d op = true
    · rw [render_catFn_list d true op cs gr bl ty hcf]; rfl
    · rw [render_clist d true op cs gr bl ty (by simpa using hcf)]
      have hall := allExp_renderList d P hP hP' cs hcs
      cases hcs' : renderList d true cs with
      | nil => rfl
      | cons x xs =>
        simp only [chain]
        rw [hcs'] at hall
        exact allExp_chainFrom P _ _ (hP op (coreList_mem hop) (coreList_not_btw hop)) xs x (hall x (by simp))
          (fun y hy => hall y (by simp [hy]))
  | .asbool _ _ _, hc => by simp [Core] at hc
  | .case_ v ws e ty, _ => by rw [render_case]; exact allExp_caseG P _ _ _
  | .cast e ty, hc => by
    rw [render_cast]
    cases castName d ty with
    | some n => rfl
    | none =>
      by_cases hg : wouldGroup none e = true
      · simp [castG, hg, allExp]
      · have hg' : wouldGroup none e = false := by simpa using hg
        simp only [castG, hg', Bool.false_eq_true, if_false]
        exact allExp_render d P hP hP' e (by simpa [Core] using hc)
  | .func n args ty, _ => by rw [render_func]; rfl
  | .subq _ _, _ => rfl
  | .inlist _ _ _, hc => by simp [Core] at hc
  | .inrows _ _ _, hc => by simp [Core] at hc
  | .tuple_ _, hc => by simp [Core] at hc
  | .litcol _ _, hc => by simp [Core] at hc
  | .ilikeOperand _, hc => by simp [Core] at hc
  | .absent, hc => by simp [Core] at hc

theorem allExp_renderList (d : Dialect) (P : Sym → Bool)
    (hP : ∀ o ∈ coreInfix, btwOp o = false → P (symOf o) = true)
    (hP' : ∀ u ∈ corePrefix, P (symOf u) = true) :
    ∀ cs : List SaExpr, CoreList cs = true → ∀ x ∈ renderList d true cs, allExp P x = true
  | [], _ => by intro x hx; simp [renderList_nil] at hx
  | c :: cs, hc => by
    simp only [CoreList, Bool.and_eq_true] at hc
    intro x hx
    rw [renderList_cons] at hx
    simp only [List.mem_cons] at hx
    rcases hx with hx | hx
    · subst hx; exact allExp_render d P hP hP' c hc.1
    · exact allExp_renderList d P hP hP' cs hc.2 x hx
end

end SaVerif.Expr

namespace SaVerif.Expr
open SaVerif.Expr.Gen SaVerif.Pratt

/-! ### the rendering satisfies `Pratt.ok` -/

theorem rootIs_chainFrom (s : Sym) (t : String) :
    ∀ (gs : List G) (acc : G), (gs ≠ [] ∨ rootIs s acc = true) → rootIs s (chainFrom s t acc gs) = true
  | [], acc, h => by
    rcases h with h | h
    · exact absurd rfl h
    · simpa [chainFrom] using h
  | x :: gs, acc, _ => by
    simp only [chainFrom]
    exact rootIs_chainFrom s t gs _ (Or.inr (by simp [rootIs]))

theorem rootIs_render_of_rootOp (d : Dialect) (op : Op) (c : SaExpr) (hc : Core c = true)
    (hr : rootOp c = some op) (hi : op ∈ coreInfix) (hna : G.assocSym (symOf op) = true)
    (hcf : catFn d op = false) :
    rootIs (symOf op) (render d true c) = true := by
  cases c with
  | binary op' l r n esc ty =>
    simp only [rootOp, Option.some.injEq] at hr; subst hr
    obtain ⟨_, hk⟩ := core_binary hc
    rcases hk with ⟨hop, _, _⟩ | ⟨hlk, _, _, _⟩ | ⟨hin, _, _⟩ | ⟨hbo, _, _⟩
    case inr.inl => cases op' <;> simp [likeOp] at hlk <;> simp [symOf, G.assocSym] at hna
    case inr.inr.inl => cases op' <;> simp [inOp] at hin <;> simp [symOf, G.assocSym] at hna
    case inr.inr.inr => cases op' <;> simp [btwOp] at hbo <;> simp [symOf, G.assocSym] at hna
    rcases coreBinD_cases hop with hop' | hdiv
    · obtain ⟨txt, heq⟩ := render_coreBin d true op' l r n esc ty hop' hcf
      rw [heq]; simp [rootIs]
    · rw [symOf_div hdiv] at hna
      cases hna
  | clist op' cs gr bl ty =>
    simp only [rootOp, Option.some.injEq] at hr; subst hr
    simp only [Core, Bool.and_eq_true, decide_eq_true_eq] at hc
    obtain ⟨⟨⟨hop, _⟩, hlen⟩, _⟩ := hc
    rw [render_clist d true op' cs gr bl ty hcf]
    cases cs with
    | nil => simp at hlen
    | cons c1 cs =>
      cases cs with
      | nil => simp at hlen
      | cons c2 cs =>
        simp only [renderList_cons, chain]
        exact rootIs_chainFrom _ _ _ _ (Or.inl (by simp))
  | unary op' e ty =>
    simp only [rootOp, Option.some.injEq] at hr; subst hr
    simp only [Core, Bool.and_eq_true] at hc
    have h1 := hc.1
    cases op' <;> simp [coreUn] at h1 <;> simp [coreInfix] at hi
  | col n ty => simp [rootOp] at hr
  | bind v ty => simp [rootOp] at hr
  | null => simp [rootOp] at hr
  | true_ => simp [rootOp] at hr
  | false_ => simp [rootOp] at hr
  | asbool e op n => simp [rootOp] at hr
  | grouping e => simp [rootOp] at hr
  | case_ v w e ty => simp [rootOp] at hr
  | cast e ty => simp [rootOp] at hr
  | func n a ty => simp [rootOp] at hr
  | subq n ty => simp [rootOp] at hr
  | inlist v ty eo => simp [rootOp] at hr
  | inrows r n eo => simp [rootOp] at hr
  | tuple_ es => simp [rootOp] at hr
  | litcol _ _ => simp [rootOp] at hr
  | ilikeOperand _ => simp [rootOp] at hr
  | absent => simp [rootOp] at hr

theorem precs (g : Grammar) (C : Compat g) :
    ∀ o, o ∈ coreInfix ∨ o ∈ corePrefix → (precedence o).isSome = true := by
  intro o h
  rcases h with h | h
  · obtain ⟨_, _, _, _, hp⟩ := C.inf_known o h; exact hp
  · obtain ⟨_, _, hp⟩ := C.pre_known o h; exact hp

/-- an operand of a concatenation that exposes no operator other than `||` itself -/
def catOpnd (c : SaExpr) : Bool :=
  match rootOp c with
  | none => true
  | some o => o = .concat_op

mutual
/-- **the F1 cells are excluded**: on a dialect that spells concatenation `a || b`, every operand
    of a concatenation is an atom, a bracket (parenthesised, function call, CASE, CAST) or a
    concatenation — no arithmetic operator is exposed under `||` -/
def ConcatSafe (d : Dialect) : SaExpr → Bool
  | .binary op l r _ _ _ =>
    (op != .concat_op || catFn d op || (catOpnd l && catOpnd r)) && ConcatSafe d l && ConcatSafe d r
  | .clist op cs _ _ _ =>
    (op != .concat_op || catFn d op || cs.all catOpnd) && ConcatSafeList d cs
  | .unary _ e _ => ConcatSafe d e
  | .grouping e => ConcatSafe d e
  | .func _ args _ => ConcatSafeList d args
  | .cast e _ => ConcatSafe d e
  | .case_ v ws e _ => ConcatSafe d v && ConcatSafeList d ws && ConcatSafe d e
  | _ => true
def ConcatSafeList (d : Dialect) : List SaExpr → Bool
  | [] => true
  | e :: es => ConcatSafe d e && ConcatSafeList d es
end

/-- the hypothesis about concatenations: the grammar reads every bare operand of `||` as
    SQLAlchemy intends (PostgreSQL), or the element avoids the F1 cells -/
def CSH (g : Grammar) (d : Dialect) (e : SaExpr) : Prop := concatFull g = true ∨ ConcatSafe d e = true

def CSHL (g : Grammar) (d : Dialect) (es : List SaExpr) : Prop :=
  concatFull g = true ∨ ConcatSafeList d es = true

theorem tight_catFn_root (g : Grammar) (d : Dialect) (k : Nat) (c : SaExpr) (cop : Op)
    (hc : Core c = true)
    (hr : rootOp c = some cop) (hcf : catFn d cop = true) : tight g k (render d true c) = true := by
  obtain ⟨ho, _⟩ := catFn_true hcf
  cases c <;> simp [rootOp] at hr
  · subst hr; rw [render_catFn_bin d true _ _ _ _ _ _ hcf]; rfl
  · subst hr; rw [render_catFn_list d true _ _ _ _ _ hcf]; rfl
  · subst hr; subst ho
    simp [Core, coreUn] at hc

/-- a child that `self_group` left bare under infix parent `op`: either it continues the chain
    of the same (naturally self-precedent) operator, or its rendering is tight on both sides -/
theorem child_under_infix (g : Grammar) (C : Compat g) (d : Dialect) (op : Op) (hi : op ∈ coreInfix)
    (lbp rbp : Nat) (hb : g.infixBp (symOf op) = some (lbp, rbp))
    (c : SaExpr) (hc : Core c = true) (hw : WG c = true) (hg : wouldGroup (some op) c = false)
    (hcc : op ≠ .concat_op ∨ concatFull g = true ∨ catOpnd c = true) :
    (naturalSelfPrecedent op = true ∧ rootIs (symOf op) (render d true c) = true) ∨
    (tight g (lbp + 1) (render d true c) = true ∧ tight g rbp (render d true c) = true) := by
  have hs : (precedence op).isSome = true := precs g C op (Or.inl hi)
  cases hr : rootOp c with
  | none => exact Or.inr ⟨tight_of_no_rootOp g d _ c hc hr, tight_of_no_rootOp g d _ c hc hr⟩
  | some cop =>
    have hnp := not_precedent_of_not_wouldGroup hc hr hg
    by_cases hle : precOf cop ≤ precOf op
    · obtain ⟨heq, hn⟩ := same_of_not_precedent_le hs hnp hle
      subst heq
      by_cases hcf : catFn d cop = true
      · exact Or.inr ⟨tight_catFn_root g d _ c cop hc hr hcf, tight_catFn_root g d _ c cop hc hr hcf⟩
      · exact Or.inl ⟨hn, rootIs_render_of_rootOp d cop c hc hr hi (C.nsp_assoc cop hi hn).1
          (by simpa using hcf)⟩
    · have hlt : precOf op < precOf cop := by omega
      have hab : above (precOf op) c = true :=
        above_of_WG (precs g C) c _ hc hw (rootAbove_of_rootOp (by
          intro cop' h'; rw [hr] at h'; cases h'; exact hlt))
      have hII : ∀ o ∈ coreInfix, precOf op < precOf o → lbp + 1 ≤ infBase g o ∧ rbp ≤ infBase g o := by
        intro o ho h
        by_cases he : op = .concat_op
        · subst he
          rcases hcc with h' | h' | h'
          · exact absurd rfl h'
          · exact concatFull_spec g h' o ho lbp rbp hb h
          · simp only [catOpnd, hr, decide_eq_true_eq] at h'
            subst h'
            omega
        · exact C.inf_inf op hi he o ho lbp rbp hb h
      refine Or.inr ⟨?_, ?_⟩
      · exact tight_render g C d _ (precOf op)
          (fun o ho h => (hII o ho h).1)
          (fun u hu h => (C.inf_pre op hi u hu lbp rbp hb h).1) c hc hab
      · exact tight_render g C d _ (precOf op)
          (fun o ho h => (hII o ho h).2)
          (fun u hu h => (C.inf_pre op hi u hu lbp rbp hb h).2) c hc hab

theorem child_under_prefix (g : Grammar) (C : Compat g) (d : Dialect) (op : Op) (hu : op ∈ corePrefix)
    (bp : Nat) (hb : g.prefixBp (symOf op) = some bp)
    (c : SaExpr) (hc : Core c = true) (hw : WG c = true) (hg : wouldGroup (some op) c = false) :
    tight g bp (render d true c) = true := by
  have hs : (precedence op).isSome = true := precs g C op (Or.inr hu)
  cases hr : rootOp c with
  | none => exact tight_of_no_rootOp g d _ c hc hr
  | some cop =>
    have hnp := not_precedent_of_not_wouldGroup hc hr hg
    by_cases hle : precOf cop ≤ precOf op
    · obtain ⟨heq, hn⟩ := same_of_not_precedent_le hs hnp hle
      subst heq
      have := C.pre_not_nsp cop hu
      rw [this] at hn
      cases hn
    · have hlt : precOf op < precOf cop := by omega
      have hab : above (precOf op) c = true :=
        above_of_WG (precs g C) c _ hc hw (rootAbove_of_rootOp (by
          intro cop' h'; rw [hr] at h'; cases h'; exact hlt))
      have hpb : preBase g op = bp := by simp [preBase, hb]
      exact tight_render g C d _ (precOf op)
        (fun o ho h => by have := C.pre_inf op hu o ho h; omega)
        (fun v hv h => by have := C.pre_pre op hu v hv h; omega) c hc hab

theorem notMid_core (g : Grammar) (C : Compat g) (f : Option Sym) (hf : f ≠ some .escape) :
    (∀ o ∈ coreInfix, btwOp o = false → notMidOf g f (symOf o) = true) := by
  intro o ho hnb
  obtain ⟨_, _, _, hq, _⟩ := C.inf_known o ho
  by_cases hl : likeOp o = true
  · obtain ⟨bp3, ht⟩ := C.like.tern o hl
    simp [notMidOf, ht, hf]
  · simp [notMidOf, hq (by simp [ternOp, hnb]; simpa using hl)]

/-- prefix symbols have no ternary form in the modelled grammars: stated as a hypothesis -/
def prefixNoTern (g : Grammar) : Prop := ∀ u ∈ corePrefix, g.ternBp (symOf u) = none

theorem ok_chainFrom (g : Grammar) (s : Sym) (t : String) (lbp rbp : Nat)
    (hb : g.infixBp s = some (lbp, rbp)) (ha : G.assocSym s = true) (hlt : lbp < rbp)
    (hq : g.ternBp s = none) :
    ∀ (gs : List G) (acc : G), ok g acc = true →
      (rootIs s acc = true ∨ (tight g rbp acc = true ∧ allExp (notMidOf g (some s)) acc = true)) →
      (∀ x ∈ gs, ok g x = true ∧
        (rootIs s x = true ∨ (tight g rbp x = true ∧ allExp (notMidOf g (some s)) x = true))) →
      ok g (chainFrom s t acc gs) = true
  | [], acc, hacc, _, _ => by simpa [chainFrom] using hacc
  | x :: gs, acc, hacc, hca, hx => by
    simp only [chainFrom]
    apply ok_chainFrom g s t lbp rbp hb ha hlt hq gs
    · obtain ⟨hox, hcx⟩ := hx x (by simp)
      simp only [ok, hb, ha, if_true, hacc, hox, Bool.true_and, Bool.and_eq_true, decide_eq_true_eq,
        Bool.or_eq_true, hq, Option.isNone_none]
      exact ⟨⟨⟨hlt, trivial⟩, hca⟩, hcx⟩
    · exact Or.inl (by simp [rootIs])
    · intro y hy; exact hx y (by simp [hy])

/-! ### separator chains inside brackets -/

theorem sep_not_assoc (s : Sym) (h : s.isSep = true) : G.assocSym s = false := by
  cases s <;> simp [Sym.isSep] at h <;> rfl

/-- facts about the separators of a grammar (from `Compat.sep`) -/
structure SepFacts (g : Grammar) (sl sr : Nat) : Prop where
  lt : sl < sr
  bp : ∀ s, s.isSep = true → g.infixBp s = some (sl, sr) ∧ g.ternBp s = none

/-- an operand of a separator: ok, binds tighter than the separators, swallows no middle symbol -/
def SepOpnd (g : Grammar) (sr : Nat) (x : G) : Prop :=
  ok g x = true ∧ tight g sr x = true ∧ ∀ s, s.isSep = true → allExp (notMidOf g (some s)) x = true

/-- the accumulated left part of a separator chain -/
def SepAcc (g : Grammar) (sl : Nat) (acc : G) : Prop :=
  ok g acc = true ∧ ∀ s, s.isSep = true →
    ((tight g (sl + 1) acc = true ∧ allExp (notMidOf g (some s)) acc = true) ∨ sepLeft g s sl acc = true)

theorem SepAcc_of_opnd {g : Grammar} {sl sr : Nat} (F : SepFacts g sl sr) {x : G} (h : SepOpnd g sr x) :
    SepAcc g sl x :=
  ⟨h.1, fun s hs => Or.inl ⟨tight_mono g (by have := F.lt; omega) x h.2.1, h.2.2 s hs⟩⟩

theorem SepAcc_step {g : Grammar} {sl sr : Nat} (F : SepFacts g sl sr) {acc x : G} (s : Sym) (t : String)
    (hs : s.isSep = true) (ha : SepAcc g sl acc) (hx : SepOpnd g sr x) :
    SepAcc g sl (G.inf s t acc x) := by
  obtain ⟨hb, hq⟩ := F.bp s hs
  refine ⟨?_, ?_⟩
  · simp only [ok, hb, sep_not_assoc s hs, Bool.false_eq_true, if_false, ha.1, hx.1, hq, hx.2.1,
      Bool.true_and, Bool.and_true, Bool.and_eq_true, Bool.or_eq_true]
    rcases ha.2 s hs with h | h
    · exact Or.inl h
    · exact Or.inr h
  · intro s' hs'
    right
    have hlt := F.lt
    simp only [sepLeft, hs', hs, sep_not_assoc s hs, hb, hq, Bool.not_false, Bool.true_and,
      Option.isNone_none, Bool.and_eq_true, decide_eq_true_eq]
    exact ⟨⟨⟨hlt, trivial⟩, tight_mono g (by omega) x hx.2.1⟩, hx.2.2 s' hs'⟩

theorem SepAcc_chainFrom {g : Grammar} {sl sr : Nat} (F : SepFacts g sl sr) (s : Sym) (t : String)
    (hs : s.isSep = true) : ∀ (gs : List G) (acc : G), SepAcc g sl acc →
      (∀ x ∈ gs, SepOpnd g sr x) → SepAcc g sl (chainFrom s t acc gs)
  | [], acc, ha, _ => by simpa [chainFrom] using ha
  | x :: gs, acc, ha, hx => by
    simp only [chainFrom]
    exact SepAcc_chainFrom F s t hs gs _ (SepAcc_step F s t hs ha (hx x (by simp)))
      (fun y hy => hx y (by simp [hy]))

theorem SepAcc_whenChain {g : Grammar} {sl sr : Nat} (F : SepFacts g sl sr) :
    ∀ (n : Nat) (gs : List G) (acc : G), gs.length ≤ n → SepAcc g sl acc →
      (∀ x ∈ gs, SepOpnd g sr x) → SepAcc g sl (whenChain acc gs)
  | 0, gs, acc, hn, ha, _ => by
    have : gs = [] := List.eq_nil_of_length_eq_zero (by omega)
    subst this
    simpa [whenChain] using ha
  | n + 1, [], acc, _, ha, _ => by simpa [whenChain] using ha
  | n + 1, [c], acc, _, ha, _ => by simpa [whenChain] using ha
  | n + 1, c :: r :: rest, acc, hn, ha, hx => by
    simp only [whenChain]
    apply SepAcc_whenChain F n rest _ (by simp at hn; omega)
    · exact SepAcc_step F .then_ " THEN " rfl
        (SepAcc_step F .when_ " WHEN " rfl ha (hx c (by simp))) (hx r (by simp))
    · intro y hy; exact hx y (by simp [hy])

theorem ok_chain_comma {g : Grammar} {sl sr : Nat} (F : SepFacts g sl sr) (gs : List G)
    (h : ∀ x ∈ gs, SepOpnd g sr x) : ok g (chain .comma ", " gs) = true := by
  cases gs with
  | nil => rfl
  | cons x xs =>
    simp only [chain]
    exact (SepAcc_chainFrom F .comma ", " rfl xs x (SepAcc_of_opnd F (h x (by simp)))
      (fun y hy => h y (by simp [hy]))).1

theorem ok_caseG {g : Grammar} {sl sr : Nat} (F : SepFacts g sl sr) (v : Option G) (ws : List G)
    (e : Option G) (hv : ∀ x, v = some x → SepOpnd g sr x) (hw : ∀ x ∈ ws, SepOpnd g sr x)
    (he : ∀ x, e = some x → SepOpnd g sr x) : ok g (caseG v ws e) = true := by
  have key : ∀ (k : Bracket) (b : G), SepAcc g sl b → ok g (caseEnd k b e) = true := by
    intro k b hb
    cases e with
    | none => simpa [caseEnd, ok] using hb.1
    | some eg =>
      simp only [caseEnd, ok]
      exact (SepAcc_step F .else_ " ELSE " rfl hb (he eg rfl)).1
  unfold caseG
  cases v with
  | none =>
    cases ws with
    | nil => rfl
    | cons c ws =>
      cases ws with
      | nil => rfl
      | cons r rest =>
        simp only [caseBody]
        apply key
        apply SepAcc_whenChain F rest.length rest _ (Nat.le_refl _)
        · exact SepAcc_step F .then_ " THEN " rfl (SepAcc_of_opnd F (hw c (by simp))) (hw r (by simp))
        · intro y hy; exact hw y (by simp [hy])
  | some vg =>
    simp only [caseBody]
    apply key
    exact SepAcc_whenChain F ws.length ws _ (Nat.le_refl _) (SepAcc_of_opnd F (hv vg rfl)) hw

theorem ok_castG {g : Grammar} {sl sr : Nat} (F : SepFacts g sl sr) (name : Option String) (grp : Bool)
    (x : G) (hx : SepOpnd g sr x) : ok g (castG name grp x) = true := by
  unfold castG
  cases name with
  | some n =>
    simp only [ok]
    have hat : SepOpnd g sr (opaqueG n) := ⟨rfl, rfl, fun _ _ => rfl⟩
    exact (SepAcc_step F .as_ " AS " rfl (SepAcc_of_opnd F hx) hat).1
  | none =>
    cases grp with
    | true => simpa [ok] using hx.1
    | false => simpa using hx.1

theorem ok_litList (g : Grammar) {sl sr : Nat} (F : SepFacts g sl sr) (d : Dialect) (lb : Bool)
    (vs : List Lit) : ok g (litListG d lb vs) = true := by
  unfold litListG
  apply ok_chain_comma F
  intro x hx
  simp only [List.mem_map] at hx
  obtain ⟨v, _, hv⟩ := hx
  subst hv
  exact ⟨rfl, rfl, fun _ _ => rfl⟩

theorem inOp_not_like {op : Op} (h : inOp op = true) : likeOp op = false := by
  cases op <;> simp [inOp] at h <;> rfl

theorem inOp_ne_concat {op : Op} (h : inOp op = true) : op ≠ .concat_op := by
  cases op <;> simp [inOp] at h <;> simp

theorem rootOp_mem {c : SaExpr} {cop : Op} (hc : Core c = true) (h : rootOp c = some cop) :
    cop ∈ coreInfix ∨ cop ∈ corePrefix := by
  cases c <;> simp [rootOp] at h <;> subst h
  · exact Or.inl (core_binary_mem hc)
  · simp only [Core, Bool.and_eq_true] at hc
    exact Or.inl (coreList_mem hc.1.1.1)
  · simp only [Core, Bool.and_eq_true] at hc
    exact Or.inr (coreUn_mem hc.1)

/-- every operator of a well grouped core element lies above the bottom of the precedence scale -/
theorem above_bottom (g : Grammar) (C : Compat g) (c : SaExpr) (hc : Core c = true) (hw : WG c = true) :
    above (opSmallest - 1) c = true := by
  apply above_of_WG (precs g C) c _ hc hw
  apply rootAbove_of_rootOp
  intro cop h
  rcases rootOp_mem hc h with hm | hm
  · exact C.bottom.1 cop hm
  · exact C.bottom.2 cop hm

/-- the rendering of any well grouped core element is a valid operand of a separator -/
theorem sepOpnd_render (g : Grammar) (C : Compat g) (hpt : prefixNoTern g) (d : Dialect) (sr : Nat)
    (hi : ∀ o ∈ coreInfix, sr ≤ infBase g o) (hp : ∀ u ∈ corePrefix, sr ≤ preBase g u)
    (c : SaExpr) (hc : Core c = true) (hw : WG c = true) (hok : ok g (render d true c) = true) :
    SepOpnd g sr (render d true c) := by
  refine ⟨hok, ?_, ?_⟩
  · exact tight_render g C d sr (opSmallest - 1) (fun o ho _ => hi o ho) (fun u hu _ => hp u hu) c hc
      (above_bottom g C c hc hw)
  · intro s hs
    exact allExp_render d _ (notMid_core g C _ (by
      intro h; cases h; simp [Sym.isSep] at hs)) (fun u hu => by simp [notMidOf, hpt u hu]) c hc

/-- a child left bare under a parent that is not naturally self-precedent lies strictly above it -/
theorem child_above (g : Grammar) (C : Compat g) (op : Op) (hi : op ∈ coreInfix)
    (hnn : naturalSelfPrecedent op = false) (c : SaExpr) (hc : Core c = true) (hw : WG c = true)
    (hg : wouldGroup (some op) c = false) : above (precOf op) c = true := by
  have hs : (precedence op).isSome = true := precs g C op (Or.inl hi)
  apply above_of_WG (precs g C) c _ hc hw
  apply rootAbove_of_rootOp
  intro cop hr
  have hnp := not_precedent_of_not_wouldGroup hc hr hg
  by_cases hle : precOf cop ≤ precOf op
  · obtain ⟨heq, hn⟩ := same_of_not_precedent_le hs hnp hle
    subst heq
    rw [hnn] at hn; cases hn
  · omega

theorem ok_slash (g : Grammar) (lbp rbp : Nat) (hb : g.infixBp .slash = some (lbp, rbp))
    (hq : g.ternBp .slash = none) (L X : G) (okL : ok g L = true) (okX : ok g X = true)
    (tL : tight g (lbp + 1) L = true) (nmL : allExp (notMidOf g (some .slash)) L = true)
    (tX : tight g rbp X = true) : ok g (G.inf .slash " / " L X) = true := by
  have ha : G.assocSym .slash = false := rfl
  simp [ok, hb, ha, okL, okX, hq, tL, nmL, tX]

/-- `R + 0.0` where everything exposed in `R` binds tighter than `+` -/
theorem ok_plus_zero (g : Grammar) (C : Compat g) (R : G) (okR : ok g R = true)
    (tR : ∀ lbpP rbpP, g.infixBp .plus = some (lbpP, rbpP) → tight g rbpP R = true)
    (nmR : allExp (notMidOf g (some .plus)) R = true) :
    ok g (G.inf .plus " + " R zeroAtom) = true := by
  have hi : Op.add ∈ coreInfix := by simp [coreInfix]
  have ha : G.assocSym (symOf .add) = true := rfl
  obtain ⟨_, lbpP, rbpP, hbP, hlt⟩ := C.nsp_assoc .add hi (C.assoc_nsp .add hi ha)
  obtain ⟨_, _, hbP', hqP, _⟩ := C.inf_known .add hi
  have hbP2 : g.infixBp .plus = some (lbpP, rbpP) := hbP
  have hqP2 : g.ternBp .plus = none := hqP rfl
  have ha2 : G.assocSym .plus = true := rfl
  simp [ok, hbP2, ha2, okR, hqP2, hlt, tR lbpP rbpP hbP2, nmR, zeroAtom, tight, allExp]

theorem coreBinD_not_nsp_div (g : Grammar) (C : Compat g) {op : Op} (hdiv : coreDiv op = true) :
    naturalSelfPrecedent op = false := by
  cases hh : naturalSelfPrecedent op with
  | false => rfl
  | true =>
    have := (C.nsp_assoc op (coreDiv_mem hdiv) hh).1
    rw [symOf_div hdiv] at this
    cases this

theorem optG_some {e : SaExpr} {g x : G} (h : optG e g = some x) : x = g ∧ isAbsent e = false := by
  cases e <;> simp [optG] at h <;> exact ⟨h.symm, rfl⟩

theorem wgAll_of_wgList (op : Op) : ∀ cs : List SaExpr, WGList op cs = true → WGAll cs = true
  | [], _ => rfl
  | c :: cs, h => by
    simp only [WGList, Bool.and_eq_true] at h
    simp [WGAll, h.1.2, wgAll_of_wgList op cs h.2]

theorem csh_binary {g : Grammar} {d : Dialect} {op : Op} {l r : SaExpr} {n : Option Op}
    {esc : Option String} {ty : Ty} (h : CSH g d (.binary op l r n esc ty)) :
    CSH g d l ∧ CSH g d r ∧
      (catFn d op = false → (op ≠ .concat_op ∨ concatFull g = true ∨ catOpnd l = true) ∧
        (op ≠ .concat_op ∨ concatFull g = true ∨ catOpnd r = true)) := by
  rcases h with h | h
  · exact ⟨Or.inl h, Or.inl h, fun _ => ⟨Or.inr (Or.inl h), Or.inr (Or.inl h)⟩⟩
  · simp only [ConcatSafe, Bool.and_eq_true, Bool.or_eq_true, bne_iff_ne, ne_eq] at h
    refine ⟨Or.inr h.1.2, Or.inr h.2, ?_⟩
    intro hcf
    rcases h.1.1 with (h1 | h1) | h1
    · exact ⟨Or.inl h1, Or.inl h1⟩
    · rw [hcf] at h1; cases h1
    · exact ⟨Or.inr (Or.inr h1.1), Or.inr (Or.inr h1.2)⟩

theorem csh_clist {g : Grammar} {d : Dialect} {op : Op} {cs : List SaExpr} {gr bl : Bool}
    {ty : Ty} (h : CSH g d (.clist op cs gr bl ty)) :
    CSHL g d cs ∧
      (catFn d op = false → ∀ c ∈ cs, op ≠ .concat_op ∨ concatFull g = true ∨ catOpnd c = true) := by
  rcases h with h | h
  · exact ⟨Or.inl h, fun _ c _ => Or.inr (Or.inl h)⟩
  · simp only [ConcatSafe, Bool.and_eq_true, Bool.or_eq_true, bne_iff_ne, ne_eq, List.all_eq_true] at h
    refine ⟨Or.inr h.2, ?_⟩
    intro hcf c hc
    rcases h.1 with (h1 | h1) | h1
    · exact Or.inl h1
    · rw [hcf] at h1; cases h1
    · exact Or.inr (Or.inr (h1 c hc))

theorem cshl_cons {g : Grammar} {d : Dialect} {c : SaExpr} {cs : List SaExpr} (h : CSHL g d (c :: cs)) :
    CSH g d c ∧ CSHL g d cs := by
  rcases h with h | h
  · exact ⟨Or.inl h, Or.inl h⟩
  · simp only [ConcatSafeList, Bool.and_eq_true] at h
    exact ⟨Or.inr h.1, Or.inr h.2⟩

theorem csh_sub {g : Grammar} {d : Dialect} {e e' : SaExpr}
    (h : CSH g d e) (hs : ConcatSafe d e = true → ConcatSafe d e' = true) : CSH g d e' := by
  rcases h with h | h
  · exact Or.inl h
  · exact Or.inr (hs h)

theorem csh_subl {g : Grammar} {d : Dialect} {e : SaExpr} {es : List SaExpr}
    (h : CSH g d e) (hs : ConcatSafe d e = true → ConcatSafeList d es = true) : CSHL g d es := by
  rcases h with h | h
  · exact Or.inl h
  · exact Or.inr (hs h)

mutual
/-- **ok_render**: every well grouped element of the fragment renders to an `ok` token tree -/
theorem ok_render (g : Grammar) (C : Compat g) (hpt : prefixNoTern g) (d : Dialect) :
    ∀ e : SaExpr, Core e = true → WG e = true → CSH g d e → ok g (render d true e) = true
  | .col _ _, _, _, _ => rfl
  | .bind _ _, _, _, _ => rfl
  | .null, _, _, _ => rfl
  | .true_, _, _, _ => rfl
  | .false_, _, _, _ => rfl
  | .grouping e, hc, hw, hs => by
    rw [render_grouping]
    simp only [ok]
    exact ok_render g C hpt d e (by simpa [Core] using hc) (by simpa [WG] using hw)
      (csh_sub hs (by simp [ConcatSafe]))
  | .binary op l r n esc ty, hc, hw, hs => by
    obtain ⟨hcl, hk⟩ := core_binary hc
    simp only [WG, Bool.and_eq_true, Bool.not_eq_true'] at hw
    obtain ⟨⟨⟨hgl, hgr⟩, hwl⟩, hwr⟩ := hw
    obtain ⟨hsl, hsr, hcat⟩ := csh_binary hs
    have okl := ok_render g C hpt d l hcl hwl hsl
    rcases hk with ⟨hop, _, hcr⟩ | ⟨hlk, cl, cr, hcr⟩ | ⟨hin, _, hir⟩ | ⟨hbo, _, hbr⟩
    case inr.inr.inr =>
      -- `x BETWEEN lo AND hi` / `x NOT BETWEEN lo AND hi`
      obtain ⟨lo, hi', cty, he, hclo, hchi, alo, ahi⟩ := coreBtw_cases hbr
      subst he
      have hi := btwOp_mem hbo
      obtain ⟨lbp, rbp, hb, _, _⟩ := C.inf_known op hi
      obtain ⟨bp3, hq⟩ := C.btw.tern op hbo
      have hnc : op ≠ .concat_op := by cases op <;> simp [btwOp] at hbo <;> simp
      have hpo := btwOp_prec hbo
      simp only [WG, WGList, Bool.and_eq_true, Bool.not_eq_true', Bool.and_true] at hwr
      obtain ⟨⟨_, hwlo⟩, ⟨_, hwhi⟩⟩ := hwr
      have hsl2 : CSHL g d [lo, hi'] := csh_subl hsr (by simp [ConcatSafe])
      obtain ⟨hslo, hsr2⟩ := cshl_cons hsl2
      obtain ⟨hshi, _⟩ := cshl_cons hsr2
      have oklo := ok_render g C hpt d lo hclo hwlo hslo
      have okhi := ok_render g C hpt d hi' hchi hwhi hshi
      have chl := child_under_infix g C d op hi lbp rbp hb l hcl hwl hgl (Or.inl hnc)
      have ha : G.assocSym (symOf op) = false := by
        cases op <;> simp [btwOp] at hbo <;> rfl
      have hnn : naturalSelfPrecedent op = false := by
        cases hh : naturalSelfPrecedent op with
        | false => rfl
        | true => have := (C.nsp_assoc op hi hh).1; rw [ha] at this; cases this
      have tl : tight g (lbp + 1) (render d true l) = true := by
        rcases chl with h | h
        · rw [hnn] at h; cases h.1
        · exact h.1
      have nml := allExp_render d (notMidOf g (some (symOf op)))
        (notMid_core g C _ (by simp [symOf_ne_escape]))
        (fun u hu => by simp [notMidOf, hpt u hu]) l hcl
      have tlo : tight g rbp (render d true lo) = true :=
        tight_render g C d rbp (precOf .between_op)
          (fun o ho h => (C.inf_inf op hi hnc o ho lbp rbp hb (by rw [hpo]; exact h)).2)
          (fun u hu h => (C.inf_pre op hi u hu lbp rbp hb (by rw [hpo]; exact h)).2) lo hclo alo
      have nmlo := allExp_render d (notMidOf g (some .and_)) (notMid_core g C _ (by simp))
        (fun u hu => by simp [notMidOf, hpt u hu]) lo hclo
      have thi : tight g bp3 (render d true hi') = true :=
        tight_render g C d bp3 (precOf .between_op)
          (fun o ho h => C.btw.hi_inf op hbo bp3 hq o ho h)
          (fun u hu h => C.btw.hi_pre op hbo bp3 hq u hu h) hi' hchi ahi
      have hst := C.btw.stop op hbo lbp rbp hb
      obtain ⟨t, heq⟩ := render_btw d true op l lo hi' cty n esc ty hbo
      rw [heq]
      simp [ok, hb, hq, okl, oklo, okhi, tl, nml, tlo, nmlo, hst, thi]
    case inr.inr.inl =>
      -- `x IN (v₁, …)` / `(x NOT IN (v₁, …))`
      obtain ⟨vs, lty, he, hne⟩ := inRight_cases hir
      subst he
      have hi := inOp_mem hin
      obtain ⟨lbp, rbp, hb, hq', _⟩ := C.inf_known op hi
      have hq := hq' (by simp [ternOp, inOp_not_like hin, inOp_not_btw hin])
      obtain ⟨sl, sr, hlt, hbp, _, _⟩ := C.sep
      have F : SepFacts g sl sr := ⟨hlt, hbp⟩
      have chl := child_under_infix g C d op hi lbp rbp hb l hcl hwl hgl (Or.inl (inOp_ne_concat hin))
      have nml := allExp_render d (notMidOf g (some (symOf op))) (notMid_core g C _ (by simp [symOf_ne_escape]))
        (fun u hu => by simp [notMidOf, hpt u hu]) l hcl
      have ha : G.assocSym (symOf op) = false := by
        cases op <;> simp [inOp] at hin <;> rfl
      have hnn : naturalSelfPrecedent op = false := by
        cases hh : naturalSelfPrecedent op with
        | false => rfl
        | true => have := (C.nsp_assoc op hi hh).1; rw [ha] at this; cases this
      have tl : tight g (lbp + 1) (render d true l) = true := by
        rcases chl with h | h
        · rw [hnn] at h; cases h.1
        · exact h.1
      have okL := ok_litList g F d true vs
      rw [render_inNode d true op l vs lty n esc ty hin hne]
      cases op <;> simp [inOp] at hin
      · have hb2 : g.infixBp .in_ = some (lbp, rbp) := hb
        have hq2 : g.ternBp .in_ = none := hq
        have ha2 : G.assocSym .in_ = false := rfl
        have nm2 : allExp (notMidOf g (some .in_)) (render d true l) = true := nml
        simp [ok, hb2, ha2, hq2, okl, okL, tl, nm2, tight]
      · have hb2 : g.infixBp .notIn = some (lbp, rbp) := hb
        have hq2 : g.ternBp .notIn = none := hq
        have ha2 : G.assocSym .notIn = false := rfl
        have nm2 : allExp (notMidOf g (some .notIn)) (render d true l) = true := nml
        simp [ok, hb2, ha2, hq2, okl, okL, tl, nm2, tight]
    case inr.inl =>
      have okr := ok_render g C hpt d r hcr hwr hsr
      -- the LIKE family over closed operands
      obtain ⟨lbp, rbp, bp3, hb, hq, _, _, ha⟩ := like_facts g C d op hlk
      obtain ⟨t, heq⟩ := render_like d true op l r n esc ty hlk
      rw [heq]
      exact ok_likeG g d _ t _ _ esc lbp rbp bp3 hb hq ha C.like.esc_none
        (closedG_likeWrap _ _ _ (closedG_render d l hcl (closedE_none cl)))
        (closedG_likeWrap _ _ _ (closedG_render d r hcr (closedE_none cr)))
        (ok_likeWrap g d op _ okl) (ok_likeWrap g d op _ okr)
    have okr := ok_render g C hpt d r hcr hwr hsr
    have hi := coreBinD_mem hop
    obtain ⟨lbp, rbp, hb, hq', _⟩ := C.inf_known op hi
    have hq := hq' (by simp [ternOp, coreBinD_not_like hop, coreBinD_not_btw hop])
    obtain ⟨sl, sr, hlt, hbp, hsi, hsp⟩ := C.sep
    have F : SepFacts g sl sr := ⟨hlt, hbp⟩
    by_cases hcf : catFn d op = true
    · -- MySQL: `concat(l, r)`
      rw [render_catFn_bin d true op l r n esc ty hcf]
      show ok g (G.inf .comma ", " (render d true l) (render d true r)) = true
      have := ok_chain_comma F [render d true l, render d true r] (by
        intro x hx
        simp only [List.mem_cons, List.mem_nil_iff, or_false] at hx
        rcases hx with hx | hx
        · subst hx; exact sepOpnd_render g C hpt d sr hsi hsp l hcl hwl okl
        · subst hx; exact sepOpnd_render g C hpt d sr hsi hsp r hcr hwr okr)
      simpa [chain, chainFrom] using this
    have hcf' : catFn d op = false := by simpa using hcf
    obtain ⟨hccl, hccr⟩ := hcat hcf'
    have chl := child_under_infix g C d op hi lbp rbp hb l hcl hwl hgl hccl
    have chr := child_under_infix g C d op hi lbp rbp hb r hcr hwr hgr hccr
    have nml := allExp_render d (notMidOf g (some (symOf op))) (notMid_core g C _ (by simp [symOf_ne_escape]))
      (fun u hu => by simp [notMidOf, hpt u hu]) l hcl
    have nmr := allExp_render d (notMidOf g (some (symOf op))) (notMid_core g C _ (by simp [symOf_ne_escape]))
      (fun u hu => by simp [notMidOf, hpt u hu]) r hcr
    rcases coreBinD_cases hop with hop' | hdiv
    · obtain ⟨txt, heq⟩ := render_coreBin d true op l r n esc ty hop' hcf'
      rw [heq]
      by_cases ha : G.assocSym (symOf op) = true
      · have hn := C.assoc_nsp op hi ha
        obtain ⟨_, lbp', rbp', hb', hlt⟩ := C.nsp_assoc op hi hn
        rw [hb] at hb'; cases hb'
        simp only [ok, hb, ha, if_true, okl, okr, Bool.true_and, Bool.and_eq_true, decide_eq_true_eq,
          Bool.or_eq_true, hq, Option.isNone_none]
        refine ⟨⟨⟨hlt, trivial⟩, ?_⟩, ?_⟩
        · rcases chl with h | h
          · exact Or.inl h.2
          · exact Or.inr ⟨h.2, nml⟩
        · rcases chr with h | h
          · exact Or.inl h.2
          · exact Or.inr ⟨h.2, nmr⟩
      · have ha' : G.assocSym (symOf op) = false := by simpa using ha
        have hnn : naturalSelfPrecedent op = false := by
          cases hh : naturalSelfPrecedent op with
          | false => rfl
          | true => exact absurd (C.nsp_assoc op hi hh).1 ha
        simp only [ok, hb, ha', Bool.false_eq_true, if_false, okl, okr, Bool.true_and, hq,
          Bool.and_eq_true, Bool.or_eq_true]
        rcases chl with h | h
        · rw [hnn] at h; cases h.1
        · rcases chr with h' | h'
          · rw [hnn] at h'; cases h'.1
          · exact ⟨Or.inl ⟨h.1, nml⟩, h'.2⟩
    · -- the two divisions
      have hnn := coreBinD_not_nsp_div g C hdiv
      have hsl' := symOf_div hdiv
      rw [hsl'] at hb hq nml
      have tl : tight g (lbp + 1) (render d true l) = true := by
        rcases chl with h | h
        · rw [hnn] at h; cases h.1
        · exact h.1
      have tr : tight g rbp (render d true r) = true := by
        rcases chr with h | h
        · rw [hnn] at h; cases h.1
        · exact h.2
      have plain : ok g (G.inf .slash " / " (render d true l) (render d true r)) = true :=
        ok_slash g lbp rbp hb hq _ _ okl okr tl nml tr
      have sR := sepOpnd_render g C hpt d sr hsi hsp r hcr hwr okr
      cases op <;> simp [coreDiv] at hdiv
      · -- truediv
        show ok g (truedivG d (render d true l) (render d true r)) = true
        unfold truedivG
        split
        · apply ok_slash g lbp rbp hb hq _ _ okl _ tl nml rfl
          simp only [ok]
          apply ok_plus_zero g C _ okr
          · intro lbpP rbpP hbP
            have hab := child_above g C .truediv hi hnn r hcr hwr hgr
            have hia : Op.add ∈ coreInfix := by simp [coreInfix]
            have hne : Op.add ≠ Op.concat_op := by decide
            exact tight_render g C d rbpP (precOf .truediv)
              (fun o ho h => (C.inf_inf .add hia hne o ho lbpP rbpP hbP (by have := C.add_div; omega)).2)
              (fun u hu h => (C.inf_pre .add hia u hu lbpP rbpP hbP (by have := C.add_div; omega)).2)
              r hcr hab
          · exact allExp_render d _ (notMid_core g C _ (by simp [symOf_ne_escape])) (fun u hu => by simp [notMidOf, hpt u hu]) r hcr
        · split
          · apply ok_slash g lbp rbp hb hq _ _ okl _ tl nml rfl
            exact ok_castG F (some _) false _ sR
          · exact plain
      · -- floordiv
        show ok g (floordivG d (SaExpr.tyOf l) (SaExpr.tyOf r) (render d true l) (render d true r)) = true
        unfold floordivG
        split
        · exact plain
        · simpa [ok] using plain
  | .unary op e ty, hc, hw, hs => by
    simp only [Core, Bool.and_eq_true] at hc
    simp only [WG, Bool.and_eq_true, Bool.not_eq_true'] at hw
    have hu := coreUn_mem hc.1
    obtain ⟨bp, hb, _⟩ := C.pre_known op hu
    rw [render_unary]
    simp only [ok, hb, Bool.and_eq_true]
    exact ⟨ok_render g C hpt d e hc.2 hw.2 (csh_sub hs (by simp [ConcatSafe])),
      child_under_prefix g C d op hu bp hb e hc.2 hw.2 hw.1⟩
  | .clist op cs gr bl ty, hc, hw, hs => by
    simp only [Core, Bool.and_eq_true, decide_eq_true_eq] at hc
    obtain ⟨⟨⟨hop, _⟩, hlen⟩, hcs⟩ := hc
    simp only [WG] at hw
    obtain ⟨hsl, hcat⟩ := csh_clist hs
    have hi := coreList_mem hop
    obtain ⟨lbp, rbp, hb, hq, _⟩ := C.inf_known op hi
    by_cases hcf : catFn d op = true
    · obtain ⟨sl, sr, hlt, hbp, hsi, hsp⟩ := C.sep
      have F : SepFacts g sl sr := ⟨hlt, hbp⟩
      rw [render_catFn_list d true op cs gr bl ty hcf]
      simp only [ok]
      exact ok_chain_comma F _ (sepOpnd_renderAll g C hpt d sr hsi hsp cs hcs (wgAll_of_wgList op cs hw) hsl)
    have hcf' : catFn d op = false := by simpa using hcf
    rw [render_clist d true op cs gr bl ty hcf']
    have hall := ok_renderList g C hpt d op hi lbp rbp hb cs hcs hw hsl (hcat hcf')
    -- the chain operators of the fragment's lists are associative symbols of the backend
    have ha : G.assocSym (symOf op) = true := by
      cases op <;> simp [coreList] at hop <;> rfl
    have hnsp := C.assoc_nsp op hi ha
    obtain ⟨_, lbp', rbp', hb', hlt⟩ := C.nsp_assoc op hi hnsp
    rw [hb] at hb'; cases hb'
    cases hcs' : renderList d true cs with
    | nil => rfl
    | cons x xs =>
      simp only [chain]
      rw [hcs'] at hall
      obtain ⟨hox, hcx⟩ := hall x (by simp)
      exact ok_chainFrom g _ _ lbp rbp hb ha hlt
        (hq (by simp [ternOp, coreList_not_like hop, coreList_not_btw hop])) xs x hox hcx
        (fun y hy => hall y (by simp [hy]))
  | .asbool _ _ _, hc, _, _ => by simp [Core] at hc
  | .subq _ _, _, _, _ => rfl
  | .func n args ty, hc, hw, hs => by
    obtain ⟨sl, sr, hlt, hbp, hi, hp⟩ := C.sep
    have F : SepFacts g sl sr := ⟨hlt, hbp⟩
    have hca : CoreList args = true := by simp only [Core, Bool.and_eq_true] at hc; exact hc.2
    have hwa : WGAll args = true := by simpa [WG] using hw
    rw [render_func]
    simp only [ok]
    exact ok_chain_comma F _ (sepOpnd_renderAll g C hpt d sr hi hp args hca hwa
      (csh_subl hs (by simp [ConcatSafe])))
  | .cast e ty, hc, hw, hs => by
    obtain ⟨sl, sr, hlt, hbp, hi, hp⟩ := C.sep
    have F : SepFacts g sl sr := ⟨hlt, hbp⟩
    have hce : Core e = true := by simpa [Core] using hc
    have hwe : WG e = true := by simpa [WG] using hw
    rw [render_cast]
    exact ok_castG F _ _ _ (sepOpnd_render g C hpt d sr hi hp e hce hwe
      (ok_render g C hpt d e hce hwe (csh_sub hs (by simp [ConcatSafe]))))
  | .case_ v ws e ty, hc, hw, hs => by
    obtain ⟨sl, sr, hlt, hbp, hi, hp⟩ := C.sep
    have F : SepFacts g sl sr := ⟨hlt, hbp⟩
    simp only [Core, Bool.and_eq_true, Bool.or_eq_true] at hc
    obtain ⟨⟨⟨⟨hcv, hcw⟩, _⟩, _⟩, hce⟩ := hc
    simp only [WG, Bool.and_eq_true] at hw
    obtain ⟨⟨hwv, hww⟩, hwe⟩ := hw
    have hsv : CSH g d v := csh_sub hs (by simp only [ConcatSafe, Bool.and_eq_true]; exact fun h => h.1.1)
    have hsw : CSHL g d ws := csh_subl hs (by simp only [ConcatSafe, Bool.and_eq_true]; exact fun h => h.1.2)
    have hse : CSH g d e := csh_sub hs (by simp only [ConcatSafe, Bool.and_eq_true]; exact fun h => h.2)
    rw [render_case]
    apply ok_caseG F
    · intro x hx
      obtain ⟨hxe, hna⟩ := optG_some hx
      subst hxe
      have hcv' : Core v = true := by
        rcases hcv with h | h
        · rw [hna] at h; cases h
        · exact h
      exact sepOpnd_render g C hpt d sr hi hp v hcv' hwv (ok_render g C hpt d v hcv' hwv hsv)
    · exact sepOpnd_renderAll g C hpt d sr hi hp ws hcw hww hsw
    · intro x hx
      obtain ⟨hxe, hna⟩ := optG_some hx
      subst hxe
      have hce' : Core e = true := by
        rcases hce with h | h
        · rw [hna] at h; cases h
        · exact h
      exact sepOpnd_render g C hpt d sr hi hp e hce' hwe (ok_render g C hpt d e hce' hwe hse)
  | .inlist _ _ _, hc, _, _ => by simp [Core] at hc
  | .inrows _ _ _, hc, _, _ => by simp [Core] at hc
  | .tuple_ _, hc, _, _ => by simp [Core] at hc
  | .litcol _ _, hc, _, _ => by simp [Core] at hc
  | .ilikeOperand _, hc, _, _ => by simp [Core] at hc
  | .absent, hc, _, _ => by simp [Core] at hc

theorem sepOpnd_renderAll (g : Grammar) (C : Compat g) (hpt : prefixNoTern g) (d : Dialect) (sr : Nat)
    (hi : ∀ o ∈ coreInfix, sr ≤ infBase g o) (hp : ∀ u ∈ corePrefix, sr ≤ preBase g u) :
    ∀ cs : List SaExpr, CoreList cs = true → WGAll cs = true → CSHL g d cs →
      ∀ x ∈ renderList d true cs, SepOpnd g sr x
  | [], _, _, _ => by intro x hx; simp [renderList_nil] at hx
  | c :: cs, hc, hw, hs => by
    simp only [CoreList, Bool.and_eq_true] at hc
    simp only [WGAll, Bool.and_eq_true] at hw
    obtain ⟨hs1, hs2⟩ := cshl_cons hs
    intro x hx
    rw [renderList_cons] at hx
    simp only [List.mem_cons] at hx
    rcases hx with hx | hx
    · subst hx
      exact sepOpnd_render g C hpt d sr hi hp c hc.1 hw.1 (ok_render g C hpt d c hc.1 hw.1 hs1)
    · exact sepOpnd_renderAll g C hpt d sr hi hp cs hc.2 hw.2 hs2 x hx

theorem ok_renderList (g : Grammar) (C : Compat g) (hpt : prefixNoTern g) (d : Dialect)
    (op : Op) (hi : op ∈ coreInfix) (lbp rbp : Nat) (hb : g.infixBp (symOf op) = some (lbp, rbp)) :
    ∀ cs : List SaExpr, CoreList cs = true → WGList op cs = true → CSHL g d cs →
      (∀ c ∈ cs, op ≠ .concat_op ∨ concatFull g = true ∨ catOpnd c = true) →
      ∀ x ∈ renderList d true cs, ok g x = true ∧
        (rootIs (symOf op) x = true ∨
          (tight g rbp x = true ∧ allExp (notMidOf g (some (symOf op))) x = true))
  | [], _, _, _, _ => by intro x hx; simp [renderList_nil] at hx
  | c :: cs, hc, hw, hs, hcc => by
    simp only [CoreList, Bool.and_eq_true] at hc
    simp only [WGList, Bool.and_eq_true, Bool.not_eq_true'] at hw
    obtain ⟨hs1, hs2⟩ := cshl_cons hs
    intro x hx
    rw [renderList_cons] at hx
    simp only [List.mem_cons] at hx
    rcases hx with hx | hx
    · subst hx
      refine ⟨ok_render g C hpt d c hc.1 hw.1.2 hs1, ?_⟩
      have nm := allExp_render d (notMidOf g (some (symOf op))) (notMid_core g C _ (by simp [symOf_ne_escape]))
        (fun u hu => by simp [notMidOf, hpt u hu]) c hc.1
      rcases child_under_infix g C d op hi lbp rbp hb c hc.1 hw.1.2 hw.1.1 (hcc c (by simp)) with h | h
      · exact Or.inl h.2
      · exact Or.inr ⟨h.2, nm⟩
    · exact ok_renderList g C hpt d op hi lbp rbp hb cs hc.2 hw.2 hs2
        (fun y hy => hcc y (by simp [hy])) x hx
end

end SaVerif.Expr

namespace SaVerif.Expr
open SaVerif.Expr.Gen SaVerif.Pratt

/-! ### the constructors establish `WG` -/

/-- contexts in which `ColumnElement.self_group` wraps a Boolean-typed element in `AsBoolean` -/
def boolCtx (a : Op) : Bool := a = .and_ || a = .or_ || a = .asbool_

def NonAtom : SaExpr → Bool
  | .binary _ _ _ _ _ _ => true
  | .clist _ _ _ _ _ => true
  | .unary _ _ _ => true
  | .grouping _ => true
  | _ => false

/-- `x.self_group(against=a)` of a well grouped core element is `x` or `Grouping(x)`, is in the
    fragment, well grouped, and would not be grouped again (idempotence) -/
theorem selfGroup_core (a : Op) (x : SaExpr) (hc : Core x = true) (hw : WG x = true)
    (h : boolCtx a = false ∨ NonAtom x = true) :
    Core (selfGroup (some a) x) = true ∧ WG (selfGroup (some a) x) = true ∧
      wouldGroup (some a) (selfGroup (some a) x) = false := by
  unfold selfGroup
  by_cases hg : wouldGroup (some a) x = true
  · simp only [hg, if_true]
    exact ⟨by simpa [Core] using hc, by simpa [WG] using hw, by simp [wouldGroup]⟩
  · have hg' : wouldGroup (some a) x = false := by simpa using hg
    simp only [hg', Bool.false_eq_true, if_false]
    have hcol : columnSelfGroup (some a) x = x ∨ NonAtom x = true := by
      rcases h with h | h
      · left
        simp only [boolCtx, Bool.or_eq_false_iff, decide_eq_false_iff_not] at h
        simp [columnSelfGroup, h.1.1, h.1.2, h.2]
      · exact Or.inr h
    cases x with
    | binary op l r n esc ty => exact ⟨hc, hw, hg'⟩
    | clist op cs gr bl ty => exact ⟨hc, hw, hg'⟩
    | unary op e ty => exact ⟨hc, hw, hg'⟩
    | grouping e => exact ⟨hc, hw, hg'⟩
    | col n ty => rcases hcol with h' | h' <;> simp_all [NonAtom]
    | bind v ty => rcases hcol with h' | h' <;> simp_all [NonAtom]
    | null => rcases hcol with h' | h' <;> simp_all [NonAtom]
    | true_ => rcases hcol with h' | h' <;> simp_all [NonAtom]
    | false_ => rcases hcol with h' | h' <;> simp_all [NonAtom]
    | asbool e op n => simp [Core] at hc
    | case_ v w e ty =>
      rcases hcol with h' | h'
      · show Core (columnSelfGroup _ _) = true ∧ WG (columnSelfGroup _ _) = true ∧ wouldGroup _ (columnSelfGroup _ _) = false
        rw [h']; exact ⟨hc, hw, hg'⟩
      · simp [NonAtom] at h'
    | cast e ty =>
      rcases hcol with h' | h'
      · show Core (columnSelfGroup _ _) = true ∧ WG (columnSelfGroup _ _) = true ∧ wouldGroup _ (columnSelfGroup _ _) = false
        rw [h']; exact ⟨hc, hw, hg'⟩
      · simp [NonAtom] at h'
    | func n a ty =>
      rcases hcol with h' | h'
      · show Core (columnSelfGroup _ _) = true ∧ WG (columnSelfGroup _ _) = true ∧ wouldGroup _ (columnSelfGroup _ _) = false
        rw [h']; exact ⟨hc, hw, hg'⟩
      · simp [NonAtom] at h'
    | subq n ty => exact ⟨hc, hw, hg'⟩
    | inlist v ty eo => simp [Core] at hc
    | inrows r n eo => simp [Core] at hc
    | tuple_ es => simp [Core] at hc
    | litcol _ _ => simp [Core] at hc
    | ilikeOperand _ => simp [Core] at hc
    | absent => simp [Core] at hc

theorem coreBin_not_boolCtx {op : Op} (h : coreBin op = true) : boolCtx op = false := by
  cases op <;> simp [coreBin] at h <;> rfl

theorem coreBinD_not_boolCtx {op : Op} (h : coreBinD op = true) : boolCtx op = false := by
  rcases coreBinD_cases h with h | h
  · exact coreBin_not_boolCtx h
  · cases op <;> simp [coreDiv] at h <;> rfl

theorem coreBinD_of_bin {op : Op} (h : coreBin op = true) : coreBinD op = true := by
  simp [coreBinD, h]

theorem coreBinD_of_div {op : Op} (h : coreDiv op = true) : coreBinD op = true := by
  simp [coreBinD, h]

theorem coreUn_not_boolCtx {op : Op} (h : coreUn op = true) : boolCtx op = false := by
  cases op <;> simp [coreUn] at h <;> rfl

/-- **mkBinary_WG**: `BinaryExpression(left, right, op)` over well grouped core operands is a
    well grouped core element -/
theorem mkBinary_WG' (l r : SaExpr) (op : Op) (ty : Ty) (n : Option Op) (hop : coreBinD op = true)
    (hcl : Core l = true) (hwl : WG l = true) (hcr : Core r = true) (hwr : WG r = true) :
    Core (mkBinary l r op ty n none) = true ∧ WG (mkBinary l r op ty n none) = true := by
  obtain ⟨c1, w1, g1⟩ := selfGroup_core op l hcl hwl (Or.inl (coreBinD_not_boolCtx hop))
  obtain ⟨c2, w2, g2⟩ := selfGroup_core op r hcr hwr (Or.inl (coreBinD_not_boolCtx hop))
  simp [mkBinary, Core, WG, hop, c1, c2, w1, w2, g1, g2]

theorem mkBinary_WG (l r : SaExpr) (op : Op) (ty : Ty) (n : Option Op) (hop : coreBin op = true)
    (hcl : Core l = true) (hwl : WG l = true) (hcr : Core r = true) (hwr : WG r = true) :
    Core (mkBinary l r op ty n none) = true ∧ WG (mkBinary l r op ty n none) = true :=
  mkBinary_WG' l r op ty n (coreBinD_of_bin hop) hcl hwl hcr hwr

/-- **negImpl_WG** / `UnaryExpression(x, operator=op)` -/
theorem unary_WG (x : SaExpr) (op : Op) (ty : Ty) (hop : coreUn op = true)
    (hc : Core x = true) (hw : WG x = true) :
    Core (.unary op (selfGroup (some op) x) ty) = true ∧
      WG (.unary op (selfGroup (some op) x) ty) = true := by
  obtain ⟨c1, w1, g1⟩ := selfGroup_core op x hc hw (Or.inl (coreUn_not_boolCtx hop))
  simp [Core, WG, hop, c1, w1, g1]

theorem map_selfGroup_core (op : Op) (hb : boolCtx op = false) :
    ∀ cs : List SaExpr, CoreList cs = true → (∀ c ∈ cs, WG c = true) →
      CoreList (cs.map (selfGroup (some op))) = true ∧ WGList op (cs.map (selfGroup (some op))) = true
  | [], _, _ => ⟨rfl, rfl⟩
  | c :: cs, hc, hw => by
    simp only [CoreList, Bool.and_eq_true] at hc
    obtain ⟨c1, w1, g1⟩ := selfGroup_core op c hc.1 (hw c (by simp)) (Or.inl hb)
    obtain ⟨c2, w2⟩ := map_selfGroup_core op hb cs hc.2 (fun x hx => hw x (by simp [hx]))
    simp [List.map_cons, CoreList, WGList, c1, w1, g1, c2, w2]

/-- **constructForList_WG**: `ExpressionClauseList._construct_for_list(op, …)` -/
theorem constructForList_WG (op : Op) (ty : Ty) (cs : List SaExpr) (hop : coreList op = true)
    (hb : boolCtx op = false) (hlen : 2 ≤ cs.length) (hc : CoreList cs = true)
    (hw : ∀ c ∈ cs, WG c = true) :
    Core (constructForList op ty cs) = true ∧ WG (constructForList op ty cs) = true := by
  obtain ⟨c1, w1⟩ := map_selfGroup_core op hb cs hc hw
  simp [constructForList, Core, WG, hop, c1, w1, hlen]

end SaVerif.Expr


namespace SaVerif.Expr
open SaVerif.Expr.Gen SaVerif.Pratt

/-! ### the compile-time rewriting is the identity on the fragment -/

theorem strOpKind_coreD {op : Op} (h : coreBinD op = true) : strOpKind op = none := by
  rcases coreBinD_cases h with h | h
  · cases op <;> simp [coreBin] at h <;> rfl
  · cases op <;> simp [coreDiv] at h <;> rfl

theorem strOpKind_core {op : Op} (h : coreBin op = true) : strOpKind op = none := by
  cases op <;> simp [coreBin] at h <;> rfl

mutual
theorem lower_core : ∀ e : SaExpr, Core e = true → lower e = e
  | .col _ _, _ => rfl
  | .bind _ _, _ => rfl
  | .null, _ => rfl
  | .true_, _ => rfl
  | .false_, _ => rfl
  | .grouping e, hc => by
    simp only [lower]
    rw [lower_core e (by simpa [Core] using hc)]
  | .binary op l r n esc ty, hc => by
    obtain ⟨hcl, hk⟩ := core_binary hc
    have hso : strOpKind op = none := by
      rcases hk with ⟨hop, _, _⟩ | ⟨hlk, _, _, _⟩ | ⟨hin, _, _⟩ | ⟨hbo, _, _⟩
      · exact strOpKind_coreD hop
      · cases op <;> simp [likeOp] at hlk <;> rfl
      · cases op <;> simp [inOp] at hin <;> rfl
      · cases op <;> simp [btwOp] at hbo <;> rfl
    have hlr : lower r = r := by
      rcases hk with ⟨_, _, hcr⟩ | ⟨_, _, _, hcr⟩ | ⟨_, _, hir⟩ | ⟨_, _, hbr⟩
      · exact lower_core r hcr
      · exact lower_core r hcr
      · obtain ⟨vs, lty, he, _⟩ := inRight_cases hir
        subst he; rfl
      · obtain ⟨lo, hi, cty, he, hclo, hchi, _, _⟩ := coreBtw_cases hbr
        subst he
        simp only [lower, lowerList, lower_core lo hclo, lower_core hi hchi]
    simp only [lower, hso, lower_core l hcl, hlr]
  | .unary op e ty, hc => by
    simp only [Core, Bool.and_eq_true] at hc
    simp only [lower, lower_core e hc.2]
  | .clist op cs gr bl ty, hc => by
    simp only [Core, Bool.and_eq_true] at hc
    simp only [lower, lowerList_core cs hc.2]
  | .asbool _ _ _, hc => by simp [Core] at hc
  | .case_ v ws e ty, hc => by
    simp only [Core, Bool.and_eq_true, Bool.or_eq_true] at hc
    obtain ⟨⟨⟨⟨hcv, hcw⟩, _⟩, _⟩, hce⟩ := hc
    have hv : lower v = v := by
      rcases hcv with h | h
      · cases v <;> simp [isAbsent] at h; rfl
      · exact lower_core v h
    have he : lower e = e := by
      rcases hce with h | h
      · cases e <;> simp [isAbsent] at h; rfl
      · exact lower_core e h
    simp only [lower, hv, he, lowerList_core ws hcw]
  | .cast e ty, hc => by
    simp only [lower, lower_core e (by simpa [Core] using hc)]
  | .func n args ty, hc => by
    simp only [lower, lowerList_core args (by simp only [Core, Bool.and_eq_true] at hc; exact hc.2)]
  | .subq _ _, _ => rfl
  | .inlist _ _ _, hc => by simp [Core] at hc
  | .inrows _ _ _, hc => by simp [Core] at hc
  | .tuple_ _, hc => by simp [Core] at hc
  | .litcol _ _, hc => by simp [Core] at hc
  | .ilikeOperand _, hc => by simp [Core] at hc
  | .absent, hc => by simp [Core] at hc

theorem lowerList_core : ∀ cs : List SaExpr, CoreList cs = true → lowerList cs = cs
  | [], _ => rfl
  | c :: cs, hc => by
    simp only [CoreList, Bool.and_eq_true] at hc
    simp only [lowerList, lower_core c hc.1, lowerList_core cs hc.2]
end

/-- on the fragment, what the compiler emits is `render` of the element itself -/
theorem emit_core (d : Dialect) (e : SaExpr) (h : Core e = true) : emit d e = render d true e := by
  simp [emit, lower_core e h]

end SaVerif.Expr
