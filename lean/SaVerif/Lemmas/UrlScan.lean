import SaVerif.Lemmas.UrlQuery
import Std.Data.String.ToInt
/-! Helper lemmas about M-URL, part 3: the regex scanner on rendered segments. -/
namespace SaVerif.Url

/-! ### generic -/

theorem tw_stop {α} {p : α → Bool} {a T : List α} (ha : ∀ x ∈ a, p x = true)
    (hT : ∀ c t, T = c :: t → p c = false) :
    (a ++ T).takeWhile p = a ∧ (a ++ T).dropWhile p = T := by
  cases T with
  | nil => simpa using takeWhile_append_nil ha
  | cons c t => exact takeWhile_append_cons t ha (hT c t rfl)

theorem tw_pass {α} {p : α → Bool} {a : List α} (b : List α) (ha : ∀ x ∈ a, p x = true) :
    (a ++ b).takeWhile p = a ++ b.takeWhile p ∧ (a ++ b).dropWhile p = b.dropWhile p := by
  induction a with
  | nil => simp
  | cons x a ih =>
    have hx := ha x List.mem_cons_self
    have := ih (fun y hy => ha y (List.mem_cons_of_mem _ hy))
    simp [hx, this.1, this.2]

theorem mem_of_mem_takeWhile {α} {p : α → Bool} {l : List α} {x : α} (h : x ∈ l.takeWhile p) : x ∈ l :=
  (List.takeWhile_sublist p).subset h

theorem mem_of_mem_dropWhile {α} {p : α → Bool} {l : List α} {x : α} (h : x ∈ l.dropWhile p) : x ∈ l :=
  (List.dropWhile_sublist p).subset h

/-- cutting at the last occurrence of `ch` -/
theorem revCut (ch : Char) (a : Str) {b : Str} (h : ch ∉ b) :
    (((a ++ ch :: b).reverse.dropWhile (· != ch)).drop 1).reverse = a := by
  have hrev : (a ++ ch :: b).reverse = b.reverse ++ ch :: a.reverse := by simp
  rw [hrev]
  have := takeWhile_append_cons (p := fun x => x != ch) (a := b.reverse) (c := ch) a.reverse
    (fun x hx => by
      simp only [bne_iff_ne, ne_eq]
      intro he
      exact h (he ▸ List.mem_reverse.1 hx)) (by simp)
  rw [this.2]
  simp

/-! ### userinfo -/

theorem scanUserinfo_noAt {s : Str} (h : '@' ∉ s) : scanUserinfo s = (none, none, s) := by
  unfold scanUserinfo
  have hr : (s.takeWhile (fun c => c != ':' && c != '/')).contains '@' = false := by
    simp only [List.contains_eq_mem, decide_eq_false_iff_not]
    exact fun hm => h (mem_of_mem_takeWhile hm)
  simp only [hr, Bool.false_eq_true, if_false]
  split
  · rename_i rest1 heq
    have : '@' ∉ rest1 := by
      intro hm
      exact h (mem_of_mem_dropWhile (p := fun c => c != ':' && c != '/') (heq ▸ List.mem_cons_of_mem _ hm))
    simp [this]
  · rfl

theorem scanUserinfo_userpw {qu qp : Str} (T : Str)
    (hu : ∀ x ∈ qu, x ≠ ':' ∧ x ≠ '/') (hp : '@' ∉ qp) :
    scanUserinfo (qu ++ ':' :: (qp ++ '@' :: T)) = (some qu, some qp, T) := by
  unfold scanUserinfo
  have h1 := takeWhile_append_cons (p := fun c => c != ':' && c != '/') (a := qu) (c := ':')
    (qp ++ '@' :: T) (fun x hx => by simp [(hu x hx).1, (hu x hx).2]) (by simp)
  rw [h1.1, h1.2]
  have h2 := takeWhile_append_cons (p := fun c => c != '@') (a := qp) (c := '@') T
    (fun x hx => by
      simp only [bne_iff_ne, ne_eq]
      intro he; exact hp (he ▸ hx)) (by simp)
  simp only
  have hc : (qp ++ '@' :: T).contains '@' = true := by simp
  rw [if_pos hc, h2.1, h2.2]
  rfl

theorem scanUserinfo_user {qu : Str} {T : Str}
    (hu : ∀ x ∈ qu, x ≠ ':' ∧ x ≠ '/' ∧ x ≠ '@') (hT : '@' ∉ T) :
    scanUserinfo (qu ++ '@' :: T) = (some qu, none, T) := by
  unfold scanUserinfo
  have hpass := tw_pass (p := fun c => c != ':' && c != '/') (a := qu ++ ['@']) T (by
    intro x hx
    rcases List.mem_append.1 hx with hx | hx
    · simp [(hu x hx).1, (hu x hx).2.1]
    · simp only [List.mem_singleton] at hx; subst hx; decide)
  have hs : qu ++ '@' :: T = (qu ++ ['@']) ++ T := by simp
  rw [hs, hpass.1, hpass.2]
  have hcont : ((qu ++ ['@']) ++ T.takeWhile (fun c => c != ':' && c != '/')).contains '@' = true := by
    simp
  have hcut : beforeLastAt ((qu ++ ['@']) ++ T.takeWhile (fun c => c != ':' && c != '/')) = qu := by
    unfold beforeLastAt
    have : (qu ++ ['@']) ++ T.takeWhile (fun c => c != ':' && c != '/')
        = qu ++ '@' :: T.takeWhile (fun c => c != ':' && c != '/') := by simp
    rw [this]
    exact revCut '@' qu (fun hm => hT (mem_of_mem_takeWhile hm))
  have hdrop : ((qu ++ ['@']) ++ T).drop (qu.length + 1) = T := by
    have : qu.length + 1 = (qu ++ ['@']).length := by simp
    rw [this, List.drop_left]
  simp only [hcont, if_true, hcut, hdrop]
  split
  · rename_i rest1 heq
    have : '@' ∉ rest1 := by
      intro hm
      exact hT (mem_of_mem_dropWhile (p := fun c => c != ':' && c != '/') (heq ▸ List.mem_cons_of_mem _ hm))
    simp [this]
  · rfl

/-! ### host -/

/-- a segment boundary: the rest is empty or starts with one of `: / ?` -/
def StartsDelim (T : Str) : Prop := ∀ c t, T = c :: t → (c = ':' ∨ c = '/' ∨ c = '?')

theorem scanHost_none {T : Str} (hT : StartsDelim T) : scanHost T = (none, none, T) := by
  unfold scanHost
  cases T with
  | nil => simp
  | cons c t =>
    have hc := hT c t rfl
    have hne : c ≠ '[' := by rcases hc with h | h | h <;> (subst h; decide)
    have htw : (c :: t).takeWhile (fun c => c != '/' && c != ':' && c != '?') = [] := by
      rcases hc with h | h | h <;> (subst h; simp)
    simp only [htw, List.isEmpty_nil, if_true]
    split
    · rename_i t' heq
      exact absurd (List.cons.inj heq).1 hne
    · rfl

theorem scanHost_v4 {h T : Str} (hne : h ≠ []) (hh : ∀ x ∈ h, x ≠ '/' ∧ x ≠ ':' ∧ x ≠ '?')
    (hb : ∀ t, h ≠ '[' :: t) (hT : StartsDelim T) : scanHost (h ++ T) = (some h, none, T) := by
  unfold scanHost
  have htw := tw_stop (p := fun c => c != '/' && c != ':' && c != '?') (a := h) (T := T)
    (fun x hx => by simp [(hh x hx).1, (hh x hx).2.1, (hh x hx).2.2])
    (fun c t he => by rcases hT c t he with h | h | h <;> (subst h; simp))
  have hemp : h.isEmpty = false := by
    cases h with
    | nil => exact absurd rfl hne
    | cons _ _ => rfl
  simp only [htw.1, hemp, Bool.false_eq_true, if_false, List.drop_left]
  split
  · rename_i t heq
    exfalso
    cases h with
    | nil => exact hne rfl
    | cons x xs =>
      simp only [List.cons_append, List.cons.injEq] at heq
      exact hb xs (by rw [heq.1])
  · rfl

theorem scanHost_v6 {h P R : Str} (hne : h ≠ []) (hh : ∀ x ∈ h, x ≠ '/' ∧ x ≠ '?')
    (hP : ∀ x ∈ P, x ≠ '/' ∧ x ≠ '?' ∧ x ≠ ']')
    (hR : ∀ c t, R = c :: t → (c = '/' ∨ c = '?')) :
    scanHost ('[' :: (h ++ ']' :: (P ++ R))) = (none, some h, P ++ R) := by
  unfold scanHost
  simp only
  have hrun := tw_stop (p := fun c => c != '/' && c != '?') (a := h ++ ']' :: P) (T := R)
    (fun x hx => by
      rcases List.mem_append.1 hx with hx | hx
      · simp [(hh x hx).1, (hh x hx).2]
      · rcases List.mem_cons.1 hx with hx | hx
        · subst hx; decide
        · simp [(hP x hx).1, (hP x hx).2.1])
    (fun c t he => by rcases hR c t he with h | h <;> (subst h; simp))
  have hassoc : h ++ ']' :: (P ++ R) = (h ++ ']' :: P) ++ R := by simp
  rw [hassoc, hrun.1]
  have hcont : (h ++ ']' :: P).contains ']' = true := by simp
  have hcut : (((h ++ ']' :: P).reverse.dropWhile (· != ']')).drop 1).reverse = h :=
    revCut ']' h (fun hm => (hP _ hm).2.2 rfl)
  have hemp : h.isEmpty = false := by
    cases h with
    | nil => exact absurd rfl hne
    | cons _ _ => rfl
  simp only [hcont, if_true, hcut, hemp, Bool.false_eq_true, if_false]
  have : ((h ++ ']' :: P) ++ R).drop (h.length + 1) = P ++ R := by
    have e : (h ++ ']' :: P) ++ R = (h ++ [']']) ++ (P ++ R) := by simp
    have l : h.length + 1 = (h ++ [']']).length := by simp
    rw [e, l, List.drop_left]
  rw [this]


/-! ### port -/

theorem port_chars (p : Int) : ∀ c ∈ (toString p).toList, c.isDigit = true ∨ c = '-' := by
  intro c hc
  rw [Int.toString_eq_repr, Int.repr_eq_if] at hc
  split at hc
  · rw [Nat.toList_repr] at hc
    exact Or.inl (Nat.isDigit_of_mem_toDigits (by decide) (by decide) hc)
  · rw [String.toList_append, Nat.toList_repr] at hc
    rcases List.mem_append.1 hc with h | h
    · right
      have : "-".toList = ['-'] := by decide
      rw [this] at h
      simpa using h
    · exact Or.inl (Nat.isDigit_of_mem_toDigits (by decide) (by decide) h)

theorem not_ws_of_port_char {c : Char} (h : c.isDigit = true ∨ c = '-') : isWs c = false := by
  rcases h with h | h
  · simp only [Char.isDigit, Bool.and_eq_true, decide_eq_true_eq] at h
    have h1 : 48 ≤ c.toNat := by
      have := h.1
      exact this
    unfold isWs
    have e1 : (c == ' ') = false := by
      simp only [beq_eq_false_iff_ne, ne_eq]; intro he; subst he; revert h1; decide
    have e2 : (c == '\t') = false := by
      simp only [beq_eq_false_iff_ne, ne_eq]; intro he; subst he; revert h1; decide
    have e3 : (c == '\n') = false := by
      simp only [beq_eq_false_iff_ne, ne_eq]; intro he; subst he; revert h1; decide
    have e4 : (c == '\r') = false := by
      simp only [beq_eq_false_iff_ne, ne_eq]; intro he; subst he; revert h1; decide
    have e5 : (c.toNat == 11) = false := by
      simp only [beq_eq_false_iff_ne, ne_eq]; omega
    have e6 : (c.toNat == 12) = false := by
      simp only [beq_eq_false_iff_ne, ne_eq]; omega
    simp [e1, e2, e3, e4, e5, e6]
  · subst h; decide

theorem dropWhile_none {α} {p : α → Bool} {l : List α} (h : ∀ x ∈ l, p x = false) : l.dropWhile p = l := by
  cases l with
  | nil => rfl
  | cons a l => simp [List.dropWhile_cons, h a List.mem_cons_self]

theorem parsePort_toString (p : Int) : parsePort (toString p).toList = some p := by
  unfold parsePort
  have hall : ∀ x ∈ (toString p).toList, isWs x = false :=
    fun x hx => not_ws_of_port_char (port_chars p x hx)
  have hstrip : (((toString p).toList.dropWhile isWs).reverse.dropWhile isWs).reverse = (toString p).toList := by
    rw [dropWhile_none hall, dropWhile_none (fun x hx => hall x (List.mem_reverse.1 hx)), List.reverse_reverse]
  rw [hstrip]
  dsimp only
  split
  · rename_i r heq
    have := port_chars p '+' (heq ▸ List.mem_cons_self)
    have hno : ¬ (('+' : Char).isDigit = true ∨ ('+' : Char) = '-') := by decide
    exact absurd this hno
  · rw [String.ofList_toList, Int.toString_eq_repr, Int.toInt?_repr]

end SaVerif.Url
