import SaVerif.Model.Topo
/-! Soundness of the `find_cycles` model: every reported node lies on a cycle. -/
namespace SaVerif.Topo

/-- reflexive-transitive reachability along dependency edges (parent → child) -/
inductive Reach (ts : List Edge) : Node → Node → Prop
  | refl (a : Node) : Reach ts a a
  | tail {a b c : Node} : Reach ts a b → (b, c) ∈ ts → Reach ts a c

theorem Reach.trans {ts : List Edge} {a b c : Node} (h1 : Reach ts a b) (h2 : Reach ts b c) :
    Reach ts a c := by
  induction h2 with
  | refl => exact h1
  | tail _ e ih => exact .tail ih e

/-- `x` lies on a directed cycle: it reaches itself through at least one edge -/
def OnCycle (ts : List Edge) (x : Node) : Prop :=
  ∃ y, (x, y) ∈ ts ∧ Reach ts y x

/-- the DFS stack (top first) is a chain of edges from bottom to top -/
def IsChain (ts : List Edge) : List Node → Prop
  | [] => True
  | [_] => True
  | x :: y :: r => (y, x) ∈ ts ∧ IsChain ts (y :: r)

theorem IsChain.tail {ts : List Edge} {x : Node} {l : List Node} (h : IsChain ts (x :: l)) :
    IsChain ts l := by
  cases l with
  | nil => trivial
  | cons y r => exact h.2

theorem mem_childrenOf {ts : List Edge} {p c : Node} : c ∈ childrenOf ts p ↔ (p, c) ∈ ts := by
  unfold childrenOf
  simp only [List.mem_eraseDups, List.mem_map, List.mem_filter, beq_iff_eq]
  constructor
  · rintro ⟨⟨a, b⟩, ⟨h1, h2⟩, h3⟩
    simp only at h2 h3
    subst h2; subst h3; exact h1
  · intro h
    exact ⟨(p, c), ⟨h, rfl⟩, rfl⟩

/-- every node of the slice `stack[stack.index(c):]` is reachable from `c` and
    reaches the top of the stack -/
theorem cycSlice_reach {ts : List Edge} :
    ∀ (stack : List Node) (top c : Node), stack.head? = some top → IsChain ts stack → c ∈ stack →
      ∀ y ∈ cycSlice stack c, Reach ts c y ∧ Reach ts y top := by
  intro stack
  induction stack with
  | nil => intro top c h; cases h
  | cons x xs ih =>
    intro top c hh hc hm y hy
    simp only [List.head?_cons, Option.some.injEq] at hh
    subst hh
    unfold cycSlice at hy
    split at hy
    · rename_i hxc
      simp only [beq_iff_eq] at hxc
      subst hxc
      simp only [List.mem_singleton] at hy
      subst hy
      exact ⟨.refl _, .refl _⟩
    · rename_i hxc
      simp only [beq_iff_eq] at hxc
      have hcx : c ∈ xs := by
        rcases List.mem_cons.1 hm with h | h
        · exact absurd h.symm hxc
        · exact h
      cases xs with
      | nil => cases hcx
      | cons x' r =>
        have hedge : (x', x) ∈ ts := hc.1
        have hch : IsChain ts (x' :: r) := hc.2
        have hx' : x' ∈ cycSlice (x' :: r) c := by
          unfold cycSlice; split <;> simp
        have ihh := ih x' c rfl hch hcx
        rcases List.mem_cons.1 hy with rfl | hy'
        · exact ⟨.tail (ihh x' hx').1 hedge, .refl _⟩
        · exact ⟨(ihh y hy').1, .tail (ihh y hy').2 hedge⟩

theorem cycSlice_onCycle {ts : List Edge} (stack : List Node) (top c : Node)
    (hh : stack.head? = some top) (hc : IsChain ts stack) (hm : c ∈ stack) (he : (top, c) ∈ ts) :
    ∀ y ∈ cycSlice stack c, OnCycle ts y := by
  intro y hy
  obtain ⟨h1, h2⟩ := cycSlice_reach stack top c hh hc hm y hy
  -- y →* top → c →* y
  cases h2 with
  | refl => exact ⟨c, he, h1⟩
  | tail h e =>
    -- y →* b → top ; unfold the first edge of the path y →* top → c →* y
    have hyy : Reach ts y y := .refl _
    -- general: from Reach y top (non-trivially or not), edge top→c and Reach c y build OnCycle y
    have key : ∀ {a b : Node}, Reach ts a b → ∀ {d : Node}, (b, d) ∈ ts → Reach ts d a →
        OnCycle ts a := by
      intro a b hab
      induction hab with
      | refl => intro d hbd hda; exact ⟨d, hbd, hda⟩
      | tail hab' e' ih' =>
        intro d hbd hda
        exact ih' e' (Reach.trans (Reach.tail (.refl _) hbd) hda)
    exact key (.tail h e) he h1

/-- invariant of the DFS: the stack is a chain and everything reported is on a cycle -/
structure DfsInv (ts : List Edge) (st : DfsState) : Prop where
  chain : IsChain ts st.stack
  sound : ∀ x ∈ st.output, OnCycle ts x

theorem scanChildren_inv {ts : List Edge} :
    ∀ (cs : List Node) (st : DfsState) (top : Node) (rest : List Node),
      st.stack = top :: rest → (∀ c ∈ cs, (top, c) ∈ ts) → DfsInv ts st →
      DfsInv ts (scanChildren cs st).1 ∧
        ((scanChildren cs st).2 = false → (scanChildren cs st).1.stack = st.stack) := by
  intro cs
  induction cs with
  | nil => intro st top rest _ _ hinv; exact ⟨hinv, fun _ => rfl⟩
  | cons c cs ih =>
    intro st top rest hst hcs hinv
    have hedge : (top, c) ∈ ts := hcs c (by simp)
    simp only [scanChildren]
    -- st1
    generalize hst1 : (if st.stack.contains c = true then
        ({ st with todo := st.todo.filter (fun t => !(cycSlice st.stack c).contains t),
                   output := st.output ++ cycSlice st.stack c } : DfsState) else st) = st1
    have hstack1 : st1.stack = st.stack := by
      rw [← hst1]; split <;> rfl
    have hinv1 : DfsInv ts st1 := by
      rw [← hst1]
      split
      · rename_i hcont
        refine ⟨hinv.chain, ?_⟩
        intro x hx
        simp only [List.mem_append] at hx
        rcases hx with hx | hx
        · exact hinv.sound x hx
        · have hm : c ∈ st.stack := by simpa using hcont
          exact cycSlice_onCycle st.stack top c (by rw [hst]; rfl) hinv.chain hm hedge x hx
      · exact hinv
    split
    · -- push
      refine ⟨⟨?_, hinv1.sound⟩, fun h => by cases h⟩
      show IsChain ts (c :: st1.stack)
      rw [hstack1, hst]
      exact ⟨hedge, by rw [← hst]; exact hinv.chain⟩
    · have := ih st1 top rest (by rw [hstack1, hst]) (fun c' hc' => hcs c' (by simp [hc'])) hinv1
      exact ⟨this.1, fun h => by rw [this.2 h, hstack1]⟩

theorem dfsLoop_inv {ts : List Edge} :
    ∀ (fuel : Nat) (st : DfsState), DfsInv ts st → DfsInv ts (dfsLoop ts fuel st) := by
  intro fuel
  induction fuel with
  | zero => intro st h; exact h
  | succ n ih =>
    intro st hinv
    simp only [dfsLoop]
    split
    · exact hinv
    · rename_i top rest hst
      have hsc := scanChildren_inv (ts := ts) (childrenOf ts top) st top rest hst
        (fun c hc => mem_childrenOf.1 hc) hinv
      generalize hres : scanChildren (childrenOf ts top) st = res at hsc
      obtain ⟨st', pushed⟩ := res
      simp only at hsc ⊢
      split
      · exact ih _ hsc.1
      · rename_i hp
        have hstk : st'.stack = st.stack := hsc.2 (by simpa using hp)
        apply ih
        refine ⟨?_, hsc.1.sound⟩
        show IsChain ts rest
        have := hsc.1.chain
        rw [hstk, hst] at this
        exact this.tail

theorem findCyclesFrom_sound {ts : List Edge} (nodes : List Node) (start : Node) (out : List Node)
    (h : ∀ x ∈ out, OnCycle ts x) : ∀ x ∈ findCyclesFrom ts nodes start out, OnCycle ts x := by
  unfold findCyclesFrom
  exact (dfsLoop_inv _ _ ⟨by simp [IsChain], h⟩).sound

theorem findCycles_sound_aux {ts : List Edge} (nodes : List Node) :
    ∀ (l : List Node) (out : List Node), (∀ x ∈ out, OnCycle ts x) →
      ∀ x ∈ l.foldl (fun out n => findCyclesFrom ts nodes n out) out, OnCycle ts x := by
  intro l
  induction l with
  | nil => intro out h; simpa using h
  | cons a l ih =>
    intro out h
    simp only [List.foldl_cons]
    exact ih _ (findCyclesFrom_sound nodes a out h)

end SaVerif.Topo
