import SaVerif.Lemmas.Sess
/-! `session._new` along the snapshot-restore path of M-ORM/Sess. -/
set_option linter.unusedSimpArgs false
namespace SaVerif.Sess

@[simp] theorem new_setO (σ : Sess) (o : Oid) (f : Obj → Obj) : (setO σ o f).new = σ.new := rfl
@[simp] theorem new_emit (σ : Sess) (e : Ev) (o : Oid) : (emit σ e o).new = σ.new := rfl
@[simp] theorem new_updTxn (σ : Sess) (f : Txn → Txn) : (updTxn σ f).new = σ.new := by
  unfold updTxn; split <;> rfl
@[simp] theorem new_autobegin (σ : Sess) : (autobegin σ).new = σ.new := by
  unfold autobegin; split <;> rfl
@[simp] theorem new_popTxnDeleted (σ : Sess) (o : Oid) : (popTxnDeleted σ o).new = σ.new := by
  unfold popTxnDeleted; split <;> rfl
@[simp] theorem new_markNondetIf (c : Bool) (σ : Sess) : (markNondetIf c σ).new = σ.new := by
  unfold markNondetIf; split <;> rfl
@[simp] theorem new_imSafeDiscard (σ : Sess) (o : Oid) : (imSafeDiscard σ o).new = σ.new := by
  unfold imSafeDiscard; repeat' split
  all_goals rfl
@[simp] theorem new_imReplace (σ : Sess) (o : Oid) : (imReplace σ o).new = σ.new := by
  unfold imReplace; repeat' split
  all_goals rfl
@[simp] theorem new_imAdd (σ : Sess) (o : Oid) : (imAdd σ o).1.new = σ.new := by
  unfold imAdd; repeat' split
  all_goals rfl
@[simp] theorem new_detachOne (t : Bool) (σ : Sess) (o : Oid) : (detachOne t σ o).new = σ.new := by
  unfold detachOne; simp only; repeat' split
  all_goals rfl

theorem new_foldl {α : Type} (g : Sess → α → Sess) (hg : ∀ σ a, (g σ a).new = σ.new) :
    ∀ (l : List α) (σ : Sess), (l.foldl g σ).new = σ.new := by
  intro l
  induction l with
  | nil => intro σ; rfl
  | cons a t ih => intro σ; simp only [List.foldl_cons]; rw [ih, hg]

@[simp] theorem new_detachStates (σ : Sess) (os : List Oid) (t : Bool) : (detachStates σ os t).new = σ.new :=
  new_foldl _ (new_detachOne t) _ _

/-- `_expunge_states` loop body: `self._new.pop(state)` if present, `_new` untouched otherwise -/
theorem new_expungeOne (σ : Sess) (o : Oid) : (expungeOne σ o).new = σ.new.filter (· != o) := by
  unfold expungeOne
  split
  · rfl
  · rename_i hc
    have hno : o ∉ σ.new := by simpa using hc
    have : σ.new.filter (· != o) = σ.new := by
      apply List.filter_eq_self.2
      intro a ha
      simp only [bne_iff_ne, ne_eq]
      intro e; subst e; exact hno ha
    rw [this]
    split
    · simp
    · simp

theorem new_foldl_expungeOne : ∀ (os : List Oid) (σ : Sess),
    (os.foldl expungeOne σ).new = σ.new.filter (fun x => !os.contains x)
  | [], σ => by
    simp only [List.foldl_nil, List.contains_nil, Bool.not_false]
    exact (List.filter_eq_self.2 (fun _ _ => rfl)).symm
  | o :: os, σ => by
    simp only [List.foldl_cons]
    rw [new_foldl_expungeOne os, new_expungeOne, List.filter_filter]
    apply List.filter_congr
    intro x _
    simp only [List.contains_cons, Bool.not_or, bne_iff_ne, ne_eq]
    cases h1 : os.contains x <;> cases h2 : (x == o) <;> simp_all

@[simp] theorem new_beforeAttach (σ : Sess) (o : Oid) : (beforeAttach σ o).1.new = σ.new := by
  unfold beforeAttach; simp only; split <;> simp
@[simp] theorem new_afterAttach (σ : Sess) (o : Oid) : (afterAttach σ o).new = σ.new := by
  unfold afterAttach; simp only; split <;> rfl
@[simp] theorem new_deleted_upd (σ : Sess) (l : List Oid) : ({ σ with deleted := l } : Sess).new = σ.new := rfl

theorem new_bind {r : R} {f : Sess → R} {l : List Oid} (h : r.1.new = l) (hf : ∀ τ, (f τ).1.new = τ.new) :
    (r.bind f).1.new = l := by
  unfold R.bind
  split
  · exact h
  · rw [hf]; exact h

@[simp] theorem new_updateImpl (σ : Sess) (o : Oid) (r : Bool) : (updateImpl σ o r).1.new = σ.new := by
  unfold updateImpl
  simp only
  split
  · rfl
  · split
    · rfl
    · split
      · rfl
      · have h0 : ∀ τ : Sess, τ.new = σ.new → (beforeAttach τ o).1.new = σ.new := fun τ h => by
          rw [new_beforeAttach]; exact h
        apply new_bind
        · split
          · simp only [ok, new_imReplace, new_deleted_upd]
            apply h0
            split <;> simp
          · rw [new_imAdd]
            simp only [new_deleted_upd]
            apply h0
            split <;> simp
        · intro τ
          repeat' split
          all_goals first | rfl | simp [ok]

theorem new_revertDeletions : ∀ (os : List Oid) (σ : Sess), (revertDeletions σ os).1.new = σ.new
  | [], σ => rfl
  | o :: os, σ => by
    unfold revertDeletions
    exact new_bind (new_updateImpl _ _ _) (fun τ => new_revertDeletions os τ)

@[simp] theorem new_restoreKeySwitch (te : List Oid) (σ : Sess) (e : Oid × Nat × Nat) :
    (restoreKeySwitch te σ e).new = σ.new := by
  unfold restoreKeySwitch; simp only; split <;> simp

@[simp] theorem new_failNondet (c : Bool) (r : R) : (failNondet c r).1.new = r.1.new := by
  unfold failNondet; split <;> simp [fail]

/-- after `_restore_snapshot` of an existing transaction `session._new` is empty, whether or
    not the restoration itself raised -/
theorem new_restoreSnapshot (σ : Sess) (d : Bool) (h : σ.txns ≠ []) : (restoreSnapshot σ d).1.new = [] := by
  unfold restoreSnapshot
  split
  · rename_i he; exact absurd he h
  · rename_i t ts he
    simp only
    apply new_bind
    · rw [new_failNondet, new_revertDeletions, new_markNondetIf, new_foldl _ (new_restoreKeySwitch _)]
      unfold expungeStates
      rw [new_detachStates, new_foldl_expungeOne]
      apply List.filter_eq_nil_iff.2
      intro a ha
      simp only [Bool.not_eq_true', Bool.not_eq_false']
      have : a ∈ (t.tnew ++ σ.new).eraseDups := by
        rw [List.mem_eraseDups]
        exact List.mem_append_right _ ha
      simp only [List.contains_eq_mem]
      simp [this]
    · intro τ
      simp only [ok]
      apply new_foldl
      intro σ a
      split <;> simp

end SaVerif.Sess
